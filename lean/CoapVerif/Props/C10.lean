import CoapVerif.Lemmas.Server
namespace Coap.C10
open Coap Coap.Server Coap.Server.L Coap.Generated.Server

/-- P1: the transcription M of coap_dispatch()/handle_request() prescribes, up to the diagnostic content of
library-generated replies (SPEC DECISION D4), exactly the outcome S prescribes — for every configuration whose option
registrations fit, every resource table and every request. -/
theorem decision_eq_spec (cfg : Cfg) (tbl : Table) (rq : Request) (hfit : fits cfg) :
    (M.serverDecision cfg tbl rq).erase = S.serverSpec E cfg tbl rq := by
  unfold M.serverDecision S.serverSpec
  simp only [codeOk_eq]
  by_cases h1 : S.validCode rq.msg.code = true
  · simp only [h1, not_true_eq_false, if_false]
    by_cases h2 : isRequestCode rq.msg.code = true
    · simp only [h2, not_true_eq_false, if_false]
      by_cases h3 : rq.verdict.code = 168
      · simp [h3, Outcome.erase, Outcome.outOfScope]
      · simp only [h3, if_false]
        have hfwd : decide (tbl.prx.isSome = true ∧ (hasOpt rq.msg.opts 35 = true ∨ hasOpt rq.msg.opts 39 = true)) =
            (tbl.prx.isSome && (hasOpt rq.msg.opts 35 || hasOpt rq.msg.opts 39)) := by
          cases tbl.prx.isSome <;> cases hasOpt rq.msg.opts 35 <;> cases hasOpt rq.msg.opts 39 <;> rfl
        rw [hfwd]
        generalize (tbl.prx.isSome && (hasOpt rq.msg.opts 35 || hasOpt rq.msg.opts 39)) = fwd
        obtain ⟨hok, hcrit⟩ := critCheck_spec hfit fwd rq.msg.opts
        cases hbad : S.badOption cfg fwd rq.msg.opts with
        | true =>
          have hok' : (M.critCheck (M.knownFilter cfg) fwd rq.msg.opts).ok = false := by rw [hok, hbad]; rfl
          simp only [hok', Bool.false_eq_true, not_false_eq_true, if_true]
          by_cases hn : rq.msg.type = NON
          · simp only [hn, if_true]
            cases rq.mcast <;> simp [Outcome.erase, erase_emptyMsg]
          · simp only [hn, if_false]
            by_cases hc : rq.msg.type = CON
            · simp only [hc, if_true, erase_outcome, List.map_cons, List.map_nil, erase_errReply]
            · simp [hc, Outcome.erase, Outcome.nothing]
        | false =>
          have hok' : (M.critCheck (M.knownFilter cfg) fwd rq.msg.opts).ok = true := by rw [hok, hbad]; rfl
          simp only [hok', not_true_eq_false, if_false, Bool.false_eq_true]
          by_cases h9 : hasOpt rq.msg.opts 9 = true
          · simp [h9, Outcome.erase, Outcome.outOfScope]
          · simp only [h9, if_false, Bool.false_eq_true]
            by_cases ha : rq.msg.type = ACK
            · simp [ha, Outcome.erase, Outcome.nothing]
            · by_cases hr : rq.msg.type = RST
              · simp [ha, hr, Outcome.erase, Outcome.nothing]
              · simp only [ha, hr, or_self, if_false]
                by_cases htok : rq.msg.token.length > cfg.mts
                · simp only [htok, if_true]
                  by_cases hm : cfg.mts > 8
                  · simp only [hm, if_true, erase_outcome, List.map_cons, List.map_nil, erase_errReply]
                  · simp only [hm, if_false]
                    split <;> simp [Outcome.erase, erase_emptyMsg]
                · simp only [htok, if_false]
                  rw [hcrit hok']
                  exact handle_eq cfg tbl rq _ h3
    · simp [h2, Outcome.erase, Outcome.outOfScope]
  · simp only [h1]
    by_cases ht : rq.msg.type = CON <;> simp [ht, Outcome.erase, erase_emptyMsg]
end Coap.C10
