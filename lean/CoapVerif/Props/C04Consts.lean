import CoapVerif.Model.Duplicate
import CoapVerif.Generated.Consts2
/-
C04 / T1 (workstream T1Y) — the option filter consulted by coap_pdu_duplicate_lkd (Model/Duplicate.lean `filterSet`):
slot counts COAP_OPT_FILTER_LONG / _SHORT and the `is_long_option` threshold EVALUATED over 0..65535; C04 shares
Model/Build.lean with C01, whose numerals are tied in Props/C01Consts.lean (the editing functions are re-stated here).
-/
namespace Coap.C04
open Coap Coap.M Coap.Generated

/-- `coap_option_filter_set`: for every filter and number.  `is_long_option` is a threshold test
(`optFilterLongMonotone = 1`, all 65536 numbers evaluated) with least long number `optFilterLongThreshold` -/
theorem filterSet_matches_code (f : List Nat) (n : Nat) :
    C2.optFilterLongMonotone = 1 ∧
    filterSet f n =
      if f.contains n then (1, f)
      else if n ≥ C2.optFilterLongThreshold then
        (if (f.filter fun x => decide (x ≥ C2.optFilterLongThreshold)).length < C2.COAP_OPT_FILTER_LONG then (1, f ++ [n]) else (0, f))
      else
        (if (f.filter fun x => decide (x < C2.optFilterLongThreshold)).length < C2.COAP_OPT_FILTER_SHORT then (1, f ++ [n]) else (0, f)) := by
  refine ⟨rfl, ?_⟩
  have ht : C2.optFilterLongThreshold = 256 := rfl
  have h1 : (fun x => decide (x ≥ C2.optFilterLongThreshold)) = (fun x : Nat => decide (x > 255)) := by
    funext x; rw [ht]; simp only [ge_iff_le, gt_iff_lt]; congr 1
  have h2 : (fun x => decide (x < C2.optFilterLongThreshold)) = (fun x : Nat => decide (x ≤ 255)) := by
    funext x; rw [ht]; congr 1; exact propext Nat.lt_succ_iff
  rw [h1, h2]
  unfold filterSet
  by_cases hn : n > 255
  · have : n ≥ C2.optFilterLongThreshold := hn
    simp only [hn, this, if_true]; rfl
  · have : ¬ n ≥ C2.optFilterLongThreshold := hn
    simp only [hn, this, if_false]; rfl

/-- `coap_update_token` / `coap_add_token` bias selection used by the editing paths -/
theorem tokBias_matches_code (len : Nat) :
    tokBias len =
      if len < C2.COAP_TOKEN_EXT_1B_BIAS then some 0 else if len < C2.COAP_TOKEN_EXT_2B_BIAS then some 1
      else if len ≤ C2.COAP_TOKEN_EXT_MAX then some 2 else none := rfl

/-- `coap_opt_encode_size` as used by coap_insert_option / coap_update_option / coap_remove_option to size the move -/
theorem optEncodeSize_matches_code (delta length : Nat) :
    optEncodeSize delta length =
      1 + (if delta ≥ C2.optDeltaExt1 then (if delta < C2.optDeltaExt2 then 1 else 2) else 0)
        + (if length ≥ C2.optLenExt1 then (if length < C2.optLenExt2 then 1 else 2) else 0) + length := rfl

/-- the delta thresholds `13` / `269` in the in-place delta rewrites of `removeOption` / `insertOption`, the `% 65536`
of `uint16_t max_opt -= delta`, the `data.length > 65804` refusal of `updateOption` -/
theorem edit_numerals_match_code :
    (13 : Nat) = C2.optDeltaExt1 ∧ (269 : Nat) = C2.optDeltaExt2 ∧ (65536 : Nat) = C2.maxOptModulus ∧
    (65804 : Nat) = C2.COAP_TOKEN_EXT_MAX := by decide

end Coap.C04
