import CoapVerif.Model.TlsGate
import CoapVerif.Spec.TlsCreds
namespace Coap.C19
open Coap.TlsGate

theorem placeholder : prefilterCreates .other = false := rfl

end Coap.C19
