import CoapVerif.Lemmas.TlsGate
import CoapVerif.Lemmas.TlsLedger
import CoapVerif.Lemmas.TlsOrder
import CoapVerif.Lemmas.TlsNack
import CoapVerif.Lemmas.PskSelect
import CoapVerif.Spec.TlsCreds
/-
C19 — (D)TLS sessions exchange application data only after an authenticated handshake.

  M = Coap.TlsGate (CoapVerif/Model/TlsGate.lean): libcoap's DTLS and TLS session gating with GnuTLS as an oracle whose answers
      are part of every event.  `Sess.run` = a whole history of a session: ANY list of events (application sends, datagram
      arrivals, DTLS timer expiries, CoAP retransmission timer expiries, disconnects, release, reclamation), each with ANY
      list of oracle answers.  The trace theorems quantify over all of them (induction over the history, invariant
      `Inv` preserved by every function of M: Lemmas/TlsGate.lean); `Out.hsOkMark` marks the point where the oracle
      reported a completed handshake (emitted by `doHandshake` on `HsRes.ok` and nowhere else).
  ORACLE ASSUMPTION (trusted): GnuTLS reports a completed handshake only when both sides accepted the credentials.
  SPEC DECISIONS D19a-e: heads of Model/TlsGate.lean and Spec/TlsCreds.lean.
-/
namespace Coap.C19
open Coap.TlsGate Coap.TlsGate.Ctx

/-- a DTLS or TLS session (`Proto.dtls`, `Proto.tls`: anything but plain UDP) on which the oracle has not reported
success and which is not established -/
structure Unauth (s : Sess) : Prop where
  est : s.est = false
  st : s.state ≠ .established
  proto : s.proto ≠ .udp

/-- what the run-level induction carries between events -/
structure SessOk (m : Mon) (s : Sess) : Prop where
  ok : m.ok = true
  est : s.est = true → m.seen = true
  st : s.state = .established → m.seen = true
  proto : s.proto ≠ .udp

theorem sessOk_of_inv {m0 : Mon} {c : Ctx} (h : Inv m0 false c) : SessOk (m0.run c.out) c.s :=
  ⟨h.ok, h.est, h.st, h.proto⟩

theorem inv_of_sessOk {m : Mon} {s : Sess} (orc : List Orc) (h : SessOk m s) : Inv m false { s := s, orc := orc } :=
  ⟨by simpa using h.ok, by simpa using h.est, by simpa using h.st, by simp, h.proto⟩

theorem step_sessOk {m : Mon} {s : Sess} (e : Ev) (orc : List Orc) (h : SessOk m s) :
    SessOk (m.run (s.step e orc).2) (s.step e orc).1 :=
  sessOk_of_inv (stepCtx_inv s e orc (inv_of_sessOk orc h))

theorem run_sessOk {m : Mon} {s : Sess} (evs : List (Ev × List Orc)) (h : SessOk m s) :
    SessOk (m.run (s.run evs).2) (s.run evs).1 := by
  induction evs generalizing m s with
  | nil => simpa [Sess.run] using h
  | cons eo t ih =>
    obtain ⟨e, o⟩ := eo
    have h1 := step_sessOk e o h
    have h2 := ih h1
    simp only [Sess.run, Mon.run_append]
    exact h2

theorem unauth_sessOk {s : Sess} (h : Unauth s) : SessOk ⟨true, false⟩ s :=
  ⟨rfl, by simp [h.est], fun hs => absurd hs h.st, h.proto⟩

/-! ### reading the monitor -/

theorem mon_seen_mark (m : Mon) (l : List Out) (h : (m.run l).seen = true) : m.seen = true ∨ ∃ x ∈ l, x.isMark = true := by
  induction l generalizing m with
  | nil => exact Or.inl h
  | cons o t ih =>
    rcases ih _ h with h1 | ⟨x, hx, hm⟩
    · simp only [Mon.step, Bool.or_eq_true] at h1
      rcases h1 with h1 | h1
      · exact Or.inl h1
      · exact Or.inr ⟨o, by simp, h1⟩
    · exact Or.inr ⟨x, by simp [hx], hm⟩

theorem mon_split (m : Mon) (pre post : List Out) (o : Out) (h : (m.run (pre ++ o :: post)).ok = true)
    (ho : o.needsHs = true) : m.seen = true ∨ ∃ x ∈ pre, x.isMark = true := by
  rw [Mon.run_append] at h
  have h1 := Mon.ok_anti _ _ h
  simp only [Mon.run_cons] at h
  have h2 := Mon.ok_anti _ _ h
  simp only [Mon.step, ho, Bool.not_true, Bool.false_or, Bool.and_eq_true] at h2
  exact mon_seen_mark m pre h2.1.2

theorem mon_noclear (m : Mon) (l : List Out) (h : (m.run l).ok = true) : ∀ o ∈ l, o.isClear = false := by
  induction l generalizing m with
  | nil => simp
  | cons o t ih =>
    intro x hx
    simp only [List.mem_cons] at hx
    rcases hx with rfl | hx
    · have h' : ((m.step x).run t).ok = true := h
      have := Mon.ok_anti _ _ h'
      simp [Mon.step] at this
      exact this.2
    · exact ih _ h x hx

theorem isMark_eq {x : Out} (h : x.isMark = true) : x = .hsOkMark := by
  cases x <;> simp_all [Out.isMark]

/-! ### the property, over ALL histories -/

/-- No request is delivered to a server handler and no response to a client handler unless the TLS library reported a
completed handshake EARLIER on that session: in every history of a session that starts unauthenticated, every handler
call in the trace is preceded by the oracle's success. -/
theorem no_handler_before_hsOk {s : Sess} (h : Unauth s) (evs : List (Ev × List Orc)) (pre post : List Out) (o : Out)
    (htr : (s.run evs).2 = pre ++ o :: post) (ho : o.isHandler = true) : Out.hsOkMark ∈ pre := by
  have hk := (run_sessOk evs (unauth_sessOk h)).ok
  rw [htr] at hk
  have hn : o.needsHs = true := by cases o <;> simp_all [Out.isHandler, Out.needsHs]
  rcases mon_split _ pre post o hk hn with h1 | ⟨x, hx, hm⟩
  · simp at h1
  · rw [← isMark_eq hm]; exact hx

/-- Nothing the application queued — nothing at all — is written for the session before the handshake completed: every
PDU written in any history of an unauthenticated session is preceded by the oracle's success … -/
theorem nothing_queued_written_before_established {s : Sess} (h : Unauth s) (evs : List (Ev × List Orc))
    (pre post : List Out) (tls : Bool) (v : View) (sn : Option Nat)
    (htr : (s.run evs).2 = pre ++ Out.tx tls v sn cnt :: post) : Out.hsOkMark ∈ pre := by
  have hk := (run_sessOk evs (unauth_sessOk h)).ok
  rw [htr] at hk
  rcases mon_split _ pre post _ hk rfl with h1 | ⟨x, hx, hm⟩
  · simp at h1
  · rw [← isMark_eq hm]; exact hx

/-- … and every PDU of a DTLS session is written through the TLS layer (coap_dtls_send), never by the plain datagram
write: nothing goes out in clear, in any history. -/
theorem no_cleartext_on_dtls_session {s : Sess} (h : Unauth s) (evs : List (Ev × List Orc)) :
    ∀ o ∈ (s.run evs).2, ∀ v sn cnt, o ≠ Out.tx false v sn cnt := by
  intro o ho v sn cnt heq
  have := mon_noclear _ _ (run_sessOk evs (unauth_sessOk h)).ok o ho
  subst heq
  simp [Out.isClear] at this

/-- With credentials that do not match the oracle never reports success (oracle assumption); then the session never
becomes established: a session that IS established at the end of a history has the oracle's success in its trace. -/
theorem failure_never_establishes {s : Sess} (h : Unauth s) (evs : List (Ev × List Orc))
    (hst : (s.run evs).1.state = .established) : Out.hsOkMark ∈ (s.run evs).2 := by
  have hk := (run_sessOk evs (unauth_sessOk h)).st hst
  rcases mon_seen_mark _ _ hk with h1 | ⟨x, hx, hm⟩
  · simp at h1
  · rw [← isMark_eq hm]; exact hx

/-- the same for GnuTLS' own flag -/
theorem est_flag_only_after_hsOk {s : Sess} (h : Unauth s) (evs : List (Ev × List Orc))
    (he : (s.run evs).1.est = true) : Out.hsOkMark ∈ (s.run evs).2 := by
  have hk := (run_sessOk evs (unauth_sessOk h)).est he
  rcases mon_seen_mark _ _ hk with h1 | ⟨x, hx, hm⟩
  · simp at h1
  · rw [← isMark_eq hm]; exact hx

/-- The sessions histories start from are unauthenticated unless the oracle says otherwise in the creating call: the
client session made by coap_new_client_session_psk2 … -/
theorem newClient_sessOk (orc : List Orc) (bm : Bool := false) :
    SessOk ((⟨true, false⟩ : Mon).run (newClient orc bm).2) (newClient orc bm).1 := by
  have h0 : Inv ⟨true, false⟩ false ({ s := { proto := .dtls, typ := .client, blockMode := bm }, orc := orc } : Ctx) :=
    ⟨rfl, by simp, by simp, by simp, by simp⟩
  exact sessOk_of_inv (dtlsEstablishClient_inv h0)

/-- … and the server session made for a ClientHello. -/
theorem endpoint_sessOk (orc : List Orc) :
    SessOk ((⟨true, false⟩ : Mon).run (endpointRxUnknownCtx orc).out) (endpointRxUnknownCtx orc).s := by
  have h0 : Inv ⟨true, false⟩ false ({ s := { proto := .dtls, typ := .hello, appRef := false }, orc := orc } : Ctx) :=
    ⟨rfl, by simp, by simp, by simp, by simp⟩
  exact sessOk_of_inv (handleDgramForProto_inv (inv_emit_inert _ rfl h0))

/-- whole life of a client session, from coap_new_client_session_psk2 on (context with or without
COAP_BLOCK_USE_LIBCOAP: `bm`): no handler call, no PDU written before the oracle's success; nothing in clear -/
theorem client_life_gated (orc0 : List Orc) (evs : List (Ev × List Orc)) (pre post : List Out) (o : Out) (bm : Bool := false)
    (htr : (newClient orc0 bm).2 ++ ((newClient orc0 bm).1.run evs).2 = pre ++ o :: post) (ho : o.needsHs = true) :
    Out.hsOkMark ∈ pre ∧ o.isClear = false := by
  have hk := (run_sessOk evs (newClient_sessOk orc0 bm)).ok
  rw [← Mon.run_append, htr] at hk
  constructor
  · rcases mon_split _ pre post o hk ho with h1 | ⟨x, hx, hm⟩
    · simp at h1
    · rw [← isMark_eq hm]; exact hx
  · exact mon_noclear _ _ hk o (by simp)

/-- whole life of a server session, from the ClientHello that created it on -/
theorem server_life_gated (orc0 : List Orc) (evs : List (Ev × List Orc)) (pre post : List Out) (o : Out)
    (htr : (endpointRxUnknownCtx orc0).out ++ ((endpointRxUnknownCtx orc0).s.run evs).2 = pre ++ o :: post)
    (ho : o.needsHs = true) : Out.hsOkMark ∈ pre ∧ o.isClear = false := by
  have hk := (run_sessOk evs (endpoint_sessOk orc0)).ok
  rw [← Mon.run_append, htr] at hk
  constructor
  · rcases mon_split _ pre post o hk ho with h1 | ⟨x, hx, hm⟩
    · simp at h1
    · rw [← isMark_eq hm]; exact hx
  · exact mon_noclear _ _ hk o (by simp)

/-- the mark is the oracle's word: `doHandshake` emits it exactly when `gnutls_handshake` answered success -/
theorem mark_iff_oracle_ok (c : Ctx) :
    c.doHandshake.out = c.popHs.out ++ (if c.popHs.hsR = .ok then [Out.hsOkMark] else
      if c.popHs.hsR = .nocert ∨ c.popHs.hsR = .decrypt ∨ ((c.popHs.hsR = .certerr ∨ c.popHs.hsR = .cipher) ∧ c.popHs.s.sentAlert = false)
      then [Out.alert] else []) := by
  unfold Ctx.doHandshake
  simp only
  cases h : c.popHs.hsR <;> simp [Ctx.emit, Ctx.upd, Ctx.setRet] <;> split <;> simp_all [Ctx.emit, Ctx.upd, Ctx.setRet]

/-! ### cleartext CoAP at a DTLS endpoint -/

/-- A cleartext CoAP datagram (first byte 0x40..0x7f: version 1) from a peer without a session does not get past the
ClientHello pre-filter of coap_endpoint_get_session: no session, no output, no handler — whatever the oracle would say. -/
theorem cleartext_coap_at_dtls_endpoint_dropped (b : List Nat) (orc : List Orc) (h0 : 64 ≤ b.getD 0 0) :
    endpointRxUnknown (classify b) orc = (none, []) := by
  unfold endpointRxUnknown classify prefilterCreates
  split <;> rename_i hk <;> split at hk <;> simp_all
  split at hk <;> simp_all

/-- From a peer WITH a session the bytes go to the TLS library and nowhere else (coap_handle_dgram_for_proto): a
session without a TLS object ignores the datagram altogether … -/
theorem dgram_without_tls_ignored (c : Ctx) (hp : c.s.proto = .dtls) (ht : c.s.tls = false) (hy : c.s.typ ≠ .hello) :
    c.handleDgramForProto = c := by
  unfold Ctx.handleDgramForProto
  simp [hp, ht, hy]


/-! ### the delay queue: failure and success (one step, exact) -/

theorem dtlsFreeSession_shape (c : Ctx) :
    ∃ l, c.dtlsFreeSession.out = c.out ++ l ∧ (∀ o ∈ l, o = Out.bye ∨ o = Out.ev .closed) ∧
      c.dtlsFreeSession.s.delayq = c.s.delayq ∧ c.dtlsFreeSession.s.inflight = c.s.inflight ∧
      c.dtlsFreeSession.s.proto = c.s.proto := by
  unfold Ctx.dtlsFreeSession Ctx.freeEnv
  split
  · simp only
    split
    · exact ⟨[.bye, .ev .closed], by simp [Ctx.emit, Ctx.upd]⟩
    · exact ⟨[.ev .closed], by simp [Ctx.emit, Ctx.upd]⟩
  · exact ⟨[], by simp⟩

theorem sessionClose_shape (c : Ctx) :
    ∃ l, c.sessionClose.out = c.out ++ l ∧ (∀ o ∈ l, o = Out.bye ∨ o = Out.ev .closed) ∧
      c.sessionClose.s.delayq = c.s.delayq ∧ c.sessionClose.s.inflight = c.s.inflight ∧
      c.sessionClose.s.proto = c.s.proto := by
  obtain ⟨l, h1, h2, h3, h4, h5⟩ := dtlsFreeSession_shape c
  unfold Ctx.sessionClose
  split
  · exact ⟨[], by simp⟩
  · exact ⟨l, h1, h2, h3, h4, h5⟩
  · exact ⟨l, by simpa [Ctx.upd] using h1, h2, by simpa [Ctx.upd] using h3, by simpa [Ctx.upd] using h4,
      by simpa [Ctx.upd] using h5⟩

/-- the reliable-transport part of coap_session_disconnected_lkd emits TCP / session events only -/
theorem relTail_shape (st0 : SState) (c : Ctx) :
    ∃ l, (c.relTail st0).out = c.out ++ l ∧ (∀ o ∈ l, ∃ e, o = Out.evTcp e) ∧
      (c.relTail st0).s.delayq = c.s.delayq ∧ (c.relTail st0).s.inflight = c.s.inflight ∧
      (c.relTail st0).s.proto = c.s.proto := by
  unfold Ctx.relTail
  split
  · refine ⟨(if c.s.sockOpen = true then [Out.evTcp (if st0 = .connecting then .failed else .closed)] else []) ++
      (if st0 ≠ .none then [Out.evTcp (if st0 = .established then .sessClosed else .sessFailed)] else []), ?_, ?_, ?_, ?_, ?_⟩
    · by_cases h1 : c.s.sockOpen = true <;> by_cases h2 : st0 = .none <;> simp [h1, h2, Ctx.emit, Ctx.upd]
    · intro o ho
      simp only [List.mem_append] at ho
      rcases ho with ho | ho <;> split at ho <;> simp at ho <;> exact ⟨_, ho⟩
    · by_cases h1 : c.s.sockOpen = true <;> by_cases h2 : st0 = .none <;> simp [h1, h2, Ctx.emit, Ctx.upd]
    · by_cases h1 : c.s.sockOpen = true <;> by_cases h2 : st0 = .none <;> simp [h1, h2, Ctx.emit, Ctx.upd]
    · by_cases h1 : c.s.sockOpen = true <;> by_cases h2 : st0 = .none <;> simp [h1, h2, Ctx.emit, Ctx.upd]
  · exact ⟨[], by simp⟩

/-- everything coap_session_disconnected_lkd does (not an ICMP error) before the reliable-transport events and the close:
the NACKs, both queues emptied, the lg_crcv list deleted, state NONE (ESTABLISHED for UDP), con_active 0 -/
def discPre (c : Ctx) (r : Nack) : Ctx :=
  { c with out := c.out ++ c.discOuts r,
           s := { c.s with delayq := [], state := if c.s.proto = .udp then .established else .none, conActive := 0,
                           inflight := [], lgCrcv := [] } }

theorem disconnected_eq (c : Ctx) (r : Nack) (hr : r ≠ .icmp) (hi : c.s.inflight = []) :
    c.disconnected r = ((discPre c r).relTail c.s.state).sessionClose := by
  unfold Ctx.disconnected discPre
  simp [hr, hi, Ctx.upd]

/-- the delay-queue NACKs -/
def dqNacks (c : Ctx) (r : Nack) : List Out := (c.s.delayq.filter fun q : QMsg => q.con).map (nackOf r)

/-- what follows them in `discOuts` when nothing is in flight: the first lg_crcv entry's request, or the anonymous NACK —
either only if the delay queue held no Confirmable -/
def discRest (c : Ctx) (r : Nack) : List Out :=
  if (c.s.delayq.filter fun q : QMsg => q.con) = [] then
    (match c.s.lgCrcv with | g :: _ => [nackOf r g] | [] => [Out.nack r none none])
  else []

theorem discOuts_eq (c : Ctx) (r : Nack) (hr : r ≠ .icmp) (hi : c.s.inflight = []) :
    c.discOuts r = dqNacks c r ++ discRest c r := by
  unfold Ctx.discOuts Ctx.discLg Ctx.discFirst Ctx.discDq dqNacks discRest
  by_cases hf : (c.s.delayq.filter fun q : QMsg => q.con) = []
  · cases hl : c.s.lgCrcv <;> simp [hr, hi, hf, hl]
  · cases hl : c.s.lgCrcv <;> simp [hr, hi, hf, hl]

theorem sessionClose_state (c : Ctx) :
    c.sessionClose.s.state = c.s.state ∧ c.sessionClose.s.doingFirst = c.s.doingFirst ∧ c.sessionClose.s.lgCrcv = c.s.lgCrcv := by
  unfold Ctx.sessionClose Ctx.dtlsFreeSession Ctx.freeEnv
  split <;> (try split) <;> (try split) <;> simp [Ctx.emit, Ctx.upd]

theorem relTail_lg (st0 : SState) (c : Ctx) : (c.relTail st0).s.lgCrcv = c.s.lgCrcv := by
  unfold Ctx.relTail
  split
  · by_cases h1 : c.s.sockOpen = true <;> by_cases h2 : st0 = .none <;> simp [h1, h2, Ctx.emit, Ctx.upd]
  · rfl

theorem relTail_state_tls (st0 : SState) (c : Ctx) (hp : c.s.proto = .tls) :
    (c.relTail st0).s.state = c.s.state ∧ (c.relTail st0).s.doingFirst = false := by
  unfold Ctx.relTail
  simp only [hp, if_true]
  by_cases h1 : c.s.sockOpen = true <;> by_cases h2 : st0 = .none <;> simp [h1, h2, Ctx.emit, Ctx.upd]

/-- FULL STATEMENT (not proved as a trace theorem): in every history, each Confirmable that entered the delay queue
before the session was established has, once the handshake failed / was abandoned / the session was released, exactly
one NACK in the whole trace, none before that point, none after.
PROVED here: the failure step itself, exactly, for EVERY protocol of M (`Proto.dtls` and `Proto.tls`; see
`tls_queued_con_one_nack_on_failure` for the TLS instance).  Whenever coap_session_disconnected_lkd runs (handshake
failure, DTLS retransmissions exhausted, alert, TCP connection closed by the peer, application disconnect: every reason
but an ICMP error) on a session with nothing in flight — before establishment nothing is — its NACKs are precisely one
per Confirmable of the delay queue, in queue order (`map` over `filter`: each once), followed by NOTHING THAT NAMES A
MESSAGE IF THE DELAY QUEUE HELD A CONFIRMABLE: the only other named NACK the function can raise — the request of the
first lg_crcv entry, block mode — occurs only when the delay queue had no Confirmable at all (so a queued Confirmable that
also has an lg_crcv entry, e.g. an Observe registration, is never reported twice); then the TCP / session events, the
close; the delay queue and the lg_crcv list are empty afterwards and nothing is in flight: the messages are gone. -/
theorem queued_con_one_nack_on_failure_partial (c : Ctx) (r : Nack) (hr : r ≠ .icmp) (hi : c.s.inflight = []) :
    ∃ rest, (c.disconnected r).out = c.out ++ ((c.s.delayq.filter fun q : QMsg => q.con).map (nackOf r) ++ rest) ∧
      (∀ o ∈ rest, ∀ r' t sn, o = Out.nack r' (some t) sn →
        (c.s.delayq.filter fun q : QMsg => q.con) = [] ∧ ∃ g t', c.s.lgCrcv = g :: t' ∧ o = nackOf r g) ∧
      (c.disconnected r).s.delayq = [] ∧ (c.disconnected r).s.inflight = [] ∧ (c.disconnected r).s.lgCrcv = [] := by
  have hpre := disconnected_eq c r hr hi
  generalize hpd : discPre c r = pre at hpre
  have hpo : pre.out = c.out ++ (dqNacks c r ++ discRest c r) := by
    rw [← hpd, ← discOuts_eq c r hr hi]; rfl
  have hpq : pre.s.delayq = [] ∧ pre.s.inflight = [] ∧ pre.s.lgCrcv = [] := by rw [← hpd]; exact ⟨rfl, rfl, rfl⟩
  obtain ⟨l1, a1, a2, a3, a4, _⟩ := relTail_shape c.s.state pre
  obtain ⟨l2, b1, b2, b3, b4, _⟩ := sessionClose_shape (pre.relTail c.s.state)
  refine ⟨discRest c r ++ (l1 ++ l2), ?_, ?_, ?_, ?_, ?_⟩
  · rw [hpre, b1, a1, hpo]; simp [dqNacks, List.append_assoc]
  · intro o ho r' t sn heq
    simp only [List.mem_append] at ho
    rcases ho with ho | ho | ho
    · unfold discRest at ho
      split at ho
      · rename_i hf
        cases hl : c.s.lgCrcv with
        | nil => simp [hl] at ho; subst ho; simp at heq
        | cons g t' => simp [hl] at ho; exact ⟨hf, g, t', rfl, ho⟩
      · simp at ho
    · obtain ⟨e, rfl⟩ := a2 o ho; simp at heq
    · rcases b2 o ho with rfl | rfl <;> simp at heq
  · rw [hpre, b3, a3, hpq.1]
  · rw [hpre, b4, a4, hpq.2.1]
  · rw [hpre, (sessionClose_state _).2.2, relTail_lg, hpq.2.2]

/-- does this output report the message with ghost serial number `sn` to the application? -/
def names (sn : Nat) : Out → Bool
  | .nack _ (some _) (some k) => k == sn
  | _ => false

theorem countP_sn_one (l : List QMsg) (hnd : (l.map (·.sn)).Nodup) (q : QMsg) (hq : q ∈ l) :
    l.countP (fun m => m.sn == q.sn) = 1 := by
  induction l with
  | nil => simp at hq
  | cons m t ih =>
    simp only [List.map_cons, List.nodup_cons, List.mem_map, not_exists, not_and] at hnd
    simp only [List.mem_cons] at hq
    rcases hq with rfl | hq
    · have h0 : t.countP (fun m => m.sn == q.sn) = 0 := by
        rw [List.countP_eq_zero]
        intro x hx hxe
        exact hnd.1 x hx (by simpa using hxe)
      simp [List.countP_cons, h0]
    · have hne : (m.sn == q.sn) = false := by
        cases hb : (m.sn == q.sn) with
        | false => rfl
        | true =>
          have he : m.sn = q.sn := by simpa using hb
          exact absurd he.symm (hnd.1 q hq)
      simp [List.countP_cons, hne, ih hnd.2 hq]

/-- "each queued Confirmable request is reported by EXACTLY ONE NACK" at the failure step, as a count: with distinct
messages in the delay queue (ghost serial numbers; `appSend`/`appSendL` hand out fresh ones), the outputs
coap_session_disconnected_lkd adds contain exactly one NACK naming each queued Confirmable — whether or not the request
also has an lg_crcv entry (block mode: Observe, Non-confirmable, reliable transport) -/
theorem queued_con_exactly_one_nack_on_failure (c : Ctx) (r : Nack) (hr : r ≠ .icmp) (hi : c.s.inflight = [])
    (hnd : (c.s.delayq.map (·.sn)).Nodup) (q : QMsg) (hq : q ∈ c.s.delayq) (hc : q.con = true) :
    ∃ new, (c.disconnected r).out = c.out ++ new ∧ new.countP (names q.sn) = 1 := by
  obtain ⟨rest, h1, h2, _⟩ := queued_con_one_nack_on_failure_partial c r hr hi
  refine ⟨_, h1, ?_⟩
  have hqf : q ∈ c.s.delayq.filter fun q : QMsg => q.con := by simp [hq, hc]
  have hrest : rest.countP (names q.sn) = 0 := by
    rw [List.countP_eq_zero]
    intro o ho hn
    cases o with
    | nack r' t sn =>
      cases t with
      | none => simp [names] at hn
      | some t =>
        have := (h2 _ ho r' t sn rfl).1
        rw [this] at hqf; simp at hqf
    | _ => simp [names] at hn
  have hndf : ((c.s.delayq.filter fun q : QMsg => q.con).map (·.sn)).Nodup :=
    List.Nodup.sublist (List.Sublist.map _ List.filter_sublist) hnd
  have hdq : ((c.s.delayq.filter fun q : QMsg => q.con).map (nackOf r)).countP (names q.sn) = 1 := by
    rw [List.countP_map]
    have : (names q.sn ∘ nackOf r) = fun m : QMsg => m.sn == q.sn := by
      funext m; simp [names, nackOf]
    rw [this]
    exact countP_sn_one _ hndf q hqf
  rw [List.countP_append, hdq, hrest]

/-- the same at release, for every protocol: coap_session_free -> coap_session_mfree NACKs every Confirmable still in
the delay queue once (reason TLS failure on a DTLS session, NOT_DELIVERABLE otherwise), after deleting the lg_crcv
entries silently and closing the TLS object, and empties the queue -/
theorem queued_con_one_nack_on_release_any (c : Ctx) :
    ∃ l, c.sessionFree.out = c.out ++ (l ++ (c.s.delayq.filter fun q : QMsg => q.con).map
        (nackOf (if c.s.proto = .dtls then .tls else .undeliv))) ∧
      (∀ o ∈ l, o = Out.bye ∨ o = Out.ev .closed) ∧ c.sessionFree.s.delayq = [] ∧ c.sessionFree.s.freed = true ∧
      c.sessionFree.s.lgCrcv = [] := by
  obtain ⟨l, h1, h2, h3, _, h5⟩ := sessionClose_shape (c.upd fun s => { s with lgCrcv := [] })
  have h6 := (sessionClose_state (c.upd fun s => { s with lgCrcv := [] })).2.2
  refine ⟨l, ?_, h2, ?_, ?_, ?_⟩
  · unfold Ctx.sessionFree
    simp only [Ctx.upd] at h1 h3 h5 ⊢
    simp [h1, h3, h5, List.append_assoc]
  · simp [Ctx.sessionFree, Ctx.upd]
  · simp [Ctx.sessionFree, Ctx.upd]
  · simp only [Ctx.sessionFree, Ctx.upd] at h6 ⊢
    simpa using h6

/-- … on a DTLS session -/
theorem queued_con_one_nack_on_release (c : Ctx) (hp : c.s.proto = .dtls) :
    ∃ l, c.sessionFree.out = c.out ++ (l ++ (c.s.delayq.filter fun q : QMsg => q.con).map (nackOf .tls)) ∧
      (∀ o ∈ l, o = Out.bye ∨ o = Out.ev .closed) ∧ c.sessionFree.s.delayq = [] ∧ c.sessionFree.s.freed = true ∧
      c.sessionFree.s.lgCrcv = [] := by
  have := queued_con_one_nack_on_release_any c
  simpa [hp] using this

/-- … on a TLS session -/
theorem tls_queued_con_one_nack_on_release (c : Ctx) (hp : c.s.proto = .tls) :
    ∃ l, c.sessionFree.out = c.out ++ (l ++ (c.s.delayq.filter fun q : QMsg => q.con).map (nackOf .undeliv)) ∧
      (∀ o ∈ l, o = Out.bye ∨ o = Out.ev .closed) ∧ c.sessionFree.s.delayq = [] ∧ c.sessionFree.s.freed = true ∧
      c.sessionFree.s.lgCrcv = [] := by
  have := queued_con_one_nack_on_release_any c
  simpa [hp] using this

/-- While the session is not established the gate holds everything back: coap_send writes nothing, NACKs nothing and
appends the message to the delay queue (submission order); a message id already waiting there is refused. -/
theorem send_before_established_is_held (c : Ctx) (con : Bool) (code mid : Nat) (tok : String)
    (hs : c.s.state ≠ .established) (hc : c.s.typ = .client) (hp : c.s.proto = .dtls)
    (hm : c.s.delayq.any (·.mid = mid) = false) :
    (c.appSend con code mid tok).out = c.out ∧
      (c.appSend con code mid tok).s.delayq = c.s.delayq ++ [{ sn := c.s.next, con := con, code := code, mid := mid, tok := tok }] := by
  unfold Ctx.appSend Ctx.sendInternal Ctx.sendPdu Ctx.delayPdu
  simp [Ctx.upd, Ctx.setRet, hs, hc, hp, hm, DELAYED]

/-- the same with COAP_BLOCK_USE_LIBCOAP (`appSendL`): held back, nothing written, nothing NACKed; a request that needs
large-receive / observe tracking (Non-confirmable, or Observe option) ALSO gets an lg_crcv entry, at the head of the list —
the very situation in which `queued_con_exactly_one_nack_on_failure` matters -/
theorem send_before_established_is_held_block_mode (c : Ctx) (con obs : Bool) (code mid : Nat) (tok : String)
    (hs : c.s.state ≠ .established) (hc : c.s.typ = .client) (hp : c.s.proto = .dtls) (hb : c.s.blockMode = true)
    (hm : c.s.delayq.any (·.mid = mid) = false) :
    (c.appSendL con obs code mid tok).out = c.out ∧
      (c.appSendL con obs code mid tok).s.delayq = c.s.delayq ++ [{ sn := c.s.next, con := con, code := code, mid := mid, tok := tok }] ∧
      (c.appSendL con obs code mid tok).s.lgCrcv =
        (if !con || obs then { sn := c.s.next, con := con, code := code, mid := mid, tok := tok } :: eraseTok tok c.s.lgCrcv
         else c.s.lgCrcv) := by
  unfold Ctx.appSendL Ctx.sendLkdTail Ctx.needLgCrcv Ctx.sendInternal Ctx.sendPdu Ctx.delayPdu
  cases con <;> cases obs <;> simp [Ctx.upd, Ctx.setRet, hs, hc, hp, hb, hm, DELAYED]

/-- without block mode `appSendL` is `appSend` -/
theorem appSendL_no_block_mode (c : Ctx) (con obs : Bool) (code mid : Nat) (tok : String) (hb : c.s.blockMode = false) :
    c.appSendL con obs code mid tok = c.appSend con code mid tok := by
  unfold Ctx.appSendL Ctx.appSend Ctx.sendLkdTail
  simp [Ctx.upd, hb]

/-- which messages one pass of coap_session_connected writes: everything up to (not including) the first Confirmable
that finds another Confirmable active (NSTART = 1) -/
def sentPrefix : Nat → List QMsg → List QMsg
  | _, [] => []
  | ca, m :: t => if m.con then (if ca ≥ NSTART then [] else m :: sentPrefix (ca + 1) t) else m :: sentPrefix ca t

theorem sentPrefix_isPrefix (ca : Nat) (q : List QMsg) : sentPrefix ca q <+: q := by
  induction q generalizing ca with
  | nil => simp [sentPrefix]
  | cons m t ih =>
    unfold sentPrefix
    split
    · split
      · exact List.nil_prefix
      · exact List.cons_prefix_cons.mpr ⟨rfl, ih _⟩
    · exact List.cons_prefix_cons.mpr ⟨rfl, ih _⟩

/-- without a Confirmable the whole queue goes out; with Confirmables the first one always does -/
theorem sentPrefix_all_non (q : List QMsg) (h : ∀ m ∈ q, m.con = false) (ca : Nat) : sentPrefix ca q = q := by
  induction q with
  | nil => rfl
  | cons m t ih =>
    have hm := h m (by simp)
    simp [sentPrefix, hm, ih fun x hx => h x (by simp [hx])]

/-- FULL STATEMENT (not proved as a trace theorem): in every history with a successful handshake each message queued
during the handshake is written through the TLS layer exactly once (first transmission) and these writes occur in
submission order.
PROVED here: the flush itself, exactly.  On an established DTLS session whose TLS library accepts the writes (answers
`snd ok` to each), one pass of coap_session_connected writes — through coap_dtls_send, `tx true` — exactly the
prefix `sentPrefix` of the delay queue, in queue order, each message once, and leaves exactly the rest queued (the
rest goes out by the same function when the active Confirmable is acknowledged: `ackFlush`).  With
`send_before_established_is_held` (queue order = submission order) this is "in order, exactly once". -/
theorem queued_delivered_in_order_once_on_success_partial (fuel : Nat) (c : Ctx) (hp : c.s.proto = .dtls)
    (he : c.s.est = true) (hs : c.s.state = .established) (hd : c.s.dtlsEvent = none)
    (ho : ∀ n, c.orc.drop n = [] ∨ ∃ t, c.orc.drop n = Orc.snd .ok :: t) (hlen : c.s.delayq.length ≤ c.orc.length)
    (hf : c.s.delayq.length < fuel) :
    (Ctx.flushLoop fuel c).out = c.out ++ (sentPrefix c.s.conActive c.s.delayq).map (fun m => Out.tx true (m.view false) (some m.sn) m.cnt) ∧
      (Ctx.flushLoop fuel c).s.delayq = c.s.delayq.drop (sentPrefix c.s.conActive c.s.delayq).length := by
  induction fuel generalizing c with
  | zero => omega
  | succ n ih =>
    unfold Ctx.flushLoop
    cases hq : c.s.delayq with
    | nil => simp [sentPrefix, hq]
    | cons q rest =>
      simp only [hs, ne_eq, not_true_eq_false, if_false]
      have horc : ∃ t, c.orc = Orc.snd .ok :: t := by
        rcases ho 0 with h | h
        · simp at h; rw [hq, h] at hlen; simp at hlen
        · simpa using h
      obtain ⟨t, ht⟩ := horc
      by_cases hblock : (q.con && decide (c.s.proto ≠ Proto.tls) && decide (c.s.conActive ≥ NSTART)) = true
      · simp only [hblock, if_true]
        have hc : q.con = true := by simp at hblock; exact hblock.1.1
        have hca : c.s.conActive ≥ NSTART := by simp at hblock; exact hblock.2
        simp [sentPrefix, hc, hca, hq]
      · simp only [hblock, if_false]
        -- one round
        have hone : (c.flushOne q rest).out = c.out ++ [Out.tx true (q.view false) (some q.sn) q.cnt] ∧
            (c.flushOne q rest).s.delayq = rest ∧ (c.flushOne q rest).ret = 1 ∧ (c.flushOne q rest).orc = t ∧
            (c.flushOne q rest).s.proto = .dtls ∧ (c.flushOne q rest).s.est = true ∧
            (c.flushOne q rest).s.state = .established ∧ (c.flushOne q rest).s.dtlsEvent = none ∧
            (c.flushOne q rest).s.conActive = (if q.con then c.s.conActive + 1 else c.s.conActive) := by
          unfold Ctx.flushOne Ctx.sessionSendPdu Ctx.dtlsSend Ctx.dtlsSendCore Ctx.sndResult Ctx.popSnd Ctx.sendTail
          simp [Ctx.upd, Ctx.emit, Ctx.setRet, hp, he, hs, hd, ht, QMsg.snOf]
        obtain ⟨o1, o2, o3, o4, o5, o6, o7, o8, o9⟩ := hone
        have hlt : ¬ ((c.flushOne q rest).ret < 0) := by rw [o3]; omega
        have hnt : ¬ ((c.flushOne q rest).s.proto = Proto.tls) := by rw [o5]; decide
        simp only [hnt, hlt, if_false, Bool.false_eq_true]
        have hrec := ih (c.flushOne q rest) o5 o6 o7 o8
          (by intro k; have := ho (k + 1); rw [ht] at this; simpa [o4] using this)
          (by rw [o2, o4]; rw [hq, ht] at hlen; simpa using hlen)
          (by rw [o2]; rw [hq] at hf; simp at hf; omega)
        rw [hrec.1, hrec.2, o1, o2, o9]
        have hnb : ¬(q.con = true ∧ c.s.conActive ≥ NSTART) := by
          intro ⟨h1, h2⟩; apply hblock; simp [h1, h2, hp]
        by_cases hc : q.con = true
        · have : ¬ c.s.conActive ≥ NSTART := fun h => hnb ⟨hc, h⟩
          simp [sentPrefix, hc, this, List.append_assoc]
        · simp [sentPrefix, hc, List.append_assoc]

/-! ### TLS over TCP (`Proto.tls`), explicitly -/

/-- the TLS client session made by coap_new_client_session_psk2 — connect() completed at once (`now`) or still in
progress — is unauthenticated unless the oracle says otherwise in the creating call … -/
theorem newClientTls_sessOk (now : Bool) (orc : List Orc) (bm : Bool := false) :
    SessOk ((⟨true, false⟩ : Mon).run (newClientTlsCtx now orc bm).out) (newClientTlsCtx now orc bm).s := by
  have h0 : Inv ⟨true, false⟩ false ({ s := { proto := .tls, typ := .client, blockMode := bm }, orc := orc } : Ctx) :=
    ⟨rfl, by simp, by simp, by simp, by simp⟩
  unfold newClientTlsCtx
  exact sessOk_of_inv (inv_ite (fun _ => tlsEstablish_inv h0) fun _ => inv_upd _ (by simp) (by simp) (by simp) h0)

/-- … and so is the server session made for an accepted TCP connection. -/
theorem accept_sessOk (orc : List Orc) : SessOk ((⟨true, false⟩ : Mon).run (acceptCtx orc).out) (acceptCtx orc).s := by
  have h0 : Inv ⟨true, false⟩ false
      ({ s := { proto := .tls, typ := .server, appRef := false, state := .connecting }, orc := orc } : Ctx) :=
    ⟨rfl, by simp, by simp, by simp, by simp⟩
  exact sessOk_of_inv (tlsEstablish_inv (inv_emit_inert _ rfl (inv_emit_inert _ rfl h0)))

/-- `no_handler_before_hsOk` on a TLS session: in every history (connect completions, socket reads and writes,
application sends, disconnects, release, each with any answers of the TLS library) every handler call is preceded by the
oracle's success -/
theorem tls_no_handler_before_hsOk {s : Sess} (hp : s.proto = .tls) (he : s.est = false) (hst : s.state ≠ .established)
    (evs : List (Ev × List Orc)) (pre post : List Out) (o : Out)
    (htr : (s.run evs).2 = pre ++ o :: post) (ho : o.isHandler = true) : Out.hsOkMark ∈ pre :=
  no_handler_before_hsOk ⟨he, hst, by simp [hp]⟩ evs pre post o htr ho

/-- … and every PDU written (the CSM included) is preceded by it and goes through coap_tls_write -/
theorem tls_nothing_written_before_hsOk {s : Sess} (hp : s.proto = .tls) (he : s.est = false) (hst : s.state ≠ .established)
    (evs : List (Ev × List Orc)) (pre post : List Out) (tls : Bool) (v : View) (sn : Option Nat)
    (htr : (s.run evs).2 = pre ++ Out.tx tls v sn cnt :: post) : Out.hsOkMark ∈ pre ∧ tls = true := by
  have hu : Unauth s := ⟨he, hst, by simp [hp]⟩
  refine ⟨nothing_queued_written_before_established hu evs pre post tls v sn htr, ?_⟩
  cases tls with
  | true => rfl
  | false => exact absurd rfl (no_cleartext_on_dtls_session hu evs _ (by rw [htr]; simp) v sn cnt)

/-- whole life of a TLS client session, from coap_new_client_session_psk2 on -/
theorem tls_client_life_gated (now : Bool) (orc0 : List Orc) (evs : List (Ev × List Orc)) (pre post : List Out) (o : Out)
    (bm : Bool := false)
    (htr : (newClientTlsCtx now orc0 bm).out ++ ((newClientTlsCtx now orc0 bm).s.run evs).2 = pre ++ o :: post)
    (ho : o.needsHs = true) : Out.hsOkMark ∈ pre ∧ o.isClear = false := by
  have hk := (run_sessOk evs (newClientTls_sessOk now orc0 bm)).ok
  rw [← Mon.run_append, htr] at hk
  constructor
  · rcases mon_split _ pre post o hk ho with h1 | ⟨x, hx, hm⟩
    · simp at h1
    · rw [← isMark_eq hm]; exact hx
  · exact mon_noclear _ _ hk o (by simp)

/-- whole life of a TLS server session, from the accept on -/
theorem tls_server_life_gated (orc0 : List Orc) (evs : List (Ev × List Orc)) (pre post : List Out) (o : Out)
    (htr : (acceptCtx orc0).out ++ ((acceptCtx orc0).s.run evs).2 = pre ++ o :: post)
    (ho : o.needsHs = true) : Out.hsOkMark ∈ pre ∧ o.isClear = false := by
  have hk := (run_sessOk evs (accept_sessOk orc0)).ok
  rw [← Mon.run_append, htr] at hk
  constructor
  · rcases mon_split _ pre post o hk ho with h1 | ⟨x, hx, hm⟩
    · simp at h1
    · rw [← isMark_eq hm]; exact hx
  · exact mon_noclear _ _ hk o (by simp)

/-- `queued_con_one_nack_on_failure_partial` on a TLS session, with what is special there spelled out: the delay-queue
NACKs do NOT depend on the transport being unreliable — every request queued on a TLS session (coap_send has made it
Confirmable) is NACKed once, in order, before the TCP / session events and the close; the session is back in state
NONE, `doing_first` is cleared. -/
theorem tls_queued_con_one_nack_on_failure (c : Ctx) (hp : c.s.proto = .tls) (r : Nack) (hr : r ≠ .icmp)
    (hi : c.s.inflight = []) :
    ∃ rest, (c.disconnected r).out = c.out ++ ((c.s.delayq.filter fun q : QMsg => q.con).map (nackOf r) ++ rest) ∧
      (∀ o ∈ rest, ∀ r' t sn, o = Out.nack r' (some t) sn →
        (c.s.delayq.filter fun q : QMsg => q.con) = [] ∧ ∃ g t', c.s.lgCrcv = g :: t' ∧ o = nackOf r g) ∧
      (c.disconnected r).s.delayq = [] ∧ (c.disconnected r).s.inflight = [] ∧
      (c.disconnected r).s.state = .none ∧ (c.disconnected r).s.doingFirst = false := by
  obtain ⟨rest, h1, h2, h3, h4, _⟩ := queued_con_one_nack_on_failure_partial c r hr hi
  have hpp : (discPre c r).s.proto = .tls := hp
  have hps : (discPre c r).s.state = .none := by simp [discPre, hp]
  have a := sessionClose_state ((discPre c r).relTail c.s.state)
  have b := relTail_state_tls c.s.state (discPre c r) hpp
  refine ⟨rest, h1, h2, h3, h4, ?_, ?_⟩
  · rw [disconnected_eq c r hr hi, a.1, b.1, hps]
  · rw [disconnected_eq c r hr hi, a.2.1, b.2]

/-- `queued_delivered_in_order_once_on_success_partial` on a TLS session: once the peer's CSM has arrived
(coap_session_connected), with the TLS library accepting the writes, the WHOLE delay queue is written through
coap_tls_write, in queue order, each message once (no NSTART on a reliable transport), and the queue is empty. -/
theorem tls_queued_delivered_in_order_once_on_success (fuel : Nat) (c : Ctx) (hp : c.s.proto = .tls)
    (he : c.s.est = true) (hs : c.s.state = .established)
    (ho : ∀ n, c.orc.drop n = [] ∨ ∃ t, c.orc.drop n = Orc.snd .ok :: t) (hlen : c.s.delayq.length ≤ c.orc.length)
    (hf : c.s.delayq.length < fuel) :
    (Ctx.flushLoop fuel c).out = c.out ++ c.s.delayq.map (fun m => Out.tx true m.strmView (some m.sn) m.cnt) ∧
      (Ctx.flushLoop fuel c).s.delayq = [] := by
  induction fuel generalizing c with
  | zero => omega
  | succ n ih =>
    unfold Ctx.flushLoop
    cases hq : c.s.delayq with
    | nil => simp [hq]
    | cons q rest =>
      simp only [hs, ne_eq, not_true_eq_false, if_false]
      have horc : ∃ t, c.orc = Orc.snd .ok :: t := by
        rcases ho 0 with h | h
        · simp at h; rw [hq, h] at hlen; simp at hlen
        · simpa using h
      obtain ⟨t, ht⟩ := horc
      have hblock : ¬ ((q.con && decide (c.s.proto ≠ Proto.tls) && decide (c.s.conActive ≥ NSTART)) = true) := by
        simp [hp]
      simp only [hblock, if_false, Bool.false_eq_true]
      have hone : (c.flushOne q rest).out = c.out ++ [Out.tx true q.strmView (some q.sn) q.cnt] ∧
          (c.flushOne q rest).s.delayq = rest ∧ (c.flushOne q rest).ret = 1 ∧ (c.flushOne q rest).orc = t ∧
          (c.flushOne q rest).s.proto = .tls ∧ (c.flushOne q rest).s.est = true ∧
          (c.flushOne q rest).s.state = .established := by
        unfold Ctx.flushOne Ctx.sessionSendPdu Ctx.tlsWrite Ctx.tlsRecordSend Ctx.popSnd Ctx.tlsTail
        simp [Ctx.upd, Ctx.emit, Ctx.setRet, hp, he, hs, ht, QMsg.snOf]
      obtain ⟨o1, o2, o3, o4, o5, o6, o7⟩ := hone
      have hle : ¬ ((c.flushOne q rest).ret ≤ 0) := by rw [o3]; omega
      simp only [o5, hle, if_true, if_false]
      have hrec := ih (c.flushOne q rest) o5 o6 o7
        (by intro k; have := ho (k + 1); rw [ht] at this; simpa [o4] using this)
        (by rw [o2, o4]; rw [hq, ht] at hlen; simpa using hlen)
        (by rw [o2]; rw [hq] at hf; simp at hf; omega)
      rw [hrec.1, hrec.2, o1, o2]
      simp [List.append_assoc]

/-! ### which key is a client checked against?  (server side, `Coap.PskSelect`) -/

open Coap.PskSelect in
/-- "with a pre-shared key that differs … the session never becomes established", for a server that has served other
clients before: WHATEVER handshakes the server context has seen (any server names — cached by the first client that asks
for them —, any identities, handshakes that got as far as the key exchange or not), the key libcoap's callbacks hand the
TLS library for a ClientHello with server name `sni` and identity `id` is the key S says the server holds for them — the
one configured for that name (validate_sni_call_back) or identity (validate_id_call_back), never another name's, never the
context default in its place.  (An empty key is nobody's: `normKey`.) -/
theorem server_key_history_independent (cfg : TlsCreds.Cfg) (hist : List (String × Option String)) (sni id : String) :
    normKey (handshakeKey (toSrv cfg) (runHist (toSrv cfg) [] hist) sni id).2 = TlsCreds.serverKey cfg sni id :=
  (handshakeKey_spec cfg _ (runHist_cacheOk cfg hist [] (fun _ _ e he => by simp at he)) sni id).2

/-- S is about that key: a configuration is acceptable only if the key the server holds for the client's server name and
identity IS the client's key (so: `server_key_history_independent` + a TLS library that completes a PSK handshake only
between equal keys = no client is established against a key that is not the one configured for it) -/
theorem accepts_ok_key (cfg : TlsCreds.Cfg) (h : TlsCreds.accepts cfg = .ok) :
    TlsCreds.serverKey cfg (cfg.sni.getD "") cfg.ci = some cfg.ck := by
  have ite_ok : ∀ (p : Prop) [Decidable p], (if p then TlsCreds.Verdict.ok else TlsCreds.Verdict.fail) = .ok → p := by
    intro p _ hp; by_cases hq : p
    · exact hq
    · simp [hq] at hp
  unfold TlsCreds.accepts at h
  unfold TlsCreds.serverKey
  by_cases h0 : cfg.ck = "" ∨ cfg.ci = ""
  · simp [h0] at h
  · simp only [h0, if_false] at h
    cases hs : TlsCreds.served cfg (cfg.sni.getD "") with
    | none => simp [hs] at h
    | some hk =>
      obtain ⟨hint, dk⟩ := hk
      simp only [hs] at h ⊢
      cases hst : cfg.st with
      | none =>
        simp only [hst] at h ⊢
        obtain ⟨_, hne, heq⟩ := ite_ok _ h
        rw [if_neg hne, heq]
      | some t2 =>
        simp only [hst] at h ⊢
        cases hl : TlsCreds.lookup2 cfg.ci t2 with
        | none => simp [hl] at h
        | some k =>
          simp only [hl] at h ⊢
          obtain ⟨_, hne, heq⟩ := ite_ok _ h
          rw [if_neg hne, heq]

/-! ### the serial-number ledger: the delay queue over WHOLE histories

Every message the application submits gets a ghost serial number (`QMsg.sn`, from `Sess.next`); a NACK that names a message and
a PDU written carry the serial of their message.  `Coap.TlsGate.Core` (Lemmas/TlsLedger.lean) is the ledger that every function
of M preserves until the TLS library reports a completed handshake: nothing is in flight, the delay queue holds its messages in
submission order (serials strictly increasing), nothing queued has been reported, nothing has been reported twice, and a
Confirmable that was seen in the queue of a live session is either still there (session still live) or gone and reported once.
`nk j tr` = the number of NACKs in `tr` that name message `j` (the advisory COAP_NACK_ICMP_ISSUE notification, after which
coap_session_disconnected_lkd returns without touching the queues, is not counted: see `icmp_notification_is_extra`). -/

theorem run_append (s : Sess) (a b : List (Ev × List Orc)) :
    s.run (a ++ b) = (((s.run a).1.run b).1, (s.run a).2 ++ ((s.run a).1.run b).2) := by
  induction a generalizing s with
  | nil => simp [Sess.run]
  | cons eo t ih =>
    obtain ⟨e, o⟩ := eo
    simp only [List.cons_append, Sess.run, ih, List.append_assoc]

/-- what the ledger needs at the start of a history: nothing in flight, the delay queue in submission order with serials
already handed out, lg_crcv entries likewise, a Confirmable with an lg_crcv entry is queued (all trivially true of a new
session: everything is empty) -/
structure Ledger0 (s : Sess) : Prop where
  infl : s.inflight = []
  srt : (s.delayq.map (·.sn)).Pairwise (· < ·)
  lt : ∀ q ∈ s.delayq, q.sn < s.next
  lgl : ∀ g ∈ s.lgCrcv, g.sn < s.next
  lgc : ∀ g ∈ s.lgCrcv, g.con = true → g ∈ s.delayq

/-- what the run-level induction carries between events: the gate invariant, and the ledger unless the oracle has reported
success (`n0 j` = how often message `j` has been reported so far) -/
structure LedOk (m : Mon) (n0 : Nat → Nat) (t : Bool) (k : Nat) (s : Sess) : Prop where
  ok : SessOk m s
  led : m.seen = true ∨ ∀ orc, Core n0 t k { s := s, orc := orc }

theorem step_ledOk {m : Mon} {n0 : Nat → Nat} {t : Bool} {k : Nat} {s : Sess} (e : Ev) (orc : List Orc) (h : LedOk m n0 t k s) :
    LedOk (m.run (s.step e orc).2) (fun j => n0 j + nk j (s.step e orc).2) t k (s.step e orc).1 := by
  have hb : Both m n0 false t k { s := s, orc := orc } :=
    ⟨inv_of_sessOk orc h.ok, h.led.imp (fun hs => by simpa using hs) fun hc => hc orc⟩
  have hb' := stepCtx_both s e orc hb
  exact ⟨sessOk_of_inv hb'.inv, hb'.led.imp id fun hc orc' => core_rebase orc' hc⟩

theorem run_ledOk {m : Mon} {n0 : Nat → Nat} {t : Bool} {k : Nat} {s : Sess} (evs : List (Ev × List Orc)) (h : LedOk m n0 t k s) :
    LedOk (m.run (s.run evs).2) (fun j => n0 j + nk j (s.run evs).2) t k (s.run evs).1 := by
  induction evs generalizing m n0 s with
  | nil => simpa [Sess.run] using h
  | cons eo tl ih =>
    obtain ⟨e, o⟩ := eo
    have h2 := ih (step_ledOk e o h)
    simp only [Sess.run, Mon.run_append]
    have hf : (fun j => n0 j + nk j ((s.step e o).2 ++ ((s.step e o).1.run tl).2)) =
        (fun j => n0 j + nk j (s.step e o).2 + nk j ((s.step e o).1.run tl).2) := by
      funext j; rw [nk_append, Nat.add_assoc]
    rw [hf]
    exact h2

theorem ledOk_start {s : Sess} (h : Unauth s) (hl : Ledger0 s) : LedOk ⟨true, false⟩ (fun _ => 0) false 0 s :=
  ⟨unauth_sessOk h, Or.inr fun _ => ⟨hl.infl, hl.srt, hl.lt, hl.lgl, hl.lgc, by simp, by simp, by simp, by simp, by simp⟩⟩

theorem not_seen_of_no_mark (tr : List Out) (hnm : Out.hsOkMark ∉ tr) : ((⟨true, false⟩ : Mon).run tr).seen ≠ true := by
  intro hs
  rcases mon_seen_mark _ _ hs with h1 | ⟨x, hx, hm⟩
  · simp at h1
  · rw [isMark_eq hm] at hx; exact hnm hx

/-- THE LEDGER, over all histories in which the TLS library never reports a completed handshake (credentials that do not
match, a handshake that never finishes, a session that is abandoned or released): at the end of EVERY such history of a
session — any events, any answers of the TLS library —
  * no message at all has been reported more than once (Confirmable or not: D19g's lg_crcv report included);
  * the delay queue holds its messages in submission order (serials strictly increasing: each message once);
  * nothing that is queued has been reported; nothing is in flight (nothing was written: `nothing_queued_written_before_established`). -/
theorem ledger_before_established {s : Sess} (h : Unauth s) (hl : Ledger0 s) (evs : List (Ev × List Orc))
    (hnm : Out.hsOkMark ∉ (s.run evs).2) :
    (∀ j, nk j (s.run evs).2 ≤ 1) ∧ ((s.run evs).1.delayq.map (·.sn)).Pairwise (· < ·) ∧
      (∀ x ∈ (s.run evs).1.delayq, nk x.sn (s.run evs).2 = 0) ∧ (s.run evs).1.inflight = [] := by
  have h1 := run_ledOk evs (ledOk_start h hl)
  rcases h1.led with hs | hc
  · exact absurd hs (not_seen_of_no_mark _ hnm)
  · have hc := hc []
    exact ⟨fun j => by simpa using hc.n1 j, hc.srt, fun x hx => by simpa using hc.nq x hx, hc.infl⟩

/-- (a) EXACTLY ONE NACK, trace level.  Take ANY history `pre ++ rest` of a session that starts unauthenticated, in which the
TLS library never reports a completed handshake, and any Confirmable `q` that is in the delay queue after `pre` while the
session is live (state not NONE — a handshake is under way —, not freed).  Then, whatever the events of `rest` and the answers of
the TLS library are:
  * nothing is ever written, in clear or through the TLS layer;
  * at the end, EITHER `q` is still queued, the session is still live and `q` has not been reported at all, OR `q` is no longer
    queued and has been reported by exactly ONE NACK in the whole history — never two, and never zero once it left the queue;
  * when the session has failed (state NONE: handshake failure, alert, DTLS retransmissions exhausted, connection closed,
    coap_session_disconnected) or was freed (released / reclaimed) by the end, it IS the second case: exactly one NACK.
Carved out (and only this): NACKs with reason COAP_NACK_ICMP_ISSUE are not counted — coap_session_disconnected_lkd(ICMP) names
the first lg_crcv entry's request and returns, the request stays queued and is reported again when the session fails
(`icmp_notification_is_extra`). -/
theorem queued_con_one_nack_on_failure {s : Sess} (h : Unauth s) (hl : Ledger0 s) (pre rest : List (Ev × List Orc)) (q : QMsg)
    (hq : q ∈ (s.run pre).1.delayq) (hc : q.con = true) (hal : (s.run pre).1.state ≠ .none)
    (hfr : (s.run pre).1.freed = false) (hnm : Out.hsOkMark ∉ (s.run (pre ++ rest)).2) :
    (∀ o ∈ (s.run (pre ++ rest)).2, ∀ tls v sn cnt, o ≠ Out.tx tls v sn cnt) ∧
    ((∃ x ∈ (s.run (pre ++ rest)).1.delayq, x.sn = q.sn ∧ x.con = true ∧ (s.run (pre ++ rest)).1.state ≠ .none ∧
        (s.run (pre ++ rest)).1.freed = false ∧ nk q.sn (s.run (pre ++ rest)).2 = 0) ∨
     ((∀ x ∈ (s.run (pre ++ rest)).1.delayq, x.sn ≠ q.sn) ∧ nk q.sn (s.run (pre ++ rest)).2 = 1)) ∧
    ((s.run (pre ++ rest)).1.state = .none ∨ (s.run (pre ++ rest)).1.freed = true →
      nk q.sn (s.run (pre ++ rest)).2 = 1) := by
  have hnotx : ∀ o ∈ (s.run (pre ++ rest)).2, ∀ tls v sn cnt, o ≠ Out.tx tls v sn cnt := by
    intro o ho tls v sn cnt heq
    subst heq
    obtain ⟨a, b, hab⟩ := List.append_of_mem ho
    have := nothing_queued_written_before_established h (pre ++ rest) a b tls v sn hab
    exact hnm (by rw [hab]; simp [this])
  have hdich : (∃ x ∈ (s.run (pre ++ rest)).1.delayq, x.sn = q.sn ∧ x.con = true ∧ (s.run (pre ++ rest)).1.state ≠ .none ∧
        (s.run (pre ++ rest)).1.freed = false ∧ nk q.sn (s.run (pre ++ rest)).2 = 0) ∨
      ((∀ x ∈ (s.run (pre ++ rest)).1.delayq, x.sn ≠ q.sn) ∧ nk q.sn (s.run (pre ++ rest)).2 = 1) := by
    rw [run_append] at hnm ⊢
    simp only [List.mem_append, not_or] at hnm
    have h1 := run_ledOk pre (ledOk_start (s := s) h hl)
    have hc1 : ∀ orc, Core (fun j => 0 + nk j (s.run pre).2) false 0 { s := (s.run pre).1, orc := orc } := by
      rcases h1.led with hs | hcore
      · exact absurd hs (not_seen_of_no_mark _ hnm.1)
      · exact hcore
    have h1' : LedOk ((⟨true, false⟩ : Mon).run (s.run pre).2) (fun j => 0 + nk j (s.run pre).2) true q.sn (s.run pre).1 :=
      ⟨h1.ok, Or.inr fun orc => core_track (hc1 orc) q hq hc hal hfr⟩
    have h2 := run_ledOk rest h1'
    rcases h2.led with hs | hcore
    · rw [← Mon.run_append] at hs
      exact absurd hs (not_seen_of_no_mark _ (by simp [hnm.1, hnm.2]))
    · have hcore := hcore []
      rcases hcore.trk rfl with ⟨x, hx, e1, e2, e3, e4⟩ | ⟨e1, e2⟩
      · left
        refine ⟨x, hx, e1, e2, e3, e4, ?_⟩
        have := hcore.nq x hx
        rw [e1] at this
        simp only [nk_nil, Nat.add_zero, Nat.zero_add] at this
        rw [nk_append]; exact this
      · right
        refine ⟨e1, ?_⟩
        simp only [nk_nil, Nat.add_zero, Nat.zero_add] at e2
        rw [nk_append]; exact e2
  refine ⟨hnotx, hdich, ?_⟩
  intro hend
  rcases hdich with ⟨x, _, _, _, e3, e4, _⟩ | ⟨_, e2⟩
  · rcases hend with hend | hend
    · exact absurd hend e3
    · rw [e4] at hend; simp at hend
  · exact e2

/-- a creating call that kept the gate invariant and the ledger and in which the oracle did not report success leaves a
session from which the ledger theorems start -/
theorem start_of_both {c : Ctx} (hb : Both ⟨true, false⟩ (fun _ => 0) false false 0 c) (hnm : Out.hsOkMark ∉ c.out) :
    Unauth c.s ∧ Ledger0 c.s := by
  have hns := not_seen_of_no_mark _ hnm
  refine ⟨⟨?_, fun hs => hns (hb.inv.st hs), hb.inv.proto⟩, ?_⟩
  · cases he : c.s.est with
    | false => rfl
    | true => exact absurd (hb.inv.est he) hns
  · rcases hb.led with hs | hc
    · exact absurd hs hns
    · exact ⟨hc.infl, hc.srt, hc.lt, hc.lgl, hc.lgc⟩

theorem both_fresh_ctx (s : Sess) (orc : List Orc) (hp : s.proto ≠ .udp) (he : s.est = false) (hst : s.state ≠ .established)
    (h1 : s.inflight = []) (h2 : s.delayq = []) (h3 : s.lgCrcv = []) :
    Both ⟨true, false⟩ (fun _ => 0) false false 0 { s := s, orc := orc } :=
  ⟨⟨rfl, by simp [he], by simp [hst], by simp, hp⟩,
   Or.inr ⟨h1, by simp [h2], by simp [h2], by simp [h3], by simp [h3], by simp, by simp, by simp, by simp, by simp⟩⟩

/-- the hypotheses `Unauth`, `Ledger0` of the ledger theorems hold for EVERY session as libcoap creates it, unless the TLS
library reported success inside the creating call: the DTLS client session of coap_new_client_session_psk2 … -/
theorem newClient_start (orc : List Orc) (bm : Bool) (hnm : Out.hsOkMark ∉ (newClient orc bm).2) :
    Unauth (newClient orc bm).1 ∧ Ledger0 (newClient orc bm).1 :=
  start_of_both (both_dtlsEstablishClient (both_fresh_ctx _ orc (by simp) rfl (by simp) rfl rfl rfl)) hnm

/-- … the DTLS server session made for a ClientHello (coap_read_endpoint / coap_session_new_dtls_session) … -/
theorem endpoint_start (orc : List Orc) (hnm : Out.hsOkMark ∉ (endpointRxUnknownCtx orc).out) :
    Unauth (endpointRxUnknownCtx orc).s ∧ Ledger0 (endpointRxUnknownCtx orc).s := by
  refine start_of_both ?_ hnm
  unfold endpointRxUnknownCtx
  exact both_handleDgramForProto (both_emit _ rfl (fun _ => rfl) (both_fresh_ctx _ orc (by simp) rfl (by simp) rfl rfl rfl))

/-- … the TLS client session (connect() completed at once or in progress) and the TLS server session after accept -/
theorem newClientTls_start (now : Bool) (orc : List Orc) (bm : Bool) (hnm : Out.hsOkMark ∉ (newClientTlsCtx now orc bm).out) :
    Unauth (newClientTlsCtx now orc bm).s ∧ Ledger0 (newClientTlsCtx now orc bm).s := by
  refine start_of_both ?_ hnm
  unfold newClientTlsCtx
  exact both_ite (fun _ => both_tlsEstablish (both_fresh_ctx _ orc (by simp) rfl (by simp) rfl rfl rfl)) fun _ =>
    bupd! (both_fresh_ctx _ orc (by simp) rfl (by simp) rfl rfl rfl)

theorem accept_start (orc : List Orc) (hnm : Out.hsOkMark ∉ (acceptCtx orc).out) :
    Unauth (acceptCtx orc).s ∧ Ledger0 (acceptCtx orc).s := by
  refine start_of_both ?_ hnm
  unfold acceptCtx
  exact both_tlsEstablish (both_emit _ rfl (fun _ => rfl) (both_emit _ rfl (fun _ => rfl)
    (both_fresh_ctx _ orc (by simp) rfl (by simp) rfl rfl rfl)))

/-- frame of the accepting flush: what `queued_delivered_in_order_once_on_success_partial` does not say -/
theorem flush_accepting_frame (fuel : Nat) (c : Ctx) (hp : c.s.proto = .dtls)
    (he : c.s.est = true) (hs : c.s.state = .established) (hd : c.s.dtlsEvent = none)
    (ho : ∀ n, c.orc.drop n = [] ∨ ∃ t, c.orc.drop n = Orc.snd .ok :: t) (hlen : c.s.delayq.length ≤ c.orc.length) :
    (Ctx.flushLoop fuel c).s.dtlsEvent = none ∧ (Ctx.flushLoop fuel c).s.appRef = c.s.appRef ∧
      (Ctx.flushLoop fuel c).s.typ = c.s.typ ∧ (Ctx.flushLoop fuel c).s.freed = c.s.freed ∧
      (Ctx.flushLoop fuel c).s.state = .established := by
  induction fuel generalizing c with
  | zero => exact ⟨hd, rfl, rfl, rfl, hs⟩
  | succ n ih =>
    unfold Ctx.flushLoop
    cases hq : c.s.delayq with
    | nil => exact ⟨hd, rfl, rfl, rfl, hs⟩
    | cons q rest =>
      simp only [hs, ne_eq, not_true_eq_false, if_false]
      have horc : ∃ t, c.orc = Orc.snd .ok :: t := by
        rcases ho 0 with h | h
        · simp at h; rw [hq, h] at hlen; simp at hlen
        · simpa using h
      obtain ⟨t, ht⟩ := horc
      by_cases hblock : (q.con && decide (c.s.proto ≠ Proto.tls) && decide (c.s.conActive ≥ NSTART)) = true
      · simp only [hblock, if_true]
        exact ⟨hd, trivial, trivial, trivial, hs⟩
      · simp only [hblock]
        have hone : (c.flushOne q rest).s.delayq = rest ∧ (c.flushOne q rest).ret = 1 ∧ (c.flushOne q rest).orc = t ∧
            (c.flushOne q rest).s.proto = .dtls ∧ (c.flushOne q rest).s.est = true ∧
            (c.flushOne q rest).s.state = .established ∧ (c.flushOne q rest).s.dtlsEvent = none ∧
            (c.flushOne q rest).s.appRef = c.s.appRef ∧ (c.flushOne q rest).s.typ = c.s.typ ∧
            (c.flushOne q rest).s.freed = c.s.freed := by
          unfold Ctx.flushOne Ctx.sessionSendPdu Ctx.dtlsSend Ctx.dtlsSendCore Ctx.sndResult Ctx.popSnd Ctx.sendTail
          simp [Ctx.upd, Ctx.emit, Ctx.setRet, hp, he, hs, hd, ht, QMsg.snOf]
        obtain ⟨o2, o3, o4, o5, o6, o7, o8, o9, o10, o11⟩ := hone
        have hlt : ¬ ((c.flushOne q rest).ret < 0) := by rw [o3]; omega
        have hnt : ¬ ((c.flushOne q rest).s.proto = Proto.tls) := by rw [o5]; decide
        simp only [hnt, hlt, if_false, Bool.false_eq_true]
        have hrec := ih (c.flushOne q rest) o5 o6 o7 o8
          (by intro k; have := ho (k + 1); rw [ht] at this; simpa [o4] using this)
          (by rw [o2, o4]; rw [hq, ht] at hlen; simpa using hlen)
        rw [hrec.1, hrec.2.1, hrec.2.2.1, hrec.2.2.2.1, hrec.2.2.2.2, o9, o10, o11]
        exact ⟨rfl, rfl, rfl, rfl, rfl⟩

/-- coap_dtls_receive's handshake branch when the oracle reports success and then accepts the writes -/
theorem recvHs_ok (c : Ctx) (snds : List Orc) (horc : c.orc = .hs .ok :: snds) (hp : c.s.proto = .dtls)
    (hst : c.s.state = .handshake) (hd : c.s.dtlsEvent = none)
    (ho : ∀ n, snds.drop n = [] ∨ ∃ t, snds.drop n = Orc.snd .ok :: t) (hlen : c.s.delayq.length ≤ snds.length) :
    c.recvHs.out = c.out ++ Out.hsOkMark :: (sentPrefix c.s.conActive c.s.delayq).map (fun m => Out.tx true (m.view false) (some m.sn) m.cnt) ∧
    c.recvHs.s.delayq = c.s.delayq.drop (sentPrefix c.s.conActive c.s.delayq).length ∧
    c.recvHs.s.state = .established ∧ c.recvHs.s.appRef = c.s.appRef ∧ c.recvHs.s.typ = c.s.typ ∧
    c.recvHs.s.freed = c.s.freed := by
  have hD : c.doHandshake.ret = 1 ∧ c.doHandshake.orc = snds ∧ c.doHandshake.out = c.out ++ [Out.hsOkMark] ∧
      c.doHandshake.s.proto = .dtls ∧ c.doHandshake.s.est = true ∧ c.doHandshake.s.state = .handshake ∧
      c.doHandshake.s.dtlsEvent = none ∧ c.doHandshake.s.delayq = c.s.delayq ∧ c.doHandshake.s.conActive = c.s.conActive ∧
      c.doHandshake.s.typ = c.s.typ ∧ c.doHandshake.s.appRef = c.s.appRef ∧ c.doHandshake.s.freed = c.s.freed := by
    unfold Ctx.doHandshake Ctx.popHs
    simp [horc, Ctx.upd, Ctx.emit, Ctx.setRet, hp, hst, hd]
  unfold Ctx.recvHs Ctx.hsThenConnect
  simp only
  generalize c.doHandshake = D at hD ⊢
  obtain ⟨d1, d2, d3, d4, d5, d6, d7, d8, d9, d10, d11, d12⟩ := hD
  have hF : D.sessionConnected = Ctx.flushLoop (D.s.delayq.length + 1) (D.upd fun s => { s with state := .established }) := by
    unfold Ctx.sessionConnected
    simp [d6, Ctx.upd]
  have hE : (D.upd fun s => { s with state := .established }).orc = snds ∧
      (D.upd fun s => { s with state := .established }).out = c.out ++ [Out.hsOkMark] ∧
      (D.upd fun s => { s with state := .established }).s.proto = .dtls ∧
      (D.upd fun s => { s with state := .established }).s.est = true ∧
      (D.upd fun s => { s with state := .established }).s.state = .established ∧
      (D.upd fun s => { s with state := .established }).s.dtlsEvent = none ∧
      (D.upd fun s => { s with state := .established }).s.delayq = c.s.delayq ∧
      (D.upd fun s => { s with state := .established }).s.conActive = c.s.conActive ∧
      (D.upd fun s => { s with state := .established }).s.typ = c.s.typ ∧
      (D.upd fun s => { s with state := .established }).s.appRef = c.s.appRef ∧
      (D.upd fun s => { s with state := .established }).s.freed = c.s.freed :=
    ⟨d2, d3, d4, d5, rfl, d7, d8, d9, d10, d11, d12⟩
  rw [d8] at hF
  generalize (D.upd fun s => { s with state := .established }) = E at hF hE
  obtain ⟨e1, e2, e3, e4, e5, e6, e7, e8, e9, e10, e11⟩ := hE
  have p1 := queued_delivered_in_order_once_on_success_partial (c.s.delayq.length + 1) E e3 e4 e5 e6
    (by rw [e1]; exact ho) (by rw [e1, e7]; exact hlen) (by rw [e7]; omega)
  have p2 := flush_accepting_frame (c.s.delayq.length + 1) E e3 e4 e5 e6 (by rw [e1]; exact ho) (by rw [e1, e7]; exact hlen)
  rw [← hF] at p1 p2
  generalize D.sessionConnected = F at p1 p2
  simp only [d1, if_true, Ctx.setFlag, Ctx.receiveTail, p2.1]
  rw [p1.1, p1.2, e2, e7, e8, p2.2.1, p2.2.2.1, p2.2.2.2.1, p2.2.2.2.2, e9, e10, e11]
  simp

/-- the datagram that completes the handshake, on a DTLS session in HANDSHAKE state -/
theorem establishing_dgram (s : Sess) (snds : List Orc) (hp : s.proto = .dtls) (hty : s.typ ≠ .hello) (htls : s.tls = true)
    (hest : s.est = false) (hst : s.state = .handshake) (hfr : s.freed = false) (hap : s.appRef = true)
    (ho : ∀ n, snds.drop n = [] ∨ ∃ t, snds.drop n = Orc.snd .ok :: t) (hlen : s.delayq.length ≤ snds.length) :
    (s.step .dgram (.hs .ok :: snds)).2 =
      Out.hsOkMark :: (sentPrefix s.conActive s.delayq).map (fun m => Out.tx true (m.view false) (some m.sn) m.cnt) ∧
    (s.step .dgram (.hs .ok :: snds)).1.delayq = s.delayq.drop (sentPrefix s.conActive s.delayq).length ∧
    (s.step .dgram (.hs .ok :: snds)).1.state = .established := by
  have hr := recvHs_ok (({ s := s, orc := .hs .ok :: snds } : Ctx).upd fun s => { s with dtlsEvent := none }) snds rfl hp hst rfl
    ho hlen
  have hstep : s.stepCtx .dgram (.hs .ok :: snds) =
      ((({ s := s, orc := .hs .ok :: snds } : Ctx).upd fun s => { s with dtlsEvent := none }).recvHs).maybeFree := by
    unfold Sess.stepCtx Ctx.handleDgramForProto Ctx.dtlsReceive
    simp [hfr, hp, hty, htls, hest, Ctx.upd]
  unfold Sess.step
  simp only [hstep]
  generalize (({ s := s, orc := .hs .ok :: snds } : Ctx).upd fun s => { s with dtlsEvent := none }).recvHs = R at hr
  obtain ⟨r1, r2, r3, r4, r5, r6⟩ := hr
  have hm : R.maybeFree = R := by
    unfold Ctx.maybeFree
    have : R.s.appRef = true := by rw [r4]; exact hap
    simp [this]
  rw [hm, r1, r2, r3]
  simp [Ctx.upd]

/-- (b) IN ORDER, ONCE, trace level — every history up to and including the datagram that completes the handshake.  Take ANY
history `pre` of a session that starts unauthenticated in which the TLS library has not reported success (any events, any
answers), ending on a DTLS session in HANDSHAKE state that the application still holds; then the datagram arrives with which
the TLS library reports the completed handshake and accepts the writes that follow.  In the WHOLE trace:
  * nothing was written before the oracle's success; the delay queue at that point holds the submissions in submission order
    (serials strictly increasing);
  * after the mark exactly `sentPrefix` of the queue is handed to the TLS layer (`tx true`), in queue = submission order, and
    nothing else is output; the rest of the queue stays queued, in order; the session is ESTABLISHED;
  * every message of `sentPrefix` has been written exactly ONCE in the whole history, no message more than once;
  * nothing that was queued has been NACKed, and no message at all has been reported twice.
NOT covered (kept as `queued_delivered_in_order_once_on_success_partial`, step level): the later passes of
coap_session_connected that send the rest of the queue when the active Confirmable is acknowledged, retransmissions (a
retransmitted PDU carries the same serial), and a write the TLS library refuses — coap_session_connected stops draining
(`if (bytes_written < 0) break;`), the known finding `drain_break_strands_delayed` of C06. -/
theorem queued_first_flush_in_order_once_on_success {s : Sess} (h : Unauth s) (hl : Ledger0 s) (pre : List (Ev × List Orc))
    (hnm : Out.hsOkMark ∉ (s.run pre).2) (snds : List Orc)
    (hp : (s.run pre).1.proto = .dtls) (hty : (s.run pre).1.typ ≠ .hello) (htls : (s.run pre).1.tls = true)
    (hst : (s.run pre).1.state = .handshake) (hfr : (s.run pre).1.freed = false) (hap : (s.run pre).1.appRef = true)
    (ho : ∀ n, snds.drop n = [] ∨ ∃ t, snds.drop n = Orc.snd .ok :: t) (hlen : (s.run pre).1.delayq.length ≤ snds.length) :
    (∀ o ∈ (s.run pre).2, ∀ tls v sn cnt, o ≠ Out.tx tls v sn cnt) ∧
    ((s.run pre).1.delayq.map (·.sn)).Pairwise (· < ·) ∧
    (s.run (pre ++ [(.dgram, .hs .ok :: snds)])).2 = (s.run pre).2 ++ Out.hsOkMark ::
      (sentPrefix (s.run pre).1.conActive (s.run pre).1.delayq).map (fun m => Out.tx true (m.view false) (some m.sn) m.cnt) ∧
    (s.run (pre ++ [(.dgram, .hs .ok :: snds)])).1.delayq =
      (s.run pre).1.delayq.drop (sentPrefix (s.run pre).1.conActive (s.run pre).1.delayq).length ∧
    (s.run (pre ++ [(.dgram, .hs .ok :: snds)])).1.state = .established ∧
    (∀ j, wr j (s.run (pre ++ [(.dgram, .hs .ok :: snds)])).2 ≤ 1) ∧
    (∀ x ∈ sentPrefix (s.run pre).1.conActive (s.run pre).1.delayq, wr x.sn (s.run (pre ++ [(.dgram, .hs .ok :: snds)])).2 = 1) ∧
    (∀ j, nk j (s.run (pre ++ [(.dgram, .hs .ok :: snds)])).2 ≤ 1) ∧
    (∀ x ∈ (s.run pre).1.delayq, nk x.sn (s.run (pre ++ [(.dgram, .hs .ok :: snds)])).2 = 0) := by
  have hnotx : ∀ o ∈ (s.run pre).2, ∀ tls v sn cnt, o ≠ Out.tx tls v sn cnt := by
    intro o ho' tls v sn cnt heq
    subst heq
    obtain ⟨a, b, hab⟩ := List.append_of_mem ho'
    have := nothing_queued_written_before_established h pre a b tls v sn hab
    exact hnm (by rw [hab]; simp [this])
  obtain ⟨l1, l2, l3, _⟩ := ledger_before_established h hl pre hnm
  have hest : (s.run pre).1.est = false := by
    cases he : (s.run pre).1.est with
    | false => rfl
    | true => exact absurd ((run_sessOk pre (unauth_sessOk h)).est he) (not_seen_of_no_mark _ hnm)
  obtain ⟨g1, g2, g3⟩ := establishing_dgram (s.run pre).1 snds hp hty htls hest hst hfr hap ho hlen
  have hrun : s.run (pre ++ [(.dgram, .hs .ok :: snds)]) =
      (((s.run pre).1.step .dgram (.hs .ok :: snds)).1, (s.run pre).2 ++ ((s.run pre).1.step .dgram (.hs .ok :: snds)).2) := by
    rw [run_append]; simp [Sess.run]
  rw [hrun]
  simp only [g1, g2, g3]
  have hw0 : ∀ j, wr j (s.run pre).2 = 0 := by
    intro j
    unfold wr
    rw [List.countP_eq_zero]
    intro o ho' hwr
    cases o with
    | tx a v sn cnt => exact hnotx _ ho' a v sn cnt rfl
    | _ => simp [Out.writes] at hwr
  have hwf : ∀ j, wr j ((s.run pre).2 ++ Out.hsOkMark ::
      (sentPrefix (s.run pre).1.conActive (s.run pre).1.delayq).map (fun m => Out.tx true (m.view false) (some m.sn) m.cnt)) =
      (sentPrefix (s.run pre).1.conActive (s.run pre).1.delayq).countP (fun m => m.sn == j) := by
    intro j
    have := hw0 j
    unfold wr at this ⊢
    rw [List.countP_append, this, List.countP_cons, List.countP_map]
    simp only [Out.writes, Bool.false_eq_true, if_false, Nat.zero_add, Nat.add_zero]
    congr 1
  have hsp : ((sentPrefix (s.run pre).1.conActive (s.run pre).1.delayq).map (·.sn)).Pairwise (· < ·) :=
    List.Pairwise.sublist (List.Sublist.map _ (sentPrefix_isPrefix _ _).sublist) l2
  have hnf : ∀ j, nk j ((s.run pre).2 ++ Out.hsOkMark ::
      (sentPrefix (s.run pre).1.conActive (s.run pre).1.delayq).map (fun m => Out.tx true (m.view false) (some m.sn) m.cnt)) =
      nk j (s.run pre).2 := by
    intro j
    rw [nk_append, nk_quiet j (Out.hsOkMark :: _)]
    · rfl
    · intro o ho'
      simp only [List.mem_cons, List.mem_map] at ho'
      rcases ho' with rfl | ⟨m, _, rfl⟩ <;> rfl
  refine ⟨hnotx, l2, trivial, trivial, trivial, ?_, ?_, ?_, ?_⟩
  · intro j; rw [hwf]; exact countP_sn_le_one _ hsp j
  · intro x hx
    rw [hwf]
    have h1 := countP_sn_le_one _ hsp x.sn
    have h2 := countP_sn_pos _ x hx
    omega
  · intro j; rw [hnf]; exact l1 j
  · intro x hx; rw [hnf]; exact l3 x hx

/-! ### non-vacuity -/

section PskSelectExamples
open Coap.PskSelect

/-- a server whose key is selected by server name: "host" -> key "kex" (hint "h"); the context default key is "key" -/
def sniCfg : TlsCreds.Cfg := { sk := "6b6579", ss := some [("686f7374", "68", "6b6578")] }

/-- the FIRST ClientHello for "host" fills the cache and is checked against "kex" … -/
example : handshakeKey (toSrv sniCfg) [] "686f7374" "6964" = ([⟨"686f7374", "68", "6b6578"⟩], some "6b6578") := by decide
/-- … and so is the SECOND one, served from the cache: not against the context default "key" -/
example : (handshakeKey (toSrv sniCfg) (runHist (toSrv sniCfg) [] [("686f7374", some "6964")]) "686f7374" "6964").2 = some "6b6578" := by
  decide
/-- a name outside the table is refused, cache unchanged; no name at all likewise -/
example : handshakeKey (toSrv sniCfg) [⟨"686f7374", "68", "6b6578"⟩] "686f7375" "6964" = ([⟨"686f7374", "68", "6b6578"⟩], none) := by decide
example : (handshakeKey (toSrv sniCfg) [] "" "6964").2 = none := by decide
/-- an identity table decides alone; an unknown identity gets no key -/
example : (handshakeKey (toSrv { sniCfg with st := some [("6964", "6b6b")] }) [] "686f7374" "6964").2 = some "6b6b" := by decide
example : (handshakeKey (toSrv { sniCfg with st := some [("6964", "6b6b")] }) [] "686f7374" "6162").2 = none := by decide
/-- S on the same cases -/
example : TlsCreds.serverKey sniCfg "686f7374" "6964" = some "6b6578" := by decide
example : TlsCreds.accepts { sniCfg with sni := some "686f7374", ck := "6b6579" } = .fail := by decide
example : TlsCreds.accepts { sniCfg with sni := some "686f7374", ck := "6b6578" } = .ok := by decide

end PskSelectExamples

/-- a TLS client session as coap_new_client_session_psk2 leaves it when connect() completed at once: HANDSHAKE -/
def tlsHsClient : Sess := (newClientTlsCtx true [.env true, .hs .again]).s

example : tlsHsClient.proto = .tls ∧ tlsHsClient.est = false ∧ tlsHsClient.state = .handshake := by decide

/-- TLS: two requests queued during the handshake, the peer closes the connection (keys differ): each is NACKed once,
in order, then the TCP / session events, the close, and coap_read_session's own (anonymous) NACK — exactly what
harness/tls.c observes (`tls ck=6b6579 sk=6b6578 conn=prog acc=early wait=client q=CC`) -/
example :
    (tlsHsClient.run [(.appSendStrm false 1 0 "01", []), (.appSendStrm false 1 0 "02", []), (.strmRead, [.hs .eof])]).2 =
      [.nack .tls (some "01") (some 0), .nack .tls (some "02") (some 1), .evTcp .closed, .evTcp .sessFailed, .bye,
       .ev .closed, .nack .undeliv none none] := by
  decide

/-- TLS: the handshake completes, the CSM goes out; when the peer's CSM arrives the queue is flushed in order; the
server's response reaches the handler -/
example :
    (tlsHsClient.run [(.appSendStrm false 1 0 "01", []), (.appSendStrm false 1 0 "02", []),
                      (.strmRead, [.hs .ok, .snd .ok, .recv .again]),
                      (.strmRead, [.recv (.data ⟨0, 225, 0, "-", ""⟩), .snd .ok, .snd .ok]),
                      (.strmRead, [.recv (.data ⟨0, 69, 0, "01", "6869"⟩)])]).2 =
      [.hsOkMark, .ev .connected, .tx true ⟨0, 225, 0, "-", ""⟩ (some 2) 0,
       .evTcp .sessConnected, .tx true ⟨0, 1, 0, "01", ""⟩ (some 0) 0, .tx true ⟨0, 1, 0, "02", ""⟩ (some 1) 0,
       .rsp "01" 69] := by
  decide

/-- TLS: release with a queued request while the handshake hangs (the server ignored its own failure): closed, then
NACKed once, NOT_DELIVERABLE -/
example : (tlsHsClient.run [(.appSendStrm false 1 0 "01", []), (.release, [])]).2 =
      [.bye, .ev .closed, .nack .undeliv (some "01") (some 0)] := by
  decide

/-- TLS: connect() still in progress — CONNECTING, doing_first set; the server session after accept: HANDSHAKE -/
example : (newClientTlsCtx false []).s.state = .connecting ∧ (newClientTlsCtx false []).s.doingFirst = true := by decide
example : (acceptCtx [.env true, .hs .again]).out = [.evTcp .connected, .evNew] ∧ (acceptCtx [.env true, .hs .again]).s.state = .handshake := by
  decide

/-- a client session in HANDSHAKE state as coap_new_client_session_psk2 leaves it -/
def hsClient : Sess := { proto := .dtls, typ := .client, state := .handshake, tls := true }

example : Unauth hsClient := ⟨rfl, by decide, by decide⟩
example : Unauth tlsHsClient := ⟨by decide, by decide, by decide⟩

/-- two requests queued, then the handshake completes: both are written through the TLS layer, in order, after the
mark; the CON waits for its ACK, the response reaches the handler -/
example :
    (hsClient.run [(.appSend true 1 7 "01", []), (.appSend false 1 8 "02", []),
                   (.dgram, [.hs .ok, .snd .ok, .snd .ok]),
                   (.dgram, [.recv (.data ⟨2, 69, 7, "01", "6869"⟩)])]).2 =
      [.hsOkMark, .tx true ⟨0, 1, 7, "01", ""⟩ (some 0) 0, .tx true ⟨1, 1, 8, "02", ""⟩ (some 1) 0, .rsp "01" 69] := by
  decide

/-- the handshake fails with an alert: the CON is NACKed once, the NON dropped, nothing written, session NONE -/
example :
    (hsClient.run [(.appSend true 1 7 "01", []), (.appSend false 1 8 "02", []), (.dgram, [.hs .fatalrx])]) =
      ({ hsClient with state := .none, tls := false, sentAlert := false, dtlsEvent := some .closed, next := 2 },
       [.nack .tls (some "01") (some 0), .ev .closed]) := by
  decide

/-- block mode (COAP_BLOCK_USE_LIBCOAP): a Confirmable Observe registration and a plain Confirmable queued during the
handshake — the first has an lg_crcv entry as well; the handshake fails with an alert: each is NACKed exactly once (the
lg_crcv entry is NOT reported on top of the delay-queue NACK), the lg_crcv list is gone -/
example :
    (({ hsClient with blockMode := true } : Sess).run
        [(.appSendL true true 1 7 "01", []), (.appSendL true false 1 8 "02", []), (.dgram, [.hs .fatalrx])]) =
      ({ hsClient with blockMode := true, state := .none, tls := false, sentAlert := false, dtlsEvent := some .closed, next := 2 },
       [.nack .tls (some "01") (some 0), .nack .tls (some "02") (some 1), .ev .closed]) := by
  decide

/-- … the instance of `queued_con_exactly_one_nack_on_failure` on that state: request "01" (serial 0) is named once -/
example :
    let s : Sess := (({ hsClient with blockMode := true } : Sess).run [(.appSendL true true 1 7 "01", []), (.appSendL true false 1 8 "02", [])]).1
    s.lgCrcv.map (·.tok) = ["01"] ∧ s.delayq.map (·.tok) = ["01", "02"] ∧
      ((({ s := s } : Ctx).disconnected .tls).out.countP (names 0)) = 1 := by
  decide

/-- block mode, only Non-confirmables queued (each has an lg_crcv entry; most recent first): nothing was reported from
the queues, so the request of the FIRST lg_crcv entry is (one NACK, instead of the anonymous one) -/
example :
    (({ hsClient with blockMode := true } : Sess).run
        [(.appSendL false false 1 7 "01", []), (.appSendL false false 1 8 "02", []), (.dgram, [.hs .fatalrx])]).2 =
      [.nack .tls (some "02") (some 1), .ev .closed] := by
  decide

/-- block mode, success: the response expires the lg_crcv entry of its token -/
example :
    (({ hsClient with blockMode := true } : Sess).run
        [(.appSendL true true 1 7 "01", []), (.dgram, [.hs .ok, .snd .ok]),
         (.dgram, [.recv (.data ⟨2, 69, 7, "01", "6869"⟩)])]).1.lgCrcv = [] := by
  decide

/-- DTLS retransmissions exhausted (fifth timer expiry): same outcome through coap_dtls_handle_timeout -/
example :
    (({ hsClient with tmoCount := 4 } : Sess).run [(.appSend true 1 7 "01", []), (.tlsTimeout, [])]).2 =
      [.nack .tls (some "01") (some 0), .bye, .ev .closed] := by
  decide

/-- release with a queued CON: closed first, then NACKed once -/
example : (hsClient.run [(.appSend true 1 7 "01", []), (.release, [])]).2 =
      [.bye, .ev .closed, .nack .tls (some "01") (some 0)] := by
  decide

/-- the ledger's start condition holds for the sessions histories start from (everything empty) -/
example : Ledger0 hsClient := ⟨rfl, by decide, by decide, by decide, by decide⟩
example : Ledger0 tlsHsClient := ⟨by decide, by decide, by decide, by decide, by decide⟩
example : Ledger0 (newClient [.env true, .hs .again]).1 := ⟨by decide, by decide, by decide, by decide, by decide⟩

/-- an instance of every hypothesis of `queued_con_one_nack_on_failure`: `pre` = two Confirmables and a Non-confirmable are
queued, `rest` = a third Confirmable is queued, the DTLS timer fires, an alert arrives (handshake failed), another request is
submitted on the dead session, the application releases it.  Message 0 is in the queue of a live session after `pre`, no
success in the whole history … -/
def failHist : List (Ev × List Orc) × List (Ev × List Orc) :=
  ([(.appSend true 1 7 "01", []), (.appSend false 1 8 "02", []), (.appSend true 1 9 "03", [])],
   [(.appSend true 1 10 "04", []), (.tlsTimeout, [.hs .again]), (.dgram, [.hs .fatalrx]), (.appSend true 1 11 "05", []),
    (.release, [])])

example : (⟨0, true, 1, 7, "01", 0⟩ : QMsg) ∈ (hsClient.run failHist.1).1.delayq ∧ (hsClient.run failHist.1).1.state ≠ .none ∧
    (hsClient.run failHist.1).1.freed = false ∧ Out.hsOkMark ∉ (hsClient.run (failHist.1 ++ failHist.2)).2 := by decide

/-- … and what the theorem says about it, computed: one NACK each for 0, 2, 3 (at the failure) and 4 (at the release), none
for the Non-confirmable 1, nothing written -/
example : (hsClient.run (failHist.1 ++ failHist.2)).2 =
    [.nack .tls (some "01") (some 0), .nack .tls (some "03") (some 2), .nack .tls (some "04") (some 3), .ev .closed,
     .nack .tls (some "05") (some 4)] ∧
    (List.range 6).map (fun j => nk j (hsClient.run (failHist.1 ++ failHist.2)).2) = [1, 0, 1, 1, 1, 0] := by decide

/-- THE CARVE-OUT of `queued_con_one_nack_on_failure` is real: block mode, a Confirmable Observe registration queued during the
handshake, coap_session_disconnected_lkd(COAP_NACK_ICMP_ISSUE) (the peer's port is unreachable) reports the first lg_crcv
entry's request and returns — the request stays queued —, then the handshake times out: the application sees the same request
in two NACK callbacks (ICMP_ISSUE, then TLS_FAILED); `nk` counts the second only. -/
theorem icmp_notification_is_extra :
    (({ hsClient with blockMode := true, tmoCount := 4 } : Sess).run
        [(.appSendL true true 1 7 "01", []), (.appDisconnect .icmp, []), (.tlsTimeout, [])]).2 =
      [.nack .icmp (some "01") (some 0), .nack .tls (some "01") (some 0), .bye, .ev .closed] ∧
    nk 0 [.nack .icmp (some "01") (some 0), .nack .tls (some "01") (some 0), .bye, .ev .closed] = 1 ∧
    List.countP (names 0) [.nack .icmp (some "01") (some 0), .nack .tls (some "01") (some 0), .bye, .ev .closed] = 2 := by
  decide

/-- the creating calls without oracle success (the hypothesis of `newClient_start` … `accept_start`) -/
example : Out.hsOkMark ∉ (newClient [.env true, .hs .again] true).2 ∧ Out.hsOkMark ∉ (endpointRxUnknownCtx [.env true, .ck true, .hs .again]).out ∧
    Out.hsOkMark ∉ (newClientTlsCtx true [.env true, .hs .again] false).out ∧ Out.hsOkMark ∉ (acceptCtx [.env true, .hs .again]).out := by
  decide

/-- "the TLS library accepts the writes": `k` answers `snd ok` satisfy the oracle hypothesis of the flush theorems -/
theorem accepting_replicate (k : Nat) :
    ∀ n, (List.replicate k (Orc.snd .ok)).drop n = [] ∨ ∃ t, (List.replicate k (Orc.snd .ok)).drop n = Orc.snd .ok :: t := by
  induction k with
  | zero => intro n; left; simp
  | succ k ih =>
    intro n
    cases n with
    | zero => right; exact ⟨List.replicate k (Orc.snd .ok), by simp [List.replicate_succ]⟩
    | succ n => simpa [List.replicate_succ] using ih n

/-- an instance of every hypothesis of `queued_first_flush_in_order_once_on_success`: NON, CON, CON queued (and a DTLS timer
expiry in between), then the handshake completes with three accepted writes available … -/
def okPre : List (Ev × List Orc) :=
  [(.appSend false 1 7 "01", []), (.tlsTimeout, [.hs .again]), (.appSend true 1 8 "02", []), (.appSend true 1 9 "03", [])]

example : Out.hsOkMark ∉ (hsClient.run okPre).2 ∧ (hsClient.run okPre).1.proto = .dtls ∧ (hsClient.run okPre).1.typ ≠ .hello ∧
    (hsClient.run okPre).1.tls = true ∧ (hsClient.run okPre).1.state = .handshake ∧ (hsClient.run okPre).1.freed = false ∧
    (hsClient.run okPre).1.appRef = true ∧ (hsClient.run okPre).1.delayq.length ≤ (List.replicate 3 (Orc.snd .ok)).length := by
  decide

/-- … and the whole trace: the mark, the NON and the first CON through the TLS layer, in submission order; the second CON
waits for the ACK (NSTART) -/
example : (hsClient.run (okPre ++ [(.dgram, .hs .ok :: List.replicate 3 (Orc.snd .ok))])).2 =
    [.hsOkMark, .tx true ⟨1, 1, 7, "01", ""⟩ (some 0) 0, .tx true ⟨0, 1, 8, "02", ""⟩ (some 1) 0] ∧
    ((hsClient.run (okPre ++ [(.dgram, .hs .ok :: List.replicate 3 (Orc.snd .ok))])).1.delayq.map (·.sn)) = [2] := by
  decide

/-- a cleartext CoAP CON GET (0x41 …) at the endpoint from an unknown peer: nothing -/
example : endpointRxUnknown (classify [0x41, 1, 0x77, 1, 0xee, 0xB1, 0x72, 0xFF, 73, 78, 74, 69, 67, 84, 69, 68]) [.env true, .ck false] = (none, []) := by
  decide

/-- … while a ClientHello creates the HELLO session and gets the cookie exchange -/
example : (endpointRxUnknown (classify [22, 254, 255, 0, 0, 0, 0, 0, 0, 0, 0, 0, 50, 1, 0]) [.env true, .ck false]).2 = [.evNew, .cookie] := by
  decide

/-- the flush writes NON, CON and stops at the second CON -/
example : sentPrefix 0 [⟨0, false, 1, 1, "01", 0⟩, ⟨1, true, 1, 2, "02", 0⟩, ⟨2, true, 1, 3, "03", 0⟩] =
    [⟨0, false, 1, 1, "01", 0⟩, ⟨1, true, 1, 2, "02", 0⟩] := by decide

/-- S: the credential verdicts of the property's cases -/
example : Coap.TlsCreds.accepts {} = .ok := by decide
example : Coap.TlsCreds.accepts { ck := "6b6579", sk := "6b6578" } = .fail := by decide
example : Coap.TlsCreds.accepts { ck := "6b65", sk := "6b6579" } = .fail := by decide
example : Coap.TlsCreds.accepts { ck := "" } = .nosession := by decide
example : Coap.TlsCreds.accepts { st := some [("6162", "6b6579")] } = .fail := by decide
example : Coap.TlsCreds.accepts { sh := some "68696e74", ih := .list ["6162"] } = .fail := by decide
example : Coap.TlsCreds.accepts { sni := some "686f7374", ss := some [("686f7375", "68", "6b6579")] } = .fail := by decide

/-! ### the first-transmission ledger: beyond the establishment (round R19b, Lemmas/TlsOrder.lean)

`Out.tx` carries the node's retransmit_cnt, so a FIRST transmission (count 0, a message serial) can be told from a
retransmission and from an acknowledgement.  `firsts N tr` = the serials below `N` of the first transmissions in `tr`, in trace
order; `fresh0 dq` = the serials of the never-transmitted messages of a delay queue, in queue order.  `Coap.TlsGate.Ord` is
preserved by every function of M on a DTLS session — before, at and after the establishment: the later ACK-driven passes of
coap_session_connected, coap_retransmit (count ≥ 1: never a first transmission, also when the retransmission is parked in the
delay queue and flushed from there), give-ups, RST, teardown with messages in flight, release. -/

theorem count_le_one_of_sorted (l : List Nat) (h : l.Pairwise (· < ·)) (a : Nat) : l.count a ≤ 1 := by
  induction l with
  | nil => simp
  | cons x t ih =>
    rw [List.pairwise_cons] at h
    rw [List.count_cons]
    by_cases hx : x = a
    · subst hx
      have : t.count x = 0 := List.count_eq_zero.mpr fun hm => Nat.lt_irrefl _ (h.1 x hm)
      simp [this]
    · have := ih h.2
      simp [hx]; exact this

theorem sorted_append_disjoint (a b : List Nat) (h : (a ++ b).Pairwise (· < ·)) (x : Nat) (ha : x ∈ a) (hb : x ∈ b) : False :=
  Nat.lt_irrefl _ ((List.pairwise_append.mp h).2.2 x ha x hb)

/-- DELIVERED IN ORDER, EACH ONCE — trace level, through and BEYOND the establishment.  Take any history `pre` of a DTLS session
that starts unauthenticated in which the TLS library has not reported success, and let `N` be the next serial at its end: the
serials below `N` are exactly the messages submitted during the handshake.  Let `rest` be ANY continuation: the datagram that
completes the handshake, ACKs, responses, RSTs, CoAP retransmission timers, further coap_send calls, disconnects, release — with
ANY answers of the TLS library (in particular: every write accepted; a refused write is covered too, `tx` = the PDU was
handed to coap_dtls_send).  Then over the WHOLE trace:
  * the serials of the FIRST transmissions of the messages queued during the handshake, in the order they happen, followed by
    the serials of the never-transmitted messages still in the delay queue, are STRICTLY INCREASING: every queued message is
    transmitted for the first time AT MOST ONCE, and first transmissions happen in SUBMISSION ORDER — nothing overtakes, whichever
    pass of coap_session_connected (handshake completion or a later ACK / give-up) takes it off the queue;
  * every message `q` that was in the delay queue at the end of `pre` is, at the end, EITHER still queued and has never been
    transmitted, OR no longer waiting for its first transmission and then transmitted for the first time EXACTLY ONCE — unless
    the queue was given up: a NACK other than the ICMP notification was raised (coap_session_disconnected_lkd always raises one)
    or the session was freed (coap_session_mfree).
Hypothesis `q.cnt = 0`: what coap_send submits (retransmit_cnt 0).
Not claimed (and false, C06/C08's open finding drain_break_strands_delayed / the NON-response path that lowers con_active
without a flush): that a message still queued on an established session will eventually be taken off the queue. -/
theorem queued_delivered_in_order_once_on_success {s : Sess} (h : Unauth s) (hl : Ledger0 s) (hp : s.proto = .dtls)
    (pre rest : List (Ev × List Orc)) (hnm : Out.hsOkMark ∉ (s.run pre).2) :
    (firsts (s.run pre).1.next (s.run (pre ++ rest)).2 ++ fresh0 (s.run (pre ++ rest)).1.delayq).Pairwise (· < ·) ∧
    (∀ q ∈ (s.run pre).1.delayq, q.cnt = 0 →
      (q.sn ∈ fresh0 (s.run (pre ++ rest)).1.delayq ∧ (firsts (s.run pre).1.next (s.run (pre ++ rest)).2).count q.sn = 0) ∨
      (q.sn ∉ fresh0 (s.run (pre ++ rest)).1.delayq ∧
        ((firsts (s.run pre).1.next (s.run (pre ++ rest)).2).count q.sn = 1 ∨
          (s.run (pre ++ rest)).2.any Out.isFail = true ∨ (s.run (pre ++ rest)).1.freed = true))) := by
  -- nothing was written during `pre`
  have hnotx : ∀ o ∈ (s.run pre).2, ∀ j, o.firstSn = some j → (s.run pre).1.next ≤ j := by
    intro o ho j hj
    cases o with
    | tx a v sn cnt =>
      obtain ⟨x, y, hab⟩ := List.append_of_mem ho
      have := nothing_queued_written_before_established h pre x y a v sn hab
      exact absurd (by rw [hab]; simp [this]) hnm
    | _ => simp [Out.firstSn] at hj
  have hf0 : ∀ l, firsts (s.run pre).1.next ((s.run pre).2 ++ l) = firsts (s.run pre).1.next l := by
    intro l; rw [firsts_append, firsts_quiet _ _ hnotx]; rfl
  -- the ledger of the handshake phase at the end of `pre`
  have h1 := run_ledOk pre (ledOk_start h hl)
  have hc : Core (fun j => 0 + nk j (s.run pre).2) false 0 { s := (s.run pre).1, orc := [] } := by
    rcases h1.led with hs | hc
    · exact absurd hs (not_seen_of_no_mark _ hnm)
    · exact hc []
  -- the protocol never changes
  have hp1 : (s.run pre).1.proto = .dtls := by
    have h0 : Ord 0 [] false false 0 { s := s } :=
      ⟨by
        simp only [firsts_nil, List.append_nil, List.nil_append]
        exact List.Pairwise.sublist (List.Sublist.map _ List.filter_sublist) hl.srt,
       by
        intro j hj
        simp only [fresh0, List.mem_map, List.mem_filter] at hj
        obtain ⟨q, ⟨hq, _⟩, rfl⟩ := hj
        exact hl.lt q hq,
       Nat.zero_le _, by simp, hp, by simp⟩
    exact (run_ord s pre h0).proto
  have hmem : ∀ q ∈ (s.run pre).1.delayq, q.cnt = 0 → q.sn ∈ fresh0 (s.run pre).1.delayq := by
    intro q hq hc0
    simp only [fresh0, List.mem_map, List.mem_filter]
    exact ⟨q, ⟨hq, by simp [hc0]⟩, rfl⟩
  have key : ∀ (t : Bool) (k : Nat), (t = true → k < (s.run pre).1.next ∧ k ∈ fresh0 (s.run pre).1.delayq) →
      Ord (s.run pre).1.next ([] ++ firsts (s.run pre).1.next ((s.run pre).1.run rest).2)
        (false || ((s.run pre).1.run rest).2.any Out.isFail) t k { s := ((s.run pre).1.run rest).1 } := by
    intro t k hk
    refine run_ord (s.run pre).1 rest ⟨?_, ?_, Nat.le_refl _, by simp, hp1, ?_⟩
    · simp only [firsts_nil, List.append_nil, List.nil_append]
      exact List.Pairwise.sublist (List.Sublist.map _ List.filter_sublist) hc.srt
    · intro j hj
      simp only [fresh0, List.mem_map, List.mem_filter] at hj
      obtain ⟨q, ⟨hq, _⟩, rfl⟩ := hj
      exact hc.lt q hq
    · intro ht
      exact ⟨(hk ht).1, Or.inl (hk ht).2⟩
  rw [run_append]
  simp only [hf0]
  have hsrt := (key false 0 (by simp)).srt
  simp only [firsts_nil, List.append_nil, List.nil_append] at hsrt
  refine ⟨hsrt, ?_⟩
  intro q hq hc0
  have hk := (key true q.sn fun _ => ⟨hc.lt q hq, hmem q hq hc0⟩).trk rfl
  simp only [firsts_nil, List.append_nil, List.nil_append, Bool.false_or] at hk
  have hcnt := count_le_one_of_sorted _ (List.pairwise_append.mp hsrt).1 q.sn
  by_cases hin : q.sn ∈ fresh0 ((s.run pre).1.run rest).1.delayq
  · left
    refine ⟨hin, List.count_eq_zero.mpr fun hm => sorted_append_disjoint _ _ hsrt q.sn hm hin⟩
  · right
    refine ⟨hin, ?_⟩
    rcases hk.2 with b | b | b | b | b
    · exact absurd b hin
    · left
      have := List.count_pos_iff.mpr b
      omega
    · right; left
      simp only [List.any_append, b, Bool.or_true]
    · simp at b
    · right; right; exact b

/-- the first-transmission ledger of ANY history of a DTLS session whose delay queue starts in submission order (no gate needed):
first transmissions of serials below the starting `next`, then the never-transmitted rest of the queue: strictly increasing.
This is the form that also covers a session that is already established. -/
theorem first_transmissions_in_order (s : Sess) (hp : s.proto = .dtls)
    (hs : (fresh0 s.delayq).Pairwise (· < ·)) (hlt : ∀ j ∈ fresh0 s.delayq, j < s.next) (evs : List (Ev × List Orc)) :
    (firsts s.next (s.run evs).2 ++ fresh0 (s.run evs).1.delayq).Pairwise (· < ·) := by
  have h0 : Ord s.next [] false false 0 { s := s } :=
    ⟨by simpa using hs, hlt, Nat.le_refl _, by simp, hp, by simp⟩
  simpa using (run_ord s evs h0).srt

/-- an instance of every hypothesis of `queued_delivered_in_order_once_on_success`, and a continuation that goes well beyond
the establishing datagram: NON 0, CON 1, CON 2 queued (`okPre`); the handshake completes (0 and 1 go out, 2 waits: NSTART); the
CoAP timer of 1 fires (retransmission, count 1); a fourth message is submitted (serial 3, waits behind 2); the ACK of 1 arrives:
the later pass of coap_session_connected transmits 2; the peer resets 2: pass three transmits 3 -/
def okRest : List (Ev × List Orc) :=
  [(.dgram, .hs .ok :: List.replicate 3 (Orc.snd .ok)), (.retransmit 8, [.snd .ok]), (.appSend true 1 10 "04", []),
   (.dgram, [.recv (.data ⟨2, 69, 8, "02", ""⟩), .snd .ok]), (.dgram, [.recv (.data ⟨3, 0, 9, "", ""⟩), .snd .ok])]

example : Unauth hsClient ∧ Ledger0 hsClient ∧ hsClient.proto = .dtls ∧ Out.hsOkMark ∉ (hsClient.run okPre).2 ∧
    (hsClient.run okPre).1.delayq.map (fun q => (q.sn, q.cnt)) = [(0, 0), (1, 0), (2, 0)] ∧ (hsClient.run okPre).1.next = 3 :=
  ⟨⟨rfl, by decide, by decide⟩, ⟨rfl, by decide, by decide, by decide, by decide⟩, rfl, by decide, by decide, by decide⟩

/-- … the trace: first transmissions 0, 1, 2 in submission order, the retransmission of 1 (count 1) in between is not one; serial
3 (submitted after the establishment) is outside `firsts 3` -/
example : (hsClient.run (okPre ++ okRest)).2.filterMap (fun o => match o with | .tx _ _ (some j) cnt => some (j, cnt) | _ => none) =
      [(0, 0), (1, 0), (1, 1), (2, 0), (3, 0)] ∧
    firsts 3 (hsClient.run (okPre ++ okRest)).2 = [0, 1, 2] ∧ fresh0 (hsClient.run (okPre ++ okRest)).1.delayq = [] := by
  decide

/-- a refused write during the first flush (the TLS library answers an error for the NON): the CON behind it is still
transmitted once, in order; the third stays queued, never transmitted — the two cases of the theorem side by side -/
example : firsts 3 (hsClient.run (okPre ++ [(.dgram, [.hs .ok, .snd .err, .snd .ok])])).2 = [0] ∧
    fresh0 (hsClient.run (okPre ++ [(.dgram, [.hs .ok, .snd .err, .snd .ok])])).1.delayq = [1, 2] := by
  decide

/-- teardown after the establishment with a message still queued: it is never transmitted, the trace has the NACKs -/
example : firsts 3 (hsClient.run (okPre ++ [(.dgram, .hs .ok :: List.replicate 3 (Orc.snd .ok)), (.appDisconnect .tls, [])])).2 = [0, 1] ∧
    fresh0 (hsClient.run (okPre ++ [(.dgram, .hs .ok :: List.replicate 3 (Orc.snd .ok)), (.appDisconnect .tls, [])])).1.delayq = [] ∧
    (hsClient.run (okPre ++ [(.dgram, .hs .ok :: List.replicate 3 (Orc.snd .ok)), (.appDisconnect .tls, [])])).2.any Out.isFail = true := by
  decide

/-- An ICMP error reported to a session with nothing in flight and no lg_crcv entry (coap_session_disconnected_lkd with
COAP_NACK_ICMP_ISSUE while requests wait behind the handshake, no block mode): exactly ONE notification that names NO message;
the delay queue, the state and everything else are untouched — a queued Confirmable is not reported by it, however often it
happens (the lg_crcv case is `icmp_notification_is_extra`).  Tied by the harness' `icmp` segments (round R19b). -/
theorem icmp_report_names_nothing_queued (c : Ctx) (hi : c.s.inflight = []) (hl : c.s.lgCrcv = []) :
    (c.disconnected .icmp).out = c.out ++ [.nack .icmp none none] ∧ (c.disconnected .icmp).s = c.s := by
  simp [Ctx.disconnected, Ctx.discOuts, Ctx.discFirst, Ctx.discDq, Ctx.discLg, hi, hl]

/-- … on `okPre`'s session (NON, CON, CON queued, handshake pending), twice: two anonymous notifications, queue unchanged -/
example : ((hsClient.run okPre).1.run [(.appDisconnect .icmp, []), (.appDisconnect .icmp, [])]) =
    ((hsClient.run okPre).1, [.nack .icmp none none, .nack .icmp none none]) := by decide

/-! ## round R19c — the NACK ledger AFTER the establishment (Lemmas/TlsNack.lean): the send queue is in the accounting

`Nak` is preserved by every function of M on a DTLS session outside block mode, whatever the TLS library answers, no gate
needed: every serial is held at most once by the library (delay queue, send queue, a detached node), what is held has not been
reported, `nk j ≤ 2`, and `nk j = 2` only by the pattern `Dbl` (D19a).  Hypotheses of this section: `Ledger0 s` (true of every
new session), DTLS, no block mode (`blockMode = false`, `lgCrcv = []` — with lg_crcv entries coap_session_disconnected_lkd
reports the first entry's request when nothing else was reported, which may name a message given up long before). -/

theorem run_nak0 {s : Sess} (hl : Ledger0 s) (hp : s.proto = .dtls) (hb : s.blockMode = false) (hg : s.lgCrcv = [])
    (evs : List (Ev × List Orc)) (k : Nat) : Nak ([] ++ (s.run evs).2) [] false k { s := (s.run evs).1 } :=
  run_nak s evs (nak_start s hl.infl hl.srt hl.lt hg hb hp k)

/-- THE NACK LEDGER OF ANY HISTORY (handshake, establishment, ACKs, RSTs, retransmissions, give-ups, refused writes, disconnects,
release; any answers of the TLS library): at the end
  * a message the library still holds — in the delay queue or in the send queue — has NOT been reported: no NACK names it;
  * no message is named by more than TWO NACKs;
  * a message named by two NACKs is named by the pattern `Dbl`: same reason (not ICMP), nothing but NACKs in between — one call
    of coap_session_disconnected_lkd (`double_report_only_first_inflight` says which message). -/
theorem nack_ledger_any_history {s : Sess} (hl : Ledger0 s) (hp : s.proto = .dtls) (hb : s.blockMode = false) (hg : s.lgCrcv = [])
    (evs : List (Ev × List Orc)) :
    (∀ q ∈ (s.run evs).1.delayq ++ (s.run evs).1.inflight, nk q.sn (s.run evs).2 = 0) ∧
    (∀ j, nk j (s.run evs).2 ≤ 2) ∧ (∀ j, nk j (s.run evs).2 = 2 → Dbl j (s.run evs).2) := by
  have h := run_nak0 hl hp hb hg evs 0
  refine ⟨fun q hq => ?_, fun j => ?_, fun j hj => ?_⟩
  · simpa using h.z q.sn (hc_pos_of_mem _ q hq)
  · simpa using h.le2 j
  · simpa using h.dbl j (by simpa using hj)

/-- (1) A message queued during the handshake is NOT NACKed while the library holds it: take any history `pre` (the handshake
phase), a message `q` in the delay queue at its end, ANY continuation `rest`; if at the end a node with `q`'s serial is still in
the delay queue or in the send queue (the session has not failed, was not released, the message was not given up after
MAX_RETRANSMIT, not reset, not acknowledged) then no NACK in the WHOLE trace names it. -/
theorem queued_not_nacked_while_held {s : Sess} (hl : Ledger0 s) (hp : s.proto = .dtls) (hb : s.blockMode = false)
    (hg : s.lgCrcv = []) (pre rest : List (Ev × List Orc)) (q : QMsg) (_hq : q ∈ (s.run pre).1.delayq)
    (q2 : QMsg) (hq2 : q2 ∈ (s.run (pre ++ rest)).1.delayq ++ (s.run (pre ++ rest)).1.inflight) (hsn : q2.sn = q.sn) :
    nk q.sn (s.run (pre ++ rest)).2 = 0 := by
  rw [← hsn]
  exact (nack_ledger_any_history hl hp hb hg (pre ++ rest)).1 q2 hq2

theorem step_appDisconnect (s : Sess) (r : Nack) (o : List Orc) (hfr : s.freed = false) :
    s.step (.appDisconnect r) o =
      ((({ s := s, orc := o } : Ctx).disconnected r).s, (({ s := s, orc := o } : Ctx).disconnected r).out) := by
  simp [Sess.step, Sess.stepCtx, hfr]

/-- (3) D19a IS THE ONLY WAY A MESSAGE IS REPORTED TWICE.  In any history: at most two NACKs name a message, and two only in the
pattern `Dbl` — both inside one call of coap_session_disconnected_lkd; and for the event that produces it —
coap_session_disconnected(reason ≠ ICMP) after ANY history — the event's NACKs name a serial twice EXACTLY WHEN it is the
Confirmable at the head of the send queue (reported by the first loop of coap_session_disconnected_lkd and again by
coap_cancel_session_messages); every other message on either queue is named at most once. -/
theorem double_report_only_first_inflight {s : Sess} (hl : Ledger0 s) (hp : s.proto = .dtls) (hb : s.blockMode = false)
    (hg : s.lgCrcv = []) (evs : List (Ev × List Orc)) :
    (∀ j, nk j (s.run evs).2 ≤ 2 ∧ (nk j (s.run evs).2 = 2 → Dbl j (s.run evs).2)) ∧
    (∀ (r : Nack) (o : List Orc) (j : Nat), r ≠ .icmp → (s.run evs).1.freed = false →
      (nk j ((s.run evs).1.step (.appDisconnect r) o).2 = 2 ↔
        ∃ q0 tl, (s.run evs).1.inflight = q0 :: tl ∧ q0.sn = j ∧ q0.con = true)) := by
  have hA := nack_ledger_any_history hl hp hb hg evs
  refine ⟨fun j => ⟨hA.2.1 j, hA.2.2 j⟩, ?_⟩
  intro r o j hr hfr
  have h := run_nak0 hl hp hb hg evs 0
  have hc' : Nak ([] ++ (s.run evs).2) [] false 0 { s := (s.run evs).1, orc := o } :=
    ⟨h.nd, h.lt, h.z, h.fut, h.le2, h.dbl, h.lg, h.bm, h.proto, h.trk⟩
  rw [step_appDisconnect _ r o hfr]
  simp only [disconnected_nk r hr j, nk_nil, Nat.zero_add]
  exact (disc_counts r hr hc' j).2

/-- (2) AFTER A LATER FAILURE each still-unacknowledged Confirmable that was queued during the handshake gets AT LEAST ONE NACK and
— unless it is the first in-flight message of the session (D19a) — EXACTLY ONE.  `pre`: the handshake phase, `q` queued at its
end; `rest`: ANY continuation (establishment, flushes, retransmissions, …; any TLS-library answers) at whose end a Confirmable
node with `q`'s serial is still on the delay queue or the send queue; then coap_session_disconnected(reason ≠ ICMP).  Over the
WHOLE trace: `q` is named by at least one NACK, by at most two, by two exactly when it was the head of the send queue; both
queues are empty afterwards. -/
theorem queued_con_nacked_on_later_failure {s : Sess} (hl : Ledger0 s) (hp : s.proto = .dtls) (hb : s.blockMode = false)
    (hg : s.lgCrcv = []) (pre rest : List (Ev × List Orc)) (q : QMsg) (_hq : q ∈ (s.run pre).1.delayq)
    (q2 : QMsg) (hq2 : q2 ∈ (s.run (pre ++ rest)).1.delayq ++ (s.run (pre ++ rest)).1.inflight) (hsn : q2.sn = q.sn)
    (hcon : q2.con = true) (hfr : (s.run (pre ++ rest)).1.freed = false) (r : Nack) (hr : r ≠ .icmp) (o : List Orc) :
    1 ≤ nk q.sn (s.run (pre ++ rest ++ [(.appDisconnect r, o)])).2 ∧
    nk q.sn (s.run (pre ++ rest ++ [(.appDisconnect r, o)])).2 ≤ 2 ∧
    (nk q.sn (s.run (pre ++ rest ++ [(.appDisconnect r, o)])).2 = 2 ↔
      ∃ q0 tl, (s.run (pre ++ rest)).1.inflight = q0 :: tl ∧ q0.sn = q.sn ∧ q0.con = true) ∧
    (s.run (pre ++ rest ++ [(.appDisconnect r, o)])).1.delayq = [] ∧
    (s.run (pre ++ rest ++ [(.appDisconnect r, o)])).1.inflight = [] := by
  have h := run_nak0 hl hp hb hg (pre ++ rest) 0
  have hc' : Nak ([] ++ (s.run (pre ++ rest)).2) [] false 0 { s := (s.run (pre ++ rest)).1, orc := o } :=
    ⟨h.nd, h.lt, h.z, h.fut, h.le2, h.dbl, h.lg, h.bm, h.proto, h.trk⟩
  have hd := disc_counts r hr hc' q.sn
  have hz := (nack_ledger_any_history hl hp hb hg (pre ++ rest)).1 q2 hq2
  rw [hsn] at hz
  have hle := (nack_ledger_any_history hl hp hb hg (pre ++ rest ++ [(.appDisconnect r, o)])).2.1 q.sn
  have hpos := hd.1 ⟨q2, hq2, hsn, hcon⟩
  have hqs := disconnected_queues (c := { s := (s.run (pre ++ rest)).1, orc := o }) r hr
  rw [run_append (s := s) (a := pre ++ rest)] at hle ⊢
  simp only [Sess.run, step_appDisconnect _ r o hfr, List.append_nil, nk_append, disconnected_nk r hr q.sn, nk_nil,
    Nat.zero_add, hz] at hle ⊢
  have hd2 := hd.2
  simp only [nk_append] at hpos hd2
  exact ⟨hpos, hle, hd2, hqs.1, hqs.2⟩

/-- DELIVERED ONCE, OR A NACK NAMING IT — `queued_delivered_in_order_once_on_success` with the coarse "given up" disjunct (some
non-ICMP NACK somewhere in the trace, or the session freed) replaced, for a Confirmable, by "a NACK naming `q`" (coap_session_mfree
reports the Confirmables of the delay queue too, so "freed" is covered by it).  Same `pre` / `rest`; every Confirmable `q` that was
in the delay queue at the end of `pre` is at the end EITHER still queued, never transmitted and not reported, OR no longer waiting
and then transmitted for the first time EXACTLY once or named by a NACK. -/
theorem queued_con_delivered_once_or_nacked {s : Sess} (h : Unauth s) (hl : Ledger0 s) (hp : s.proto = .dtls)
    (hb : s.blockMode = false) (hg : s.lgCrcv = []) (pre rest : List (Ev × List Orc)) (hnm : Out.hsOkMark ∉ (s.run pre).2) :
    ∀ q ∈ (s.run pre).1.delayq, q.con = true → q.cnt = 0 →
      (q.sn ∈ fresh0 (s.run (pre ++ rest)).1.delayq ∧ (firsts (s.run pre).1.next (s.run (pre ++ rest)).2).count q.sn = 0 ∧
        nk q.sn (s.run (pre ++ rest)).2 = 0) ∨
      (q.sn ∉ fresh0 (s.run (pre ++ rest)).1.delayq ∧
        ((firsts (s.run pre).1.next (s.run (pre ++ rest)).2).count q.sn = 1 ∨ 1 ≤ nk q.sn (s.run (pre ++ rest)).2)) := by
  intro q hq hcon hcnt
  obtain ⟨hsrt, hcase⟩ := queued_delivered_in_order_once_on_success h hl hp pre rest hnm
  have hN := run_nak0 hl hp hb hg pre 0
  have hlt : q.sn < (s.run pre).1.next := hN.lt q.sn (hc_pos_of_mem _ q (List.mem_append_left _ hq))
  have hE := run_nak (s.run pre).1 rest (nak_track hN ⟨q, hq, rfl, hcon, hcnt⟩)
  have hrun : s.run (pre ++ rest) = (((s.run pre).1.run rest).1, (s.run pre).2 ++ ((s.run pre).1.run rest).2) := run_append s pre rest
  have htr : ([] ++ (s.run pre).2) ++ ((s.run pre).1.run rest).2 = (s.run (pre ++ rest)).2 := by rw [hrun]; simp
  have hst : ((s.run pre).1.run rest).1 = (s.run (pre ++ rest)).1 := by rw [hrun]
  rw [htr] at hE
  have hcnt1 := count_le_one_of_sorted _ (List.pairwise_append.mp hsrt).1 q.sn
  by_cases hin : q.sn ∈ fresh0 (s.run (pre ++ rest)).1.delayq
  · left
    refine ⟨hin, List.count_eq_zero.mpr fun hm => sorted_append_disjoint _ _ hsrt q.sn hm hin, ?_⟩
    simp only [fresh0, List.mem_map, List.mem_filter] at hin
    obtain ⟨q', ⟨hq', _⟩, hsn⟩ := hin
    have := (nack_ledger_any_history hl hp hb hg (pre ++ rest)).1 q' (List.mem_append_left _ hq')
    rw [hsn] at this; exact this
  · right
    refine ⟨hin, ?_⟩
    have ht := hE.trk rfl
    rw [show ({ s := ((s.run pre).1.run rest).1 } : Ctx).out = [] from rfl, List.append_nil] at ht
    rcases ht with ⟨q', hq', h1, _, h3⟩ | b | b
    · exfalso
      apply hin
      rw [hst] at hq'
      simp only [fresh0, List.mem_map, List.mem_filter]
      exact ⟨q', ⟨hq', by simp [h3]⟩, h1⟩
    · left
      have hm : q.sn ∈ firsts (s.run pre).1.next (s.run (pre ++ rest)).2 := by
        unfold firsts
        exact List.mem_filter.mpr ⟨b, by simpa using hlt⟩
      have := List.count_pos_iff.mpr hm
      omega
    · right; exact b

/-- `icmp_report_names_nothing_queued` AT TRACE LEVEL (outside block mode): after ANY history of the handshake phase (any events,
any answers of the TLS library, the oracle has not reported success) coap_session_disconnected(COAP_NACK_ICMP_ISSUE) raises
exactly ONE notification, which names NO message, and leaves the session exactly as it was — however many requests wait in the
delay queue, however often it happens. -/
theorem icmp_report_names_nothing_queued_trace {s : Sess} (h : Unauth s) (hl : Ledger0 s) (hp : s.proto = .dtls)
    (hb : s.blockMode = false) (hg : s.lgCrcv = []) (pre : List (Ev × List Orc)) (hnm : Out.hsOkMark ∉ (s.run pre).2)
    (hfr : (s.run pre).1.freed = false) (o : List Orc) :
    (s.run pre).1.step (.appDisconnect .icmp) o = ((s.run pre).1, [.nack .icmp none none]) := by
  have h1 := run_ledOk pre (ledOk_start h hl)
  have hinf : (s.run pre).1.inflight = [] := by
    rcases h1.led with hs | hc
    · exact absurd hs (not_seen_of_no_mark _ hnm)
    · exact (hc []).infl
  have hlg := (run_nak0 hl hp hb hg pre 0).lg
  have := icmp_report_names_nothing_queued { s := (s.run pre).1, orc := o } hinf hlg
  simp only [Sess.step, Sess.stepCtx, hfr, Bool.false_eq_true, if_false]
  rw [this.1, this.2]
  rfl

/-- … and after ANY history at all (also beyond the establishment): the notification leaves the session as it was, and a message it
names is the first node of the send queue — never a message of the delay queue. -/
theorem icmp_report_names_no_queued_message {s : Sess} (hl : Ledger0 s) (hp : s.proto = .dtls) (hb : s.blockMode = false)
    (hg : s.lgCrcv = []) (evs : List (Ev × List Orc)) (o : List Orc) :
    ((s.run evs).1.step (.appDisconnect .icmp) o).1 = (s.run evs).1 ∧
    ∀ r tok j, Out.nack r tok (some j) ∈ ((s.run evs).1.step (.appDisconnect .icmp) o).2 →
      (∃ q0 tl, (s.run evs).1.inflight = q0 :: tl ∧ q0.sn = j) ∧ ∀ q ∈ (s.run evs).1.delayq, q.sn ≠ j := by
  have hN := run_nak0 hl hp hb hg evs 0
  have hlg : (s.run evs).1.lgCrcv = [] := hN.lg
  by_cases hfr : (s.run evs).1.freed = true
  · simp [Sess.step, Sess.stepCtx, hfr]
  · have hfr' : (s.run evs).1.freed = false := by simpa using hfr
    refine ⟨by simp [Sess.step, Sess.stepCtx, hfr', Ctx.disconnected], ?_⟩
    intro r tok j hm
    simp only [Sess.step, Sess.stepCtx, hfr', Bool.false_eq_true, if_false, Ctx.disconnected, if_true, List.nil_append,
      Ctx.discOuts, Ctx.discFirst, Ctx.discDq, Ctx.discLg, hlg] at hm
    cases hi : (s.run evs).1.inflight with
    | nil => simp [hi] at hm
    | cons q0 tl =>
      simp [hi, nackOf] at hm
      obtain ⟨_, _, rfl⟩ := hm
      refine ⟨⟨q0, tl, rfl, rfl⟩, fun q hq hqs => ?_⟩
      have hnd := hN.nd q0.sn
      have h1 := countP_sn_pos _ q hq
      rw [countP_sn_count, hqs] at h1
      simp only [hc, List.count_nil, Nat.zero_add, hi, sns, List.map_cons, List.count_cons_self] at hnd
      simp only [sns] at h1
      omega

/-! ### instances (every hypothesis of the R19c theorems on a non-trivial history) -/

/-- the establishing datagram: the handshake completes, NON 0 and CON 1 go out, CON 2 waits (NSTART) -/
def estDgram : Ev × List Orc := (.dgram, .hs .ok :: List.replicate 3 (Orc.snd .ok))

example : Ledger0 hsClient ∧ hsClient.proto = .dtls ∧ hsClient.blockMode = false ∧ hsClient.lgCrcv = [] :=
  ⟨⟨rfl, by decide, by decide, by decide, by decide⟩, rfl, rfl, rfl⟩

/-- after `okPre ++ [estDgram]`: CON 1 is the head of the send queue, CON 2 is in the delay queue, nothing reported so far, the
session is live — the hypotheses of `queued_not_nacked_while_held` / `queued_con_nacked_on_later_failure` for serials 1 and 2 -/
example : ((hsClient.run (okPre ++ [estDgram])).1.inflight.map fun q => (q.sn, q.con)) = [(1, true)] ∧
    ((hsClient.run (okPre ++ [estDgram])).1.delayq.map fun q => (q.sn, q.con)) = [(2, true)] ∧
    (hsClient.run (okPre ++ [estDgram])).1.freed = false ∧
    (List.range 4).map (fun j => nk j (hsClient.run (okPre ++ [estDgram])).2) = [0, 0, 0, 0] := by decide

/-- D19a, the `decide`d WITNESS: the established session is torn down (coap_session_disconnected, TLS_FAILED).  The first in-flight
Confirmable (serial 1) is named by TWO NACKs — first loop of coap_session_disconnected_lkd, then coap_cancel_session_messages —,
the queued Confirmable (serial 2) by exactly ONE, the NON (serial 0, written and deleted) by none. -/
theorem d19a_first_inflight_reported_twice :
    (List.range 4).map (fun j => nk j (hsClient.run (okPre ++ [estDgram] ++ [(.appDisconnect .tls, [])])).2) = [0, 2, 1, 0] ∧
    (hsClient.run (okPre ++ [estDgram] ++ [(.appDisconnect .tls, [])])).2.filter Out.isNack =
      [.nack .tls (some "02") (some 1), .nack .tls (some "03") (some 2), .nack .tls (some "02") (some 1)] := by decide

/-- give-up after MAX_RETRANSMIT on the established session: serial 1 is reported ONCE (TOO_MANY_RETRIES), is off the send queue
while coap_session_connected flushes serial 2, and a later teardown does not name it again; serial 2 — now the first in-flight
message — is the one reported twice -/
example : (List.range 4).map (fun j => nk j (hsClient.run (okPre ++ [estDgram] ++
      [(.retransmit 8, [.snd .ok]), (.retransmit 8, [.snd .ok]), (.retransmit 8, [.snd .ok]), (.retransmit 8, [.snd .ok]),
       (.retransmit 8, [.snd .ok])])).2) = [0, 1, 0, 0] ∧
    (List.range 4).map (fun j => nk j (hsClient.run (okPre ++ [estDgram] ++
      [(.retransmit 8, [.snd .ok]), (.retransmit 8, [.snd .ok]), (.retransmit 8, [.snd .ok]), (.retransmit 8, [.snd .ok]),
       (.retransmit 8, [.snd .ok]), (.appDisconnect .tls, [])])).2) = [0, 1, 2, 0] := by decide

/-- the write of the flush is refused AND the TLS library reports a fatal alert inside coap_session_connected: the session is torn
down while serial 0 is a detached node (neither queue holds it); the queued Confirmables 1 and 2 are reported once each -/
example : (List.range 4).map (fun j => nk j (hsClient.run (okPre ++ [(.dgram, [.hs .ok, .snd .fatalrx])])).2) = [0, 1, 1, 0] ∧
    (hsClient.run (okPre ++ [(.dgram, [.hs .ok, .snd .fatalrx])])).1.state = .none := by decide

/-- ICMP after the establishment names the first in-flight message (advisory, not counted), never the queued one; the session is
untouched -/
example : ((hsClient.run (okPre ++ [estDgram])).1.step (.appDisconnect .icmp) []) =
    ((hsClient.run (okPre ++ [estDgram])).1, [.nack .icmp (some "02") (some 1)]) := by decide

/-- why "outside block mode": with an lg_crcv entry (CON + Observe, block mode) a Confirmable given up after MAX_RETRANSMIT
(reported: TOO_MANY_RETRIES) is reported AGAIN by a later coap_session_disconnected_lkd that finds nothing else to report — two
NACKs that are NOT the D19a pattern.  Model level (the harness has no give-up scenario in block mode); an in-flight matter (D19a:
C06/C07), recorded in design/C19.md. -/
example : nk 0 (({ hsClient with blockMode := true } : Sess).run
    [(.appSendL true true 1 7 "01", []), (.dgram, [.hs .ok, .snd .ok]),
     (.retransmit 7, [.snd .ok]), (.retransmit 7, [.snd .ok]), (.retransmit 7, [.snd .ok]), (.retransmit 7, [.snd .ok]),
     (.retransmit 7, []), (.appDisconnect .tls, [])]).2 = 2 := by decide

end Coap.C19
