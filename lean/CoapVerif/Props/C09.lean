import CoapVerif.Lemmas.Block
import CoapVerif.Lemmas.BlockRecv
import CoapVerif.Lemmas.BlockCrcv
import CoapVerif.Lemmas.BlockCrcvHostile
import CoapVerif.Lemmas.BlockSrcvHostile
import CoapVerif.Lemmas.BlockXmit
import CoapVerif.Lemmas.BlockRtag
import CoapVerif.Lemmas.BlockNet
import CoapVerif.Lemmas.BlockNetOnce
import CoapVerif.Lemmas.BlockTok
import CoapVerif.Lemmas.BlockAdl
import CoapVerif.Lemmas.BlockNetTok
import CoapVerif.Lemmas.BlockNetTok1
/-
C09 — block-wise transfer: the sender's body arrives intact, once, or the transfer fails explicitly.

Layer A (pure arithmetic and data structures of src/coap_block.c), full proofs:

  S = Coap.Spec.Block   (slices of a byte list, sets of block numbers; CoapVerif/Spec/Block.lean)
  M = Coap.Block        (transcription of the C; CoapVerif/Model/Block.lean), tied to the compiled code by
                        harness/block.c (the real functions, static ones included) on generated inputs,
                        constants and helper tables regenerated from the tree (Generated/BlockConst.lean, T1).

Property theorems only; helper lemmas live in CoapVerif/Lemmas/Block.lean.
-/
namespace Coap.C09
open Coap Coap.Block Coap.Spec.Block

/-- (T1) the constants M uses are the ones the current tree compiles to -/
theorem constants_match :
    Generated.echoReserve = echoReserve ∧ Generated.optBlock1 = 27 ∧ Generated.optSize1 = 60 ∧
    Generated.optRtag = 292 ∧ Generated.optEcho = 252 ∧ 2 ≤ Generated.rblockCnt := by decide

set_option maxRecDepth 100000 in
/-- (T1) `coap_flsll`, `coap_opt_encode_size` and the byte count of `coap_encode_var_safe`, evaluated by the extractor
on the current tree, agree with M's transcriptions on every sampled point -/
theorem helper_tables_match :
    Generated.flsllTable.all (fun p => flsll p.1 == p.2) = true ∧
    Generated.optSizeTable.all (fun p => optEncodeSize p.1 p.2.1 == p.2.2) = true ∧
    Generated.varLenTable.all (fun p => varLen p.1 == p.2) = true := by decide

/-- Block option codec: what `coap_encode_var_safe((num << 4) | (m << 3) | szx)` writes, `coap_get_block_b` reads back,
for every NUM < 2^20, M ∈ {0,1}, SZX ≤ 6. -/
theorem block_opt_roundtrip (num m szx : Nat) (hn : num < 2 ^ 20) (hm : m ≤ 1) (hs : szx ≤ 6) :
    getBlockB (encodeBlock num m szx) =
      some { num := num, m := m, szx := szx, aszx := szx, chunk := 2 ^ (szx + 4) } :=
  block_roundtrip num m szx hn hm hs

/-- SZX 7 is refused without BERT, and a NUM beyond 20 bits cannot be expressed in the 3 option bytes the parser
admits (C03 length table): decoding never yields a block number above 2^20 - 1. -/
theorem block_opt_bounds (val : Bytes) (b : BlockB) (h : getBlockB val = some b) :
    b.num ≤ 0xFFFFF ∧ b.szx ≤ 6 ∧ b.aszx = b.szx ∧ b.chunk = 2 ^ (b.szx + 4) := by
  unfold getBlockB at h
  dsimp only at h
  have hlt : (if val.length = 0 then 0 else endByte val % 8) < 8 := by split <;> omega
  by_cases h7 : (if val.length = 0 then 0 else endByte val % 8) = 7
  · rw [if_pos h7] at h; cases h
  · rw [if_neg h7] at h
    by_cases hn : optBlockNum val > 0xFFFFF
    · rw [if_pos hn] at h; cases h
    · rw [if_neg hn] at h
      cases h
      dsimp only
      exact ⟨by omega, by omega, rfl, rfl⟩

/-- The slices of ANY body at ANY block size tile it exactly: their concatenation is the body; block `k` as cut by
`coap_add_block` is the k-th slice (and there is no block beyond the last); consecutive offsets differ by exactly the
block size; the More bit M computes is 0 exactly for the last block. -/
theorem blocks_tile_body (body : Bytes) (szx : Nat) :
    (slices body szx).flatten = body ∧
    (∀ k, addBlock body k szx = if k < nBlocks body.length szx then some (slice body szx k) else none) ∧
    (∀ k, blockOffset (k + 1) szx = blockOffset k szx + chunkSize szx) ∧
    (∀ k, k < nBlocks body.length szx → (moreBit body.length k szx = 0 ↔ k + 1 = nBlocks body.length szx)) := by
  refine ⟨slices_flatten body szx, addBlock_eq_slice body szx, fun k => blockOffset_succ k szx, ?_⟩
  intro k hk
  rw [moreBit_eq_spec]
  unfold more
  by_cases h : k + 1 < nBlocks body.length szx
  · rw [if_pos h]; constructor <;> intro hh <;> omega
  · rw [if_neg h]; constructor <;> intro _ <;> omega

/-- … and after a size reduction by `setup_block_b` (too little room in the PDU) the new (NUM, SZX) addresses the same
byte offset, the SZX put on the wire is the size actually used, and the More bit is right for the new size. -/
theorem size_reduction_same_offset (maxSize tokOpts num blk total : Nat) (b : BlockB)
    (hsz : maxSize < 2 ^ 63) (htok : tokOpts ≤ maxSize) (hstart : num * 2 ^ (blk + 4) ≤ total) (htot : total < 2 ^ 32)
    (h : setupBlockB maxSize tokOpts num blk total = some b) :
    b.szx ≤ blk ∧ b.aszx = b.szx ∧ b.chunk = 2 ^ (b.szx + 4) ∧
    blockOffset b.num b.szx = blockOffset num blk ∧ b.m = moreBit total b.num b.szx := by
  obtain ⟨h1, h2, h3, h4, h5, _⟩ := setup_sound maxSize tokOpts num blk total b hsz htok hstart htot h
  exact ⟨h1, h2, h3, h4, h5⟩

/-- The received-ranges structure: after ANY sequence of insertions (refused ones included) starting from empty,
the ranges are sorted, disjoint, non-adjacent and non-empty (`WfFrom 0`), never more than COAP_RBLOCK_CNT - 1, and
cover exactly the block numbers accepted so far; `check_if_received_block` is exact membership; `check_all_blocks_in`
is exact for a non-empty set below the total; a refused insertion leaves the ranges unchanged. -/
theorem rblock_represents (cap : Nat) (ns : List Nat) :
    let st := ns.foldl (insertStep cap) ([], [])
    WfFrom 0 st.1 ∧ st.1.length ≤ cap - 1 ∧ (∀ k, Covers st.1 k ↔ k ∈ st.2) ∧
    (∀ n, checkIfReceived st.1 n = true ↔ n ∈ st.2) ∧
    (∀ t, st.1 ≠ [] → (∀ k, k ∈ st.2 → k < t) → (checkAllBlocksIn st.1 t = true ↔ ∀ k, k < t → k ∈ st.2)) ∧
    (∀ n, (updateReceived cap st.1 n).1 = false → (updateReceived cap st.1 n).2 = st.1) := by
  intro st
  obtain ⟨w, l, c⟩ := insertAll_inv cap ns ([], []) trivial (Nat.zero_le _)
    (by intro k; simp [Covers])
  refine ⟨w, l, c, ?_, ?_, ?_⟩
  · intro n
    rw [checkIfReceived_iff st.1 0 n w, c n]
  · intro t hne hlt
    rw [checkAllBlocksIn_iff st.1 t w hne (fun k hk => hlt k ((c k).mp hk))]
    constructor
    · intro h k hk; exact (c k).mp (h k hk)
    · intro h k hk; exact (c k).mpr (h k hk)
  · intro n
    exact (updateReceived_spec cap st.1 n w l).1

/-- Reassembly: if every block of a non-empty body has been stored through `coap_block_build_body` with the receiver's
running `total_len` (starting from any announced size ≤ the true one, Size1 absent = 0), in ANY order and with ANY
duplicates, the buffer is the body and `total_len` its length — whatever the never-written bytes `junk` were. -/
theorem reassembly_exact (junk : UInt8) (body : Bytes) (szx : Nat) (ks : List Nat) (t0 : Nat)
    (hne : body ≠ []) (ht0 : t0 ≤ body.length)
    (hks : ∀ k, k ∈ ks → k < nBlocks body.length szx)
    (hall : ∀ j, j < nBlocks body.length szx → j ∈ ks) :
    ks.foldl (storeStep junk body szx) (t0, none) = (body.length, some body) :=
  store_all junk body szx ks t0 hne ht0 hks hall

/-- Every block message fits: whenever `coap_add_data_large_internal`'s arithmetic succeeds, the first message it
builds is within the maximum size it was given, its payload is at most one block, and for a multi-block transfer
there is room for EVERY follow-up block message (8-byte token, Block option grown to 3 value bytes, payload marker,
a full block) within the same maximum. -/
theorem block_fits_mtu (maxSize tokLen optBytes lastOpt : Nat) (blk : Option Nat) (maxBlk length rtagLen : Nat)
    (r : AdlRes) (hms : maxSize < 2 ^ 62)
    (h : addDataLarge maxSize tokLen optBytes lastOpt blk maxBlk length rtagLen = some r) :
    (r.payload ≠ 0 → r.used ≤ maxSize) ∧
    r.used = r.hdr + (if r.payload = 0 then 0 else 1 + r.payload) ∧
    (r.lgXmit = true →
      r.hdr + (8 - tokLen) + 3 + 1 + 2 ^ (r.blkSize + 4) ≤ maxSize ∧ r.payload ≤ 2 ^ (r.blkSize + 4)) :=
  adl_fits maxSize tokLen optBytes lastOpt blk maxBlk length rtagLen r hms h

/-- `setup_block_b`: the payload of the block it describes fits into the room the PDU has left -/
theorem setup_payload_fits (maxSize tokOpts num blk total : Nat) (b : BlockB)
    (hsz : maxSize < 2 ^ 63) (htok : tokOpts ≤ maxSize) (hstart : num * 2 ^ (blk + 4) ≤ total) (htot : total < 2 ^ 32)
    (h : setupBlockB maxSize tokOpts num blk total = some b) :
    min b.chunk (total - blockOffset num blk) ≤ maxSize - tokOpts :=
  (setup_sound maxSize tokOpts num blk total b hsz htok hstart htot h).2.2.2.2.2

/-! ## Layer B, receiver side (COAP_BLOCK_SINGLE_BODY Block1 receive path of coap_handle_request_put_block)

Full statements that are NOT proved (kept here as the target):
  never_wrong_body            — for the real composed system client ∘ network ∘ server under every schedule, anything a
                                handler receives is the sender's body / its slices (Block1 and Block2, both modes).
  at_most_once_per_transfer   — at most one delivery per transfer under every schedule.
What is proved: the receiver automata alone under a slice hypothesis (this section: server Block1 `srcvStep`; next
section: client Block2 `crcvStep`), the sender automata (`xmitB2Step`, `xmitB1Step`, first message), and the composition
of sender, lossy network and receiver for one transfer per direction WITHOUT that hypothesis
(`never_wrong_body_block2_composed_partial`, `never_wrong_body_block1_composed_partial`); token substitution, timers,
per-block mode on the server, Q-Block, BERT and Block+Observe are outside; they are trace-checked only.
-/

/-- For EVERY sequence of received Block1 datagrams — any order, any duplicates, any losses, any mix of block sizes not
below the tracked one, early size reduction by the server (`maxBlk`), with or without Size1 — in which every datagram
carries the sender's slice for its NUM/SZX and the right More bit: whatever the receiver hands to the application is
exactly the sender's body, with its exact length. -/
theorem never_wrong_body_partial (cap : Nat) (junk : UInt8) (maxBlk : Nat) (body : Bytes) (ds : List Dgram)
    (hlen : body.length < 2 ^ 31) (hadm : Admissible cap junk maxBlk body none ds) :
    ∀ o, o ∈ runSrcv cap junk maxBlk none ds → ∀ b l, o = SrcvOut.deliver b l → b = body ∧ l = body.length :=
  runSrcv_sound cap junk maxBlk body hlen ds none (by intro s hs; cases hs) hadm

/-- At most once per lg_srcv lifetime: a delivery of a block-wise body releases the receiver state (the step returns
`none`), so a second delivery needs a new lg_srcv in which every block has been recorded again; all other steps keep a
state that is consistent with the sender's body (`SrcvInv`). -/
theorem at_most_once_per_transfer_partial (cap : Nat) (junk : UInt8) (maxBlk : Nat) (body : Bytes) (st : Option Srcv)
    (d : Dgram) (hst : ∀ s, st = some s → SrcvInv cap body s) (hg : Genuine body st d) (hlen : body.length < 2 ^ 31) :
    let r := srcvStep cap junk maxBlk st d.num d.m d.szx d.payload d.size1
    (∀ s', r.1 = some s' → SrcvInv cap body s') ∧
    (∀ b l, r.2 = SrcvOut.deliver b l → ¬ (d.num = 0 ∧ d.m = 0) → r.1 = none) := by
  intro r
  have h := srcvStep_spec cap junk maxBlk body st d r.1 r.2 hst hg hlen rfl
  exact ⟨h.1, fun b l hb hn => (h.2 b l hb).2.2 hn⟩

/-- without the no_more_seen gate (the code before fix 57e6aff) the first block of a body without Size1 was "complete":
the fixed automaton answers 2.31 instead -/
example : (srcvStep 4 0 0 none 0 1 0 (List.replicate 16 7) none).2 = SrcvOut.cont := by decide

set_option maxRecDepth 8000 in
/-- early size reduction (fix 0d17941): a 64-byte first block is recorded as 2 blocks of 32 -/
example : ((srcvStep 4 0 1 none 0 1 2 (List.replicate 64 7) none).1.map (·.recv)) = some [(0, 1)] := by decide


/-- HOSTILE CLIENT, server side, single-body mode, no hypothesis on the requests beyond what `coap_get_block_b` guarantees
(`block_opt_bounds`: NUM < 2^20, SZX ≤ 6): for EVERY sequence of Block1 requests `ds` — any NUM, More bit, SZX (changing in
the middle of the transfer in either direction), Size1 absent / too small / too large / anything up to 2^32-1 and beyond,
any payload length (empty, short, oversized), any order, duplicates, blocks far beyond the end, any server block-size
limit — whenever the `i`-th request makes `coap_handle_request_put_block` hand a body `(b, l)` to the request handler,
`l` bytes are really there and EVERY one of them is a byte that one of the requests received so far (`ds.take (i+1)`)
carried for exactly that offset (`SentAt1`).  No never-written byte of the reassembly buffer (`junk`) is delivered.
Invariant `HSInv` by induction over the run; needs the fixes 11109ea (a block in a SMALLER size than the tracked one:
the ranges are rescaled instead of mixing units — `HSInv_rescale`), cb35487 (a payload that is not a multiple of the
block size must end at or beyond the total known, and nothing may reach beyond the total once the block without More
has been seen: `HSFull` holds until then and the total is frozen afterwards), 8abfc44 (the block count is not truncated
to 32 bits) and 0b3fb08.  Before them: `srcv2 0 256 9 256 0.1.3,1.0.0,1.0.3`, `srcv 0 32 189 32 0:1,1:0:4`,
`srcv 0 40 1 4294967295 0:1,1:0:16` handed 128 / 12 / 4294967263 never-written bytes to the handler. -/
theorem block1_hostile_no_unwritten_bytes (cap : Nat) (junk : UInt8) (maxBlk : Nat) (ds : List Dgram)
    (hds : ∀ d, d ∈ ds → d.num < 2 ^ 20 ∧ d.szx ≤ 6) (i : Nat) (b : Bytes) (l : Nat)
    (h : (runSrcv cap junk maxBlk none ds)[i]? = some (SrcvOut.deliver b l)) :
    l ≤ b.length ∧ ∀ o, o < l → ∃ v, b[o]? = some v ∧ SentIn1 (ds.take (i + 1)) o v := by
  have := runSrcv_hostile cap junk maxBlk ds none [] (by intro s hs; cases hs) hds i b l h
  simpa using this

/-- … so if every payload the client ever sends is cut from ONE byte string `B` at the offset its Block1 option names
(whatever SZX on each request, any More bit, any Size1, payloads shorter than the block), the body handed to the
request handler is a prefix of `B`: the oracle of the T2 ops `srcv` / `srcv2`. -/
theorem block1_hostile_prefix_of_body (cap : Nat) (junk : UInt8) (maxBlk : Nat) (ds : List Dgram) (B : Bytes)
    (hds : ∀ d, d ∈ ds → d.num < 2 ^ 20 ∧ d.szx ≤ 6)
    (hB : ∀ d, d ∈ ds → ∀ o v, SentAt1 d o v → B[o]? = some v) (i : Nat) (b : Bytes) (l : Nat)
    (h : (runSrcv cap junk maxBlk none ds)[i]? = some (SrcvOut.deliver b l)) :
    l ≤ B.length ∧ b.take l = B.take l := by
  obtain ⟨h1, h2⟩ := block1_hostile_no_unwritten_bytes cap junk maxBlk ds hds i b l h
  have hbyte : ∀ o, o < l → b[o]? = B[o]? := by
    intro o ho
    obtain ⟨v, e1, d, hd, hs⟩ := h2 o ho
    rw [e1, hB d (List.mem_of_mem_take hd) o v hs]
  have hl : l ≤ B.length := by
    cases l with
    | zero => exact Nat.zero_le _
    | succ n =>
      have hn := hbyte n (Nat.lt_succ_self n)
      apply Classical.byContradiction
      intro hh
      have e1 : B[n]? = none := by rw [List.getElem?_eq_none_iff]; omega
      have e2 : b[n]? = some b[n] := List.getElem?_eq_getElem (by omega)
      rw [e1, e2] at hn
      cases hn
  refine ⟨hl, ?_⟩
  apply List.ext_getElem?
  intro o
  rw [List.getElem?_take, List.getElem?_take]
  by_cases ho : o < l
  · rw [if_pos ho, if_pos ho]; exact hbyte o ho
  · rw [if_neg ho, if_neg ho]

set_option maxRecDepth 100000 in
/-- FORMER WITNESS (f), now the fixed behaviour (11109ea; `srcv2 0 256 9 256 0.1.3,1.0.0,1.0.3`): block 0 of 128 bytes
(Size1 256), then "block 1 of 16 bytes", then block 1 of 128 bytes.  Before the fix the 16-byte block was recorded as
block 1 in 128-byte units, the real block 1 was then a duplicate (not stored), and 256 bytes — 128 of them never
written — were delivered; now the ranges are rescaled ([0,0] → [0,7]) and the body arrives intact -/
example :
    let body : Bytes := (List.range 256).map (fun i => UInt8.ofNat i)
    let ds : List Dgram := [⟨0, 1, 3, slice body 3 0, some 256⟩, ⟨1, 0, 0, slice body 0 1, some 256⟩, ⟨1, 0, 3, slice body 3 1, some 256⟩]
    runSrcv 4 0xEE 0 none ds = [.cont, .cont, .deliver body 256] ∧
    ((srcvStep 4 0xEE 0 (srcvStep 4 0xEE 0 none 0 1 3 (slice body 3 0) (some 256)).1 1 0 0 (slice body 0 1) (some 256)).1.map
      fun s => (s.recv, s.szx)) = some ([(0, 7)], 0) := by decide

set_option maxRecDepth 100000 in
/-- FORMER WITNESS (g), now the fixed behaviour (cb35487; `srcv 0 32 189 32 0:1,1:0:4`): two requests — block 0 (16 bytes,
More, Size1 32) and block 1 with 4 bytes, no More — used to hand 32 bytes, 12 of them never written, to the request
handler; now the short block that does not reach the announced total is answered by 4.08 and the state is dropped -/
example :
    let body : Bytes := (List.range 32).map (fun i => UInt8.ofNat i)
    runSrcv 4 0xEE 0 none [⟨0, 1, 0, slice body 0 0, some 32⟩, ⟨1, 0, 0, (slice body 0 1).take 4, some 32⟩] = [.cont, .fail] ∧
    runSrcv 4 0xEE 0 none [⟨0, 1, 0, slice body 0 0, none⟩, ⟨1, 0, 0, (slice body 0 1).take 4, none⟩] =
      [.cont, .deliver (body.take 20) 20] := by decide

/-- FORMER DEFECT (h) (8abfc44; `srcv 0 40 1 4294967295 0:1,1:0:16` delivered a 4294967295-byte body): with Size1 = 2^32-1
and 16-byte blocks the truncated count was 0 blocks, the count used now is 2^28 -/
example : (4294967295 + 16 - 1) % 2 ^ 32 / 16 = 0 ∧ totalBlocks 4294967295 16 = 268435456 := by decide


/-! ## Layer B, client side: the Block2 receive path (coap_handle_response_get_block), both delivery modes

M = `crcvStep` (Model/BlockCrcv.lean), tied to the real function by the T2 op `crcv`.  The theorems below are about the
receiver automaton alone, for EVERY sequence of responses (any order, duplicates, losses, any ETag / Content-Format
on each of them, restarts after an ETag change included) each of which carries the server's slice for its NUM/SZX
(`Genuine2`); `never_wrong_body_block2_composed_partial` further down removes that hypothesis for a libcoap server.
Against a server that is NOT libcoap (`Genuine2` false: SZX changed in the middle of a transfer without a new ETag, a
different Size2 on every response together with blocks the client did not ask for, short blocks in the middle) the sender's
body is not defined, but memory safety is (C02): `block2_hostile_no_unwritten_bytes` / `block2_hostile_prefix_of_body`
below hold for EVERY response sequence without any hypothesis — after the fixes a8ffb89, 0b3fb08, 2e4f34e; before them
the former witnesses (now `example`s of the fixed behaviour) delivered never-written bytes. -/

/-- Block2, single-body AND per-block mode, every response sequence: a body handed to the response handler is exactly
the server's body with its exact length (single-body); every block handed over is the server's slice at the offset
announced (per-block, also for random access); a genuine block-wise response is never passed on as a plain one. -/
theorem never_wrong_body_block2_partial (single : Bool) (cap : Nat) (junk : UInt8) (body : Bytes) (sz : Option Nat)
    (rs : List Resp) (hsz : ∀ t, sz = some t → t ≤ body.length)
    (hadm : Admissible2 single cap junk body sz none rs) :
    ∀ o, o ∈ runCrcv single cap junk none rs →
      (∀ d l, o = CrcvOut.body d l → single = true ∧ d.take l = body ∧ l = body.length) ∧
      (∀ off p total nx, o = CrcvOut.block off p total nx →
        single = false ∧ ∃ k szx, k < nBlocks body.length szx ∧ off = k * chunkSize szx ∧ p = slice body szx k) ∧
      (∀ off p total, o = CrcvOut.last off p total →
        single = false ∧ ∃ k szx, k < nBlocks body.length szx ∧ off = k * chunkSize szx ∧ p = slice body szx k) ∧
      (∀ off p total, o = CrcvOut.randomAccess off p total →
        ∃ k szx, k < nBlocks body.length szx ∧ off = k * chunkSize szx ∧ p = slice body szx k) ∧
      (∀ p, o ≠ CrcvOut.plain p) :=
  runCrcv_sound single cap junk body sz hsz rs none (by intro s hs; cases hs) hadm

/-- At most once, and exact tiling, per lg_crcv lifetime (one step, any consistent state): the reassembled body is
handed over together with the release of the lg_crcv; in per-block mode a block handed to the handler had not been
recorded since the lg_crcv was (re-)initialised and is recorded afterwards (a duplicate is answered by `skip`), recorded
blocks stay recorded, nothing else is ever recorded, and when the transfer completes (either mode) every block of the
body has been recorded — so the offsets handed over in per-block mode tile the body, each exactly once. -/
theorem at_most_once_block2_partial (single : Bool) (cap : Nat) (junk : UInt8) (body : Bytes) (sz : Option Nat)
    (st : Option Crcv) (r : Resp) (num szx : Nat) (hsz : ∀ t, sz = some t → t ≤ body.length)
    (hst : ∀ s, st = some s → s.initial = false → CrcvInv single cap body sz s)
    (hg : Genuine2 body sz st r num szx) :
    let res := crcvStep single cap junk st r
    (∀ s', res.1 = some s' → s'.initial = false → CrcvInv single cap body sz s') ∧
    (∀ d l, res.2 = CrcvOut.body d l → res.1 = none) ∧
    (∀ off p total nx, res.2 = CrcvOut.block off p total nx → ¬ Covers (effRecv st) num) ∧
    (∀ off p total, res.2 = CrcvOut.last off p total → ¬ Covers (effRecv st) num ∧ res.1 = none) ∧
    (∀ s', res.1 = some s' → s'.initial = false → ∀ k, Covers s'.recv k ↔
      (Covers (effRecv st) k ∨ (k = num ∧ (res.2 = CrcvOut.next (num + 1) szx ∨ res.2 = CrcvOut.wait ∨
        ∃ off p total nx, res.2 = CrcvOut.block off p total nx)))) ∧
    (res.2.isFinal = true → ∀ k, k < nBlocks body.length szx → k = num ∨ Covers (effRecv st) k) := by
  intro res
  have h := crcvStep_spec single cap junk body sz st r num szx res.1 res.2 hsz hst hg rfl
  exact ⟨fun s' hs hi => h.inv s' hs hi, fun d l hb => (h.dBody d l hb).2.2.2,
    fun off p total nx hb => (h.dBlock off p total nx hb).2.2.2.1,
    fun off p total hb => ⟨(h.dLast off p total hb).2.2.2.1, (h.dLast off p total hb).2.2.2.2⟩,
    h.grow, h.complete⟩

/-- Per-block mode over a whole run, for EVERY sequence of genuine responses from a fresh client (any order, duplicates,
losses, ETag restarts): with the ghost list `seen` of block numbers handed to the handler since the lg_crcv was last
(re-)initialised (`seenAfter`), a block handed over is never in `seen` (at most once), and when the completing block
is handed over every other block of the body is in `seen` — so the (offset, length) pairs the handler got in that
lifetime are the slices of the body (`never_wrong_body_block2_partial`), pairwise different, and all of them: they
tile the body exactly.  (`TilesOnce` is that statement written out along the run.) -/
theorem per_block_tiles_once_partial (cap : Nat) (junk : UInt8) (body : Bytes) (sz : Option Nat) (rs : List Resp)
    (hsz : ∀ t, sz = some t → t ≤ body.length) (hadm : Admissible2 false cap junk body sz none rs) :
    TilesOnce cap junk body none [] rs :=
  tilesOnce_run cap junk body sz hsz rs none [] (by intro s hs; cases hs)
    (by intro k; simp [effRecv, covers_nil]) hadm

set_option maxRecDepth 100000 in
/-- the ghost list along a concrete run (40 bytes, 16-byte blocks, block 1 duplicated): [0], [1,0], [1,0], released -/
example :
    let body : Bytes := (List.range 40).map (fun i => UInt8.ofNat i)
    let rsp (k m : Nat) : Resp := { blk := some (k, m, 0), payload := slice body 0 k }
    let step (a : Option Crcv × List Nat) (r : Resp) : Option Crcv × List Nat :=
      ((crcvStep false 4 0 a.1 r).1, seenAfter (crcvStep false 4 0 a.1 r).1 a.2 (numOf r) (crcvStep false 4 0 a.1 r).2)
    ([rsp 0 1, rsp 1 1, rsp 1 1].foldl step (none, [])).2 = [1, 0] ∧
    ([rsp 0 1, rsp 1 1, rsp 1 1, rsp 2 0].foldl step (none, [])) = (none, []) := by decide

set_option maxRecDepth 100000 in
/-- non-vacuity: a 100-byte body in 32-byte blocks, ETag on every block, block 1 duplicated: three requests, one delivery -/
example :
    let body : Bytes := (List.range 100).map (fun i => UInt8.ofNat i)
    let rsp (k m : Nat) : Resp := { blk := some (k, m, 1), payload := slice body 1 k, size2 := some 100, etag := some [5] }
    runCrcv true 4 0 none [rsp 0 1, rsp 1 1, rsp 1 1, rsp 2 1, rsp 3 0] =
      [.next 1 1, .next 2 1, .skip, .next 3 1, .body body 100] := by decide

set_option maxRecDepth 100000 in
/-- … and per-block mode hands over the four slices, the last one from inside with the lg_crcv released -/
example :
    let body : Bytes := (List.range 100).map (fun i => UInt8.ofNat i)
    let rsp (k m : Nat) : Resp := { blk := some (k, m, 1), payload := slice body 1 k }
    (runCrcv false 4 0 none [rsp 0 1, rsp 1 1, rsp 2 1, rsp 3 0]).map (fun o => match o with
      | .block off p _ _ => some (off, p.length) | .last off p _ => some (off, p.length) | _ => none) =
      [some (0, 32), some (32, 32), some (64, 32), some (96, 4)] := by decide

/-- the hypothesis `Genuine2` is satisfiable along a whole run -/
example :
    let body : Bytes := (List.range 40).map (fun i => UInt8.ofNat i)
    Genuine2 body none none { blk := some (0, 1, 0), payload := slice body 0 0 } 0 0 := by
  refine ⟨by decide, by decide, rfl, rfl, by intro s hs; cases hs⟩

/-- HOSTILE SERVER, single-body mode, no hypothesis at all: for EVERY sequence of responses `rs` (any NUM, More bit, SZX —
also changing in the middle of the transfer —, Size2 absent / too small / too large / different on every response, any
ETag and Content-Format, any payload length, blocks nobody asked for, in any order), from a client without lg_crcv or
with one set up at send time (`initial`): whenever the `i`-th response makes `coap_handle_response_get_block` hand a
reassembled body `(d, l)` to the response handler, `l` bytes are really there and EVERY one of them is a byte that one of
the responses received so far (`rs.take (i+1)`) carried for exactly that offset of the body (`SentAt`: the response has
Block2 (NUM, _, SZX), the offset lies in that block, the payload holds the byte at `offset - NUM * 2^(SZX+4)`).  No byte
of the reassembly buffer that was never written (`junk`: whatever malloc/realloc returned) is ever delivered.
Invariant `HInv` (every byte of every recorded block is in the buffer and was sent for that offset) by induction over
the run; needs all three fixes: responses in another size than the tracked one are refused (a8ffb89), the buffer never
shrinks (0b3fb08), a short block is only recorded for good when it completes the body (2e4f34e). -/
theorem block2_hostile_no_unwritten_bytes (cap : Nat) (junk : UInt8) (st : Option Crcv) (rs : List Resp)
    (hst : ∀ s, st = some s → s.initial = true) (i : Nat) (d : Bytes) (l : Nat)
    (h : (runCrcv true cap junk st rs)[i]? = some (CrcvOut.body d l)) :
    l ≤ d.length ∧ ∀ o, o < l → ∃ v, d[o]? = some v ∧ SentIn (rs.take (i + 1)) o v := by
  have := runCrcv_hostile cap junk rs st [] (by intro s hs hi; rw [hst s hs] at hi; cases hi) i d l h
  simpa using this

/-- … so if everything the server ever sends is cut from ONE byte string `B` at the offset its Block2 option names (with
whatever SZX it likes on each response, any More bit, any Size2, payloads shorter than the block), the body handed to the
handler is a prefix of `B`: the oracle of the T2 op `crcv` (`H0:<l>:…` must hash to the first `l` bytes of the body). -/
theorem block2_hostile_prefix_of_body (cap : Nat) (junk : UInt8) (st : Option Crcv) (rs : List Resp) (B : Bytes)
    (hst : ∀ s, st = some s → s.initial = true)
    (hB : ∀ r, r ∈ rs → ∀ o v, SentAt r o v → B[o]? = some v) (i : Nat) (d : Bytes) (l : Nat)
    (h : (runCrcv true cap junk st rs)[i]? = some (CrcvOut.body d l)) :
    l ≤ B.length ∧ d.take l = B.take l := by
  obtain ⟨h1, h2⟩ := block2_hostile_no_unwritten_bytes cap junk st rs hst i d l h
  have hbyte : ∀ o, o < l → d[o]? = B[o]? := by
    intro o ho
    obtain ⟨v, e1, r, hr, hs⟩ := h2 o ho
    rw [e1, hB r (List.mem_of_mem_take hr) o v hs]
  have hl : l ≤ B.length := by
    cases l with
    | zero => exact Nat.zero_le _
    | succ n =>
      have hn := hbyte n (Nat.lt_succ_self n)
      apply Classical.byContradiction
      intro hh
      have e1 : B[n]? = none := by rw [List.getElem?_eq_none_iff]; omega
      have e2 : d[n]? = some d[n] := List.getElem?_eq_getElem (by omega)
      rw [e1, e2] at hn
      cases hn
  refine ⟨hl, ?_⟩
  apply List.ext_getElem?
  intro o
  rw [List.getElem?_take, List.getElem?_take]
  by_cases ho : o < l
  · rw [if_pos ho, if_pos ho]; exact hbyte o ho
  · rw [if_neg ho, if_neg ho]

/-- HOSTILE SERVER, per-block mode (no reassembly buffer): whatever the handler is given — a block, the completing block,
a random-access block — is the payload of THIS response at the offset its own Block2 option names -/
theorem block2_hostile_per_block (cap : Nat) (junk : UInt8) (st : Option Crcv) (r : Resp) :
    (∀ off p total nx, (crcvStep false cap junk st r).2 = CrcvOut.block off p total nx →
      ∃ num m szx, r.blk = some (num, m, szx) ∧ off = num * 2 ^ (szx + 4) ∧ p = r.payload) ∧
    (∀ off p total, (crcvStep false cap junk st r).2 = CrcvOut.last off p total →
      ∃ num m szx, r.blk = some (num, m, szx) ∧ off = num * 2 ^ (szx + 4) ∧ p = r.payload) ∧
    (∀ off p total, (crcvStep false cap junk st r).2 = CrcvOut.randomAccess off p total →
      ∃ num m szx, r.blk = some (num, m, szx) ∧ off = num * 2 ^ (szx + 4) ∧ p = r.payload) ∧
    (∀ d l, (crcvStep false cap junk st r).2 ≠ CrcvOut.body d l) :=
  crcvStep_perblock_payload cap junk st r

set_option maxRecDepth 100000 in
/-- the hypotheses are satisfiable and the conclusion is not vacuous: a server that sends blocks 0, 1 of 16 bytes, then
"block 1 of 32 bytes" (refused, 4.08), then goes on in 16-byte blocks: the 55-byte body is delivered, every byte sent -/
example :
    let body : Bytes := (List.range 55).map (fun i => UInt8.ofNat i)
    let rsp (k m szx : Nat) : Resp := { blk := some (k, m, szx), payload := slice body szx k, size2 := some 55 }
    runCrcv true 4 0xEE none [rsp 0 1 0, rsp 1 1 0, rsp 1 0 1, rsp 2 1 0, rsp 3 0 0] =
      [.next 1 0, .next 2 0, .err408, .next 3 0, .body body 55] := by decide

set_option maxRecDepth 100000 in
/-- FORMER WITNESS (a), now the fixed behaviour (a8ffb89): a server that switches from 16-byte to 32-byte blocks in
mid-transfer (`crcv 1 55 7 55 0.1.0.0.42,2.1.0.0.42,1.0.1.0.42,3.0.0.0.42`) used to make the client deliver a 55-byte
"body" whose bytes 16..31 were never written; now the response in the other size is answered by 4.08 and nothing is
recorded, and the short last block that cannot complete the body makes the client forget the transfer (2e4f34e) -/
example :
    let body : Bytes := (List.range 55).map (fun i => UInt8.ofNat i)
    let rsp (k m szx : Nat) : Resp := { blk := some (k, m, szx), payload := slice body szx k, size2 := some 55 }
    runCrcv true 4 0xEE none [rsp 0 1 0, rsp 2 1 0, rsp 1 0 1, rsp 3 0 0] = [.next 1 0, .next 3 0, .err408, .err408] ∧
    ((crcvStep true 4 0xEE (crcvStep true 4 0xEE (crcvStep true 4 0xEE none (rsp 0 1 0)).1 (rsp 2 1 0)).1 (rsp 1 0 1)).1.map
      fun s => s.recv) = some [(0, 0), (2, 2)] := by
  decide

set_option maxRecDepth 100000 in
/-- FORMER WITNESS (b), now the fixed behaviour (0b3fb08): an unrequested block 5 without Size2 followed by block 0
announcing Size2 = 100 used to shrink the buffer from 97 to 16 bytes (coap_block_build_body is called with this
response's Size2, not the running total) while block 5 stayed recorded; now the buffer keeps its 97 bytes -/
example :
    let body : Bytes := (List.range 100).map (fun i => UInt8.ofNat i)
    ((crcvStep true 4 0 (crcvStep true 4 0 (some {}) { blk := some (5, 1, 0), payload := slice body 0 5 }).1
      { blk := some (0, 1, 0), payload := slice body 0 0, size2 := some 100 }).1.map fun s =>
        (s.recv, s.body.map (·.length), s.body.map (fun b => (b.drop 80).take 16 == slice body 0 5))) =
      some ([(0, 0), (5, 5)], some 97, some true) := by decide

set_option maxRecDepth 100000 in
/-- the third hole (2e4f34e): a block without More that is shorter than the block size, with blocks still missing
(`crcv 1 100 7 - 0.1.0.0.0,2.0.0.0.0.5,1.1.0.0.0,3.1.0.0.0,4.0.0.0.0` delivered 80 bytes with 37..47 never written):
now 4.08, and the lg_crcv starts afresh with the next response -/
example :
    let body : Bytes := (List.range 100).map (fun i => UInt8.ofNat i)
    let rsp (k m : Nat) (p : Bytes) : Resp := { blk := some (k, m, 0), payload := p }
    let s2 := crcvStep true 4 0xEE (crcvStep true 4 0xEE none (rsp 0 1 (slice body 0 0))).1 (rsp 2 0 ((slice body 0 2).take 5))
    s2.2 = CrcvOut.err408 ∧ s2.1.map (·.initial) = some true ∧
    ((crcvStep true 4 0xEE s2.1 (rsp 1 1 (slice body 0 1))).1.map fun s => (s.initial, s.recv)) = some (false, [(1, 1)]) := by
  decide


/-! ## Layer B, sender side (lg_xmit) and the release callback

M = `xmitB2Step` (coap_handle_request_send_block), `xmitB1Step` (coap_handle_response_send_block), `adlRel` (exit paths
of coap_add_data_large_internal), `xlStep` (the session's lg_xmit list) in Model/BlockXmit.lean; T2 ops `xmit2`, `xmit1`. -/

/-- Server, Block2: for EVERY lg_xmit and EVERY request (any NUM, any SZX, in any order, repeated, beyond the end): a
block message the server builds carries exactly the body's slice for the NUM and SZX of the request, the SZX is the
lg_xmit's (a changed size is refused with 4.00), the More bit is the one RFC 7959 prescribes, payload marker and
payload fit the room the PDU has (otherwise 5.00) — and the lg_xmit keeps its body and block size whatever happens.
This discharges the hypothesis `Genuine2` of the client's receive automaton for a libcoap server. -/
theorem server_block2_genuine (x : LgXmit) (room num szx : Nat) :
    (∀ st' n m s p, xmitB2Step (some x) room num szx = (st', B2Out.block n m s p) →
      n = num ∧ s = szx ∧ s = x.blkSize ∧ n < nBlocks x.data.length s ∧ p = slice x.data s n ∧
      m = more x.data.length s n ∧ 1 + p.length ≤ room ∧ p.length ≤ chunkSize s) ∧
    (∃ x', (xmitB2Step (some x) room num szx).1 = some x' ∧ x'.data = x.data ∧ x'.blkSize = x.blkSize) := by
  refine ⟨?_, xmitB2Step_state x room num szx⟩
  intro st' n m s p h
  obtain ⟨a, b, c, d, e, f, g, _⟩ := xmitB2Step_spec x room num szx st' n m s p h
  refine ⟨a, b, c, d, e, f, g, ?_⟩
  rw [e, slice_length]
  exact Nat.min_le_left _ _


/-- The FIRST block message of a body handed to `coap_add_data_large_request` (Block1), for ALL sizes: whenever the
result is a multi-block transfer, the PDU carries Block1 (NUM 0, M 1, SZX = the lg_xmit's block size) — also after the
second size reduction "chunk size change down" — and its payload is exactly slice 0 of the body at that size, which
is a full block, and the More bit is the one RFC 7959 prescribes.  With `client_block1_slices` /
`client_block1_genuine_partial` every block message of a libcoap Block1 sender is covered.  (The arithmetic is the
lemma `adlBody_first`, which is stated for the response path's parameters as well.) -/
theorem first_block_genuine (maxSize tokLen optBytes lastOpt : Nat) (blk : Option Nat) (maxBlk rtagLen : Nat)
    (body : Bytes) (r : AdlRes) (hms : maxSize < 2 ^ 62) (hlen : body.length < 2 ^ 32)
    (h : addDataLarge maxSize tokLen optBytes lastOpt blk maxBlk body.length rtagLen = some r) (hlg : r.lgXmit = true) :
    r.blockVal = some (blockValue 0 (more body.length r.blkSize 0) r.blkSize) ∧
    body.take r.payload = slice body r.blkSize 0 ∧ 0 < nBlocks body.length r.blkSize ∧ r.payload = chunkSize r.blkSize := by
  unfold addDataLarge at h
  dsimp only at h
  have key : r.blockVal = some (blockValue 0 1 r.blkSize) ∧ r.payload = 2 ^ (r.blkSize + 4) ∧
      2 ^ (r.blkSize + 4) < body.length := by
    cases blk with
    | none =>
      simp only at h
      obtain ⟨a, b, c, _⟩ := adlBody_first _ _ _ _ _ _ _ _ _ r hms hlen (by omega)
        (by intro h16
            exact adl_b2_le _ _ (by split <;> omega) h16 (by rw [adlAvail_eq]; omega)) h hlg
      exact ⟨a, b, c⟩
    | some s =>
      simp only at h
      have ho := blkOpt_le_43 (27 - lastOpt) (blockValue 0 0 s)
      obtain ⟨a, b, c, _⟩ := adlBody_first _ _ _ _ _ _ _ _ _ r hms hlen (by omega)
        (by intro h16
            exact adl_b2_le _ _ (by split <;> split <;> omega) h16 (by rw [adlAvail_eq]; omega)) h hlg
      exact ⟨a, b, c⟩
  obtain ⟨a, b, c⟩ := key
  have hc := chunk_pos r.blkSize
  have hcs : 2 ^ (r.blkSize + 4) = chunkSize r.blkSize := rfl
  rw [hcs] at b c
  have hnb : 1 < nBlocks body.length r.blkSize := (lt_nBlocks_iff _ _ 1).mpr (by omega)
  have hmore : more body.length r.blkSize 0 = 1 := by
    unfold more; rw [if_pos (by omega)]
  refine ⟨by rw [hmore]; exact a, ?_, by omega, b⟩
  rw [b]
  unfold slice
  simp

/-- non-vacuity: 5000 bytes into a 1152-byte PDU → 1024-byte blocks; into a 200-byte PDU → 128-byte blocks -/
example : (addDataLarge 1152 4 2 11 none 0 5000 1).map (fun r => (r.lgXmit, r.blkSize, r.payload, r.blockVal)) =
    some (true, 6, 1024, some (blockValue 0 1 6)) ∧
    (addDataLarge 200 4 2 11 none 0 5000 1).map (fun r => (r.lgXmit, r.blkSize, r.payload, r.blockVal)) =
    some (true, 3, 128, some (blockValue 0 1 3)) := by decide

/-- Client, Block1: for EVERY lg_xmit and EVERY response matched to it (2.31 in order, duplicated, stale, renegotiating
the size, or any other code): a block message the client builds carries exactly the body's slice for the NUM and SZX
in its Block1 option, that SZX is the one of the response — or the one in use, if the response asks for a larger one
(`xmitB1Szx`, fix 650c3a2) — and marker + payload fit the room the PDU has. -/
theorem client_block1_slices (x : LgXmit) (room : Nat) (ok : Bool) (blk : Option (Nat × Nat)) (st' : Option LgXmit)
    (n m s : Nat) (p : Bytes) (h : xmitB1Step x room ok blk = (st', B1Out.sendNext n m s p)) :
    n < nBlocks x.data.length s ∧ p = slice x.data s n ∧ 1 + p.length ≤ room ∧ p.length ≤ chunkSize s ∧
    ∃ num0 szx, blk = some (num0, szx) ∧ s = xmitB1Szx x szx ∧ s ≤ x.blkSize := by
  obtain ⟨a, b, c, ⟨num0, szx, d, e⟩, _⟩ := xmitB1Step_spec x room ok blk st' n m s p h
  refine ⟨a, b, c, ?_, num0, szx, d, e, by rw [e]; exact (xmitB1Szx_facts x szx).1⟩
  rw [b, slice_length]
  exact Nat.min_le_left _ _

/-- … and, along EVERY sequence of responses — also those that ask for a LARGER block size than the lg_xmit uses, which
RFC 7959 §2.5 does not allow a server and which the client ignores (fix 650c3a2; before it the SZX of such a response
was used for the option and the payload while NUM and More were computed in the size in use: bytes skipped, wrong More
bit, transfer ended in 5.00) — the lg_xmit stays well formed (`XmitInv`: offset aligned to the block size), its block
size never grows, early size renegotiation included, and every block message has the right More bit and follows the
block the response acknowledged: the hypothesis `Genuine` of the server's receive automaton
(`never_wrong_body_partial`) is discharged for a libcoap client, except for its SZX clause.  Full statement: no
hypothesis on the response any more. -/
theorem client_block1_genuine (x : LgXmit) (room : Nat) (ok : Bool) (blk : Option (Nat × Nat))
    (hinv : XmitInv x) (hlen : x.data.length < 2 ^ 32) :
    (∀ x', (xmitB1Step x room ok blk).1 = some x' → XmitInv x' ∧ x'.data = x.data ∧ x'.blkSize ≤ x.blkSize) ∧
    (∀ st' n m s p, xmitB1Step x room ok blk = (st', B1Out.sendNext n m s p) →
      p = slice x.data s n ∧ n < nBlocks x.data.length s ∧ m = more x.data.length s n ∧
      ∃ x', st' = some x' ∧ x'.blkSize = s ∧ x'.lastBlock = some (n - 1) ∧ 1 ≤ n ∧ x'.offset = n * 2 ^ (s + 4)) := by
  refine ⟨fun x' h => by
    obtain ⟨a, b, c, _⟩ := xmitB1Step_inv x room ok blk x' hinv hlen h
    exact ⟨a, b, c⟩, ?_⟩
  intro st' n m s p h
  obtain ⟨a, b, _, _, e⟩ := xmitB1Step_spec x room ok blk st' n m s p h
  obtain ⟨e1, x', e2, _, e4, e5, e6, e7⟩ := e hinv
  exact ⟨b, a, e1, x', e2, e4, e5, e6, e7⟩

set_option maxRecDepth 100000 in
/-- non-vacuity + early size renegotiation: 400-byte body sent in 64-byte blocks; the server's 2.31 for block 0 asks
for 32-byte blocks (and names block 1 of that size as received): the client goes on with block 2 of 32 bytes -/
example :
    let body : Bytes := (List.range 400).map (fun i => UInt8.ofNat (i % 251))
    let x : LgXmit := { data := body, blkSize := 2 }
    XmitInv x ∧ (xmitB1Step x 1000 true (some (0, 1))).2 = B1Out.sendNext 2 1 1 (slice body 1 2) ∧
    ((xmitB1Step x 1000 true (some (0, 1))).1.map fun y => (y.blkSize, y.offset, y.lastBlock)) = some (1, 64, some 1) := by
  decide

set_option maxRecDepth 100000 in
/-- FORMER WITNESS (c), now the fixed behaviour (650c3a2; `xmit1 2 400 3 1152 95.0.4,95.1.4`): lg_xmit at 64-byte blocks,
block 0 sent; a 2.31 asking for 256-byte blocks used to make the client send "block 1 of 256 bytes" (bytes 256..399,
bytes 64..255 skipped) with M = 1 although it was the last one; now it sends block 1 of 64 bytes with the right More bit -/
example :
    let body : Bytes := (List.range 400).map (fun i => UInt8.ofNat (i % 251))
    (xmitB1Step { data := body, blkSize := 2 } 1000 true (some (0, 4))).2 = B1Out.sendNext 1 1 2 (slice body 2 1) ∧
    more 400 2 1 = 1 ∧
    ((xmitB1Step { data := body, blkSize := 2 } 1000 true (some (0, 4))).1.map fun y => (y.blkSize, y.offset, y.lastBlock)) =
      some (2, 64, some 0) := by decide

set_option maxRecDepth 100000 in
/-- non-vacuity for the server side: block 2 of a 100-byte body at 32-byte blocks; a changed size is refused -/
example :
    let body : Bytes := (List.range 100).map (fun i => UInt8.ofNat i)
    (xmitB2Step (some { data := body, blkSize := 1 }) 1000 2 1).2 = B2Out.block 2 1 1 (slice body 1 2) ∧
    (xmitB2Step (some { data := body, blkSize := 1 }) 1000 2 0).2 = B2Out.err400 ∧
    (xmitB2Step (some { data := body, blkSize := 1 }) 1000 4 1).2 = B2Out.err500 ∧
    (xmitB2Step (some { data := body, blkSize := 1 }) 20 2 1).2 = B2Out.err500 := by decide

/-- The release callback, part 1 — coap_add_data_large_internal: for ALL inputs, on every exit path either the callback
has been called exactly once and no lg_xmit holds it, or it has not been called and exactly one lg_xmit that holds it
has been linked into the session — the latter exactly when the result is a multi-block transfer. -/
theorem adl_release_once (maxSize tokLen optBytes lastOpt : Nat) (blk : Option Nat) (maxBlk length rtagLen : Nat) :
    let r := adlRel maxSize tokLen optBytes lastOpt blk maxBlk length rtagLen
    r.1 + (if r.2 then 1 else 0) = 1 ∧
    (r.2 = true ↔ ∃ a, addDataLarge maxSize tokLen optBytes lastOpt blk maxBlk length rtagLen = some a ∧ a.lgXmit = true) :=
  adlRel_spec maxSize tokLen optBytes lastOpt blk maxBlk length rtagLen

/-- The release callback, part 2 — the session's lg_xmit list: after ANY sequence of creations, deletions (timeout,
transfer finished, failed, replaced — each through LL_DELETE + coap_block_delete_lg_xmit on a list member) and session
frees, no callback has run twice and none has run for an lg_xmit that is still linked; every lg_xmit ever created is
still linked or has had its callback run; once the session is freed every one of them has had it run exactly once. -/
theorem release_exactly_once (evs : List XlEvent) :
    let s := evs.foldl xlStep ([], [])
    (s.1 ++ s.2).Nodup ∧
    (∀ id, XlEvent.create id ∈ evs → id ∈ s.1 ∨ id ∈ s.2) ∧
    (let f := (evs ++ [XlEvent.sessionFree]).foldl xlStep ([], [])
     f.1 = [] ∧ f.2.Nodup ∧ ∀ id, XlEvent.create id ∈ evs → id ∈ f.2) := by
  intro s
  have hnil : XlInv ([], []) := by unfold XlInv; exact List.nodup_nil
  refine ⟨xlFold_inv evs _ hnil, fun id h => xlFold_created evs _ id h, ?_⟩
  intro f
  have hf : f = xlStep s XlEvent.sessionFree := by
    show (evs ++ [XlEvent.sessionFree]).foldl xlStep ([], []) = _
    rw [List.foldl_append]; rfl
  have hs := xlFold_inv evs _ hnil
  rw [hf]
  refine ⟨rfl, hs, ?_⟩
  intro id h
  rcases xlFold_created evs ([], []) id h with h | h
  · exact List.mem_append_left _ h
  · exact List.mem_append_right _ h

example : [XlEvent.create 1, .create 2, .delete 1, .delete 1, .create 3, .sessionFree].foldl xlStep ([], []) =
    ([], [3, 2, 1]) := by decide
example : adlRel 1152 4 2 11 none 0 5000 1 = (0, true) ∧ adlRel 1152 4 2 11 none 0 50 1 = (1, false) ∧
    adlRel 60 4 2 11 none 0 5000 1 = (1, false) := by decide


/-! ## two concurrent Block1 transfers on one session, told apart by Request-Tag ("locate the lg_srcv")

M = `srcvMultiStep` (Model/BlockRtag.lean), tied to the real coap_handle_request_put_block by the T2 op `srcv3`. -/

/-- The key an lg_srcv is filed under is the Request-Tag's PRESENCE and VALUE (an EMPTY tag is a tag): for every list
of lg_srcvs and every request, (1) the element the request is processed against is the first one filed under exactly
the request's key; (2) if there is none, the element created carries exactly that key, so that the next block with the
same Request-Tag (absent / EMPTY / any value) finds it; (3) elements filed under another key survive the step
unchanged and nothing with another key is added — the blocks of one transfer never reach the other's lg_srcv. -/
theorem request_tag_tells_transfers_apart (cap : Nat) (junk : UInt8) (maxBlk : Nat) (lgs : List LgSrcv)
    (o : Option Bytes) (num m szx : Nat) (payload : Bytes) (size1 : Option Nat) :
    (∀ i, srcvFind lgs o = some i → ∃ lg, lgs[i]? = some lg ∧ lg.key = o ∧
      ∀ j lg', j < i → lgs[j]? = some lg' → lg'.key ≠ o) ∧
    (srcvFind lgs o = none → (∀ lg, lg ∈ lgs → lg.key ≠ o) ∧
      ∀ s' out, srcvStep cap junk maxBlk none num m szx payload size1 = (some s', out) →
        ∃ new, (srcvMultiStep cap junk maxBlk lgs o num m szx payload size1).1 = new :: lgs ∧ new.key = o ∧
          new.s = s' ∧ srcvFind (new :: lgs) o = some 0) ∧
    (∀ lg, lg ∈ lgs → lg.key ≠ o → lg ∈ (srcvMultiStep cap junk maxBlk lgs o num m szx payload size1).1) ∧
    (∀ lg, lg ∈ (srcvMultiStep cap junk maxBlk lgs o num m szx payload size1).1 → lg ∈ lgs ∨ lg.key = o) := by
  refine ⟨fun i h => srcvFind_some lgs o i h, ?_, (srcvMultiStep_keys cap junk maxBlk lgs o num m szx payload size1).1,
    (srcvMultiStep_keys cap junk maxBlk lgs o num m szx payload size1).2⟩
  intro hnone
  refine ⟨srcvFind_none lgs o hnone, ?_⟩
  intro s' out hs
  cases o with
  | none =>
    refine ⟨⟨false, [], s'⟩, ?_, rfl, rfl, ?_⟩
    · unfold srcvMultiStep
      rw [hnone]
      simp only
      rw [hs]
      rfl
    · simp [srcvFind, rtagMatch]
  | some t =>
    refine ⟨⟨true, t, s'⟩, ?_, rfl, rfl, ?_⟩
    · unfold srcvMultiStep
      rw [hnone]
      simp only
      rw [hs]
      rfl
    · simp [srcvFind, rtagMatch]

/-- an EMPTY Request-Tag is a key of its own: it matches neither an lg_srcv created without the option nor one with a
non-empty tag, and it does match the one created with an empty tag (the defect seeded as "record the tag only if its
length is non-zero" makes the last line false: every block then opens a new lg_srcv) -/
example : rtagMatch (some []) { rtagSet := false, rtag := [], s := { recv := [], totalLen := 0, body := none, szx := 0 } } = false ∧
    rtagMatch (some []) { rtagSet := true, rtag := [1], s := { recv := [], totalLen := 0, body := none, szx := 0 } } = false ∧
    rtagMatch none { rtagSet := true, rtag := [], s := { recv := [], totalLen := 0, body := none, szx := 0 } } = false ∧
    rtagMatch (some []) { rtagSet := true, rtag := [], s := { recv := [], totalLen := 0, body := none, szx := 0 } } = true := by
  decide

set_option maxRecDepth 100000 in
/-- two interleaved 40-byte transfers to one resource, one with an EMPTY Request-Tag and one without the option: two
lg_srcvs, each body delivered once -/
example :
    let b0 : Bytes := (List.range 40).map (fun i => UInt8.ofNat i)
    let b1 : Bytes := (List.range 40).map (fun i => UInt8.ofNat (100 + i))
    let st (lgs : List LgSrcv) (o : Option Bytes) (b : Bytes) (k m : Nat) :=
      srcvMultiStep 4 0 0 lgs o k m 0 (slice b 0 k) none
    let s1 := st [] (some []) b0 0 1
    let s2 := st s1.1 none b1 0 1
    let s3 := st s2.1 (some []) b0 1 1
    let s4 := st s3.1 none b1 1 1
    let s5 := st s4.1 (some []) b0 2 0
    let s6 := st s5.1 none b1 2 0
    s2.1.length = 2 ∧ s5.2 = SrcvOut.deliver b0 40 ∧ s6.2 = SrcvOut.deliver b1 40 ∧ s6.1 = [] := by decide


/-! ## Layer B, composed: libcoap sender ∘ lossy network ∘ libcoap receiver, Block2 and Block1 (Model/BlockNet.lean)

FULL statement (not proved): `never_wrong_body` / `at_most_once_per_transfer` for the composed system including
everything the real endpoints do.  What is missing in the two theorems below: responses the APPLICATION builds when a
follow-up Block2 request finds no lg_xmit, and RESPONSE bodies that fit one message (the Block2 model generates no message
there; request bodies that fit one message are modelled since round R09); the
computation of `adlBody`'s parameters on the response path (hypothesis `B2ParOK`, satisfied on the request path:
`first_block_genuine`); per-block mode on the server; several transfers at once; retransmission timers, message ids and
tokens (abstracted: the schedule picks any datagram ever sent, any number of times, in any order). -/

/-- For EVERY schedule — any loss, duplication, delay, reordering of request and response datagrams, repeated GETs,
time-outs of the server's lg_xmit and of the client's lg_crcv at any moment, an lg_crcv set up at send time (NON
request) or only by the first response (CON), any number of lg_xmit incarnations (each
with a fresh ETag, possibly with a different block size) — without ANY hypothesis on the datagrams: whatever the
client's response handler is given is the server's body (single-body mode: exactly, with its exact length) or an
exact slice of it at the announced offset (per-block mode), and a block response is never passed on as a plain one.
Since round R09 every response arrival carries the `sent` flag of coap_handle_response_get_block (chosen by the schedule). -/
theorem never_wrong_body_block2_composed_partial (P : B2Par) (hP : B2ParOK P) (evs : List B2Event) :
    ∀ o, o ∈ (evs.foldl (b2Step P) {}).outs →
      (∀ d l, o = CrcvOut.body d l → P.single = true ∧ d.take l = P.body ∧ l = P.body.length) ∧
      (∀ off p total nx, o = CrcvOut.block off p total nx →
        P.single = false ∧ ∃ k szx, k < nBlocks P.body.length szx ∧ off = k * chunkSize szx ∧ p = slice P.body szx k) ∧
      (∀ off p total, o = CrcvOut.last off p total →
        P.single = false ∧ ∃ k szx, k < nBlocks P.body.length szx ∧ off = k * chunkSize szx ∧ p = slice P.body szx k) ∧
      (∀ off p total, o = CrcvOut.randomAccess off p total →
        ∃ k szx, k < nBlocks P.body.length szx ∧ off = k * chunkSize szx ∧ p = slice P.body szx k) ∧
      (∀ p, o ≠ CrcvOut.plain p) :=
  (b2Run_inv P hP evs {} (b2_init_inv P)).outs

/-- The hypothesis `B2ParOK` holds for what the C computes: with `cfg` = `rspCfg` (the arguments
coap_add_data_large_response → coap_write_block_b_opt → coap_add_data_large_internal hand to `adlBody` for a GET carrying
Block2; `addDataLargeRsp` = `adlBody` on `rspCfg` is tied to the real function by the T2 op `xmit2` over PDU sizes
20..1500), any PDU size below 2^62, a body below 2^32 bytes and ETags that differ between lg_xmits. -/
theorem response_path_params_ok (maxSize tokLen optBytes lastOpt maxBlk etagLen : Nat) (body : Bytes)
    (etagOf : Nat → Bytes) (fmt room : Nat) (single : Bool) (cap : Nat) (junk : UInt8)
    (hms : maxSize < 2 ^ 62) (hlen : body.length < 2 ^ 32) (hinj : ∀ k1 k2, etagOf k1 = etagOf k2 → k1 = k2) :
    B2ParOK { body := body, cfg := rspCfg maxSize tokLen optBytes lastOpt maxBlk body.length etagLen, etagOf := etagOf,
              fmt := fmt, room := room, single := single, cap := cap, junk := junk } :=
  { len := hlen
    ms := fun szx c hc => (rspCfg_ok maxSize tokLen optBytes lastOpt maxBlk body.length etagLen hms szx c hc).1
    tok := fun szx c hc => (rspCfg_ok maxSize tokLen optBytes lastOpt maxBlk body.length etagLen hms szx c hc).2.1
    b2 := fun szx c hc => (rspCfg_ok maxSize tokLen optBytes lastOpt maxBlk body.length etagLen hms szx c hc).2.2.1
    b26 := fun szx c hc => (rspCfg_ok maxSize tokLen optBytes lastOpt maxBlk body.length etagLen hms szx c hc).2.2.2
    inj := hinj }

set_option maxRecDepth 100000 in
/-- non-vacuity: a 96-byte response PDU makes the server itself reduce 1024-byte blocks to 32 bytes -/
example : (rspCfg 96 4 2 12 0 1000 1 6).map (fun c => (c.b2, c.blk, c.tokOpts0)) = some (1, some 2, 8) ∧
    (addDataLargeRsp 96 4 2 12 6 0 1000 1).map (fun r => (r.lgXmit, r.blkSize, r.payload)) = some (true, 1, 32) := by decide

/-- a concrete system for the examples: 40-byte body, the server settles on 16-byte blocks -/
def exPar (single : Bool) : B2Par :=
  { body := (List.range 40).map (fun i => UInt8.ofNat i),
    cfg := fun _ => some { maxSize := 1152, tokLen := 4, base := 6, d := 11, tokOpts0 := 8, b2 := 0, extra := 6, blk := some 0 },
    etagOf := fun k => List.replicate k 1, fmt := 42, room := 1000, single := single, cap := 4, junk := 0 }

/-- the hypothesis `B2ParOK` is satisfiable -/
example (single : Bool) : B2ParOK (exPar single) :=
  { len := (by show ((List.range 40).map (fun i => UInt8.ofNat i)).length < 2 ^ 32; decide),
    ms := fun _ c hc => (by cases hc; show 1152 < 2 ^ 62; decide),
    tok := fun _ c hc => (by cases hc; show 8 ≤ 6 + 43; decide),
    b2 := fun _ c hc _ => (by cases hc; show ((2 ^ (0 + 4) : Nat) : Int) ≤ adlAvail 1152 8 4; decide),
    b26 := fun _ c hc => (by cases hc; show 0 ≤ 6; decide),
    inj := (by
      intro a b h
      have h' : List.replicate a (1 : UInt8) = List.replicate b 1 := h
      have := congrArg List.length h'
      simpa using this) }

/-- a schedule with a duplicated response and a retransmitted request: three requests, one delivery (`+kernel`: the
kernel evaluates the decision procedure directly; no axioms involved) -/
example :
    let evs : List B2Event := [.appGet 0, .reqArrives 0, .rspArrives 0 true, .reqArrives 1, .rspArrives 1 true, .rspArrives 1 true,
      .reqArrives 1, .reqArrives 2, .rspArrives 3 true]
    let s := evs.foldl (b2Step (exPar true)) {}
    s.outs = [.next 1 0, .next 2 0, .skip, .body (exPar true).body 40] ∧ s.cli = none ∧ s.rsps.length = 4 := by
  decide +kernel

/-- a duplicated FIRST request creates a second lg_xmit with a new ETag: the client restarts and still gets the body -/
example :
    let evs : List B2Event := [.appGet 0, .reqArrives 0, .reqArrives 0, .rspArrives 0 true, .rspArrives 1 true, .reqArrives 2,
      .rspArrives 2 true, .reqArrives 3, .rspArrives 3 true, .reqArrives 4, .rspArrives 4 true]
    let s := evs.foldl (b2Step (exPar true)) {}
    s.outs = [.next 1 0, .restart 0, .next 1 0, .next 2 0, .body (exPar true).body 40] ∧ s.srvEtag = 3 := by
  decide +kernel

/-- The Block1 direction, composed (`b1Step`, Model/BlockNet.lean): libcoap client (`coap_add_data_large_request` for the
first message, `coap_handle_response_send_block` for the others, early size renegotiation included) ∘ network ∘ libcoap
server in single-body mode (`coap_handle_request_put_block` for one lg_srcv; 2.31 with the SZX of the request or the
server's maximum for block 0; empty ACK; the application's answer; 4.08 / 4.00).  For EVERY schedule — any loss,
duplication, delay, reordering of requests and responses, repeated PUTs, time-outs of the client's lg_xmit and of the
server's lg_srcv at any moment, any server block-size limit — and with NO hypothesis on the datagrams: whatever the
server hands to its application is exactly the client's body with its exact length.
Invariant `B1Inv`: every request in flight is the slice for its NUM/SZX with the right More bit and Size1, in one of two
sizes (the client's initial one — only for block 0 — or the one the transfer settles on); every 2.31 names the settled
size; the lg_xmit is well formed (`XmitInv`) in one of the two sizes; the lg_srcv is consistent with the body (`SrcvInv`)
and tracks it in the settled size.  So the hypotheses of `never_wrong_body_partial` (slice, SZX not below the tracked
one) and of `client_block1_genuine_partial` (no larger size asked for) are discharged.
Since round R09 a body that fits ONE message is in the model too (`adlNoBlock`; `ReqOK` = `ReqBlk` ∨ `ReqSingle`).
Still not in the model, hence still `_partial` (see the section header): two lg_srcvs at once (`request_tag_…`), per-block
mode on the server, timers / message ids / tokens; body < 2^31 bytes. -/
theorem never_wrong_body_block1_composed_partial (P : B1Par) (hP : B1ParOK P) (evs : List B1Event) :
    ∀ o, o ∈ (evs.foldl (b1Step P) {}).outs → ∀ b l, o = SrcvOut.deliver b l → b = P.body ∧ l = P.body.length :=
  (b1Run_inv P hP evs {} (b1_init_inv P)).outs

/-- a concrete Block1 system: 200-byte body, the client would use 1024-byte blocks but asks for 64, the server allows 32 -/
def exPar1 : B1Par :=
  { body := (List.range 200).map (fun i => UInt8.ofNat i), maxSize := 1152, tokLen := 4, optBytes := 2, lastOpt := 11,
    blk := some 2, maxBlkC := 0, rtagLen := 1, maxBlk := 1, room := 1000, cap := 4, junk := 0 }

example : B1ParOK exPar1 :=
  { len := (by show ((List.range 200).map (fun i => UInt8.ofNat i)).length < 2 ^ 31; simp),
    ms := (by show 1152 < 2 ^ 62; decide) }

/-- early size renegotiation over the composed system, with a duplicated 2.31 and a duplicated block: the first block
(64 bytes) is recorded as two blocks of 32, the client goes on with block 2 of 32 bytes, one delivery at the end -/
example :
    let evs : List B1Event := [.appPut, .reqArrives 0, .rspArrives 0, .rspArrives 0, .reqArrives 1, .reqArrives 1,
      .rspArrives 1, .reqArrives 2, .rspArrives 3, .reqArrives 3, .rspArrives 4, .reqArrives 4, .rspArrives 5, .reqArrives 5]
    let s := evs.foldl (b1Step exPar1) {}
    s.reqs.map (fun d => (d.num, d.m, d.szx, d.payload.length)) =
      [(0, 1, 2, 64), (2, 1, 1, 32), (3, 1, 1, 32), (4, 1, 1, 32), (5, 1, 1, 32), (6, 0, 1, 8)] ∧
    s.outs.getLast? = some (SrcvOut.deliver exPar1.body 200) ∧ s.srv = none ∧
    (s.outs.filter (fun o => match o with | .deliver _ _ => true | _ => false)).length = 1 := by
  decide +kernel

/-! ### RUN-level "at most once" for the composed Block1 system, with a ghost history (Lemmas/BlockNetOnce.lean)

`b1StepG` = `b1Step` plus the ghost `g`: the request datagrams the server's lg_srcv has processed since the server last had
NO lg_srcv (the epoch; emptied by every release: delivery, 4.08, time-out).  "At most one delivery per PUT event" is FALSE
of the code — and not demanded by RFC 7959: once the lg_srcv is released a replay of the complete datagram sequence is a
new transfer (SPEC DECISION D6; witness below: one PUT, two deliveries).  What holds, for EVERY schedule: -/

/-- Along EVERY schedule of the composed Block1 system (any loss / duplication / replay / reordering of any datagram,
repeated PUTs, time-outs on either side, single-message bodies included), whenever a request arrival makes the server hand a
body to the application: it is the client's body, with its exact length, and EVERY byte of it was carried — for exactly that
offset — by a request datagram that arrived in the CURRENT epoch, i.e. after the lg_srcv was last released (`SentIn1` over
the ghost).  A block-wise delivery releases the lg_srcv and empties the epoch.  So the number of deliveries is at most the
number of times a complete set of blocks was received after the previous delivery / release, and nothing received before can
be used again.  Hypothesis `hN`: the body is addressable with a 20-bit NUM in the settled block size. -/
theorem at_most_once_block1_run (P : B1Par) (hP : B1ParOK P) (hN : nBlocks P.body.length (b1S P) ≤ 2 ^ 20)
    (evs : List B1Event) (i : Nat) (d : Req1) :
    let sg := evs.foldl (b1StepG P) ({}, [])
    sg.1.reqs[i]? = some d →
    ∀ b l, (srcvStep P.cap P.junk P.maxBlk sg.1.srv d.num d.m d.szx d.payload d.size1).2 = SrcvOut.deliver b l →
      (b = P.body ∧ l = P.body.length) ∧
      (∀ o, o < P.body.length → ∃ v, P.body[o]? = some v ∧ SentIn1 (d.dgram :: sg.2) o v) ∧
      (¬ (d.num = 0 ∧ d.m = 0) →
        (b1StepG P sg (B1Event.reqArrives i)).1.srv = none ∧ (b1StepG P sg (B1Event.reqArrives i)).2 = []) := by
  intro sg hq b l hb
  obtain ⟨hinv, hgh⟩ := b1RunG_inv P hP hN evs ({}, []) (b1_init_inv P) (b1_init_ghost P)
  have hd := hinv.req d (List.mem_of_getElem? hq)
  obtain ⟨e1, e2⟩ := b1Step_req P sg.1 i d hq
  have hbl : b = P.body ∧ l = P.body.length := by
    have hnext := b1Step_inv P hP sg.1 (B1Event.reqArrives i) hinv
    exact hnext.outs _ (by rw [e2]; exact List.mem_append_right _ List.mem_cons_self) b l hb
  obtain ⟨_, k2⟩ := b1Req_ghost P hN sg.1 sg.2 d hd hgh
  obtain ⟨_, k4⟩ := k2 b l hb
  refine ⟨hbl, ?_, ?_⟩
  · intro o ho
    rw [hbl.1, hbl.2] at k4
    exact k4 o ho
  · intro hn
    have hrel : (b1StepG P sg (B1Event.reqArrives i)).1.srv = none := by
      show (b1Step P sg.1 (B1Event.reqArrives i)).srv = none
      rw [e1]
      rcases hd with hblk | ⟨q1, q2, _⟩
      · exact b1Req_release P hP sg.1 d hinv hblk b l hb hn
      · exact (hn ⟨q1, q2⟩).elim
    exact ⟨hrel, (b1StepG_ghost P hN sg (B1Event.reqArrives i) hinv hgh).empty hrel⟩

/-- … hence a delivery needs block 0 to have arrived in the current epoch: whatever was received before the last release,
a replay of datagrams none of which carries NUM 0 — the LAST block alone, the last k blocks, any duplicates of them in any
order — never makes the server call the application. -/
theorem block1_replay_without_block0_never_delivers (P : B1Par) (hP : B1ParOK P)
    (hN : nBlocks P.body.length (b1S P) ≤ 2 ^ 20) (evs : List B1Event) (i : Nat) (d : Req1) :
    let sg := evs.foldl (b1StepG P) ({}, [])
    sg.1.reqs[i]? = some d → (∀ d', d' ∈ d.dgram :: sg.2 → d'.num ≠ 0) →
    ∀ b l, (srcvStep P.cap P.junk P.maxBlk sg.1.srv d.num d.m d.szx d.payload d.size1).2 ≠ SrcvOut.deliver b l := by
  intro sg hq hno b l hb
  obtain ⟨hinv, _⟩ := b1RunG_inv P hP hN evs ({}, []) (b1_init_inv P) (b1_init_ghost P)
  obtain ⟨_, hall, _⟩ := at_most_once_block1_run P hP hN evs i d hq b l hb
  have hpos : 0 < P.body.length := by
    rcases hinv.req d (List.mem_of_getElem? hq) with ⟨_, g2, _⟩ | ⟨q1, _, _⟩
    · have := (lt_nBlocks_iff P.body.length d.szx d.num).mp g2
      omega
    · exact (hno d.dgram List.mem_cons_self q1).elim
  obtain ⟨v, _, d', hd', hle, _⟩ := hall 0 hpos
  have h2 : 0 < 2 ^ (d'.szx + 4) := Nat.two_pow_pos _
  have h0 : d'.num = 0 := by
    cases hn : d'.num with
    | zero => rfl
    | succ n =>
      rw [hn] at hle
      have h3 : 2 ^ (d'.szx + 4) ≤ (n + 1) * 2 ^ (d'.szx + 4) := Nat.le_mul_of_pos_left (2 ^ (d'.szx + 4)) (Nat.succ_pos n)
      omega
  exact hno d' hd' h0

/-- the case asked for: the server holds no lg_srcv (the transfer was delivered, failed or timed out) and a datagram other
than block 0 arrives — a replayed last block in particular: the application is not called. -/
theorem block1_replayed_last_block_never_delivers (P : B1Par) (hP : B1ParOK P)
    (hN : nBlocks P.body.length (b1S P) ≤ 2 ^ 20) (evs : List B1Event) (i : Nat) (d : Req1) :
    let s := evs.foldl (b1Step P) {}
    s.reqs[i]? = some d → s.srv = none → d.num ≠ 0 →
    ∀ b l, (srcvStep P.cap P.junk P.maxBlk s.srv d.num d.m d.szx d.payload d.size1).2 ≠ SrcvOut.deliver b l := by
  intro s hq hnone hnum
  have hfst := b1StepG_fst P evs ({}, [])
  obtain ⟨_, hgh⟩ := b1RunG_inv P hP hN evs ({}, []) (b1_init_inv P) (b1_init_ghost P)
  have hs : (evs.foldl (b1StepG P) ({}, [])).1 = s := hfst
  have hemp := hgh.empty (by rw [hs]; exact hnone)
  have := block1_replay_without_block0_never_delivers P hP hN evs i d (by rw [hs]; exact hq)
    (by
      intro d' hd'
      rw [hemp, List.mem_singleton] at hd'
      rw [hd']
      exact hnum)
  rw [hs] at this
  exact this

/-- `hN` is satisfiable: 200 bytes in 32-byte blocks are 7 blocks -/
example : nBlocks exPar1.body.length (b1S exPar1) ≤ 2 ^ 20 := by decide +kernel

/-- WITNESS that "at most one delivery per PUT" is not what the code does (D6): ONE PUT; after the delivery the complete
sequence of request datagrams is replayed and the server — which has released its lg_srcv — delivers the body again; a
replay of the last block alone (`reqArrives 5` at the end) does not. -/
example :
    let first : List B1Event := [.appPut, .reqArrives 0, .rspArrives 0, .reqArrives 1, .rspArrives 1, .reqArrives 2,
      .rspArrives 2, .reqArrives 3, .rspArrives 3, .reqArrives 4, .rspArrives 4, .reqArrives 5]
    let replay : List B1Event := [.reqArrives 0, .reqArrives 1, .reqArrives 2, .reqArrives 3, .reqArrives 4, .reqArrives 5]
    let isD : SrcvOut → Bool := fun o => match o with | .deliver _ _ => true | _ => false
    ((first.foldl (b1Step exPar1) {}).outs.filter isD).length = 1 ∧
    (((first ++ replay).foldl (b1Step exPar1) {}).outs.filter isD).length = 2 ∧
    (((first ++ replay ++ [B1Event.reqArrives 5]).foldl (b1Step exPar1) {}).outs.filter isD).length = 2 ∧
    (((first ++ [B1Event.reqArrives 5, B1Event.reqArrives 4, B1Event.reqArrives 5]).foldl (b1Step exPar1) {}).outs.filter isD).length = 1 ∧
    ((first ++ replay).foldl (b1StepG exPar1) ({}, [])).2 = [] := by
  decide +kernel

/-- single-message bodies in the composed system (`adlNoBlock`: no lg_xmit, no Size1, Block1 absent): 40 bytes in one
message; every arrival of that datagram is a request of its own (D6) and hands over exactly the body -/
def exPar1s : B1Par := { exPar1 with body := (List.range 40).map (fun i => UInt8.ofNat i), blk := none }

example :
    let s := [B1Event.appPut, .reqArrives 0, .reqArrives 0].foldl (b1Step exPar1s) {}
    s.reqs.map (fun d => (d.num, d.m, d.szx, d.payload.length, d.size1)) = [(0, 0, 0, 40, none)] ∧ s.cli = none ∧
    s.outs = [.deliver exPar1s.body 40, .deliver exPar1s.body 40] ∧ s.srv = none := by
  decide +kernel

/-! ### RUN-level "at most once" for the composed Block2 system (single-body mode), with a ghost history

`b2StepG` = `b2Step` plus the ghost `g`: the response datagrams the client's lg_crcv has processed since it was last absent
or (re-)initialised (`initial`: set up by coap_send(), or restarted after an ETag change).  The event `rspArrives j sent` now
carries the `sent` argument of coap_handle_response_get_block (`crcvStepS`): whether coap_dispatch matched the datagram to a
Confirmable request still in the send queue.  The schedule picks it freely, so every behaviour of the message layer is
covered; what the message layer guarantees (a copy of a response whose request has already been answered is NOT matched)
is outside this model and trace-checked (`xfer` logs the flag). -/

/-- Along EVERY schedule of the composed Block2 system in single-body mode (any loss / duplication / replay / reordering,
repeated GETs, several lg_xmit incarnations with different ETags and block sizes, time-outs on either side, every choice of
`sent`), whenever a response arrival makes the client hand a body to the response handler: it is the server's body with its
exact length, and EVERY byte of it was carried — for exactly that offset — by a response that arrived in the CURRENT epoch,
i.e. after the lg_crcv was last set up or restarted; the delivery releases the lg_crcv and empties the epoch.  So the number
of deliveries is at most the number of lg_crcv lifetimes in which a complete set of block responses arrived. -/
theorem at_most_once_block2_run (P : B2Par) (hP : B2ParOK P) (hs : P.single = true) (evs : List B2Event) (j : Nat)
    (sent : Bool) (r : Resp) :
    let sg := evs.foldl (b2StepG P) ({}, [])
    sg.1.rsps[j]? = some r →
    ∀ d l, (crcvStepS sent P.single P.cap P.junk sg.1.cli r).2 = CrcvOut.body d l →
      (d.take l = P.body ∧ l = P.body.length) ∧
      (∀ o, o < P.body.length → ∃ v, P.body[o]? = some v ∧ SentIn (r :: sg.2) o v) ∧
      (b2StepG P sg (B2Event.rspArrives j sent)).1.cli = none ∧ (b2StepG P sg (B2Event.rspArrives j sent)).2 = [] := by
  intro sg hq d l hb
  obtain ⟨hinv, hgh⟩ := b2RunG_inv P hP hs evs ({}, []) (b2_init_inv P) (b2_init_ghost P)
  obtain ⟨e1, e2⟩ := b2Step_rsp P sg.1 j sent r hq
  have hbl : d.take l = P.body ∧ l = P.body.length := by
    have hnext := b2Step_inv P hP sg.1 (B2Event.rspArrives j sent) hinv
    exact ((hnext.outs _ (by rw [e2]; exact List.mem_append_right _ List.mem_cons_self)).1 d l hb).2
  have hb' : (crcvStepS sent true P.cap P.junk sg.1.cli r).2 = CrcvOut.body d l := by rw [← hs]; exact hb
  obtain ⟨_, k2⟩ := b2Rsp_ghost P.cap P.junk sent sg.1.cli sg.2 r hgh.h
  obtain ⟨k3, k4⟩ := k2 d l hb'
  have hrel : (b2StepG P sg (B2Event.rspArrives j sent)).1.cli = none := by
    show (b2Step P sg.1 (B2Event.rspArrives j sent)).cli = none
    rw [e1]
    exact crcvStepS_final_none _ _ _ _ _ _ (by rw [hb]; rfl)
  refine ⟨hbl, ?_, hrel, ?_⟩
  · intro o ho
    obtain ⟨v, h1, h2⟩ := k4 o (by rw [hbl.2]; exact ho)
    refine ⟨v, ?_, h2⟩
    rw [← hbl.1, List.getElem?_take, if_pos (by rw [hbl.2]; exact ho)]
    exact h1
  · exact (b2StepG_ghost P hs sg (B2Event.rspArrives j sent) hgh).empty
      (by intro c hc; rw [hrel] at hc; cases hc)

/-- … hence a delivery needs block 0 to have arrived in the current epoch: replays of block responses none of which is
block 0 (the LAST block in particular) never deliver, whatever was received in earlier lifetimes. -/
theorem block2_replay_without_block0_never_delivers (P : B2Par) (hP : B2ParOK P) (hs : P.single = true)
    (evs : List B2Event) (j : Nat) (sent : Bool) (r : Resp) :
    let sg := evs.foldl (b2StepG P) ({}, [])
    sg.1.rsps[j]? = some r → (∀ r', r' ∈ r :: sg.2 → numOf r' ≠ 0) →
    ∀ d l, (crcvStepS sent P.single P.cap P.junk sg.1.cli r).2 ≠ CrcvOut.body d l := by
  intro sg hq hno d l hb
  obtain ⟨hinv, _⟩ := b2RunG_inv P hP hs evs ({}, []) (b2_init_inv P) (b2_init_ghost P)
  obtain ⟨_, hall, _⟩ := at_most_once_block2_run P hP hs evs j sent r hq d l hb
  obtain ⟨num, szx, k, g1, g2, _⟩ := hinv.rsp r (List.mem_of_getElem? hq)
  have hpos : 0 < P.body.length := by
    have := (lt_nBlocks_iff P.body.length szx num).mp g2
    omega
  obtain ⟨v, _, r', hr', n', m', s', hb', hle, _⟩ := hall 0 hpos
  have h2 : 0 < 2 ^ (s' + 4) := Nat.two_pow_pos _
  have h0 : n' = 0 := by
    cases hn : n' with
    | zero => rfl
    | succ n =>
      rw [hn] at hle
      have h3 : 2 ^ (s' + 4) ≤ (n + 1) * 2 ^ (s' + 4) := Nat.le_mul_of_pos_left (2 ^ (s' + 4)) (Nat.succ_pos n)
      omega
  exact hno r' hr' (by unfold numOf; rw [hb', h0])

/-- "At most once per GET" as far as the block layer can guarantee it: once the client holds no lg_crcv (the body was
handed over, the transfer failed or timed out), NOTHING reaches the response handler and no lg_crcv appears along any
continuation in which the application sends no new request with an lg_crcv (`cliNew`) and no response is matched to a request
still queued — replays of ANY response datagrams (block 0, the last block, whole sequences, of any lg_xmit incarnation), in any
number and order, requests and time-outs in between, included.  Both delivery modes. -/
theorem block2_replays_after_completion_dropped (P : B2Par) (hP : B2ParOK P) (evs evs2 : List B2Event) :
    let s := evs.foldl (b2Step P) {}
    s.cli = none → (∀ e, e ∈ evs2 → e.unsolicited = true) →
    (evs2.foldl (b2Step P) s).cli = none ∧ ∀ o, o ∈ (evs2.foldl (b2Step P) s).outs → o ∈ s.outs ∨ o = CrcvOut.skip := by
  intro s hc hu
  exact b2_unsolicited_run P hP evs2 s (b2Run_inv P hP evs {} (b2_init_inv P)) hc hu

/-- the run of the first example continued: every response datagram replayed (unmatched) after the delivery, block 0 and
the last block twice — only `skip`s are added, still one delivery, no lg_crcv; and the ghost along the run -/
example :
    let evs : List B2Event := [.appGet 0, .reqArrives 0, .rspArrives 0 true, .reqArrives 1, .rspArrives 1 true,
      .reqArrives 2, .rspArrives 2 true]
    let replay : List B2Event := [.rspArrives 0 false, .rspArrives 2 false, .rspArrives 1 false, .rspArrives 2 false,
      .rspArrives 0 false]
    let s := (evs ++ replay).foldl (b2Step (exPar true)) {}
    s.outs = [.next 1 0, .next 2 0, .body (exPar true).body 40, .skip, .skip, .skip, .skip, .skip] ∧ s.cli = none ∧
    (replay.all fun e => e.unsolicited) = true ∧
    (((evs.take 5).foldl (b2StepG (exPar true)) ({}, [])).2.map numOf) = [1, 0] ∧
    (evs.foldl (b2StepG (exPar true)) ({}, [])).2 = [] := by
  decide +kernel

/-- WITNESS that the `sent` flag matters (and why "once per GET" needs the message layer): a copy of block 0 that IS
matched to a queued request after the transfer completed sets up a new lg_crcv — a new transfer, second delivery (D6) -/
example :
    let evs : List B2Event := [.appGet 0, .reqArrives 0, .rspArrives 0 true, .reqArrives 1, .rspArrives 1 true,
      .reqArrives 2, .rspArrives 2 true, .rspArrives 0 true, .rspArrives 1 true, .rspArrives 2 true]
    ((evs.foldl (b2Step (exPar true)) {}).outs.filter fun o => o.isFinal).length = 2 := by
  decide +kernel

/-- PER-BLOCK mode, composed system, EVERY schedule (ghost `seen` = the block numbers handed to the response handler since
the client's lg_crcv was last set up or restarted, `b2StepS`; it is exactly the set the lg_crcv has recorded, `B2SeenInv`):
a block handed to the handler was not handed over before in this lifetime — duplicates and replays of any response datagram,
of any lg_xmit incarnation, matched or not, never reach the handler twice — and when the completing block is handed over every
other block of the body has been: per lifetime the handler gets each block at most once and, at completion, all of them.
No hypothesis on the datagrams (`per_block_tiles_once_partial` needed `Admissible2`; `B2Inv` supplies it here). -/
theorem per_block_tiles_once_composed (P : B2Par) (hP : B2ParOK P) (hs : P.single = false) (evs : List B2Event) (j : Nat)
    (sent : Bool) (r : Resp) :
    let ss := evs.foldl (b2StepS P) ({}, [])
    ss.1.rsps[j]? = some r →
    (∀ off p t nx, (crcvStepS sent P.single P.cap P.junk ss.1.cli r).2 = CrcvOut.block off p t nx → numOf r ∉ ss.2) ∧
    (∀ off p t, (crcvStepS sent P.single P.cap P.junk ss.1.cli r).2 = CrcvOut.last off p t →
      numOf r ∉ ss.2 ∧ ∀ k, k < nBlocks P.body.length (szxOfR r) → k = numOf r ∨ k ∈ ss.2) := by
  intro ss hq
  obtain ⟨hinv, hG⟩ := b2RunS_inv P hP hs evs ({}, []) (b2_init_inv P)
    (by intro k; simp [effRecv, covers_nil])
  rw [hs]
  rcases crcvStepS_cases sent false P.cap P.junk ss.1.cli r with he | ⟨_, _, he⟩
  · rw [he]
    obtain ⟨num, szx, hg⟩ := b2_genuine P ss.1 r (List.mem_of_getElem? hq) hinv
    have hst : ∀ c, ss.1.cli = some c → c.initial = false → CrcvInv false P.cap P.body (some P.body.length) c := by
      intro c hc hi
      have := (hinv.cli c hc hi).1
      rw [hs] at this
      exact this
    obtain ⟨a, b, _⟩ := tiles_step P.cap P.junk P.body (some P.body.length) (by intro t ht; cases ht; exact Nat.le_refl _)
      ss.1.cli ss.2 r num szx hst hG hg
    exact ⟨a, b⟩
  · rw [he]
    cases r.blk with
    | none => exact ⟨fun _ _ _ _ h => (by cases h), fun _ _ _ h => (by cases h)⟩
    | some b => exact ⟨fun _ _ _ _ h => (by cases h), fun _ _ _ h => (by cases h)⟩

/-- the ghost along a concrete per-block run: block 1 duplicated, then a stray unmatched copy of block 0 after completion -/
example :
    let evs : List B2Event := [.appGet 0, .reqArrives 0, .rspArrives 0 true, .reqArrives 1, .rspArrives 1 true,
      .rspArrives 1 false]
    let s := (evs ++ [B2Event.reqArrives 2, B2Event.rspArrives 2 true, B2Event.rspArrives 0 false]).foldl (b2StepS (exPar false)) ({}, [])
    (evs.foldl (b2StepS (exPar false)) ({}, [])).2 = [1, 0] ∧ s.2 = [] ∧ s.1.cli = none ∧
    s.1.outs.map (fun o => match o with | CrcvOut.block off _ _ _ => off + 1 | CrcvOut.last off _ _ => off + 1 | _ => 0) =
      [1, 17, 0, 33, 0] := by
  decide +kernel

/-! ## Client: what the application's handlers see of a transfer libcoap runs under tokens of its own

`Model/BlockTok.lean`: `crcvStepS` = `coap_handle_response_get_block` with `sent` possibly NULL (every Non-confirmable or
separate response, and every message nobody waits for, arrives that way), T2 op `crcvs`; `checkUpdateToken` =
`coap_check_update_token`, which `coap_handle_nack` runs over the abandoned PDU in front of the NACK handler, T2 op `ctok`.
Whole transfers (timers, retransmission to exhaustion, two transfers on one session, late copies) are trace-checked by the
`xfer` op with content-keyed fault rules. -/

/-- "at most once per transfer", the part the lg_crcv cannot do because it is gone: a response that carries a Block2
option, meets no lg_crcv and was matched to no request (`sent == NULL`) — a duplicate or delayed copy of ANY block of a
transfer that was completed or given up, More bit set or not — is dropped; the handler is not called, no state appears. -/
theorem block2_unsolicited_dropped (single : Bool) (cap : Nat) (junk : UInt8) (r : Resp) (hb : r.blk ≠ none) :
    crcvStepS false single cap junk none r = (none, CrcvOut.skip) :=
  crcvStepS_unsolicited single cap junk r hb

/-- Along EVERY run (any responses, with or without `sent`, any state to start from): the step that hands the reassembled
body (single-body) or the completing block (per-block) to the handler releases the lg_crcv, and of the Block2 responses
that arrive afterwards without a request outstanding (`post`: duplicates, late copies, in any number and order) none
reaches the handler. -/
theorem at_most_once_block2_unsolicited (single : Bool) (cap : Nat) (junk : UInt8) (st : Option Crcv)
    (pre : List (Bool × Resp)) (x : Bool × Resp) (post : List (Bool × Resp))
    (hpost : ∀ y, y ∈ post → y.1 = false ∧ y.2.blk ≠ none) :
    let res := crcvStepS x.1 single cap junk (stateCrcvS single cap junk st pre) x.2
    res.2.isFinal = true →
      res.1 = none ∧ ∀ o, o ∈ runCrcvS single cap junk res.1 post → o = CrcvOut.skip := by
  intro res hf
  have hn : res.1 = none := crcvStepS_final_none _ _ _ _ _ _ hf
  refine ⟨hn, ?_⟩
  rw [hn]
  exact runCrcvS_none_unsolicited single cap junk post hpost

/-- A Non-confirmable Block2 transfer (every response arrives with `sent == NULL`), EVERY response sequence — any order,
any duplicates, any late copies, hostile or not — from any state: the body / the completing block is handed over at most
once. -/
theorem at_most_once_block2_non (single : Bool) (cap : Nat) (junk : UInt8) (st : Option Crcv) (xs : List (Bool × Resp))
    (hx : ∀ x, x ∈ xs → x.1 = false ∧ x.2.blk ≠ none) :
    ((runCrcvS single cap junk st xs).filter (fun o => o.isFinal)).length ≤ 1 :=
  runCrcvS_final_le_one single cap junk xs st hx

set_option maxRecDepth 100000 in
/-- non-vacuity: 40 bytes in 16-byte blocks over NON, the lg_crcv set up at send time; the last block arrives twice, then a
late copy of block 0: one hand-over, the copies are dropped -/
example :
    let body : Bytes := (List.range 40).map (fun i => UInt8.ofNat i)
    let rsp (k m : Nat) : Bool × Resp := (false, { blk := some (k, m, 0), payload := slice body 0 k })
    runCrcvS true 4 0 (some {}) [rsp 0 1, rsp 1 1, rsp 2 0, rsp 2 0, rsp 0 1] =
      [.next 1 0, .next 2 0, .body body 40, .skip, .skip] := by decide

/-- the tokens libcoap puts on the wire for a transfer all have the transfer's base: STATE_TOKEN_BASE(STATE_TOKEN_FULL(t, r))
= STATE_TOKEN_BASE(t) for every retry counter r -/
theorem wire_token_base (t r : Nat) : stateTokenBase (stateTokenFull t r) = stateTokenBase t := by
  unfold stateTokenFull stateTokenBase
  have h1 : (t % 2 ^ 44 + r * 2 ^ 44) % 2 ^ 64 % 2 ^ 44 = (t % 2 ^ 44 + r * 2 ^ 44) % 2 ^ 44 :=
    Nat.mod_mod_of_dvd _ (by decide)
  rw [h1, Nat.add_mul_mod_self_right, Nat.mod_mod]

/-- fix f4071ae: a token without a retry count (no libcoap-generated token has one: the counter starts at 1) is the
application's own and is left alone, whatever state tokens the session holds -/
theorem application_token_left_alone (crcvs xmits : List TokEnt) (isReq : Bool) (tok : Bytes)
    (h : decodeVar8 tok / 2 ^ 44 = 0) : checkUpdateToken crcvs xmits isReq tok = tok := by
  unfold checkUpdateToken
  dsimp only
  rw [if_pos h]

/-- `hwire` below: the abandoned PDU carries a token libcoap generated (retry count ≥ 1 in its upper 20 bits).
"handlers only ever see the application's own token", NACK handler: whenever the abandoned PDU's token belongs to a
transfer the session still holds — as the application token or as any wire token of an lg_crcv, or (requests) of an
lg_xmit, at ANY position of the lists — the PDU shown to the handler carries an application token of one of the
session's transfers.  No hypothesis on the tokens. -/
theorem nack_shows_application_token (crcvs xmits : List TokEnt) (isReq : Bool) (tok : Bytes)
    (hwire : decodeVar8 tok / 2 ^ 44 ≠ 0)
    (h : (∃ e, e ∈ crcvs ∧ (tok = e.appTok ∨ stateTokenBase (decodeVar8 tok) = stateTokenBase e.state)) ∨
         (isReq = true ∧ ∃ e, e ∈ xmits ∧ (tok = e.appTok ∨ stateTokenBase (decodeVar8 tok) = stateTokenBase e.state))) :
    ∃ e, e ∈ crcvs ++ xmits ∧ checkUpdateToken crcvs xmits isReq tok = e.appTok := by
  unfold checkUpdateToken
  dsimp only
  rw [if_neg hwire]
  cases hc : tokScan (stateTokenBase (decodeVar8 tok)) tok crcvs with
  | some t =>
    obtain ⟨e, he, ht, _⟩ := tokScan_some _ _ _ _ hc
    exact ⟨e, by simp [he], ht⟩
  | none =>
    have hnone := tokScan_none _ _ _ hc
    rcases h with ⟨e, he, hm⟩ | ⟨hr, e, he, hm⟩
    · rcases hm with hm | hm
      · exact absurd hm (hnone e he).1
      · exact absurd hm (hnone e he).2
    · subst hr
      simp only [if_true]
      cases hx : tokScan (stateTokenBase (decodeVar8 tok)) tok xmits with
      | some t =>
        obtain ⟨e', he', ht, _⟩ := tokScan_some _ _ _ _ hx
        exact ⟨e', by simp [he'], ht⟩
      | none =>
        have hn2 := tokScan_none _ _ _ hx
        rcases hm with hm | hm
        · exact absurd hm (hn2 e he).1
        · exact absurd hm (hn2 e he).2

/-- … and it is the token of THAT transfer: state tokens identify transfers (entries with the same base — an lg_xmit and the
lg_crcv `coap_send` sets up for it — carry the same application token: `hfun`; libcoap numbers them from
`session->tx_token`), the application has not chosen a token that is also on the wire (`hnot`).  Then for the transfer `e`
the abandoned PDU's token was derived from, in the lg_crcv list or (requests) the lg_xmit list, first or last: the NACK
handler is shown `e`'s application token. -/
theorem nack_token_of_its_transfer (crcvs xmits : List TokEnt) (isReq : Bool) (tok : Bytes) (e : TokEnt)
    (he : e ∈ crcvs ∨ (isReq = true ∧ e ∈ xmits))
    (hm : stateTokenBase (decodeVar8 tok) = stateTokenBase e.state)
    (hwire : decodeVar8 tok / 2 ^ 44 ≠ 0)
    (hfun : ∀ e1 e2, e1 ∈ crcvs ++ xmits → e2 ∈ crcvs ++ xmits →
      stateTokenBase e1.state = stateTokenBase e2.state → e1.appTok = e2.appTok)
    (hnot : ∀ e', e' ∈ crcvs ++ xmits → tok ≠ e'.appTok) :
    checkUpdateToken crcvs xmits isReq tok = e.appTok := by
  have hmem : e ∈ crcvs ++ xmits := by
    rcases he with he | ⟨_, he⟩
    · simp [he]
    · simp [he]
  unfold checkUpdateToken
  dsimp only
  rw [if_neg hwire]
  cases hc : tokScan (stateTokenBase (decodeVar8 tok)) tok crcvs with
  | some t =>
    obtain ⟨e', he', ht, hw⟩ := tokScan_some _ _ _ _ hc
    have hmem' : e' ∈ crcvs ++ xmits := by simp [he']
    rcases hw with hw | hw
    · exact absurd hw (hnot e' hmem')
    · dsimp only
      rw [ht]
      exact hfun e' e hmem' hmem (by rw [← hw, hm])
  | none =>
    have hnone := tokScan_none _ _ _ hc
    rcases he with he | ⟨hr, he⟩
    · exact absurd hm (hnone e he).2
    · subst hr
      simp only [if_true]
      obtain ⟨t, hx⟩ := tokScan_finds _ tok xmits e he hm
      rw [hx]
      obtain ⟨e', he', ht, hw⟩ := tokScan_some _ _ _ _ hx
      have hmem' : e' ∈ crcvs ++ xmits := by simp [he']
      rcases hw with hw | hw
      · exact absurd hw (hnot e' hmem')
      · dsimp only
        rw [ht]
        exact hfun e' e hmem' hmem (by rw [← hw, hm])

/-- non-vacuity (the two-transfers case): transfer A (application token a1a2, state token 1) was started first, transfer B
(b1b2b3, state token 2) second, so B's lg_crcv is the head of the list; A's request for a following block went out under
the wire token STATE_TOKEN_FULL(1, 3) = 0x300000000001 and is abandoned: the NACK handler is shown a1a2.  A PUT's follow-up
block is found through the lg_xmit list. -/
example :
    let A : TokEnt := { appTok := [0xa1, 0xa2], state := 1 }
    let B : TokEnt := { appTok := [0xb1, 0xb2, 0xb3], state := 2 }
    stateTokenFull 1 3 = 0x300000000001 ∧ decodeVar8 [0x30, 0, 0, 0, 0, 0x01] = 0x300000000001 ∧
    checkUpdateToken [B, A] [] true [0x30, 0, 0, 0, 0, 0x01] = [0xa1, 0xa2] ∧
    checkUpdateToken [B] [A] true [0x30, 0, 0, 0, 0, 0x01] = [0xa1, 0xa2] ∧
    checkUpdateToken [B, A] [] true [0xb1, 0xb2, 0xb3] = [0xb1, 0xb2, 0xb3] ∧
    checkUpdateToken [B, A] [] true [0x77] = [0x77] := by decide


/-! non-vacuity: concrete instances of the hypotheses -/
example : setupBlockB 64 6 3 6 5000 = some { num := 96, m := 1, szx := 1, aszx := 1, chunk := 32 } := by decide
example : (addDataLarge 1152 4 2 11 none 0 5000 1).isSome = true := by decide
example : ([0, 2, 4, 6, 1, 3].foldl (insertStep 4) ([], [])).1 = [(0, 4)] := by decide
example : (updateReceived 4 [(0, 0), (2, 2), (4, 4)] 6).1 = false := by decide
example : nBlocks 40 0 = 3 ∧ slices [1, 2, 3] 0 = [[1, 2, 3]] := by decide

/-! ## the release callback when a call supersedes a transfer still in progress (round S09)

M = `adlCall` / `adlEvStep` (Model/BlockAdl.lean): the search in front of coap_add_data_large_internal ("See if this token
is already in use for large bodies" / coap_find_lg_xmit_response), every exit behind it incl. the allocation failure
points, the `fail:` label with the LOCAL VARIABLE `lg_xmit`, the caller's own refusal; T2 op `adlx`. -/

/-- The release callback, part 3 — ONE call of coap_add_data_large_request / _response in EVERY session state, for every
key, body and exit (success, refusal in front, "does not fit (2)" / "(3)", setup_block_b / coap_add_data failure, any of
the three allocations failing):
(1) the session's list afterwards is the old one without the transfer that had the key (untouched if the caller refused
    in front), with the new lg_xmit at the head exactly when the call linked one;
(2) the callbacks this call runs are exactly: the superseded transfer's, ONCE, and the new body's, ONCE unless its
    lg_xmit was linked — for every body `b` the number of invocations grows by exactly these two indicator terms (so
    no callback runs twice, none of a third body runs, and the new body's is never dropped);
(3) hence "ran + held" of every body is unchanged and the new body is accounted for exactly once. -/
theorem adl_supersede_release_once (s : AdlSess) (key body : Nat) (ex : AdlExit) :
    let s' := adlCall s key body ex
    s'.xmits = (if ex.isLinked then [{ key := key, body := body }] else []) ++
        (if ex = .refused then s.xmits else removeKey s.xmits key) ∧
    (∀ b, ran s' b = ran s b + (if body = b ∧ ex.isLinked = false then 1 else 0) +
        (if superseded s key ex = some b then 1 else 0)) ∧
    (∀ b, ran s' b + held s' b = ran s b + held s b + (if body = b then 1 else 0)) :=
  ⟨(adlCall_spec s key body ex).1, (adlCall_spec s key body ex).2, fun b => adlCall_ledger s key body ex b⟩

/-- The exits are those of `adlRel` / `addDataLarge`: without allocation failure the request path's exit links an
lg_xmit exactly when `addDataLarge` yields a multi-block transfer, and otherwise accounts for one invocation. -/
theorem adl_exit_matches_adlRel (maxSize tokLen optBytes lastOpt : Nat) (blk : Option Nat) (maxBlk length rtagLen : Nat) :
    (adlExitReq maxSize tokLen optBytes lastOpt blk maxBlk length rtagLen 0).rel =
      adlRel maxSize tokLen optBytes lastOpt blk maxBlk length rtagLen ∧
    ((adlExitReq maxSize tokLen optBytes lastOpt blk maxBlk length rtagLen 0).isLinked = true ↔
      ∃ a, addDataLarge maxSize tokLen optBytes lastOpt blk maxBlk length rtagLen = some a ∧ a.lgXmit = true) := by
  have h := adlExitReq_rel maxSize tokLen optBytes lastOpt blk maxBlk length rtagLen
  refine ⟨h, ?_⟩
  rw [← (adlRel_spec maxSize tokLen optBytes lastOpt blk maxBlk length rtagLen).2, ← h]
  cases adlExitReq maxSize tokLen optBytes lastOpt blk maxBlk length rtagLen 0 <;> simp [AdlExit.isLinked, AdlExit.rel]

/-- The release callback, part 4 — a session's whole life: for EVERY sequence of calls (any keys — re-used or not —,
any exits), expiries and frees, with the bodies numbered in call order: at every point each body handed over so far has
either had its callback run exactly once or is held by exactly one linked lg_xmit (never both, never twice), no other
callback has run, the session never holds two transfers with one key, and once the session is freed every body's
callback has run EXACTLY once. -/
theorem adl_run_release_exactly_once (evs : List AdlEv) :
    let st := adlRun evs
    (∀ b, ran st.1 b + held st.1 b = if b < st.2 then 1 else 0) ∧
    (st.1.xmits.map (·.key)).Nodup ∧
    (let f := adlRun (evs ++ [AdlEv.free])
     f.1.xmits = [] ∧ f.2 = st.2 ∧ ∀ b, ran f.1 b = if b < st.2 then 1 else 0) := by
  intro st
  have hinv : AdlInv st := adlFold_inv evs _ adlInv_init
  refine ⟨hinv, adlFold_keys evs _ List.nodup_nil, ?_⟩
  intro f
  have hf : f = adlEvStep st AdlEv.free := by
    show (evs ++ [AdlEv.free]).foldl adlEvStep ({}, 0) = _
    rw [List.foldl_append]; rfl
  rw [hf]
  refine ⟨rfl, rfl, ?_⟩
  intro b
  show ran (adlReleaseAll st.1) b = _
  rw [(adlReleaseAll_ledger st.1 b).2]
  exact hinv b

/-- non-vacuity, and the seeded scenario: a 600-byte PUT with a 5-byte-key token on a 128-byte PDU links an lg_xmit
(block size 2); a second PUT re-using the token with a 60-byte Uri-Path does not fit ("(2)"): the first body's callback
has run once, the second body's once, nothing is linked.  Had `fail:` seen the superseded lg_xmit in the local variable
(`adlFailPath (some 0)`), body 0 would have run twice and body 1 never. -/
example :
    adlExitReq 128 8 2 11 none 0 600 1 0 = .linked 2 ∧ adlExitReq 128 8 62 11 none 0 600 1 0 = .failSearch ∧
    adlRun [.call 5 (.linked 2), .call 5 .failSearch] = ({ xmits := [], rel := [1, 0] }, 2) ∧
    adlFailPath (some 0) 1 [0] = [0, 0] := by decide
example : adlExitReq 1152 4 2 11 none 0 6000 1 1 = .failSearch ∧ adlExitReq 1152 4 2 11 none 0 6000 1 2 = .failNew ∧
    adlExitReq 1152 4 2 11 none 0 6000 1 3 = .failNew ∧ adlExitRsp 60 4 2 12 6 0 5000 1 0 = .failSearch ∧
    adlExitRsp 20 4 2 12 6 0 5000 1 0 = .refused ∧ adlExitRsp 1152 4 2 12 6 0 5000 1 0 = .linked 6 := by decide
example : adlRun [.call 1 (.linked 6), .call 2 (.linked 6), .call 1 .released, .expire, .call 3 .failNew, .free] =
    ({ xmits := [], rel := [3, 1, 2, 0] }, 4) := by decide

/-! ## Tokens in the composed Block2 system (round R09c, `Model/BlockNetTok.lean`)

`b2tStep` = `b2Step` with a token on every datagram (the application's on the GET, `STATE_TOKEN_FULL(state_token,
++retry_counter)` on every follow-up request, echoed by the server), the client's lg_crcv LIST with the lookup by token,
`coap_block_new_lg_crcv`'s state token, `coap_send`'s replacement of an lg_crcv with the same application token, and the
token `rcvd` carries when the handler sees it.  `hToks` records every handler call: the token shown and (ghost) the
`STATE_TOKEN_BASE`s of the lg_crcvs released BEFORE that call. -/

/-- C09 "handlers only ever see the application's own token, never one libcoap substituted on the wire", composed
system, EVERY schedule (any loss / duplication / reordering of requests and responses, `sent` matched or not, time-outs
of any lg_crcv and of the lg_xmit, repeated GETs with the same token), NO hypothesis on parameters, tokens or counters
(`tx_token` and the 16-bit retry counter may wrap): as long as no lg_crcv of the session has been released, every
response-handler call carries the application's token. -/
theorem app_token_only_block2_composed (P : B2Par) (app : Bytes) (evs : List B2TEvent) :
    ∀ x ∈ (b2tRun P app {} evs).hToks, x.2 = [] → x.1 = app := by
  intro x hx hrel
  rcases (b2tRun_inv P app evs {} (runInvT_init app)).shown x hx with h | h
  · exact h
  · rw [hrel] at h; cases h

/-- …and the complement is exactly the open finding `c09-late-message-raw-token`: a handler call that shows a token other
than the application's shows a token whose `STATE_TOKEN_BASE` is that of an lg_crcv that had been RELEASED before the
call (completed, failed, timed out or replaced) — never one of a transfer whose state still exists. -/
theorem raw_token_only_after_release (P : B2Par) (app : Bytes) (evs : List B2TEvent) :
    ∀ x ∈ (b2tRun P app {} evs).hToks, x.1 ≠ app → stateTokenBase (decodeVar8 x.1) ∈ x.2 := by
  intro x hx hne
  rcases (b2tRun_inv P app evs {} (runInvT_init app)).shown x hx with h | h
  · exact absurd h hne
  · exact h

/-- the same for ONE call in ANY session state satisfying the invariant (any number of lg_crcvs, e.g. other transfers'):
a matched lg_crcv ⇒ its `app_token` is shown; the token shown is the application's or belongs to a released lg_crcv -/
theorem handler_token_step (single : Bool) (cap : Nat) (junk : UInt8) (app : Bytes) (c : CliT) (sent : Bool)
    (tok : Bytes) (r : Resp) (hent : ∀ e ∈ c.crcvs, AppOK app c.released e) (htok : TokOK app c tok) :
    let res := crcvStepT single cap junk c (if sent then some tok else none) tok r
    callsHandler res.2.out = true → res.2.shown = app ∨ stateTokenBase (decodeVar8 res.2.shown) ∈ c.released :=
  (crcvStepT_spec single cap junk app c (if sent then some tok else none) tok r hent htok
    (by intro st hst; split at hst <;> simp at hst; exact Or.inl hst.symm)).2.2.1

/-- the hypotheses of `handler_token_step` are satisfiable on a non-trivial state: two lg_crcvs — one of the application's
request, one built from a late message of a released transfer (base 3) — and a follow-up response of the first -/
example :
    let c : CliT := { crcvs := [{ appTok := [0xa1], state := stateTokenFull 7 1, retry := 4, lg := {} },
                                { appTok := encodeVar8 (stateTokenFull 3 2), state := stateTokenFull 9 1, retry := 1, lg := {} }],
                      txTok := 9, released := [3] }
    (∀ e ∈ c.crcvs, AppOK [0xa1] c.released e) ∧ TokOK [0xa1] c (encodeVar8 (stateTokenFull 7 4)) := by
  refine ⟨?_, Or.inr (Or.inl ?_)⟩
  · intro e he
    simp only [List.mem_cons, List.not_mem_nil, or_false] at he
    rcases he with rfl | rfl
    · exact Or.inl rfl
    · exact Or.inr (by rw [base_wire 3 2 (by decide)]; decide)
  · rw [base_wire 7 4 (by decide)]
    decide

/-- libcoap reads back from its own tokens the state token they were generated from (any retry count) -/
theorem wire_token_roundtrip (st r : Nat) (hr : r < 65536) :
    decodeVar8 (encodeVar8 (stateTokenFull st r)) = stateTokenFull st r ∧
    stateTokenBase (decodeVar8 (encodeVar8 (stateTokenFull st r))) = stateTokenBase st :=
  ⟨decode_encode8 _ (full_lt st r), base_wire st r hr⟩

/-- Lean witness of the open finding `c09-late-message-raw-token` in the composed system: block 1 of a transfer is
answered under the substituted token 0x200000000001; the lg_crcv times out; the (duplicated) response, matched to a
request that is still queued, reaches the handler as "random access" with the wire token — and base 1 had been released.
Without the time-out the same schedule shows the application's token only. -/
example :
    let app : Bytes := [0xa1, 0xa2]
    let evs : List B2TEvent := [.appGet 0, .reqArrives 0, .rspArrives 0 true, .reqArrives 1, .cliExpire 0, .rspArrives 1 true]
    let s := b2tRun (exPar false) app {} evs
    s.reqToks = [app, [0x20, 0, 0, 0, 0, 1]] ∧ s.hToks = [(app, []), ([0x20, 0, 0, 0, 0, 1], [1])] := by
  decide +kernel
example :
    let app : Bytes := [0xa1, 0xa2]
    let evs : List B2TEvent := [.appGet 0, .reqArrives 0, .rspArrives 0 true, .reqArrives 1, .rspArrives 1 true,
      .rspArrives 1 true, .reqArrives 2, .rspArrives 2 false]
    let s := b2tRun (exPar false) app {} evs
    s.reqToks = [app, [0x20, 0, 0, 0, 0, 1], [0x30, 0, 0, 0, 0, 1]] ∧ s.hToks.map (·.1) = [app, app, app] ∧
    s.cli.crcvs.length = 0 ∧ s.cli.released = [1] := by
  decide +kernel

/-- `never_wrong_body_block2_composed_partial` for the system WITH tokens and the lg_crcv LIST (`b2tStep`): there a
response only meets the lg_crcv its token selects (state-token base or application token, first match in list order),
a response whose token matches none is treated as on a session without lg_crcv although others exist (dropped /
"random access" / a NEW lg_crcv prepended next to the old ones), `coap_send` replaces the first lg_crcv with the
application's token only, any single lg_crcv may time out.  EVERY schedule, no hypothesis on datagrams or tokens: every
handler output is the server's body / an exact slice, and a block response is never passed on as a plain one.
Invariant `B2TInv` = `B2Inv` with every lg_crcv of the list (and none) in the client's place; `cliOnRsp_inv` /
`srvOnReq_inv` are re-used per element (`crcvStepT_lg`: the step IS `crcvStep` on the matched element or on none).
Same exclusions as the `_partial` theorem except "tokens" (single-message response bodies, application-built answers
to follow-up requests without lg_xmit, timers). -/
theorem never_wrong_body_block2_composed_tokens (P : B2Par) (hP : B2ParOK P) (app : Bytes) (evs : List B2TEvent) :
    ∀ o, o ∈ (b2tRun P app {} evs).net.outs →
      (∀ d l, o = CrcvOut.body d l → P.single = true ∧ d.take l = P.body ∧ l = P.body.length) ∧
      (∀ off p total nx, o = CrcvOut.block off p total nx →
        P.single = false ∧ ∃ k szx, k < nBlocks P.body.length szx ∧ off = k * chunkSize szx ∧ p = slice P.body szx k) ∧
      (∀ off p total, o = CrcvOut.last off p total →
        P.single = false ∧ ∃ k szx, k < nBlocks P.body.length szx ∧ off = k * chunkSize szx ∧ p = slice P.body szx k) ∧
      (∀ off p total, o = CrcvOut.randomAccess off p total →
        ∃ k szx, k < nBlocks P.body.length szx ∧ off = k * chunkSize szx ∧ p = slice P.body szx k) ∧
      (∀ p, o ≠ CrcvOut.plain p) :=
  (b2tRun_body_inv P hP app evs {} (b2TInv_init P)).1.outs

/-- two lg_crcvs at once (an old one whose follow-up response is still under way when the application asks again and the
new GET's first response arrives matched): each response goes to the lg_crcv its token selects; both bodies complete -/
example :
    let app : Bytes := [0xa1, 0xa2]
    let evs : List B2TEvent := [.appGet 0, .reqArrives 0, .rspArrives 0 true, .reqArrives 1, .cliExpire 0,
      .rspArrives 0 true, .rspArrives 1 true]
    let s := b2tRun (exPar true) app {} evs
    s.cli.crcvs.map (fun e => (e.appTok, stateTokenBase e.state, e.retry)) = [(app, 2, 2)] ∧
    s.net.outs = [.next 1 0, .next 1 0, .randomAccess 16 ((exPar true).body.drop 16 |>.take 16) 33] ∧
    s.hToks = [([0x20, 0, 0, 0, 0, 1], [1])] := by
  decide +kernel

/-! ## Tokens in the composed Block1 system (round R09c, `Model/BlockNetTok1.lean`)

`b1tStep` = `b1Step` with a token on every datagram (the application's on the first request,
`STATE_TOKEN_FULL(lg_xmit->b.b1.state_token, ++count)` on every follow-up request, echoed by the server), the client's
lg_xmit with application token / state token / count and its `lg_crcv` pointer, the lg_crcv `coap_send` sets up and
links for the PUT, and `handle_response()`: `coap_handle_response_send_block` (lookup by token; `lg_xmit_finished:`
restores the token only `if (!lg_crcv)`), then `coap_handle_response_get_block` (lookup by token, token restored, lg_crcv
released), then the handler. -/

/-- C09 "handlers only ever see the application's own token", Block1 direction, composed system, EVERY schedule (loss /
duplication / reordering of requests and responses, repeated PUTs with the same token, time-outs of the lg_xmit, of the
lg_crcv and of the server's lg_srcv at any moment, Confirmable or Non-confirmable, single-message bodies included), NO
hypothesis: as long as no lg_xmit / lg_crcv of the session has been released, every response-handler call carries the
application's token. -/
theorem app_token_only_block1_composed (P : B1Par) (app : Bytes) (non : Bool) (evs : List B1TEvent) :
    ∀ x ∈ (b1tRun P app non {} evs).hToks, x.2 = [] → x.1 = app := by
  intro x hx hrel
  rcases (b1tRun_inv P app non evs {} (t1Inv_init app)).shown x hx with h | h
  · exact h
  · rw [hrel] at h; cases h

/-- the complement = the open finding `c09-late-message-raw-token` for PUT: a handler call that shows a token other than
the application's shows one whose `STATE_TOKEN_BASE` is that of an lg_xmit / lg_crcv RELEASED before the response was
dispatched (not merely before the handler ran: the lg_xmit that `lg_xmit_finished:` deletes on the way does not count —
invariant `Cli1Inv.link`: an lg_xmit with `lg_crcv` set has an lg_crcv with the same state-token base, so
coap_handle_response_get_block finds it and restores the token). -/
theorem raw_token_only_after_release_block1 (P : B1Par) (app : Bytes) (non : Bool) (evs : List B1TEvent) :
    ∀ x ∈ (b1tRun P app non {} evs).hToks, x.1 ≠ app → stateTokenBase (decodeVar8 x.1) ∈ x.2 := by
  intro x hx hne
  rcases (b1tRun_inv P app non evs {} (t1Inv_init app)).shown x hx with h | h
  · exact absurd h hne
  · exact h

/-- ONE response dispatched by `handle_response()` in ANY session state satisfying the invariant -/
theorem handler_token_step_block1 (room : Nat) (app : Bytes) (c : Cli1T) (tok : Bytes) (ok : Bool)
    (blk : Option (Nat × Nat)) (hinv : Cli1Inv app c) (htok : Tok1OK app c tok) :
    (rspStep1T room c tok ok blk).2.handler = true →
      (rspStep1T room c tok ok blk).2.shown = app ∨
      stateTokenBase (decodeVar8 (rspStep1T room c tok ok blk).2.shown) ∈ c.released :=
  (rspStep1T_spec room app c tok ok blk hinv htok).2.2.2

/-- the hypotheses of `handler_token_step_block1` are satisfiable on a non-trivial state: a linked lg_xmit + lg_crcv -/
example : Cli1Inv [0xa1] { xmit := some { appTok := [0xa1], state := stateTokenFull 7 1, count := 3,
                                            x := { data := [1, 2, 3], blkSize := 0 }, link := true },
                           crcv := some { appTok := [0xa1], state := stateTokenFull 7 1, retry := 1 } } ∧
    Tok1OK [0xa1] { xmit := some { appTok := [0xa1], state := stateTokenFull 7 1, count := 3,
                                    x := { data := [1, 2, 3], blkSize := 0 }, link := true } }
      (encodeVar8 (stateTokenFull 7 3)) :=
  ⟨⟨fun xm h => (by cases h; rfl), fun cr h => (by cases h; rfl), fun xm h _ => (by cases h; exact ⟨_, rfl, rfl⟩)⟩,
   Or.inr (Or.inl (Or.inl ⟨_, rfl, base_wire_any 7 3⟩))⟩

/-- Lean witnesses (200-byte PUT, 32-byte blocks): a complete transfer shows the application's token with nothing
released; the second variant of the server's final answer arriving afterwards (a duplicated final / error response — the
open finding's class) shows the wire token 0x600000000002, base 2 released (lg_xmit and lg_crcv) -/
example :
    let app : Bytes := [0xa1, 0xa2]
    let evs : List B1TEvent := [.appPut, .reqArrives 0, .rspArrives 0, .reqArrives 1, .rspArrives 1, .reqArrives 2,
      .rspArrives 2, .reqArrives 3, .rspArrives 3, .reqArrives 4, .rspArrives 4, .reqArrives 5, .rspArrives 5, .rspArrives 6]
    let s := b1tRun exPar1 app true {} evs
    s.reqToks = [app, [0x20, 0, 0, 0, 0, 2], [0x30, 0, 0, 0, 0, 2], [0x40, 0, 0, 0, 0, 2], [0x50, 0, 0, 0, 0, 2],
      [0x60, 0, 0, 0, 0, 2]] ∧ s.hToks = [(app, []), ([0x60, 0, 0, 0, 0, 2], [2, 2])] ∧ s.net.outs.length = 6 := by
  decide +kernel
/-- … and both time-outs in mid-transfer: the 2.31 for block 2 is handed to the handler under the wire token -/
example :
    let app : Bytes := [0xa1, 0xa2]
    let evs : List B1TEvent := [.appPut, .reqArrives 0, .rspArrives 0, .reqArrives 1, .xmitExpire, .crcvExpire, .rspArrives 1]
    (b1tRun exPar1 app true {} evs).hToks = [([0x20, 0, 0, 0, 0, 2], [2, 2])] := by
  decide +kernel

/-- `never_wrong_body_block1_composed_partial` for the system WITH tokens (`b1tStep`): every step of it is a (possibly
empty) sequence of `b1Step` steps on the state underneath (`b1t_simulated`: a response whose token selects the lg_xmit =
`rspArrives`; one that selects none = no step; a PUT whose body fits one message = `cliExpire` (the supersede search) then
`appPut`; lg_xmit time-out = `cliExpire`; lg_crcv time-out = no step), so for EVERY schedule whatever the server hands to
its application is exactly the client's body with its exact length.  Remaining exclusions as for the `_partial` theorem
minus "tokens". -/
theorem never_wrong_body_block1_composed_tokens (P : B1Par) (hP : B1ParOK P) (app : Bytes) (non : Bool)
    (evs : List B1TEvent) :
    ∀ o, o ∈ (b1tRun P app non {} evs).net.outs → ∀ b l, o = SrcvOut.deliver b l → b = P.body ∧ l = P.body.length := by
  obtain ⟨evs', h⟩ := b1tRun_simulated P app non evs {} (t1Inv_init app)
  have houts : (absB1 (b1tRun P app non {} evs)).outs = (evs'.foldl (b1Step P) (absB1 {})).outs := congrArg B1Sys.outs h
  have houts' : (b1tRun P app non {} evs).net.outs = (evs'.foldl (b1Step P) {}).outs := houts
  intro o ho
  rw [houts'] at ho
  exact never_wrong_body_block1_composed_partial P hP evs' o ho

/-! ## Round R09d: the client never asks for a Block2 block beyond NUM 0xFFFFF -/

/-- the Block2 request (NUM, SZX) libcoap transmits in reaction to a response, if any -/
def reqOf : CrcvOut → Option (Nat × Nat)
  | .restart szx => some (0, szx)
  | .next n szx => some (n, szx)
  | .block _ _ _ nx => nx
  | _ => none

theorem crcvStore_req (single : Bool) (cap : Nat) (junk : UInt8) (lg : Crcv) (num m szx : Nat) (payload data : Bytes)
    (offset size2 fmt n s : Nat)
    (h : reqOf (crcvStore single cap junk lg num m szx payload data offset size2 fmt).2 = some (n, s)) :
    n = num + 1 ∧ s = szx ∧ m ≠ 0 := by
  revert h
  unfold crcvStore
  dsimp only
  split
  · simp [reqOf]
  split
  · simp [reqOf]
  split
  · simp [reqOf]
  split
  · simp [reqOf]
  split
  · simp [reqOf]
  split
  · split
    · split
      · rename_i hm; simp only [reqOf, Option.some.injEq, Prod.mk.injEq]; intro h; exact ⟨h.1.symm, h.2.symm, hm⟩
      · split <;> simp [reqOf]
    · simp only [reqOf]
      split
      · rename_i hm; simp only [Option.some.injEq, Prod.mk.injEq]; intro h; exact ⟨h.1.symm, h.2.symm, hm⟩
      · simp
  · split <;> simp [reqOf]

theorem crcvStep_req (single : Bool) (cap : Nat) (junk : UInt8) (st : Option Crcv) (r : Resp) (num m szx n s : Nat)
    (hblk : r.blk = some (num, m, szx)) (hnum : num ≤ 0xFFFFF) (hszx : szx ≤ 6)
    (h : reqOf (crcvStep single cap junk st r).2 = some (n, s)) :
    n ≤ 0xFFFFF ∧ s = szx ∧ n * 2 ^ (s + 4) < 2 ^ 32 := by
  have hfin : ∀ n, n ≤ 0xFFFFF → n * 2 ^ (szx + 4) < 2 ^ 32 := by
    intro n hn
    have h1 : 2 ^ (szx + 4) ≤ 2 ^ 10 := Nat.pow_le_pow_right (by decide) (by omega)
    calc n * 2 ^ (szx + 4) ≤ 0xFFFFF * 2 ^ 10 := Nat.mul_le_mul hn h1
      _ < 2 ^ 32 := by decide
  have hblock : ∀ lg, reqOf (crcvBlock single cap junk lg num m szx r).2 = some (n, s) →
      n ≤ 0xFFFFF ∧ s = szx ∧ n * 2 ^ (s + 4) < 2 ^ 32 := by
    intro lg
    unfold crcvBlock
    dsimp only
    generalize (if r.payload.length > 2 ^ (szx + 4) then r.payload.take (2 ^ (szx + 4)) else r.payload) = data
    by_cases hund : m ≠ 0 ∧ data.length ≠ 2 ^ (szx + 4)
    · rw [if_pos hund]; simp [reqOf]
    rw [if_neg hund]
    by_cases hlast : m ≠ 0 ∧ 0xFFFFF ≤ num
    · rw [if_pos hlast]; simp [reqOf]
    rw [if_neg hlast]
    have hstore : ∀ lg2 payload data offset size2 fmt,
        reqOf (crcvStore single cap junk lg2 num m szx payload data offset size2 fmt).2 = some (n, s) →
        n ≤ 0xFFFFF ∧ s = szx ∧ n * 2 ^ (s + 4) < 2 ^ 32 := by
      intro lg2 payload data offset size2 fmt hh
      obtain ⟨e1, e2, e3⟩ := crcvStore_req _ _ _ _ _ _ _ _ _ _ _ _ _ _ hh
      have hlt : num < 0xFFFFF := by
        apply Classical.byContradiction; intro hc; exact hlast ⟨e3, by omega⟩
      subst e1; subst e2
      exact ⟨by omega, rfl, hfin _ (by omega)⟩
    cases he : r.etag with
    | some e =>
      simp only
      split
      · simp only [reqOf, Option.some.injEq, Prod.mk.injEq]
        intro hh; rw [← hh.1, ← hh.2]; exact ⟨by omega, rfl, hfin 0 (by omega)⟩
      · exact hstore _ _ _ _ _ _
    | none =>
      simp only
      split
      · simp [reqOf]
      · exact hstore _ _ _ _ _ _
  have hfound : ∀ lg, reqOf (crcvFound single cap junk lg r).2 = some (n, s) →
      n ≤ 0xFFFFF ∧ s = szx ∧ n * 2 ^ (s + 4) < 2 ^ 32 := by
    intro lg
    unfold crcvFound
    rw [hblk]
    dsimp only
    split
    · exact hblock lg
    · simp [reqOf]
  revert h
  unfold crcvStep
  cases st with
  | some lg => exact hfound lg
  | none =>
    rw [hblk]
    dsimp only
    split
    · simp [reqOf]
    · exact hfound {}

/-- every follow-up request along a run of the client's Block2 receive path -/
def crcvReqs (single : Bool) (cap : Nat) (junk : UInt8) : Option Crcv → List Resp → List (Nat × Nat)
  | _, [] => []
  | st, r :: rest =>
    (match reqOf (crcvStep single cap junk st r).2 with | some q => [q] | none => []) ++
      crcvReqs single cap junk (crcvStep single cap junk st r).1 rest

/-- ROUND R09d (fix 70f6ff3).  For EVERY sequence of 2.xx responses (any Block2 options `coap_get_block_b` accepts: NUM has
at most 20 bits, SZX ≤ 6 - hostile or not), from every state of the lg_crcv, in both delivery modes: every request
libcoap sends for a further block names a block number of at most 20 bits, in the block size of the response it
answers, at an offset below 2^32.  Before the fix a response with NUM 0xFFFFF and M set was answered with a request for
block 2^20 (Block2 = 0x1000000 | SZX, four bytes: unparseable). -/
theorem block2_next_request_20bit (single : Bool) (cap : Nat) (junk : UInt8) (rs : List Resp) :
    ∀ (st : Option Crcv), (∀ r, r ∈ rs → ∀ num m szx, r.blk = some (num, m, szx) → num ≤ 0xFFFFF ∧ szx ≤ 6) →
    ∀ q, q ∈ crcvReqs single cap junk st rs → q.1 ≤ 0xFFFFF ∧ q.2 ≤ 6 ∧ q.1 * 2 ^ (q.2 + 4) < 2 ^ 32 := by
  induction rs with
  | nil => intro st _ q hq; cases hq
  | cons r rest ih =>
    intro st hrs q hq
    unfold crcvReqs at hq
    rcases List.mem_append.mp hq with hq | hq
    · cases hreq : reqOf (crcvStep single cap junk st r).2 with
      | none => rw [hreq] at hq; cases hq
      | some q' =>
        rw [hreq] at hq
        have hqq : q = q' := by simpa using hq
        subst hqq
        cases hb : r.blk with
        | none =>
          exfalso
          revert hreq
          unfold crcvStep crcvFound
          rw [hb]
          cases st <;> simp [reqOf]
        | some b =>
          obtain ⟨num, m, szx⟩ := b
          obtain ⟨h1, h2⟩ := hrs r (List.mem_cons_self) num m szx hb
          obtain ⟨a, b, c⟩ := crcvStep_req single cap junk st r num m szx q.1 q.2 hb h1 h2 hreq
          exact ⟨a, by omega, c⟩
    · exact ih _ (fun r' hr' => hrs r' (List.mem_cons_of_mem _ hr')) q hq

/-- the hypothesis is satisfiable at the end of the number space, and the bound is attained: block 0xFFFFE with M set
is answered with a request for block 0xFFFFF; block 0xFFFFF with M set is refused (4.02), no request -/
example : crcvReqs false 6 0 (some {})
    [{ blk := some (0xFFFFE, 1, 0), payload := List.replicate 16 7 }, { blk := some (0xFFFFF, 1, 0), payload := List.replicate 16 7 }]
    = [(0xFFFFF, 0)] := by decide

example : (crcvStep true 6 0 (some {}) { blk := some (0xFFFFF, 1, 0), payload := List.replicate 16 7 }) = (none, CrcvOut.err402) := by
  decide

end Coap.C09
