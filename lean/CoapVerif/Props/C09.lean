import CoapVerif.Model.Block
import CoapVerif.Generated.BlockConst
namespace Coap.C09
theorem placeholder : True := trivial
end Coap.C09
