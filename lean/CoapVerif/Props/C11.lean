import CoapVerif.Lemmas.Observe
import CoapVerif.Lemmas.ObserveInv
import CoapVerif.Lemmas.ObserveRef
import CoapVerif.Lemmas.ObserveAbsent
import CoapVerif.Lemmas.ObserveWake
import CoapVerif.Lemmas.ObserveVer
import CoapVerif.Lemmas.ObserveStale
import CoapVerif.Lemmas.ObserveKey
import CoapVerif.Lemmas.ObserveCon
import CoapVerif.Lemmas.ObserveFrame
import CoapVerif.Lemmas.ObserveToken
/-
C11 — Observe: registered observers get fresh, ordered notifications until cancelled.
Property theorems about M (CoapVerif/Model/Observe.lean), which T2 ties to the compiled libcoap on every run.

SPEC DECISIONS
 D8   `every_sixth_con` is stated for resources without COAP_RESOURCE_FLAGS_NOTIFY_NON_ALWAYS.
 D13  the ordering clause is strict among the notifications a change gives rise to; the response to a (re-)registration
      request carries the counter's current value, i.e. it may repeat the number of the neighbouring notification exactly
      when no change was signalled in between (same number <=> same state).  RFC 7641 §4.4 read to the letter wants it
      greater; the oracle checks "equal only without an intervening change".
-/
namespace Coap.C11
open Coap.Observe Coap.Generated

/-! ### T1: the counter's successor function is the code's -/
theorem obsNext_matches_code : ∀ p ∈ obsNextSamples, setObserve p.1 = p.2.1 ∧ nextObserve p.2.1 = p.2.2 := by decide

theorem constants_in_range : obsMaxNon + 1 ≤ 6 ∧ obsMaxNon ≤ 255 ∧ 1 ≤ obsMaxFail ∧ obsMaxFail ≤ 1 ∧ 1 ≤ obsNstart := by decide

/-! ### re-registration replaces, never duplicates -/
/-- For ALL event sequences: no resource ever lists two entries of one session with the same token or the same cache key. -/
theorem reregistration_replaces (st : State) (evs : List Event) (h : NoDupSt st) :
    ∀ y ∈ (run st evs).1.res, (y.subs.map ident).Pairwise Distinct :=
  run_noDup evs st h

theorem reregistration_replaces_init (res : List Res) (stTicks : Nat) (evs : List Event) (h : ∀ y ∈ res, y.subs = []) :
    ∀ y ∈ (run (init res stTicks) evs).1.res, (y.subs.map ident).Pairwise Distinct := by
  apply reregistration_replaces
  intro y hy
  unfold NoDup
  rw [h y hy]
  exact List.Pairwise.nil

example : ∀ y ∈ [mkRes 0 false false 5, mkRes 1 true false 16777215], y.subs = [] := by decide

/-! ### ordering: 24-bit serial arithmetic (RFC 7641 §3.4, RFC 1982) -/
/-- `new` is fresher than `old` (without the 128 s escape clause) -/
def serialGt (new old : Nat) : Prop := (old < new ∧ new - old < 8388608) ∨ (new < old ∧ old - new > 8388608)

def changes : Nat → Nat → Nat
  | 0, o => o
  | k + 1, o => nextObserve (changes k o)

theorem changes_eq (k o : Nat) (ho : o < 16777216) : changes k o = (o + k) % 16777216 := by
  induction k with
  | zero => simp only [changes]; omega
  | succ k ih => simp only [changes, nextObserve, ih]; omega

/-- The counter after k effective changes, 0 < k < 2^23, is fresher (24-bit serial arithmetic) than the counter before —
    including across the wrap from 0xFFFFFF to 0.  Explicit hypothesis: fewer than 2^23 changes between the two values. -/
theorem observe_strictly_increasing (o k : Nat) (ho : o < 16777216) (hk : 0 < k) (hk' : k < 8388608) :
    serialGt (changes k o) o := by
  rw [changes_eq k o ho]
  unfold serialGt
  omega

example : serialGt (changes 3 16777214) 16777214 := observe_strictly_increasing _ _ (by decide) (by decide) (by decide)
example : changes 3 16777214 = 1 := by decide

/-- `coap_resource_notify_observers` on a resource with observers: counter := successor, dirty, context pending -/
theorem change_advances (st : State) (r : Nat) (x : Res) (hx : findRes st r = some x) (hs : x.subs.isEmpty = false) :
    (change st r).pending = true ∧
    (change st r).res = st.res.map (fun y => if y.id = r then { y with dirty := true, observe := nextObserve y.observe, ver := y.ver + 1 } else y) := by
  unfold change
  rw [hx]
  simp [hs, modRes, mapRes]

/-- a change without observers changes nothing (the counter only moves while somebody is listening) -/
theorem change_without_observers (st : State) (r : Nat) (x : Res) (hx : findRes st r = some x) (hs : x.subs.isEmpty = true) :
    change st r = st := by
  unfold change
  rw [hx]
  simp [hs]

/-! ### what one visit of the notify loop does -/
theorem sendNote_out (st : State) (c tok code : Nat) (obs : Option Nat) (isCon : Bool) (mid rid ver : Nat) :
    (sendNote st c tok code obs isCon mid rid ver).2 =
      { tag := .note, c := c, n := (st.notes c).length, token := tok, code := code, obs := obs,
        kind := if isCon then .con else .non, mid := mid, res := rid, ver := ver } := by
  unfold sendNote; split <;> rfl

/-- notification_per_observer, one visit: an entry that has something to be told (the resource changed, or its own
    notification was deferred) and is not back-pressured is sent 2.05 with ITS token, the counter's CURRENT value, and is
    clean afterwards. -/
theorem notification_per_observer (r : Res) (o : Sub) (st : State) (hd : r.dirty = true ∨ o.dirty = true)
    (hbp : backPressured st r o = false) (herr : r.err = false) :
    ∃ out o', (notifyOne false r o st).outs = [out] ∧ (notifyOne false r o st).sub = some o' ∧
      out.tag = .note ∧ out.c = o.sess ∧ out.token = o.token ∧ out.code = 69 ∧ out.obs = some r.observe ∧
      out.kind = (if wantCon r o then .con else .non) ∧
      o'.dirty = false ∧ o'.sess = o.sess ∧ o'.token = o.token ∧ o'.lastVer = some r.ver := by
  have h1 : (!r.dirty && !o.dirty) = false := by
    cases hd with
    | inl h => simp [h]
    | inr h => simp [h]
  unfold notifyOne
  simp only [h1, hbp, herr, Bool.false_eq_true, if_false]
  refine ⟨_, _, rfl, rfl, ?_⟩
  simp [sendNote_out]

/-- … and over the whole list: every entry of a changed, healthy resource is either sent such a notification or is
    back-pressured at its turn (then it stays dirty — see `latest_eventually_notified`). -/
theorem notification_per_observer_loop (r : Res) (hr : r.dirty = true) (herr : r.err = false) :
    ∀ (subs : List Sub) (st : State) (o : Sub), o ∈ subs →
      (∃ out ∈ (notifyLoop false r subs st).outs, out.tag = .note ∧ out.c = o.sess ∧ out.token = o.token ∧
          out.code = 69 ∧ out.obs = some r.observe) ∨
      (∃ st', backPressured st' r o = true)
  | [], _, _, h => by cases h
  | a :: rest, st, o, h => by
    unfold notifyLoop
    dsimp only
    cases h with
    | head =>
      by_cases hbp : backPressured st r a = true
      · exact Or.inr ⟨st, hbp⟩
      · obtain ⟨out, o', ho, _, h1, h2, h3, h4, h5, _⟩ :=
          notification_per_observer r a st (Or.inl hr) (by simpa using hbp) herr
        exact Or.inl ⟨out, by rw [ho]; simp, h1, h2, h3, h4, h5⟩
    | tail _ h' =>
      cases notification_per_observer_loop r hr herr rest (notifyOne false r a st).st o h' with
      | inl h =>
        obtain ⟨out, hm, hh⟩ := h
        exact Or.inl ⟨out, List.mem_append_right _ hm, hh⟩
      | inr h => exact Or.inr h

/-- latest_eventually_notified, the no-lost-wakeup half: a back-pressured entry is marked dirty, the resource partially
    dirty and the context pending — so the next I/O step visits it again; by `notification_per_observer` it is then told the
    counter's value of THAT moment (the latest state) as soon as the fairness hypothesis holds: the outstanding
    Confirmable was acknowledged or given up, i.e. `backPressured = false`. -/
theorem latest_eventually_notified (d : Bool) (r : Res) (o : Sub) (st : State) (hd : r.dirty = true ∨ o.dirty = true)
    (hbp : backPressured st r o = true) :
    (notifyOne d r o st).sub = some { o with dirty := true } ∧ (notifyOne d r o st).pd = true ∧
    (notifyOne d r o st).st.pending = true ∧ (notifyOne d r o st).outs = [] := by
  have h1 : (!r.dirty && !o.dirty) = false := by
    cases hd with
    | inl h => simp [h]
    | inr h => simp [h]
  unfold notifyOne
  simp [h1, hbp]

/-- an entry that was already told the current state is skipped: nothing is ever sent twice for one change -/
theorem clean_entry_skipped (d : Bool) (r : Res) (o : Sub) (st : State) (hr : r.dirty = false) (ho : o.dirty = false) :
    (notifyOne d r o st).outs = [] ∧ (notifyOne d r o st).sub = some o := by
  unfold notifyOne
  simp [hr, ho]

/-! ### at least every (COAP_OBS_MAX_NON + 1)-th notification is Confirmable (D8) -/
theorem wantCon_iff (r : Res) (o : Sub) : wantCon r o = true ↔ (r.fCon = true ∨ (r.fNonAlways = false ∧ obsMaxNon ≤ o.nonCnt)) := by
  unfold wantCon
  cases r.fCon <;> cases r.fNonAlways <;> simp [Nat.not_lt]

/-- the message types of the next notifications to one entry, as a function of its NON counter (resource without
    NOTIFY_CON / NOTIFY_NON_ALWAYS): Confirmable iff the counter reached COAP_OBS_MAX_NON -/
def cadence : Nat → Nat → List Bool
  | 0, _ => []
  | k + 1, n => if obsMaxNon ≤ n then true :: cadence k 0 else false :: cadence k (n + 1)

/-- every_sixth_con: among any COAP_OBS_MAX_NON + 1 consecutive notifications to one observer at least one is Confirmable,
    whatever the counter was at the start of the window. -/
theorem every_sixth_con (n : Nat) : true ∈ cadence (obsMaxNon + 1) n := by
  have gen : ∀ (j n : Nat), obsMaxNon ≤ n + j → true ∈ cadence (j + 1) n := by
    intro j
    induction j with
    | zero =>
      intro n h
      unfold cadence
      rw [if_pos (by omega)]
      exact List.mem_cons_self ..
    | succ j ih =>
      intro n h
      unfold cadence
      split
      · exact List.mem_cons_self ..
      · exact List.mem_cons_of_mem _ (ih (n + 1) (by omega))
  exact gen obsMaxNon n (by omega)

example : cadence 7 0 = [false, false, false, false, false, true, false] := by decide

/-! ### nothing is sent to an entry that is not listed -/
/-- every datagram the notify loop writes goes to the session and carries the token of an entry of the list it walks -/
theorem notes_only_to_listed (d : Bool) (r : Res) : ∀ (subs : List Sub) (st : State),
    ∀ out ∈ (notifyLoop d r subs st).outs, ∃ o ∈ subs, out.c = o.sess ∧ out.token = o.token
  | [], _, out, h => by simp [notifyLoop] at h
  | a :: rest, st, out, h => by
    unfold notifyLoop at h
    dsimp only at h
    rcases List.mem_append.mp h with h | h
    · refine ⟨a, List.mem_cons_self .., ?_⟩
      unfold notifyOne at h
      split at h
      · simp at h
      · split at h
        · simp at h
        · dsimp only at h
          split at h
          · simp [sendNote_out] at h; rw [h]; exact ⟨rfl, rfl⟩
          · split at h
            · simp [sendNote_out] at h; rw [h]; exact ⟨rfl, rfl⟩
            · simp [sendNote_out] at h; rw [h]; exact ⟨rfl, rfl⟩
    · obtain ⟨o, ho, hh⟩ := notes_only_to_listed d r rest _ out h
      exact ⟨o, List.mem_cons_of_mem _ ho, hh⟩

/-- no_notification_after_cancel — Observe=1 request, Reset, failed Confirmable notification, error response to a request:
    all four end in coap_delete_observer (`eraseP (matchST c tok)`), after which the list holds no entry of that session with
    that token (`reregistration_replaces` is what makes the first match the only one); by `notes_only_to_listed` nothing is
    sent under that token until it registers again. -/
theorem no_notification_after_cancel (c tok : Nat) : ∀ (l : List Sub), (l.map ident).Pairwise Distinct →
    ∀ s ∈ l.eraseP (matchST c tok), matchST c tok s = false
  | [], _, s, h => by simp at h
  | a :: t, hp, s, hs => by
    rw [List.map_cons, List.pairwise_cons] at hp
    by_cases hm : matchST c tok a = true
    · rw [List.eraseP_cons_of_pos hm] at hs
      have hd := hp.1 (ident s) (List.mem_map_of_mem hs)
      unfold matchST at hm ⊢
      simp at hm ⊢
      intro hc ht
      have := hd (by simp [ident, hm.1, hc])
      simp [ident] at this
      exact this.1 (by rw [hm.2, ht])
    · rw [List.eraseP_cons_of_neg hm] at hs
      cases hs with
      | head => simpa using hm
      | tail _ hs' => exact no_notification_after_cancel c tok t hp.2 s hs'

/-- … error response produced by the handler while notifying: the entry is dropped by that very visit -/
theorem no_notification_after_error_response (r : Res) (o : Sub) (st : State) (hd : r.dirty = true ∨ o.dirty = true)
    (hbp : backPressured st r o = false) (herr : r.err = true) :
    (notifyOne false r o st).sub = none ∧ ∀ out ∈ (notifyOne false r o st).outs, out.obs = none ∧ out.code = 132 := by
  have h1 : (!r.dirty && !o.dirty) = false := by
    cases hd with
    | inl h => simp [h]
    | inr h => simp [h]
  unfold notifyOne
  simp [h1, hbp, herr, sendNote_out]

/-- … session loss: no entry of that session is left in any resource -/
theorem no_notification_after_session_loss (st : State) (c : Nat) (s0 : Sess) (h : st.sess c = some s0) :
    ∀ y ∈ (sessionLost st c).res, ∀ s ∈ y.subs, s.sess ≠ c := by
  unfold sessionLost
  rw [h]
  intro y hy s hs
  simp only [modSess_res, mapRes] at hy
  obtain ⟨z, _, rfl⟩ := List.mem_map.mp hy
  simp at hs
  exact hs.2

/-- … resource deletion: the deleted resource lists nobody (what it sends while going down is 4.04 without Observe) -/
theorem no_notification_after_resource_deletion (st : State) (r : Nat) (x x1 : Res) (hx : findRes st r = some x)
    (hx1 : findRes (change st r) r = some x1) :
    ∀ y ∈ (deleteResource st r).1.res, y.id = r → y.subs = [] ∧ y.alive = false := by
  unfold deleteResource
  rw [hx]
  dsimp only
  rw [hx1]
  dsimp only
  intro y hy hid
  simp only [modRes, mapRes] at hy
  obtain ⟨z, _, rfl⟩ := List.mem_map.mp hy
  split
  · exact ⟨rfl, rfl⟩
  · rename_i hne
    split at hid
    · exact absurd hid hne
    · exact absurd hid hne

/-! ### the session stays alive while it has observers -/
/-- idle reclamation never frees a referenced session … -/
theorem reclaim_keeps_referenced (st : State) (c : Nat) (s : Sess) (h : st.sess c = some s) (href : 1 ≤ s.ref) :
    (reclaim st).sess c = some s := by
  unfold reclaim
  simp only [h]
  rw [if_neg (by omega)]

/-- … and a new entry takes a reference (coap_session_reference in coap_add_observer).
    FULL STATEMENT: for all event sequences, `ref c = #entries of c in all resources + #send-queue nodes of c`, hence ≥ 1 while
    an entry refers to the session, hence — by `reclaim_keeps_referenced` — the session object exists.  Now PROVED as a global
    invariant: `ref_eq_holders`, `session_alive_while_observed`, `idle_reclaim_keeps_observed` below (this local lemma is kept). -/
theorem session_alive_while_observed_partial (st : State) (r c tok key : Nat) (x : Res) (hx : findRes st r = some x)
    (hnew : x.subs.any (matchST c tok) = false) (hkey : x.subs.find? (matchSK c key) = none) :
    ((addObserver st r c tok key).sess c).map (·.ref) = some ((getSess st c).ref + 1) := by
  unfold addObserver
  rw [hx]
  simp [hnew, hkey, refInc, modSess, setSess, getSess, newMid, mapRes]

/-! ### open finding `rst_of_superseded_notification_ignored`
libcoap remembers only the message id of the LATEST notification per entry (`obs->pdu->mid`) besides the Confirmable
ones still in the send queue.  A Reset that names an earlier Non-confirmable notification (delayed past the next one) is
not attributed: the entry stays and notifications continue — against "after a Reset in reply to a notification no further
notification is sent".  Witness (decided on M, reproduced on the compiled code by corpus/C11/known.txt): -/
def supersededWitness : List Event :=
  [.reg 0 0 1 0 true 1, .chg 0, .adv 0, .chg 0, .adv 0, .rst 0 0, .chg 0, .adv 0]

/-- three notifications are written although the Reset of the first one arrived before the third change -/
example : ((run (init [mkRes 0 false false 0] 30000) supersededWitness).2.filter (fun o => o.tag == .note && o.code == 69)).length = 3 := by
  decide

/-- what IS proved about Resets: one that names an entry's latest notification (and no queued Confirmable) removes exactly
    that entry through coap_delete_observer (then `no_notification_after_cancel` applies).
    FULL STATEMENT (false for the current code, see the witness): "a Reset naming ANY notification sent to a registered
    entry under its current registration removes the entry". -/
theorem reset_of_notification_removes_partial (st : State) (c mid rid tok : Nat)
    (hq : (rxSession st c).sendq.find? (matchQ c mid) = none)
    (hm : findByMid (rxSession st c).res c mid = some (rid, tok)) :
    handleRst st c mid = deleteObserver (rxSession st c) rid c tok := by
  unfold handleRst
  dsimp only
  rw [hq]
  dsimp only
  rw [hm]

/-! ## GLOBAL statements: invariants over ALL event sequences (Lemmas/ObserveRun.lean, ObserveInv.lean, ObserveRef.lean) -/

/-! ### GLOBAL: ordering over whole runs -/
/-- two datagrams of a run address the same observation: same session, token and resource -/
def SameObs (a b : Out) : Prop := a.c = b.c ∧ a.token = b.token ∧ a.res = b.res

/-- the start value of a resource's counter, extrapolated back to version 0 -/
def baseOf (st : State) (rid : Nat) : Nat :=
  match st.res.find? (fun y => y.id == rid) with
  | some y => (y.observe + 16777216 - y.ver % 16777216) % 16777216
  | none => 0

theorem baseOf_spec (st : State) (hid : IdsNodup st) (hobs : ∀ y ∈ st.res, y.observe < 16777216) :
    ∀ y ∈ st.res, y.observe = (baseOf st y.id + y.ver) % 16777216 := by
  intro y hy
  unfold baseOf
  cases hf : st.res.find? (fun z => z.id == y.id) with
  | none =>
    have := List.find?_eq_none.mp hf y hy
    simp at this
  | some z =>
    have h1 := List.mem_of_find?_eq_some hf
    have h2 := List.find?_some hf
    simp at h2
    have : z = y := eq_of_id_eq hid h1 hy h2
    subst this
    dsimp only
    have := hobs z hy
    omega

theorem pair_of_filtered {l : List Out} {p : Out → Bool} {R : Out → Out → Prop} (h : (l.filter p).Pairwise R) {a b : Out}
    (hab : [a, b].Sublist l) (ha : p a = true) (hb : p b = true) : R a b := by
  have h1 := hab.filter p
  have h2 : [a, b].filter p = [a, b] := by simp [List.filter, ha, hb]
  rw [h2] at h1
  exact List.pairwise_iff_forall_sublist.mp h h1

/-- observe_strictly_increasing END TO END.  In EVERY run (any start state with distinct resource ids, no duplicate entries
    and 24-bit counters, any event sequence), of any two notifications (2.05, written by the notify loop) to the same
    (session, token, resource) the later one reports a strictly later state of the resource (`ver` = number of effective
    changes: between two notifications to one entry the resource counter HAS advanced), and its Observe value is greater in
    the 24-bit serial sense whenever fewer than 2^23 changes lie between the two — in particular between consecutive ones. -/
theorem observe_strictly_increasing_run (st : State) (evs : List Event) (hid : IdsNodup st) (hnd : NoDupSt st)
    (hobs : ∀ y ∈ st.res, y.observe < 16777216) :
    (run st evs).2.Pairwise (fun a b => isNotif a = true → isNotif b = true → SameObs a b →
      a.ver < b.ver ∧ ∀ x z, a.obs = some x → b.obs = some z → b.ver - a.ver < 8388608 → serialGt z x) := by
  rw [List.pairwise_iff_forall_sublist]
  intro a b hab hna hnb hso
  obtain ⟨hc, ht, hr⟩ := hso
  have hamem : a ∈ (run st evs).2 := hab.subset (List.mem_cons_self ..)
  have hbmem : b ∈ (run st evs).2 := hab.subset (List.mem_cons_of_mem _ (List.mem_cons_self ..))
  have hatag : a.tag = .note := by unfold isNotif at hna; simp at hna; exact hna.1
  have hbtag : b.tag = .note := by unfold isNotif at hnb; simp at hnb; exact hnb.1
  -- the resource they are about exists
  have hres : a.res ∈ resIds (run st evs).1 := by rw [run_ids]; exact run_notes evs st a hamem hatag
  obtain ⟨y, hy, hyid⟩ := List.mem_map.mp hres
  have hord := run_ordInv st evs hid hnd a.c a.token y hy
  have hval := run_valInv st evs hid (baseOf st) (baseOf_spec st hid hobs) y hy
  have hfa : fromRes y.id a = true := by simp [fromRes, hatag, hyid]
  have hfb : fromRes y.id b = true := by simp [fromRes, hbtag, hyid, ← hr]
  have hlt : a.ver < b.ver := by
    have hs := hord.sorted
    unfold notifsTo at hs
    rw [List.filter_filter, List.filter_filter] at hs
    refine pair_of_filtered hs hab ?_ ?_
    · simp [hna, hfa, toST]
    · simp [hnb, hfb, toST, ← hc, ← ht]
  refine ⟨hlt, ?_⟩
  intro x z hx hz hk
  have h1 := hval.outs a (List.mem_filter.mpr ⟨hamem, hfa⟩) hna
  have h2 := hval.outs b (List.mem_filter.mpr ⟨hbmem, hfb⟩) hnb
  rw [hx] at h1; rw [hz] at h2
  simp only [Option.some.injEq] at h1 h2
  rw [h1, h2]
  unfold serialGt
  omega


/-- (1) from an INITIAL state: no invariant hypothesis left -/
theorem observe_strictly_increasing_run_init (res : List Res) (stTicks : Nat) (evs : List Event)
    (hids : (res.map (·.id)).Nodup) (hsubs : ∀ y ∈ res, y.subs = []) (hobs : ∀ y ∈ res, y.observe < 16777216) :
    (run (init res stTicks) evs).2.Pairwise (fun a b => isNotif a = true → isNotif b = true → SameObs a b →
      a.ver < b.ver ∧ ∀ x z, a.obs = some x → b.obs = some z → b.ver - a.ver < 8388608 → serialGt z x) :=
  observe_strictly_increasing_run (init res stTicks) evs hids
    (by intro y hy; unfold NoDup; rw [hsubs y hy]; exact List.Pairwise.nil) hobs

example : ∀ y ∈ [mkRes 0 false false 16777214, mkRes 1 true false 4294967295], y.observe < 16777216 := by decide

/-! witness: the hypotheses are satisfiable and the statement bites — a run across the 24-bit wrap with a burst of changes -/
def runStart : State := init [mkRes 0 false false 16777214, mkRes 1 true false 7] 30000
def runEvents : List Event :=
  [.reg 0 0 1 0 true 1, .chg 0, .adv 0, .chg 0, .chg 0, .adv 0, .chg 0, .adv 0, .chg 0, .adv 0, .chg 0, .adv 0,
   .chg 0, .adv 0, .chg 0, .adv 0]
instance (st : State) : Decidable (IdsNodup st) := by unfold IdsNodup; exact inferInstance
instance (a b : Nat) : Decidable (serialGt a b) := by unfold serialGt; exact inferInstance
example : IdsNodup runStart := by decide
example : NoDupSt runStart := by
  intro y hy; unfold NoDup
  simp [runStart, init, mkRes] at hy
  rcases hy with rfl | rfl <;> exact List.Pairwise.nil
example : ∀ y ∈ runStart.res, y.observe < 16777216 := by decide
example : ((run runStart runEvents).2.filter fun o => isNotif o).map (fun o => (o.obs, o.ver)) =
    [(some 16777215, 1), (some 1, 3), (some 2, 4), (some 3, 5), (some 4, 6), (some 5, 7), (some 6, 8)] := by decide
example : serialGt 1 16777215 := by decide

/-- the version a resource has in a given state -/
def verOf (st : State) (rid : Nat) : Nat :=
  match st.res.find? (fun y => y.id == rid) with
  | some y => y.ver
  | none => 0

theorem verOf_spec (st : State) (hid : IdsNodup st) : ∀ y ∈ st.res, verOf st y.id = y.ver := by
  intro y hy
  unfold verOf
  cases hf : st.res.find? (fun z => z.id == y.id) with
  | none =>
    have := List.find?_eq_none.mp hf y hy
    simp at this
  | some z =>
    have h1 := List.mem_of_find?_eq_some hf
    have h2 := List.find?_some hf
    simp at h2
    rw [eq_of_id_eq hid h1 hy h2]

/-- observe_strictly_increasing end to end, with the hypothesis on the EVENTS: in a run with fewer than 2^23 change-signalling
    events (`chg`, `del`) — a fortiori between any two notifications — of any two notifications to the same (session, token,
    resource) the later one carries the serially greater Observe value.  No ghost quantity in the statement. -/
theorem observe_strictly_increasing_run_events (st : State) (evs : List Event) (hid : IdsNodup st) (hnd : NoDupSt st)
    (hobs : ∀ y ∈ st.res, y.observe < 16777216) (hfew : chgTotal evs < 8388608) :
    (run st evs).2.Pairwise (fun a b => isNotif a = true → isNotif b = true → SameObs a b →
      ∀ x z, a.obs = some x → b.obs = some z → serialGt z x) := by
  refine List.Pairwise.imp_of_mem ?_ (observe_strictly_increasing_run st evs hid hnd hobs)
  intro a b hamem hbmem hR hna hnb hso x z hx hz
  obtain ⟨hlt, hser⟩ := hR hna hnb hso
  refine hser x z hx hz ?_
  -- the resource the two notifications are about, at the end and at the start of the run
  have hbtag : b.tag = .note := by unfold isNotif at hnb; simp at hnb; exact hnb.1
  have hatag : a.tag = .note := by unfold isNotif at hna; simp at hna; exact hna.1
  have hres : b.res ∈ resIds (run st evs).1 := by rw [run_ids]; exact run_notes evs st b hbmem hbtag
  obtain ⟨y, hy, hyid⟩ := List.mem_map.mp hres
  obtain ⟨y0, hy0, hid0, hv0⟩ := All2.exists_right (run_verLe evs st hid) y hy
  have hfb : fromRes y.id b = true := by simp [fromRes, hbtag, hyid]
  have hfa : fromRes y.id a = true := by simp [fromRes, hatag, hyid, hso.2.2]
  -- upper bound for b
  have hord := run_ordInv st evs hid hnd b.c b.token y hy
  have hbin : b ∈ notifsTo b.c b.token ((run st evs).2.filter (fromRes y.id)) := by
    unfold notifsTo
    rw [List.mem_filter, List.mem_filter, List.mem_filter]
    exact ⟨⟨⟨hbmem, hfb⟩, by simp [toST]⟩, hnb⟩
  have hub := (hord.bound b hbin).1
  -- lower bound for a
  have hlow := run_lowInv st evs hid (verOf st) (fun z hz => by rw [verOf_spec st hid z hz]; exact Nat.le_refl _) y hy
  have hlb := hlow.outs a (List.mem_filter.mpr ⟨hamem, hfa⟩) hna
  rw [hid0, verOf_spec st hid y0 hy0] at hlb
  omega

example : chgTotal runEvents = 8 := by decide

/-- the 2.05 notifications of a run to observation (session c, token tok) of resource rid, in order -/
def notificationsTo (rid c tok : Nat) (outs : List Out) : List Out := notifsTo c tok (outs.filter (fromRes rid))

/-- every_sixth_con OVER WHOLE RUNS.  From any state with distinct resource ids, a resource `rid` without NOTIFY_NON_ALWAYS (D8),
    no duplicate entries and NON counters in range (all invariants of every run: `run_idsNodup`, `reregistration_replaces`,
    `nonCnt_in_range`), over ANY event sequence in which (c, tok) does not register anew on rid — i.e. within one registration
    epoch of the entry — every window of COAP_OBS_MAX_NON + 1 consecutive notifications to that entry contains a Confirmable
    one. -/
theorem every_sixth_con_run (st : State) (evs : List Event) (rid c tok : Nat) (hid : IdsNodup st)
    (h0 : ∀ y ∈ st.res, y.id = rid → NoDup y ∧ y.fNonAlways = false ∧ NonCntOk y)
    (hepoch : ∀ e ∈ evs, ¬ RegEv e rid c tok) :
    ∀ pre w post, (notificationsTo rid c tok (run st evs).2).map isConOut = pre ++ w ++ post → w.length = obsMaxNon + 1 →
      true ∈ w := by
  intro pre w post heq hl
  by_cases hex : ∃ y ∈ (run st evs).1.res, y.id = rid
  · obtain ⟨y, hy, hyid⟩ := hex
    have := (run_cadInv st evs hid rid c tok hepoch h0 y hy hyid).window
    unfold kindsTo at this
    rw [hyid] at this
    unfold notificationsTo at heq
    rw [heq] at this
    exact windowOk_window pre w post 0 this hl
  · -- no such resource: nothing is ever written about it
    exfalso
    have hnil : notificationsTo rid c tok (run st evs).2 = [] := by
      unfold notificationsTo notifsTo
      rw [List.filter_filter, List.filter_filter, List.filter_eq_nil_iff]
      intro a ha hp
      simp [isNotif, fromRes] at hp
      have := run_notes evs st a ha hp.1.1.1
      rw [← run_ids st evs] at this
      obtain ⟨y, hy, hyid⟩ := List.mem_map.mp this
      exact hex ⟨y, hy, hyid.trans hp.2.2⟩
    rw [hnil] at heq
    have : w = [] := by
      have h1 := congrArg List.length heq
      simp at h1
      exact List.eq_nil_of_length_eq_zero (by omega)
    subst this
    simp at hl

/-- the range of the NON counter is an invariant of every run -/
theorem nonCnt_in_range (st : State) (evs : List Event) (hid : IdsNodup st) (h : ∀ y ∈ st.res, NonCntOk y) :
    ∀ y ∈ (run st evs).1.res, NonCntOk y := run_nonCntOk st evs hid h


example : ∀ y ∈ runStart.res, y.id = 0 → NoDup y ∧ y.fNonAlways = false ∧ NonCntOk y := by
  intro y hy hid
  simp [runStart, init, mkRes] at hy
  rcases hy with rfl | rfl
  · exact ⟨List.Pairwise.nil, rfl, fun o ho => by cases ho⟩
  · cases hid
example : ∀ e ∈ runEvents.tail, ¬ RegEv e 0 0 1 := by
  intro e he ⟨key, con, mid, h⟩
  subst h
  simp [runEvents] at he
example : (notificationsTo 0 0 1 (run runStart runEvents).2).map isConOut = [false, false, false, false, false, true, false] := by decide

/-- every_sixth_con from an INITIAL state, no invariant hypothesis left: after any prefix `pre`, over any continuation `evs`
    within one registration epoch of (c, tok) on rid -/
theorem every_sixth_con_run_init (res : List Res) (stTicks : Nat) (pre evs : List Event) (rid c tok : Nat)
    (hids : (res.map (·.id)).Nodup) (hsubs : ∀ y ∈ res, y.subs = []) (hflag : ∀ y ∈ res, y.id = rid → y.fNonAlways = false)
    (hepoch : ∀ e ∈ evs, ¬ RegEv e rid c tok) :
    ∀ p w q, (notificationsTo rid c tok (run (run (init res stTicks) pre).1 evs).2).map isConOut = p ++ w ++ q →
      w.length = obsMaxNon + 1 → true ∈ w := by
  have hid0 : IdsNodup (init res stTicks) := hids
  have hnd0 : NoDupSt (init res stTicks) := by
    intro y hy; unfold NoDup; rw [hsubs y hy]; exact List.Pairwise.nil
  have hflags : ∀ y ∈ (run (init res stTicks) pre).1.res, y.id = rid → y.fNonAlways = false := by
    have := run_resInv (Q := fun y _ => y.id = rid → y.fNonAlways = false) (fun _ => True)
      (fun e _ y o y' _ hq hm hy' => by rw [hm.fixed.2.2]; exact hq (hm.fixed.1 ▸ hy'))
      pre (init res stTicks) [] hid0 (fun _ _ => trivial) (fun y hy => hflag y hy)
    exact this
  refine every_sixth_con_run _ evs rid c tok (run_idsNodup _ pre hid0) ?_ hepoch
  intro y hy hyid
  exact ⟨run_noDup pre _ hnd0 y hy, hflags y hy hyid,
    run_nonCntOk _ pre hid0 (fun z hz o ho => by rw [hsubs z hz] at ho; cases ho) y hy⟩

example : ∀ e ∈ ([.chg 0, .adv 0, .chg 0, .adv 0] : List Event), ¬ RegEv e 0 0 1 := by
  intro e he ⟨key, con, mid, h⟩
  subst h
  simp at he

/-! ### GLOBAL: the session stays alive while it has observers -/
/-- session_alive_while_observed, FULL: `ref(session) = #observer entries of it in all resources + #its queued nodes` (application
    references are 0 in M) is an invariant of EVERY run from any state with distinct resource ids in which it holds (e.g. `init`
    with empty subscriber lists, `ref_eq_holders_init`). -/
theorem ref_eq_holders (st : State) (evs : List Event) (hid : IdsNodup st) (h : RefInv st) :
    ∀ c, (getSess (run st evs).1 c).ref = entriesOf (run st evs).1 c + nodesOf (run st evs).1 c :=
  run_refInv st evs hid h

theorem ref_eq_holders_init (res : List Res) (stTicks : Nat) (hs : ∀ y ∈ res, y.subs = []) (hn : (res.map (·.id)).Nodup)
    (evs : List Event) : RefInv (run (init res stTicks) evs).1 :=
  run_refInv _ evs hn (init_refInv res stTicks hs)

/-- … hence in every reachable state the session object of every listed observer exists and is referenced (ref ≥ 1) … -/
theorem session_alive_while_observed (st : State) (evs : List Event) (hid : IdsNodup st) (h : RefInv st) :
    ∀ y ∈ (run st evs).1.res, ∀ o ∈ y.subs, ∃ s, (run st evs).1.sess o.sess = some s ∧ 1 ≤ s.ref :=
  Coap.Observe.session_alive_while_observed st evs hid h

/-- … likewise while a Confirmable notification to it is still queued for retransmission … -/
theorem session_alive_while_queued (st : State) (evs : List Event) (hid : IdsNodup st) (h : RefInv st) :
    ∀ q ∈ (run st evs).1.sendq, ∃ s, (run st evs).1.sess q.sess = some s ∧ 1 ≤ s.ref :=
  Coap.Observe.session_alive_while_queued st evs hid h

/-- … and the idle reclaim of coap_io_prepare_io never frees it, in any reachable state. -/
theorem idle_reclaim_keeps_observed (st : State) (evs : List Event) (hid : IdsNodup st) (h : RefInv st) :
    ∀ y ∈ (run st evs).1.res, ∀ o ∈ y.subs, (reclaim (run st evs).1).sess o.sess = (run st evs).1.sess o.sess :=
  reclaim_keeps_observed _ (run_refInv st evs hid h)

example : RefInv runStart := init_refInv _ _ (by decide)
example : (getSess (run runStart runEvents).1 0).ref = 2 ∧ entriesOf (run runStart runEvents).1 0 = 1 ∧
    nodesOf (run runStart runEvents).1 0 = 1 := by decide

/-! ### GLOBAL: after deregistration no further notification — run level, one theorem per cause
`NoteTo out r c tok`: `out` is a datagram written by the notify loop (tag `.note`, ANY code) to (session c, token tok) about
resource r.  `isRegOf e c r tok`: the event is a registration request (Observe = 0) of (c, tok) on r.  `Absent st r c tok`:
no alive resource with id r lists (c, tok).  Retransmissions (tag `.rtx`) of a Confirmable notification written BEFORE the
deregistration are not new notifications; coap_delete_observer does not cancel them (see Lemmas/ObserveAbsent.lean). -/

/-- the engine, for ALL states and event sequences: while (c, tok) is not listed on r and does not register anew, nothing is
    written to it and it stays unlisted -/
theorem no_notification_while_absent (st : State) (evs : List Event) (r c tok : Nat) (h : Absent st r c tok)
    (hne : ∀ e ∈ evs, ¬ isRegOf e c r tok) :
    Absent (run st evs).1 r c tok ∧ ∀ out ∈ (run st evs).2, ¬ NoteTo out r c tok :=
  Coap.Observe.no_notification_while_absent st evs r c tok h hne

/-- cause 1, Observe = 1 request: from the cancel request on (its own I/O step included) and over any continuation without a
    new registration of (c, tok) on r, no notification to (c, tok) about r -/
theorem no_notification_after_cancel_run (st : State) (c r tok key : Nat) (con : Bool) (mid : Nat) (evs : List Event)
    (hid : IdsNodup st) (hnd : NoDupSt st) (hne : ∀ e ∈ evs, ¬ isRegOf e c r tok) :
    ∀ out ∈ (run st (.can c r tok key con mid :: evs)).2, ¬ NoteTo out r c tok :=
  no_notification_after_cancel_request_run st c r tok key con mid evs hid hnd hne

/-- cause 2, Reset in reply to a notification — PARTIAL: the Reset names (i) a Confirmable notification still in the send queue
    (then the token is removed from EVERY resource: coap_cancel) or (ii) the LATEST notification of an entry (`obs->pdu->mid`).
    FULL STATEMENT (false for the pinned code, open finding rst_of_superseded_notification_ignored, witness
    `supersededWitness`): "… names ANY notification sent to the entry under its current registration". -/
theorem no_notification_after_reset_run_partial (st : State) (c n : Nat) (nt : Note) (evs : List Event)
    (hid : IdsNodup st) (hnd : NoDupSt st) (hl : lookupNote st c n = some nt) :
    (∀ q, (rxSession st c).sendq.find? (matchQ c nt.mid) = some q →
        ∀ r', (∀ e ∈ evs, ¬ isRegOf e c r' q.token) →
          ∀ out ∈ (run st (.rst c n :: evs)).2, ¬ NoteTo out r' c q.token) ∧
    (∀ rid tok, (rxSession st c).sendq.find? (matchQ c nt.mid) = none →
        findByMid (rxSession st c).res c nt.mid = some (rid, tok) →
        (∀ e ∈ evs, ¬ isRegOf e c rid tok) →
          ∀ out ∈ (run st (.rst c n :: evs)).2, ¬ NoteTo out rid c tok) :=
  Coap.Observe.no_notification_after_reset_run_partial st c n nt evs hid hnd hl

/-- cause 3, failed Confirmable notification: the I/O step `adv ms` in which the retransmission loop gives up on node q
    (`GivenUp`: q is popped with its retransmission count exhausted) removes (q.sess, q.token) from every resource
    (COAP_OBS_MAX_FAIL = 1 as extracted; `FailZero`: fail counters are 0 between steps — an invariant, `run_failZero`) -/
theorem no_notification_after_failed_notify_run (st : State) (ms : Nat) (q : QNode) (evs : List Event)
    (hid : IdsNodup st) (hnd : NoDupSt st) (hfz : FailZero st)
    (hg : GivenUp ((checkNotify { st with now := st.now + ms }).1.sendq.length + 1) (checkNotify { st with now := st.now + ms }).1 q)
    (r' : Nat) (hne : ∀ e ∈ evs, ¬ isRegOf e q.sess r' q.token) :
    ∀ out ∈ (run (step st (.adv ms)).1 evs).2, ¬ NoteTo out r' q.sess q.token :=
  no_notification_after_failed_notify_adv_run st ms q evs hid hnd hfz hg r' hne

/-- cause 4a, error response to the (re-)registration request itself (read off the response: 4.04) -/
theorem no_notification_after_error_response_run (st : State) (c r tok key : Nat) (con : Bool) (mid : Nat) (out : Out)
    (evs : List Event) (hid : IdsNodup st) (hnd : NoDupSt st) (ho : out ∈ (step st (.reg c r tok key con mid)).2)
    (htag : out.tag = .resp) (hcode : out.code = 132) (hne : ∀ e ∈ evs, ¬ isRegOf e c r tok) :
    ∀ out' ∈ (run st (.reg c r tok key con mid :: evs)).2, ¬ NoteTo out' r c tok :=
  no_notification_after_error_response_output_run st c r tok key con mid out evs hid hnd ho htag hcode hne

/-- cause 4b, error response produced by the handler while notifying: whatever event's I/O step wrote a 4.04 "notification" to
    (c, tok) about r, that was the last datagram of the notify loop to it -/
theorem no_notification_after_error_notification_run (st : State) (e : Event) (evs : List Event) (r c tok : Nat) (out : Out)
    (hid : IdsNodup st) (hnd : NoDupSt st) (ho : out ∈ (step st e).2) (hn : NoteTo out r c tok) (hcode : out.code = 132)
    (hne : ∀ e ∈ evs, ¬ isRegOf e c r tok) :
    ∀ out' ∈ (run (step st e).1 evs).2, ¬ NoteTo out' r c tok :=
  Coap.Observe.no_notification_after_error_notification_run st e evs r c tok out hid hnd ho hn hcode hne

/-- cause 5, session loss: for every resource and token of that session -/
theorem no_notification_after_session_loss_run (st : State) (c : Nat) (s0 : Sess) (evs : List Event)
    (h : st.sess c = some s0) (r tok : Nat) (hne : ∀ e ∈ evs, ¬ isRegOf e c r tok) :
    ∀ out ∈ (run st (.lost c :: evs)).2, ¬ NoteTo out r c tok :=
  Coap.Observe.no_notification_after_session_loss_run st c s0 evs h r tok hne

theorem sum_eq_zero_mem : ∀ (l : List Nat), l.sum = 0 → ∀ x ∈ l, x = 0
  | [], _, x, hx => by cases hx
  | a :: t, h, x, hx => by
    simp only [List.sum_cons] at h
    cases hx with
    | head => omega
    | tail _ hx' => exact sum_eq_zero_mem t (by omega) x hx'

/-- under the reference-count invariant a session the server holds no object for has no observer entries -/
theorem no_entries_without_session (st : State) (h : RefInv st) (c : Nat) (hc : st.sess c = none) :
    ∀ y ∈ st.res, ∀ s ∈ y.subs, s.sess ≠ c := by
  have h1 := h c
  have h2 : (getSess st c).ref = 0 := by unfold getSess; rw [hc]; rfl
  have h3 : entriesOf st c = 0 := by omega
  intro y hy s hs heq
  unfold entriesOf at h3
  have := sum_eq_zero_mem _ h3 _ (List.mem_map_of_mem (f := fun x => (x.subs.filter fun s => s.sess == c).length) hy)
  have hmem : s ∈ y.subs.filter fun s => s.sess == c := List.mem_filter.mpr ⟨hs, by simp [heq]⟩
  have : (y.subs.filter fun s => s.sess == c) = [] := List.eq_nil_of_length_eq_zero this
  rw [this] at hmem; cases hmem

/-- cause 5 without the side condition "the server still holds the session object": in every reachable state (RefInv) -/
theorem no_notification_after_session_loss_run_any (st : State) (c : Nat) (evs : List Event) (h : RefInv st) (r tok : Nat)
    (hne : ∀ e ∈ evs, ¬ isRegOf e c r tok) :
    ∀ out ∈ (run st (.lost c :: evs)).2, ¬ NoteTo out r c tok := by
  cases hc : st.sess c with
  | some s0 => exact no_notification_after_session_loss_run st c s0 evs hc r tok hne
  | none =>
    have habs : Absent st r c tok := by
      intro y hy _ _ s hs
      have := no_entries_without_session st h c hc y hy s hs
      unfold matchST
      simp [this]
    refine (no_notification_while_absent st (.lost c :: evs) r c tok habs ?_).2
    intro e he
    cases he with
    | head => intro hh; simp [isRegOf, isRegOfB] at hh
    | tail _ he' => exact hne e he'

example : ∀ out ∈ (run (run runStart [.reg 0 0 1 0 true 1, .chg 0, .adv 0]).1 [.lost 0, .chg 0, .adv 0, .adv 40000, .lost 0, .chg 0, .adv 0]).2,
    ¬ NoteTo out 0 0 1 :=
  no_notification_after_session_loss_run_any _ 0 _ (run_refInv _ _ (by decide) (init_refInv _ _ (by decide))) 0 1 (by decide)

/-- cause 6, resource deletion: after the `.del` step (which writes the 4.04 goodbyes, `goodbye_on_resource_deletion`) nothing
    is ever written about r again — for every session and token, over ANY continuation, registration attempts included -/
theorem no_notification_after_resource_deletion_run (st : State) (r : Nat) (evs : List Event) :
    ∀ c tok, ∀ out ∈ (run (step st (.del r)).1 evs).2, ¬ NoteTo out r c tok :=
  Coap.Observe.no_notification_after_resource_deletion_run st r evs

/-- the well-formedness hypotheses used above are invariants of every run from an initial state -/
theorem deregistration_invariants_init (res : List Res) (stTicks : Nat) (evs : List Event) (hids : (res.map (·.id)).Nodup)
    (hsubs : ∀ y ∈ res, y.subs = []) :
    IdsNodup (run (init res stTicks) evs).1 ∧ NoDupSt (run (init res stTicks) evs).1 ∧ FailZero (run (init res stTicks) evs).1 :=
  invariants_of_init res stTicks evs hids hsubs

/-- witness: notified before the cancel, never after it — until it registers again -/
example : ∃ out ∈ (run runStart [.reg 0 0 1 0 true 1, .chg 0, .adv 0]).2, NoteTo out 0 0 1 := by decide
example : ∀ out ∈ (run (run runStart [.reg 0 0 1 0 true 1, .chg 0, .adv 0]).1 [.can 0 0 1 0 true 2, .chg 0, .adv 0, .chg 0, .adv 0]).2,
    ¬ NoteTo out 0 0 1 :=
  no_notification_after_cancel_run _ 0 0 1 0 true 2 _ (run_idsNodup _ _ (by decide))
    (run_noDup _ _ (by intro y hy; unfold NoDup; simp [runStart, init, mkRes] at hy; rcases hy with rfl | rfl <;> exact List.Pairwise.nil))
    (by decide)
example : ∃ out ∈ (run (run runStart [.reg 0 0 1 0 true 1, .chg 0, .adv 0]).1
    [.can 0 0 1 0 true 2, .reg 0 0 1 0 true 3, .chg 0, .adv 0]).2, NoteTo out 0 0 1 := by decide


/-! ### GLOBAL: the last state is always eventually notified
Three run-level statements: (a) no lost wake-up — an entry that has not been told the resource's current state (resource dirty
or entry dirty) keeps `observe_pending` and the resource's dirty/partiallydirty flag set, in EVERY reachable state, so every
later I/O step walks it; (b) an entry that is NOT stale has been sent the resource's current state (by a notification or by the
2.05 response to its registration); (c) under the explicit fairness hypothesis — when the walk reaches the entry it is not
back-pressured, i.e. its session has fewer than NSTART Confirmables in flight (they were acknowledged or given up) or the
notification may go Non-confirmable — the I/O step writes the notification carrying the then-current (latest) state. -/

/-- (a) no lost wake-up, for ALL event sequences -/
theorem stale_entry_keeps_wakeup (st : State) (evs : List Event) (hid : IdsNodup st) (h : Wake st) :
    ∀ y ∈ (run st evs).1.res, y.alive = true → ∀ o ∈ y.subs, (y.dirty = true ∨ o.dirty = true) →
      (run st evs).1.pending = true ∧ (y.dirty = true ∨ y.pdirty = true) := by
  obtain ⟨hw, hpd⟩ := run_wake st evs hid h
  intro y hy hal o ho hst
  refine ⟨hw ⟨y, hy, ?_⟩, ?_⟩
  · rcases hst with hst | hst
    · exact Or.inl hst
    · exact Or.inr ⟨hal, o, ho, hst⟩
  · rcases hst with hst | hst
    · exact Or.inl hst
    · exact Or.inr (hpd y hy o ho hst)

/-- (b) for ALL event sequences: an entry that is not stale holds the latest state — some datagram of the run told it the
    resource's current Observe value and version -/
theorem clean_entry_holds_latest (st : State) (evs : List Event) (hid : IdsNodup st) (h0 : ∀ y ∈ st.res, LiveInv y []) :
    ∀ y ∈ (run st evs).1.res, y.alive = true → y.dirty = false → ∀ o ∈ y.subs, o.dirty = false →
      ∃ a ∈ (run st evs).2, a.res = y.id ∧ Told a o.sess o.token y.observe y.ver := by
  intro y hy hal hd o ho hod
  obtain ⟨a, ha, hta⟩ := (run_liveInv st evs hid h0 y hy).told hal hd o ho hod
  obtain ⟨ha1, ha2⟩ := List.mem_filter.mp ha
  refine ⟨a, ha1, ?_, hta⟩
  simp [fromRes] at ha2
  exact ha2.2

/-- (c) latest_eventually_notified at RUN level under the explicit fairness hypothesis `hfair`: after any run, if the I/O loop
    runs (`adv ms`) and entry `o` of the alive, healthy resource `y` is stale and not back-pressured at its turn, the run's
    output gains the notification to (o.sess, o.token) carrying y's CURRENT Observe value and version. -/
theorem latest_eventually_notified_run (st0 : State) (evs : List Event) (ms : Nat) (hid : IdsNodup st0) (hw : Wake st0)
    (pre post : List Res) (y : Res) (spre spost : List Sub) (o : Sub)
    (hres : (run st0 evs).1.res = pre ++ y :: post) (hsubs : y.subs = spre ++ o :: spost)
    (hal : y.alive = true) (herr : y.err = false) (hst : y.dirty = true ∨ o.dirty = true)
    (hfair : backPressured (turnState { (run st0 evs).1 with now := (run st0 evs).1.now + ms } pre y spre) y o = false) :
    ∃ out ∈ (run st0 (evs ++ [.adv ms])).2, out.tag = .note ∧ out.c = o.sess ∧ out.token = o.token ∧ out.res = y.id ∧
      out.code = 69 ∧ out.obs = some y.observe ∧ out.ver = y.ver := by
  have hy : y ∈ (run st0 evs).1.res := by rw [hres]; simp
  have ho : o ∈ y.subs := by rw [hsubs]; simp
  obtain ⟨hp, hwalk⟩ := stale_entry_keeps_wakeup st0 evs hid hw y hy hal o ho hst
  obtain ⟨out, o', hout, _, h1, h2, h3, h4, h5, _⟩ :=
    notification_per_observer y o (turnState { (run st0 evs).1 with now := (run st0 evs).1.now + ms } pre y spre) hst hfair herr
  have hmem := io_outs_of_turn { (run st0 evs).1 with now := (run st0 evs).1.now + ms } pre post y spre spost o hres hsubs hp hal hwalk
    out (by rw [hout]; simp)
  refine ⟨out, ?_, h1, h2, h3, ?_, h4, h5, ?_⟩
  · rw [run_append]
    apply List.mem_append_right
    simp only [run_cons, run_nil, List.append_nil]
    exact hmem
  · have := (notifyOne_visit false y o (turnState { (run st0 evs).1 with now := (run st0 evs).1.now + ms } pre y spre)).out_fields out
      (by rw [hout]; simp)
    exact this.2.2.2.1
  · have := (notifyOne_visit false y o (turnState { (run st0 evs).1 with now := (run st0 evs).1.now + ms } pre y spre)).out_fields out
      (by rw [hout]; simp)
    exact this.2.2.2.2

/-- the fairness hypothesis is met whenever the session has fewer than NSTART Confirmables in flight at that moment … -/
theorem fair_when_acknowledged (st : State) (y : Res) (o : Sub) (h : (getSess st o.sess).conActive < obsNstart) :
    backPressured st y o = false := by
  unfold backPressured
  simp [Nat.not_le.mpr h]

/-- … and always for an entry whose next notification may go Non-confirmable -/
theorem fair_when_non (st : State) (y : Res) (o : Sub) (h1 : y.fCon = false) (h2 : o.nonCnt < obsMaxNon) :
    backPressured st y o = false := by
  unfold backPressured
  simp [h1, Nat.not_le.mpr h2]

/-- the wake-up invariant and `LiveInv` hold initially -/
theorem wake_holds_initially (res : List Res) (stTicks : Nat) (h : ∀ y ∈ res, y.subs = [] ∧ y.dirty = false) :
    Wake (init res stTicks) ∧ ∀ y ∈ (init res stTicks).res, LiveInv y [] :=
  ⟨wake_init res stTicks h, liveInv_init res (fun y hy => (h y hy).1)⟩

/-- witness: NOTIFY_CON resource 1, second change while the first Confirmable is in flight → the entry is deferred (stale, flags
    set); after the ACK the I/O step tells it the latest value -/
def lateEvents : List Event := [.reg 0 1 2 0 true 1, .chg 1, .adv 0, .chg 1, .adv 0]
example : ∀ y ∈ [mkRes 0 false false 16777214, mkRes 1 true false 7], y.subs = [] ∧ y.dirty = false := by decide
example : ((run runStart lateEvents).1.res.map fun y => (y.dirty, y.pdirty, y.subs.map (·.dirty))) = [(false, false, []), (false, true, [true])] ∧
    (run runStart lateEvents).1.pending = true := by decide
/-- … and an instance of (c): a burst of two changes, then the I/O step -/
def lateSt : State := (run runStart [.reg 0 0 1 0 true 1, .chg 0, .chg 0]).1
def lateY : Res := lateSt.res.getD 0 (mkRes 9 false false 0)
def lateO : Sub := lateY.subs.getD 0 { sess := 9, token := 9, key := 9, nonCnt := 0, failCnt := 0, dirty := false, mid := 0, lastVer := none }
example : lateSt.res = [] ++ lateY :: [lateSt.res.getD 1 (mkRes 9 false false 0)] ∧ lateY.subs = [] ++ lateO :: [] ∧
    lateY.alive = true ∧ lateY.err = false ∧ lateY.dirty = true := by decide
example : backPressured (turnState { lateSt with now := lateSt.now + 0 } [] lateY []) lateY lateO = false := by decide
example : ((run runStart ([.reg 0 0 1 0 true 1, .chg 0, .chg 0] ++ [.adv 0])).2.filter fun o => isNotif o).map (fun o => (o.obs, o.ver)) =
    [(some 0, 2)] := by decide
example : ((run runStart (lateEvents ++ [.ack 0 1000] ++ [.adv 0])).2.filter fun o => isNotif o).map (fun o => (o.obs, o.ver)) =
    [(some 8, 1), (some 9, 2)] := by decide



/-- the fairness hypothesis discharged from the state BEFORE the I/O step: fewer than NSTART Confirmables of the session in flight
    (every earlier one acknowledged or given up) and `o` the first stale entry of its session in walk order -/
theorem fair_when_first_stale (st : State) (pre : List Res) (y : Res) (spre : List Sub) (o : Sub)
    (hcon : (getSess st o.sess).conActive < obsNstart)
    (hpre : ∀ y1 ∈ pre, y1.alive = true → ∀ o1 ∈ y1.subs, o1.sess = o.sess → y1.dirty = false ∧ o1.dirty = false)
    (hspre : ∀ o1 ∈ spre, o1.sess = o.sess → y.dirty = false ∧ o1.dirty = false) :
    backPressured (turnState st pre y spre) y o = false :=
  first_stale_entry_not_backPressured st pre y spre o hcon hpre hspre

/-- latest_eventually_notified, run level, fairness stated on the reachable state itself: after ANY run, for every session with
    fewer than NSTART Confirmables in flight, the I/O step tells the first stale entry of that session (in walk order, alive
    healthy resource) the resource's latest state.  (So with every Confirmable eventually acknowledged or given up, each
    ACK + I/O round serves one more stale entry of the session until none is left; NON-eligible entries are served at once:
    `fair_when_non`.) -/
theorem latest_eventually_notified_first_stale (st0 : State) (evs : List Event) (ms : Nat) (hid : IdsNodup st0) (hw : Wake st0)
    (pre post : List Res) (y : Res) (spre spost : List Sub) (o : Sub)
    (hres : (run st0 evs).1.res = pre ++ y :: post) (hsubs : y.subs = spre ++ o :: spost)
    (hal : y.alive = true) (herr : y.err = false) (hst : y.dirty = true ∨ o.dirty = true)
    (hcon : (getSess (run st0 evs).1 o.sess).conActive < obsNstart)
    (hpre : ∀ y1 ∈ pre, y1.alive = true → ∀ o1 ∈ y1.subs, o1.sess = o.sess → y1.dirty = false ∧ o1.dirty = false)
    (hspre : ∀ o1 ∈ spre, o1.sess = o.sess → y.dirty = false ∧ o1.dirty = false) :
    ∃ out ∈ (run st0 (evs ++ [.adv ms])).2, out.tag = .note ∧ out.c = o.sess ∧ out.token = o.token ∧ out.res = y.id ∧
      out.code = 69 ∧ out.obs = some y.observe ∧ out.ver = y.ver :=
  latest_eventually_notified_run st0 evs ms hid hw pre post y spre spost o hres hsubs hal herr hst
    (first_stale_entry_not_backPressured _ pre y spre o (by rw [getSess_conActive_now]; exact hcon) hpre hspre)

/-- witness: NOTIFY_CON resource 1 — the second change is deferred while the first Confirmable is in flight; once it is
    acknowledged (here: by `handleAck` alone, before the I/O loop runs) the hypotheses of the theorem hold -/
def ackedSt : State := handleAck (run runStart lateEvents).1 0 2
def ackedY : Res := ackedSt.res.getD 1 (mkRes 9 false false 0)
def ackedO : Sub := ackedY.subs.getD 0 { sess := 9, token := 9, key := 9, nonCnt := 0, failCnt := 0, dirty := false, mid := 0, lastVer := none }
example : (getSess (run runStart lateEvents).1 0).conActive = 1 ∧ (getSess ackedSt 0).conActive = 0 := by decide
example : ackedSt.res = [ackedSt.res.getD 0 (mkRes 9 false false 0)] ++ ackedY :: [] ∧ ackedY.subs = [] ++ ackedO :: [] ∧
    ackedY.alive = true ∧ ackedY.err = false ∧ ackedO.dirty = true ∧ ackedY.fCon = true ∧
    (getSess ackedSt ackedO.sess).conActive < obsNstart ∧
    (∀ o1 ∈ (ackedSt.res.getD 0 (mkRes 9 false false 0)).subs, o1.sess ≠ ackedO.sess) := by decide



/-- every well-formedness hypothesis used by the global theorems holds in EVERY state reachable from an initial state whose
    resources have pairwise distinct ids, no subscribers and are not dirty -/
theorem reachable_invariants_init (res : List Res) (stTicks : Nat) (evs : List Event) (hids : (res.map (·.id)).Nodup)
    (h : ∀ y ∈ res, y.subs = [] ∧ y.dirty = false) :
    IdsNodup (run (init res stTicks) evs).1 ∧ NoDupSt (run (init res stTicks) evs).1 ∧ FailZero (run (init res stTicks) evs).1 ∧
    RefInv (run (init res stTicks) evs).1 ∧ Wake (run (init res stTicks) evs).1 ∧
    (∀ y ∈ (run (init res stTicks) evs).1.res, NonCntOk y) := by
  have hsubs : ∀ y ∈ res, y.subs = [] := fun y hy => (h y hy).1
  obtain ⟨h1, h2, h3⟩ := invariants_of_init res stTicks evs hids hsubs
  exact ⟨h1, h2, h3, run_refInv _ evs hids (init_refInv res stTicks hsubs), run_wake _ evs hids (wake_init res stTicks h),
    run_nonCntOk _ evs hids (fun z hz o ho => by rw [show z.subs = [] from hsubs z hz] at ho; cases ho)⟩

example : ([mkRes 0 false false 16777214, mkRes 1 true false 7].map (·.id)).Nodup ∧
    ∀ y ∈ [mkRes 0 false false 16777214, mkRes 1 true false 7], y.subs = [] ∧ y.dirty = false := by decide


theorem sum_zero_of_all_zero : ∀ (l : List Nat), (∀ x ∈ l, x = 0) → l.sum = 0
  | [], _ => rfl
  | a :: t, h => by
    simp only [List.sum_cons]
    rw [h a (List.mem_cons_self ..), sum_zero_of_all_zero t (fun x hx => h x (List.mem_cons_of_mem _ hx))]

/-! ### GLOBAL: progress measure for "eventually" — the number of stale entries of a session -/
/-- `staleOf c st` = number of entries of session c on alive resources that have not been told the current state.
    It is 0 exactly when every such entry is clean on a clean resource (then `clean_entry_holds_latest` applies). -/
theorem staleOf_zero_iff (c : Nat) (st : State) :
    staleOf c st = 0 ↔ ∀ y ∈ st.res, y.alive = true → ∀ o ∈ y.subs, o.sess = c → y.dirty = false ∧ o.dirty = false := by
  unfold staleOf
  constructor
  · intro h y hy hal o ho hc
    have h1 := sum_eq_zero_mem _ h _ (List.mem_map_of_mem (f := staleR c) hy)
    unfold staleR at h1
    rw [if_pos hal] at h1
    have h2 : (y.subs.filter (staleP c y)) = [] := List.eq_nil_of_length_eq_zero h1
    have h3 := List.filter_eq_nil_iff.mp h2 o ho
    simp [staleP, hc] at h3
    exact h3
  · intro h
    apply sum_zero_of_all_zero
    intro x hx
    obtain ⟨y, hy, rfl⟩ := List.mem_map.mp hx
    unfold staleR
    split
    · rename_i hal
      rw [List.length_eq_zero_iff, List.filter_eq_nil_iff]
      intro o ho
      by_cases hc : o.sess = c
      · have := h y hy hal o ho hc
        simp [staleP, this.1, this.2]
      · simp [staleP, hc]
    · rfl

/-- an I/O step (`adv`) and an ACK never add a stale entry: only a new change (`chg`, `del`) or a registration on a dirty
    resource does -/
theorem quiet_events_never_add_stale (c : Nat) : ∀ (evs : List Event) (st : State),
    (∀ e ∈ evs, (∃ ms, e = .adv ms) ∨ (∃ c' n, e = .ack c' n)) → staleOf c (run st evs).1 ≤ staleOf c st
  | [], _, _ => Nat.le_refl _
  | e :: es, st, h => by
    rw [run_cons]
    have h1 : staleOf c (step st e).1 ≤ staleOf c st := by
      rcases h e (List.mem_cons_self ..) with ⟨ms, rfl⟩ | ⟨c', n, rfl⟩
      · exact io_stale_le { st with now := st.now + ms } c
      · unfold step; dsimp only
        split
        · split
          · unfold rxThenIo
            dsimp only
            refine Nat.le_trans (io_stale_le _ c) ?_
            unfold staleOf
            exact staleOf_le_of_le c (handleAck_leF ..)
          · exact Nat.le_refl _
        · exact Nat.le_refl _
    exact Nat.le_trans (quiet_events_never_add_stale c es _ (fun e' he' => h e' (List.mem_cons_of_mem _ he'))) h1

/-- every FAIR I/O step serves one more: after any run, if session o.sess has fewer than NSTART Confirmables in flight and `o` is
    its first stale entry in walk order, the step strictly decreases the number of stale entries of that session (whatever the
    handler answers).  With `quiet_events_never_add_stale`: under fairness (each Confirmable eventually acknowledged or given
    up, the I/O loop keeps running) and no further change, after at most `staleOf` rounds no entry of the session is stale —
    everybody holds the latest state (`staleOf_zero_iff`, `clean_entry_holds_latest`). -/
theorem fair_step_decreases_stale (st0 : State) (evs : List Event) (ms : Nat) (hid : IdsNodup st0) (hw : Wake st0)
    (pre post : List Res) (y : Res) (spre spost : List Sub) (o : Sub)
    (hres : (run st0 evs).1.res = pre ++ y :: post) (hsubs : y.subs = spre ++ o :: spost)
    (hal : y.alive = true) (hst : y.dirty = true ∨ o.dirty = true)
    (hcon : (getSess (run st0 evs).1 o.sess).conActive < obsNstart)
    (hpre : ∀ y1 ∈ pre, y1.alive = true → ∀ o1 ∈ y1.subs, o1.sess = o.sess → y1.dirty = false ∧ o1.dirty = false)
    (hspre : ∀ o1 ∈ spre, o1.sess = o.sess → y.dirty = false ∧ o1.dirty = false) :
    staleOf o.sess (run st0 (evs ++ [.adv ms])).1 < staleOf o.sess (run st0 evs).1 := by
  have hy : y ∈ (run st0 evs).1.res := by rw [hres]; simp
  have ho : o ∈ y.subs := by rw [hsubs]; simp
  obtain ⟨hp, hwalk⟩ := stale_entry_keeps_wakeup st0 evs hid hw y hy hal o ho hst
  rw [run_append]
  simp only [run_cons, run_nil]
  exact io_stale_lt { (run st0 evs).1 with now := (run st0 evs).1.now + ms } pre post y spre spost o hres hsubs hp hal hwalk hst
    (first_stale_entry_not_backPressured _ pre y spre o (by rw [getSess_conActive_now]; exact hcon) hpre hspre)

/-- witness (the deferred entry of `lateEvents`, acknowledged): one stale entry before the fair step, none after -/
example : staleOf 0 ackedSt = 1 ∧ staleOf 0 (io ackedSt).1 = 0 := by decide
example : staleOf 0 (run runStart lateEvents).1 = 1 ∧ staleOf 0 (run runStart (lateEvents ++ [.ack 0 1000])).1 = 0 := by decide

/-! ### GLOBAL: what an observation IS — the cache key of the registration request (Model/ObserveKey.lean)
`Event.reg c r tok key …` carries the key; the driver computes it as `obsKey (options of the request)`, the transcription of
coap_cache_derive_key_w_ignore(session, request, SESSION_BASED, {ETag, OSCORE}).  RFC 7641 3.3/3.6: ETag options are not part
of the observation's identity (a client re-registers to update the ETags it holds); RFC 7252 5.4.2: nor are NoCacheKey
options; RFC 7641 2: nor is Observe itself. -/

/-- which options are left out: ETag, OSCORE, Observe, and the NoCacheKey class (Size1 = 60, 28 = Size2, …); Uri-Path, Uri-Query,
    Uri-Host, Accept, … are part of the identity -/
theorem not_part_of_identity :
    isCacheKey obsIgnore 4 = false ∧ isCacheKey obsIgnore 9 = false ∧ isCacheKey obsIgnore 6 = false ∧
    isCacheKey obsIgnore 60 = false ∧ isCacheKey obsIgnore 28 = false ∧
    isCacheKey obsIgnore 3 = true ∧ isCacheKey obsIgnore 11 = true ∧ isCacheKey obsIgnore 15 = true ∧ isCacheKey obsIgnore 17 = true := by
  decide

/-- an option that is not a cache-key option may be added, dropped or changed anywhere in the request: same observation -/
theorem observation_identity_ignores (a b : List ReqOpt) (o : ReqOpt) (h : isCacheKey obsIgnore o.num = false) :
    obsKey (a ++ o :: b) = obsKey (a ++ b) :=
  obsKey_eq_of_cacheOpts_eq _ _ (cacheOpts_ignores obsIgnore a b o h)

/-- in particular any ETag option, with any value, anywhere -/
theorem observation_identity_ignores_etag (a b : List ReqOpt) (v : List Nat) :
    obsKey (a ++ { num := 4, val := v } :: b) = obsKey (a ++ b) :=
  observation_identity_ignores a b _ (show isCacheKey obsIgnore 4 = false by decide)

/-- … and nothing else is forgotten: two requests have the same key exactly when their cache-key options (numbers, lengths,
    values, order) are the same.  The direction → is the one that was FALSE before fix f201070 (the digest input did not
    delimit the values; `digestInput_aliased_before_fix` below). -/
theorem observation_identity_exact (a b : List ReqOpt) (ha : WfOpts a) (hb : WfOpts b) :
    obsKey a = obsKey b ↔ cacheOpts obsIgnore a = cacheOpts obsIgnore b :=
  obsKey_eq_iff a b ha hb

/-- For ALL event sequences: no resource ever lists two entries of one session whose registration requests have the same
    cache-key options — whatever their tokens and whatever ETag / NoCacheKey options they carried.  (A re-registration under a
    new token with other ETags REPLACES the entry.) -/
theorem reregistration_same_target_replaces (st : State) (evs : List Event) (h : NoDupSt st) :
    ∀ y ∈ (run st evs).1.res, y.subs.Pairwise fun s1 s2 =>
      s1.sess = s2.sess → ∀ o1 o2 : List ReqOpt, s1.key = obsKey o1 → s2.key = obsKey o2 →
        cacheOpts obsIgnore o1 ≠ cacheOpts obsIgnore o2 := by
  intro y hy
  have h1 := reregistration_replaces st evs h y hy
  rw [List.pairwise_map] at h1
  refine h1.imp ?_
  intro s1 s2 hd hs o1 o2 hk1 hk2 heq
  have := (hd hs).2
  apply this
  show s1.key = s2.key
  rw [hk1, hk2]
  exact obsKey_eq_of_cacheOpts_eq o1 o2 heq

/-- the other direction, one registration: a request for ANOTHER target (different cache-key options) removes nothing -/
theorem registration_of_other_target_keeps (y : Res) (c tok m : Nat) (o2 : List ReqOpt) (h2 : WfOpts o2)
    (h : ∀ s ∈ y.subs, s.sess = c → ∃ o1, WfOpts o1 ∧ s.key = obsKey o1 ∧ cacheOpts obsIgnore o1 ≠ cacheOpts obsIgnore o2) :
    ∀ s ∈ y.subs, s ∈ (addToRes y c tok (obsKey o2) m).subs := by
  intro s hs
  unfold addToRes
  split
  · exact hs
  · have hnone : y.subs.find? (matchSK c (obsKey o2)) = none := by
      rw [List.find?_eq_none]
      intro s' hs' hm
      unfold matchSK at hm
      simp only [Bool.and_eq_true, beq_iff_eq] at hm
      obtain ⟨o1, w1, hk, hne⟩ := h s' hs' hm.1
      have e : s'.key = obsKey o2 := hm.2
      rw [hk] at e
      exact hne ((obsKey_eq_iff o1 o2 w1 h2).mp e)
    rw [hnone]
    exact List.mem_cons_of_mem _ hs

/-- witnesses.  GET /r0 Observe with token-independent options: (1) no ETag, (2) ETag 1122, (3) ETag 33 + Size1: one identity;
    (4) ?a&b and (5) one Uri-Query option with the bytes 61 0f 00 62: two more, different from each other -/
def wReq (extra : List ReqOpt) (query : List ReqOpt) (tail : List ReqOpt) : List ReqOpt :=
  extra ++ [{ num := 6, val := [] }, { num := 11, val := [114, 48] }] ++ query ++ tail
example : obsKey (wReq [] [] []) = obsKey (wReq [{ num := 4, val := [0x11, 0x22] }] [] []) ∧
    obsKey (wReq [] [] []) = obsKey (wReq [{ num := 4, val := [0x33] }] [] [{ num := 60, val := [2] }]) := by decide
example : obsKey (wReq [] [{ num := 15, val := [97] }, { num := 15, val := [98] }] []) ≠
    obsKey (wReq [] [{ num := 15, val := [97, 15, 0, 98] }] []) ∧
    obsKey (wReq [] [] []) ≠ obsKey (wReq [] [{ num := 15, val := [97] }, { num := 15, val := [98] }] []) := by decide
example : WfOpts (wReq [{ num := 4, val := [0x33] }] [{ num := 15, val := [97, 15, 0, 98] }] [{ num := 60, val := [2] }]) := by
  intro o ho
  simp only [wReq, List.cons_append, List.nil_append, List.mem_cons, List.not_mem_nil, or_false] at ho
  rcases ho with rfl | rfl | rfl | rfl | rfl <;> refine ⟨by decide, by decide, ?_⟩ <;> intro b hb <;> simp at hb <;> omega

/-- the defect fixed by f201070, as a decided witness: WITHOUT the length the two different requests (4), (5) feed the same
    bytes into the digest (`0f 00 61 0f 00 62` after the Uri-Path), so registering one replaced the same client's observation of
    the other.  Replay: `obs st=30 R=d0 C=1 reg:0:0:1:4:C:1 reg:0:0:2:3:C:2 chg:0 io` -/
def digestNoLength : List ReqOpt → List Nat
  | [] => []
  | o :: rest => if isCacheKey obsIgnore o.num then le16 o.num ++ o.val ++ digestNoLength rest else digestNoLength rest
theorem digestInput_aliased_before_fix :
    digestNoLength (wReq [] [{ num := 15, val := [97] }, { num := 15, val := [98] }] []) =
      digestNoLength (wReq [] [{ num := 15, val := [97, 15, 0, 98] }] []) ∧
    digestInput obsIgnore (wReq [] [{ num := 15, val := [97] }, { num := 15, val := [98] }] []) ≠
      digestInput obsIgnore (wReq [] [{ num := 15, val := [97, 15, 0, 98] }] []) := by decide

/-! ### GLOBAL: NSTART bookkeeping — `con_active` says "busy" exactly while a Confirmable is outstanding -/

/-- For ALL event sequences: in every reachable state the session's `con_active` equals the number of its Confirmable
    notifications in the retransmission queue (0 without session object).  Hence no event of ANOTHER client (Reset, give-up,
    cancellation — with whatever token values, equal ones included) can leave a session "busy" with nothing outstanding. -/
theorem con_active_eq_queued (st : State) (evs : List Event) (hid : IdsNodup st) (hr : RefInv st) (hc : ConInv st) :
    ∀ c, (getSess (run st evs).1 c).conActive = nodesOf (run st evs).1 c :=
  run_conInv st evs hid hr hc

theorem con_active_eq_queued_init (res : List Res) (stTicks : Nat) (evs : List Event) (hids : (res.map (·.id)).Nodup)
    (h : ∀ y ∈ res, y.subs = []) :
    ∀ c, (getSess (run (init res stTicks) evs).1 c).conActive = nodesOf (run (init res stTicks) evs).1 c :=
  run_conInv _ evs hids (init_refInv res stTicks h) (init_conInv res stTicks)

/-- frame of coap_cancel_all_messages(context, session c, token): every other session keeps its counter and its queued
    notifications, whatever their tokens -/
theorem cancel_leaves_other_sessions (st : State) (c tok c' : Nat) (hc : c' ≠ c) :
    (cancelAllMessages st c tok).sess c' = st.sess c' ∧
    (cancelAllMessages st c tok).sendq.filter (fun q => q.sess == c') = st.sendq.filter (fun q => q.sess == c') :=
  cancelAllMessages_other st c tok c' hc

/-- `latest_eventually_notified_first_stale` with the fairness hypothesis stated on what is OBSERVABLE — fewer than NSTART
    Confirmable notifications of the session are unacknowledged (still in the retransmission queue) — instead of on the
    session's counter: after ANY run from a state satisfying the invariants, the I/O step tells the first stale entry of such a
    session the resource's latest state. -/
theorem latest_eventually_notified_when_acknowledged (st0 : State) (evs : List Event) (ms : Nat) (hid : IdsNodup st0) (hw : Wake st0)
    (hr : RefInv st0) (hc : ConInv st0)
    (pre post : List Res) (y : Res) (spre spost : List Sub) (o : Sub)
    (hres : (run st0 evs).1.res = pre ++ y :: post) (hsubs : y.subs = spre ++ o :: spost)
    (hal : y.alive = true) (herr : y.err = false) (hst : y.dirty = true ∨ o.dirty = true)
    (hq : nodesOf (run st0 evs).1 o.sess < obsNstart)
    (hpre : ∀ y1 ∈ pre, y1.alive = true → ∀ o1 ∈ y1.subs, o1.sess = o.sess → y1.dirty = false ∧ o1.dirty = false)
    (hspre : ∀ o1 ∈ spre, o1.sess = o.sess → y.dirty = false ∧ o1.dirty = false) :
    ∃ out ∈ (run st0 (evs ++ [.adv ms])).2, out.tag = .note ∧ out.c = o.sess ∧ out.token = o.token ∧ out.res = y.id ∧
      out.code = 69 ∧ out.obs = some y.observe ∧ out.ver = y.ver :=
  latest_eventually_notified_first_stale st0 evs ms hid hw pre post y spre spost o hres hsubs hal herr hst
    (by rw [con_active_eq_queued st0 evs hid hr hc]; exact hq) hpre hspre

/-- … and the progress measure: such a step strictly decreases the number of stale entries of the session -/
theorem fair_step_decreases_stale_when_acknowledged (st0 : State) (evs : List Event) (ms : Nat) (hid : IdsNodup st0) (hw : Wake st0)
    (hr : RefInv st0) (hc : ConInv st0)
    (pre post : List Res) (y : Res) (spre spost : List Sub) (o : Sub)
    (hres : (run st0 evs).1.res = pre ++ y :: post) (hsubs : y.subs = spre ++ o :: spost)
    (hal : y.alive = true) (hst : y.dirty = true ∨ o.dirty = true)
    (hq : nodesOf (run st0 evs).1 o.sess < obsNstart)
    (hpre : ∀ y1 ∈ pre, y1.alive = true → ∀ o1 ∈ y1.subs, o1.sess = o.sess → y1.dirty = false ∧ o1.dirty = false)
    (hspre : ∀ o1 ∈ spre, o1.sess = o.sess → y.dirty = false ∧ o1.dirty = false) :
    staleOf o.sess (run st0 (evs ++ [.adv ms])).1 < staleOf o.sess (run st0 evs).1 :=
  fair_step_decreases_stale st0 evs ms hid hw pre post y spre spost o hres hsubs hal hst
    (by rw [con_active_eq_queued st0 evs hid hr hc]; exact hq) hpre hspre

/-- witness: two clients observe the NOTIFY_CON resource 1 under the SAME token value 128; both have a Confirmable outstanding;
    client 0 answers with a Reset, then client 1 acknowledges: client 1's counter is back to 0, nothing of it is queued, and the
    next change reaches it (Observe 9) while client 0 gets nothing more -/
def sharedTokenEvents : List Event :=
  [.reg 0 1 128 0 true 1, .reg 1 1 128 0 true 1, .chg 1, .adv 0, .rst 0 1000, .ack 1 1000, .chg 1, .adv 0]
example : (getSess (run runStart (sharedTokenEvents.take 4)).1 1).conActive = 1 ∧ nodesOf (run runStart (sharedTokenEvents.take 4)).1 1 = 1 ∧
    (getSess (run runStart (sharedTokenEvents.take 5)).1 1).conActive = 1 ∧ nodesOf (run runStart (sharedTokenEvents.take 5)).1 1 = 1 ∧
    (getSess (run runStart (sharedTokenEvents.take 6)).1 1).conActive = 0 ∧ nodesOf (run runStart (sharedTokenEvents.take 6)).1 1 = 0 := by
  decide
example : ((run runStart sharedTokenEvents).2.filter fun o => isNotif o).map (fun o => (o.c, o.token, o.obs)) =
    [(1, 128, some 8), (0, 128, some 8), (1, 128, some 9)] := by decide
example : ConInv runStart ∧ RefInv runStart := ⟨init_conInv _ _, init_refInv _ _ (by decide)⟩

/-! ### what ends ONE client's observation leaves every OTHER client alone (Lemmas/ObserveFrame.lean)
`viewOf c' st` = everything M holds about client c': its session object (ref, con_active, tx_mid, last_rx_tx), its queued
Confirmable notifications, its observer entries on every resource (in list order, with all their fields). -/

/-- a Reset from client c (coap_dispatch RST branch: coap_cancel over all resources, or the entry whose latest message id is
    named) changes nothing about any other client c' — whatever the token values, equal ones included -/
theorem reset_leaves_other_clients (st : State) (c mid c' : Nat) (hc : c' ≠ c) : viewOf c' (handleRst st c mid) = viewOf c' st :=
  sameFor_handleRst st c mid c' hc

/-- nor does giving up on a Confirmable notification to client c (coap_handle_failed_notify: coap_cancel_all_messages +
    coap_delete_observer on every resource) -/
theorem give_up_leaves_other_clients (st : State) (c tok c' : Nat) (hc : c' ≠ c) :
    viewOf c' (handleFailedNotify st c tok) = viewOf c' st :=
  sameFor_handleFailedNotify st c tok c' hc

/-- nor does an ACK from client c -/
theorem ack_leaves_other_clients (st : State) (c mid c' : Nat) (hc : c' ≠ c) : viewOf c' (handleAck st c mid) = viewOf c' st :=
  sameFor_handleAck st c mid c' hc

/-- witness (`sharedTokenEvents`): client 0's Reset removes client 0's entry and queued notification; client 1 — same token
    value 128, same message id 2 — keeps entry, queued notification and counter -/
def sharedSt : State := (run runStart (sharedTokenEvents.take 4)).1
example : ((handleRst sharedSt 0 2).res.map fun y => y.subs.map fun s => (s.sess, s.token)) = [[], [(1, 128)]] ∧
    (sharedSt.res.map fun y => y.subs.map fun s => (s.sess, s.token)) = [[], [(1, 128), (0, 128)]] ∧
    ((handleRst sharedSt 0 2).sendq.map fun q => (q.sess, q.mid, q.token)) = [(1, 2, 128)] ∧
    (sharedSt.sendq.map fun q => (q.sess, q.mid, q.token)) = [(1, 2, 128), (0, 2, 128)] := by decide

/-! ### the observer's TOKEN is the whole byte string, its length included (Model/ObserveToken.lean, Lemmas/ObserveToken.lean)
M's `token : Nat` is `tokNat` of the token bytes (injective, decoded by `natTok`); the comparison `==` on it in
coap_find_observer / coap_remove_failed_observers (`matchST`) and coap_cancel_all_messages (`matchQT`) is the transcription
`binaryEqual` of coap_binary_equal on the bytes: equal LENGTH and equal bytes.  So a request, Reset or failed notification that
names the empty token, or a token that is a proper prefix of another token of the same client, is about another observer. -/

/-- coap_binary_equal answers yes exactly for equal byte strings -/
theorem binary_equal_exact (a b : List Nat) : binaryEqual a b = true ↔ a = b := binaryEqual_iff a b

/-- two tokens are the same token in M iff they are the same byte string -/
theorem token_identity_exact (t u : List Nat) (ht : ∀ x ∈ t, x < 256) (hu : ∀ x ∈ u, x < 256) : tokNat t = tokNat u ↔ t = u :=
  ⟨tokNat_injective t u ht hu, fun h => by rw [h]⟩

/-- M's entry lookup is coap_find_observer's test on the bytes: same session and coap_binary_equal(token, entry's token) -/
theorem token_compare_is_binary_equal (c : Nat) (t u : List Nat) (s : Sub) (ht : ∀ x ∈ t, x < 256) (hu : ∀ x ∈ u, x < 256)
    (hs : s.token = tokNat u) : matchST c (tokNat t) s = (s.sess == c && binaryEqual t (natTok s.token)) :=
  matchST_is_binary_equal c t u s ht hu hs

/-- the same for the retransmission queue (coap_cancel_all_messages) -/
theorem token_compare_queue_is_binary_equal (c : Nat) (t u : List Nat) (q : QNode) (ht : ∀ x ∈ t, x < 256) (hu : ∀ x ∈ u, x < 256)
    (hq : q.token = tokNat u) : matchQT c (tokNat t) q = (q.sess == c && binaryEqual u t) :=
  matchQT_is_binary_equal c t u q ht hu hq

/-- an entry whose token merely STARTS with the bytes named (any entry, when the empty token is named) is not the one named -/
theorem prefix_token_is_other_observer (c : Nat) (t : List Nat) (x : Nat) (xs : List Nat) (s : Sub)
    (ht : ∀ b ∈ t ++ x :: xs, b < 256) (hs : s.token = tokNat (t ++ x :: xs)) : matchST c (tokNat t) s = false := by
  rw [matchST_is_binary_equal c t (t ++ x :: xs) s (fun b hb => ht b (List.mem_append_left _ hb)) ht hs]
  unfold findObserverMatch
  rw [hs, natTok_tokNat _ ht, binaryEqual_proper_prefix, Bool.and_false]

/-- the entries of client c under the token with bytes u, on every resource -/
def underToken (c : Nat) (u : List Nat) (st : State) : List (Nat × Bool × List Sub) :=
  subsWhere (fun s => matchST c (tokNat u) s) st

theorem other_token_not_named (c : Nat) (t u : List Nat) (ht : ∀ x ∈ t, x < 256) (hu : ∀ x ∈ u, x < 256) (hne : t ≠ u) :
    ∀ s, matchST c (tokNat t) s = true → (fun s => matchST c (tokNat u) s) s = false := by
  intro s hs
  unfold matchST at hs ⊢
  simp only [Bool.and_eq_true, beq_iff_eq] at hs
  rw [Bool.eq_false_iff]
  intro h2
  simp only [Bool.and_eq_true, beq_iff_eq] at h2
  exact hne (tokNat_injective t u ht hu (hs.2.symm.trans h2.2))

/-- coap_delete_observer(resource, session, t) — error response to a request, error while notifying — leaves the client's
    observation under every other token u (longer, shorter, empty) exactly as it was, all fields included -/
theorem other_token_survives_delete (st : State) (r c : Nat) (t u : List Nat) (ht : ∀ x ∈ t, x < 256) (hu : ∀ x ∈ u, x < 256)
    (hne : t ≠ u) : underToken c u (deleteObserver st r c (tokNat t)) = underToken c u st :=
  deleteObserver_keeps _ st r c (tokNat t) (other_token_not_named c t u ht hu hne)

/-- a Reset from client c attributed to token t (queued Confirmable, or the entry whose latest message id is named) -/
theorem other_token_survives_reset (st : State) (c mid : Nat) (t u : List Nat) (ht : ∀ x ∈ t, x < 256) (hu : ∀ x ∈ u, x < 256)
    (hne : t ≠ u) (hr : rstToken st c mid = some (tokNat t)) : underToken c u (handleRst st c mid) = underToken c u st := by
  apply handleRst_keeps
  intro tok htok
  rw [hr] at htok
  cases htok
  exact other_token_not_named c t u ht hu hne

/-- giving up on a Confirmable notification sent under token t (coap_handle_failed_notify) -/
theorem other_token_survives_failed_notify (st : State) (c : Nat) (t u : List Nat) (ht : ∀ x ∈ t, x < 256) (hu : ∀ x ∈ u, x < 256)
    (hne : t ≠ u) : underToken c u (handleFailedNotify st c (tokNat t)) = underToken c u st :=
  handleFailedNotify_keeps _ st c (tokNat t) (other_token_not_named c t u ht hu hne) (fun _ _ => rfl)

/-- an Observe=1 request with token t for a target with cache key `key`: the observation under another token u stays unless it is
    the one with that very cache key (RFC 7641 §3.6 lets the server match the cancellation by target) -/
theorem other_token_survives_cancel_request (st : State) (r c key : Nat) (con : Bool) (mid : Nat) (t u : List Nat)
    (ht : ∀ x ∈ t, x < 256) (hu : ∀ x ∈ u, x < 256) (hne : t ≠ u)
    (hk : ∀ y ∈ st.res, ∀ old ∈ y.subs, matchSK c key old = true → old.token ≠ tokNat u) :
    underToken c u (request st (some 1) c r (tokNat t) key con mid).1 = underToken c u st := by
  have hdr : underToken c u (deleteObserverRequest (rxSession st c) r c (tokNat t) key) = underToken c u st := by
    refine (deleteObserverRequest_keeps _ (rxSession st c) r c (tokNat t) key (other_token_not_named c t u ht hu hne) ?_).trans rfl
    intro y hy old hold hm s hs
    unfold matchST at hs ⊢
    simp only [Bool.and_eq_true, beq_iff_eq] at hs
    rw [Bool.eq_false_iff]
    intro h2
    simp only [Bool.and_eq_true, beq_iff_eq] at h2
    exact hk y hy old hold hm (hs.2.symm.trans h2.2)
  unfold request
  dsimp only
  split
  · rfl
  · split
    · simp only [Option.isSome_some, if_true]
      unfold txStamp
      show underToken c u (deleteObserver _ r c (tokNat t)) = _
      rw [other_token_survives_delete _ r c t u ht hu hne]
      exact hdr
    · exact hdr

/-- coap_add_observer: afterwards the resource lists an entry of (session, token) — and when no entry of the session carried
    exactly these token bytes before (a longer or shorter token of the client does not count, `prefix_token_is_other_observer`),
    it is a NEW entry at the head of the list -/
theorem registration_lists_token (y : Res) (c tok key m : Nat) : (addToRes y c tok key m).subs.any (matchST c tok) = true := by
  unfold addToRes
  split
  · assumption
  · simp [matchST]

theorem registration_under_new_token_adds (y : Res) (c tok key m : Nat) (h : ∀ s ∈ y.subs, matchST c tok s = false) :
    ∃ rest, (addToRes y c tok key m).subs =
      { sess := c, token := tok, key := key, nonCnt := 0, failCnt := 0, dirty := false, mid := m, lastVer := none } :: rest := by
  unfold addToRes
  split
  · rename_i hany
    rw [List.any_eq_true] at hany
    obtain ⟨s, hs, hm⟩ := hany
    rw [h s hs] at hm
    cases hm
  · exact ⟨_, rfl⟩

/-- witnesses.  (1) what a length-blind comparison (memcmp over the length of the token named) would say, and what
    coap_binary_equal says; (2) client 0 observes r0 under token a1b2, then sends Observe=1 with the EMPTY token for another
    target: the entry stays and the next change is notified under a1b2; (3) tokens 51 (on ?q, key 7) and 5162 (key 5) of one
    client, Observe=1 for 51: 5162 stays listed and is notified, 51 is gone; (4) a registration under token 51 while 5162 is
    listed is a NEW entry -/
example : memcmpEq 1 [0x51] [0x51, 0x62] = true ∧ binaryEqual [0x51] [0x51, 0x62] = false ∧ memcmpEq 0 [] [0xa1, 0xb2] = true ∧
    binaryEqual [] [0xa1, 0xb2] = false ∧ binaryEqual [0, 0] [0, 0] = true ∧ binaryEqual [0] [0, 0] = false := by decide
example : natTok (tokNat [0x51, 0x62]) = [0x51, 0x62] ∧ natTok (tokNat []) = [] ∧ natTok (tokNat [0, 0]) = [0, 0] ∧
    tokNat [0] ≠ tokNat [0, 0] ∧ tokNat [] ≠ tokNat [0] := by
  refine ⟨natTok_tokNat _ (by decide), natTok_tokNat _ (by decide), natTok_tokNat _ (by decide), by decide, by decide⟩
def tokStart : State := init [mkRes 0 false false 0] 30000
def emptyTokenEvents : List Event := [.reg 0 0 (tokNat [0xa1, 0xb2]) 5 true 1, .can 0 0 (tokNat []) 7 true 2, .chg 0, .adv 0]
example : ((run tokStart emptyTokenEvents).1.res.map fun y => y.subs.map fun s => (s.sess, s.token)) = [[(0, tokNat [0xa1, 0xb2])]] ∧
    (((run tokStart emptyTokenEvents).2.filter fun o => isNotif o).map fun o => (o.c, o.token, o.obs)) = [(0, tokNat [0xa1, 0xb2], some 1)] := by
  decide
def prefixTokenEvents : List Event :=
  [.reg 0 0 (tokNat [0x51]) 7 true 1, .reg 0 0 (tokNat [0x51, 0x62]) 5 true 2, .can 0 0 (tokNat [0x51]) 7 true 3, .chg 0, .adv 0]
example : ((run tokStart (prefixTokenEvents.take 2)).1.res.map fun y => y.subs.map fun s => (s.sess, s.token)) =
      [[(0, tokNat [0x51, 0x62]), (0, tokNat [0x51])]] ∧
    ((run tokStart prefixTokenEvents).1.res.map fun y => y.subs.map fun s => (s.sess, s.token)) = [[(0, tokNat [0x51, 0x62])]] ∧
    (((run tokStart prefixTokenEvents).2.filter fun o => isNotif o).map fun o => (o.c, o.token, o.obs)) = [(0, tokNat [0x51, 0x62], some 1)] := by
  decide
example : ∀ s ∈ ((run tokStart [.reg 0 0 (tokNat [0x51, 0x62]) 5 true 2]).1.res.flatMap fun y => y.subs), matchST 0 (tokNat [0x51]) s = false := by
  decide
example : underToken 0 [0x51, 0x62] (request (run tokStart (prefixTokenEvents.take 2)).1 (some 1) 0 0 (tokNat [0x51]) 7 true 3).1 =
    underToken 0 [0x51, 0x62] (run tokStart (prefixTokenEvents.take 2)).1 :=
  other_token_survives_cancel_request _ 0 0 7 true 3 [0x51] [0x51, 0x62] (by decide) (by decide) (by decide) (by decide)

/-! ### GLOBAL: FETCH observations (RFC 8132, round R11c) — the identity of an observation is (method, cache-key options, FETCH payload)
`reqKey code opts payload` (Model/ObserveKey.lean) is the transcription of coap_cache_derive_key_w_ignore after fix 3034572: the
method code, for FETCH the length of the payload and the payload, then the cache-key options.  `Event.reg c r tok key …` of M
carries an ARBITRARY key, so every global theorem above (reregistration_replaces, observe_strictly_increasing_run,
notes_only_to_listed, no_notification_after_cancel_run, ref_eq_holders, con_active_eq_queued, …) already quantifies over the
histories with FETCH registrations; what is new here is what the key of such a request IS.  The driver hands M
`scriptKey` = `reqKey 5 (options with Content-Format) payload` for a scripted FETCH and `obsKey opts = reqKey 1 opts []` for a GET. -/

/-- two requests are "the same request" for an observation: same method, same cache-key options (numbers, lengths, values,
    order), and — FETCH only — the same payload -/
def SameRequest (m1 : Nat) (o1 : List ReqOpt) (p1 : List Nat) (m2 : Nat) (o2 : List ReqOpt) (p2 : List Nat) : Prop :=
  m1 = m2 ∧ cacheOpts obsIgnore o1 = cacheOpts obsIgnore o2 ∧ (m1 = 5 → p1 = p2)

/-- equal keys ⇔ same request: method, options AND (for FETCH) payload; nothing else is part of the key and nothing of these is
    forgotten.  The direction → was FALSE before fix 3034572 (`fetch_payload_aliased_before_fix`). -/
theorem request_identity_exact (m1 m2 : Nat) (o1 o2 : List ReqOpt) (p1 p2 : List Nat) (hm1 : m1 < 256) (hm2 : m2 < 256)
    (h1 : WfOpts o1) (h2 : WfOpts o2) (hp1 : WfPayload p1) (hp2 : WfPayload p2) :
    reqKey m1 o1 p1 = reqKey m2 o2 p2 ↔ SameRequest m1 o1 p1 m2 o2 p2 :=
  reqKey_eq_iff m1 m2 o1 o2 p1 p2 hm1 hm2 h1 h2 hp1 hp2

/-- ETag, OSCORE, Observe, NoCacheKey options stay outside the identity of a FETCH observation too (any method, any payload) -/
theorem request_identity_ignores (m : Nat) (a b : List ReqOpt) (o : ReqOpt) (p : List Nat) (h : isCacheKey obsIgnore o.num = false) :
    reqKey m (a ++ o :: b) p = reqKey m (a ++ b) p :=
  reqKey_eq_of_cacheOpts_eq m _ _ p (cacheOpts_ignores obsIgnore a b o h)

/-- the payload of a request that is not a FETCH is not looked at -/
theorem payload_only_part_of_fetch_identity (m : Nat) (a : List ReqOpt) (p q : List Nat) (h : m ≠ 5) : reqKey m a p = reqKey m a q :=
  reqKey_ignores_payload_unless_fetch m a p q h

/-- `reregistration_replaces` over the larger key space.  For ALL event sequences (GET and FETCH registrations, cancellations,
    everything else): two entries a resource lists for one session have different tokens AND are registrations of different
    requests — never the same method, cache-key options and payload.  Together with `registration_of_other_request_keeps`: two
    registrations of a session coincide (the later one replaces / is the earlier one) iff same token or same request. -/
theorem reregistration_replaces_requests (st : State) (evs : List Event) (h : NoDupSt st) :
    ∀ y ∈ (run st evs).1.res, y.subs.Pairwise fun s1 s2 =>
      s1.sess = s2.sess → s1.token ≠ s2.token ∧
        ∀ (m1 m2 : Nat) (o1 o2 : List ReqOpt) (p1 p2 : List Nat), s1.key = reqKey m1 o1 p1 → s2.key = reqKey m2 o2 p2 →
          ¬ SameRequest m1 o1 p1 m2 o2 p2 := by
  intro y hy
  have h1 := reregistration_replaces st evs h y hy
  rw [List.pairwise_map] at h1
  refine h1.imp ?_
  intro s1 s2 hd hs
  refine ⟨(hd hs).1, ?_⟩
  intro m1 m2 o1 o2 p1 p2 hk1 hk2 hsame
  apply (hd hs).2
  show s1.key = s2.key
  obtain ⟨rfl, ho, hp⟩ := hsame
  rw [hk1, hk2]
  by_cases h5 : m1 = 5
  · rw [hp h5]
    exact reqKey_eq_of_cacheOpts_eq m1 o1 o2 p2 ho
  · rw [reqKey_ignores_payload_unless_fetch m1 o1 p1 p2 h5]
    exact reqKey_eq_of_cacheOpts_eq m1 o1 o2 p2 ho

/-- the other direction, one registration (coap_add_observer's action on the table, any table): a request that is not the same
    request as any the session's entries were registered with removes nothing; and under a token the session does not use yet it
    ADDS an entry with that token and key. -/
theorem registration_of_other_request_keeps (y : Res) (c tok m : Nat) (m2 : Nat) (o2 : List ReqOpt) (p2 : List Nat)
    (hm2 : m2 < 256) (h2 : WfOpts o2) (hp2 : WfPayload p2)
    (h : ∀ s ∈ y.subs, s.sess = c → ∃ m1 o1 p1, m1 < 256 ∧ WfOpts o1 ∧ WfPayload p1 ∧ s.key = reqKey m1 o1 p1 ∧
      ¬ SameRequest m1 o1 p1 m2 o2 p2) :
    (∀ s ∈ y.subs, s ∈ (addToRes y c tok (reqKey m2 o2 p2) m).subs) ∧
    (y.subs.any (matchST c tok) = false → ∃ s ∈ (addToRes y c tok (reqKey m2 o2 p2) m).subs,
      s.sess = c ∧ s.token = tok ∧ s.key = reqKey m2 o2 p2) := by
  have hnone : y.subs.find? (matchSK c (reqKey m2 o2 p2)) = none := by
    rw [List.find?_eq_none]
    intro s' hs' hm
    unfold matchSK at hm
    simp only [Bool.and_eq_true, beq_iff_eq] at hm
    obtain ⟨m1, o1, p1, hm1, w1, wp1, hk, hne⟩ := h s' hs' hm.1
    have e : s'.key = reqKey m2 o2 p2 := hm.2
    rw [hk] at e
    exact hne ((reqKey_eq_iff m1 m2 o1 o2 p1 p2 hm1 hm2 w1 h2 wp1 hp2).mp e)
  constructor
  · intro s hs
    unfold addToRes
    split
    · exact hs
    · rw [hnone]
      exact List.mem_cons_of_mem _ hs
  · intro hno
    unfold addToRes
    rw [if_neg (by simp [hno]), hnone]
    exact ⟨_, List.mem_cons_self .., rfl, rfl, rfl⟩

/-- RFC 8132 §2: FETCH requests for the same target with DIFFERENT payloads are different observations — their keys differ
    (whatever the options: even equal ones), and registering one, on ANY table whose entries of that session are FETCH
    observations with other payloads, removes none of them and (under an unused token) adds a new entry. -/
theorem fetch_observations_with_different_payloads_are_distinct (o1 o2 : List ReqOpt) (p q : List Nat)
    (h1 : WfOpts o1) (h2 : WfOpts o2) (hp : WfPayload p) (hq : WfPayload q) (hpq : p ≠ q) :
    reqKey 5 o1 p ≠ reqKey 5 o2 q := by
  intro h
  exact hpq (((reqKey_eq_iff 5 5 o1 o2 p q (by decide) (by decide) h1 h2 hp hq).mp h).2.2 rfl)

theorem fetch_registration_with_other_payload_keeps (y : Res) (c tok m : Nat) (o2 : List ReqOpt) (q : List Nat)
    (h2 : WfOpts o2) (hq : WfPayload q)
    (h : ∀ s ∈ y.subs, s.sess = c → ∃ o1 p, WfOpts o1 ∧ WfPayload p ∧ s.key = reqKey 5 o1 p ∧ p ≠ q) :
    (∀ s ∈ y.subs, s ∈ (addToRes y c tok (reqKey 5 o2 q) m).subs) ∧
    (y.subs.any (matchST c tok) = false → ∃ s ∈ (addToRes y c tok (reqKey 5 o2 q) m).subs,
      s.sess = c ∧ s.token = tok ∧ s.key = reqKey 5 o2 q) := by
  apply registration_of_other_request_keeps y c tok m 5 o2 q (by decide) h2 hq
  intro s hs hc
  obtain ⟨o1, p, w1, wp, hk, hne⟩ := h s hs hc
  exact ⟨5, o1, p, by decide, w1, wp, hk, fun hsame => hne (hsame.2.2 rfl)⟩

/-- a GET observation and a FETCH observation of the same target are different observations, whatever the FETCH payload -/
theorem get_and_fetch_observations_are_distinct (o1 o2 : List ReqOpt) (p q : List Nat)
    (h1 : WfOpts o1) (h2 : WfOpts o2) (hp : WfPayload p) (hq : WfPayload q) : reqKey 1 o1 p ≠ reqKey 5 o2 q := by
  intro h
  have := ((reqKey_eq_iff 1 5 o1 o2 p q (by decide) (by decide) h1 h2 hp hq).mp h).1
  omega

/-- witnesses: the scripted FETCH requests of harness/observe.c for /r0.  (a) ?a + payload `0f 00 01 00 00 00 62`, (b) ?a&b + empty
    payload, (c) payload "A", (d) payload "AB", (e) the GET -/
def wFetch (query : List ReqOpt) : List ReqOpt :=
  [{ num := 6, val := [] }, { num := 11, val := [114, 48] }, { num := 12, val := [0x2a] }] ++ query
def wPayloadB : List Nat := [0x0f, 0, 1, 0, 0, 0, 0x62]
example : reqKey 5 (wFetch [{ num := 15, val := [97] }]) wPayloadB ≠ reqKey 5 (wFetch [{ num := 15, val := [97] }, { num := 15, val := [98] }]) [] ∧
    reqKey 5 (wFetch []) [0x41] ≠ reqKey 5 (wFetch []) [0x41, 0x42] ∧ reqKey 5 (wFetch []) [] ≠ reqKey 1 (wFetch []) [] ∧
    reqKey 5 ({ num := 4, val := [0x33] } :: wFetch []) [0x41] = reqKey 5 (wFetch []) [0x41] ∧
    reqKey 1 (wFetch []) [0x41] = reqKey 1 (wFetch []) [] := by decide
example : WfPayload wPayloadB ∧ WfPayload [0x41, 0x42] := by
  refine ⟨⟨by decide, ?_⟩, ⟨by decide, ?_⟩⟩ <;> intro b hb <;> simp [wPayloadB] at hb <;> omega
example : WfOpts (wFetch [{ num := 15, val := [97] }]) := by
  intro o ho
  simp only [wFetch, List.cons_append, List.nil_append, List.mem_cons, List.not_mem_nil, or_false] at ho
  rcases ho with rfl | rfl | rfl | rfl <;> refine ⟨by decide, by decide, ?_⟩ <;> intro b hb <;> simp at hb <;> omega
/-- hypothesis of `fetch_registration_with_other_payload_keeps` on a non-trivial table: client 0 holds FETCH "A" under token 7,
    registering FETCH "AB" under token 8 keeps it and adds the new entry -/
def wFetchRes : Res :=
  { mkRes 0 false false 5 with subs := [{ sess := 0, token := 7, key := reqKey 5 (wFetch []) [0x41], nonCnt := 0, failCnt := 0,
                                          dirty := false, mid := 1, lastVer := none }] }
example : ((addToRes wFetchRes 0 8 (reqKey 5 (wFetch []) [0x41, 0x42]) 2).subs.map fun s => (s.sess, s.token)) = [(0, 8), (0, 7)] ∧
    ((addToRes wFetchRes 0 8 (reqKey 5 (wFetch []) [0x41]) 2).subs.map fun s => (s.sess, s.token)) = [(0, 8)] := by decide

/-- the defect fixed by 3034572, as decided witnesses: the digest input as it was (options, then the bare FETCH payload, no method)
    is the same for (a) and (b), and for a GET and a FETCH with the empty payload; the present one tells them apart.  Replays:
    `obs st=30 R=d0 C=1 reg:0:0:1:5:C:1:0:4 reg:0:0:2:3:C:2:0:1 chg:0 io` and `obs st=30 R=d0 C=1 reg:0:0:1:0:C:1 reg:0:0:2:0:C:2:0:1 chg:0 io` -/
def digestBeforeFix (code : Nat) (opts : List ReqOpt) (payload : List Nat) : List Nat :=
  digestInput obsIgnore opts ++ (if code == 5 then payload else [])
theorem fetch_payload_aliased_before_fix :
    digestBeforeFix 5 (wFetch [{ num := 15, val := [97] }]) wPayloadB =
      digestBeforeFix 5 (wFetch [{ num := 15, val := [97] }, { num := 15, val := [98] }]) [] ∧
    digestBeforeFix 1 (wFetch []) [] = digestBeforeFix 5 (wFetch []) [] ∧
    reqDigest 5 (wFetch [{ num := 15, val := [97] }]) wPayloadB ≠
      reqDigest 5 (wFetch [{ num := 15, val := [97] }, { num := 15, val := [98] }]) [] ∧
    reqDigest 1 (wFetch []) [] ≠ reqDigest 5 (wFetch []) [] := by decide

end Coap.C11
