import CoapVerif.Model.BlockNetTok1
import CoapVerif.Lemmas.BlockNetTok
/- Tokens in the composed Block1 system (C09, round R09c): invariant `T1Inv` of `b1tStep` and the step lemma
   `rspStep1T_spec`: the token shown to the response handler is the application's or belongs to an lg_xmit / lg_crcv
   released before the response was dispatched. -/
namespace Coap.Block

/-- `STATE_TOKEN_BASE(STATE_TOKEN_FULL(t, r)) = STATE_TOKEN_BASE(t)` for EVERY r (the uint32_t count included) -/
theorem base_full_any (st r : Nat) : stateTokenBase (stateTokenFull st r) = stateTokenBase st := by
  unfold stateTokenFull stateTokenBase
  omega

theorem base_wire_any (st r : Nat) :
    stateTokenBase (decodeVar8 (encodeVar8 (stateTokenFull st r))) = stateTokenBase st := by
  rw [decode_encode8 _ (full_lt st r), base_full_any st r]

theorem tokHit_false {tok a : Bytes} {st : Nat} (h : tokHit tok a st = false) :
    stateTokenBase (decodeVar8 tok) ≠ stateTokenBase st ∧ tok ≠ a := by
  simpa [tokHit] using h

theorem tokHit_of_base {tok a : Bytes} {st : Nat} (h : stateTokenBase (decodeVar8 tok) = stateTokenBase st) :
    tokHit tok a st = true := by
  simp [tokHit, h]

theorem tokHit_true {tok a : Bytes} {st : Nat} (h : tokHit tok a st = true) :
    stateTokenBase (decodeVar8 tok) = stateTokenBase st ∨ tok = a := by
  by_cases hb : stateTokenBase (decodeVar8 tok) = stateTokenBase st
  · exact Or.inl hb
  · by_cases ha : tok = a
    · exact Or.inr ha
    · simp [tokHit, hb, ha] at h

/-- bases of the transfer state the session holds -/
def live1 (c : Cli1T) (b : Nat) : Prop :=
  (∃ xm, c.xmit = some xm ∧ b = stateTokenBase xm.state) ∨ (∃ cr, c.crcv = some cr ∧ b = stateTokenBase cr.state)

def Tok1OK (app : Bytes) (c : Cli1T) (t : Bytes) : Prop :=
  t = app ∨ live1 c (stateTokenBase (decodeVar8 t)) ∨ stateTokenBase (decodeVar8 t) ∈ c.released

/-- the client-side part of the invariant -/
structure Cli1Inv (app : Bytes) (c : Cli1T) : Prop where
  xa : ∀ xm, c.xmit = some xm → xm.appTok = app
  ca : ∀ cr, c.crcv = some cr → cr.appTok = app
  link : ∀ xm, c.xmit = some xm → xm.link = true →
    ∃ cr, c.crcv = some cr ∧ stateTokenBase cr.state = stateTokenBase xm.state

def Cli1Le (c c' : Cli1T) : Prop :=
  (∀ b, live1 c b → live1 c' b ∨ b ∈ c'.released) ∧ (∀ b ∈ c.released, b ∈ c'.released)

theorem Tok1OK.mono {app c c' t} (h : Tok1OK app c t) (hle : Cli1Le c c') : Tok1OK app c' t := by
  rcases h with h | h | h
  · exact Or.inl h
  · exact Or.inr (hle.1 _ h)
  · exact Or.inr (Or.inr (hle.2 _ h))

theorem Cli1Le.refl (c : Cli1T) : Cli1Le c c := ⟨fun _ h => Or.inl h, fun _ h => h⟩

theorem getStep1T_spec (app : Bytes) (c1 : Cli1T) (tok1 : Bytes) (hinv : Cli1Inv app c1) :
    Cli1Le c1 (getStep1T c1 tok1).1 ∧ Cli1Inv app (getStep1T c1 tok1).1 ∧
    ((getStep1T c1 tok1).2 = app ∨
      ((getStep1T c1 tok1).2 = tok1 ∧ (getStep1T c1 tok1).1 = c1 ∧
        ∀ cr, c1.crcv = some cr → tokHit tok1 cr.appTok cr.state = false)) := by
  unfold getStep1T
  cases hc : c1.crcv with
  | none =>
    exact ⟨Cli1Le.refl _, hinv, Or.inr ⟨rfl, rfl, fun cr h => by cases h⟩⟩
  | some cr =>
    dsimp only
    by_cases hh : tokHit tok1 cr.appTok cr.state = true
    · rw [if_pos hh]
      refine ⟨⟨?_, fun b hb => List.mem_append_left _ hb⟩, ⟨?_, ?_, ?_⟩, Or.inl (hinv.ca cr hc)⟩
      · intro b hb
        rcases hb with ⟨xm, hx, rfl⟩ | ⟨cr', hc', rfl⟩
        · left; left
          refine ⟨{ xm with link := false }, ?_, rfl⟩
          simp [unlinkXmit, hx]
        · right
          rw [hc] at hc'; cases hc'
          exact List.mem_append_right _ (by simp)
      · intro xm hx
        simp only [unlinkXmit] at hx
        cases hx0 : c1.xmit with
        | none => simp [hx0] at hx
        | some xm0 =>
          simp [hx0] at hx
          rw [← hx]
          exact hinv.xa xm0 hx0
      · intro cr' h; cases h
      · intro xm hx hl
        exfalso
        simp only [unlinkXmit] at hx
        cases hx0 : c1.xmit with
        | none => simp [hx0] at hx
        | some xm0 =>
          simp [hx0] at hx
          rw [← hx] at hl
          simp at hl
    · have hf : tokHit tok1 cr.appTok cr.state = false := by
        cases h : tokHit tok1 cr.appTok cr.state
        · rfl
        · exact absurd h hh
      rw [if_neg hh]
      refine ⟨Cli1Le.refl _, hinv, Or.inr ⟨rfl, rfl, ?_⟩⟩
      intro cr' h'
      cases h'
      exact hf

/-- the lg_xmit stays, with another `LgXmit` / count -/
theorem keep_spec (app : Bytes) (c : Cli1T) (xm xm' : XmitT) (hx : c.xmit = some xm) (ha : xm'.appTok = xm.appTok)
    (hs : xm'.state = xm.state) (hl : xm'.link = xm.link) (hinv : Cli1Inv app c) :
    Cli1Le c { c with xmit := some xm' } ∧ Cli1Inv app { c with xmit := some xm' } := by
  refine ⟨⟨?_, fun b hb => hb⟩, ⟨?_, hinv.ca, ?_⟩⟩
  · intro b hb
    left
    rcases hb with ⟨xm0, hx0, rfl⟩ | ⟨cr, hc, rfl⟩
    · rw [hx] at hx0; cases hx0
      exact Or.inl ⟨xm', rfl, by rw [hs]⟩
    · exact Or.inr ⟨cr, hc, rfl⟩
  · intro xm0 h0
    cases h0
    rw [ha]; exact hinv.xa xm hx
  · intro xm0 h0 hl0
    cases h0
    rw [hl] at hl0
    obtain ⟨cr, hc, hb⟩ := hinv.link xm hx hl0
    exact ⟨cr, hc, by rw [hs]; exact hb⟩

theorem sendStep1T_spec (room : Nat) (app : Bytes) (c : Cli1T) (tok : Bytes) (ok : Bool) (blk : Option (Nat × Nat))
    (hinv : Cli1Inv app c) :
    Cli1Le c (sendStep1T room c tok ok blk).c ∧ Cli1Inv app (sendStep1T room c tok ok blk).c ∧
    (∀ q t, (sendStep1T room c tok ok blk).req = some (q, t) → Tok1OK app (sendStep1T room c tok ok blk).c t) ∧
    ((sendStep1T room c tok ok blk).ret = false →
      (sendStep1T room c tok ok blk).tok = app ∨ ((sendStep1T room c tok ok blk).tok = tok ∧
        (((sendStep1T room c tok ok blk).c = c ∧ ∀ xm, c.xmit = some xm → tokHit tok xm.appTok xm.state = false) ∨
         ∃ cr, (sendStep1T room c tok ok blk).c.crcv = some cr ∧
           (stateTokenBase (decodeVar8 tok) = stateTokenBase cr.state ∨ tok = app)))) := by
  cases hx : c.xmit with
  | none =>
    have h : sendStep1T room c tok ok blk = { c := c, ret := false, tok := tok, out := none, req := none } := by
      simp [sendStep1T, hx]
    rw [h]
    exact ⟨Cli1Le.refl c, hinv, fun q t ht => (by simp at ht), fun _ => Or.inr ⟨rfl, Or.inl ⟨rfl, fun xm h' => by cases h'⟩⟩⟩
  | some xm =>
    cases hh : tokHit tok xm.appTok xm.state with
    | false =>
      have h : sendStep1T room c tok ok blk = { c := c, ret := false, tok := tok, out := none, req := none } := by
        simp [sendStep1T, hx, hh]
      rw [h]
      refine ⟨Cli1Le.refl c, hinv, fun q t ht => (by simp at ht), fun _ => Or.inr ⟨rfl, Or.inl ⟨rfl, ?_⟩⟩⟩
      intro xm' h'
      cases h'
      exact hh
    | true =>
      rcases hs : xmitB1Step xm.x room ok blk with ⟨st, o⟩
      cases st with
      | some x' =>
        -- the lg_xmit stays: return 1
        by_cases hn : ∃ n m sx p, o = B1Out.sendNext n m sx p
        · obtain ⟨n, m, sx, p, rfl⟩ := hn
          have h : sendStep1T room c tok ok blk =
              { c := { c with xmit := some { xm with x := x', count := (xm.count + 1) % 2 ^ 32 } }, ret := true, tok := tok,
                out := some (.sendNext n m sx p),
                req := some ((n, m, sx, p), encodeVar8 (stateTokenFull xm.state ((xm.count + 1) % 2 ^ 32))) } := by
            simp [sendStep1T, hx, hh, hs]
          rw [h]
          obtain ⟨k1, k2⟩ := keep_spec app c xm { xm with x := x', count := (xm.count + 1) % 2 ^ 32 } hx rfl rfl rfl hinv
          refine ⟨k1, k2, ?_, fun h' => (by simp at h')⟩
          intro q t ht
          simp only [Option.some.injEq, Prod.mk.injEq] at ht
          rw [← ht.2]
          right; left; left
          exact ⟨_, rfl, base_wire_any _ _⟩
        · have h : sendStep1T room c tok ok blk =
              { c := { c with xmit := some { xm with x := x' } }, ret := true, tok := tok, out := some o, req := none } := by
            cases o with
            | sendNext n m sx p => exact absurd ⟨n, m, sx, p, rfl⟩ hn
            | dupIgnored => simp [sendStep1T, hx, hh, hs]
            | finished => simp [sendStep1T, hx, hh, hs]
            | fail500 => simp [sendStep1T, hx, hh, hs]
          rw [h]
          obtain ⟨k1, k2⟩ := keep_spec app c xm { xm with x := x' } hx rfl rfl rfl hinv
          exact ⟨k1, k2, fun q t ht => (by simp at ht), fun h' => (by simp at h')⟩
      | none =>
        -- lg_xmit_finished
        have h : sendStep1T room c tok ok blk =
            { c := { c with xmit := none,
                            crcv := (if xm.link then
                                c.crcv.map fun cr =>
                                  if stateTokenBase xm.state = stateTokenBase cr.state then
                                    { cr with state := xm.state,
                                              retry := (if o = .fail500 then (xm.count + 1) % 2 ^ 32 else xm.count) % 65536 }
                                  else cr
                              else c.crcv),
                            released := c.released ++ [stateTokenBase xm.state] },
              ret := false, tok := (if xm.link then tok else xm.appTok), out := some o, req := none } := by
          simp [sendStep1T, hx, hh, hs]
        rw [h]
        have happ := hinv.xa xm hx
        cases hl : xm.link with
        | false =>
          simp only [Bool.false_eq_true, if_false]
          refine ⟨⟨?_, fun b hb => List.mem_append_left _ hb⟩, ⟨fun xm' h' => (by cases h'), hinv.ca, fun xm' h' => (by cases h')⟩,
            fun q t ht => (by simp at ht), fun _ => Or.inl happ⟩
          intro b hb
          rcases hb with ⟨xm0, hx0, rfl⟩ | ⟨cr, hc, rfl⟩
          · rw [hx] at hx0; cases hx0
            exact Or.inr (List.mem_append_right _ (by simp))
          · exact Or.inl (Or.inr ⟨cr, hc, rfl⟩)
        | true =>
          simp only [if_true]
          obtain ⟨cr, hc, hb⟩ := hinv.link xm hx hl
          have hcr : (c.crcv.map fun cr =>
                if stateTokenBase xm.state = stateTokenBase cr.state then
                  ({ cr with state := xm.state,
                             retry := (if o = .fail500 then (xm.count + 1) % 2 ^ 32 else xm.count) % 65536 } : CrcvL)
                else cr) =
              some { cr with state := xm.state,
                             retry := (if o = .fail500 then (xm.count + 1) % 2 ^ 32 else xm.count) % 65536 } := by
            rw [hc]; simp [hb]
          rw [hcr]
          refine ⟨⟨?_, fun b hb => List.mem_append_left _ hb⟩,
            ⟨fun xm' h' => (by cases h'), ?_, fun xm' h' => (by cases h')⟩, fun q t ht => (by simp at ht), fun _ => ?_⟩
          · intro b hb'
            rcases hb' with ⟨xm0, hx0, rfl⟩ | ⟨cr0, hc0, rfl⟩
            · rw [hx] at hx0; cases hx0
              exact Or.inr (List.mem_append_right _ (by simp))
            · rw [hc] at hc0; cases hc0
              left; right
              exact ⟨_, rfl, hb⟩
          · intro cr' h'
            cases h'
            exact hinv.ca cr hc
          · right
            refine ⟨(by first | rfl | trivial), Or.inr ⟨_, rfl, ?_⟩⟩
            rcases tokHit_true hh with h1 | h1
            · exact Or.inl h1
            · exact Or.inr (h1.trans happ)

/-- ONE response dispatched by `handle_response()` in any session state satisfying the invariant -/
theorem rspStep1T_spec (room : Nat) (app : Bytes) (c : Cli1T) (tok : Bytes) (ok : Bool) (blk : Option (Nat × Nat))
    (hinv : Cli1Inv app c) (htok : Tok1OK app c tok) :
    Cli1Le c (rspStep1T room c tok ok blk).1 ∧ Cli1Inv app (rspStep1T room c tok ok blk).1 ∧
    (∀ q t, (rspStep1T room c tok ok blk).2.req = some (q, t) → Tok1OK app (rspStep1T room c tok ok blk).1 t) ∧
    ((rspStep1T room c tok ok blk).2.handler = true →
      (rspStep1T room c tok ok blk).2.shown = app ∨
      stateTokenBase (decodeVar8 (rspStep1T room c tok ok blk).2.shown) ∈ c.released) := by
  obtain ⟨s1, s2, s3, s4⟩ := sendStep1T_spec room app c tok ok blk hinv
  unfold rspStep1T
  dsimp only
  generalize sendStep1T room c tok ok blk = sb at *
  cases hr : sb.ret with
  | true =>
    simp only [if_true]
    exact ⟨s1, s2, s3, fun h => (by simp at h)⟩
  | false =>
    simp only [Bool.false_eq_true, if_false]
    obtain ⟨g1, g2, g3⟩ := getStep1T_spec app sb.c sb.tok s2
    refine ⟨?_, g2, fun q t ht => (by simp at ht), fun _ => ?_⟩
    · refine ⟨fun b hb => ?_, fun b hb => g1.2 _ (s1.2 _ hb)⟩
      rcases s1.1 b hb with h | h
      · exact g1.1 b h
      · exact Or.inr (g1.2 _ h)
    · rcases g3 with g3 | ⟨g3, g4, g5⟩
      · exact Or.inl g3
      · rw [g3]
        rcases s4 hr with h | ⟨h, h'⟩
        · exact Or.inl h
        · rw [h]
          rcases h' with ⟨hc, hno⟩ | ⟨cr, hcr, hb⟩
          · -- nothing matched: the token is the application's or of released state
            rcases htok with ht | ht | ht
            · exact Or.inl ht
            · exfalso
              rcases ht with ⟨xm, hx, hbx⟩ | ⟨cr, hcc, hbc⟩
              · have := hno xm hx
                rw [tokHit_of_base hbx] at this
                cases this
              · have := g5 cr (by rw [hc]; exact hcc)
                rw [h, tokHit_of_base hbc] at this
                cases this
            · exact Or.inr ht
          · rcases hb with hb | hb
            · exfalso
              have := g5 cr hcr
              rw [h, tokHit_of_base hb] at this
              cases this
            · exact Or.inl hb

set_option linter.unusedSimpArgs false in
/-- coap_add_data_large_request + coap_send keep the invariant; nothing is forgotten -/
theorem putStep1T_spec (app : Bytes) (c : Cli1T) (lgx : Option LgXmit) (need hb1 : Bool) (hinv : Cli1Inv app c) :
    Cli1Le c (putStep1T c app lgx need hb1) ∧ Cli1Inv app (putStep1T c app lgx need hb1) := by
  cases hx : c.xmit with
  | none =>
    cases hc : c.crcv with
    | none =>
      cases lgx <;> cases need <;> cases hb1 <;>
      · refine ⟨⟨fun b hb => ?_, fun b hb => ?_⟩, ⟨fun xm' h' => ?_, fun cr' h' => ?_, fun xm' h' hl => ?_⟩⟩
        all_goals (try simp [putStep1T, hx, hc, unlinkXmit, live1] at hb ⊢)
        all_goals (try simp [putStep1T, hx, hc, unlinkXmit, live1] at h' ⊢)
        all_goals (try subst_vars)
        all_goals (try simp_all)
        all_goals (try (rcases hb with rfl | rfl <;> simp))
    | some cr =>
      have hca := hinv.ca cr hc
      cases lgx <;> cases need <;> cases hb1 <;>
      · refine ⟨⟨fun b hb => ?_, fun b hb => ?_⟩, ⟨fun xm' h' => ?_, fun cr' h' => ?_, fun xm' h' hl => ?_⟩⟩
        all_goals (try simp [putStep1T, hx, hc, unlinkXmit, live1, hca] at hb ⊢)
        all_goals (try simp [putStep1T, hx, hc, unlinkXmit, live1, hca] at h' ⊢)
        all_goals (try subst_vars)
        all_goals (try simp_all)
        all_goals (try (rcases hb with rfl | rfl <;> simp))
  | some xm =>
    have hxa := hinv.xa xm hx
    cases hc : c.crcv with
    | none =>
      cases lgx <;> cases need <;> cases hb1 <;>
      · refine ⟨⟨fun b hb => ?_, fun b hb => ?_⟩, ⟨fun xm' h' => ?_, fun cr' h' => ?_, fun xm' h' hl => ?_⟩⟩
        all_goals (try simp [putStep1T, hx, hc, unlinkXmit, live1, hxa] at hb ⊢)
        all_goals (try simp [putStep1T, hx, hc, unlinkXmit, live1, hxa] at h' ⊢)
        all_goals (try subst_vars)
        all_goals (try simp_all)
        all_goals (try (rcases hb with rfl | rfl <;> simp))
    | some cr =>
      have hca := hinv.ca cr hc
      cases lgx <;> cases need <;> cases hb1 <;>
      · refine ⟨⟨fun b hb => ?_, fun b hb => ?_⟩, ⟨fun xm' h' => ?_, fun cr' h' => ?_, fun xm' h' hl => ?_⟩⟩
        all_goals (try simp [putStep1T, hx, hc, unlinkXmit, live1, hxa, hca] at hb ⊢)
        all_goals (try simp [putStep1T, hx, hc, unlinkXmit, live1, hxa, hca] at h' ⊢)
        all_goals (try subst_vars)
        all_goals (try simp_all)
        all_goals (try (rcases hb with rfl | rfl <;> simp))

structure T1Inv (app : Bytes) (s : B1TSys) : Prop where
  req : ∀ t ∈ s.reqToks, Tok1OK app s.cli t
  rsp : ∀ t ∈ s.rspToks, Tok1OK app s.cli t
  cli : Cli1Inv app s.cli
  shown : ∀ x ∈ s.hToks, x.1 = app ∨ stateTokenBase (decodeVar8 x.1) ∈ x.2

theorem t1_put (app : Bytes) (s : B1TSys) (h : T1Inv app s) (lgx : Option LgXmit) (need hb1 : Bool)
    (n : B1Sys) :
    T1Inv app { s with cli := putStep1T s.cli app lgx need hb1, net := n, reqToks := s.reqToks ++ [app] } := by
  obtain ⟨hle, hinv⟩ := putStep1T_spec app s.cli lgx need hb1 h.cli
  refine ⟨fun t ht => ?_, fun t ht => (h.rsp t ht).mono hle, hinv, h.shown⟩
  rcases List.mem_append.1 ht with ht | ht
  · exact (h.req t ht).mono hle
  · simp only [List.mem_singleton] at ht
    exact Or.inl ht

theorem b1tStep_inv (P : B1Par) (app : Bytes) (non : Bool) (s : B1TSys) (ev : B1TEvent) (h : T1Inv app s) :
    T1Inv app (b1tStep P app non s ev) := by
  cases ev with
  | appPut =>
    simp only [b1tStep]
    split
    · split
      · split
        · exact t1_put app s h _ _ _ _
        · exact h
      · exact t1_put app s h _ _ _ _
    · exact h
  | reqArrives i =>
    simp only [b1tStep]
    split
    · rename_i d tok h1 h2
      refine ⟨h.req, fun t ht => ?_, h.cli, h.shown⟩
      rcases List.mem_append.1 ht with ht | ht
      · exact h.rsp t ht
      · rw [List.eq_of_mem_replicate ht]
        exact h.req tok (List.mem_of_getElem? h2)
    · exact h
  | rspArrives j =>
    simp only [b1tStep]
    split
    · rename_i ok blk tok h1 h2
      have htok : Tok1OK app s.cli tok := h.rsp tok (List.mem_of_getElem? h2)
      obtain ⟨hle, hinv, hreq, hshown⟩ := rspStep1T_spec P.room app s.cli tok ok blk h.cli htok
      generalize rspStep1T P.room s.cli tok ok blk = res at *
      refine ⟨fun t ht => ?_, fun t ht => (h.rsp t ht).mono hle, hinv, fun x hx => ?_⟩
      · rcases List.mem_append.1 ht with ht | ht
        · exact (h.req t ht).mono hle
        · split at ht
          · rename_i q t' hq
            simp only [List.mem_singleton] at ht
            subst ht
            exact hreq _ _ hq
          · simp at ht
      · rcases List.mem_append.1 hx with hx | hx
        · exact h.shown x hx
        · split at hx
          · rename_i hc
            simp only [List.mem_singleton] at hx
            subst hx
            exact hshown hc
          · simp at hx
    · exact h
  | srvExpire => exact ⟨h.req, h.rsp, h.cli, h.shown⟩
  | xmitExpire =>
    simp only [b1tStep]
    split
    · rename_i xm hx
      have hle : Cli1Le s.cli { s.cli with xmit := none, released := s.cli.released ++ [stateTokenBase xm.state] } := by
        refine ⟨fun b hb => ?_, fun b hb => List.mem_append_left _ hb⟩
        rcases hb with ⟨xm0, hx0, rfl⟩ | ⟨cr, hc, rfl⟩
        · rw [hx] at hx0; cases hx0
          exact Or.inr (List.mem_append_right _ (by simp))
        · exact Or.inl (Or.inr ⟨cr, hc, rfl⟩)
      exact ⟨fun t ht => (h.req t ht).mono hle, fun t ht => (h.rsp t ht).mono hle,
        ⟨fun xm' h' => (by cases h'), h.cli.ca, fun xm' h' => (by cases h')⟩, h.shown⟩
    · exact h
  | crcvExpire =>
    simp only [b1tStep]
    split
    · rename_i cr hc
      have hle : Cli1Le s.cli { s.cli with crcv := none, xmit := unlinkXmit s.cli.xmit,
                                            released := s.cli.released ++ [stateTokenBase cr.state] } := by
        refine ⟨fun b hb => ?_, fun b hb => List.mem_append_left _ hb⟩
        rcases hb with ⟨xm0, hx0, rfl⟩ | ⟨cr0, hc0, rfl⟩
        · left; left
          exact ⟨{ xm0 with link := false }, by simp [unlinkXmit, hx0], rfl⟩
        · rw [hc] at hc0; cases hc0
          exact Or.inr (List.mem_append_right _ (by simp))
      refine ⟨fun t ht => (h.req t ht).mono hle, fun t ht => (h.rsp t ht).mono hle, ⟨?_, fun cr' h' => (by cases h'), ?_⟩, h.shown⟩
      · intro xm' h'
        cases hx0 : s.cli.xmit with
        | none => simp [unlinkXmit, hx0] at h'
        | some xm0 =>
          simp [unlinkXmit, hx0] at h'
          rw [← h']
          exact h.cli.xa xm0 hx0
      · intro xm' h' hl
        exfalso
        cases hx0 : s.cli.xmit with
        | none => simp [unlinkXmit, hx0] at h'
        | some xm0 =>
          simp [unlinkXmit, hx0] at h'
          rw [← h'] at hl
          simp at hl
    · exact h

def b1tRun (P : B1Par) (app : Bytes) (non : Bool) (s : B1TSys) (evs : List B1TEvent) : B1TSys :=
  evs.foldl (b1tStep P app non) s

theorem b1tRun_inv (P : B1Par) (app : Bytes) (non : Bool) (evs : List B1TEvent) :
    ∀ s, T1Inv app s → T1Inv app (b1tRun P app non s evs) := by
  induction evs with
  | nil => intro s h; exact h
  | cons ev evs ih => intro s h; exact ih _ (b1tStep_inv P app non s ev h)

theorem t1Inv_init (app : Bytes) : T1Inv app {} :=
  ⟨fun _ h => (by cases h), fun _ h => (by cases h),
   ⟨fun _ h => (by cases h), fun _ h => (by cases h), fun _ h => (by cases h)⟩, fun _ h => (by cases h)⟩


/-! ## `b1tStep` is simulated by `b1Step`: the body theorem carries over -/

/-- forget the tokens: the `b1Step` state underneath -/
def absB1 (s : B1TSys) : B1Sys := { s.net with cli := s.cli.xmit.map (·.x) }

theorem putStep1T_x (c : Cli1T) (app : Bytes) (x : LgXmit) (need hb1 : Bool) :
    (putStep1T c app (some x) need hb1).xmit.map (·.x) = some x := by
  cases need <;> cases hb1 <;> cases hc : c.crcv <;> simp [putStep1T, hc, unlinkXmit] <;> (try split) <;> simp_all

theorem putStep1T_none_x (c : Cli1T) (app : Bytes) (need hb1 : Bool) (hxa : ∀ xm, c.xmit = some xm → xm.appTok = app) :
    (putStep1T c app none need hb1).xmit.map (·.x) = none := by
  cases hx : c.xmit with
  | none => cases need <;> cases hb1 <;> cases hc : c.crcv <;> simp [putStep1T, hc, hx, unlinkXmit]
  | some xm =>
    have ha : app = xm.appTok := (hxa xm hx).symm
    cases need <;> cases hb1 <;> cases hc : c.crcv <;> simp [putStep1T, hc, hx, unlinkXmit, ← ha]

theorem getStep1T_x (c : Cli1T) (tok : Bytes) : (getStep1T c tok).1.xmit.map (·.x) = c.xmit.map (·.x) := by
  unfold getStep1T
  split
  · split
    · cases c.xmit <;> simp [unlinkXmit]
    · rfl
  · rfl

theorem xmitB1Next_sendNext (x1 : LgXmit) (room num szx n m sx : Nat) (p : Bytes) :
    xmitB1Next x1 room num szx ≠ (none, B1Out.sendNext n m sx p) := by
  unfold xmitB1Next
  dsimp only
  split
  · simp
  · split
    · split
      · simp
      · split <;> simp
    · simp

theorem xmitB1Step_sendNext (x : LgXmit) (room : Nat) (ok : Bool) (blk : Option (Nat × Nat)) (n m sx : Nat) (p : Bytes) :
    xmitB1Step x room ok blk ≠ (none, B1Out.sendNext n m sx p) := by
  unfold xmitB1Step
  split
  · exact xmitB1Next_sendNext _ _ _ _ _ _ _ _
  · simp
  · simp

/-- every step of the system with tokens is a (possibly empty) sequence of steps of `b1Step` on the state underneath -/
theorem b1t_simulated (P : B1Par) (app : Bytes) (non : Bool) (s : B1TSys) (ev : B1TEvent) (h : Cli1Inv app s.cli) :
    ∃ evs : List B1Event, absB1 (b1tStep P app non s ev) = evs.foldl (b1Step P) (absB1 s) := by
  cases ev with
  | appPut =>
    simp only [b1tStep]
    cases ha : addDataLarge P.maxSize P.tokLen P.optBytes P.lastOpt P.blk P.maxBlkC P.body.length P.rtagLen with
    | none => exact ⟨[], rfl⟩
    | some r =>
      cases hl : r.lgXmit with
      | true =>
        cases hv : r.blockVal with
        | none => exact ⟨[], by simp [hl, hv]⟩
        | some v =>
          refine ⟨[.appPut], ?_⟩
          simp only [hl, hv, if_true, List.foldl, b1Step, ha, absB1]
          rw [putStep1T_x]
      | false =>
        refine ⟨[.cliExpire, .appPut], ?_⟩
        simp only [hl, Bool.false_eq_true, if_false, List.foldl, b1Step, ha, absB1]
        rw [putStep1T_none_x _ _ _ _ h.xa]
        rfl
  | reqArrives i =>
    simp only [b1tStep]
    split
    · rename_i d tok h1 h2
      refine ⟨[.reqArrives i], ?_⟩
      have h1' : (absB1 s).reqs[i]? = some d := h1
      simp only [List.foldl, b1Step, h1']
      rfl
    · exact ⟨[], rfl⟩
  | rspArrives j =>
    simp only [b1tStep]
    split
    · rename_i ok blk tok h1 h2
      unfold rspStep1T
      cases hx : s.cli.xmit with
      | none =>
        refine ⟨[], ?_⟩
        have hs : sendStep1T P.room s.cli tok ok blk = { c := s.cli, ret := false, tok := tok, out := none, req := none } := by
          simp [sendStep1T, hx]
        simp only [hs, Bool.false_eq_true, if_false, List.foldl, absB1, getStep1T_x, hx, List.append_nil]
      | some xm =>
        cases hh : tokHit tok xm.appTok xm.state with
        | false =>
          refine ⟨[], ?_⟩
          have hs : sendStep1T P.room s.cli tok ok blk = { c := s.cli, ret := false, tok := tok, out := none, req := none } := by
            simp [sendStep1T, hx, hh]
          simp only [hs, Bool.false_eq_true, if_false, List.foldl, absB1, getStep1T_x, hx, List.append_nil]
        | true =>
          refine ⟨[.rspArrives j], ?_⟩
          have h1' : (absB1 s).rsps[j]? = some (ok, blk) := h1
          have hc' : (absB1 s).cli = some xm.x := by simp [absB1, hx]
          simp only [List.foldl, b1Step, h1', hc']
          rcases hs : xmitB1Step xm.x P.room ok blk with ⟨st, o⟩
          cases st with
          | some x' =>
            cases o <;> simp [sendStep1T, hx, hh, hs, absB1]
          | none =>
            cases o with
            | sendNext n m sx p => exact absurd hs (xmitB1Step_sendNext _ _ _ _ _ _ _ _)
            | dupIgnored => simp [sendStep1T, hx, hh, hs, absB1, getStep1T_x]
            | finished => simp [sendStep1T, hx, hh, hs, absB1, getStep1T_x]
            | fail500 => simp [sendStep1T, hx, hh, hs, absB1, getStep1T_x]
    · exact ⟨[], rfl⟩
  | srvExpire => exact ⟨[.srvExpire], rfl⟩
  | xmitExpire =>
    simp only [b1tStep]
    split
    · exact ⟨[.cliExpire], rfl⟩
    · rename_i hx
      exact ⟨[], rfl⟩
  | crcvExpire =>
    simp only [b1tStep]
    split
    · refine ⟨[], ?_⟩
      simp only [List.foldl, absB1]
      cases s.cli.xmit <;> simp [unlinkXmit]
    · exact ⟨[], rfl⟩

theorem b1tRun_simulated (P : B1Par) (app : Bytes) (non : Bool) (evs : List B1TEvent) :
    ∀ s, T1Inv app s → ∃ evs' : List B1Event, absB1 (b1tRun P app non s evs) = evs'.foldl (b1Step P) (absB1 s) := by
  induction evs with
  | nil => intro s _; exact ⟨[], rfl⟩
  | cons ev evs ih =>
    intro s h
    obtain ⟨e1, h1⟩ := b1t_simulated P app non s ev h.cli
    obtain ⟨e2, h2⟩ := ih _ (b1tStep_inv P app non s ev h)
    refine ⟨e1 ++ e2, ?_⟩
    rw [List.foldl_append, ← h1]
    exact h2

end Coap.Block
