import CoapVerif.Lemmas.TimerSim
/-
Helper lemmas for C06, part 5: NO function of the message-layer model ever modifies the fields of a queue node that stand
for its PDU (message id, token, type) or its stored timeout — for EVERY event of the model (the whole alphabet of
`Coap.Msg.Ev`, any state, no scope condition): a predicate on nodes that does not look at `t`, `retransmit_cnt` and the
session index holds for every node in the send queue and in every delay queue after a step if it held before and holds
for the node a `coap_send` creates.  Core Lean only.
-/
namespace Coap.Pdu
open Coap Coap.SQ Coap.Msg Coap.Sim

/-- a node predicate that only looks at the PDU fields and the stored timeout -/
def Stable (Q : Node → Prop) : Prop := ∀ (n : Node) (t c s : Nat), Q n → Q { n with t := t, cnt := c, sess := s }

theorem Stable.tfree {Q : Node → Prop} (h : Stable Q) : TFree Q := fun n x hn => h n x n.cnt n.sess hn

theorem Stable.cnt {Q : Node → Prop} (h : Stable Q) (n : Node) (c : Nat) (hn : Q n) : Q { n with cnt := c } :=
  h n n.t c n.sess hn

theorem Stable.sess {Q : Node → Prop} (h : Stable Q) (n : Node) (s : Nat) (hn : Q n) : Q { n with sess := s } :=
  h n n.t n.cnt s hn

/-- `Q` holds for every node in the send queue and in every session's delay queue -/
def AllQ (Q : Node → Prop) (l : L) : Prop :=
  (∀ n ∈ l.q.nodes, Q n) ∧ (∀ se ∈ l.sess, ∀ n ∈ se.delayq, Q n)

theorem allQ_emit {Q : Node → Prop} {l : L} (o : Out) (h : AllQ Q l) : AllQ Q (l.emit o) := h

theorem allQ_getS {Q : Node → Prop} {l : L} (h : AllQ Q l) (s : Nat) : ∀ n ∈ (l.getS s).delayq, Q n := by
  intro n hn
  by_cases hs : s < l.sess.length
  · have : l.getS s = l.sess[s] := by simp [L.getS, List.getD_eq_getElem?_getD, hs]
    rw [this] at hn
    exact h.2 _ (List.getElem_mem hs) n hn
  · have : l.getS s = {} := by simp [L.getS, List.getD_eq_getElem?_getD, Nat.le_of_not_lt hs]
    rw [this] at hn
    cases hn

theorem allQ_setS {Q : Node → Prop} {l : L} (h : AllQ Q l) (s : Nat) (se : Sess) (hse : ∀ n ∈ se.delayq, Q n) :
    AllQ Q (l.setS s se) := by
  refine ⟨h.1, ?_⟩
  intro se' hm n hn
  simp only [L.setS] at hm
  rcases List.mem_or_eq_of_mem_set hm with hm | rfl
  · exact h.2 se' hm n hn
  · exact hse n hn

theorem allQ_nodes {Q : Node → Prop} {l : L} (h : AllQ Q l) (r : List Node) (hr : ∀ n ∈ r, Q n) :
    AllQ Q { l with q := { l.q with nodes := r } } := ⟨hr, h.2⟩

theorem allQ_enq {Q : Node → Prop} (hQ : Stable Q) {l : L} (h : AllQ Q l) (now d : Nat) (n : Node) (hn : Q n) :
    AllQ Q { l with q := enqueue l.q now d n } :=
  ⟨all_enqueue hQ.tfree _ _ _ _ h.1 hn, h.2⟩

theorem allQ_waitAck {Q : Node → Prop} (hQ : Stable Q) {l : L} (h : AllQ Q l) (n : Node) (hn : Q n) :
    AllQ Q (waitAck l n) := allQ_enq hQ h _ _ n hn

theorem drain_allQ {Q : Node → Prop} (hQ : Stable Q) : ∀ (fuel : Nat) (l : L) (s : Nat), AllQ Q l → AllQ Q (drain fuel l s) := by
  intro fuel
  induction fuel with
  | zero => intro l s h; exact h
  | succ f ih =>
    intro l s h
    have hg := allQ_getS h s
    simp only [drain]
    split
    · exact h
    · rename_i n rest hdq
      rw [hdq] at hg
      split
      · exact h
      · split
        · exact h
        · apply ih
          have key : ∀ (X : Sess) (o : Out), (∀ x ∈ X.delayq, Q x) → AllQ Q ((l.setS s X).emit o) :=
            fun X o hX => allQ_emit _ (allQ_setS h s X hX)
          split
          · exact allQ_waitAck hQ (key _ _ (fun x hx => hg x (List.mem_cons_of_mem _ hx))) _
              (hQ.sess n s (hg n (by simp)))
          · exact key _ _ (fun x hx => hg x (List.mem_cons_of_mem _ hx))

theorem connected_allQ {Q : Node → Prop} (hQ : Stable Q) (l : L) (s : Nat) (h : AllQ Q l) : AllQ Q (connected l s) := by
  unfold connected
  exact drain_allQ hQ _ _ s (allQ_setS h s _ (allQ_getS h s))

theorem release_allQ {Q : Node → Prop} (hQ : Stable Q) (l : L) (s : Nat) (h : AllQ Q l) : AllQ Q (release l s) := by
  unfold release
  simp only []
  split
  · exact h
  · have h1 : AllQ Q (l.setS s { (l.getS s) with conActive := (l.getS s).conActive - 1 }) :=
      allQ_setS h s _ (allQ_getS h s)
    split
    · exact connected_allQ hQ _ s h1
    · exact h1

/-- the node `coap_send` builds -/
def fresh (l : L) (s : Nat) (con : Bool) (mid r : Nat) : Node :=
  { sess := s, mid := mid, t := 0,
    timeout := if con then calcTimeout (l.getS s).atI (l.getS s).atF (l.getS s).arfI (l.getS s).arfF r else 0,
    cnt := 0, tok := mid, con := con }

theorem submit_allQ {Q : Node → Prop} (hQ : Stable Q) (l : L) (s : Nat) (con : Bool) (mid r : Nat) (h : AllQ Q l)
    (hn : Q (fresh l s con mid r)) : AllQ Q (submit l s con mid r) := by
  have hg := allQ_getS h s
  cases con with
  | false =>
    have hn' : Q { sess := s, mid := mid, t := 0, timeout := 0, cnt := 0, tok := mid, con := false } := hn
    unfold submit
    simp only []
    split
    · exact allQ_emit _ h
    · split
      · split
        · exact allQ_emit _ h
        · apply allQ_emit
          apply allQ_setS h
          intro x hx
          simp only [List.mem_append, List.mem_singleton] at hx
          rcases hx with hx | rfl
          · exact hg x hx
          · exact hn'
      · exact allQ_emit _ (allQ_emit _ h)
  | true =>
    have hn' : Q { sess := s, mid := mid, t := 0,
                   timeout := calcTimeout (l.getS s).atI (l.getS s).atF (l.getS s).arfI (l.getS s).arfF r,
                   cnt := 0, tok := mid, con := true } := hn
    unfold submit
    simp only []
    split
    · exact allQ_emit _ h
    · split
      · split
        · exact allQ_emit _ h
        · apply allQ_emit
          apply allQ_setS h
          intro x hx
          simp only [List.mem_append, List.mem_singleton] at hx
          rcases hx with hx | rfl
          · exact hg x hx
          · exact hn'
      · apply allQ_emit
        simp only [↓reduceIte]
        apply allQ_waitAck hQ _ _ hn'
        exact allQ_setS (allQ_emit _ h) s _ hg

theorem retransmit_allQ {Q : Node → Prop} (hQ : Stable Q) (l : L) (n : Node) (h : AllQ Q l) (hn : Q n) :
    AllQ Q (retransmit l n) := by
  have hg := allQ_getS h n.sess
  unfold retransmit
  simp only []
  split
  · have hn1 : Q { n with cnt := (n.cnt + 1) % 256 } := hQ.cnt n _ hn
    have h1 : ∀ d, AllQ Q { l with q := enqueue l.q l.now d { n with cnt := (n.cnt + 1) % 256 } } :=
      fun d => allQ_enq hQ h _ d _ hn1
    split
    · have h2 := fun d => (all_removeNode hQ.tfree _ n.sess n.mid (h1 d).1).1
      rcases hrm : removeNode _ n.sess n.mid with ⟨a, rest⟩
      simp only []
      have h2' := h2 ((n.timeout * 2 ^ ((n.cnt + 1) % 256)) % 18446744073709551616)
      simp only [] at h2'
      rw [hrm] at h2'
      apply allQ_setS (allQ_nodes (h1 _) rest h2')
      intro x hx
      simp only [List.mem_append, List.mem_singleton] at hx
      rcases hx with hx | rfl
      · exact hg x hx
      · exact hQ n 0 ((n.cnt + 1) % 256) n.sess hn
    · exact allQ_setS (allQ_emit _ (h1 _)) n.sess _ hg
  · split
    · exact allQ_emit _ (release_allQ hQ l n.sess h)
    · exact release_allQ hQ l n.sess h

theorem dueLoop_allQ {Q : Node → Prop} (hQ : Stable Q) : ∀ (fuel : Nat) (l : L), AllQ Q l → AllQ Q (dueLoop fuel l) := by
  intro fuel
  induction fuel with
  | zero => intro l h; exact h
  | succ f ih =>
    intro l h
    simp only [dueLoop]
    split
    · exact h
    · split
      · split
        · exact h
        · rename_i n rest hpop
          have := all_popNext hQ.tfree l.q.nodes n rest hpop h.1
          exact ih _ (retransmit_allQ hQ _ n (allQ_nodes h rest this.2) this.1)
      · exact h

theorem afterRx_allQ {Q : Node → Prop} (hQ : Stable Q) (l : L) (h : AllQ Q l) : AllQ Q (afterRx l) := by
  unfold afterRx
  rw [prepareCore_fst]
  exact dueLoop_allQ hQ _ l h

theorem prepare_allQ {Q : Node → Prop} (hQ : Stable Q) (l : L) (h : AllQ Q l) : AllQ Q (prepare l) := by
  unfold prepare
  rcases hpc : prepareCore l with ⟨l', w⟩
  have e : l' = dueLoop (dueFuel l) l := by rw [← prepareCore_fst, hpc]
  subst e
  exact allQ_emit _ (dueLoop_allQ hQ _ l h)

theorem removed_allQ {Q : Node → Prop} (hQ : Stable Q) (l : L) (s mid : Nat) (h : AllQ Q l) :
    AllQ Q { l with q := { l.q with nodes := (removeNode l.q.nodes s mid).2 } } :=
  allQ_nodes h _ (all_removeNode hQ.tfree l.q.nodes s mid h.1).1

theorem rxAck_allQ {Q : Node → Prop} (hQ : Stable Q) (l : L) (s mid : Nat) (h : AllQ Q l) : AllQ Q (rxAck l s mid) := by
  have h1 := removed_allQ hQ l s mid h
  unfold rxAck
  rcases hrm : removeNode l.q.nodes s mid with ⟨sent, rest⟩
  rw [hrm] at h1
  cases sent with
  | none => exact h1
  | some n => exact release_allQ hQ _ s h1

theorem rxRst_allQ {Q : Node → Prop} (hQ : Stable Q) (l : L) (s mid : Nat) (h : AllQ Q l) : AllQ Q (rxRst l s mid) := by
  have h1 := removed_allQ hQ l s mid h
  unfold rxRst
  rcases hrm : removeNode l.q.nodes s mid with ⟨sent, rest⟩
  rw [hrm] at h1
  cases sent with
  | none => exact allQ_emit _ h1
  | some n =>
    simp only []
    split
    · exact allQ_emit _ (release_allQ hQ _ s h1)
    · exact release_allQ hQ _ s h1

theorem rxBad_allQ {Q : Node → Prop} (hQ : Stable Q) (l : L) (s mid : Nat) (h : AllQ Q l) : AllQ Q (rxBad l s mid) := by
  have h1 := removed_allQ hQ l s mid h
  unfold rxBad
  rcases hrm : removeNode l.q.nodes s mid with ⟨sent, rest⟩
  rw [hrm] at h1
  cases sent with
  | none => exact h1
  | some n => exact allQ_emit _ (release_allQ hQ _ s h1)

theorem all_removeTok {Q : Node → Prop} (hQ : TFree Q) (l : List Node) (s tok : Nat) (hl : ∀ x ∈ l, Q x) :
    ∀ x ∈ (removeTok l s tok).2, Q x := by
  induction l with
  | nil => simp [removeTok]
  | cons a r ih =>
    have ha : Q a := hl _ (by simp)
    have hr : ∀ x ∈ r, Q x := fun x hx => hl x (by simp [hx])
    by_cases hk : a.sess = s ∧ a.tok = tok
    · rcases r with _ | ⟨q, r'⟩
      · simp [removeTok, hk]
      · simp only [removeTok, hk, and_self, if_true]
        intro x hx
        simp only [List.mem_cons] at hx
        rcases hx with rfl | hx
        · exact hQ _ _ (hr _ (by simp))
        · exact hr x (by simp [hx])
    · rcases hrm : removeTok r s tok with ⟨res, r'⟩
      have := ih hr
      rw [hrm] at this
      simp only [removeTok, hk, if_false, hrm]
      intro x hx
      simp only [List.mem_cons] at hx
      rcases hx with rfl | hx
      · exact ha
      · exact this x hx

theorem cancelToken_allQ {Q : Node → Prop} (hQ : Stable Q) :
    ∀ (fuel : Nat) (l : L) (s tok : Nat), AllQ Q l → AllQ Q (cancelToken fuel l s tok) := by
  intro fuel
  induction fuel with
  | zero => intro l s tok h; exact h
  | succ f ih =>
    intro l s tok h
    have h1 := all_removeTok hQ.tfree l.q.nodes s tok h.1
    simp only [cancelToken]
    rcases hrm : removeTok l.q.nodes s tok with ⟨_ | n, rest⟩
    · exact h
    · rw [hrm] at h1
      simp only []
      apply ih
      split
      · exact release_allQ hQ _ s (allQ_nodes h rest h1)
      · exact allQ_nodes h rest h1

theorem rxNon_allQ {Q : Node → Prop} (hQ : Stable Q) (l : L) (s mid tok : Nat) (h : AllQ Q l) :
    AllQ Q (rxNon l s mid tok) := allQ_emit _ (cancelToken_allQ hQ _ l s tok h)

theorem nackAll_allQ {Q : Node → Prop} (l : L) (s : Nat) (r : Reason) (ns : List Node) (h : AllQ Q l) :
    AllQ Q (nackAll l s r ns) := by
  induction ns generalizing l with
  | nil => exact h
  | cons n ns ih =>
    simp only [nackAll]
    apply ih
    split
    · exact allQ_emit _ h
    · exact h

theorem all_cancelAux {Q : Node → Prop} (hQ : TFree Q) : ∀ (l : List Node) (s c : Nat), (∀ x ∈ l, Q x) →
    ∀ x ∈ (cancelSessionAux l s c).2, Q x
  | [], s, c, _ => by simp [cancelSessionAux]
  | a :: r, s, c, hl => by
    have ha : Q a := hl _ (by simp)
    have hr : ∀ x ∈ r, Q x := fun x hx => hl x (by simp [hx])
    unfold cancelSessionAux
    split
    · rcases hrm : cancelSessionAux r s (a.t + c) with ⟨g, r'⟩
      have := all_cancelAux hQ r s (a.t + c) hr
      rw [hrm] at this
      exact this
    · rcases hrm : cancelSessionAux r s 0 with ⟨g, r'⟩
      have := all_cancelAux hQ r s 0 hr
      rw [hrm] at this
      intro x hx
      simp only [List.mem_cons] at hx
      rcases hx with rfl | hx
      · exact hQ _ _ ha
      · exact this x hx

theorem disconnect_allQ {Q : Node → Prop} (hQ : Stable Q) (l : L) (s : Nat) (h : AllQ Q l) :
    AllQ Q (disconnect l s) := by
  unfold disconnect
  simp only []
  have h1 : AllQ Q (match l.q.nodes.find? (fun n => n.sess = s) with
      | some n => l.emit (.nack l.now s .undeliv n.mid true)
      | none => l) := by
    split
    · exact allQ_emit _ h
    · exact h
  have h2 := nackAll_allQ _ s .undeliv (l.getS s).delayq h1
  generalize nackAll _ s .undeliv (l.getS s).delayq = l2 at h2
  have h3 : AllQ Q (if (l.q.nodes.find? (fun n => n.sess = s)).isSome || (l.getS s).delayq.any (·.con) then l2
      else l2.emit (.nack l2.now s .undeliv 0 false)) := by
    split
    · exact h2
    · exact allQ_emit _ h2
  generalize (if (l.q.nodes.find? (fun n => n.sess = s)).isSome || (l.getS s).delayq.any (·.con) then l2
      else l2.emit (.nack l2.now s .undeliv 0 false)) = l3 at h3
  have h4 : AllQ Q (l3.setS s { (l.getS s) with est := true, conActive := 0, delayq := [] }) :=
    allQ_setS h3 s _ (by intro x hx; cases hx)
  generalize l3.setS s { (l.getS s) with est := true, conActive := 0, delayq := [] } = l4 at h4
  rcases hcs : cancelSession l4.q.nodes s with ⟨gone, rest⟩
  have h5 := all_cancelAux hQ.tfree l4.q.nodes s 0 h4.1
  unfold cancelSession at hcs
  rw [hcs] at h5
  simp only []
  have h6 := nackAll_allQ _ s .undeliv gone (allQ_nodes h4 rest h5)
  exact allQ_setS h6 s _ (allQ_getS h6 s)

/-- **step_allQ**: every event of the model, any state -/
theorem step_allQ {Q : Node → Prop} (hQ : Stable Q) (l : L) (ev : Ev) (h : AllQ Q l)
    (hn : ∀ s con mid r, ev = .submit s con mid r → Q (fresh l s con mid r)) : AllQ Q (Msg.step l ev) := by
  cases ev with
  | setNow t => exact h
  | submit s con mid r => exact submit_allQ hQ l s con mid r h (hn s con mid r rfl)
  | prepare => exact prepare_allQ hQ l h
  | rxAck s mid => simp only [Msg.step]; split; exact afterRx_allQ hQ _ (rxAck_allQ hQ l s mid h); exact h
  | rxRst s mid => simp only [Msg.step]; split; exact afterRx_allQ hQ _ (rxRst_allQ hQ l s mid h); exact h
  | rxNon s mid tok => simp only [Msg.step]; split; exact afterRx_allQ hQ _ (rxNon_allQ hQ l s mid tok h); exact h
  | rxBad s mid => simp only [Msg.step]; split; exact afterRx_allQ hQ _ (rxBad_allQ hQ l s mid h); exact h
  | hold s => exact allQ_setS h s _ (allQ_getS h s)
  | connect s => exact connected_allQ hQ l s h
  | disconnect s => simp only [Msg.step]; split; exact disconnect_allQ hQ l s h; exact h

/-! ### the PDU fields and the stored timeout of every node come from its `coap_send` -/

/-- the fields of a queue node that stand for its PDU (message id, token, type) and its stored timeout -/
def pduOf (n : Node) : Nat × Nat × Bool × Nat := (n.mid, n.tok, n.con, n.timeout)

/-- the node is in the send queue or in some session's delay queue -/
def InL (l : L) (n : Node) : Prop := n ∈ l.q.nodes ∨ ∃ se ∈ l.sess, n ∈ se.delayq

theorem allQ_iff (Q : Node → Prop) (l : L) : AllQ Q l ↔ ∀ n, InL l n → Q n := by
  constructor
  · intro h n hn
    rcases hn with hn | ⟨se, hse, hn⟩
    · exact h.1 n hn
    · exact h.2 se hse n hn
  · intro h
    exact ⟨fun n hn => h n (Or.inl hn), fun se hse n hn => h n (Or.inr ⟨se, hse, hn⟩)⟩

/-- one step: every node afterwards carries the PDU fields and timeout of a node that was there before, or of the
node this `coap_send` builds -/
theorem step_pdu (l : L) (ev : Ev) : ∀ n, InL (Msg.step l ev) n →
    (∃ n', InL l n' ∧ pduOf n = pduOf n') ∨
    (∃ s con mid r, ev = .submit s con mid r ∧ pduOf n = pduOf (fresh l s con mid r)) := by
  have hQ : Stable (fun n => (∃ n', InL l n' ∧ pduOf n = pduOf n') ∨
      (∃ s con mid r, ev = .submit s con mid r ∧ pduOf n = pduOf (fresh l s con mid r))) := by
    intro n t c s h; exact h
  have h0 : AllQ (fun n => (∃ n', InL l n' ∧ pduOf n = pduOf n') ∨
      (∃ s con mid r, ev = .submit s con mid r ∧ pduOf n = pduOf (fresh l s con mid r))) l :=
    (allQ_iff _ l).2 (fun n hn => Or.inl ⟨n, hn, rfl⟩)
  exact (allQ_iff _ _).1 (step_allQ hQ l ev h0 (fun s con mid r he => Or.inr ⟨s, con, mid, r, he, rfl⟩))

/-- the PDU fields and timeout of `n` are those a `coap_send` of the run built (with the session parameters at that
moment) -/
def Created : L → List Ev → Node → Prop
  | _, [], _ => False
  | l, ev :: evs, n =>
    (∃ s con mid r, ev = .submit s con mid r ∧ pduOf n = pduOf (fresh l s con mid r)) ∨ Created (Msg.step l ev) evs n

theorem created_congr {l : L} {evs : List Ev} {n n' : Node} (h : pduOf n = pduOf n') (hc : Created l evs n') :
    Created l evs n := by
  induction evs generalizing l with
  | nil => exact hc
  | cons ev evs ih =>
    rcases hc with ⟨s, con, mid, r, he, hp⟩ | hc
    · exact Or.inl ⟨s, con, mid, r, he, h.trans hp⟩
    · exact Or.inr (ih hc)

theorem run_pdu : ∀ (evs : List Ev) (l : L) (n : Node), InL (Msg.run l evs) n →
    (∃ n0, InL l n0 ∧ pduOf n = pduOf n0) ∨ Created l evs n := by
  intro evs
  induction evs with
  | nil => intro l n hn; exact Or.inl ⟨n, hn, rfl⟩
  | cons ev evs ih =>
    intro l n hn
    simp only [Msg.run, List.foldl_cons] at hn
    rcases ih (Msg.step l ev) n hn with ⟨n1, h1, hp1⟩ | hc
    · rcases step_pdu l ev n1 h1 with ⟨n0, h0, hp0⟩ | ⟨s, con, mid, r, he, hp⟩
      · exact Or.inl ⟨n0, h0, hp1.trans hp0⟩
      · exact Or.inr (Or.inl ⟨s, con, mid, r, he, hp1.trans hp⟩)
    · exact Or.inr (Or.inr hc)

end Coap.Pdu
