import CoapVerif.Lemmas.PersistCodec
/- Helper lemmas for C17: how the op sequences of the updaters act on the file system. -/
namespace Coap.Persist
open Op Name

/-! ### ops that cannot touch a save file -/

/-- ops of an update of file `F` before its `rename`: reads anywhere, writes only to `F`'s temporary file -/
def Safe (F : FileId) : Op → Prop
  | .fopen _ .r => True
  | .fopen n _ => n = tmp F
  | .fread _ _ => True
  | .fgets _ _ => True
  | .fwrite n _ => n = tmp F
  | .fflush n => n = tmp F
  | .fclose n => n = tmp F ∨ ∃ G, n = main G
  | .rename _ _ => False
  | .remove _ => False

/-- no save file is open for writing -/
def NoMainWr (fs : FS) : Prop := ∀ G, fs.wr (main G) = none

theorem upd_ne {f : Name → Option Bytes} {n m : Name} {v} (h : m ≠ n) : upd f n v m = f m := by
  simp [upd, h]

theorem upd_same {f : Name → Option Bytes} {n : Name} {v} : upd f n v n = v := by
  simp [upd]

theorem step_safe (F : FileId) (fs : FS) (op : Op) (hs : Safe F op) (hw : NoMainWr fs) :
    NoMainWr (step fs op) ∧ ∀ G, (step fs op).disk (main G) = fs.disk (main G) := by
  cases op with
  | fopen n m =>
    cases m with
    | r =>
      simp only [step]
      cases fs.disk n <;> exact ⟨hw, fun _ => rfl⟩
    | w => simp only [Safe] at hs; subst hs; simp only [step]; exact ⟨fun G => by simp [upd, hw G], fun G => by simp [upd]⟩
    | wp => simp only [Safe] at hs; subst hs; simp only [step]; exact ⟨fun G => by simp [upd, hw G], fun G => by simp [upd]⟩
    | a => simp only [Safe] at hs; subst hs; simp only [step]; exact ⟨fun G => by simp [upd, hw G], fun G => by simp [upd]⟩
  | fread n sz => simp only [step]; cases fs.rd n <;> exact ⟨hw, fun _ => rfl⟩
  | fgets n cap => simp only [step]; cases fs.rd n <;> exact ⟨hw, fun _ => rfl⟩
  | fwrite n bs =>
    simp only [Safe] at hs; subst hs; simp only [step]
    cases fs.wr (tmp F) with
    | none => exact ⟨hw, fun _ => rfl⟩
    | some b => exact ⟨fun G => by simp [upd, hw G], fun _ => rfl⟩
  | fflush n =>
    simp only [Safe] at hs; subst hs; simp only [step]
    cases fs.wr (tmp F) with
    | none => exact ⟨hw, fun _ => rfl⟩
    | some b => exact ⟨fun G => by simp [upd, hw G], fun G => by simp [upd]⟩
  | fclose n =>
    simp only [Safe] at hs
    rcases hs with h | ⟨G0, h⟩
    · subst h; simp only [step]; exact ⟨fun G => by simp [upd, hw G], fun G => by simp [upd]⟩
    · subst h; simp only [step]
      refine ⟨fun G => ?_, fun G => ?_⟩
      · by_cases hg : G = G0
        · subst hg; simp [upd]
        · have : main G ≠ main G0 := by intro h; injection h; contradiction
          simp [upd, this, hw G]
      · by_cases hg : G = G0
        · subst hg; simp [upd, flushed, hw G]
        · have : main G ≠ main G0 := by intro h; injection h; contradiction
          simp [upd, this]
  | rename a b => exact absurd hs (by simp [Safe])
  | remove a => exact absurd hs (by simp [Safe])

theorem exec_safe (F : FileId) (ops : List Op) : ∀ (fs : FS), (∀ op ∈ ops, Safe F op) → NoMainWr fs →
    NoMainWr (exec fs ops) ∧ ∀ G, (exec fs ops).disk (main G) = fs.disk (main G) := by
  induction ops with
  | nil => intro fs _ hw; exact ⟨hw, fun _ => rfl⟩
  | cons op r ih =>
    intro fs hs hw
    have h1 := step_safe F fs op (hs op (by simp)) hw
    have h2 := ih (step fs op) (fun o ho => hs o (by simp [ho])) h1.1
    refine ⟨h2.1, fun G => ?_⟩
    show (exec (step fs op) r).disk (main G) = _
    rw [h2.2 G, h1.2 G]

theorem exec_append (fs : FS) (a b : List Op) : exec fs (a ++ b) = exec (exec fs a) b := by
  simp [exec, List.foldl_append]

theorem crashDisk_main (fs : FS) (hw : NoMainWr fs) (keep : Name → Nat) (G : FileId) :
    crashDisk fs keep (main G) = fs.disk (main G) := by
  simp only [crashDisk, hw G]
  cases fs.disk (main G) <;> rfl

/-- the shape every updater has: safe ops, optionally followed by the single `rename` of the temporary file -/
def Shape (F : FileId) (ops : List Op) : Prop :=
  ∃ pre, (∀ op ∈ pre, Safe F op) ∧ (ops = pre ∨ ops = pre ++ [rename (tmp F) (main F)])

theorem mem_take {α} {l : List α} {k : Nat} {x : α} (h : x ∈ l.take k) : x ∈ l := List.mem_of_mem_take h

/-- process killed after any `k` ops of a well-shaped update: every save file holds its old contents, or every save
file holds the contents it has after the whole update -/
theorem shape_atomic (F : FileId) (ops : List Op) (hsh : Shape F ops) (fs : FS) (hw : NoMainWr fs) (k : Nat)
    (keep : Name → Nat) :
    (∀ G, crashDisk (exec fs (ops.take k)) keep (main G) = fs.disk (main G)) ∨
    (∀ G, crashDisk (exec fs (ops.take k)) keep (main G) = (exec fs ops).disk (main G)) := by
  rcases hsh with ⟨pre, hpre, h | h⟩
  · rw [h]
    left
    intro G
    have := exec_safe F (pre.take k) fs (fun o ho => hpre o (mem_take ho)) hw
    rw [crashDisk_main _ this.1, this.2]
  · rw [h]
    by_cases hk : k ≤ pre.length
    · left
      intro G
      rw [List.take_append_of_le_length hk]
      have := exec_safe F (pre.take k) fs (fun o ho => hpre o (mem_take ho)) hw
      rw [crashDisk_main _ this.1, this.2]
    · right
      intro G
      have hlen : (pre ++ [rename (tmp F) (main F)]).length ≤ k := by simp; omega
      rw [List.take_of_length_le hlen]
      have h1 := exec_safe F pre fs hpre hw
      have hw2 : NoMainWr (exec fs (pre ++ [rename (tmp F) (main F)])) := by
        rw [exec_append]
        intro G'
        simp only [exec, List.foldl, step]
        cases (List.foldl step fs pre).disk (tmp F) <;> exact h1.1 G'
      rw [crashDisk_main _ hw2]

/-! ### the shapes of the six updaters -/

theorem readsFrom_safe (F : FileId) (n : Name) (szs : List Nat) : ∀ op ∈ readsFrom n szs, Safe F op := by
  intro op h; simp only [readsFrom, List.mem_map] at h; rcases h with ⟨s, _, rfl⟩; trivial

theorem writesTo_safe (F : FileId) (ws : List Bytes) : ∀ op ∈ writesTo (tmp F) ws, Safe F op := by
  intro op h; simp only [writesTo, List.mem_map] at h; rcases h with ⟨s, _, rfl⟩; rfl

theorem dynCopy_safe (name : Bytes) : ∀ fuel bs, ∀ op ∈ dynCopy name fuel bs, Safe .dyn op := by
  intro fuel
  induction fuel with
  | zero => intro bs op h; simp [dynCopy] at h
  | succ fuel ih =>
    intro bs op h
    simp only [dynCopy] at h
    split at h
    · exact readsFrom_safe _ _ _ op h
    · simp only [List.mem_append] at h
      rcases h with (h | h) | h
      · exact readsFrom_safe _ _ _ op h
      · split at h
        · exact writesTo_safe _ _ op h
        · simp at h
      · exact ih _ op h

theorem obsCopy_safe (key : Nat) : ∀ fuel bs, ∀ op ∈ obsCopy key fuel bs, Safe .obs op := by
  intro fuel
  induction fuel with
  | zero => intro bs op h; simp [obsCopy] at h
  | succ fuel ih =>
    intro bs op h
    simp only [obsCopy] at h
    split at h
    · exact readsFrom_safe _ _ _ op h
    · simp only [List.mem_append] at h
      rcases h with (h | h) | h
      · exact readsFrom_safe _ _ _ op h
      · split at h
        · exact writesTo_safe _ _ op h
        · simp at h
      · exact ih _ op h

theorem cntCopy_safe (name : Bytes) : ∀ fuel bs, ∀ op ∈ cntCopy name fuel bs, Safe .cnt op := by
  intro fuel
  induction fuel with
  | zero => intro bs op h; simp [cntCopy] at h
  | succ fuel ih =>
    intro bs op h
    cases hc : cntLine bs with
    | none => simp [cntCopy, hc] at h; subst h; trivial
    | some p =>
      rcases p with ⟨o, rest⟩
      cases o with
      | none => simp [cntCopy, hc] at h; subst h; trivial
      | some r =>
        simp only [cntCopy, hc, List.mem_cons, List.mem_append] at h
        rcases h with (h | h) | h
        · subst h; trivial
        · by_cases hn : r.name ≠ name
          · simp [hn] at h; subst h; rfl
          · simp [hn] at h
        · exact ih _ op h

/-! ### what a rewrite leaves in the save file -/

/-- the bytes a list of ops appends to stream `n` -/
def writesOf (n : Name) : List Op → Bytes
  | [] => []
  | .fwrite m bs :: r => if m = n then bs ++ writesOf n r else writesOf n r
  | _ :: r => writesOf n r

/-- the body of a rewrite: reads, and writes to the temporary file -/
def Body (F : FileId) : Op → Prop
  | .fread _ _ => True
  | .fgets _ _ => True
  | .fwrite n _ => n = tmp F
  | _ => False

theorem exec_body (F : FileId) (ops : List Op) : ∀ (fs : FS) (buf : Bytes), (∀ op ∈ ops, Body F op) →
    fs.wr (tmp F) = some buf →
    (exec fs ops).wr (tmp F) = some (buf ++ writesOf (tmp F) ops) ∧ (exec fs ops).disk = fs.disk ∧
    (∀ G, (exec fs ops).wr (main G) = fs.wr (main G)) := by
  induction ops with
  | nil => intro fs buf _ h; simp [exec, writesOf, h]
  | cons op r ih =>
    intro fs buf hb hw
    have hop := hb op (by simp)
    have hr : ∀ o ∈ r, Body F o := fun o ho => hb o (by simp [ho])
    cases op with
    | fread n sz =>
      have : (step fs (fread n sz)).wr = fs.wr ∧ (step fs (fread n sz)).disk = fs.disk := by
        simp only [step]; cases fs.rd n <;> exact ⟨rfl, rfl⟩
      have h := ih (step fs (fread n sz)) buf hr (by rw [this.1]; exact hw)
      refine ⟨?_, ?_, ?_⟩
      · show (exec (step fs (fread n sz)) r).wr (tmp F) = _
        rw [h.1]; simp [writesOf]
      · show (exec (step fs (fread n sz)) r).disk = _
        rw [h.2.1, this.2]
      · intro G; show (exec (step fs (fread n sz)) r).wr (main G) = _
        rw [h.2.2 G, this.1]
    | fgets n cap =>
      have : (step fs (fgets n cap)).wr = fs.wr ∧ (step fs (fgets n cap)).disk = fs.disk := by
        simp only [step]; cases fs.rd n <;> exact ⟨rfl, rfl⟩
      have h := ih (step fs (fgets n cap)) buf hr (by rw [this.1]; exact hw)
      refine ⟨?_, ?_, ?_⟩
      · show (exec (step fs (fgets n cap)) r).wr (tmp F) = _
        rw [h.1]; simp [writesOf]
      · show (exec (step fs (fgets n cap)) r).disk = _
        rw [h.2.1, this.2]
      · intro G; show (exec (step fs (fgets n cap)) r).wr (main G) = _
        rw [h.2.2 G, this.1]
    | fwrite n bs =>
      simp only [Body] at hop; subst hop
      have hs : step fs (fwrite (tmp F) bs) = { fs with wr := upd fs.wr (tmp F) (some (buf ++ bs)) } := by
        simp only [step, hw]
      have h := ih (step fs (fwrite (tmp F) bs)) (buf ++ bs) hr (by rw [hs]; simp [upd])
      refine ⟨?_, ?_, ?_⟩
      · show (exec (step fs (fwrite (tmp F) bs)) r).wr (tmp F) = _
        rw [h.1]; simp [writesOf, List.append_assoc]
      · show (exec (step fs (fwrite (tmp F) bs)) r).disk = _
        rw [h.2.1, hs]
      · intro G; show (exec (step fs (fwrite (tmp F) bs)) r).wr (main G) = _
        rw [h.2.2 G, hs]; simp [upd]
    | fopen n m => exact absurd hop (by simp [Body])
    | fflush n => exact absurd hop (by simp [Body])
    | fclose n => exact absurd hop (by simp [Body])
    | rename a b => exact absurd hop (by simp [Body])
    | remove a => exact absurd hop (by simp [Body])

/-- the common frame of all six updaters: open, body, flush, close, [close the original], rename -/
def frame (F : FileId) (body : List Op) (closeMain : Bool) : List Op :=
  [fopen (main F) .r, fopen (tmp F) .wp] ++ body ++ [fflush (tmp F), fclose (tmp F)] ++
  (if closeMain then [fclose (main F)] else []) ++ [rename (tmp F) (main F)]

theorem frame_result (F : FileId) (body : List Op) (closeMain : Bool) (fs : FS) (hb : ∀ op ∈ body, Body F op)
    (hw : NoMainWr fs) :
    (exec fs (frame F body closeMain)).disk (main F) = some (writesOf (tmp F) body) := by
  have hne : main F ≠ tmp F := by intro h; injection h
  have hne' : tmp F ≠ main F := by intro h; injection h
  -- after the two fopen
  let fs1 := step fs (fopen (main F) .r)
  have h1 : fs1.wr = fs.wr ∧ fs1.disk = fs.disk := by
    simp only [fs1, step]; cases fs.disk (main F) <;> exact ⟨rfl, rfl⟩
  let fs2 := step fs1 (fopen (tmp F) .wp)
  have h2w : fs2.wr (tmp F) = some [] := by simp [fs2, step, upd]
  have h2m : ∀ G, fs2.wr (main G) = none := by
    intro G; simp only [fs2, step]; rw [upd_ne (by intro h; injection h), h1.1]; exact hw G
  have h2d : fs2.disk (tmp F) = some [] := by simp [fs2, step, upd]
  have h2dm : fs2.disk (main F) = fs.disk (main F) := by
    simp only [fs2, step]; rw [upd_ne hne, h1.2]
  have hB := exec_body F body fs2 [] hb h2w
  let fs3 := exec fs2 body
  have h3w : fs3.wr (tmp F) = some (writesOf (tmp F) body) := by simpa using hB.1
  have h3d : fs3.disk = fs2.disk := hB.2.1
  have h3m : ∀ G, fs3.wr (main G) = none := fun G => by rw [hB.2.2 G]; exact h2m G
  -- fflush, fclose tmp
  let fs4 := step fs3 (fflush (tmp F))
  have h4 : fs4.disk (tmp F) = some (writesOf (tmp F) body) ∧ fs4.wr (tmp F) = some [] ∧
      (∀ G, fs4.wr (main G) = none) ∧ fs4.disk (main F) = fs.disk (main F) := by
    simp only [fs4, step, h3w]
    refine ⟨?_, ?_, ?_, ?_⟩
    · simp [upd, flushed, h3w, h3d, h2d]
    · simp [upd]
    · intro G; rw [upd_ne (by intro h; injection h)]; exact h3m G
    · show upd fs3.disk (tmp F) _ (main F) = _
      rw [upd_ne hne, h3d, h2dm]
  let fs5 := step fs4 (fclose (tmp F))
  have h5 : fs5.disk (tmp F) = some (writesOf (tmp F) body) ∧ (∀ G, fs5.wr (main G) = none) ∧
      fs5.disk (main F) = fs.disk (main F) := by
    simp only [fs5, step]
    refine ⟨?_, ?_, ?_⟩
    · simp [upd, flushed, h4.1, h4.2.1]
    · intro G; rw [upd_ne (by intro h; injection h)]; exact h4.2.2.1 G
    · rw [upd_ne hne]; exact h4.2.2.2
  -- optional fclose of the original
  let fs6 := exec fs5 (if closeMain then [fclose (main F)] else [])
  have h6 : fs6.disk (tmp F) = some (writesOf (tmp F) body) := by
    cases closeMain with
    | false => simpa [fs6, exec] using h5.1
    | true =>
      simp only [fs6, exec, if_true, List.foldl, step]
      rw [upd_ne hne']; exact h5.1
  have hall : exec fs (frame F body closeMain) = step fs6 (rename (tmp F) (main F)) := by
    simp only [frame, exec_append]
    rfl
  rw [hall]
  simp only [step, h6]
  simp [upd, hne]

theorem frame_shape (F : FileId) (body : List Op) (closeMain : Bool) (hb : ∀ op ∈ body, Safe F op) :
    Shape F (frame F body closeMain) := by
  refine ⟨[fopen (main F) .r, fopen (tmp F) .wp] ++ body ++ [fflush (tmp F), fclose (tmp F)] ++
      (if closeMain then [fclose (main F)] else []), ?_, Or.inr rfl⟩
  intro op h
  simp only [List.mem_append, List.mem_cons, List.not_mem_nil, or_false] at h
  rcases h with ((h | h) | h) | h
  · rcases h with h | h <;> subst h
    · trivial
    · rfl
  · exact hb op h
  · rcases h with h | h <;> subst h
    · rfl
    · exact Or.inl rfl
  · cases closeMain with
    | false => simp at h
    | true => simp at h; subst h; exact Or.inr ⟨F, rfl⟩

theorem body_of_safe_copy {F : FileId} {ops : List Op} (h : ∀ op ∈ ops, Body F op) : ∀ op ∈ ops, Safe F op := by
  intro op ho
  have := h op ho
  cases op <;> simp_all [Body, Safe]

/-! ### bodies of the copy loops and what they write -/

theorem readsFrom_body (F : FileId) (n : Name) (szs : List Nat) : ∀ op ∈ readsFrom n szs, Body F op := by
  intro op h; simp only [readsFrom, List.mem_map] at h; rcases h with ⟨s, _, rfl⟩; trivial

theorem writesTo_body (F : FileId) (ws : List Bytes) : ∀ op ∈ writesTo (tmp F) ws, Body F op := by
  intro op h; simp only [writesTo, List.mem_map] at h; rcases h with ⟨s, _, rfl⟩; rfl

theorem writesOf_append (n : Name) (a b : List Op) : writesOf n (a ++ b) = writesOf n a ++ writesOf n b := by
  induction a with
  | nil => simp [writesOf]
  | cons op r ih =>
    cases op <;> simp [writesOf, ih]
    split <;> simp

theorem writesOf_reads (n m : Name) (szs : List Nat) : writesOf n (readsFrom m szs) = [] := by
  induction szs with
  | nil => rfl
  | cons s r ih => simpa [readsFrom, writesOf] using ih

theorem writesOf_writes (n : Name) (ws : List Bytes) : writesOf n (writesTo n ws) = ws.flatten := by
  induction ws with
  | nil => rfl
  | cons s r ih => simp only [writesTo, List.map] at ih ⊢; simp [writesOf, ih]

theorem dynWrites_flatten (r : DynRec) : (dynWrites r).flatten = encDyn r := by
  by_cases h : r.name.length = 0
  · have : r.name = [] := List.eq_nil_of_length_eq_zero h
    simp [dynWrites, encDyn, this]
  · simp [dynWrites, encDyn, h]

theorem dynCopy_body (name : Bytes) : ∀ fuel bs, ∀ op ∈ dynCopy name fuel bs, Body .dyn op := by
  intro fuel
  induction fuel with
  | zero => intro bs op h; simp [dynCopy] at h
  | succ fuel ih =>
    intro bs op h
    simp only [dynCopy] at h
    split at h
    · exact readsFrom_body _ _ _ op h
    · simp only [List.mem_append] at h
      rcases h with (h | h) | h
      · exact readsFrom_body _ _ _ op h
      · split at h
        · exact writesTo_body _ _ op h
        · simp at h
      · exact ih _ op h

theorem obsCopy_body (key : Nat) : ∀ fuel bs, ∀ op ∈ obsCopy key fuel bs, Body .obs op := by
  intro fuel
  induction fuel with
  | zero => intro bs op h; simp [obsCopy] at h
  | succ fuel ih =>
    intro bs op h
    simp only [obsCopy] at h
    split at h
    · exact readsFrom_body _ _ _ op h
    · simp only [List.mem_append] at h
      rcases h with (h | h) | h
      · exact readsFrom_body _ _ _ op h
      · split at h
        · exact writesTo_body _ _ op h
        · simp at h
      · exact ih _ op h

theorem cntCopy_body (name : Bytes) : ∀ fuel bs, ∀ op ∈ cntCopy name fuel bs, Body .cnt op := by
  intro fuel
  induction fuel with
  | zero => intro bs op h; simp [cntCopy] at h
  | succ fuel ih =>
    intro bs op h
    cases hc : cntLine bs with
    | none => simp [cntCopy, hc] at h; subst h; trivial
    | some p =>
      rcases p with ⟨o, rest⟩
      cases o with
      | none => simp [cntCopy, hc] at h; subst h; trivial
      | some r =>
        simp only [cntCopy, hc, List.mem_cons, List.mem_append] at h
        rcases h with (h | h) | h
        · subst h; trivial
        · by_cases hn : r.name ≠ name
          · simp [hn] at h; subst h; rfl
          · simp [hn] at h
        · exact ih _ op h

/-- the copy loop writes the re-encoding of every record it decodes, except `name`'s -/
theorem dynCopy_writes (name : Bytes) : ∀ fuel bs,
    writesOf (tmp .dyn) (dynCopy name fuel bs) = ((dynAll fuel bs).filter (·.name ≠ name)).flatMap encDyn := by
  intro fuel
  induction fuel with
  | zero => intro bs; simp [dynCopy, dynAll, writesOf]
  | succ fuel ih =>
    intro bs
    simp only [dynCopy, dynAll]
    rcases hr : dynRead bs with ⟨szs, _ | ⟨r, rest⟩⟩
    · simp [writesOf_reads]
    · simp only [writesOf_append, writesOf_reads, ih rest, List.nil_append]
      by_cases hn : r.name ≠ name
      · simp [hn, writesOf_writes, dynWrites_flatten, List.filter_cons]
      · simp [hn, writesOf, List.filter_cons]

theorem obsCopy_writes (key : Nat) : ∀ fuel bs,
    writesOf (tmp .obs) (obsCopy key fuel bs) = ((obsAll fuel bs).filter (·.key ≠ key)).flatMap encObs := by
  intro fuel
  induction fuel with
  | zero => intro bs; simp [obsCopy, obsAll, writesOf]
  | succ fuel ih =>
    intro bs
    simp only [obsCopy, obsAll]
    rcases hr : obsRead bs with ⟨szs, _ | ⟨r, rest⟩⟩
    · simp [writesOf_reads]
    · simp only [writesOf_append, writesOf_reads, ih rest, List.nil_append]
      by_cases hn : r.key ≠ key
      · simp [hn, writesOf_writes, encObs, List.filter_cons]
      · simp [hn, writesOf, List.filter_cons]

theorem cntCopy_writes (name : Bytes) : ∀ fuel bs,
    writesOf (tmp .cnt) (cntCopy name fuel bs) = ((cntAll fuel bs).filter (·.name ≠ name)).flatMap encCnt := by
  intro fuel
  induction fuel with
  | zero => intro bs; simp [cntCopy, cntAll, writesOf]
  | succ fuel ih =>
    intro bs
    simp only [cntCopy, cntAll]
    cases hc : cntLine bs with
    | none => simp [writesOf]
    | some p =>
      rcases p with ⟨o, rest⟩
      cases o with
      | none => simp [writesOf]
      | some r =>
        by_cases hn : r.name ≠ name
        · simp [hn, writesOf, writesOf_append, ih rest, List.filter_cons]
        · simp [hn, writesOf, ih rest, List.filter_cons]

/-! ### the six updaters -/

inductive Updater
  | dynAdded (r : DynRec)
  | dynDeleted (name : Bytes)
  | obsAdded (r : ObsRec)
  | obsDeleted (key : Nat)
  | cntTrack (r : CntRec)
  | cntDeleted (name : Bytes)

def Updater.file : Updater → FileId
  | .dynAdded _ | .dynDeleted _ => .dyn
  | .obsAdded _ | .obsDeleted _ => .obs
  | .cntTrack _ | .cntDeleted _ => .cnt

/-- the stdio / rename calls the updater makes when it finds the file system `fs` -/
def Updater.ops (fs : FS) : Updater → List Op
  | .dynAdded r => Persist.dynAdded fs r
  | .dynDeleted n => Persist.dynDeleted fs n
  | .obsAdded r => Persist.obsAdded fs r
  | .obsDeleted k => Persist.obsDeleted fs k
  | .cntTrack r => Persist.cntTrack fs r
  | .cntDeleted n => Persist.cntDeleted fs n

theorem dynAdded_frame (fs : FS) (r : DynRec) :
    Persist.dynAdded fs r = frame .dyn ((if exists? fs (main .dyn) then
      dynCopy r.name ((content fs (main .dyn)).length + 1) (content fs (main .dyn)) else []) ++
      writesTo (tmp .dyn) (dynWrites r)) (exists? fs (main .dyn)) := by
  simp [Persist.dynAdded, frame, List.append_assoc]

theorem obsAdded_frame (fs : FS) (r : ObsRec) :
    Persist.obsAdded fs r = frame .obs ((if exists? fs (main .obs) then
      obsCopy r.key ((content fs (main .obs)).length + 1) (content fs (main .obs)) else []) ++
      writesTo (tmp .obs) (obsWrites r)) (exists? fs (main .obs)) := by
  simp [Persist.obsAdded, frame, List.append_assoc]

theorem cntTrack_frame (fs : FS) (r : CntRec) :
    Persist.cntTrack fs r = frame .cnt ((if exists? fs (main .cnt) then
      cntCopy r.name ((content fs (main .cnt)).length + 1) (content fs (main .cnt)) else []) ++
      [fwrite (tmp .cnt) (encCnt r)]) (exists? fs (main .cnt)) := by
  simp [Persist.cntTrack, frame, List.append_assoc]

theorem dynDeleted_frame (fs : FS) (n : Bytes) (h : exists? fs (main .dyn) = true) :
    Persist.dynDeleted fs n = frame .dyn (dynCopy n ((content fs (main .dyn)).length + 1) (content fs (main .dyn))) true := by
  simp [Persist.dynDeleted, frame, h, List.append_assoc]

theorem obsDeleted_frame (fs : FS) (k : Nat) (h : exists? fs (main .obs) = true) :
    Persist.obsDeleted fs k = frame .obs (obsCopy k ((content fs (main .obs)).length + 1) (content fs (main .obs))) true := by
  simp [Persist.obsDeleted, frame, h, List.append_assoc]

theorem cntDeleted_frame (fs : FS) (n : Bytes) (h : exists? fs (main .cnt) = true) :
    Persist.cntDeleted fs n = frame .cnt (cntCopy n ((content fs (main .cnt)).length + 1) (content fs (main .cnt))) true := by
  simp [Persist.cntDeleted, frame, h, List.append_assoc]

theorem body_added_dyn (fs : FS) (r : DynRec) : ∀ op ∈ (if exists? fs (main .dyn) then
      dynCopy r.name ((content fs (main .dyn)).length + 1) (content fs (main .dyn)) else []) ++
      writesTo (tmp .dyn) (dynWrites r), Body .dyn op := by
  intro op h
  simp only [List.mem_append] at h
  rcases h with h | h
  · split at h
    · exact dynCopy_body _ _ _ op h
    · simp at h
  · exact writesTo_body _ _ op h

theorem body_added_obs (fs : FS) (r : ObsRec) : ∀ op ∈ (if exists? fs (main .obs) then
      obsCopy r.key ((content fs (main .obs)).length + 1) (content fs (main .obs)) else []) ++
      writesTo (tmp .obs) (obsWrites r), Body .obs op := by
  intro op h
  simp only [List.mem_append] at h
  rcases h with h | h
  · split at h
    · exact obsCopy_body _ _ _ op h
    · simp at h
  · exact writesTo_body _ _ op h

theorem body_track_cnt (fs : FS) (r : CntRec) : ∀ op ∈ (if exists? fs (main .cnt) then
      cntCopy r.name ((content fs (main .cnt)).length + 1) (content fs (main .cnt)) else []) ++
      [fwrite (tmp .cnt) (encCnt r)], Body .cnt op := by
  intro op h
  simp only [List.mem_append] at h
  rcases h with h | h
  · split at h
    · exact cntCopy_body _ _ _ op h
    · simp at h
  · simp at h; subst h; rfl

theorem single_open_shape (F : FileId) : Shape F [fopen (main F) .r] :=
  ⟨[fopen (main F) .r], by intro op h; simp at h; subst h; trivial, Or.inl rfl⟩

theorem updater_shape (u : Updater) (fs : FS) : Shape u.file (u.ops fs) := by
  cases u with
  | dynAdded r =>
    simp only [Updater.ops, Updater.file]; rw [dynAdded_frame]
    exact frame_shape _ _ _ (body_of_safe_copy (body_added_dyn fs r))
  | obsAdded r =>
    simp only [Updater.ops, Updater.file]; rw [obsAdded_frame]
    exact frame_shape _ _ _ (body_of_safe_copy (body_added_obs fs r))
  | cntTrack r =>
    simp only [Updater.ops, Updater.file]; rw [cntTrack_frame]
    exact frame_shape _ _ _ (body_of_safe_copy (body_track_cnt fs r))
  | dynDeleted n =>
    simp only [Updater.ops, Updater.file]
    cases h : exists? fs (main .dyn) with
    | true => rw [dynDeleted_frame fs n h]; exact frame_shape _ _ _ (body_of_safe_copy (dynCopy_body _ _ _))
    | false => simp only [Persist.dynDeleted, h]; exact single_open_shape _
  | obsDeleted k =>
    simp only [Updater.ops, Updater.file]
    cases h : exists? fs (main .obs) with
    | true => rw [obsDeleted_frame fs k h]; exact frame_shape _ _ _ (body_of_safe_copy (obsCopy_body _ _ _))
    | false => simp only [Persist.obsDeleted, h]; exact single_open_shape _
  | cntDeleted n =>
    simp only [Updater.ops, Updater.file]
    cases h : exists? fs (main .cnt) with
    | true => rw [cntDeleted_frame fs n h]; exact frame_shape _ _ _ (body_of_safe_copy (cntCopy_body _ _ _))
    | false => simp only [Persist.cntDeleted, h]; exact single_open_shape _

end Coap.Persist
