import CoapVerif.Lemmas.EditApi
/-
M-side lemmas for the editors (C04) and the builders (C01), part 5: the abstract outcomes of the API calls are steps of
the specification (`Step`: accepted = `Spec.applyEdit`, refused = nothing changes), whole scripts
(`Trace`, `run_refines`).
-/
namespace Coap
open Coap.M

/-! ### the abstract outcomes refine the specification -/

/-- S: what an ACCEPTED call does to the abstract message (`Spec.applyEdit` for the option / token calls) -/
def callSem (hop : Bool) (a : Msg) : Call → Msg
  | .addToken t => { a with token := t }
  | .addOption n v => Spec.applyEdit hop a (.insert n v)
  | .insertOption n v => Spec.applyEdit hop a (.insert n v)
  | .updateOption n v => Spec.applyEdit hop a (.update n v)
  | .removeOption n => Spec.applyEdit hop a (.remove n)
  | .updateToken t => Spec.applyEdit hop a (.setToken t)
  | .addData d => if d = [] then a else { a with payload := d }

/-- D13: the calls that may be accompanied by the implicit Hop-Limit -/
def hopDomain (a : Msg) : Call → Bool
  | .addOption n _ => Spec.hopApplies a.code n a.opts
  | .insertOption n _ => Spec.hopApplies a.code n a.opts
  | .updateOption n _ => Spec.hopApplies a.code n a.opts && !Spec.hasOpt n a.opts
  | _ => false

/-- what one call does to the abstract message: accepted = the abstract operation of S (D13: with or without the
implicit Hop-Limit, the former only where D13 allows it), refused = nothing (D14).
(Before the fix of hop-limit-left-by-refused-proxy there was a third constructor
 `leftover : hopDomain a c = true → Step a c 0 { a with opts := Spec.insertStable 16 [16] a.opts }`.) -/
inductive Step (a : Msg) (c : Call) : Nat → Msg → Prop
  | accepted (rc : Nat) (hop : Bool) : rc ≠ 0 → (hop = true → hopDomain a c = true) → Step a c rc (callSem hop a c)
  | refused : Step a c 0 a

/-- a script on the abstract message -/
inductive Trace : Msg → List Call → List Nat → Msg → Prop
  | nil (a : Msg) : Trace a [] [] a
  | cons {a a1 a' : Msg} {c : Call} {rc : Nat} {cs : List Call} {rcs : List Nat} :
      Step a c rc a1 → Trace a1 cs rcs a' → Trace a (c :: cs) (rc :: rcs) a'

theorem encOpt_length_pos (d : Nat) (v : Bytes) : (Spec.encOpt d v).length ≠ 0 := by
  rw [encOpt_length]; omega

theorem absPlace_cases (ms : Nat) (a : Msg) (n : Nat) (v : Bytes) :
    ((absPlace ms a n v).1 = (Spec.encOpt (n - prevNum n a.opts) v).length ∧ (absPlace ms a n v).1 ≠ 0 ∧
      (absPlace ms a n v).2 = { a with opts := Spec.insertStable n v a.opts }) ∨
    ((absPlace ms a n v).1 = 0 ∧ (absPlace ms a n v).2 = a ∧ ms ≠ 0) := by
  unfold absPlace
  split
  · exact Or.inl ⟨rfl, encOpt_length_pos _ _, rfl⟩
  · rename_i h
    exact Or.inr ⟨rfl, rfl, fun h0 => h (Or.inl h0)⟩

/-- the two possible outcomes of an option-adding call -/
def AddOutcome (ms : Nat) (a : Msg) (n : Nat) (v : Bytes) (r : Nat × Msg) : Prop :=
  (r.1 ≠ 0 ∧ ∃ hop : Bool, (hop = true → Spec.hopApplies a.code n a.opts = true) ∧
      r.2 = { a with opts := Spec.addSem hop n v a.opts }) ∨
  (r.1 = 0 ∧ r.2 = a ∧ (v.length > 65804 ∨ (n = lastNum a.opts ∧ ¬ repeatable n = true) ∨ ms ≠ 0))

theorem absAdd_cases (ms : Nat) (a : Msg) (n : Nat) (v : Bytes) : AddOutcome ms a n v (absAdd ms a n v) := by
  unfold absAdd AddOutcome
  by_cases hv : v.length > 65804
  · rw [if_pos hv]; exact Or.inr ⟨rfl, rfl, Or.inl hv⟩
  · rw [if_neg hv]
    by_cases hrep : n = lastNum a.opts ∧ ¬ repeatable n = true
    · rw [if_pos hrep]; exact Or.inr ⟨rfl, rfl, Or.inr (Or.inl hrep)⟩
    · rw [if_neg hrep]
      obtain ⟨a1, ha1⟩ : ∃ a1, a1 = (if Spec.hopApplies a.code n a.opts = true then (absPlace ms a 16 [16]).2 else a) := ⟨_, rfl⟩
      have hcase : a1 = a ∨ (Spec.hopApplies a.code n a.opts = true ∧ a1 = { a with opts := Spec.insertStable 16 [16] a.opts }) := by
        by_cases hhop : Spec.hopApplies a.code n a.opts = true
        · rw [ha1, if_pos hhop]
          rcases absPlace_cases ms a 16 [16] with ⟨_, _, h2⟩ | ⟨_, h2, _⟩
          · exact Or.inr ⟨hhop, h2⟩
          · exact Or.inl h2
        · rw [ha1, if_neg hhop]; exact Or.inl rfl
      rw [← ha1]
      rcases absPlace_cases ms a1 n v with ⟨_, k1, k2⟩ | ⟨k1, _, k3⟩
      · rw [if_neg k1]
        rcases hcase with h | ⟨hh, h⟩
        · exact Or.inl ⟨k1, false, (fun h => by cases h), by rw [k2, h]; rfl⟩
        · exact Or.inl ⟨k1, true, (fun _ => hh), by rw [k2, h]; rfl⟩
      · rw [if_pos k1]
        exact Or.inr ⟨rfl, rfl, Or.inr (Or.inr k3)⟩

theorem absInsert_cases (ms : Nat) (a : Msg) (n : Nat) (v : Bytes) : AddOutcome ms a n v (absInsert ms a n v) := by
  unfold absInsert
  by_cases hv : v.length > 65804
  · rw [if_pos hv]; exact Or.inr ⟨rfl, rfl, Or.inl hv⟩
  · rw [if_neg hv]
    split
    · exact absAdd_cases ms a n v
    · rcases absPlace_cases ms a n v with ⟨_, k1, k2⟩ | ⟨k1, k2, k3⟩
      · exact Or.inl ⟨k1, false, (fun h => by cases h), by rw [k2]; rfl⟩
      · exact Or.inr ⟨k1, k2, Or.inr (Or.inr k3)⟩

/-- each abstract outcome is a `Step` of the specification -/
theorem absCall_step (ms : Nat) (a : Msg) (c : Call) : Step a c (absCall ms a c).1 (absCall ms a c).2 := by
  cases c with
  | addToken t =>
    show Step a (.addToken t) (absAddToken ms a t).1 (absAddToken ms a t).2
    unfold absAddToken
    split
    · exact Step.refused
    · exact Step.accepted 1 false (by omega) (fun h => by cases h)
  | addOption n v =>
    show Step a (.addOption n v) (if a.payload ≠ [] then (0, a) else absAdd ms a n v).1
      (if a.payload ≠ [] then (0, a) else absAdd ms a n v).2
    split
    · exact Step.refused
    · rcases absAdd_cases ms a n v with ⟨k1, hop, k2, k3⟩ | ⟨k1, k2, _⟩
      · rw [k3]; exact Step.accepted _ hop k1 k2
      · rw [k1, k2]; exact Step.refused
  | insertOption n v =>
    show Step a (.insertOption n v) (absInsert ms a n v).1 (absInsert ms a n v).2
    rcases absInsert_cases ms a n v with ⟨k1, hop, k2, k3⟩ | ⟨k1, k2, _⟩
    · rw [k3]; exact Step.accepted _ hop k1 k2
    · rw [k1, k2]; exact Step.refused
  | updateOption n v =>
    show Step a (.updateOption n v) (absUpdate ms a n v).1 (absUpdate ms a n v).2
    unfold absUpdate
    by_cases hv : v.length > 65804
    · rw [if_pos hv]; exact Step.refused
    · rw [if_neg hv]
      cases hh : Spec.hasOpt n a.opts with
      | true =>
        simp only [if_true]
        split
        · have : callSem false a (.updateOption n v) = { a with opts := Spec.replaceFirst n v a.opts } := by
            simp [callSem, Spec.applyEdit, hh]
          rw [← this]
          exact Step.accepted 1 false (by omega) (fun h => by cases h)
        · exact Step.refused
      | false =>
        have hf : (false = true) = False := by simp
        simp only [hf, if_false]
        have hsem : ∀ hop, callSem hop a (.updateOption n v) = { a with opts := Spec.addSem hop n v a.opts } := by
          intro hop; simp [callSem, Spec.applyEdit, hh]
        have hdom : hopDomain a (.updateOption n v) = Spec.hopApplies a.code n a.opts := by
          simp [hopDomain, hh]
        rcases absInsert_cases ms a n v with ⟨k1, hop, k2, k3⟩ | ⟨k1, k2, _⟩
        · rw [k3, ← hsem hop]; exact Step.accepted _ hop k1 (by rw [hdom]; exact k2)
        · rw [k1, k2]; exact Step.refused
  | removeOption n =>
    show Step a (.removeOption n) (absRemove a n).1 (absRemove a n).2
    unfold absRemove
    split
    · exact Step.accepted 1 false (by omega) (fun h => by cases h)
    · exact Step.refused
  | updateToken t =>
    show Step a (.updateToken t) (absSetToken ms a t).1 (absSetToken ms a t).2
    unfold absSetToken
    split
    · exact Step.refused
    · split
      · exact Step.accepted 1 false (by omega) (fun h => by cases h)
      · exact Step.refused
  | addData d =>
    show Step a (.addData d) (absAddData ms a d).1 (absAddData ms a d).2
    unfold absAddData
    by_cases hd : d = []
    · rw [if_pos hd]
      have : callSem false a (.addData d) = a := by simp [callSem, hd]
      have h := Step.accepted (a := a) (c := .addData d) 1 false (by omega) (fun h => by cases h)
      rw [this] at h
      exact h
    · rw [if_neg hd]
      split
      · exact Step.refused
      · have : callSem false a (.addData d) = { a with payload := d } := by simp [callSem, hd]
        rw [← this]
        exact Step.accepted 1 false (by omega) (fun h => by cases h)

theorem absRun_trace (ms : Nat) (cs : List Call) : ∀ a, Trace a cs (absRun ms a cs).1 (absRun ms a cs).2 := by
  induction cs with
  | nil => intro a; exact Trace.nil a
  | cons c cs ih => intro a; exact Trace.cons (absCall_step ms a c) (ih _)

/-- **M refines S, whole scripts**: any script of API calls (any order, builders and editors mixed, any capacity), run
by M on the PDU that represents `a`, ends — without ever leaving the buffer — on the PDU that represents an abstract
message reached from `a` by the specification's steps with exactly M's return codes -/
theorem run_refines (ms : Nat) (a : Msg) (cs : List Call) (hs : Shape a) (hc : ∀ c ∈ cs, callNumOk c) :
    ∃ rcs a', run (conc ms a) cs = R.ok (rcs, conc ms a') ∧ Trace a cs rcs a' ∧ Shape a' :=
  ⟨_, _, (run_conc ms cs a hs hc).1, absRun_trace ms cs a, (run_conc ms cs a hs hc).2⟩

/-! ### the editors' calls as `Spec.Edit`s (C04) -/

/-- the API call that performs an abstract edit -/
def callOf : Spec.Edit → Call
  | .insert n v => .insertOption n v
  | .update n v => .updateOption n v
  | .remove n => .removeOption n
  | .setToken t => .updateToken t

/-- `coap_option_num_t` is 16 bits wide -/
def editNumOk : Spec.Edit → Prop
  | .insert n _ => n ≤ 65535
  | .update n _ => n ≤ 65535
  | .remove n => n ≤ 65535
  | .setToken _ => True

/-- the same edits applied to the abstract model, with M's return codes: an accepted edit is `Spec.applyEdit` (D13:
Hop-Limit only where allowed), a refused one changes nothing (D14) -/
inductive EditTrace : Msg → List Spec.Edit → List Nat → Msg → Prop
  | nil (a : Msg) : EditTrace a [] [] a
  | accepted {a a' : Msg} {e : Spec.Edit} {es : List Spec.Edit} {rc : Nat} {rcs : List Nat} (hop : Bool) :
      rc ≠ 0 → (hop = true → hopDomain a (callOf e) = true) →
      EditTrace (Spec.applyEdit hop a e) es rcs a' → EditTrace a (e :: es) (rc :: rcs) a'
  | refused {a a' : Msg} {e : Spec.Edit} {es : List Spec.Edit} {rcs : List Nat} :
      EditTrace a es rcs a' → EditTrace a (e :: es) (0 :: rcs) a'

theorem callSem_callOf (hop : Bool) (a : Msg) (e : Spec.Edit) : callSem hop a (callOf e) = Spec.applyEdit hop a e := by
  cases e <;> rfl

theorem editTrace_of_trace (es : List Spec.Edit) : ∀ (a a' : Msg) (rcs : List Nat),
    Trace a (es.map callOf) rcs a' → EditTrace a es rcs a' := by
  induction es with
  | nil =>
    intro a a' rcs h
    cases h
    exact EditTrace.nil a
  | cons e es ih =>
    intro a a' rcs h
    rw [List.map_cons] at h
    cases h with
    | cons hstep htail =>
      have ht := ih _ _ _ htail
      cases hstep with
      | accepted rc hop h1 h2 =>
        rw [callSem_callOf] at ht
        exact EditTrace.accepted hop h1 h2 ht
      | refused => exact EditTrace.refused ht

end Coap
