import CoapVerif.Spec.Oscore
import CoapVerif.Model.Oscore
/- Helper lemmas for C14: key-stream xor, CCM structure, big-endian digits, CBOR heads. -/
namespace Coap
open Coap.Spec.Crypto Coap.Spec.Oscore

theorem u8_xor_cancel (x k : UInt8) : (x ^^^ k) ^^^ k = x := by
  rw [UInt8.xor_assoc, UInt8.xor_self, UInt8.xor_zero]

theorem xorKs_length (a ks : Bytes) : (xorKs a ks).length = a.length := by
  induction a generalizing ks with
  | nil => cases ks <;> simp [xorKs]
  | cons x a ih => cases ks <;> simp [xorKs, ih]

theorem xorKs_xorKs (a ks : Bytes) : xorKs (xorKs a ks) ks = a := by
  induction a generalizing ks with
  | nil => cases ks <;> simp [xorKs]
  | cons x a ih => cases ks <;> simp [xorKs, ih, u8_xor_cancel]

theorem xorKs_inj (a b ks : Bytes) (h : xorKs a ks = xorKs b ks) : a = b := by
  have := congrArg (fun x => xorKs x ks) h
  simpa [xorKs_xorKs] using this

theorem fit_length (n : Nat) (l : Bytes) : (fit n l).length = n := by
  simp [fit]

theorem ccmTag_length (E : Bytes → Bytes) (M : Nat) (n a p : Bytes) : (ccmTag E M n a p).length = M := by
  simp [ccmTag, fit_length]

theorem ccmCtr_length (E : Bytes → Bytes) (n p : Bytes) : (ccmCtr E n p).length = p.length := by
  simp [ccmCtr, xorKs_length]

theorem ccmCtr_ccmCtr (E : Bytes → Bytes) (n p : Bytes) : ccmCtr E n (ccmCtr E n p) = p := by
  simp only [ccmCtr, xorKs_length, xorKs_xorKs]

theorem decode_flags (piv r : Bytes) (h k : Nat) (hp : piv.length ≤ 5) (hh : h ≤ 1) (hk : k ≤ 1)
    (hl : (piv ++ r).length < 255) :
    optDecode (UInt8.ofNat (piv.length + h * 16 + k * 8) :: (piv ++ r)) =
      (if h = 1 then
        match r with
        | [] => none
        | s :: r2 => if s.toNat > r2.length then none else
            some ⟨piv, some (r2.take s.toNat), if k = 1 then some (r2.drop s.toNat) else none⟩
       else some ⟨piv, none, if k = 1 then some r else none⟩) := by
  have hf : (UInt8.ofNat (piv.length + h * 16 + k * 8)).toNat = piv.length + h * 16 + k * 8 := by
    rw [UInt8.toNat_ofNat']; omega
  unfold optDecode
  simp only [hf]
  have h1 : (piv.length + h * 16 + k * 8) % 8 = piv.length := by omega
  have h2 : (piv.length + h * 16 + k * 8) / 32 = 0 := by omega
  have h3 : (piv.length + h * 16 + k * 8) / 16 % 2 = h := by omega
  have h4 : (piv.length + h * 16 + k * 8) / 8 % 2 = k := by omega
  have h5 : ¬ (piv ++ r).length ≥ 255 := by omega
  simp only [h1, h2, h3, h4, h5, if_false]
  have h6 : ¬ (0 ≠ 0 ∨ piv.length > 5 ∨ piv.length > (piv ++ r).length) := by
    simp; omega
  simp only [h6, if_false]
  simp
  by_cases hh1 : h = 1
  · simp only [hh1, if_true]
    cases r <;> rfl
  · simp [hh1]


abbrev Opt := Nat × Bytes
def leNum : Opt → Opt → Bool := fun a b => decide (a.1 ≤ b.1)

/-- a list sorted by option number is the merge of the two parts of any partition by option number -/
theorem merge_filter_sorted (q : Nat → Bool) (l : List Opt) (hs : l.Pairwise (fun a b => a.1 ≤ b.1)) :
    List.merge (l.filter fun o => q o.1) (l.filter fun o => !q o.1) (fun a b => decide (a.1 ≤ b.1)) = l := by
  induction l with
  | nil => simp
  | cons x t ih =>
    rw [List.pairwise_cons] at hs
    have ih := ih hs.2
    by_cases hx : q x.1 = true
    · simp only [List.filter_cons, hx, if_true, Bool.not_true, Bool.false_eq_true, if_false]
      cases hB : (t.filter fun o => !q o.1) with
      | nil => rw [hB, List.merge_right] at ih; rw [List.merge_right, ih]
      | cons y B =>
        have hy : y ∈ t := by
          have : y ∈ (t.filter fun o => !q o.1) := by rw [hB]; simp
          exact (List.mem_filter.mp this).1
        rw [List.cons_merge_cons]
        simp only [decide_eq_true_eq, hs.1 y hy, if_true]
        rw [← hB, ih]
    · have hx' : q x.1 = false := by simpa using hx
      simp only [List.filter_cons, hx', Bool.false_eq_true, if_false, Bool.not_false, if_true]
      cases hA : (t.filter fun o => q o.1) with
      | nil => rw [hA, List.nil_merge] at ih; rw [List.nil_merge, ih]
      | cons a A =>
        have ha : a ∈ (t.filter fun o => q o.1) := by rw [hA]; simp
        have ha' := List.mem_filter.mp ha
        have hne : ¬ a.1 ≤ x.1 := by
          intro hle
          have : a.1 = x.1 := Nat.le_antisymm hle (hs.1 a ha'.1)
          rw [this, hx'] at ha'
          exact absurd ha'.2 (by simp)
        rw [List.cons_merge_cons]
        simp only [decide_eq_true_eq, hne, if_false]
        rw [← hA, ih]

theorem keep_outer (n : Nat) :
    ((!classE n && decide (n ≠ 9)) && ((classUOnly n || decide (n = 6)) && decide (n ≠ 9))) =
      (classUOnly n && decide (n ≠ 9)) := by
  rw [Bool.eq_iff_iff]
  simp [classE, classUOnly]
  constructor <;> intro h <;> omega

theorem filter_le_append (c : Nat) (l : List Opt) (hs : l.Pairwise (fun a b => a.1 ≤ b.1)) :
    l.filter (fun o => decide (o.1 ≤ c)) ++ l.filter (fun o => decide (c < o.1)) = l := by
  induction l with
  | nil => simp
  | cons x t ih =>
    rw [List.pairwise_cons] at hs
    have ih := ih hs.2
    by_cases hx : x.1 ≤ c
    · have hx2 : ¬ c < x.1 := by omega
      simp only [List.filter_cons, hx, hx2, decide_true, decide_false, if_true, Bool.false_eq_true, if_false, List.cons_append, ih]
    · have hx2 : c < x.1 := by omega
      have h1 : t.filter (fun o => decide (o.1 ≤ c)) = [] := by
        rw [List.filter_eq_nil_iff]; intro a ha; have := hs.1 a ha; simp; omega
      have h2 : t.filter (fun o => decide (c < o.1)) = t := by
        rw [List.filter_eq_self]; intro a ha; have := hs.1 a ha; simp; omega
      simp only [List.filter_cons, hx, hx2, decide_true, decide_false, if_true, Bool.false_eq_true, if_false, h1, h2, List.nil_append]

theorem filter_comm' (p q : Opt → Bool) (l : List Opt) : (l.filter p).filter q = (l.filter q).filter p := by
  simp only [List.filter_filter]
  apply List.filter_congr
  intro o _
  exact Bool.and_comm _ _

theorem kept_outer_eq (os : List Opt) (ov : Bytes) (hs : os.Pairwise (fun a b => a.1 ≤ b.1)) :
    (withOscore (outerOpts os) ov).filter (fun o => !classE o.1 && decide (o.1 ≠ optOscore)) =
      os.filter (fun o => classUOnly o.1 && decide (o.1 ≠ 9)) := by
  have hL : ((outerOpts os).filter (fun o => !classE o.1 && decide (o.1 ≠ 9))) =
      os.filter (fun o => classUOnly o.1 && decide (o.1 ≠ 9)) := by
    unfold outerOpts
    rw [List.filter_filter]
    apply List.filter_congr
    intro o _
    exact keep_outer o.1
  have hsL : (os.filter (fun o => classUOnly o.1 && decide (o.1 ≠ 9))).Pairwise (fun a b => a.1 ≤ b.1) :=
    List.Pairwise.filter _ hs
  have hsplit := filter_le_append 9 _ hsL
  have hB : (fun o : Opt => decide (¬ o.1 ≤ optOscore)) = (fun o => decide (9 < o.1)) := by
    funext o; simp
  have hsing : [((optOscore, ov) : Opt)].filter (fun o => !classE o.1 && decide (o.1 ≠ optOscore)) = [] := by
    simp
  unfold withOscore
  rw [List.filter_append, List.filter_append, hsing, List.append_nil, hB,
    filter_comm' _ _ (outerOpts os), filter_comm' (fun o => decide (9 < o.1)) _ (outerOpts os), hL]
  exact hsplit


section MvsS
open Coap.M.Oscore
theorem putBF_eq (k v : Nat) : putBF k v = beBytes k v := by
  induction k generalizing v with
  | zero => rfl
  | succ k ih => simp [putBF, beBytes, ih]

theorem putUnsigned_eq (n : Nat) : putUnsigned n = cborHead 0 n := by
  unfold putUnsigned cborHead
  simp only [putBF_eq]
  repeat' split
  all_goals simp

theorem small_or : ∀ n, n < 24 → (UInt8.ofNat n ||| 0x80 = UInt8.ofNat (4 * 32 + n)) ∧ (UInt8.ofNat n ||| 0x40 = UInt8.ofNat (2 * 32 + n))
    ∧ (UInt8.ofNat n ||| 0x60 = UInt8.ofNat (3 * 32 + n)) ∧ (UInt8.ofNat n ||| 0x20 = UInt8.ofNat (1 * 32 + n)) := by decide

theorem orFirst_eq (n : Nat) : orFirst 0x80 (putUnsigned n) = cborHead 4 n ∧ orFirst 0x40 (putUnsigned n) = cborHead 2 n ∧
    orFirst 0x60 (putUnsigned n) = cborHead 3 n ∧ orFirst 0x20 (putUnsigned n) = cborHead 1 n := by
  unfold putUnsigned cborHead
  simp only [putBF_eq]
  by_cases h1 : n < 24
  · have := small_or n h1
    have h1' : n < 0x18 := h1
    simp [h1, h1', orFirst, this]
  · have h1' : ¬ n < 0x18 := h1
    by_cases h2 : n < 256
    · have h2' : n < 0x100 := h2
      simp [h1, h1', h2, h2', orFirst]; decide
    · have h2' : ¬ n < 0x100 := h2
      by_cases h3 : n < 65536
      · have h3' : n < 0x10000 := h3
        simp [h1, h1', h2, h2', h3, h3', orFirst]; decide
      · have h3' : ¬ n < 0x10000 := h3
        by_cases h4 : n < 4294967296
        · have h4' : n < 0x100000000 := h4
          simp [h1, h1', h2, h2', h3, h3', h4, h4', orFirst]; decide
        · have h4' : ¬ n < 0x100000000 := h4
          simp [h1, h1', h2, h2', h3, h3', h4, h4', orFirst]; decide

theorem putNumber_eq (v : Int) : putNumber v = cborInt v := by
  unfold putNumber cborInt
  by_cases h : v < 0
  · have h' : ¬ 0 ≤ v := by omega
    have e : (-v).toNat - 1 = (-1 - v).toNat := by omega
    simp only [h, h', if_true, if_false, (orFirst_eq _).2.2.2, e]
  · have h' : 0 ≤ v := by omega
    simp only [h, h', if_true, if_false, putUnsigned_eq]


end MvsS

end Coap
