import CoapVerif.Lemmas.AsyncRefs
import CoapVerif.Lemmas.ServerProps
/-
Lemmas for C10: the second pass of a deferred request — handle_request(context, async->session, async->pdu) called by
coap_check_async on the copy coap_register_async stored — against the first pass (the received datagram), and against
the resource table as it is at the time of the second pass (a resource may have been deleted in between: libcoap keeps
no pointer to the resource in the coap_async_t, the second pass looks the stored Uri-Path up again).
-/
namespace Coap.Async.L
open Coap Coap.Server Coap.Async

theorem hasOpt_setHop (h : Nat) (os : Opts) (n : Nat) : hasOpt (setHop h os) n = hasOpt os n := by
  induction os with
  | nil => rfl
  | cons o r ih =>
    obtain ⟨k, v⟩ := o
    unfold setHop
    by_cases hk : k = 16
    · subst hk; simp [hasOpt]
    · simp only [hk, if_false]
      simp only [hasOpt, List.any_cons] at ih ⊢
      rw [ih]

theorem pathBlock_plain (rq : Request) (ip : Bool) (os : Opts) (h35 : hasOpt os 35 = false) :
    M.pathBlock rq ip os = .go ip os (M.uriPath os) := by
  unfold M.pathBlock
  simp [h35]

/-- the Hop-Limit block of the first pass: where it falls through, the options only differ in the Hop-Limit value -/
theorem hopBlock_go (rq : Request) (os os' : Opts) (ip : Bool) (path : Bytes) (h35 : hasOpt os 35 = false)
    (h : M.hopBlock rq false false os = .go ip os' path) :
    ip = false ∧ path = M.uriPath os' ∧ ∀ n, hasOpt os' n = hasOpt os n := by
  unfold M.hopBlock at h
  simp only [Bool.false_eq_true, if_false] at h
  split at h
  · rw [pathBlock_plain rq false os h35] at h
    injection h with h1 h2 h3
    subst h2 h3
    exact ⟨h1.symm, rfl, fun _ => rfl⟩
  · split at h
    · cases h
    · split at h
      · cases h
      · rw [pathBlock_plain rq false _ (by rw [hasOpt_setHop]; exact h35)] at h
        injection h with h1 h2 h3
        subst h2 h3
        exact ⟨h1.symm, rfl, fun n => hasOpt_setHop _ _ n⟩

theorem preStage_plain (tbl : Table) (rq : Request) (crit : Bool) (os : Opts) (h35 : hasOpt os 35 = false)
    (h39 : hasOpt os 39 = false) : M.preStage tbl rq crit os = M.hopBlock rq false false os := by
  unfold M.preStage
  simp [h35, h39]

theorem preStageD_plain (tbl : Table) (rq : Request) (os : Opts) (h35 : hasOpt os 35 = false)
    (h39 : hasOpt os 39 = false) : preStageD tbl rq false os = .go false os (M.uriPath os) := by
  unfold preStageD
  simp only [h35, h39, Bool.false_eq_true, false_and, false_or, if_false]
  unfold M.hopBlock
  simp only [if_true]
  exact pathBlock_plain rq false os h35

theorem callStage_call (cfg : Server.Cfg) (rq : Request) (os : Opts) (path : Bytes) (sel : Sel) (obs : Bool) (r : Reply) :
    (M.callStage cfg rq os path sel obs r).call =
      sel.who.map (fun who => ⟨who, rq.msg.code, path, M.query os, os, rq.msg.payload⟩) := by
  unfold M.callStage
  cases hw : sel.who with
  | none => rfl
  | some who => simp only [apply_ite Outcome.call, ite_self, Option.map_some]

theorem failResponse_call (cfg : Server.Cfg) (rq : Request) (os : Opts) (resp : Nat) (res : Option Nat) :
    (M.failResponse cfg rq os resp res).call = none := rfl

theorem runStage_call (cfg : Server.Cfg) (rq : Request) (os : Opts) (path : Bytes) (sel : Sel) (h6 : hasOpt os 6 = false) :
    (M.runStage cfg rq os path sel).call =
      sel.who.map (fun who => ⟨who, rq.msg.code, path, M.query os, os, rq.msg.payload⟩) := by
  unfold M.runStage
  simp only [h6, Bool.and_false, M.obsStage, Bool.false_eq_true, if_false]
  exact callStage_call ..

theorem runStageD_call (cfg : Server.Cfg) (rq : Request) (os : Opts) (path : Bytes) (sel : Sel) (h6 : hasOpt os 6 = false)
    (hp : sel.isPrx = false) :
    (runStageD cfg rq os path sel).call =
      sel.who.map (fun who => ⟨who, rq.msg.code, path, M.query os, os, rq.msg.payload⟩) := by
  unfold runStageD
  simp only [hp, h6, Bool.and_false, M.obsStage, Bool.false_eq_true, if_false]
  exact callStage_call ..

/-- a request that is not a proxy request is never mapped to the proxy-URI resource -/
theorem select_notPrx (tbl : Table) (code : Nat) (path : Bytes) (sel : Sel)
    (h : M.selectStage tbl code false path = .inr sel) : sel.isPrx = false := by
  unfold M.selectStage at h
  simp only [Bool.false_eq_true, if_false] at h
  split at h
  · rename_i s hs
    injection h with h
    subst h
    cases hf : findRes tbl.res path 0 with
    | none => rw [hf] at hs; simp at hs
    | some x => rw [hf] at hs; simp at hs; rw [← hs]; rfl
  · split at h
    · split at h
      · injection h with h; subst h; rfl
      · split at h <;> (injection h with h; subst h; rfl)
    · split at h
      · injection h with h; subst h; rfl
      · split at h <;> cases h

/-- checkStage of the stored copy (not multicast) passes where the received request's passed -/
theorem checkStage_again (cfg : Server.Cfg) (rq rq2 : Request) (os : Opts) (sel : Sel) (hc : rq2.msg.code = rq.msg.code)
    (hm : rq2.mcast = false) (h : M.checkStage cfg rq os sel = none) : M.checkStage cfg rq2 os sel = none := by
  unfold M.checkStage at h ⊢
  rw [hc, hm]
  split at h
  · cases h
  · rename_i h1
    split at h
    · cases h
    · rename_i h2
      split at h
      · cases h
      · rename_i h3
        split at h
        · cases h
        · rename_i h4
          rw [if_neg h1, if_neg h2, if_neg h3, if_neg h4]
          simp

/-- findRes returns the resource at the index it reports, and its path is the one asked for -/
theorem findRes_spec : ∀ (rs : List Res) (p : Bytes) (i0 i : Nat) (r : Res), findRes rs p i0 = some (i, r) →
    i0 ≤ i ∧ rs[i - i0]? = some r ∧ r.path = p := by
  intro rs
  induction rs with
  | nil => intro p i0 i r h; simp [findRes] at h
  | cons a rest ih =>
    intro p i0 i r h
    unfold findRes at h
    split at h
    · rename_i hp
      injection h with h
      injection h with h1 h2
      subst h1 h2
      simp [hp]
    · have := ih p (i0 + 1) i r h
      refine ⟨by omega, ?_, this.2.2⟩
      have h2 : i - i0 = (i - (i0 + 1)) + 1 := by omega
      rw [h2, List.getElem?_cons_succ]
      exact this.2.1

/-- the selected resource is one of table `tbl` (for the path / the method asked for) -/
def InTable (tbl : Table) (code : Nat) (path : Bytes) : Sel → Prop
  | .res i r => tbl.res[i]? = some r ∧ r.path = path
  | .unk u => tbl.unk = some u ∧ handlerBit u.mask code = true
  | .prx _ => False
  | .wk => path = wellKnownCore

/-- what the selection cascade can select is in the table it is given -/
theorem select_in_table (tbl : Table) (code : Nat) (path : Bytes) (sel : Sel)
    (h : M.selectStage tbl code false path = .inr sel) : InTable tbl code path sel := by
  unfold M.selectStage at h
  simp only [Bool.false_eq_true, if_false] at h
  split at h
  · rename_i s hs
    injection h with h
    subst h
    cases hf : findRes tbl.res path 0 with
    | none => rw [hf] at hs; simp at hs
    | some x =>
      rw [hf] at hs; simp at hs; rw [← hs]
      have := findRes_spec tbl.res path 0 x.1 x.2 hf
      exact ⟨by simpa using this.2.1, this.2.2⟩
  · have hunk : ∀ u, (match tbl.unk with
        | some u => if handlerBit u.mask code = true then some u else none
        | none => none) = some u → tbl.unk = some u ∧ handlerBit u.mask code = true := by
      intro u hu
      split at hu
      · split at hu
        · rename_i hb; injection hu with hu; subst hu; exact ⟨by assumption, hb⟩
        · cases hu
      · cases hu
    split at h
    · rename_i u hu
      have := hunk u hu
      split at h
      · injection h with h; subst h; exact this
      · split at h
        · rename_i hp; injection h with h; subst h; exact hp
        · injection h with h; subst h; exact this
    · split at h
      · rename_i hp; injection h with h; subst h; exact hp
      · split at h <;> cases h

/-- the first pass (hit = dup = false) of a request without proxy options / Observe that reaches a handler: the stages
it went through -/
theorem handleA_call (cfg : Server.Cfg) (tbl : Table) (rq : Request) (crit : Bool) (os : Opts) (call : Call)
    (h35 : hasOpt os 35 = false) (h39 : hasOpt os 39 = false) (h6 : hasOpt os 6 = false)
    (h : (M.handleRequestA false false cfg tbl rq crit os).call = some call) :
    ∃ os' sel, (∀ n, hasOpt os' n = hasOpt os n) ∧ M.selectStage tbl rq.msg.code false (M.uriPath os') = .inr sel ∧
      M.checkStage cfg rq os' sel = none ∧ sel.who = some call.who ∧
      call = ⟨call.who, rq.msg.code, M.uriPath os', M.query os', os', rq.msg.payload⟩ := by
  unfold M.handleRequestA at h
  split at h
  · cases h
  · simp only [Bool.false_eq_true, if_false] at h
    rw [preStage_plain tbl rq crit os h35 h39] at h
    cases hb : M.hopBlock rq false false os with
    | fail a b => rw [hb] at h; cases h
    | ignore => rw [hb] at h; cases h
    | go ip os' path =>
      obtain ⟨hip, hpath, hopt⟩ := hopBlock_go rq os os' ip path h35 hb
      subst hip hpath
      rw [hb] at h
      dsimp only at h
      cases hs : M.selectStage tbl rq.msg.code false (M.uriPath os') with
      | inl r => rw [hs] at h; cases h
      | inr sel =>
        rw [hs] at h
        dsimp only at h
        cases hc : M.checkStage cfg rq os' sel with
        | some r => rw [hc] at h; cases h
        | none =>
          rw [hc] at h
          dsimp only at h
          unfold M.runStageA at h
          simp only [Bool.false_eq_true, and_false, if_false] at h
          rw [runStage_call _ _ _ _ _ (by rw [hopt]; exact h6)] at h
          cases hw : sel.who with
          | none => rw [hw] at h; cases h
          | some who =>
            rw [hw] at h
            simp only [Option.map_some, Option.some.injEq] at h
            subst h
            exact ⟨os', sel, hopt, hs, hc, hw, rfl⟩

theorem decisionA_call (cfg : Server.Cfg) (tbl : Table) (rq : Request) (call : Call)
    (h : (M.serverDecisionA false false cfg tbl rq).call = some call) :
    ∃ crit, (M.handleRequestA false false cfg tbl rq crit (clearBlock2M rq.msg.opts)).call = some call := by
  unfold M.serverDecisionA at h
  dsimp only at h
  repeat' split at h
  all_goals first
    | exact ⟨_, h⟩
    | (simp [Outcome.outOfScope, Outcome.nothing] at h; done)

/-- the second pass on a stored copy with options `os`, for ANY table: the stages it goes through -/
theorem handleD_call (cfg : Server.Cfg) (tbl : Table) (m : Msg) (v : Verdict) (hv : v.code ≠ 0 ∧ v.code ≠ 168)
    (h35 : hasOpt m.opts 35 = false) (h39 : hasOpt m.opts 39 = false) (h6 : hasOpt m.opts 6 = false) :
    (handleRequestD cfg tbl m v).call =
      match M.selectStage tbl m.code false (M.uriPath m.opts) with
      | .inl _ => none
      | .inr sel =>
        match M.checkStage cfg ⟨false, m, v, .absent⟩ m.opts sel with
        | some _ => none
        | none => sel.who.map (fun who => ⟨who, m.code, M.uriPath m.opts, M.query m.opts, m.opts, m.payload⟩) := by
  unfold handleRequestD
  simp only [hv.1, hv.2, if_false]
  rw [preStageD_plain tbl _ m.opts h35 h39]
  dsimp only
  cases hs : M.selectStage tbl m.code false (M.uriPath m.opts) with
  | inl r => rfl
  | inr sel =>
    dsimp only
    cases hc : M.checkStage cfg ⟨false, m, v, .absent⟩ m.opts sel with
    | some r => rfl
    | none =>
      dsimp only
      exact runStageD_call cfg _ m.opts _ sel h6 (select_notPrx tbl m.code _ sel hs)

theorem checkStage_none_handler (cfg : Server.Cfg) (rq : Request) (os : Opts) (sel : Sel)
    (h : M.checkStage cfg rq os sel = none) : handlerBit sel.mask rq.msg.code = true := by
  unfold M.checkStage at h
  split at h
  · cases h
  · split at h
    · cases h
    · split at h
      · cases h
      · rename_i h3
        simpa using h3

/-- coap_register_async_lkd succeeded: nothing of this session with this token was registered, and the stored copy is
the request as the handler was given it (`call`) under a new message id -/
theorem register_some (st : St) (p : Nat) (call : Call) (type : Nat) (tok : Bytes) (d : Nat) (e : Entry)
    (h : (register st p call type tok d).2 = some e) :
    find st.async p tok = none ∧ ∃ mid, e.req = ⟨type, call.code, mid, tok, call.opts, call.payload⟩ := by
  unfold register at h
  split at h
  · cases h
  · split at h
    · cases h
    · rename_i hf
      split at h
      · cases h
      · dsimp only at h
        injection h with h
        subst h
        exact ⟨hf, _, rfl⟩

end Coap.Async.L
