import CoapVerif.Lemmas.Conserve
/-
C06, the simulation M ⊑ S without the two scope conditions of `Coap.Sim.step_sim` (NSTART room, nothing due at the
instant of a submission / RST).

  * The S events an M event stands for follow the ORDER IN WHICH THE CODE PROCESSES things (`tr`, computed along the code
    path): the due loop is one `tickN now 1` (fire the earliest due entry) per iteration; a Confirmable that leaves the
    delay queue (`coap_session_connected` → drain: from the ACK / RST branch of `coap_dispatch` or from the give-up branch
    of `coap_retransmit` in the MIDDLE of the due loop) is a `send` at that point — its schedule starts when it is really
    transmitted; a `coap_send` / RST at an instant at which something is due is preceded by `tickN now 0` (the clock has
    come to `now`, nothing has fired yet) — what is due fires when the code gets to it.
  * Invariant: `Coap.Sched.FInv` (sessions established, `con_active ≤ NSTART`, delay queues of never-transmitted
    Confirmables) — the delay queue is part of the invariant, not excluded.
  * Scope: the whole C06 alphabet `Sched.RunG` (every event but hold / disconnect): a NON is nothing for S, an ACK with an
    invalid / request code is an `ack`, a response (cancel by token) is one `ack` per removed node.
  * Relation `RelF`: S's clock ≤ M's, S's pending list (ghost erased) = what M's delta list stands for AS LISTS, the
    transmissions of Confirmables shown so far are equal AS LISTS (time, session, mid, number) and the outcome NACKs shown so
    far are equal AS LISTS.  (The interleaving of one NACK with the first transmissions it unblocks at the same instant is the one thing
    not represented: the code transmits the delayed message BEFORE it calls the NACK handler; S reports the outcome and
    then sends.)
Core Lean only.
-/
namespace Coap.SimF
open Coap Coap.SQ Coap.Msg Coap.Timer Coap.Sim Coap.Sched

/-! ### observations, split into transmissions and outcome NACKs -/

/-- the transmission of a Confirmable -/
def isTx : Obs → Bool
  | .tx _ _ _ _ c => c
  | _ => false

/-- an outcome NACK -/
def isNk : Obs → Bool
  | .tx .. => false
  | _ => true

theorem isNk_of_isTx {o : Obs} (h : isTx o = true) : isNk o = false := by
  cases o <;> simp_all [isTx, isNk]

/-- transmissions shown, in order -/
def txsM (out : List Out) : List Obs := (out.filterMap obsM).filter isTx
def txsS (outs : List TOut) : List Obs := (outs.filterMap obsS).filter isTx
/-- outcome NACKs shown, in order -/
def nksM (out : List Out) : List Obs := (out.filterMap obsM).filter isNk
def nksS (outs : List TOut) : List Obs := (outs.filterMap obsS).filter isNk

theorem txsM_append (a b : List Out) : txsM (a ++ b) = txsM a ++ txsM b := by simp [txsM]
theorem txsS_append (a b : List TOut) : txsS (a ++ b) = txsS a ++ txsS b := by simp [txsS]
theorem nksM_append (a b : List Out) : nksM (a ++ b) = nksM a ++ nksM b := by simp [nksM]
theorem nksS_append (a b : List TOut) : nksS (a ++ b) = nksS a ++ nksS b := by simp [nksS]

structure RelF (mx : Nat → Nat) (l : L) (ts : TS) : Prop where
  now : ts.now ≤ l.now
  pend : ts.pend.map er = absP mx l.q.base l.q.nodes
  txs : txsS ts.outs = txsM l.out
  nacks : nksS ts.outs = nksM l.out

/-- clock in step, same pending list -/
structure Core (mx : Nat → Nat) (l : L) (ts : TS) : Prop where
  now : ts.now = l.now
  pend : ts.pend.map er = absP mx l.q.base l.q.nodes

/-- what both sides have ADDED to their outputs: the same observations, all of them transmissions -/
def DOut (l l' : L) (ts ts' : TS) : Prop :=
  ∃ newM newS, l'.out = newM ++ l.out ∧ ts'.outs = newS ++ ts.outs ∧
    newS.filterMap obsS = newM.filterMap obsM ∧ ∀ o ∈ newM.filterMap obsM, isTx o = true

theorem DOut.refl (l : L) (ts : TS) : DOut l l ts ts := ⟨[], [], rfl, rfl, rfl, by simp⟩

theorem DOut.trans {l l' l'' : L} {ts ts' ts'' : TS} (h1 : DOut l l' ts ts') (h2 : DOut l' l'' ts' ts'') :
    DOut l l'' ts ts'' := by
  obtain ⟨m1, s1, a1, b1, c1, d1⟩ := h1
  obtain ⟨m2, s2, a2, b2, c2, d2⟩ := h2
  refine ⟨m2 ++ m1, s2 ++ s1, by rw [a2, a1, List.append_assoc], by rw [b2, b1, List.append_assoc], ?_, ?_⟩
  · simp [c1, c2]
  · intro o ho
    simp only [List.filterMap_append, List.mem_append] at ho
    rcases ho with ho | ho
    · exact d2 o ho
    · exact d1 o ho

theorem filter_all {α : Type} (p : α → Bool) (l : List α) (h : ∀ x ∈ l, p x = true) : l.filter p = l :=
  List.filter_eq_self.2 h

theorem filter_none (l : List Obs) (h : ∀ x ∈ l, isTx x = true) : l.filter isNk = [] := by
  apply List.filter_eq_nil_iff.2
  intro x hx
  simp [isNk_of_isTx (h x hx)]

/-- the added outputs keep the two observation lists equal; an outcome NACK reported by S BEFORE and by M AFTER them
does too -/
theorem DOut.outs {l l' : L} {ts ts' : TS} (h : DOut l l' ts ts') (ht : txsS ts.outs = txsM l.out)
    (hn : nksS ts.outs = nksM l.out) : txsS ts'.outs = txsM l'.out ∧ nksS ts'.outs = nksM l'.out := by
  obtain ⟨m, s, a, b, c, d⟩ := h
  rw [a, b, txsS_append, txsM_append, nksS_append, nksM_append, ht, hn]
  constructor
  · simp only [txsS, txsM, c]
  · simp only [nksS, nksM, c]

theorem DOut.outs_nack {l l' : L} {tn : Nat} {tp : List (Nat × PMsg)} {ts' : TS} {oS : TOut} {oM : Out}
    {outs : List TOut} (h : DOut l l' ⟨tn, tp, oS :: outs⟩ ts') (ho : obsS oS = obsM oM)
    (hnk : ∀ o, obsM oM = some o → isTx o = false ∧ isNk o = true)
    (ht : txsS outs = txsM l.out) (hn : nksS outs = nksM l.out) :
    txsS ts'.outs = txsM (oM :: l'.out) ∧ nksS ts'.outs = nksM (oM :: l'.out) := by
  obtain ⟨m, s, a, b, c, d⟩ := h
  simp only [] at b
  have e1 : txsM (oM :: l'.out) = txsM m ++ txsM (oM :: l.out) := by
    rw [a]
    show txsM ([oM] ++ (m ++ l.out)) = txsM m ++ txsM ([oM] ++ l.out)
    rw [txsM_append, txsM_append, txsM_append]
    have : txsM [oM] = [] := by
      simp only [txsM, List.filterMap_cons, List.filterMap_nil]
      cases hq : obsM oM with
      | none => rfl
      | some o => simp [(hnk o hq).1]
    rw [this]; simp
  have e2 : nksM (oM :: l'.out) = nksM [oM] ++ nksM l.out := by
    rw [a]
    show nksM ([oM] ++ (m ++ l.out)) = _
    rw [nksM_append, nksM_append]
    have : nksM m = [] := filter_none _ d
    rw [this]; simp
  have e3 : txsS (oS :: outs) = txsM (oM :: l.out) := by
    show txsS ([oS] ++ outs) = txsM ([oM] ++ l.out)
    rw [txsS_append, txsM_append, ht]
    simp only [txsS, txsM, List.filterMap_cons, List.filterMap_nil, ho]
  have e4 : nksS (oS :: outs) = nksM [oM] ++ nksM l.out := by
    show nksS ([oS] ++ outs) = _
    rw [nksS_append, hn]
    simp only [nksS, nksM, List.filterMap_cons, List.filterMap_nil, ho]
  rw [b, txsS_append, nksS_append, e1, e2, e3, e4]
  have hs : nksS s = [] := by
    have : nksS s = nksM m := by simp only [nksS, nksM, c]
    rw [this]; exact filter_none _ d
  constructor
  · simp only [txsS, txsM, c]
  · rw [hs]; simp

/-! ### the S events of the drain loop of `coap_session_connected` -/

/-- the state after one round of the loop (as in `Msg.drain`) -/
def drainNext (l : L) (s : Nat) (n : Node) (rest : List Node) : L :=
  let se := l.getS s
  let ca := if n.con then (se.conActive + 1) % 256 else se.conActive
  let l := l.setS s { se with conActive := ca, delayq := rest }
  let l := l.emit (.tx l.now s n.mid n.cnt n.con)
  if n.con then waitAck l { n with sess := s } else l

/-- every Confirmable that leaves the delay queue is a `send` of S at that moment -/
def trDrain : Nat → L → Nat → List TEv
  | 0, _, _ => []
  | fuel + 1, l, s =>
    match (l.getS s).delayq with
    | [] => []
    | n :: rest =>
      if !(l.getS s).est then []
      else if n.con && decide ((l.getS s).conActive ≥ (l.getS s).nstart) then []
      else (if n.con then [TEv.send s n.mid n.timeout (l.getS s).maxRtx] else []) ++ trDrain fuel (drainNext l s n rest) s

def trConnected (l : L) (s : Nat) : List TEv :=
  trDrain ((l.getS s).delayq.length + 1) (l.setS s { (l.getS s) with est := true }) s

def trRelease (l : L) (s : Nat) : List TEv :=
  if (l.getS s).conActive = 0 then []
  else if (l.getS s).est then trConnected (l.setS s { (l.getS s) with conActive := (l.getS s).conActive - 1 }) s
  else []

theorem rel_punctF {mx : Nat → Nat} {l : L} {ts : TS} (hp : ts.pend.map er = absP mx l.q.base l.q.nodes)
    (h : ∀ e ∈ abs l.q, l.now ≤ e.deadline) : ∀ p ∈ ts.pend, l.now ≤ p.1 := by
  intro p hp'
  have h1 : p.1 ∈ ts.pend.map (·.1) := List.mem_map.2 ⟨p, hp', rfl⟩
  have h2 : ts.pend.map (·.1) = (ts.pend.map er).map (·.1) := by rw [List.map_map]; rfl
  rw [h2, hp, absP_fst] at h1
  obtain ⟨e, he, hd⟩ := List.mem_map.1 h1
  rw [← hd]; exact h e he

/-- where the `send`s of a translated run come from: `P` holds of (session, mid, T) and the limit is the session's -/
def SendsOk (par : Nat → Sess) (P : Nat → Nat → Nat → Prop) (evs : List TEv) : Prop :=
  ∀ s mid T mx, TEv.send s mid T mx ∈ evs → P s mid T ∧ mx = (par s).maxRtx

theorem sendsOk_nil (par : Nat → Sess) (P : Nat → Nat → Nat → Prop) : SendsOk par P [] := by
  intro s mid T mx h; cases h

theorem sendsOk_append {par : Nat → Sess} {P : Nat → Nat → Nat → Prop} {a b : List TEv}
    (ha : SendsOk par P a) (hb : SendsOk par P b) : SendsOk par P (a ++ b) := by
  intro s mid T mx h
  rcases List.mem_append.mp h with h | h
  · exact ha s mid T mx h
  · exact hb s mid T mx h

theorem sendsOk_cons {par : Nat → Sess} {P : Nat → Nat → Nat → Prop} {e : TEv} {b : List TEv}
    (he : ∀ s mid T mx, e = .send s mid T mx → P s mid T ∧ mx = (par s).maxRtx) (hb : SendsOk par P b) :
    SendsOk par P (e :: b) := by
  intro s mid T mx h
  rcases List.mem_cons.mp h with h | h
  · exact he s mid T mx h.symm
  · exact hb s mid T mx h

/-- **drain_sim**: the drain loop against its `send`s — whatever both sides have shown before -/
theorem drain_sim {pu : Prop} {par : Nat → Sess} {P : Nat → Nat → Nat → Prop} (hp : GPar par) :
    ∀ (fuel : Nat) (l : L) (ts : TS) (s : Nat), FInv pu par P l → Fut pu l → Core (mxOf par) l ts →
      Core (mxOf par) (drain fuel l s) (Timer.run ts (trDrain fuel l s)) ∧
      DOut l (drain fuel l s) ts (Timer.run ts (trDrain fuel l s)) ∧
      RunOk ts (trDrain fuel l s) ∧ SendsOk par P (trDrain fuel l s) := by
  intro fuel
  induction fuel with
  | zero => intro l ts s _ _ hc; exact ⟨hc, DOut.refl _ _, trivial, sendsOk_nil _ _⟩
  | succ f ih =>
    intro l ts s hi hf hc
    obtain ⟨ca, dq, hg, hle, hdq⟩ := hi.sess s
    obtain ⟨hest, hopen, hns, h256⟩ := hp s
    cases dq with
    | nil =>
      have e1 : drain (f + 1) l s = l := by simp [drain, hg]
      have e2 : trDrain (f + 1) l s = [] := by simp [trDrain, hg]
      rw [e1, e2]; exact ⟨hc, DOut.refl _ _, trivial, sendsOk_nil _ _⟩
    | cons n rest =>
      obtain ⟨hcon, htok, hT, hT32, hcnt, h64, hP⟩ := hdq n (by simp)
      by_cases hgate : ca ≥ (par s).nstart
      · have e1 : drain (f + 1) l s = l := by simp [drain, hg, hest, hcon, hgate]
        have e2 : trDrain (f + 1) l s = [] := by simp [trDrain, hg, hest, hcon, hgate]
        rw [e1, e2]; exact ⟨hc, DOut.refl _ _, trivial, sendsOk_nil _ _⟩
      · obtain ⟨l2, hl2⟩ : ∃ l2, l2 = ({ ((l.setS s { par s with conActive := (ca + 1) % 256, delayq := rest }).emit
                (.tx l.now s n.mid 0 true)) with
              q := enqueue l.q l.now n.timeout { n with sess := s } } : L) := ⟨_, rfl⟩
        have hnext : drainNext l s n rest = l2 := by
          rw [hl2]
          simp [drainNext, hg, hcon, waitAck, hcnt, Nat.mod_eq_of_lt hT32, L.emit, L.setS]
        have hstep : drain (f + 1) l s = drain f l2 s := by
          rw [hl2]
          simp [drain, hg, hest, hcon, hgate, waitAck, hcnt, Nat.mod_eq_of_lt hT32, L.emit, L.setS]
        have hstepT : trDrain (f + 1) l s = .send s n.mid n.timeout (par s).maxRtx :: trDrain f l2 s := by
          rw [← hnext]
          simp [trDrain, hg, hest, hcon, hgate]
        rw [hstep, hstepT]
        -- M side invariant of the next state (as in `drain_finv`)
        have hi2 : FInv pu par P ((l.setS s { par s with conActive := (ca + 1) % 256, delayq := rest }).emit
            (.tx l.now s n.mid 0 true)) := by
          refine ⟨hi.base, gsess_congr rfl (gsess_setS hi.sess s _ rest ?_ (fun x hx => hdq x (by simp [hx]))),
            hi.nodes, fun p hp => pendOk_mono _ (hi.pend p hp), ?_⟩
          · have : (ca + 1) % 256 ≤ ca + 1 := Nat.mod_le _ _
            omega
          · exact outOk_cons_tx _ _ _ _ hi.outs
              (fun _ => ⟨l.now, n.timeout, by simp, (sched_zero _ _).symm, Nat.zero_le _, hP⟩)
        have hn' : NodeOk par P { n with sess := s } := ⟨hcon, htok, hT, by simp [hcnt], h64, hP⟩
        have hfin := finv_enq_fresh _ { n with sess := s } hi2 hf hn' hcnt (by simp [L.emit])
        have hfin' : FInv pu par P l2 ∧ Fut pu l2 := by rw [hl2]; exact hfin
        -- S side: one `send`
        obtain ⟨ts2, hts2⟩ : ∃ ts2, ts2 = Timer.step ts (.send s n.mid n.timeout (par s).maxRtx) := ⟨_, rfl⟩
        have hc2 : Core (mxOf par) l2 ts2 := by
          rw [hl2, hts2]
          refine ⟨hc.now, ?_⟩
          simp only [Timer.step]
          rw [pinsert_er, hc.pend]
          show _ = absP (mxOf par) (enqueue l.q l.now n.timeout _).base (enqueue l.q l.now n.timeout _).nodes
          rw [absP_enqueue _ _ _ _ _ (Or.inr hi.base), hc.now]
          simp [er, toP, mxOf, hcnt]
        have hd2 : DOut l l2 ts ts2 := by
          rw [hl2, hts2]
          refine ⟨[.tx l.now s n.mid 0 true], [.tx ts.now s n.mid 0 ts.now n.timeout (par s).maxRtx], rfl, rfl, ?_, ?_⟩
          · simp [obsS, obsM, hc.now]
          · simp [obsM, isTx]
        have h3 := ih l2 ts2 s hfin'.1 hfin'.2 hc2
        simp only [Timer.run, List.foldl_cons] at h3 ⊢
        rw [← hts2]
        refine ⟨h3.1, DOut.trans hd2 h3.2.1, ⟨hT, by rw [← hts2]; exact h3.2.2.1⟩, ?_⟩
        apply sendsOk_cons _ h3.2.2.2
        intro s' mid' T' mx' he
        injection he with e1 e2 e3 e4
        subst e1 e2 e3 e4
        exact ⟨hP, rfl⟩

theorem connected_sim {pu : Prop} {par : Nat → Sess} {P : Nat → Nat → Nat → Prop} (hp : GPar par) (l : L) (ts : TS)
    (s : Nat) (hi : FInv pu par P l) (hf : Fut pu l) (hc : Core (mxOf par) l ts) :
    Core (mxOf par) (connected l s) (Timer.run ts (trConnected l s)) ∧
    DOut l (connected l s) ts (Timer.run ts (trConnected l s)) ∧ RunOk ts (trConnected l s) ∧
    SendsOk par P (trConnected l s) := by
  obtain ⟨ca, dq, hg, hle, hdq⟩ := hi.sess s
  have e : ({ (l.getS s) with est := true } : Sess) = { par s with conActive := ca, delayq := dq } := by
    rw [hg]
    have := (hp s).1
    cases hps : par s
    rw [hps] at this
    simp_all
  unfold connected trConnected
  simp only []
  rw [e]
  have hi' : FInv pu par P (l.setS s { par s with conActive := ca, delayq := dq }) :=
    ⟨hi.base, gsess_setS hi.sess s ca dq hle hdq, hi.nodes, hi.pend, hi.outs⟩
  exact drain_sim hp _ _ ts s hi' hf ⟨hc.now, hc.pend⟩

theorem release_sim {pu : Prop} {par : Nat → Sess} {P : Nat → Nat → Nat → Prop} (hp : GPar par) (l : L) (ts : TS)
    (s : Nat) (hi : FInv pu par P l) (hf : Fut pu l) (hc : Core (mxOf par) l ts) :
    Core (mxOf par) (release l s) (Timer.run ts (trRelease l s)) ∧
    DOut l (release l s) ts (Timer.run ts (trRelease l s)) ∧ RunOk ts (trRelease l s) ∧
    SendsOk par P (trRelease l s) := by
  obtain ⟨ca, dq, hg, hle, hdq⟩ := hi.sess s
  unfold release trRelease
  simp only []
  split
  · exact ⟨hc, DOut.refl _ _, trivial, sendsOk_nil _ _⟩
  · have h1 : FInv pu par P (l.setS s { (l.getS s) with conActive := (l.getS s).conActive - 1 }) := by
      rw [hg]
      exact ⟨hi.base, gsess_setS hi.sess s (ca - 1) dq (by omega) hdq, hi.nodes, hi.pend, hi.outs⟩
    split
    · exact connected_sim hp _ ts s h1 hf ⟨hc.now, hc.pend⟩
    · exact ⟨⟨hc.now, hc.pend⟩, DOut.refl _ _, trivial, sendsOk_nil _ _⟩

/-! ### the due loop of `coap_io_prepare_io`, iteration by iteration -/

/-- `coap_retransmit` of a node just popped (`l` = the state with the node popped): S fires its earliest due entry; when it
is a give-up, the Confirmables the released NSTART slot lets out of the delay queue are sent then -/
def trRetransmit (l : L) (n : Node) : List TEv :=
  .tickN l.now 1 :: (if n.cnt < (l.getS n.sess).maxRtx then [] else trRelease l n.sess)

def trDueLoop : Nat → L → List TEv
  | 0, _ => []
  | fuel + 1, l =>
    match l.q.nodes with
    | [] => []
    | h :: _ =>
      if l.now ≥ l.q.base ∧ h.t ≤ l.now - l.q.base then
        match popNext l.q.nodes with
        | none => []
        | some (n, rest) =>
          trRetransmit { l with q := { l.q with nodes := rest } } n ++
            trDueLoop fuel (retransmit { l with q := { l.q with nodes := rest } } n)
      else []

theorem RelF.core_of {mx : Nat → Nat} {l : L} {ts : TS} (hr : RelF mx l ts) :
    Core mx l { ts with now := l.now } := ⟨rfl, hr.pend⟩

theorem runOk_append' (ts : TS) (a b : List TEv) (h1 : RunOk ts a) (h2 : RunOk (Timer.run ts a) b) : RunOk ts (a ++ b) :=
  (Timer.runOk_append ts a b).2 ⟨h1, h2⟩

/-- **dueLoop_simF**: the due loop against `tickN now 1` per iteration (+ the `send`s a give-up lets out) -/
theorem dueLoop_simF {pu : Prop} {par : Nat → Sess} {P : Nat → Nat → Nat → Prop} (hp : GPar par) :
    ∀ (f : Nat) (l : L) (ts : TS), FInv pu par P l → Fut pu l → RelF (mxOf par) l ts →
      RelF (mxOf par) (dueLoop f l) (Timer.run ts (trDueLoop f l)) ∧ (pu → RunOk ts (trDueLoop f l)) ∧
      SendsOk par P (trDueLoop f l) := by
  intro f
  induction f with
  | zero => intro l ts _ _ hr; exact ⟨hr, fun _ => trivial, sendsOk_nil _ _⟩
  | succ f ih =>
    intro l ts hi hf hr
    cases hn : l.q.nodes with
    | nil =>
      have hnd : NothingDue l := by rw [nothingDue_iff]; intro h r hh; rw [hn] at hh; cases hh
      have e2 : trDueLoop (f + 1) l = [] := by simp [trDueLoop, hn]
      rw [dueLoop_not_due _ l hnd, e2]; exact ⟨hr, fun _ => trivial, sendsOk_nil _ _⟩
    | cons hd r =>
      by_cases hdue : l.q.base + hd.t ≤ l.now
      · obtain ⟨rest, hpop, _, hloop⟩ := dueLoop_due f l hd r hn hi.base hdue
        have hcond : l.now ≥ l.q.base ∧ hd.t ≤ l.now - l.q.base := ⟨hi.base, by have := hi.base; omega⟩
        obtain ⟨l1, hl1⟩ : ∃ l1, l1 = ({ l with q := { l.q with nodes := rest } } : L) := ⟨_, rfl⟩
        have e2 : trDueLoop (f + 1) l = trRetransmit l1 hd ++ trDueLoop f (retransmit l1 hd) := by
          rw [hl1]
          have hpop' : popNext (hd :: r) = some (hd, rest) := by rw [← hn]; exact hpop
          simp [trDueLoop, hn, hcond, hpop']
        rw [hloop, e2, ← hl1]
        -- M side: invariant of the popped state and of `coap_retransmit`'s result (as in `dueLoop_finv`)
        have hab := absP_popNext (mxOf par) l.q.base l.q.nodes hd rest hpop
        have hfut := (fut_iff pu (mxOf par) l).1 hf
        have hall := all_popNext (nodeOk_tfree par P) l.q.nodes hd rest hpop hi.nodes
        have hpn : PendOk pu l.out (l.now, toP (mxOf par) hd) := by
          intro hpu'
          have hnow : l.q.base + hd.t = l.now := by
            have := hfut hpu' (l.q.base + hd.t, toP (mxOf par) hd) (by rw [hab]; simp)
            simp only [] at this
            omega
          have := hi.pend (l.q.base + hd.t, toP (mxOf par) hd) (by rw [hab]; simp) hpu'
          rw [hnow] at this; exact this
        have hi1 : FInv pu par P l1 := by
          rw [hl1]
          exact ⟨hi.base, hi.sess, hall.2, fun p hp' => hi.pend p (by rw [hab]; exact List.mem_cons_of_mem _ hp'), hi.outs⟩
        have hf1 : Fut pu l1 := by
          rw [hl1, fut_iff pu (mxOf par)]
          intro hpu' p hp'
          exact hfut hpu' p (by rw [hab]; exact List.mem_cons_of_mem _ hp')
        have q1b : l1.q.base = l.q.base := by rw [hl1]
        have q1n : l1.q.nodes = rest := by rw [hl1]
        have n1 : l1.now = l.now := by rw [hl1]
        have o1 : l1.out = l.out := by rw [hl1]
        have s1 : l1.sess = l.sess := by rw [hl1]
        have hpn1 : PendOk pu l1.out (l1.now, toP (mxOf par) hd) := by rw [o1, n1]; exact hpn
        have h2 := retransmit_finv hp l1 hd hi1 hf1 hall.1 hpn1
        -- S side: the head of the pending list
        rcases ts with ⟨tnow, pend, outs⟩
        have hpd := hr.pend
        simp only [hn, absP] at hpd
        rcases pend with _ | ⟨⟨d, m⟩, pr⟩
        · simp at hpd
        simp only [List.map_cons, List.cons.injEq] at hpd
        obtain ⟨hdm, hpr⟩ := hpd
        obtain ⟨e1, e2', e3, e4, e5, e6⟩ := er_eq_toP hdm
        have hd_le : d ≤ l.now := by omega
        have hab' := hab
        rw [hn] at hab'
        simp only [absP, List.cons.injEq, true_and] at hab'
        have hpr' : pr.map er = absP (mxOf par) l.q.base rest := by rw [hpr, hab']
        obtain ⟨hcon, htok, hT, hcnt, h64, hP⟩ := hall.1
        obtain ⟨ca, dq, hg, hle, hdq⟩ := hi.sess hd.sess
        obtain ⟨hest, hopen, hns, h256⟩ := hp hd.sess
        have hgs : l1.getS hd.sess = { par hd.sess with conActive := ca, delayq := dq } := by
          have : l1.getS hd.sess = l.getS hd.sess := by simp [L.getS, s1]
          rw [this]; exact hg
        have hnowR := retransmit_now l1 hd
        have htn : tnow ≤ l.now := hr.now
        have hevok : pu → EvOk ⟨tnow, (d, m) :: pr, outs⟩ (.tickN l.now 1) := by
          intro hpu'
          exact rel_punctF (ts := ⟨tnow, (d, m) :: pr, outs⟩) hr.pend (hf hpu')
        by_cases hc : hd.cnt < (par hd.sess).maxRtx
        · -- retransmit and re-arm: one transmission on both sides
          have hcS : m.cnt < m.maxRtx := by rw [e5, e6]; exact hc
          have hcM : hd.cnt < (l1.getS hd.sess).maxRtx := by rw [hgs]; exact hc
          have etr : trRetransmit l1 hd = [.tickN l.now 1] := by simp [trRetransmit, hcM, n1]
          have hle2 : hd.timeout * 2 ^ (hd.cnt + 1) ≤ hd.timeout * 2 ^ (par hd.sess).maxRtx :=
            Nat.mul_le_mul_left _ (Nat.pow_le_pow_right (by decide) hc)
          have hroom : ca - 1 < (par hd.sess).nstart := by omega
          have hres := retransmit_resend l1 hd
            (by rw [hgs]; exact hc) (by rw [hgs]; exact hest) (by rw [hgs]; exact hroom) (by omega)
            (by omega) (Or.inr hi1.base)
          have hS : Timer.step ⟨tnow, (d, m) :: pr, outs⟩ (.tickN l.now 1) =
              { now := l.now, pend := pinsert pr (l.now + m.T * 2 ^ (m.cnt + 1), { m with cnt := m.cnt + 1 }),
                outs := TOut.tx l.now m.sess m.mid (m.cnt + 1) m.t0 m.T m.maxRtx :: outs } := by
            simp [Timer.step, htn, fire, hd_le, hcS]
          have hr2 : RelF (mxOf par) (retransmit l1 hd)
              { now := l.now, pend := pinsert pr (l.now + m.T * 2 ^ (m.cnt + 1), { m with cnt := m.cnt + 1 }),
                outs := TOut.tx l.now m.sess m.mid (m.cnt + 1) m.t0 m.T m.maxRtx :: outs } := by
            refine ⟨by rw [hnowR, n1]; exact Nat.le_refl _, ?_, ?_, ?_⟩
            · show List.map er (pinsert pr _) = _
              rw [hres.2.2, absP_enqueue _ _ _ _ _ (Or.inr hi1.base), pinsert_er, q1b, q1n, n1, hpr']
              congr 1
              simp only [er, toP, mxOf, e2', e3, e4, e5, e6]
            · rw [hres.1, o1, n1]
              have ho := hr.txs
              simp only [] at ho
              show txsS ([_] ++ outs) = txsM ([_] ++ l.out)
              rw [txsS_append, txsM_append, ho]
              simp [txsS, txsM, obsS, obsM, e2', e3, e5, hcon]
            · rw [hres.1, o1, n1]
              have ho := hr.nacks
              simp only [] at ho
              show nksS ([_] ++ outs) = nksM ([_] ++ l.out)
              rw [nksS_append, nksM_append, ho]
              simp [nksS, nksM, obsS, obsM, isNk]
          have h3 := ih _ _ h2.1 h2.2.1 hr2
          rw [etr]
          simp only [List.singleton_append, Timer.run, List.foldl_cons] at h3 ⊢
          rw [hS]
          refine ⟨h3.1, fun hpu' => ⟨hevok hpu', ?_⟩, sendsOk_cons (by intro _ _ _ _ he; cases he) h3.2.2⟩
          rw [hS]; exact h3.2.1 hpu'
        · -- give up: S reports the outcome, then sends what the released slot lets out; M transmits, then reports
          have hcS : ¬ m.cnt < m.maxRtx := by rw [e5, e6]; exact hc
          have hcM : ¬ hd.cnt < (l1.getS hd.sess).maxRtx := by rw [hgs]; exact hc
          have etr : trRetransmit l1 hd = .tickN l.now 1 :: trRelease l1 hd.sess := by simp [trRetransmit, hcM, n1]
          have hgu := retransmit_giveup l1 hd (by rw [hgs]; exact Nat.le_of_not_lt hc) hcon
          have hS : Timer.step ⟨tnow, (d, m) :: pr, outs⟩ (.tickN l.now 1) =
              { now := l.now, pend := pr, outs := TOut.nackRetries l.now m.sess m.mid :: outs } := by
            simp [Timer.step, htn, fire, hd_le, hcS]
          have hc1 : Core (mxOf par) l1 { now := l.now, pend := pr, outs := TOut.nackRetries l.now m.sess m.mid :: outs } :=
            ⟨n1.symm, by rw [q1b, q1n]; exact hpr'⟩
          obtain ⟨hc2, hd2, hok2, hso2⟩ := release_sim hp l1 _ hd.sess hi1 hf1 hc1
          have houts := DOut.outs_nack (oM := Out.nack l1.now hd.sess .retries hd.mid true) hd2
            (by simp [obsS, obsM, e2', e3, n1]) (by intro o ho; simp [obsM] at ho; subst ho; exact ⟨rfl, rfl⟩)
            (by rw [o1]; exact hr.txs) (by rw [o1]; exact hr.nacks)
          have hr2 : RelF (mxOf par) (retransmit l1 hd)
              (Timer.run { now := l.now, pend := pr, outs := TOut.nackRetries l.now m.sess m.mid :: outs }
                (trRelease l1 hd.sess)) := by
            refine ⟨by rw [hc2.now, hnowR, release_now]; exact Nat.le_refl _, ?_, ?_, ?_⟩
            · rw [hc2.pend, hgu.2]
            · rw [hgu.1]; exact houts.1
            · rw [hgu.1]; exact houts.2
          have h3 := ih _ _ h2.1 h2.2.1 hr2
          rw [etr]
          simp only [List.cons_append, Timer.run, List.foldl_cons, List.foldl_append] at h3 ⊢
          rw [hS]
          refine ⟨h3.1, fun hpu' => ⟨hevok hpu', ?_⟩,
            sendsOk_cons (by intro _ _ _ _ he; cases he) (sendsOk_append hso2 h3.2.2)⟩
          rw [hS]
          exact runOk_append' _ _ _ hok2 (h3.2.1 hpu')
      · have hnd : NothingDue l := by
          rw [nothingDue_iff]; intro h r' hh; rw [hn] at hh; cases hh; omega
        have e2 : trDueLoop (f + 1) l = [] := by
          have : ¬ (l.now ≥ l.q.base ∧ hd.t ≤ l.now - l.q.base) := by
            intro hc; have := hi.base; omega
          simp [trDueLoop, hn, this]
        rw [dueLoop_not_due _ l hnd, e2]; exact ⟨hr, fun _ => trivial, sendsOk_nil _ _⟩

/-! ### the S events an M event stands for, in the order the code processes things -/

/-- the pending entry found / the rest, `coap_remove_from_queue` against `premove` -/
theorem remove_simF (mx : Nat → Nat) (l : L) (ts : TS) (s mid : Nat)
    (hpend : ts.pend.map er = absP mx l.q.base l.q.nodes) :
    (premove ts.pend s mid).2.map er = absP mx l.q.base (removeNode l.q.nodes s mid).2 ∧
    ((removeNode l.q.nodes s mid).1 = none ↔ (premove ts.pend s mid).1 = none) := by
  have h1 := absP_removeNode mx l.q.base l.q.nodes s mid
  have h2 := premove_er ts.pend s mid
  rw [hpend] at h2
  refine ⟨by rw [h2.1, h1.1], ?_⟩
  have h4 := h2.2
  rw [← h1.2] at h4
  constructor
  · intro h; rw [h] at h4
    cases hq : (premove ts.pend s mid).1 with
    | none => rfl
    | some x => rw [hq] at h4; simp at h4
  · intro h; rw [h] at h4
    cases hq : (removeNode l.q.nodes s mid).1 with
    | none => rfl
    | some x => rw [hq] at h4; simp at h4

/-- the removal of (s, mid) from the send queue, then what the released NSTART slot lets out -/
def trRemoved (l : L) (s mid : Nat) : List TEv :=
  match (removeNode l.q.nodes s mid).1 with
  | some _ => trRelease { l with q := { l.q with nodes := (removeNode l.q.nodes s mid).2 } } s
  | none => []

/-- `coap_cancel_all_messages(session, token)` (a response arrived): every node of (session, token) leaves the send queue — for S
an `ack` of its message id — and each releases its NSTART slot -/
def trCancel : Nat → L → Nat → Nat → List TEv
  | 0, _, _, _ => []
  | fuel + 1, l, s, tok =>
    match removeTok l.q.nodes s tok with
    | (none, _) => []
    | (some n, rest) =>
      .ack s n.mid ::
        ((if n.con then trRelease { l with q := { l.q with nodes := rest } } s else []) ++
         trCancel fuel (if n.con then release { l with q := { l.q with nodes := rest } } s
                        else { l with q := { l.q with nodes := rest } }) s tok)

def tr (l : L) : Ev → List TEv
  | .setNow _ => []
  | .prepare => trDueLoop (dueFuel l) l
  | .submit s con mid r =>
    if !(l.getS s).sockOpen then []
    else if gate (l.getS s) con then []
    else if con then
      [.tickN l.now 0, .send s mid (calcTimeout (l.getS s).atI (l.getS s).atF (l.getS s).arfI (l.getS s).arfF r)
        (l.getS s).maxRtx]
    else []
  | .rxAck s mid =>
    if (l.getS s).sockOpen then
      .tickN l.now 0 :: .ack s mid :: (trRemoved l s mid ++ trDueLoop (dueFuel (rxAck l s mid)) (rxAck l s mid))
    else []
  | .rxRst s mid =>
    if (l.getS s).sockOpen then
      .tickN l.now 0 :: .rst s mid :: (trRemoved l s mid ++ trDueLoop (dueFuel (rxRst l s mid)) (rxRst l s mid))
    else []
  | .rxBad s mid =>       -- an ACK with an invalid / request code: for S an `ack` (the BAD_RESPONSE NACK is not an outcome of S)
    if (l.getS s).sockOpen then
      .tickN l.now 0 :: .ack s mid :: (trRemoved l s mid ++ trDueLoop (dueFuel (rxBad l s mid)) (rxBad l s mid))
    else []
  | .connect s => .tickN l.now 0 :: trConnected l s
  | .rxNon s mid tok =>   -- a response: cancel by token, then the I/O step
    if (l.getS s).sockOpen then
      .tickN l.now 0 :: (trCancel (l.q.nodes.length + 1) l s tok ++
        trDueLoop (dueFuel (rxNon l s mid tok)) (rxNon l s mid tok))
    else []
  | _ => []

def trRun (l : L) : List Ev → List TEv
  | [] => []
  | ev :: evs => tr l ev ++ trRun (Msg.step l ev) evs

/-- the scope (= `Sched.EvG`, the whole C06 alphabet): the clock does not run backward; a Confirmable is submitted with a positive
timeout inside the no-wrap range (D7) — WITH or WITHOUT NSTART room, at ANY instant —, or a NON (transmitted at once, nothing for
S); I/O steps, ACKs (empty, or with an invalid / request code: `rxBad` — for S an `ack`), RSTs, responses (cancel by token: one
`ack` per removed node) and `coap_session_connected` at any instant.  Not in the scope: `hold` / `disconnect`. -/
def EvInF (l : L) : Ev → Prop
  | .setNow t => l.now ≤ t
  | .prepare => True
  | .submit s con _ r =>
    con = true →
    (0 < calcTimeout (l.getS s).atI (l.getS s).atF (l.getS s).arfI (l.getS s).arfF r ∧
     calcTimeout (l.getS s).atI (l.getS s).atF (l.getS s).arfI (l.getS s).arfF r * 2 ^ (l.getS s).maxRtx < 2 ^ 64)
  | .rxAck _ _ => True
  | .rxRst _ _ => True
  | .rxBad _ _ => True
  | .rxNon _ _ _ => True
  | .connect _ => True
  | .hold _ => False
  | .disconnect _ => False

def RunInF (l : L) : List Ev → Prop
  | [] => True
  | ev :: evs => EvInF l ev ∧ RunInF (Msg.step l ev) evs

instance (l : L) (ev : Ev) : Decidable (EvInF l ev) := by
  cases ev <;> simp only [EvInF] <;> infer_instance

instance decRunInF : (evs : List Ev) → (l : L) → Decidable (RunInF l evs)
  | [], _ => isTrue trivial
  | ev :: evs, l => by
    unfold RunInF
    exact @instDecidableAnd _ _ _ (decRunInF evs _)

theorem evInF_evG {l : L} {ev : Ev} (h : EvInF l ev) : EvG l ev := by
  cases ev <;> exact h

theorem evG_evInF {l : L} {ev : Ev} (h : EvG l ev) : EvInF l ev := by
  cases ev <;> exact h

theorem runInF_runG : ∀ (evs : List Ev) (l : L), RunInF l evs → RunG l evs
  | [], _, _ => trivial
  | _ :: evs, l, h => ⟨evInF_evG h.1, runInF_runG evs _ h.2⟩

/-- the scope IS the scope `RunG` of the direct M-level theorems: the whole C06 alphabet -/
theorem runG_runInF : ∀ (evs : List Ev) (l : L), RunG l evs → RunInF l evs
  | [], _, _ => trivial
  | _ :: evs, l, h => ⟨evG_evInF h.1, runG_runInF evs _ h.2⟩

theorem relF_emit_none {mx : Nat → Nat} {l : L} {ts : TS} (o : Out) (ho : obsM o = none) (hr : RelF mx l ts) :
    RelF mx (l.emit o) ts :=
  ⟨hr.now, hr.pend, by rw [hr.txs]; simp [L.emit, txsM, ho], by rw [hr.nacks]; simp [L.emit, nksM, ho]⟩

/-- the transmission of a NON is neither a Confirmable transmission nor an outcome -/
theorem relF_emit_non {mx : Nat → Nat} {l : L} {ts : TS} (t s mid k : Nat) (hr : RelF mx l ts) :
    RelF mx (l.emit (.tx t s mid k false)) ts :=
  ⟨hr.now, hr.pend, by rw [hr.txs]; simp [L.emit, txsM, obsM, List.filter_cons, isTx],
    by rw [hr.nacks]; simp [L.emit, nksM, obsM, List.filter_cons, isNk]⟩

theorem tickN0 (ts : TS) (t : Nat) (h : ts.now ≤ t) : Timer.step ts (.tickN t 0) = { ts with now := t } := by
  simp [Timer.step, h, fire]

/-- the ACK / RST branch of `coap_dispatch` up to the I/O step that ends `coap_io_do_epoll` -/
theorem removed_simF {pu : Prop} {par : Nat → Sess} {P : Nat → Nat → Nat → Prop} (hp : GPar par) (l : L) (ts : TS)
    (s mid : Nat) (isRst : Bool) (hi : FInv pu par P l) (hf : Fut pu l) (hr : RelF (mxOf par) l ts) :
    let l' := if isRst then rxRst l s mid else rxAck l s mid
    let evs := TEv.tickN l.now 0 :: (if isRst then TEv.rst s mid else TEv.ack s mid) :: trRemoved l s mid
    RelF (mxOf par) l' (Timer.run ts evs) ∧ (pu → RunOk ts evs) ∧ SendsOk par P evs := by
  intro l' evs
  have hne2 : ∀ s' mid' T mx, (if isRst then TEv.rst s mid else TEv.ack s mid) = .send s' mid' T mx → 
      P s' mid' T ∧ mx = (par s').maxRtx := by
    intro _ _ _ _ he; cases isRst <;> simp at he
  obtain ⟨hi1, hf1, hk⟩ := removed_finv l s mid hi hf
  have hrm := remove_simF (mxOf par) l ts s mid hr.pend
  have h3 := all_removeNode (nodeOk_tfree par P) l.q.nodes s mid hi.nodes
  have hev0 : pu → EvOk ts (.tickN l.now 0) := fun hpu' => rel_punctF hr.pend (hf hpu')
  rcases ts with ⟨tnow, pend, outs⟩
  have htn : tnow ≤ l.now := hr.now
  have hS0 : Timer.step ⟨tnow, pend, outs⟩ (.tickN l.now 0) = ⟨l.now, pend, outs⟩ := tickN0 ⟨tnow, pend, outs⟩ l.now htn
  simp only [evs, Timer.run, List.foldl_cons, RunOk]
  rw [hS0]
  rcases hrem : removeNode l.q.nodes s mid with ⟨sent, rest⟩
  rw [hrem] at hi1 hf1 hk hrm h3
  simp only [] at hi1 hf1 hk hrm h3
  cases sent with
  | none =>
    have hpn : (premove pend s mid).1 = none := hrm.2.1 rfl
    have hsame := premove_none pend s mid hpn
    rcases hpm : premove pend s mid with ⟨res, r'⟩
    rw [hpm] at hpn hrm hsame
    simp only [] at hpn hrm hsame
    subst hpn
    subst hsame
    have etr : trRemoved l s mid = [] := by simp [trRemoved, hrem]
    rw [etr]
    cases isRst with
    | false =>
      have el : l' = { l with q := { l.q with nodes := rest } } := by simp [l', rxAck, hrem]
      have hS1 : Timer.step ⟨l.now, r', outs⟩ (.ack s mid) = ⟨l.now, r', outs⟩ := by simp [Timer.step, hpm]
      rw [el]
      simp only [Bool.false_eq_true, if_false, hS1, List.foldl_nil]
      exact ⟨⟨Nat.le_refl _, hrm.1, hr.txs, hr.nacks⟩, fun hpu' => ⟨hev0 hpu', trivial, trivial⟩,
        sendsOk_cons (by intro _ _ _ _ he; cases he) (sendsOk_cons (by intro _ _ _ _ he; cases he) (sendsOk_nil _ _))⟩
    | true =>
      have el : l' = ({ l with q := { l.q with nodes := rest } } : L).emit (.nack l.now s .rst mid false) := by
        simp [l', rxRst, hrem]
      have hS1 : Timer.step ⟨l.now, r', outs⟩ (.rst s mid) = ⟨l.now, r', outs⟩ := by simp [Timer.step, hpm]
      rw [el]
      simp only [if_true, hS1, List.foldl_nil]
      exact ⟨relF_emit_none _ rfl ⟨Nat.le_refl _, hrm.1, hr.txs, hr.nacks⟩, fun hpu' => ⟨hev0 hpu', trivial, trivial⟩,
        sendsOk_cons (by intro _ _ _ _ he; cases he) (sendsOk_cons (by intro _ _ _ _ he; cases he) (sendsOk_nil _ _))⟩
  | some n =>
    have hne : (premove pend s mid).1 ≠ none := fun h => by have := hrm.2.2 h; cases this
    rcases hpm : premove pend s mid with ⟨res, r'⟩
    rw [hpm] at hne hrm
    simp only [] at hne hrm
    obtain ⟨m, rfl⟩ : ∃ m, res = some m := by cases res with | none => exact absurd rfl hne | some m => exact ⟨m, rfl⟩
    obtain ⟨l1, hl1⟩ : ∃ l1, l1 = ({ l with q := { l.q with nodes := rest } } : L) := ⟨_, rfl⟩
    rw [← hl1] at hi1 hf1
    have etr : trRemoved l s mid = trRelease l1 s := by rw [hl1]; simp [trRemoved, hrem]
    rw [etr]
    have n1 : l1.now = l.now := by rw [hl1]
    have o1 : l1.out = l.out := by rw [hl1]
    have hkn := hk n rfl
    cases isRst with
    | false =>
      have el : l' = release l1 s := by rw [hl1]; simp [l', rxAck, hrem]
      have hS1 : Timer.step ⟨l.now, pend, outs⟩ (.ack s mid) = ⟨l.now, r', TOut.acked l.now s mid :: outs⟩ := by
        simp [Timer.step, hpm]
      rw [el]
      simp only [Bool.false_eq_true, if_false, hS1]
      have hc1 : Core (mxOf par) l1 ⟨l.now, r', TOut.acked l.now s mid :: outs⟩ :=
        ⟨n1.symm, by rw [hl1]; exact hrm.1⟩
      obtain ⟨hc2, hd2, hok2, hso2⟩ := release_sim hp l1 _ s hi1 hf1 hc1
      have houts := hd2.outs (by rw [o1]; show txsS ([_] ++ outs) = _; rw [txsS_append, hr.txs]; simp [txsS, obsS])
        (by rw [o1]; show nksS ([_] ++ outs) = _; rw [nksS_append, hr.nacks]; simp [nksS, obsS])
      exact ⟨⟨Nat.le_of_eq hc2.now, hc2.pend, houts.1, houts.2⟩, fun hpu' => ⟨hev0 hpu', trivial, hok2⟩,
        sendsOk_cons (by intro _ _ _ _ he; cases he) (sendsOk_cons (by intro _ _ _ _ he; cases he) hso2)⟩
    | true =>
      have el : l' = (release l1 s).emit (.nack (release l1 s).now s .rst n.mid true) := by
        rw [hl1]; simp [l', rxRst, hrem, hkn.1]
      have hS1 : Timer.step ⟨l.now, pend, outs⟩ (.rst s mid) = ⟨l.now, r', TOut.nackRst l.now s mid :: outs⟩ := by
        simp [Timer.step, hpm]
      rw [el]
      simp only [if_true, hS1]
      have hc1 : Core (mxOf par) l1 ⟨l.now, r', TOut.nackRst l.now s mid :: outs⟩ :=
        ⟨n1.symm, by rw [hl1]; exact hrm.1⟩
      obtain ⟨hc2, hd2, hok2, hso2⟩ := release_sim hp l1 _ s hi1 hf1 hc1
      have houts := DOut.outs_nack (oM := Out.nack (release l1 s).now s .rst n.mid true) hd2
        (by simp [obsS, obsM, release_now, n1, hkn.2]) (by intro o ho; simp [obsM] at ho; subst ho; exact ⟨rfl, rfl⟩)
        (by rw [o1]; exact hr.txs) (by rw [o1]; exact hr.nacks)
      exact ⟨⟨Nat.le_of_eq hc2.now, hc2.pend, houts.1, houts.2⟩, fun hpu' => ⟨hev0 hpu', trivial, hok2⟩,
        sendsOk_cons (by intro _ _ _ _ he; cases he) (sendsOk_cons (by intro _ _ _ _ he; cases he) hso2)⟩

theorem rx_finv {pu : Prop} {par : Nat → Sess} {P : Nat → Nat → Nat → Prop} (hp : GPar par) (l : L) (s mid : Nat)
    (isRst : Bool) (hi : FInv pu par P l) (hf : Fut pu l) :
    FInv pu par P (if isRst then rxRst l s mid else rxAck l s mid) ∧
    Fut pu (if isRst then rxRst l s mid else rxAck l s mid) := by
  obtain ⟨hi1, hf1, hk⟩ := removed_finv l s mid hi hf
  cases isRst with
  | false =>
    simp only [Bool.false_eq_true, if_false]
    unfold rxAck
    rcases hrm : removeNode l.q.nodes s mid with ⟨sent, rest⟩
    rw [hrm] at hi1 hf1
    cases sent with
    | none => exact ⟨hi1, hf1⟩
    | some n =>
      have := release_finv hp _ s hi1 hf1
      exact ⟨this.1, this.2.1⟩
  | true =>
    simp only [if_true]
    unfold rxRst
    rcases hrm : removeNode l.q.nodes s mid with ⟨sent, rest⟩
    rw [hrm] at hi1 hf1 hk
    cases sent with
    | none => exact ⟨finv_emit_other _ hi1 ⟨by intros; simp, by intros; simp⟩, hf1⟩
    | some n =>
      have := release_finv hp _ s hi1 hf1
      simp only [(hk n rfl).1, if_true]
      exact ⟨finv_emit_other _ this.1 ⟨by intros; simp, by intros; simp⟩, this.2.1⟩

/-- an arriving ACK / RST: the branch of `coap_dispatch`, then the I/O step `coap_io_do_epoll` ends with -/
theorem rx_simF {pu : Prop} {par : Nat → Sess} {P : Nat → Nat → Nat → Prop} (hp : GPar par) (l : L) (ts : TS)
    (s mid : Nat) (isRst : Bool) (hi : FInv pu par P l) (hf : Fut pu l) (hr : RelF (mxOf par) l ts) :
    let l' := if isRst then rxRst l s mid else rxAck l s mid
    let evs := TEv.tickN l.now 0 :: (if isRst then TEv.rst s mid else TEv.ack s mid) ::
      (trRemoved l s mid ++ trDueLoop (dueFuel l') l')
    RelF (mxOf par) (afterRx l') (Timer.run ts evs) ∧ (pu → RunOk ts evs) ∧ SendsOk par P evs := by
  intro l' evs
  obtain ⟨hr1, hok1, hso1⟩ := removed_simF hp l ts s mid isRst hi hf hr
  obtain ⟨hi', hf'⟩ := rx_finv hp l s mid isRst hi hf
  have h2 := dueLoop_simF hp (dueFuel l') l' _ hi' hf' hr1
  have e : evs = (TEv.tickN l.now 0 :: (if isRst then TEv.rst s mid else TEv.ack s mid) :: trRemoved l s mid) ++
      trDueLoop (dueFuel l') l' := by simp [evs]
  rw [e, timer_run_append]
  unfold afterRx
  rw [prepareCore_fst]
  exact ⟨h2.1, fun hpu' => runOk_append' _ _ _ (hok1 hpu') (h2.2.1 hpu'), sendsOk_append hso1 h2.2.2⟩

/-- an ACK with an invalid / request code: the ACK branch, one more output that is not an observation -/
theorem rxBad_eq (l : L) (s mid : Nat) :
    rxBad l s mid = rxAck l s mid ∨ ∃ o, obsM o = none ∧ rxBad l s mid = (rxAck l s mid).emit o := by
  unfold rxBad rxAck
  rcases removeNode l.q.nodes s mid with ⟨sent, rest⟩
  cases sent with
  | none => exact Or.inl rfl
  | some n => exact Or.inr ⟨_, rfl, rfl⟩

theorem rxBad_finv {pu : Prop} {par : Nat → Sess} {P : Nat → Nat → Nat → Prop} (hp : GPar par) (l : L) (s mid : Nat)
    (hi : FInv pu par P l) (hf : Fut pu l) : FInv pu par P (rxBad l s mid) ∧ Fut pu (rxBad l s mid) := by
  obtain ⟨hi1, hf1, hk⟩ := removed_finv l s mid hi hf
  unfold rxBad
  rcases hrm : removeNode l.q.nodes s mid with ⟨sent, rest⟩
  rw [hrm] at hi1 hf1 hk
  cases sent with
  | none => exact ⟨hi1, hf1⟩
  | some n =>
    have := release_finv hp _ s hi1 hf1
    exact ⟨finv_emit_other _ this.1 ⟨by intros; simp, by intros; simp⟩, this.2.1⟩

theorem rxBad_simF {pu : Prop} {par : Nat → Sess} {P : Nat → Nat → Nat → Prop} (hp : GPar par) (l : L) (ts : TS)
    (s mid : Nat) (hi : FInv pu par P l) (hf : Fut pu l) (hr : RelF (mxOf par) l ts) :
    let evs := TEv.tickN l.now 0 :: TEv.ack s mid ::
      (trRemoved l s mid ++ trDueLoop (dueFuel (rxBad l s mid)) (rxBad l s mid))
    RelF (mxOf par) (afterRx (rxBad l s mid)) (Timer.run ts evs) ∧ (pu → RunOk ts evs) ∧ SendsOk par P evs := by
  intro evs
  obtain ⟨hr1, hok1, hso1⟩ := removed_simF hp l ts s mid false hi hf hr
  simp only [Bool.false_eq_true, if_false] at hr1 hok1 hso1
  have hr1' : RelF (mxOf par) (rxBad l s mid) (Timer.run ts (TEv.tickN l.now 0 :: TEv.ack s mid :: trRemoved l s mid)) := by
    rcases rxBad_eq l s mid with h | ⟨o, ho, h⟩
    · rw [h]; exact hr1
    · rw [h]; exact relF_emit_none o ho hr1
  obtain ⟨hi', hf'⟩ := rxBad_finv hp l s mid hi hf
  have h2 := dueLoop_simF hp (dueFuel (rxBad l s mid)) (rxBad l s mid) _ hi' hf' hr1'
  have e : evs = (TEv.tickN l.now 0 :: TEv.ack s mid :: trRemoved l s mid) ++
      trDueLoop (dueFuel (rxBad l s mid)) (rxBad l s mid) := by simp [evs]
  rw [e, timer_run_append]
  unfold afterRx
  rw [prepareCore_fst]
  exact ⟨h2.1, fun hpu' => runOk_append' _ _ _ (hok1 hpu') (h2.2.1 hpu'), sendsOk_append hso1 h2.2.2⟩

/-! ### ACKs that find the message -/

/-- no `ack` event in a list of S events -/
def NoAck (evs : List TEv) : Prop := ∀ e ∈ evs, ∀ s m, e ≠ .ack s m

theorem noAck_nil : NoAck [] := by intro e he; cases he
theorem noAck_append {a b : List TEv} (ha : NoAck a) (hb : NoAck b) : NoAck (a ++ b) := by
  intro e he; rcases List.mem_append.mp he with h | h
  · exact ha e h
  · exact hb e h
theorem noAck_cons {e : TEv} {b : List TEv} (he : ∀ s m, e ≠ .ack s m) (hb : NoAck b) : NoAck (e :: b) := by
  intro x hx; rcases List.mem_cons.mp hx with h | h
  · rw [h]; exact he
  · exact hb x h

theorem ackS_tickN (s mid : Nat) (ts : TS) (t k : Nat) :
    ackS s mid (Timer.step ts (.tickN t k)).outs = ackS s mid ts.outs := by
  simp only [Timer.step]
  split
  · rw [ackS_fire]
  · rfl

theorem ackS_noAck (s mid : Nat) : ∀ (evs : List TEv) (ts : TS), NoAck evs →
    ackS s mid (Timer.run ts evs).outs = ackS s mid ts.outs := by
  intro evs
  induction evs with
  | nil => intro ts _; rfl
  | cons e evs ih =>
    intro ts h
    simp only [Timer.run, List.foldl_cons]
    have h1 := ih (Timer.step ts e) (fun x hx => h x (List.mem_cons_of_mem _ hx))
    simp only [Timer.run] at h1
    rw [h1]
    cases e with
    | send s' m' T mx => exact ackS_send s mid ts s' m' T mx
    | tick t => exact ackS_tick s mid ts t
    | tickN t k => exact ackS_tickN s mid ts t k
    | rst s' m' => exact ackS_rst s mid ts s' m'
    | ack s' m' => exact absurd rfl (h _ (List.mem_cons_self ..) s' m')

theorem noAck_trDrain : ∀ (fuel : Nat) (l : L) (s : Nat), NoAck (trDrain fuel l s)
  | 0, _, _ => noAck_nil
  | fuel + 1, l, s => by
    unfold trDrain
    split
    · exact noAck_nil
    · split
      · exact noAck_nil
      · split
        · exact noAck_nil
        · apply noAck_append _ (noAck_trDrain fuel _ s)
          split
          · exact noAck_cons (by intro _ _ h; cases h) noAck_nil
          · exact noAck_nil

theorem noAck_trRelease (l : L) (s : Nat) : NoAck (trRelease l s) := by
  unfold trRelease
  split
  · exact noAck_nil
  · split
    · exact noAck_trDrain _ _ _
    · exact noAck_nil

theorem noAck_trRemoved (l : L) (s mid : Nat) : NoAck (trRemoved l s mid) := by
  unfold trRemoved
  split
  · exact noAck_trRelease _ _
  · exact noAck_nil

theorem noAck_trDueLoop : ∀ (fuel : Nat) (l : L), NoAck (trDueLoop fuel l)
  | 0, _ => noAck_nil
  | fuel + 1, l => by
    unfold trDueLoop
    split
    · exact noAck_nil
    · split
      · split
        · exact noAck_nil
        · apply noAck_append _ (noAck_trDueLoop fuel _)
          unfold trRetransmit
          apply noAck_cons (by intro _ _ h; cases h)
          split
          · exact noAck_nil
          · exact noAck_trRelease _ _
      · exact noAck_nil

theorem removeTok_eq_removeNode : ∀ (l : List Node) (s tok : Nat), (∀ x ∈ l, x.tok = x.mid) →
    removeTok l s tok = removeNode l s tok
  | [], _, _, _ => rfl
  | n :: r, s, tok, h => by
    have hn : n.tok = n.mid := h n (by simp)
    have ih := removeTok_eq_removeNode r s tok (fun x hx => h x (by simp [hx]))
    unfold removeTok removeNode
    rw [hn, ih]

/-- **cancel_simF**: `coap_cancel_all_messages` against one `ack` (+ the `send`s of the drain) per removed node -/
theorem cancel_simF {pu : Prop} {par : Nat → Sess} {P : Nat → Nat → Nat → Prop} (hp : GPar par) :
    ∀ (fuel : Nat) (l : L) (ts : TS) (s tok : Nat), FInv pu par P l → Fut pu l → RelF (mxOf par) l ts → ts.now = l.now →
      RelF (mxOf par) (cancelToken fuel l s tok) (Timer.run ts (trCancel fuel l s tok)) ∧
      (Timer.run ts (trCancel fuel l s tok)).now = (cancelToken fuel l s tok).now ∧
      RunOk ts (trCancel fuel l s tok) ∧ SendsOk par P (trCancel fuel l s tok) ∧
      ∀ s0 m0, ackS s0 m0 (Timer.run ts (trCancel fuel l s tok)).outs =
        ackS s0 m0 ts.outs + cancelCount s0 m0 fuel l s tok := by
  intro fuel
  induction fuel with
  | zero => intro l ts s tok _ _ hr hn; exact ⟨hr, hn, trivial, sendsOk_nil _ _, fun _ _ => by simp [trCancel, Timer.run, cancelCount]⟩
  | succ f ih =>
    intro l ts s tok hi hf hr hn
    have htm : ∀ x ∈ l.q.nodes, x.tok = x.mid := fun x hx => (hi.nodes x hx).2.1
    have heq := removeTok_eq_removeNode l.q.nodes s tok htm
    obtain ⟨hi1, hf1, hk⟩ := removed_finv l s tok hi hf
    have hrm := remove_simF (mxOf par) l ts s tok hr.pend
    have h3 := all_removeNode (nodeOk_tfree par P) l.q.nodes s tok hi.nodes
    rcases hrem : removeNode l.q.nodes s tok with ⟨sent, rest⟩
    rw [hrem] at hi1 hf1 hk hrm h3 heq
    simp only [] at hi1 hf1 hk hrm h3
    cases sent with
    | none =>
      have e1 : cancelToken (f + 1) l s tok = l := by simp [cancelToken, heq]
      have e2 : trCancel (f + 1) l s tok = [] := by simp [trCancel, heq]
      rw [e1, e2]
      exact ⟨hr, hn, trivial, sendsOk_nil _ _, fun _ _ => by simp [Timer.run, cancelCount, heq]⟩
    | some n =>
      have hkn := hk n rfl
      have hkey := removeNode_key l.q.nodes s tok n (by rw [hrem])
      obtain ⟨l1, hl1⟩ : ∃ l1, l1 = ({ l with q := { l.q with nodes := rest } } : L) := ⟨_, rfl⟩
      rw [← hl1] at hi1 hf1
      have e1 : cancelToken (f + 1) l s tok = cancelToken f (release l1 s) s tok := by
        rw [hl1]; simp [cancelToken, heq, hkn.1]
      have e2 : trCancel (f + 1) l s tok = .ack s tok :: (trRelease l1 s ++ trCancel f (release l1 s) s tok) := by
        rw [hl1]; simp [trCancel, heq, hkn.1, hkey.2]
      have e3 : ∀ s0 m0, cancelCount s0 m0 (f + 1) l s tok =
          (if s = s0 ∧ tok = m0 then 1 else 0) + cancelCount s0 m0 f (release l1 s) s tok := by
        intro s0 m0; rw [hl1]; simp [cancelCount, heq, hkn.1, hkey.1, hkey.2]
      rw [e1, e2]
      rcases ts with ⟨tnow, pend, outs⟩
      simp only [] at hn
      subst hn
      have hne : (premove pend s tok).1 ≠ none := fun h => by have := hrm.2.2 h; cases this
      rcases hpm : premove pend s tok with ⟨res, r'⟩
      rw [hpm] at hne hrm
      simp only [] at hne hrm
      obtain ⟨m, rfl⟩ : ∃ m, res = some m := by
        cases res with | none => exact absurd rfl hne | some m => exact ⟨m, rfl⟩
      have n1 : l1.now = l.now := by rw [hl1]
      have o1 : l1.out = l.out := by rw [hl1]
      have hS1 : Timer.step ⟨l.now, pend, outs⟩ (.ack s tok) = ⟨l.now, r', TOut.acked l.now s tok :: outs⟩ := by
        simp [Timer.step, hpm]
      have hc1 : Core (mxOf par) l1 ⟨l.now, r', TOut.acked l.now s tok :: outs⟩ :=
        ⟨n1.symm, by rw [hl1]; exact hrm.1⟩
      obtain ⟨hc2, hd2, hok2, hso2⟩ := release_sim hp l1 _ s hi1 hf1 hc1
      have houts := hd2.outs (by rw [o1]; show txsS ([_] ++ outs) = _; rw [txsS_append, hr.txs]; simp [txsS, obsS])
        (by rw [o1]; show nksS ([_] ++ outs) = _; rw [nksS_append, hr.nacks]; simp [nksS, obsS])
      have hr2 : RelF (mxOf par) (release l1 s)
          (Timer.run ⟨l.now, r', TOut.acked l.now s tok :: outs⟩ (trRelease l1 s)) :=
        ⟨Nat.le_of_eq hc2.now, hc2.pend, houts.1, houts.2⟩
      have hfin := release_finv hp l1 s hi1 hf1
      have h4 := ih (release l1 s) _ s tok hfin.1 hfin.2.1 hr2 hc2.now
      simp only [Timer.run, List.foldl_cons, List.foldl_append, RunOk, hS1] at h4 ⊢
      refine ⟨h4.1, h4.2.1, ⟨trivial, ?_⟩, sendsOk_cons (by intro _ _ _ _ he; cases he) (sendsOk_append hso2 h4.2.2.2.1), ?_⟩
      · exact runOk_append' _ _ _ hok2 h4.2.2.1
      · intro s0 m0
        rw [h4.2.2.2.2 s0 m0, e3 s0 m0]
        have := ackS_noAck s0 m0 (trRelease l1 s) ⟨l.now, r', TOut.acked l.now s tok :: outs⟩ (noAck_trRelease l1 s)
        simp only [Timer.run] at this
        rw [this]
        by_cases hq : s = s0 ∧ tok = m0
        · simp [ackS, hq]; omega
        · simp [ackS, hq]

/-- a response arrives: cancel by token, response handler, then the I/O step -/
theorem rxNon_simF {pu : Prop} {par : Nat → Sess} {P : Nat → Nat → Nat → Prop} (hp : GPar par) (l : L) (ts : TS)
    (s mid tok : Nat) (hi : FInv pu par P l) (hf : Fut pu l) (hr : RelF (mxOf par) l ts) :
    let l' := rxNon l s mid tok
    let evs := TEv.tickN l.now 0 :: (trCancel (l.q.nodes.length + 1) l s tok ++ trDueLoop (dueFuel l') l')
    RelF (mxOf par) (afterRx l') (Timer.run ts evs) ∧ (pu → RunOk ts evs) ∧ SendsOk par P evs ∧
    ∀ s0 m0, ackS s0 m0 (Timer.run ts evs).outs =
      ackS s0 m0 ts.outs + cancelCount s0 m0 (l.q.nodes.length + 1) l s tok := by
  intro l' evs
  have hr0 : RelF (mxOf par) l { ts with now := l.now } := ⟨Nat.le_refl _, hr.pend, hr.txs, hr.nacks⟩
  obtain ⟨hr1, _, hok1, hso1, hack1⟩ := cancel_simF hp (l.q.nodes.length + 1) l _ s tok hi hf hr0 rfl
  have hc := cancelToken_finv hp (l.q.nodes.length + 1) l s tok hi hf
  have hi' : FInv pu par P l' := finv_emit_other _ hc.1 ⟨by intros; simp, by intros; simp⟩
  have hf' : Fut pu l' := hc.2
  have hr1' : RelF (mxOf par) l' (Timer.run { ts with now := l.now } (trCancel (l.q.nodes.length + 1) l s tok)) :=
    relF_emit_none _ rfl hr1
  have h2 := dueLoop_simF hp (dueFuel l') l' _ hi' hf' hr1'
  simp only [evs, Timer.run, List.foldl_cons, List.foldl_append, tickN0 ts l.now hr.now, RunOk]
  simp only [Timer.run] at h2 hack1 hok1
  refine ⟨?_, fun hpu' => ⟨rel_punctF hr.pend (hf hpu'), runOk_append' _ _ _ hok1 (h2.2.1 hpu')⟩,
    sendsOk_cons (by intro _ _ _ _ he; cases he) (sendsOk_append hso1 h2.2.2), ?_⟩
  · unfold afterRx
    rw [prepareCore_fst]
    exact h2.1
  · intro s0 m0
    have := ackS_noAck s0 m0 (trDueLoop (dueFuel l') l')
      (List.foldl Timer.step { ts with now := l.now } (trCancel (l.q.nodes.length + 1) l s tok)) (noAck_trDueLoop _ _)
    simp only [Timer.run] at this
    rw [this, hack1 s0 m0]

/-- **step_simF**: EVERY step of M over the alphabet — whatever the NSTART gate does, whatever is due — is matched by the
S events the code path stands for; and when the step is punctual these S events are punctual -/
theorem step_simF {pu : Prop} {par : Nat → Sess} {P : Nat → Nat → Nat → Prop} (hp : GPar par) (l : L) (ts : TS) (ev : Ev)
    (hi : FInv pu par P l) (hr : RelF (mxOf par) l ts) (hok : EvInF l ev) (hpu : pu → EvPunct l ev)
    (hP : ∀ s mid r, ev = .submit s true mid r →
      P s mid (calcTimeout (par s).atI (par s).atF (par s).arfI (par s).arfF r)) :
    RelF (mxOf par) (Msg.step l ev) (Timer.run ts (tr l ev)) ∧ (pu → RunOk ts (tr l ev)) ∧
    SendsOk par P (tr l ev) := by
  cases ev with
  | setNow t =>
    simp only [EvInF] at hok
    exact ⟨⟨Nat.le_trans hr.now hok, hr.pend, hr.txs, hr.nacks⟩, fun _ => trivial, sendsOk_nil _ _⟩
  | prepare =>
    have hf : Fut pu l := hpu
    have := dueLoop_simF hp (dueFuel l) l ts hi hf hr
    simp only [Msg.step, prepare, tr]
    rcases hpc : prepareCore l with ⟨l', w⟩
    have e : l' = dueLoop (dueFuel l) l := by rw [← prepareCore_fst, hpc]
    subst e
    exact ⟨relF_emit_none _ rfl this.1, this.2.1, this.2.2⟩
  | submit s con mid r =>
    have hf : Fut pu l := hpu
    obtain ⟨ca, dq, hg, hle, hdq⟩ := hi.sess s
    obtain ⟨hest, hopen, hns, h256⟩ := hp s
    have hso : (l.getS s).sockOpen = true := by rw [hg]; exact hopen
    cases con with
    | false =>
      -- a NON on an established session is transmitted at once and never queued: nothing for S
      have he : (l.getS s).est = true := by rw [hg]; exact hest
      have hM : Msg.step l (.submit s false mid r) =
          (l.emit (.tx l.now s mid 0 false)).emit (.sub (some mid)) := by
        simp [Msg.step, submit, hso, gate, he]
      have hT' : tr l (.submit s false mid r) = [] := by simp [tr, hso, gate, he]
      rw [hM, hT']
      exact ⟨relF_emit_none _ rfl (relF_emit_non _ _ _ _ hr), fun _ => trivial, sendsOk_nil _ _⟩
    | true =>
    obtain ⟨hT, h64⟩ := hok rfl
    by_cases hroom : ca < (par s).nstart
    · have hgt : gate (l.getS s) true = false := by
        have : ¬ ((l.getS s).conActive ≥ (l.getS s).nstart) := by rw [hg]; simp only []; omega
        have he : (l.getS s).est = true := by rw [hg]; exact hest
        simp [gate, he, this]
      have hM : Msg.step l (.submit s true mid r) =
          (waitAck ((l.emit (.tx l.now s mid 0 true)).setS s
              { (l.getS s) with conActive := ((l.getS s).conActive + 1) % 256 })
            { sess := s, mid := mid, t := 0,
              timeout := calcTimeout (l.getS s).atI (l.getS s).atF (l.getS s).arfI (l.getS s).arfF r,
              cnt := 0, tok := mid, con := true }).emit (.sub (some mid)) := by
        simp only [Msg.step, submit, hso, hgt]
        simp
      have hT' : tr l (.submit s true mid r) = [.tickN l.now 0,
          .send s mid (calcTimeout (l.getS s).atI (l.getS s).atF (l.getS s).arfI (l.getS s).arfF r) (l.getS s).maxRtx] := by
        simp [tr, hso, hgt]
      rw [hM, hT']
      have emx : (l.getS s).maxRtx = (par s).maxRtx := by rw [hg]
      have hT32 := calcTimeout_mod (l.getS s).atI (l.getS s).atF (l.getS s).arfI (l.getS s).arfF r
      have hPs := hP s mid r rfl
      have epar : (calcTimeout (par s).atI (par s).atF (par s).arfI (par s).arfF r) =
          calcTimeout (l.getS s).atI (l.getS s).atF (l.getS s).arfI (l.getS s).arfF r := by rw [hg]
      rw [epar] at hPs
      generalize calcTimeout (l.getS s).atI (l.getS s).atF (l.getS s).arfI (l.getS s).arfF r = T at *
      simp only [Timer.run, List.foldl_cons, List.foldl_nil, tickN0 ts l.now hr.now, RunOk]
      refine ⟨relF_emit_none _ rfl ⟨Nat.le_refl _, ?_, ?_, ?_⟩, fun hpu' => ⟨rel_punctF hr.pend (hf hpu'), hT, trivial⟩,
        sendsOk_cons (by intro _ _ _ _ he; cases he) (sendsOk_cons (by
          intro s' mid' T' mx' he
          injection he with e1 e2 e3 e4
          subst e1 e2 e3 e4
          exact ⟨hPs, emx⟩) (sendsOk_nil _ _))⟩
      · simp only [Timer.step, waitAck, hT32]
        rw [pinsert_er, hr.pend]
        show _ = absP (mxOf par) (enqueue l.q l.now T _).base (enqueue l.q l.now T _).nodes
        rw [absP_enqueue _ _ _ _ _ (Or.inr hi.base)]
        simp [er, toP, mxOf, emx]
      · simp only [Timer.step, waitAck]
        show txsS ([_] ++ ts.outs) = txsM ([_] ++ l.out)
        rw [txsS_append, txsM_append, hr.txs]
        simp [txsS, txsM, obsS, obsM]
      · simp only [Timer.step, waitAck]
        show nksS ([_] ++ ts.outs) = nksM ([_] ++ l.out)
        rw [nksS_append, nksM_append, hr.nacks]
        simp [nksS, nksM, obsS, obsM, isNk]
    · have hgt : gate (l.getS s) true = true := by
        have : (l.getS s).conActive ≥ (l.getS s).nstart := by rw [hg]; simp only []; omega
        simp [gate, this]
      have hT' : tr l (.submit s true mid r) = [] := by simp [tr, hso, hgt]
      rw [hT']
      simp only [Msg.step, submit, hso, hgt]
      simp only [Bool.not_true, Bool.false_eq_true, if_false, if_true]
      split
      · exact ⟨relF_emit_none _ rfl hr, fun _ => trivial, sendsOk_nil _ _⟩
      · exact ⟨relF_emit_none _ rfl ⟨hr.now, hr.pend, hr.txs, hr.nacks⟩, fun _ => trivial, sendsOk_nil _ _⟩
  | rxAck s mid =>
    have hf : Fut pu l := hpu
    obtain ⟨ca, dq, hg, hle, hdq⟩ := hi.sess s
    have hso : (l.getS s).sockOpen = true := by rw [hg]; exact (hp s).2.1
    have := rx_simF hp l ts s mid false hi hf hr
    simp only [Bool.false_eq_true, if_false] at this
    simp only [Msg.step, hso, if_true, tr]
    exact this
  | rxRst s mid =>
    have hf : Fut pu l := hpu
    obtain ⟨ca, dq, hg, hle, hdq⟩ := hi.sess s
    have hso : (l.getS s).sockOpen = true := by rw [hg]; exact (hp s).2.1
    have := rx_simF hp l ts s mid true hi hf hr
    simp only [if_true] at this
    simp only [Msg.step, hso, if_true, tr]
    exact this
  | rxNon s mid tok =>
    have hf : Fut pu l := hpu
    obtain ⟨ca, dq, hg, hle, hdq⟩ := hi.sess s
    have hso : (l.getS s).sockOpen = true := by rw [hg]; exact (hp s).2.1
    have := rxNon_simF hp l ts s mid tok hi hf hr
    simp only [Msg.step, hso, if_true, tr]
    exact ⟨this.1, this.2.1, this.2.2.1⟩
  | rxBad s mid =>
    have hf : Fut pu l := hpu
    obtain ⟨ca, dq, hg, hle, hdq⟩ := hi.sess s
    have hso : (l.getS s).sockOpen = true := by rw [hg]; exact (hp s).2.1
    have := rxBad_simF hp l ts s mid hi hf hr
    simp only [Msg.step, hso, if_true, tr]
    exact this
  | hold s => exact absurd hok (by simp [EvInF])
  | connect s =>
    have hf : Fut pu l := hpu
    have hc0 : Core (mxOf par) l { ts with now := l.now } := hr.core_of
    obtain ⟨hc2, hd2, hok2, hso2⟩ := connected_sim hp l _ s hi hf hc0
    have houts := hd2.outs hr.txs hr.nacks
    simp only [Msg.step, tr, Timer.run, List.foldl_cons, tickN0 ts l.now hr.now, RunOk]
    exact ⟨⟨Nat.le_of_eq hc2.now, hc2.pend, houts.1, houts.2⟩,
      fun hpu' => ⟨rel_punctF hr.pend (hf hpu'), hok2⟩, sendsOk_cons (by intro _ _ _ _ he; cases he) hso2⟩
  | disconnect s => exact absurd hok (by simp [EvInF])

/-! ### whole runs -/

/-- **run_simF**: the simulation for EVERY run over the alphabet: the invariant (delay queues included), the relation, the
provenance of S's `send`s, and — for punctual runs — punctuality of the S run -/
theorem run_simF {pu : Prop} {par : Nat → Sess} {P : Nat → Nat → Nat → Prop} (hp : GPar par) :
    ∀ (evs : List Ev) (l : L) (ts : TS), FInv pu par P l → RelF (mxOf par) l ts → RunInF l evs → (pu → Punctual l evs) →
      (∀ s mid r, Ev.submit s true mid r ∈ evs → P s mid (calcTimeout (par s).atI (par s).atF (par s).arfI (par s).arfF r)) →
      FInv pu par P (Msg.run l evs) ∧ RelF (mxOf par) (Msg.run l evs) (Timer.run ts (trRun l evs)) ∧
      (pu → RunOk ts (trRun l evs)) ∧ SendsOk par P (trRun l evs) := by
  intro evs
  induction evs with
  | nil => intro l ts hi hr _ _ _; exact ⟨hi, hr, fun _ => trivial, sendsOk_nil _ _⟩
  | cons ev evs ih =>
    intro l ts hi hr hin hpu hP
    have hP1 : ∀ s mid r, ev = .submit s true mid r →
        P s mid (calcTimeout (par s).atI (par s).atF (par s).arfI (par s).arfF r) :=
      fun s mid r h => hP s mid r (by simp [h])
    obtain ⟨hr1, hok1, hso1⟩ := step_simF hp l ts ev hi hr hin.1 (fun h => (hpu h).1) hP1
    have hi1 := step_finv hp l ev hi (evInF_evG hin.1) (fun h => (hpu h).1) hP1
    obtain ⟨hi2, hr2, hok2, hso2⟩ := ih _ _ hi1 hr1 hin.2 (fun h => (hpu h).2)
      (fun s mid r h => hP s mid r (by simp [h]))
    simp only [Msg.run, List.foldl_cons, trRun, timer_run_append]
    exact ⟨hi2, hr2, fun hpu' => runOk_append' _ _ _ (hok1 hpu') (hok2 hpu'), sendsOk_append hso1 hso2⟩

theorem relF_init (mx : Nat → Nat) (now0 : Nat) (sess : List Sess) : RelF mx (Msg.init now0 sess) (Timer.init now0) :=
  ⟨Nat.le_refl _, rfl, rfl, rfl⟩

/-! ### transmissions seen on M are transmissions of S, and back (through the list of transmissions) -/

theorem tx_M_to_S {l : L} {ts : TS} (ho : txsS ts.outs = txsM l.out)
    {t s mid k : Nat} (h : Out.tx t s mid k true ∈ l.out) :
    ∃ t0 T mx, TOut.tx t s mid k t0 T mx ∈ ts.outs := by
  have h1 : Obs.tx t s mid k true ∈ txsM l.out :=
    List.mem_filter.2 ⟨List.mem_filterMap.2 ⟨_, h, rfl⟩, rfl⟩
  rw [← ho] at h1
  obtain ⟨o, ho1, ho2⟩ := List.mem_filterMap.1 (List.mem_filter.1 h1).1
  cases o with
  | tx t' s' mid' k' t0 T mx =>
    simp only [obsS, Option.some.injEq, Obs.tx.injEq] at ho2
    obtain ⟨rfl, rfl, rfl, rfl, _⟩ := ho2
    exact ⟨t0, T, mx, ho1⟩
  | nackRetries _ _ _ => simp [obsS] at ho2
  | nackRst _ _ _ => simp [obsS] at ho2
  | acked _ _ _ => simp [obsS] at ho2

theorem tx_S_to_M {l : L} {ts : TS} (ho : txsS ts.outs = txsM l.out)
    {t s mid k t0 T mx : Nat} (h : TOut.tx t s mid k t0 T mx ∈ ts.outs) : Out.tx t s mid k true ∈ l.out := by
  have h1 : Obs.tx t s mid k true ∈ txsS ts.outs :=
    List.mem_filter.2 ⟨List.mem_filterMap.2 ⟨_, h, rfl⟩, rfl⟩
  rw [ho] at h1
  obtain ⟨o, ho1, ho2⟩ := List.mem_filterMap.1 (List.mem_filter.1 h1).1
  cases o with
  | tx t' s' mid' k' c =>
    simp only [obsM, Option.some.injEq, Obs.tx.injEq] at ho2
    obtain ⟨rfl, rfl, rfl, rfl, rfl⟩ := ho2
    exact ho1
  | nack t' s' reason mid' known =>
    cases reason <;> cases known <;> simp [obsM] at ho2
  | rsp _ _ _ => simp [obsM] at ho2
  | wait _ _ => simp [obsM] at ho2
  | sub _ => simp [obsM] at ho2

/-! ### conservation through the simulation: first transmissions = outcomes + pending -/

/-- number of FIRST transmissions of (s, mid) among observations -/
def tx0O (s mid : Nat) : List Obs → Nat
  | [] => 0
  | o :: r => (match o with
      | .tx _ s' m' 0 _ => if s' = s ∧ m' = mid then 1 else 0
      | _ => 0) + tx0O s mid r

/-- M: number of first transmissions of the Confirmable (s, mid) — `coap_send`s that got past the NSTART gate at once, and
messages that left the delay queue -/
def tx0C (s mid : Nat) (out : List Out) : Nat := tx0O s mid (txsM out)

/-- S: number of first transmissions of (s, mid) -/
def tx0S (s mid : Nat) : List TOut → Nat
  | [] => 0
  | o :: r => (match o with
      | .tx _ s' m' 0 _ _ _ => if s' = s ∧ m' = mid then 1 else 0
      | _ => 0) + tx0S s mid r

theorem tx0S_obs (s mid : Nat) (outs : List TOut) : tx0S s mid outs = tx0O s mid (txsS outs) := by
  induction outs with
  | nil => rfl
  | cons o r ih =>
    cases o with
    | tx t s' m' k t0 T mx =>
      have e : txsS (TOut.tx t s' m' k t0 T mx :: r) = Obs.tx t s' m' k true :: txsS r := by
        simp [txsS, obsS, List.filter_cons, isTx]
      rw [e]
      cases k <;> simp only [tx0S, tx0O, ih]
    | nackRetries t s' m' =>
      have e : txsS (TOut.nackRetries t s' m' :: r) = txsS r := by simp [txsS, obsS, List.filter_cons, isTx]
      rw [e]; simp only [tx0S, ih]; omega
    | nackRst t s' m' =>
      have e : txsS (TOut.nackRst t s' m' :: r) = txsS r := by simp [txsS, obsS, List.filter_cons, isTx]
      rw [e]; simp only [tx0S, ih]; omega
    | acked t s' m' =>
      have e : txsS (TOut.acked t s' m' :: r) = txsS r := by
        simp only [txsS, List.filterMap_cons, obsS]
      rw [e]; simp only [tx0S, ih]; omega

theorem fire_tx0 (s mid : Nat) (f : Nat) (ts : TS) : tx0S s mid (fire f ts).outs = tx0S s mid ts.outs := by
  induction f generalizing ts with
  | zero => rfl
  | succ f ih =>
    rcases ts with ⟨now, pend, outs⟩
    rcases pend with _ | ⟨⟨d, m⟩, r⟩
    · rfl
    · simp only [fire]
      split
      · split <;> rw [ih] <;> simp [tx0S]
      · rfl

theorem step_tx0 (s mid : Nat) (ts : TS) (ev : TEv) :
    tx0S s mid (Timer.step ts ev).outs = sendW s mid ev + tx0S s mid ts.outs := by
  cases ev with
  | send s' m' T mx => simp [Timer.step, tx0S, sendW]
  | tick now' => simp only [Timer.step, sendW]; split <;> simp [fire_tx0]
  | tickN now' k => simp only [Timer.step, sendW]; split <;> simp [fire_tx0]
  | ack s' m' =>
    simp only [Timer.step, sendW]
    rcases premove ts.pend s' m' with ⟨_ | m, r⟩ <;> simp [tx0S]
  | rst s' m' =>
    simp only [Timer.step, sendW]
    rcases premove ts.pend s' m' with ⟨_ | m, r⟩ <;> simp [tx0S]

theorem run_tx0 (s mid : Nat) (evs : List TEv) : ∀ ts : TS,
    tx0S s mid (Timer.run ts evs).outs = sc s mid evs + tx0S s mid ts.outs := by
  induction evs with
  | nil => intro ts; simp [Timer.run, sc]
  | cons ev evs ih =>
    intro ts
    have h1 := ih (Timer.step ts ev)
    have h2 := step_tx0 s mid ts ev
    simp only [Timer.run, List.foldl_cons, sc] at h1 ⊢
    omega

theorem obsN_filter (s mid : Nat) (l : List Obs) : obsN s mid (l.filter isNk) = obsN s mid l := by
  induction l with
  | nil => rfl
  | cons o r ih =>
    cases o with
    | tx t s' m' k c =>
      have e : List.filter isNk (Obs.tx t s' m' k c :: r) = List.filter isNk r := by
        simp [List.filter_cons, isNk]
      rw [e, ih]; simp [obsN]
    | nackRetries t s' m' =>
      have e : List.filter isNk (Obs.nackRetries t s' m' :: r) = Obs.nackRetries t s' m' :: List.filter isNk r := by
        simp [List.filter_cons, isNk]
      rw [e]; simp only [obsN, ih]
    | nackRst t s' m' =>
      have e : List.filter isNk (Obs.nackRst t s' m' :: r) = Obs.nackRst t s' m' :: List.filter isNk r := by
        simp [List.filter_cons, isNk]
      rw [e]; simp only [obsN, ih]

theorem nackS_nks (s mid : Nat) (outs : List TOut) : nackS s mid outs = obsN s mid (nksS outs) := by
  rw [nackS_obs, nksS, obsN_filter]

theorem nackC_nks (s mid : Nat) (out : List Out) : nackC s mid out = obsN s mid (nksM out) := by
  rw [nackC_obs, nksM, obsN_filter]

theorem noAck_trConnected (l : L) (s : Nat) : NoAck (trConnected l s) := noAck_trDrain _ _ _

/-- one M event: the `acked` outputs of S grow by one exactly when an arriving ACK (empty: `rxAck`; invalid / request code:
`rxBad`) finds its message in the send queue — `Sched.remW` on this alphabet -/
theorem ackS_stepF {par : Nat → Sess} {P : Nat → Nat → Nat → Prop} (hp : GPar par) (s mid : Nat) (l : L) (ts : TS)
    (ev : Ev) (hi : FInv False par P l) (hr : RelF (mxOf par) l ts) (hok : EvInF l ev) :
    ackS s mid (Timer.run ts (tr l ev)).outs = ackS s mid ts.outs + remW s mid l ev := by
  have hopen : ∀ s', (l.getS s').sockOpen = true := fun s' => by
    obtain ⟨ca, dq, hg, _, _⟩ := hi.sess s'
    rw [hg]; exact (hp s').2.1
  cases ev with
  | rxNon s' m' tok =>
    have := (rxNon_simF hp l ts s' m' tok hi (fun h => h.elim) hr).2.2.2 s mid
    simp only [tr, remW, hopen s', if_true]
    exact this
  | rxBad s' m' =>
    simp only [tr, remW]
    split
    · have h2 := (remove_simF (mxOf par) l ts s' m' hr.pend).2
      simp only [Timer.run, List.foldl_cons]
      have h3 := ackS_noAck s mid _ (Timer.step (Timer.step ts (.tickN l.now 0)) (.ack s' m'))
        (noAck_append (noAck_trRemoved l s' m') (noAck_trDueLoop (dueFuel (rxBad l s' m')) (rxBad l s' m')))
      simp only [Timer.run] at h3
      rw [h3, ackS_ack, ackS_tickN, tickN0 ts l.now hr.now]
      by_cases hf : (removeNode l.q.nodes s' m').1 = none
      · have := h2.1 hf; simp [hf, this]
      · have : (premove ts.pend s' m').1 ≠ none := fun h => hf (h2.2 h)
        simp [hf, this]
    · rename_i hso
      exact absurd (hopen s') hso
  | rxAck s' m' =>
    simp only [tr, remW]
    split
    · have h2 := (remove_simF (mxOf par) l ts s' m' hr.pend).2
      simp only [Timer.run, List.foldl_cons]
      have h3 := ackS_noAck s mid _ (Timer.step (Timer.step ts (.tickN l.now 0)) (.ack s' m'))
        (noAck_append (noAck_trRemoved l s' m') (noAck_trDueLoop (dueFuel (rxAck l s' m')) (rxAck l s' m')))
      simp only [Timer.run] at h3
      rw [h3, ackS_ack, ackS_tickN, tickN0 ts l.now hr.now]
      by_cases hf : (removeNode l.q.nodes s' m').1 = none
      · have := h2.1 hf; simp [hf, this]
      · have : (premove ts.pend s' m').1 ≠ none := fun h => hf (h2.2 h)
        simp [hf, this]
    · rename_i hso
      exact absurd (hopen s') hso
  | setNow t => simp [tr, Timer.run, remW]
  | prepare => simp only [tr, remW, Nat.add_zero]; exact ackS_noAck s mid _ ts (noAck_trDueLoop _ _)
  | submit s' c m' r =>
    simp only [tr, remW, Nat.add_zero]
    apply ackS_noAck
    split
    · exact noAck_nil
    · split
      · exact noAck_nil
      · split
        · exact noAck_cons (by intro _ _ h; cases h) (noAck_cons (by intro _ _ h; cases h) noAck_nil)
        · exact noAck_nil
  | rxRst s' m' =>
    simp only [tr, remW, Nat.add_zero]
    apply ackS_noAck
    split
    · exact noAck_cons (by intro _ _ h; cases h) (noAck_cons (by intro _ _ h; cases h)
        (noAck_append (noAck_trRemoved l s' m') (noAck_trDueLoop _ _)))
    · exact noAck_nil
  | hold _ => simp [tr, Timer.run, remW]
  | connect s' =>
    simp only [tr, remW, Nat.add_zero]
    exact ackS_noAck s mid _ ts (noAck_cons (by intro _ _ h; cases h) (noAck_trConnected l s'))
  | disconnect _ => simp [tr, Timer.run, remW]

theorem finv_open {pu : Prop} {par : Nat → Sess} {P : Nat → Nat → Nat → Prop} (hp : GPar par) {l : L}
    (hi : FInv pu par P l) (s : Nat) : (l.getS s).sockOpen = true := by
  obtain ⟨ca, dq, hg, _, _⟩ := hi.sess s
  rw [hg]; exact (hp s).2.1

theorem ackS_runF {par : Nat → Sess} {P : Nat → Nat → Nat → Prop} (hp : GPar par) (s mid : Nat) :
    ∀ (evs : List Ev) (l : L) (ts : TS), FInv False par P l → RelF (mxOf par) l ts → RunInF l evs →
      (∀ s mid r, Ev.submit s true mid r ∈ evs → P s mid (calcTimeout (par s).atI (par s).atF (par s).arfI (par s).arfF r)) →
      ackS s mid (Timer.run ts (trRun l evs)).outs = ackS s mid ts.outs + remC s mid l evs := by
  intro evs
  induction evs with
  | nil => intro l ts _ _ _ _; simp [trRun, Timer.run, remC]
  | cons ev evs ih =>
    intro l ts hi hr hin hP
    have hP1 : ∀ s mid r, ev = .submit s true mid r →
        P s mid (calcTimeout (par s).atI (par s).atF (par s).arfI (par s).arfF r) :=
      fun s mid r h => hP s mid r (by simp [h])
    obtain ⟨hr1, _, _⟩ := step_simF hp l ts ev hi hr hin.1 (fun h => h.elim) hP1
    have hi1 := step_finv hp l ev hi (evInF_evG hin.1) (fun h => h.elim) hP1
    simp only [trRun, timer_run_append, remC]
    rw [ih _ _ hi1 hr1 hin.2 (fun s mid r h => hP s mid r (by simp [h])),
      ackS_stepF hp s mid l ts ev hi hr hin.1]
    omega

/-- **conserve_simF**: `single_outcome` of S read on M through the simulation — for EVERY run over the alphabet, for every
(session, mid): first transmissions of the Confirmable = outcome NACKs (TOO_MANY_RETRIES / RST with the sent PDU) + ACKs that
found it (`Sched.remC`: empty ACKs, and ACKs with an invalid / request code) + nodes in the send queue -/
theorem conserve_simF {par : Nat → Sess} (hp : GPar par) (s mid now0 : Nat) (evs : List Ev) (l0 : L)
    (hi : FInv False par (fun _ _ _ => True) l0) (hr : RelF (mxOf par) l0 (Timer.init now0)) (hin : RunInF l0 evs) :
    tx0C s mid (Msg.run l0 evs).out =
      nackC s mid (Msg.run l0 evs).out + remC s mid l0 evs + pendC s mid (Msg.run l0 evs).q.nodes := by
  obtain ⟨_, hr2, _, _⟩ := run_simF (pu := False) hp evs l0 (Timer.init now0) hi hr hin (fun h => h.elim)
    (fun _ _ _ _ => trivial)
  have hack := ackS_runF hp s mid evs l0 (Timer.init now0) hi hr hin (fun _ _ _ _ => trivial)
  have hso := Timer.run_conserve s mid (trRun l0 evs) (Timer.init now0)
  have htx := run_tx0 s mid (trRun l0 evs) (Timer.init now0)
  rw [oc_split, nackS_nks, hr2.nacks, ← nackC_nks, hack, ← pc_er, hr2.pend, pc_absP] at hso
  rw [tx0S_obs, hr2.txs] at htx
  simp only [Timer.init, ackS, tx0S, oc, pc, Nat.zero_add, Nat.add_zero] at hso htx
  unfold tx0C
  omega

end Coap.SimF
