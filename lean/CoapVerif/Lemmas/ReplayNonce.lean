import CoapVerif.Lemmas.Replay
import CoapVerif.Lemmas.OscoreNonce
/- The bridge C15 → C14: the Partial IVs a sender context puts on the wire (C15's model of
`coap_oscore_new_pdu_encrypted_lkd` + restarts) are below 2^40 and strictly increasing, so by C14's
`nonce_inj` / `pivBytes_inj` the AEAD nonces are pairwise different.  Nothing imports this file; C15 can re-export
`sender_nonces_distinct` (add the module to its LEAN_MODULES). -/
namespace Coap
open Coap.Replay Coap.Spec.Oscore

/-- one operation emits only Partial IVs below `SEQ_MAX` = 2^40 − 1 -/
theorem sstep_emitted_lt {y : SSys} {U : List Nat} {n : Nat} (g : SGood y U n) (hn : n < 2 ^ 63) (op : SOp) :
    ∀ p ∈ emitted (sstep y op).2, p < SEQ_MAX := by
  have hsm : SEQ_MAX = 1099511627775 := rfl
  have hseq := g.seq_le
  cases op with
  | crash f' => simp [sstep, emitted]
  | protect =>
    intro p hp
    simp only [sstep, protect] at hp
    have hmod : (y.s.seq + 1) % 2 ^ 64 = y.s.seq + 1 := Nat.mod_eq_of_lt (by omega)
    rw [hmod] at hp
    by_cases h1 : y.s.seq + 1 > SEQ_MAX
    · simp [h1, emitted] at hp
    · by_cases h2 : y.s.seq + 1 > y.s.next
      · simp [h1, h2, emitted] at hp; omega
      · simp [h1, h2, emitted] at hp; omega

theorem srun_pivs_lt (ops : List SOp) : ∀ (y : SSys) (U : List Nat) (n : Nat), SGood y U n →
    n + ops.length < 2 ^ 63 → ∀ p ∈ pivs (srun y ops), p < SEQ_MAX := by
  induction ops with
  | nil => intro _ _ _ _ _ p hp; simp [srun, pivs] at hp
  | cons op ops ih =>
    intro y U n g hn p hp
    simp only [List.length_cons] at hn
    obtain ⟨g', _⟩ := sstep_good g (by omega) op
    simp only [srun, pivs_cons] at hp
    rcases List.mem_append.mp hp with hp | hp
    · exact sstep_emitted_lt g (by omega) op p hp
    · exact ih _ _ _ g' (by omega) p hp

/-- **A sender context never uses an AEAD nonce twice, also across restarts**: for every Common IV, Sender ID of at most
7 bytes, `ssn_freq`, start value and sequence of protect / crash-and-restart operations, the nonces
`nonce civ kid (pivBytes piv)` of the messages put on the wire are pairwise different. -/
theorem sender_nonces_distinct (civ kid : Bytes) (hk : kid.length ≤ 7) (f start : Nat) (ops : List SOp)
    (hs : start ≤ SEQ_MAX + 2 ^ 32) (hl : ops.length < 2 ^ 63) :
    ((pivs (srun (SSys.start f start) ops)).map fun s => nonce civ kid (pivBytes s)).Pairwise (· ≠ ·) := by
  have hlt := srun_pivs_lt ops _ [] 0 (sgood_start f start hs) (by omega)
  have hinc := (srun_increasing ops _ [] 0 (sgood_start f start hs) (by omega)).2
  have hsm : SEQ_MAX = 1099511627775 := rfl
  rw [List.pairwise_map]
  refine List.Pairwise.imp_of_mem ?_ hinc
  intro a b ha hb hab h
  have ha' := hlt a ha
  have hb' := hlt b hb
  obtain ⟨_, e⟩ := nonce_inj civ kid kid _ _ hk hk (pivBytes_length a (by omega)) (pivBytes_length b (by omega))
    (pivBytes_minimal a (by omega)) (pivBytes_minimal b (by omega)) h
  have := pivBytes_inj a b (by omega) (by omega) e
  omega

end Coap
