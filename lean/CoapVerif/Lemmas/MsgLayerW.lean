import CoapVerif.Model.MsgLayerW
/-
C06, socket-write failures: the model with a write oracle (`Model/MsgLayerW.lean`) against the base model.

`*_tracks`: as long as no FIRST transmission fails in the write (`dev = false` at the end), every function of the
write-failure model reaches exactly the state (send queue, sessions, clock, output list) the base function reaches —
whatever the oracle says about RETRANSMISSIONS.  A retransmission that cannot be written is, for the message layer, a
datagram lost on the wire: same queue, same deadline, same `con_active`, same later outcome.  `Out.tx` in the
write-failure model is a write ATTEMPT, so the base model's theorems about transmissions read as theorems about
attempts.  Core Lean only.
-/
namespace Coap.MsgW
open Coap.SQ Coap.Msg

@[simp] theorem write_l (lw : LW) (s mid cnt : Nat) (con : Bool) :
    (write lw s mid cnt con).2.l = lw.l.emit (.tx lw.l.now s mid cnt con) := by
  unfold write; dsimp only; split <;> rfl

@[simp] theorem write_dev (lw : LW) (s mid cnt : Nat) (con : Bool) : (write lw s mid cnt con).2.dev = lw.dev := by
  unfold write; dsimp only; split <;> rfl

@[simp] theorem write_wf (lw : LW) (s mid cnt : Nat) (con : Bool) : (write lw s mid cnt con).2.wf = lw.wf.tail := by
  unfold write; dsimp only; split <;> rfl

@[simp] theorem write_res (lw : LW) (s mid cnt : Nat) (con : Bool) : (write lw s mid cnt con).1 = lw.wf.headD false := rfl

/-- the attempts marked as failed so far stay marked; a failing write marks exactly the new `tx` -/
theorem write_failed (lw : LW) (s mid cnt : Nat) (con : Bool) :
    (write lw s mid cnt con).2.failed =
      if lw.wf.headD false then lw.l.out.length :: lw.failed else lw.failed := by
  unfold write; dsimp only; split <;> rfl

@[simp] theorem drainRound_res (lw : LW) (s : Nat) (n : Node) (rest : List Node) :
    (drainRound lw s n rest).1 = lw.wf.headD false := rfl

@[simp] theorem drainRound_wf (lw : LW) (s : Nat) (n : Node) (rest : List Node) :
    (drainRound lw s n rest).2.wf = lw.wf.tail := by
  unfold drainRound; dsimp only; split <;> simp

@[simp] theorem drainRound_dev (lw : LW) (s : Nat) (n : Node) (rest : List Node) :
    (drainRound lw s n rest).2.dev = lw.dev := by
  unfold drainRound; dsimp only; split <;> simp

/-- the round of the base model's `drain` -/
theorem drainRound_l (lw : LW) (s : Nat) (n : Node) (rest : List Node) :
    (drainRound lw s n rest).2.l =
      (let se := lw.l.getS s
       let ca := if n.con then (se.conActive + 1) % 256 else se.conActive
       let l := lw.l.setS s { se with conActive := ca, delayq := rest }
       let l := l.emit (.tx l.now s n.mid n.cnt n.con)
       if n.con then waitAck l { n with sess := s } else l) := by
  unfold drainRound; dsimp only; split <;> simp

theorem drainW_tracks : ∀ (fuel : Nat) (lw : LW) (s : Nat),
    (drainW fuel lw s).dev = false → lw.dev = false ∧ (drainW fuel lw s).l = drain fuel lw.l s
  | 0, lw, s => fun h => ⟨h, rfl⟩
  | fuel + 1, lw, s => by
    intro h
    unfold drainW at h ⊢
    unfold drain
    dsimp only at h ⊢
    cases hdq : (lw.l.getS s).delayq with
    | nil => simp only [hdq] at h ⊢; exact ⟨h, trivial⟩
    | cons n rest =>
      simp only [hdq] at h ⊢
      by_cases hest : (lw.l.getS s).est = true
      · by_cases hg : (n.con && decide ((lw.l.getS s).conActive ≥ (lw.l.getS s).nstart)) = true
        · simp only [hest, hg, Bool.not_true, Bool.false_eq_true, if_false, if_true] at h ⊢; exact ⟨h, trivial⟩
        · simp only [hest, hg, Bool.not_true, Bool.false_eq_true, if_false] at h ⊢
          by_cases hf : lw.wf.headD false = true
          · simp only [drainRound_res, hf, if_true] at h
            cases h
          · simp only [drainRound_res, hf, Bool.false_eq_true, if_false] at h ⊢
            have ih := drainW_tracks fuel _ s h
            rw [drainRound_dev] at ih
            refine ⟨ih.1, ?_⟩
            rw [ih.2, drainRound_l]
            cases hc : n.con <;> simp [hest]
      · have hest' : (lw.l.getS s).est = false := by simpa using hest
        simp only [hest', Bool.not_false, if_true] at h ⊢; exact ⟨h, trivial⟩

theorem connectedW_tracks (lw : LW) (s : Nat) :
    (connectedW lw s).dev = false → lw.dev = false ∧ (connectedW lw s).l = connected lw.l s := by
  intro h
  unfold connectedW at h ⊢
  have := drainW_tracks _ _ s h
  exact ⟨this.1, this.2⟩

theorem releaseW_tracks (lw : LW) (s : Nat) :
    (releaseW lw s).dev = false → lw.dev = false ∧ (releaseW lw s).l = release lw.l s := by
  intro h
  unfold releaseW at h ⊢
  unfold release
  dsimp only at h ⊢
  by_cases h0 : (lw.l.getS s).conActive = 0
  · simp only [h0, if_true] at h ⊢; exact ⟨h, trivial⟩
  · simp only [h0, if_false] at h ⊢
    cases he : (lw.l.getS s).est with
    | true =>
      simp only [he, if_true] at h ⊢
      have := connectedW_tracks _ s h
      exact ⟨this.1, this.2⟩
    | false =>
      simp only [he, Bool.false_eq_true, if_false] at h ⊢; exact ⟨h, trivial⟩

theorem submitW_tracks (lw : LW) (s : Nat) (con : Bool) (mid r : Nat) :
    (submitW lw s con mid r).dev = false → lw.dev = false ∧ (submitW lw s con mid r).l = submit lw.l s con mid r := by
  intro h
  unfold submitW at h ⊢
  unfold submit
  dsimp only at h ⊢
  cases ho : (lw.l.getS s).sockOpen with
  | false => simp only [ho, Bool.not_false, if_true] at h ⊢; exact ⟨h, trivial⟩
  | true =>
    simp only [ho, Bool.not_true, Bool.false_eq_true, if_false] at h ⊢
    cases hg : gate (lw.l.getS s) con with
    | true =>
      simp only [hg, if_true] at h ⊢
      by_cases hd : ((lw.l.getS s).delayq.any fun x => x.mid = mid) = true
      · simp only [hd, if_true] at h ⊢; exact ⟨h, trivial⟩
      · simp only [hd, Bool.false_eq_true, if_false] at h ⊢; exact ⟨h, trivial⟩
    | false =>
      simp only [hg, Bool.false_eq_true, if_false] at h ⊢
      by_cases hf : lw.wf.headD false = true
      · simp only [write_res, hf, if_true] at h
        cases h
      · simp only [write_res, hf, Bool.false_eq_true, if_false] at h ⊢
        cases con with
        | true => simp only [if_true] at h ⊢; exact ⟨by simpa using h, by simp⟩
        | false => simp only [Bool.false_eq_true, if_false] at h ⊢; exact ⟨by simpa using h, by simp⟩

/-- `coap_retransmit`: a retransmission that cannot be written leaves the state of one that was written (and lost) -/
theorem retransmitW_tracks (lw : LW) (n : Node) :
    (retransmitW lw n).dev = false → lw.dev = false ∧ (retransmitW lw n).l = retransmit lw.l n := by
  intro h
  unfold retransmitW at h ⊢
  unfold retransmit
  dsimp only at h ⊢
  by_cases hc : n.cnt < (lw.l.getS n.sess).maxRtx
  · simp only [hc, if_true] at h ⊢
    split at h <;> rename_i hg <;> simp only [hg, if_true, if_false, Bool.false_eq_true] at ⊢
    · exact ⟨h, trivial⟩
    · exact ⟨by simpa using h, by simp⟩
  · simp only [hc, if_false] at h ⊢
    cases hcon : n.con with
    | true =>
      simp only [hcon, if_true] at h ⊢
      have := releaseW_tracks lw n.sess h
      exact ⟨this.1, by rw [this.2]⟩
    | false =>
      simp only [hcon, Bool.false_eq_true, if_false] at h ⊢
      have := releaseW_tracks lw n.sess h
      exact ⟨this.1, this.2⟩

/-- with retransmissions left, `coap_retransmit` never deviates, whatever the write returns: same queue (the node is back
with `retransmit_cnt + 1` and its next deadline), same sessions (`con_active` as before), same outputs (the attempt) -/
theorem retransmitW_resend (lw : LW) (n : Node) (hc : n.cnt < (lw.l.getS n.sess).maxRtx) :
    (retransmitW lw n).l = retransmit lw.l n ∧ (retransmitW lw n).dev = lw.dev := by
  unfold retransmitW retransmit
  dsimp only
  simp only [hc, if_true]
  split <;> simp

theorem dueLoopW_tracks : ∀ (fuel : Nat) (lw : LW),
    (dueLoopW fuel lw).dev = false → lw.dev = false ∧ (dueLoopW fuel lw).l = dueLoop fuel lw.l
  | 0, lw => fun h => ⟨h, rfl⟩
  | fuel + 1, lw => by
    intro h
    unfold dueLoopW at h ⊢
    unfold dueLoop
    cases hq : lw.l.q.nodes with
    | nil => simp only [hq] at h ⊢; exact ⟨h, trivial⟩
    | cons hd tl =>
      simp only [hq] at h ⊢
      by_cases hdue : lw.l.now ≥ lw.l.q.base ∧ hd.t ≤ lw.l.now - lw.l.q.base
      · simp only [hdue, and_self, if_true] at h ⊢
        cases hp : popNext (hd :: tl) with
        | none => simp only [hp] at h ⊢; exact ⟨h, trivial⟩
        | some p =>
          obtain ⟨n, rest⟩ := p
          simp only [hp] at h ⊢
          have h1 := dueLoopW_tracks fuel _ h
          have h2 := retransmitW_tracks _ n h1.1
          exact ⟨h2.1, by rw [h1.2, h2.2]⟩
      · simp only [hdue, if_false] at h ⊢; exact ⟨h, trivial⟩

theorem prepareCoreW_tracks (lw : LW) :
    (prepareCoreW lw).1.dev = false →
      lw.dev = false ∧ (prepareCoreW lw).1.l = (prepareCore lw.l).1 ∧ (prepareCoreW lw).2 = (prepareCore lw.l).2 := by
  intro h
  unfold prepareCoreW at h ⊢
  unfold prepareCore
  dsimp only at h ⊢
  have hd : (dueLoopW (dueFuel lw.l) lw).dev = false := by
    revert h; cases (dueLoopW (dueFuel lw.l) lw).l.q.nodes <;> exact id
  have h1 := dueLoopW_tracks _ lw hd
  refine ⟨h1.1, ?_⟩
  rw [← h1.2]
  cases (dueLoopW (dueFuel lw.l) lw).l.q.nodes <;> exact ⟨rfl, rfl⟩

theorem prepareW_tracks (lw : LW) : (prepareW lw).dev = false → lw.dev = false ∧ (prepareW lw).l = prepare lw.l := by
  intro h
  have h1 := prepareCoreW_tracks lw h
  refine ⟨h1.1, ?_⟩
  show (prepareCoreW lw).1.l.emit (.wait (prepareCoreW lw).1.l.now (prepareCoreW lw).2) = _
  rw [h1.2.1, h1.2.2]; rfl

theorem afterRxW_tracks (lw : LW) : (afterRxW lw).dev = false → lw.dev = false ∧ (afterRxW lw).l = afterRx lw.l := by
  intro h
  have h1 := prepareCoreW_tracks lw h
  exact ⟨h1.1, h1.2.1⟩

theorem rxAckW_tracks (lw : LW) (s mid : Nat) :
    (rxAckW lw s mid).dev = false → lw.dev = false ∧ (rxAckW lw s mid).l = rxAck lw.l s mid := by
  intro h
  unfold rxAckW at h ⊢
  unfold rxAck
  rcases hr : removeNode lw.l.q.nodes s mid with ⟨sent, rest⟩
  simp only [hr] at h ⊢
  cases sent with
  | none => exact ⟨h, rfl⟩
  | some n =>
    have := releaseW_tracks _ s h
    exact ⟨this.1, this.2⟩

theorem rxRstW_tracks (lw : LW) (s mid : Nat) :
    (rxRstW lw s mid).dev = false → lw.dev = false ∧ (rxRstW lw s mid).l = rxRst lw.l s mid := by
  intro h
  unfold rxRstW at h ⊢
  unfold rxRst
  rcases hr : removeNode lw.l.q.nodes s mid with ⟨sent, rest⟩
  simp only [hr] at h ⊢
  cases sent with
  | none => exact ⟨h, rfl⟩
  | some n =>
    cases hc : n.con with
    | true =>
      simp only [hc, if_true] at h ⊢
      have := releaseW_tracks _ s h
      exact ⟨this.1, by rw [this.2]⟩
    | false =>
      simp only [hc, Bool.false_eq_true, if_false] at h ⊢
      have := releaseW_tracks _ s h
      exact ⟨this.1, this.2⟩

theorem rxBadW_tracks (lw : LW) (s mid : Nat) :
    (rxBadW lw s mid).dev = false → lw.dev = false ∧ (rxBadW lw s mid).l = rxBad lw.l s mid := by
  intro h
  unfold rxBadW at h ⊢
  unfold rxBad
  rcases hr : removeNode lw.l.q.nodes s mid with ⟨sent, rest⟩
  simp only [hr] at h ⊢
  cases sent with
  | none => exact ⟨h, rfl⟩
  | some n =>
    have := releaseW_tracks _ s h
    exact ⟨this.1, by rw [this.2]⟩

theorem cancelTokenW_tracks : ∀ (fuel : Nat) (lw : LW) (s tok : Nat),
    (cancelTokenW fuel lw s tok).dev = false → lw.dev = false ∧ (cancelTokenW fuel lw s tok).l = cancelToken fuel lw.l s tok
  | 0, lw, s, tok => fun h => ⟨h, rfl⟩
  | fuel + 1, lw, s, tok => by
    intro h
    unfold cancelTokenW at h ⊢
    unfold cancelToken
    rcases hr : removeTok lw.l.q.nodes s tok with ⟨sent, rest⟩
    simp only [hr] at h ⊢
    cases sent with
    | none => exact ⟨h, rfl⟩
    | some n =>
      simp only at h ⊢
      have h1 := cancelTokenW_tracks fuel _ s tok h
      cases hc : n.con with
      | true =>
        simp only [hc, if_true] at h1 ⊢
        have h2 := releaseW_tracks _ s h1.1
        exact ⟨h2.1, by rw [h1.2, h2.2]⟩
      | false =>
        simp only [hc, Bool.false_eq_true, if_false] at h1 ⊢
        exact ⟨h1.1, h1.2⟩

theorem rxNonW_tracks (lw : LW) (s mid tok : Nat) :
    (rxNonW lw s mid tok).dev = false → lw.dev = false ∧ (rxNonW lw s mid tok).l = rxNon lw.l s mid tok := by
  intro h
  have h1 := cancelTokenW_tracks (lw.l.q.nodes.length + 1) lw s tok h
  refine ⟨h1.1, ?_⟩
  show (cancelTokenW (lw.l.q.nodes.length + 1) lw s tok).l.emit _ = _
  rw [h1.2]; rfl

/-- one event: unless the write of a FIRST transmission failed, the write-failure model reaches the base model's state -/
theorem stepW_tracks (lw : LW) (e : Ev) : (stepW lw e).dev = false → lw.dev = false ∧ (stepW lw e).l = step lw.l e := by
  intro h
  cases e with
  | setNow t => exact ⟨h, rfl⟩
  | submit s con mid r => exact submitW_tracks lw s con mid r h
  | prepare => exact prepareW_tracks lw h
  | rxAck s mid =>
    by_cases ho : (lw.l.getS s).sockOpen = true
    · simp only [stepW, step, ho, if_true] at h ⊢
      have h1 := afterRxW_tracks _ h
      have h2 := rxAckW_tracks lw s mid h1.1
      exact ⟨h2.1, by rw [h1.2, h2.2]⟩
    · simp only [stepW, step, ho, Bool.false_eq_true, if_false] at h ⊢
      exact ⟨h, trivial⟩
  | rxRst s mid =>
    by_cases ho : (lw.l.getS s).sockOpen = true
    · simp only [stepW, step, ho, if_true] at h ⊢
      have h1 := afterRxW_tracks _ h
      have h2 := rxRstW_tracks lw s mid h1.1
      exact ⟨h2.1, by rw [h1.2, h2.2]⟩
    · simp only [stepW, step, ho, Bool.false_eq_true, if_false] at h ⊢
      exact ⟨h, trivial⟩
  | rxNon s mid tok =>
    by_cases ho : (lw.l.getS s).sockOpen = true
    · simp only [stepW, step, ho, if_true] at h ⊢
      have h1 := afterRxW_tracks _ h
      have h2 := rxNonW_tracks lw s mid tok h1.1
      exact ⟨h2.1, by rw [h1.2, h2.2]⟩
    · simp only [stepW, step, ho, Bool.false_eq_true, if_false] at h ⊢
      exact ⟨h, trivial⟩
  | rxBad s mid =>
    by_cases ho : (lw.l.getS s).sockOpen = true
    · simp only [stepW, step, ho, if_true] at h ⊢
      have h1 := afterRxW_tracks _ h
      have h2 := rxBadW_tracks lw s mid h1.1
      exact ⟨h2.1, by rw [h1.2, h2.2]⟩
    · simp only [stepW, step, ho, Bool.false_eq_true, if_false] at h ⊢
      exact ⟨h, trivial⟩
  | hold s => exact ⟨h, rfl⟩
  | connect s => exact connectedW_tracks lw s h
  | disconnect s =>
    by_cases ho : (lw.l.getS s).sockOpen = true
    · simp only [stepW, step, ho, if_true] at h ⊢; exact ⟨h, trivial⟩
    · simp only [stepW, step, ho, Bool.false_eq_true, if_false] at h ⊢; exact ⟨h, trivial⟩

theorem runW_tracks (evs : List Ev) : ∀ (lw : LW),
    (runW lw evs).dev = false → lw.dev = false ∧ (runW lw evs).l = run lw.l evs := by
  induction evs with
  | nil => intro lw h; exact ⟨h, rfl⟩
  | cons e es ih =>
    intro lw h
    have h1 := ih (stepW lw e) h
    have h2 := stepW_tracks lw e h1.1
    refine ⟨h2.1, ?_⟩
    show (runW (stepW lw e) es).l = run (step lw.l e) es
    rw [h1.2, h2.2]

/-! ### without write failures the model IS the base model -/

/-- the oracle never says "fails" -/
def NoFail (lw : LW) : Prop := ∀ b ∈ lw.wf, b = false

/-- the function neither meets a failing write nor sets `dev` -/
def Quiet (lw lw' : LW) : Prop := NoFail lw → NoFail lw' ∧ lw'.dev = lw.dev

theorem Quiet.refl (lw : LW) : Quiet lw lw := fun h => ⟨h, rfl⟩
theorem Quiet.trans {a b c : LW} (h1 : Quiet a b) (h2 : Quiet b c) : Quiet a c := fun h =>
  ⟨(h2 (h1 h).1).1, (h2 (h1 h).1).2.trans (h1 h).2⟩
/-- changing only the base state keeps the oracle and the flag -/
theorem Quiet.setL (lw : LW) (l : L) : Quiet lw { lw with l := l } := fun h => ⟨h, rfl⟩

theorem noFail_head {lw : LW} (h : NoFail lw) : lw.wf.headD false = false := by
  cases hw : lw.wf with
  | nil => rfl
  | cons b r => exact h b (by simp [hw])

theorem write_quiet (lw : LW) (s mid cnt : Nat) (con : Bool) : Quiet lw (write lw s mid cnt con).2 := by
  intro h
  refine ⟨?_, write_dev lw s mid cnt con⟩
  intro b hb
  rw [write_wf] at hb
  exact h b (List.mem_of_mem_tail hb)

theorem noFail_tail {lw lw' : LW} (h : NoFail lw) (hw : lw'.wf = lw.wf.tail) : NoFail lw' := fun b hb =>
  h b (List.mem_of_mem_tail (hw ▸ hb))

theorem drainW_quiet : ∀ (fuel : Nat) (lw : LW) (s : Nat), Quiet lw (drainW fuel lw s)
  | 0, lw, s => Quiet.refl _
  | fuel + 1, lw, s => by
    intro h
    unfold drainW
    dsimp only
    cases hdq : (lw.l.getS s).delayq with
    | nil => exact ⟨h, rfl⟩
    | cons n rest =>
      simp only []
      split
      · exact ⟨h, rfl⟩
      · split
        · exact ⟨h, rfl⟩
        · simp only [drainRound_res, noFail_head h, Bool.false_eq_true, if_false]
          have := drainW_quiet fuel (drainRound lw s n rest).2 s (noFail_tail h (drainRound_wf lw s n rest))
          exact ⟨this.1, by rw [this.2, drainRound_dev]⟩

theorem connectedW_quiet (lw : LW) (s : Nat) : Quiet lw (connectedW lw s) :=
  (Quiet.setL lw _).trans (drainW_quiet _ _ s)

theorem releaseW_quiet (lw : LW) (s : Nat) : Quiet lw (releaseW lw s) := by
  unfold releaseW
  dsimp only
  split
  · exact Quiet.refl _
  · split
    · exact (Quiet.setL lw _).trans (connectedW_quiet _ s)
    · exact Quiet.setL lw _

theorem submitW_quiet (lw : LW) (s : Nat) (con : Bool) (mid r : Nat) : Quiet lw (submitW lw s con mid r) := by
  unfold submitW
  dsimp only
  split
  · exact Quiet.setL lw _
  · split
    · split <;> exact Quiet.setL lw _
    · intro h
      have hw := write_quiet lw s mid 0 con h
      have hf := noFail_head h
      simp only [write_res, hf, Bool.false_eq_true, if_false]
      split <;> exact ⟨hw.1, hw.2⟩

theorem retransmitW_quiet (lw : LW) (n : Node) : Quiet lw (retransmitW lw n) := by
  unfold retransmitW
  dsimp only
  split
  · split
    · exact Quiet.setL lw _
    · intro h
      exact ⟨noFail_tail h (by simp), by simp⟩
  · split
    · exact (releaseW_quiet lw n.sess).trans (Quiet.setL _ _)
    · exact releaseW_quiet lw n.sess

theorem dueLoopW_quiet : ∀ (fuel : Nat) (lw : LW), Quiet lw (dueLoopW fuel lw)
  | 0, lw => Quiet.refl _
  | fuel + 1, lw => by
    unfold dueLoopW
    split
    · exact Quiet.refl _
    · split
      · split
        · exact Quiet.refl _
        · exact ((Quiet.setL lw _).trans (retransmitW_quiet _ _)).trans (dueLoopW_quiet fuel _)
      · exact Quiet.refl _

theorem prepareCoreW_quiet (lw : LW) : Quiet lw (prepareCoreW lw).1 := by
  unfold prepareCoreW
  dsimp only
  split <;> exact dueLoopW_quiet _ lw

theorem prepareW_quiet (lw : LW) : Quiet lw (prepareW lw) :=
  (prepareCoreW_quiet lw).trans (Quiet.setL _ _)

theorem rxAckW_quiet (lw : LW) (s mid : Nat) : Quiet lw (rxAckW lw s mid) := by
  unfold rxAckW
  rcases removeNode lw.l.q.nodes s mid with ⟨sent, rest⟩
  dsimp only
  cases sent with
  | none => exact Quiet.setL lw _
  | some n => exact (Quiet.setL lw _).trans (releaseW_quiet _ s)

theorem rxRstW_quiet (lw : LW) (s mid : Nat) : Quiet lw (rxRstW lw s mid) := by
  unfold rxRstW
  rcases removeNode lw.l.q.nodes s mid with ⟨sent, rest⟩
  dsimp only
  cases sent with
  | none => exact (Quiet.setL lw _).trans (Quiet.setL _ _)
  | some n =>
    dsimp only
    split
    · exact ((Quiet.setL lw _).trans (releaseW_quiet _ s)).trans (Quiet.setL _ _)
    · exact (Quiet.setL lw _).trans (releaseW_quiet _ s)

theorem rxBadW_quiet (lw : LW) (s mid : Nat) : Quiet lw (rxBadW lw s mid) := by
  unfold rxBadW
  rcases removeNode lw.l.q.nodes s mid with ⟨sent, rest⟩
  dsimp only
  cases sent with
  | none => exact Quiet.setL lw _
  | some n => exact ((Quiet.setL lw _).trans (releaseW_quiet _ s)).trans (Quiet.setL _ _)

theorem cancelTokenW_quiet : ∀ (fuel : Nat) (lw : LW) (s tok : Nat), Quiet lw (cancelTokenW fuel lw s tok)
  | 0, lw, s, tok => Quiet.refl _
  | fuel + 1, lw, s, tok => by
    unfold cancelTokenW
    rcases removeTok lw.l.q.nodes s tok with ⟨sent, rest⟩
    dsimp only
    cases sent with
    | none => exact Quiet.refl _
    | some n =>
      dsimp only
      split
      · exact ((Quiet.setL lw _).trans (releaseW_quiet _ s)).trans (cancelTokenW_quiet fuel _ s tok)
      · exact (Quiet.setL lw _).trans (cancelTokenW_quiet fuel _ s tok)

theorem rxNonW_quiet (lw : LW) (s mid tok : Nat) : Quiet lw (rxNonW lw s mid tok) :=
  (cancelTokenW_quiet _ lw s tok).trans (Quiet.setL _ _)

theorem stepW_quiet (lw : LW) (e : Ev) : Quiet lw (stepW lw e) := by
  cases e with
  | setNow t => exact Quiet.setL lw _
  | submit s con mid r => exact submitW_quiet lw s con mid r
  | prepare => exact prepareW_quiet lw
  | rxAck s mid =>
    simp only [stepW]; split
    · exact (rxAckW_quiet lw s mid).trans (prepareCoreW_quiet _)
    · exact Quiet.refl _
  | rxRst s mid =>
    simp only [stepW]; split
    · exact (rxRstW_quiet lw s mid).trans (prepareCoreW_quiet _)
    · exact Quiet.refl _
  | rxNon s mid tok =>
    simp only [stepW]; split
    · exact (rxNonW_quiet lw s mid tok).trans (prepareCoreW_quiet _)
    · exact Quiet.refl _
  | rxBad s mid =>
    simp only [stepW]; split
    · exact (rxBadW_quiet lw s mid).trans (prepareCoreW_quiet _)
    · exact Quiet.refl _
  | hold s => exact Quiet.setL lw _
  | connect s => exact connectedW_quiet lw s
  | disconnect s =>
    simp only [stepW]; split
    · exact Quiet.setL lw _
    · exact Quiet.refl _

theorem runW_quiet (evs : List Ev) : ∀ (lw : LW), Quiet lw (runW lw evs) := by
  induction evs with
  | nil => intro lw; exact Quiet.refl _
  | cons e es ih => intro lw; exact (stepW_quiet lw e).trans (ih _)

end Coap.MsgW
