import CoapVerif.Model.ServerBlock
/- Helper lemmas for C10's block-mode sequences (Model/ServerBlock.lean). Core Lean only. -/
set_option linter.unusedSimpArgs false
set_option linter.unusedVariables false
namespace Coap.Server.MB
open Coap Coap.Server Coap.Server.M Coap.Block

/-- save / force / restore: whatever coap_handle_request_put_block did, the session's block mode is what it was -/
theorem blockStage_mode (s : BSess) (cfg : Cfg) (tbl : Table) (rq : Request) (c : Call) :
    (blockStage s cfg tbl rq c).2.mode = s.mode := by
  unfold blockStage
  dsimp only
  split
  · rfl
  · split
    · rfl
    · split
      · rfl
      · rfl
      · by_cases hc : inIvs Generated.Server.codeOk rq.verdict.code = true
        · rw [if_neg (by simp [hc])]
        · rw [if_pos hc]

theorem decisionB_mode (s : BSess) (cfg : Cfg) (tbl : Table) (rq : Request) :
    (serverDecisionB s cfg tbl rq).2.mode = s.mode := by
  unfold serverDecisionB
  dsimp only
  split
  · rfl
  · split
    · rfl
    · split
      · exact blockStage_mode _ _ _ _ _
      · split <;> rfl

theorem lookup_filter_ne {β : Type} (p q : Nat) (l : List (Nat × β)) (h : q ≠ p) :
    (l.filter fun e => e.1 != p).lookup q = l.lookup q := by
  induction l with
  | nil => rfl
  | cons a r ih =>
    obtain ⟨k, v⟩ := a
    by_cases hk : k = p
    · subst hk
      have h1 : ((k, v) :: r).filter (fun e => e.1 != k) = r.filter (fun e => e.1 != k) := by
        simp [List.filter]
      rw [h1, ih]
      have : (q == k) = false := by simp [h]
      simp [List.lookup, this]
    · have h1 : ((k, v) :: r).filter (fun e => e.1 != p) = (k, v) :: r.filter (fun e => e.1 != p) := by
        have : (k != p) = true := by simp [hk]
        simp [List.filter, this]
      rw [h1]
      simp only [List.lookup]
      rw [ih]

theorem get_set (h : BHist) (p q : Nat) (s : BSess) : (h.set p s).get q = if q = p then s else h.get q := by
  unfold BHist.set BHist.get
  dsimp only
  by_cases hq : q = p
  · subst hq
    simp [List.lookup]
  · rw [if_neg hq]
    have : (q == p) = false := by simp [hq]
    simp only [List.lookup, this]
    rw [lookup_filter_ne p q h.sess hq]

theorem set_cfgMode (h : BHist) (p : Nat) (s : BSess) : (h.set p s).cfgMode = h.cfgMode := rfl

/-- every session of the context runs in the context's block mode -/
def ModeInv (h : BHist) : Prop := ∀ p, (h.get p).mode = h.cfgMode

theorem fresh_inv (mode : Nat) : ModeInv (BHist.fresh mode) := by
  intro p; rfl

theorem stepB_inv (cfg : Cfg) (tbl : Table) (h : BHist) (ev : BEv) (hi : ModeInv h) :
    ModeInv (stepB cfg tbl h ev).2 ∧ (stepB cfg tbl h ev).2.cfgMode = h.cfgMode := by
  unfold stepB
  dsimp only
  refine ⟨?_, rfl⟩
  intro p
  rw [get_set, set_cfgMode]
  by_cases hp : p = ev.peer
  · rw [if_pos hp, decisionB_mode]
    exact hi ev.peer
  · rw [if_neg hp]
    exact hi p

theorem finalB_inv (cfg : Cfg) (tbl : Table) : ∀ (evs : List BEv) (h : BHist), ModeInv h →
    ModeInv (finalB cfg tbl h evs) ∧ (finalB cfg tbl h evs).cfgMode = h.cfgMode := by
  intro evs
  induction evs with
  | nil => intro h hi; exact ⟨hi, rfl⟩
  | cons ev r ih =>
    intro h hi
    obtain ⟨a, b⟩ := stepB_inv cfg tbl h ev hi
    obtain ⟨c, d⟩ := ih _ a
    exact ⟨c, d.trans b⟩

theorem runB_modes (cfg : Cfg) (tbl : Table) : ∀ (evs : List BEv) (h : BHist), ModeInv h →
    ∀ x, x ∈ runB cfg tbl h evs → x.2 = h.cfgMode := by
  intro evs
  induction evs with
  | nil => intro h hi x hx; cases hx
  | cons ev r ih =>
    intro h hi x hx
    obtain ⟨a, b⟩ := stepB_inv cfg tbl h ev hi
    simp only [runB, List.mem_cons] at hx
    rcases hx with hx | hx
    · rw [hx]
      dsimp only
      rw [a ev.peer, b]
    · rw [ih _ a x hx, b]

/-- in single-body mode a Block1 request with the More bit never makes coap_handle_request_put_block return
"call the handler" — whatever lg_srcv state the session has -/
theorem putRun_more_no_call (os : Opts) (lgs : List (Nat × (Nat × Srcv))) (ri fmt : Nat) (st : Option Srcv) (num szx : Nat)
    (payload : Bytes) (size1 : Option Nat) :
    ∀ d o t os' ro a, (putRun os lgs ri fmt st num true szx payload size1).2 ≠ Put.call d o t os' ro a := by
  intro d o t os' ro a
  unfold putRun
  dsimp only
  split <;> simp

theorem putBlock_more_no_call (mode : Nat) (lgs : List (Nat × (Nat × Srcv))) (ri : Option Nat) (os : Opts) (payload : Bytes)
    (hs : singleBody mode = true) (num szx : Nat) (hb : (firstOpt os 27).bind block = some (num, true, szx)) :
    ∀ d o t os' ro a, (putBlock mode lgs ri os payload).2 ≠ Put.call d o t os' ro a := by
  intro d o t os' ro a
  unfold putBlock
  dsimp only
  split
  · simp
  · rw [hb]
    dsimp only
    rw [if_neg (by simp)]
    repeat' split
    all_goals first
      | exact putRun_more_no_call _ _ _ _ _ _ _ _ _ d o t os' ro a
      | (simp; done)
      | (rename_i h; simp [hs] at h; done)
      | (rename_i h _; simp [hs] at h; done)
      | (rename_i h _ _; simp [hs] at h; done)
      | (rename_i h _ _ _; simp [hs] at h; done)

theorem singleBody_setSingle (m : Nat) : singleBody (setSingle m) = true := by
  unfold setSingle
  by_cases h : singleBody m = true
  · rw [if_pos h]; exact h
  · rw [if_neg h]
    unfold singleBody at h ⊢
    have : m / 2 % 2 = 0 := by
      rcases Nat.mod_two_eq_zero_or_one (m / 2) with h0 | h1
      · exact h0
      · exact absurd (by simp [h1]) h
    have h2 : (m + 2) / 2 % 2 = 1 := by omega
    simp
    omega

/-- the request is handled in single-body mode: configured, or FETCH, or a force-single-body resource -/
def SingleFor (mode : Nat) (tbl : Table) (rq : Request) (c : Call) : Prop :=
  singleBody mode = true ∨ rq.msg.code = 5 ∨
    ∃ ri fl obs, resOf tbl c.who = some (ri, fl, obs) ∧ flag fl F_FORCE_SINGLE_BODY = true

theorem blockStage_more_no_call (s : BSess) (cfg : Cfg) (tbl : Table) (rq : Request) (c : Call) (num szx : Nat)
    (hb : (firstOpt c.opts 27).bind block = some (num, true, szx)) (hsingle : SingleFor s.mode tbl rq c) :
    (blockStage s cfg tbl rq c).1.o.call = none := by
  unfold blockStage
  dsimp only
  cases hr : resOf tbl c.who with
  | none => rfl
  | some x =>
    obtain ⟨ri, fl, obs⟩ := x
    dsimp only
    split
    · rfl
    · have hf : singleBody (if rq.msg.code = 5 ∨ flag fl F_FORCE_SINGLE_BODY = true then setSingle s.mode else s.mode) = true := by
        by_cases hc : rq.msg.code = 5 ∨ flag fl F_FORCE_SINGLE_BODY = true
        · rw [if_pos hc]; exact singleBody_setSingle _
        · rw [if_neg hc]
          rcases hsingle with h | h | ⟨ri', fl', obs', h1, h2⟩
          · exact h
          · exact absurd (Or.inl h) hc
          · rw [hr] at h1
            cases h1
            exact absurd (Or.inr h2) hc
      cases hp : (putBlock (if rq.msg.code = 5 ∨ flag fl F_FORCE_SINGLE_BODY = true then setSingle s.mode else s.mode)
          s.srcv ri c.opts rq.msg.payload).2 with
      | oos => rfl
      | skip code ro diag => rfl
      | call d o t os' ro a => exact absurd hp (putBlock_more_no_call _ _ _ _ _ hf num szx hb d o t os' ro a)

theorem decisionB_more_no_call (s : BSess) (cfg : Cfg) (tbl : Table) (rq : Request) (c : Call) (num szx : Nat)
    (hu : useLibcoap s.mode = true)
    (hcall : (serverDecisionA false false cfg tbl rq).call = some c)
    (hb : (firstOpt c.opts 27).bind block = some (num, true, szx)) (hsingle : SingleFor s.mode tbl rq c) :
    (serverDecisionB s cfg tbl rq).1.o.call = none := by
  unfold serverDecisionB
  dsimp only
  rw [if_neg (by simp [hu])]
  split
  · rfl
  · rw [hcall]
    exact blockStage_more_no_call s cfg tbl rq c num szx hb hsingle

end Coap.Server.MB
