import CoapVerif.Lemmas.TlsLedger
import CoapVerif.Lemmas.TlsOrder
/-
C19 helper lemmas: the NACK ledger of a DTLS session over whole histories — before, at and AFTER the establishment, with
the send queue (`Sess.inflight`) in the accounting.  Outside block mode (no lg_crcv entries).

`hc j p s` = how many references the library holds to the message with serial `j`: detached nodes `p` (a node taken off a
queue and not yet put back / deleted: coap_session_connected between `session->delayqueue = q->next` and coap_wait_ack,
coap_retransmit after coap_pop_next, a PDU inside coap_send_internal), the delay queue, the send queue.  `Nak T0 p` is
preserved by every function of M, whatever the TLS library answers (`T0` = the trace of the earlier events):
  * every serial is held at most once, held serials are below `next`;
  * a held message has NOT been reported (`nk = 0`);
  * `nk j ≤ 2` for every `j`, and `nk j = 2` only by the pattern `Dbl` — two NACKs with the same non-ICMP reason and only
    NACKs between them: the first loop of coap_session_disconnected_lkd and coap_cancel_session_messages (D19a).
-/
namespace Coap.TlsGate
open Ctx

def sns (l : List QMsg) : List Nat := l.map (·.sn)

/-- how many references the library holds to serial `j` -/
def hc (j : Nat) (p : List Nat) (s : Sess) : Nat := p.count j + (sns s.delayq).count j + (sns s.inflight).count j

def Out.isNack : Out → Bool
  | .nack .. => true
  | _ => false

/-- a NACK that names a message -/
def Out.named : Out → Bool
  | .nack _ (some _) (some _) => true
  | _ => false

theorem quiet_of_named {o : Out} (h : o.named = false) : o.quiet := by
  intro j
  cases o <;> first | rfl | skip
  rename_i r t s
  cases t <;> cases s <;> first | rfl | simp [Out.named] at h

/-- D19a in the trace: message `j` is named by two NACKs with the same reason (not ICMP) and nothing but NACKs lies between
them — one call of coap_session_disconnected_lkd: its first loop, the delay-queue loop, coap_cancel_session_messages -/
def Dbl (j : Nat) (T : List Out) : Prop :=
  ∃ a b d r tok, T = a ++ .nack r tok (some j) :: (b ++ .nack r tok (some j) :: d) ∧ r ≠ .icmp ∧ ∀ o ∈ b, o.isNack = true

theorem Dbl.append {j : Nat} {T : List Out} (h : Dbl j T) (l : List Out) : Dbl j (T ++ l) := by
  obtain ⟨a, b, d, r, tok, rfl, hr, hb⟩ := h
  exact ⟨a, b, d ++ l, r, tok, by simp, hr, hb⟩

/-- the tracked message is still in the delay queue, never transmitted -/
def Waiting (k : Nat) (s : Sess) : Prop := ∃ q ∈ s.delayq, q.sn = k ∧ q.con = true ∧ q.cnt = 0

structure Nak (T0 : List Out) (p : List Nat) (t : Bool) (k : Nat) (c : Ctx) : Prop where
  nd : ∀ j, hc j p c.s ≤ 1
  lt : ∀ j, 0 < hc j p c.s → j < c.s.next
  /-- what the library still holds has not been reported -/
  z : ∀ j, 0 < hc j p c.s → nk j (T0 ++ c.out) = 0
  fut : ∀ j, c.s.next ≤ j → nk j (T0 ++ c.out) = 0
  le2 : ∀ j, nk j (T0 ++ c.out) ≤ 2
  dbl : ∀ j, nk j (T0 ++ c.out) = 2 → Dbl j (T0 ++ c.out)
  lg : c.s.lgCrcv = []
  bm : c.s.blockMode = false
  proto : c.s.proto = .dtls
  /-- the tracked Confirmable: waiting in the delay queue, or transmitted for the first time, or reported by a NACK naming it -/
  trk : t = true → Waiting k c.s ∨ k ∈ (T0 ++ c.out).filterMap Out.firstSn ∨ 1 ≤ nk k (T0 ++ c.out)

section
variable {T0 : List Out} {p : List Nat} {t : Bool} {k : Nat} {c : Ctx}

/-- the master step lemma: outputs `l` are appended, references are dropped / moved (never duplicated), and a message is
reported at most twice as often as references to it were dropped, twice only by the pattern `Dbl` -/
theorem nak_step {c' : Ctx} {p' : List Nat} (h : Nak T0 p t k c) (l : List Out) (hout : c'.out = c.out ++ l)
    (hhc : ∀ j, hc j p' c'.s ≤ hc j p c.s) (hnk : ∀ j, nk j l ≤ 2 * (hc j p c.s - hc j p' c'.s))
    (hd : ∀ j, nk j l = 2 → ∀ T, Dbl j (T ++ l))
    (htrk : Waiting k c.s → Waiting k c'.s ∨ k ∈ l.filterMap Out.firstSn ∨ 1 ≤ nk k l)
    (hnx : c.s.next ≤ c'.s.next) (hlg : c'.s.lgCrcv = c.s.lgCrcv) (hbm : c'.s.blockMode = c.s.blockMode)
    (hp : c'.s.proto = c.s.proto) : Nak T0 p' t k c' := by
  obtain ⟨a1, a2, a3, a4, a5, a6, a7, a8, a9, a10⟩ := h
  have hT : T0 ++ c'.out = (T0 ++ c.out) ++ l := by rw [hout, List.append_assoc]
  have hsum : ∀ j, nk j (T0 ++ c'.out) = nk j (T0 ++ c.out) + nk j l := fun j => by rw [hT, nk_append]
  have h0 : ∀ j, hc j p c.s = 0 → nk j l = 0 := fun j hj => by have := hnk j; omega
  refine ⟨fun j => Nat.le_trans (hhc j) (a1 j), ?_, ?_, ?_, ?_, ?_, by rw [hlg]; exact a7, by rw [hbm]; exact a8,
    by rw [hp]; exact a9, ?_⟩
  · intro j hj; have := a2 j (by have := hhc j; omega); omega
  · intro j hj
    have h1 := hhc j; have h2 := a1 j; have h3 := hnk j
    rw [hsum, a3 j (by omega)]; omega
  · intro j hj
    have hz : hc j p c.s = 0 := by
      rcases Nat.eq_zero_or_pos (hc j p c.s) with hz | hz
      · exact hz
      · have := a2 j hz; omega
    rw [hsum, a4 j (by omega), h0 j hz]
  · intro j
    rw [hsum]
    rcases Nat.eq_zero_or_pos (hc j p c.s) with hz | hz
    · rw [h0 j hz]; exact a5 j
    · have h2 := a1 j; have h3 := hnk j
      rw [a3 j hz]; omega
  · intro j hj
    rw [hsum] at hj
    rw [hT]
    rcases Nat.eq_zero_or_pos (hc j p c.s) with hz | hz
    · rw [h0 j hz] at hj
      exact (a6 j hj).append l
    · rw [a3 j hz] at hj
      exact hd j (by omega) _
  · intro ht
    rw [hT]
    rcases a10 ht with b | b | b
    · rcases htrk b with b | b | b
      · exact Or.inl b
      · exact Or.inr (Or.inl (by rw [List.filterMap_append, List.mem_append]; exact Or.inr b))
      · exact Or.inr (Or.inr (by rw [nk_append]; omega))
    · exact Or.inr (Or.inl (by rw [List.filterMap_append, List.mem_append]; exact Or.inl b))
    · exact Or.inr (Or.inr (by rw [nk_append]; omega))

theorem nk_quiet_all (l : List Out) (hq : ∀ o ∈ l, o.quiet) (j : Nat) : nk j l = 0 :=
  nk_quiet j l fun o ho => hq o ho j

/-- outputs that name no message; references dropped or moved; the delay queue loses nothing -/
theorem nak_re {c' : Ctx} {p' : List Nat} (h : Nak T0 p t k c) (l : List Out) (hout : c'.out = c.out ++ l)
    (hq : ∀ o ∈ l, o.quiet) (hhc : ∀ j, hc j p' c'.s ≤ hc j p c.s) (hdq : ∀ q ∈ c.s.delayq, q ∈ c'.s.delayq)
    (hnx : c.s.next ≤ c'.s.next) (hlg : c'.s.lgCrcv = c.s.lgCrcv) (hbm : c'.s.blockMode = c.s.blockMode)
    (hp : c'.s.proto = c.s.proto) : Nak T0 p' t k c' :=
  nak_step h l hout hhc (fun j => by rw [nk_quiet_all l hq j]; omega)
    (fun j hj => by rw [nk_quiet_all l hq j] at hj; cases hj)
    (fun ⟨q, hq1, hq2⟩ => Or.inl ⟨q, hdq q hq1, hq2⟩) hnx hlg hbm hp

theorem nak_keep {c' : Ctx} (h : Nak T0 p t k c) (hout : c'.out = c.out) (hs : c'.s = c.s) : Nak T0 p t k c' :=
  nak_re h [] (by simp [hout]) (by simp) (fun j => by rw [hc, hc, hs]; exact Nat.le_refl _) (fun q hq => by rw [hs]; exact hq)
    (by rw [hs]; exact Nat.le_refl _) (by rw [hs]) (by rw [hs]) (by rw [hs])

theorem nak_outs_qq (l : List Out) (hl : ∀ o ∈ l, o.quiet) (h : Nak T0 p t k c) :
    Nak T0 p t k { c with out := c.out ++ l } :=
  nak_re h l rfl hl (fun _ => Nat.le_refl _) (fun _ hq => hq) (Nat.le_refl _) rfl rfl rfl

theorem nak_outs_q (l : List Out) (hl : ∀ o ∈ l, o.named = false) (h : Nak T0 p t k c) :
    Nak T0 p t k { c with out := c.out ++ l } :=
  nak_outs_qq l (fun o ho => quiet_of_named (hl o ho)) h

theorem nak_emit_q (o : Out) (ho : o.named = false) (h : Nak T0 p t k c) : Nak T0 p t k (c.emit o) :=
  nak_outs_q [o] (by simpa using ho) h

theorem nak_ite {P : Prop} [Decidable P] {x y : Ctx} (hx : P → Nak T0 p t k x) (hy : ¬P → Nak T0 p t k y) :
    Nak T0 p t k (if P then x else y) := by
  split
  · exact hx ‹_›
  · exact hy ‹_›

theorem nak_ite_emit_q (P : Prop) [Decidable P] (o : Out) (ho : o.named = false) (h : Nak T0 p t k c) :
    Nak T0 p t k (if P then c.emit o else c) :=
  nak_ite (fun _ => nak_emit_q o ho h) fun _ => h

theorem nak_setRet (r : Int) (h : Nak T0 p t k c) : Nak T0 p t k (c.setRet r) := nak_keep h rfl rfl
theorem nak_setFlag (f : Bool) (h : Nak T0 p t k c) : Nak T0 p t k (c.setFlag f) := nak_keep h rfl rfl
theorem nak_setFound (q : Option QMsg) (h : Nak T0 p t k c) : Nak T0 p t k (c.setFound q) := nak_keep h rfl rfl

/-- a session update that keeps both queues, the lg_crcv list, block mode and protocol; the serial counter may grow -/
theorem nak_upd (f : Sess → Sess) (hdq : (f c.s).delayq = c.s.delayq) (hin : (f c.s).inflight = c.s.inflight)
    (hnx : c.s.next ≤ (f c.s).next) (hlg : (f c.s).lgCrcv = c.s.lgCrcv) (hbm : (f c.s).blockMode = c.s.blockMode)
    (hp : (f c.s).proto = c.s.proto) (h : Nak T0 p t k c) : Nak T0 p t k (c.upd f) :=
  nak_re h [] (by simp [Ctx.upd]) (by simp)
    (fun j => by show hc j p (f c.s) ≤ _; rw [hc, hc, hdq, hin]; exact Nat.le_refl _)
    (fun q hq => by show q ∈ (f c.s).delayq; rw [hdq]; exact hq) hnx hlg hbm hp

/-- references are dropped (a node deleted without a report: acknowledged, a Non-confirmable written, a refused PDU) -/
theorem nak_drop {p' : List Nat} (f : Sess → Sess) (hhc : ∀ j, hc j p' (f c.s) ≤ hc j p c.s)
    (hdq : ∀ q ∈ c.s.delayq, q ∈ (f c.s).delayq)
    (hnx : c.s.next ≤ (f c.s).next) (hlg : (f c.s).lgCrcv = c.s.lgCrcv) (hbm : (f c.s).blockMode = c.s.blockMode)
    (hp : (f c.s).proto = c.s.proto) (h : Nak T0 p t k c) : Nak T0 p' t k (c.upd f) :=
  nak_re h [] (by simp [Ctx.upd]) (by simp) hhc hdq hnx hlg hbm hp

theorem nak_shrink (j0 : Nat) (h : Nak T0 (j0 :: p) t k c) : Nak T0 p t k c :=
  nak_re h [] (by simp) (by simp) (fun j => by simp only [hc, List.count_cons]; omega) (fun _ hq => hq) (Nat.le_refl _) rfl rfl rfl

macro "nupd! " h:term:max : term => `(nak_upd _ rfl rfl (Nat.le_refl _) rfl rfl rfl $h)

/-- a fresh serial is handed out: the new message is a detached node -/
theorem nak_next (h : Nak T0 p t k c) : Nak T0 (c.s.next :: p) t k (c.upd fun s => { s with next := s.next + 1 }) := by
  have hz : hc c.s.next p c.s = 0 := by
    rcases Nat.eq_zero_or_pos (hc c.s.next p c.s) with hz | hz
    · exact hz
    · have := h.lt _ hz; omega
  obtain ⟨a1, a2, a3, a4, a5, a6, a7, a8, a9, a10⟩ := h
  have hcn : ∀ j, hc j (c.s.next :: p) (c.upd fun s => { s with next := s.next + 1 }).s =
      hc j p c.s + (if c.s.next == j then 1 else 0) := by
    intro j; simp only [hc, List.count_cons, Ctx.upd]; omega
  refine ⟨?_, ?_, ?_, ?_, a5, a6, a7, a8, a9, a10⟩
  · intro j; rw [hcn]
    by_cases hj : c.s.next = j
    · subst hj; simp [hz]
    · simp [hj]; exact a1 j
  · intro j hj; rw [hcn] at hj
    show j < c.s.next + 1
    by_cases hj' : c.s.next = j
    · omega
    · simp [hj'] at hj; have := a2 j hj; omega
  · intro j hj; rw [hcn] at hj
    by_cases hj' : c.s.next = j
    · exact a4 j (by omega)
    · simp [hj'] at hj; exact a3 j hj
  · intro j hj; exact a4 j (by show c.s.next ≤ j; simp [Ctx.upd] at hj; omega)

theorem countP_sn_count (l : List QMsg) (j : Nat) : l.countP (fun q => q.sn == j) = (sns l).count j := by
  unfold sns; rw [List.count, List.countP_map]; rfl

theorem countP_filter_sn_le (l : List QMsg) (f : QMsg → Bool) (j : Nat) :
    (l.filter f).countP (fun q => q.sn == j) ≤ (sns l).count j := by
  rw [← countP_sn_count]; exact List.Sublist.countP_le (List.filter_sublist)

theorem count_filter_sn_le (l : List QMsg) (f : QMsg → Bool) (j : Nat) : (sns (l.filter f)).count j ≤ (sns l).count j := by
  rw [← countP_sn_count]; exact countP_filter_sn_le l f j

/-- a detached node is reported (RST, retransmissions exhausted) and deleted -/
theorem nak_nack (r : Nack) (q : QMsg) (h : Nak T0 (q.sn :: p) t k c) : Nak T0 p t k (c.emit (nackOf r q)) := by
  refine nak_step h [nackOf r q] rfl (fun j => by simp only [hc, List.count_cons, Ctx.emit]; omega) ?_ ?_
    (fun hw => Or.inl hw) (Nat.le_refl _) rfl rfl rfl
  · intro j
    simp only [hc, List.count_cons, Ctx.emit, nk, List.countP_cons, List.countP_nil, reports_nackOf]
    by_cases hj : q.sn = j <;> simp [hj]
    split <;> omega
  · intro j hj
    simp only [nk, List.countP_cons, List.countP_nil] at hj
    split at hj <;> omega

/-- coap_session_connected takes the head of the delay queue off (a detached node now) and hands it to the transport -/
theorem nak_pop_emit (q : QMsg) (rest : List QMsg) (f : Sess → Sess) (tls : Bool) (v : View) (hd : c.s.delayq = q :: rest)
    (hdq : (f c.s).delayq = rest) (hin : (f c.s).inflight = c.s.inflight) (hnx : (f c.s).next = c.s.next)
    (hlg : (f c.s).lgCrcv = c.s.lgCrcv) (hbm : (f c.s).blockMode = c.s.blockMode) (hp : (f c.s).proto = c.s.proto)
    (h : Nak T0 p t k c) : Nak T0 (q.sn :: p) t k ((c.upd f).emit (.tx tls v (some q.sn) q.cnt)) := by
  have hq : ∀ j, nk j [Out.tx tls v (some q.sn) q.cnt] = 0 := fun j => rfl
  refine nak_step h [.tx tls v (some q.sn) q.cnt] rfl ?_ (fun j => by rw [hq]; omega) (fun j hj => by rw [hq] at hj; cases hj) ?_
    (by show c.s.next ≤ (f c.s).next; omega) hlg hbm hp
  · intro j
    show hc j (q.sn :: p) (f c.s) ≤ _
    simp only [hc, hdq, hin, hd, sns, List.map_cons, List.count_cons]; omega
  · rintro ⟨q', hq', h1, h2, h3⟩
    rw [hd] at hq'
    rcases List.mem_cons.mp hq' with rfl | hq'
    · right; left
      simp [Out.firstSn, h3, h1]
    · left; exact ⟨q', by show q' ∈ (f c.s).delayq; rw [hdq]; exact hq', h1, h2, h3⟩

/-- a detached node is put on a queue (coap_session_delay_pdu, coap_wait_ack) -/
theorem nak_attach_dq (m : QMsg) (f : Sess → Sess) (hdq : (f c.s).delayq = c.s.delayq ++ [m]) (hin : (f c.s).inflight = c.s.inflight)
    (hnx : (f c.s).next = c.s.next) (hlg : (f c.s).lgCrcv = c.s.lgCrcv) (hbm : (f c.s).blockMode = c.s.blockMode)
    (hp : (f c.s).proto = c.s.proto) (h : Nak T0 (m.sn :: p) t k c) : Nak T0 p t k (c.upd f) :=
  nak_drop f (fun j => by simp only [hc, hdq, hin, sns, List.map_append, List.map_cons, List.map_nil, List.count_append,
      List.count_cons, List.count_nil]; omega)
    (fun q hq => by rw [hdq]; exact List.mem_append_left _ hq) (by omega) hlg hbm hp h

theorem nak_attach_in (m : QMsg) (f : Sess → Sess) (hdq : (f c.s).delayq = c.s.delayq) (hin : (f c.s).inflight = c.s.inflight ++ [m])
    (hnx : (f c.s).next = c.s.next) (hlg : (f c.s).lgCrcv = c.s.lgCrcv) (hbm : (f c.s).blockMode = c.s.blockMode)
    (hp : (f c.s).proto = c.s.proto) (h : Nak T0 (m.sn :: p) t k c) : Nak T0 p t k (c.upd f) :=
  nak_drop f (fun j => by simp only [hc, hdq, hin, sns, List.map_append, List.map_cons, List.map_nil, List.count_append,
      List.count_cons, List.count_nil]; omega)
    (fun q hq => by rw [hdq]; exact hq) (by omega) hlg hbm hp h

/-- everything coap_session_disconnected_lkd (not ICMP) reports, outside block mode -/
theorem discAll_eq (r : Nack) (hr : r ≠ .icmp) (hlg : c.s.lgCrcv = []) :
    c.discOuts r ++ (c.s.inflight.filter fun q : QMsg => q.con).map (nackOf r) =
    match c.s.inflight with
    | [] => (c.s.delayq.filter fun q : QMsg => q.con).map (nackOf r) ++
              (if ((c.s.delayq.filter fun q : QMsg => q.con).map (nackOf r)).isEmpty then [.nack r none none] else [])
    | q0 :: tl => nackOf r q0 :: ((c.s.delayq.filter fun q : QMsg => q.con).map (nackOf r) ++
                    ((q0 :: tl).filter fun q : QMsg => q.con).map (nackOf r)) := by
  unfold Ctx.discOuts Ctx.discLg Ctx.discDq Ctx.discFirst
  rw [hlg]
  cases c.s.inflight with
  | nil => simp [hr]
  | cons q0 tl => simp [hr]

theorem nk_anon (j : Nat) (r : Nack) (P : Prop) [Decidable P] : nk j (if P then [Out.nack r none none] else []) = 0 := by
  split <;> rfl

/-- coap_session_disconnected_lkd for a reason other than ICMP: every Confirmable on either queue is reported, the first node of
the send queue once more (D19a), both queues are emptied -/
theorem nak_disc (r : Nack) (hr : r ≠ .icmp) {c' : Ctx} (h : Nak T0 p t k c)
    (hout : c'.out = c.out ++ (c.discOuts r ++ (c.s.inflight.filter fun q : QMsg => q.con).map (nackOf r)))
    (hdq : c'.s.delayq = []) (hin : c'.s.inflight = []) (hnx : c'.s.next = c.s.next) (hlg : c'.s.lgCrcv = c.s.lgCrcv)
    (hbm : c'.s.blockMode = c.s.blockMode) (hp : c'.s.proto = c.s.proto) : Nak T0 p t k c' := by
  have hnd := h.nd
  have hB : ∀ j, nk j ((c.s.delayq.filter fun q : QMsg => q.con).map (nackOf r)) ≤ (sns c.s.delayq).count j := fun j => by
    rw [nk_map_nackOf j r hr]; exact countP_filter_sn_le _ _ j
  have hhc' : ∀ j, hc j p c'.s = p.count j := fun j => by simp [hc, hdq, hin, sns]
  have hw : Waiting k c.s → 1 ≤ nk k ((c.s.delayq.filter fun q : QMsg => q.con).map (nackOf r)) := by
    rintro ⟨q, hq, h1, h2, _⟩
    rw [nk_map_nackOf k r hr, ← h1]
    exact countP_sn_pos _ q (List.mem_filter.mpr ⟨hq, by simpa using h2⟩)
  rw [discAll_eq r hr h.lg] at hout
  cases hi : c.s.inflight with
  | nil =>
    rw [hi] at hout
    replace hout : c'.out = c.out ++ ((c.s.delayq.filter fun q : QMsg => q.con).map (nackOf r) ++
        (if ((c.s.delayq.filter fun q : QMsg => q.con).map (nackOf r)).isEmpty then [.nack r none none] else [])) := hout
    refine nak_step h _ hout (fun j => by rw [hhc']; simp only [hc]; omega) ?_ ?_ ?_ (by omega) hlg hbm hp
    · intro j; rw [nk_append, nk_anon, hhc']; have := hB j; simp only [hc]; omega
    · intro j hj; rw [nk_append, nk_anon] at hj; have := hB j; have := hnd j; simp only [hc] at this; omega
    · intro hw'; right; right; rw [nk_append]; have := hw hw'; omega
  | cons q0 tl =>
    rw [hi] at hout
    replace hout : c'.out = c.out ++ (nackOf r q0 :: ((c.s.delayq.filter fun q : QMsg => q.con).map (nackOf r) ++
        ((q0 :: tl).filter fun q : QMsg => q.con).map (nackOf r))) := hout
    have hC : ∀ j, nk j (((q0 :: tl).filter fun q : QMsg => q.con).map (nackOf r)) ≤ (sns c.s.inflight).count j := fun j => by
      rw [nk_map_nackOf j r hr, hi]; exact countP_filter_sn_le _ _ j
    have hA : ∀ j, nk j [nackOf r q0] = if q0.sn = j then 1 else 0 := fun j => by
      simp only [nk, List.countP_cons, List.countP_nil, reports_nackOf]
      by_cases hj : q0.sn = j <;> simp [hj, hr]
    have hI : ∀ j, (sns c.s.inflight).count j = (if q0.sn = j then 1 else 0) + (sns tl).count j := fun j => by
      rw [hi]; simp only [sns, List.map_cons, List.count_cons]
      by_cases hj : q0.sn = j <;> simp [hj]; omega
    have hsplit : ∀ j, nk j (nackOf r q0 :: ((c.s.delayq.filter fun q : QMsg => q.con).map (nackOf r) ++
        ((q0 :: tl).filter fun q : QMsg => q.con).map (nackOf r))) =
        nk j [nackOf r q0] + nk j ((c.s.delayq.filter fun q : QMsg => q.con).map (nackOf r)) +
        nk j (((q0 :: tl).filter fun q : QMsg => q.con).map (nackOf r)) := fun j => by
      rw [← List.singleton_append, nk_append, nk_append]; omega
    refine nak_step h _ hout (fun j => by rw [hhc']; simp only [hc]; omega) ?_ ?_ ?_ (by omega) hlg hbm hp
    · intro j
      rw [hsplit, hhc', hA]
      have h1 := hB j; have h2 := hC j; have h3 := hI j
      simp only [hc]
      by_cases hq0 : q0.sn = j
      · rw [if_pos hq0] at h3 ⊢; omega
      · rw [if_neg hq0] at h3 ⊢; omega
    · intro j hj T
      rw [hsplit, hA] at hj
      have h1 := hB j; have h2 := hC j; have h3 := hI j; have h4 := hnd j
      simp only [hc] at h4
      by_cases hq0 : q0.sn = j
      · rw [if_pos hq0] at hj h3
        have hD0 : nk j ((c.s.delayq.filter fun q : QMsg => q.con).map (nackOf r)) = 0 := by omega
        have hC1 : nk j (((q0 :: tl).filter fun q : QMsg => q.con).map (nackOf r)) = 1 := by omega
        have htl : (sns tl).count j = 0 := by omega
        have hcon : q0.con = true := by
          cases hcq : q0.con with
          | true => rfl
          | false =>
            exfalso
            rw [List.filter_cons, hcq] at hC1
            simp only [Bool.false_eq_true, if_false] at hC1
            rw [nk_map_nackOf j r hr] at hC1
            have := countP_filter_sn_le tl (fun q : QMsg => q.con) j
            omega
        refine ⟨T, (c.s.delayq.filter fun q : QMsg => q.con).map (nackOf r), (tl.filter fun q : QMsg => q.con).map (nackOf r),
          r, some q0.tok, ?_, hr, ?_⟩
        · rw [List.filter_cons, hcon]
          simp [nackOf, hq0]
        · intro o ho
          simp only [List.mem_map] at ho
          obtain ⟨q, _, rfl⟩ := ho
          rfl
      · rw [if_neg hq0] at hj h3
        omega
    · intro hw'; right; right; rw [hsplit]; have := hw hw'; omega

/-- coap_session_mfree: the Confirmables of the delay queue are reported, the queue is emptied -/
theorem nak_free (r : Nack) (hr : r ≠ .icmp) {c' : Ctx} (h : Nak T0 p t k c)
    (hout : c'.out = c.out ++ (c.s.delayq.filter fun q : QMsg => q.con).map (nackOf r))
    (hdq : c'.s.delayq = []) (hin : c'.s.inflight = c.s.inflight) (hnx : c'.s.next = c.s.next) (hlg : c'.s.lgCrcv = c.s.lgCrcv)
    (hbm : c'.s.blockMode = c.s.blockMode) (hp : c'.s.proto = c.s.proto) : Nak T0 p t k c' := by
  have hnd := h.nd
  have hB : ∀ j, nk j ((c.s.delayq.filter fun q : QMsg => q.con).map (nackOf r)) ≤ (sns c.s.delayq).count j := fun j => by
    rw [nk_map_nackOf j r hr]; exact countP_filter_sn_le _ _ j
  have hhc' : ∀ j, hc j p c'.s = p.count j + (sns c.s.inflight).count j := fun j => by simp [hc, hdq, hin, sns]
  refine nak_step h _ hout (fun j => by rw [hhc']; simp only [hc]; omega) ?_ ?_ ?_ (by omega) hlg hbm hp
  · intro j; rw [hhc']; have := hB j; simp only [hc]; omega
  · intro j hj; have := hB j; have := hnd j; simp only [hc] at this; omega
  · rintro ⟨q, hq, h1, h2, _⟩
    right; right
    rw [nk_map_nackOf k r hr, ← h1]
    exact countP_sn_pos _ q (List.mem_filter.mpr ⟨hq, by simpa using h2⟩)

/-! ## one preservation lemma per function of M -/

theorem popHs_nak (h : Nak T0 p t k c) : Nak T0 p t k c.popHs := by
  unfold Ctx.popHs; split
  · exact nak_keep h rfl rfl
  · exact nak_keep (nak_emit_q .orcMissing rfl h) rfl rfl

theorem popRec_nak (h : Nak T0 p t k c) : Nak T0 p t k c.popRec := by
  unfold Ctx.popRec; split
  · exact nak_keep h rfl rfl
  · exact nak_keep (nak_emit_q .orcMissing rfl h) rfl rfl

theorem popSnd_nak (h : Nak T0 p t k c) : Nak T0 p t k c.popSnd := by
  unfold Ctx.popSnd; split
  · exact nak_keep h rfl rfl
  · exact nak_keep (nak_emit_q .orcMissing rfl h) rfl rfl

theorem popEnv_nak (h : Nak T0 p t k c) : Nak T0 p t k c.popEnv := by
  unfold Ctx.popEnv; split
  · exact nak_keep h rfl rfl
  · exact nak_keep (nak_emit_q .orcMissing rfl h) rfl rfl

theorem popCk_nak (h : Nak T0 p t k c) : Nak T0 p t k c.popCk := by
  unfold Ctx.popCk; split
  · exact nak_keep h rfl rfl
  · exact nak_keep (nak_emit_q .orcMissing rfl h) rfl rfl

theorem doHandshake_nak (h : Nak T0 p t k c) : Nak T0 p t k c.doHandshake := by
  have h' := popHs_nak h
  unfold Ctx.doHandshake
  generalize c.popHs = c' at h'
  simp only
  split <;> (try split) <;>
    first
    | exact nak_setRet _ h'
    | exact nak_setRet _ (nupd! h')
    | exact nak_setRet _ (nak_emit_q _ rfl (nupd! h'))
    | exact nak_setRet _ (nupd! (nupd! h'))
    | exact nak_setRet _ (nupd! (nupd! (nak_emit_q _ rfl h')))

theorem freeEnv_nak (sb : Bool) (h : Nak T0 p t k c) : Nak T0 p t k (c.freeEnv sb) := by
  unfold Ctx.freeEnv; simp only
  split
  · exact nupd! (nak_emit_q .bye rfl h)
  · exact nupd! h

theorem dtlsFreeSession_nak (h : Nak T0 p t k c) : Nak T0 p t k c.dtlsFreeSession := by
  unfold Ctx.dtlsFreeSession
  split
  · exact nak_emit_q _ rfl (nupd! (freeEnv_nak _ h))
  · exact h

theorem sessionClose_nak (h : Nak T0 p t k c) : Nak T0 p t k c.sessionClose := by
  unfold Ctx.sessionClose
  split
  · exact h
  · exact dtlsFreeSession_nak h
  · exact nupd! (dtlsFreeSession_nak h)

theorem relTail_nak (st0 : SState) (h : Nak T0 p t k c) : Nak T0 p t k (c.relTail st0) := by
  unfold Ctx.relTail
  refine nak_ite (fun _ => ?_) fun _ => h
  simp only
  have h1 := nak_ite_emit_q (c.s.sockOpen = true) (.evTcp (if st0 = .connecting then .failed else .closed)) rfl h
  exact nupd! (nak_ite_emit_q (st0 ≠ .none) (.evTcp (if st0 = .established then .sessClosed else .sessFailed)) rfl h1)

theorem disconnected_nak (r : Nack) (h : Nak T0 p t k c) : Nak T0 p t k (c.disconnected r) := by
  unfold Ctx.disconnected
  simp only
  split
  · rename_i hr
    subst hr
    exact nak_outs_qq _ (discOuts_icmp_quiet c) h
  · rename_i hr
    apply sessionClose_nak
    apply relTail_nak
    exact nak_disc r hr h (by simp [Ctx.upd]) rfl rfl rfl h.lg.symm rfl rfl

theorem nak_ifret {c' : Ctx} {m : Nat} (h1 : c'.ret = DELAYED → Nak T0 p t k c') (h2 : c'.ret ≠ DELAYED → Nak T0 (m :: p) t k c') :
    Nak T0 (if c'.ret = DELAYED then p else m :: p) t k c' := by
  split
  · exact h1 ‹_›
  · exact h2 ‹_›

theorem nak_ifweak {c' : Ctx} {m : Nat} (h : Nak T0 (m :: p) t k c') : Nak T0 (if c'.ret = DELAYED then p else m :: p) t k c' :=
  nak_ifret (fun _ => nak_shrink _ h) fun _ => h

theorem nak_ifelim {c' : Ctx} {m : Nat} (h : Nak T0 (if c'.ret = DELAYED then p else m :: p) t k c') : Nak T0 p t k c' := by
  split at h
  · exact h
  · exact nak_shrink _ h

/-- coap_session_delay_pdu for a PDU that is not a send-queue node: refused (duplicate message id) or appended -/
theorem delayPdu_nak (m : QMsg) (h : Nak T0 (m.sn :: p) t k c) :
    Nak T0 (if (c.delayPdu m false).ret = DELAYED then p else m.sn :: p) t k (c.delayPdu m false) := by
  unfold Ctx.delayPdu
  simp only [Bool.false_eq_true, if_false]
  split
  · exact nak_ifret (fun he => by simp [Ctx.setRet, DELAYED] at he) fun _ => nak_setRet _ h
  · exact nak_ifret (fun _ => nak_setRet _ (nak_attach_dq m _ rfl rfl rfl rfl rfl rfl h)) fun hne => absurd rfl hne

theorem hc_detach (l : List QMsg) (m : QMsg) (hm : m ∈ l) (j : Nat) :
    (if m.sn = j then 1 else 0) + (sns (l.filter (·.sn ≠ m.sn))).count j ≤ (sns l).count j := by
  by_cases hj : m.sn = j
  · have h0 : (sns (l.filter (·.sn ≠ m.sn))).count j = 0 := by
      rw [List.count_eq_zero]
      intro hmem
      simp only [sns, List.mem_map, List.mem_filter] at hmem
      obtain ⟨q, ⟨_, hq⟩, hq2⟩ := hmem
      simp at hq; omega
    have h1 : 0 < (sns l).count j := by
      rw [← countP_sn_count, ← hj]; exact countP_sn_pos l m hm
    rw [if_pos hj, h0]; omega
  · rw [if_neg hj]; have := count_filter_sn_le l (·.sn ≠ m.sn) j; omega

/-- coap_session_delay_pdu for a send-queue node: it moves from the send queue to the delay queue -/
theorem delayPdu_node_nak (m m0 : QMsg) (hm0 : m0 ∈ c.s.inflight) (hsn : m.sn = m0.sn) (h : Nak T0 p t k c) :
    Nak T0 p t k (c.delayPdu m true) := by
  unfold Ctx.delayPdu
  simp only [if_true]
  refine nak_setRet _ (nak_drop _ (fun j => ?_) (fun q hq => List.mem_append_left _ hq) (Nat.le_refl _) rfl rfl rfl h)
  have := hc_detach c.s.inflight m0 hm0 j
  simp only [hc, sns, List.map_append, List.map_cons, List.map_nil, List.count_append, List.count_cons, List.count_nil, hsn] at this ⊢
  by_cases hj : m0.sn = j <;> simp [hj] at this ⊢ <;> omega

theorem sndResult_nak (h : Nak T0 p t k c) : Nak T0 p t k c.sndResult := by
  have h' := popSnd_nak h
  unfold Ctx.sndResult
  simp only
  split
  · exact nak_setRet _ h'
  · exact nak_setRet _ h'
  · exact nak_setRet _ (nupd! h')
  · exact nak_setRet _ h'
  · exact nak_setRet _ h'
  · exact nak_setRet _ h'

theorem dtlsSendCore_nak (m : QMsg) (ack : Bool) (h : Nak T0 p t k (c.emit (.tx true (m.view ack) (m.snOf ack) m.cnt))) :
    Nak T0 p t k (c.dtlsSendCore m ack) := by
  unfold Ctx.dtlsSendCore
  simp only
  have h1 := nak_upd (fun s => { s with dtlsEvent := none }) rfl rfl (Nat.le_refl _) rfl rfl rfl h
  split
  · exact sndResult_nak h1
  · have h2 := doHandshake_nak h1
    split
    · exact sndResult_nak (nupd! h2)
    · exact nak_setRet _ h2

theorem sendTail_nak (h : Nak T0 p t k c) : Nak T0 p t k c.sendTail := by
  unfold Ctx.sendTail
  split
  · simp only
    have h1 := nak_emit_q (.ev ‹DEv›) rfl h
    split
    · exact nak_setRet _ (disconnected_nak _ h1)
    · exact h1
  · exact h

theorem sessionSendPdu_nak (m : QMsg) (ack : Bool) (h : Nak T0 p t k (c.emit (.tx true (m.view ack) (m.snOf ack) m.cnt))) :
    Nak T0 p t k (c.sessionSendPdu m ack) := by
  have hp : c.s.proto = .dtls := h.proto
  unfold Ctx.sessionSendPdu
  split
  · simp_all
  · exact sendTail_nak (dtlsSendCore_nak m ack h)
  · simp_all

theorem sendPdu_nak (m : QMsg) (ack : Bool) (h : Nak T0 (m.sn :: p) t k c) :
    Nak T0 (if (c.sendPdu m ack false).ret = DELAYED then p else m.sn :: p) t k (c.sendPdu m ack false) := by
  unfold Ctx.sendPdu
  split
  · exact nak_ifweak (nak_setRet _ h)
  · split
    · exact delayPdu_nak _ h
    · have h2 := sessionSendPdu_nak m ack (nak_emit_q (.tx true (m.view ack) (m.snOf ack) m.cnt) rfl h)
      simp only
      split
      · exact nak_ifweak (nupd! h2)
      · exact nak_ifweak h2

theorem sendPdu_node_nak (m m0 : QMsg) (ack : Bool) (hm0 : m0 ∈ c.s.inflight) (hsn : m.sn = m0.sn) (h : Nak T0 p t k c) :
    Nak T0 p t k (c.sendPdu m ack true) := by
  unfold Ctx.sendPdu
  split
  · exact nak_setRet _ h
  · split
    · exact delayPdu_node_nak _ m0 hm0 hsn h
    · have h2 := sessionSendPdu_nak m ack (nak_emit_q (.tx true (m.view ack) (m.snOf ack) m.cnt) rfl h)
      simp only
      split
      · exact nupd! h2
      · exact h2

theorem flushOne_nak (q : QMsg) (rest : List QMsg) (hd : c.s.delayq = q :: rest) (h : Nak T0 p t k c) :
    Nak T0 p t k (c.flushOne q rest) := by
  unfold Ctx.flushOne
  simp only
  have h2 := sessionSendPdu_nak q false (nak_pop_emit q rest (fun s => { s with conActive := (if q.con && s.proto ≠ .tls then s.conActive + 1 else s.conActive), delayq := rest }) true (q.view false) hd rfl rfl rfl rfl rfl rfl h)
  refine nak_drop _ (fun j => ?_) (fun _ hq => hq) (Nat.le_refl _) rfl rfl rfl h2
  simp only [hc]
  split <;> simp only [sns, List.map_append, List.map_cons, List.map_nil, List.count_append, List.count_cons, List.count_nil] <;> omega

theorem flushLoop_nak (fuel : Nat) (h : Nak T0 p t k c) : Nak T0 p t k (flushLoop fuel c) := by
  induction fuel generalizing c with
  | zero => exact h
  | succ n ih =>
    unfold Ctx.flushLoop
    split
    · exact h
    · rename_i q rest hd
      split
      · exact h
      · split
        · exact h
        · simp only
          have h1 := flushOne_nak q rest hd h
          have hp := h1.proto
          refine nak_ite (fun hp' => absurd hp' (by rw [hp]; decide)) fun _ => nak_ite (fun _ => h1) fun _ => ih h1

theorem sessionConnected_nak (h : Nak T0 p t k c) : Nak T0 p t k c.sessionConnected := by
  unfold Ctx.sessionConnected
  simp only
  have h1 : Nak T0 p t k (if c.s.state = .csm then (c.emit (.evTcp .sessConnected)).upd fun s => { s with doingFirst := false } else c) :=
    nak_ite (fun _ => nupd! (nak_emit_q _ rfl h)) fun _ => h
  exact flushLoop_nak _ (nupd! h1)

theorem sessionFree_nak (h : Nak T0 p t k c) : Nak T0 p t k c.sessionFree := by
  unfold Ctx.sessionFree
  simp only
  have h1 := sessionClose_nak (nak_upd (fun s => { s with lgCrcv := [] }) rfl rfl (Nat.le_refl _) h.lg.symm rfl rfl h)
  exact nak_free _ (by split <;> decide) h1 rfl rfl rfl rfl rfl rfl rfl

theorem maybeFree_nak (h : Nak T0 p t k c) : Nak T0 p t k c.maybeFree := by
  unfold Ctx.maybeFree
  split
  · exact sessionFree_nak h
  · exact h

theorem sendInternal_nak (m : QMsg) (ack : Bool) (h : Nak T0 (m.sn :: p) t k c) : Nak T0 p t k (c.sendInternal m ack) := by
  unfold Ctx.sendInternal
  simp only
  have h1 := sendPdu_nak m ack h
  generalize c.sendPdu m ack false = c1 at h1
  split
  · rename_i hr; rw [if_pos hr] at h1; exact h1
  · rename_i hr; rw [if_neg hr] at h1
    split
    · exact nak_emit_q _ rfl (nak_shrink _ h1)
    · split
      · exact nak_shrink _ h1
      · exact nak_attach_in m _ rfl rfl rfl rfl rfl rfl h1

theorem appSend_nak (con : Bool) (code mid : Nat) (tok : String) (h : Nak T0 p t k c) : Nak T0 p t k (c.appSend con code mid tok) := by
  unfold Ctx.appSend
  exact sendInternal_nak _ _ (nak_next h)

theorem sendLkdTail_nak (m : QMsg) (obs : Bool) (h : Nak T0 (m.sn :: p) t k c) : Nak T0 p t k (c.sendLkdTail m obs) := by
  unfold Ctx.sendLkdTail
  rw [if_pos (by rw [h.bm]; rfl)]
  exact sendInternal_nak _ _ h

theorem appSendL_nak (con obs : Bool) (code mid : Nat) (tok : String) (h : Nak T0 p t k c) :
    Nak T0 p t k (c.appSendL con obs code mid tok) := by
  unfold Ctx.appSendL
  exact sendLkdTail_nak _ _ (nak_next h)

theorem lgResponse_nak (v : View) (h : Nak T0 p t k c) : Nak T0 p t k (c.lgResponse v) := by
  unfold Ctx.lgResponse
  rw [if_pos (by rw [h.bm]; rfl)]
  exact h

theorem lgExpire_nak (keep : List String) (h : Nak T0 p t k c) : Nak T0 p t k (c.lgExpire keep) := by
  unfold Ctx.lgExpire
  exact nak_upd _ rfl rfl (Nat.le_refl _) (by simp [h.lg]) rfl rfl h

theorem removeInflight_nak (mid : Nat) (h : Nak T0 p t k c) : Nak T0 p t k (c.removeInflight mid) := by
  unfold Ctx.removeInflight
  split
  · rename_i q0 _
    refine nak_setFound _ (nak_drop _ (fun j => ?_) (fun _ hq => hq) (Nat.le_refl _) rfl rfl rfl h)
    have := count_filter_sn_le c.s.inflight (·.sn ≠ q0.sn) j
    simp only [hc]; omega
  · exact nak_setFound _ h

/-- coap_remove_from_queue: the node found is detached -/
theorem removeInflight_detach (mid : Nat) (h : Nak T0 p t k c) (q : QMsg) (hf : (c.removeInflight mid).found = some q) :
    Nak T0 (q.sn :: p) t k (c.removeInflight mid) := by
  unfold Ctx.removeInflight at hf ⊢
  split at hf
  · rename_i q' hfind
    simp only [Ctx.setFound] at hf
    cases hf
    refine nak_setFound _ (nak_drop _ (fun j => ?_) (fun _ hq => hq) (Nat.le_refl _) rfl rfl rfl h)
    have := hc_detach c.s.inflight q (List.mem_of_find?_eq_some hfind) j
    simp only [hc, List.count_cons] at this ⊢
    by_cases hj : q.sn = j <;> simp [hj] at this ⊢ <;> omega
  · simp [Ctx.setFound] at hf

theorem handleResponse_nak (v : View) (h : Nak T0 p t k c) : Nak T0 p t k (c.handleResponse v) := by
  unfold Ctx.handleResponse
  simp only
  have h1 : Nak T0 p t k (c.upd fun s =>
    if v.kind ≠ 2 then
      { s with inflight := s.inflight.filter (fun q => q.tok ≠ v.tok),
               conActive := s.conActive - (s.inflight.filter fun q => q.tok = v.tok ∧ q.con).length }
    else s) := by
    by_cases hk : v.kind ≠ 2
    · simp only [if_pos hk]
      refine nak_drop _ (fun j => ?_) (fun _ hq => hq) (Nat.le_refl _) rfl rfl rfl h
      have := count_filter_sn_le c.s.inflight (fun q => q.tok ≠ v.tok) j
      simp only [hc]; omega
    · simp only [if_neg hk]
      exact nak_keep h rfl rfl
  refine nak_ite (fun _ => nak_emit_q _ rfl h1) fun _ => nak_ite (fun _ => h1) fun _ => ?_
  refine nak_emit_q _ rfl (lgResponse_nak v (nak_upd _ ?_ ?_ ?_ ?_ ?_ ?_ h1)) <;> (by_cases hk : v.kind = 2 <;> simp [hk])

theorem handleRequest_nak (v : View) (h : Nak T0 p t k c) : Nak T0 p t k (c.handleRequest v) := by
  unfold Ctx.handleRequest
  simp only
  exact sendInternal_nak _ _ (nak_next (nak_emit_q (.req v.tok v.payload) rfl h))

theorem ackFlush_nak (h : Nak T0 p t k c) : Nak T0 p t k c.ackFlush := by
  unfold Ctx.ackFlush
  refine nak_ite (fun _ => ?_) fun _ => h
  simp only
  have h1 := nak_upd (fun s => { s with conActive := s.conActive - 1 }) rfl rfl (Nat.le_refl _) rfl rfl rfl h
  exact nak_ite (fun _ => sessionConnected_nak h1) fun _ => h1

theorem dispatch_nak (v : View) (h : Nak T0 p t k c) : Nak T0 p t k (c.dispatch v) := by
  unfold Ctx.dispatch
  refine nak_ite (fun _ => ?_) fun _ => nak_ite (fun _ => ?_) fun _ => ?_
  · simp only
    have h1 := removeInflight_nak v.mid h
    have h2 : Nak T0 p t k (if (c.removeInflight v.mid).found.isSome then (c.removeInflight v.mid).ackFlush else c.removeInflight v.mid) :=
      nak_ite (fun _ => ackFlush_nak h1) fun _ => h1
    exact nak_ite (fun _ => h2) fun _ => nak_ite (fun _ => h2) fun _ => handleResponse_nak v h2
  · simp only
    have h0 := ackFlush_nak h
    split
    · rename_i q hq
      have h1 := removeInflight_detach v.mid h0 q hq
      exact nak_ite (fun _ => nak_nack .rst q h1) fun _ => nak_shrink _ h1
    · exact nak_emit_q _ rfl (removeInflight_nak v.mid h0)
  · simp only
    have h1 : Nak T0 p t k (if v.kind = 1 then c.removeInflight v.mid else c) :=
      nak_ite (fun _ => removeInflight_nak v.mid h) fun _ => h
    exact nak_ite (fun _ => nak_emit_q _ rfl h1) fun _ => nak_ite (fun _ => handleRequest_nak v h1) fun _ =>
      nak_ite (fun _ => handleResponse_nak v h1) fun _ => nak_emit_q _ rfl h1

theorem receiveTail_nak (h : Nak T0 p t k c) : Nak T0 p t k c.receiveTail := by
  unfold Ctx.receiveTail
  split
  · simp only
    rename_i e _
    have h1 : Nak T0 p t k (if e ≠ .closed then c.emit (.ev e) else c) := nak_ite (fun _ => nak_emit_q _ rfl h) fun _ => h
    exact nak_ite (fun _ => disconnected_nak _ h1) fun _ => h1
  · exact h

theorem hsThenConnect_nak (h : Nak T0 p t k c) : Nak T0 p t k c.hsThenConnect := by
  unfold Ctx.hsThenConnect
  simp only
  exact nak_ite (fun _ => nak_setFlag _ (sessionConnected_nak (doHandshake_nak h))) fun _ => nak_setFlag _ (doHandshake_nak h)

theorem recvEst_nak (h : Nak T0 p t k c) : Nak T0 p t k c.recvEst := by
  unfold Ctx.recvEst
  simp only
  have h1 : Nak T0 p t k (if c.s.state = .handshake then (c.emit (.ev .connected)).sessionConnected else c) :=
    nak_ite (fun _ => sessionConnected_nak (nak_emit_q _ rfl h)) fun _ => h
  have h2 := popRec_nak h1
  split
  · exact dispatch_nak _ h2
  · exact h2
  · exact receiveTail_nak (nupd! h2)
  · exact receiveTail_nak (nupd! h2)
  · exact receiveTail_nak (nupd! h2)
  · exact receiveTail_nak h2
  · exact receiveTail_nak h2
  · exact receiveTail_nak h2

theorem recvHs_nak (h : Nak T0 p t k c) : Nak T0 p t k c.recvHs := by
  unfold Ctx.recvHs
  simp only
  have h1 := hsThenConnect_nak h
  apply receiveTail_nak
  refine nak_ite (fun _ => h1) fun _ => ?_
  split
  · exact nak_ite (fun _ => hsThenConnect_nak h1) fun _ => h1
  · exact h1

theorem dtlsReceive_nak (h : Nak T0 p t k c) : Nak T0 p t k c.dtlsReceive := by
  unfold Ctx.dtlsReceive
  simp only
  have h1 := nak_upd (fun s => { s with dtlsEvent := none }) rfl rfl (Nat.le_refl _) rfl rfl rfl h
  exact nak_ite (fun _ => recvEst_nak h1) fun _ => recvHs_nak h1

theorem tlsTimeout_nak (h : Nak T0 p t k c) : Nak T0 p t k c.tlsTimeout := by
  unfold Ctx.tlsTimeout
  refine nak_ite (fun _ => h) fun _ => ?_
  simp only
  have h1 := nak_upd (fun s => { s with tmoCount := s.tmoCount + 1 }) rfl rfl (Nat.le_refl _) rfl rfl rfl h
  refine nak_ite (fun _ => disconnected_nak _ h1) fun _ => ?_
  exact nak_ite (fun _ => disconnected_nak _ (doHandshake_nak h1)) fun _ => doHandshake_nak h1

theorem sns_replace (l : List QMsg) (q q' : QMsg) (hq : q'.sn = q.sn) :
    sns (l.map fun x => if x.sn = q.sn then q' else x) = sns l := by
  unfold sns
  rw [List.map_map]
  apply List.map_congr_left
  intro x _
  simp only [Function.comp]
  split
  · rw [hq]; rename_i hx; exact hx.symm
  · rfl

/-- coap_retransmit: the node is retransmitted from the send queue (or parked in the delay queue); after MAX_RETRANSMIT it
is off the send queue while coap_session_connected runs, then reported ONCE and deleted -/
theorem retransmit_nak (mid : Nat) (h : Nak T0 p t k c) : Nak T0 p t k (c.retransmit mid) := by
  unfold Ctx.retransmit
  split
  · exact h
  · rename_i q hfind
    have hmem : q ∈ c.s.inflight := List.mem_of_find?_eq_some hfind
    refine nak_ite (fun _ => ?_) fun _ => ?_
    · simp only
      have h1 : Nak T0 p t k ((c.emit .evRtx).upd fun s =>
          { s with inflight := s.inflight.map fun x => if x.sn = q.sn then { q with cnt := q.cnt + 1 } else x,
                   conActive := s.conActive - 1 }) := by
        refine nak_drop _ (fun j => ?_) (fun _ hq => hq) (Nat.le_refl _) rfl rfl rfl (nak_emit_q .evRtx rfl h)
        simp only [hc, Ctx.emit]
        rw [sns_replace c.s.inflight q { q with cnt := q.cnt + 1 } rfl]
        exact Nat.le_refl _
      refine sendPdu_node_nak _ { q with cnt := q.cnt + 1 } _ ?_ rfl h1
      show _ ∈ c.s.inflight.map _
      exact List.mem_map.mpr ⟨q, hmem, by simp⟩
    · simp only
      have h1 : Nak T0 (q.sn :: p) t k (c.upd fun s => { s with inflight := s.inflight.filter (·.sn ≠ q.sn) }) := by
        refine nak_drop _ (fun j => ?_) (fun _ hq => hq) (Nat.le_refl _) rfl rfl rfl h
        have := hc_detach c.s.inflight q hmem j
        simp only [hc, List.count_cons] at this ⊢
        by_cases hj : q.sn = j <;> simp [hj] at this ⊢ <;> omega
      exact nak_ite (fun _ => nak_nack .retries q (ackFlush_nak h1)) fun _ => nak_shrink _ (ackFlush_nak h1)

theorem dtlsEstablishClient_nak (h : Nak T0 p t k c) : Nak T0 p t k c.dtlsEstablishClient := by
  unfold Ctx.dtlsEstablishClient
  simp only
  have h1 := popEnv_nak (nak_upd (fun s => { s with state := .handshake }) rfl rfl (Nat.le_refl _) rfl rfl rfl h)
  generalize (c.upd fun s => { s with state := .handshake }).popEnv = c1 at h1
  have h2 : Nak T0 p t k (if c1.flag = true then
      (if c1.doHandshake.ret = -1 then c1.doHandshake.freeEnv true else c1.doHandshake.upd fun s => { s with tls := true }) else c1) :=
    nak_ite (fun _ => nak_ite (fun _ => freeEnv_nak _ (doHandshake_nak h1)) fun _ => nupd! (doHandshake_nak h1)) fun _ => h1
  exact nak_ite (fun _ => disconnected_nak _ h2) fun _ => h2

theorem dtlsHello_nak (h : Nak T0 p t k c) : Nak T0 p t k c.dtlsHello := by
  unfold Ctx.dtlsHello
  simp only
  have h1 : Nak T0 p t k (if (!c.s.tls) = true then
      (if c.popEnv.flag = true then c.popEnv.upd fun s => { s with tls := true } else c.popEnv) else c) :=
    nak_ite (fun _ => nak_ite (fun _ => nupd! (popEnv_nak h)) fun _ => popEnv_nak h) fun _ => h
  generalize (if (!c.s.tls) = true then
      (if c.popEnv.flag = true then c.popEnv.upd fun s => { s with tls := true } else c.popEnv) else c) = c1 at h1
  refine nak_ite (fun _ => nak_setRet _ h1) fun _ => ?_
  have h2 := popCk_nak h1
  refine nak_ite (fun _ => nak_setRet _ (nak_emit_q _ rfl h2)) fun _ => ?_
  have h3 := doHandshake_nak h2
  refine nak_ite (fun _ => ?_) fun _ => nak_setRet _ h3
  exact nak_setRet _ (nupd! (freeEnv_nak _ h3))

theorem handleDgramForProto_nak (h : Nak T0 p t k c) : Nak T0 p t k c.handleDgramForProto := by
  unfold Ctx.handleDgramForProto
  split
  · exact nak_emit_q _ rfl h
  · exact h
  · refine nak_ite (fun _ => ?_) fun _ => nak_ite (fun _ => dtlsReceive_nak h) fun _ => h
    simp only
    have h1 := dtlsHello_nak h
    refine nak_ite (fun _ => ?_) fun _ => h1
    have h2 := nak_upd (fun s => { s with typ := .server, state := .handshake }) rfl rfl (Nat.le_refl _) rfl rfl rfl h1
    exact nak_ite (fun _ => disconnected_nak _ h2) fun _ => h2

theorem tlsTail_nak (h : Nak T0 p t k c) : Nak T0 p t k c.tlsTail := by
  unfold Ctx.tlsTail
  split
  · simp only
    rename_i e _
    have h1 := nak_ite_emit_q (e ≠ .closed) (.ev e) rfl h
    exact nak_ite (fun _ => nak_setRet _ (disconnected_nak _ h1)) fun _ => h1
  · exact h

theorem tlsRecordSend_nak (m : QMsg) (ack : Bool) (h : Nak T0 p t k c) : Nak T0 p t k (c.tlsRecordSend m ack) := by
  unfold Ctx.tlsRecordSend
  simp only
  have h1 := popSnd_nak (nak_upd (fun s => { s with dtlsEvent := none }) rfl rfl (Nat.le_refl _) rfl rfl rfl
    (nak_emit_q (.tx true m.strmView (m.snOf ack) m.cnt) rfl h))
  apply tlsTail_nak
  split
  · exact nak_setRet _ h1
  · exact nak_setRet _ h1
  · exact nak_setRet _ (nupd! h1)
  · exact nak_setRet _ (nupd! h1)
  · exact nak_setRet _ h1
  · exact nak_setRet _ (nak_emit_q _ rfl h1)

theorem sendCsm_nak (h : Nak T0 p t k c) : Nak T0 p t k c.sendCsm := by
  unfold Ctx.sendCsm
  simp only
  have h0 := nak_upd (fun s => { s with state := .csm }) rfl rfl (Nat.le_refl _) rfl rfl rfl h
  have h1 := nak_upd (fun s => { s with next := s.next + 1 }) rfl rfl (Nat.le_succ _) rfl rfl rfl h0
  have key : ∀ X : Ctx, Nak T0 p t k X → Nak T0 p t k (if X.ret ≠ 1 then X.disconnected .undeliv else X) :=
    fun X hX => nak_ite (fun _ => disconnected_nak _ hX) fun _ => hX
  apply key
  exact nak_ite (fun _ => tlsRecordSend_nak _ false h1) fun _ =>
    nak_setRet (-1) (nak_emit_q (.unmodelled "csm-before-established") rfl h1)

theorem tlsEstablish_nak (h : Nak T0 p t k c) : Nak T0 p t k c.tlsEstablish := by
  unfold Ctx.tlsEstablish
  simp only
  have h1 := popEnv_nak (nak_upd (fun s => { s with state := .handshake }) rfl rfl (Nat.le_refl _) rfl rfl rfl h)
  refine nak_ite (fun _ => disconnected_nak _ h1) fun _ => ?_
  have h2 := nak_upd (fun s => { s with tls := true }) rfl rfl (Nat.le_refl _) rfl rfl rfl h1
  exact nak_ite (fun _ => sendCsm_nak (nak_emit_q _ rfl (doHandshake_nak h2))) fun _ => doHandshake_nak h2

theorem dispatchStrm_nak (v : View) (h : Nak T0 p t k c) : Nak T0 p t k (c.dispatchStrm v) := by
  unfold Ctx.dispatchStrm
  refine nak_ite (fun _ => nak_ite (fun _ => sessionConnected_nak h) fun _ => h) fun _ => ?_
  refine nak_ite (fun _ => nak_emit_q _ rfl h) fun _ => nak_ite (fun _ => nak_emit_q _ rfl h) fun _ => ?_
  refine nak_ite (fun _ => ?_) fun _ => nak_ite (fun _ => nak_emit_q _ rfl (lgResponse_nak v h)) fun _ => nak_emit_q _ rfl h
  simp only
  exact nak_ifelim (sendPdu_nak _ _ (nak_next (nak_emit_q (.req v.tok v.payload) rfl h)))

theorem tlsReadHs_nak (h : Nak T0 p t k c) : Nak T0 p t k c.tlsReadHs := by
  unfold Ctx.tlsReadHs
  refine nak_ite (fun _ => ?_) fun _ => nak_setRet _ h
  simp only
  exact nak_ite (fun _ => nak_setRet _ (sendCsm_nak (nak_emit_q _ rfl (doHandshake_nak h)))) fun _ => doHandshake_nak h

theorem readEnd_nak (h : Nak T0 p t k c) : Nak T0 p t k c.readEnd := by
  unfold Ctx.readEnd
  simp only
  exact nak_ite (fun _ => disconnected_nak _ (tlsTail_nak h)) fun _ => tlsTail_nak h

theorem strmRead_nak (h : Nak T0 p t k c) : Nak T0 p t k c.strmRead := by
  unfold Ctx.strmRead
  refine nak_ite (fun _ => disconnected_nak _ h) fun _ => ?_
  simp only
  have h1 := tlsReadHs_nak (nak_upd (fun s => { s with dtlsEvent := none }) rfl rfl (Nat.le_refl _) rfl rfl rfl h)
  generalize (c.upd fun s => { s with dtlsEvent := none }).tlsReadHs = c1 at h1
  refine nak_ite (fun _ => ?_) fun _ => readEnd_nak h1
  have h2 := popRec_nak h1
  split
  · have h3 := tlsTail_nak (nak_setRet 1 h2)
    exact nak_ite (fun _ => dispatchStrm_nak _ h3) fun _ => nak_ite (fun _ => disconnected_nak _ h3) fun _ => h3
  · exact nak_emit_q _ rfl h2
  · exact readEnd_nak (nak_setRet _ (nupd! h2))
  · exact readEnd_nak (nak_setRet _ h2)
  · exact readEnd_nak (nak_setRet _ (nupd! h2))
  · exact readEnd_nak (nak_setRet _ (nupd! h2))
  · exact readEnd_nak (nak_setRet _ (nupd! h2))
  · exact readEnd_nak (nak_setRet _ h2)

theorem tcpConnect_nak (ok : Bool) (h : Nak T0 p t k c) : Nak T0 p t k (c.tcpConnect ok) := by
  unfold Ctx.tcpConnect
  exact nak_ite (fun _ => tlsEstablish_nak (nak_emit_q _ rfl h)) fun _ => disconnected_nak _ (nak_emit_q _ rfl h)

theorem strmWrite_nak (h : Nak T0 p t k c) : Nak T0 p t k c.strmWrite := by
  unfold Ctx.strmWrite
  exact nak_ite (fun _ => h) fun _ => nak_emit_q _ rfl h

theorem appSendStrm_nak (w : Bool) (code mid : Nat) (tok : String) (h : Nak T0 p t k c) : Nak T0 p t k (c.appSendStrm w code mid tok) := by
  unfold Ctx.appSendStrm
  refine nak_ite (fun _ => nak_emit_q _ rfl h) fun _ => nak_ite (fun _ => nak_emit_q _ rfl h) fun _ => ?_
  simp only
  have h0 := nak_upd (fun s => { s with doingFirst := false }) rfl rfl (Nat.le_refl _) rfl rfl rfl h
  have h1 : Nak T0 p t k (if c.s.doingFirst = true then
      (if (c.upd fun s => { s with doingFirst := false }).s.state = .csm
       then (c.upd fun s => { s with doingFirst := false }).emit (.unmodelled "csm-timeout")
       else c.upd fun s => { s with doingFirst := false }) else c) :=
    nak_ite (fun _ => nak_ite (fun _ => nak_emit_q _ rfl h0) fun _ => h0) fun _ => h
  exact sendLkdTail_nak _ _ (nak_next h1)

theorem stepCtx_nak (s : Sess) (e : Ev) (orc : List Orc) (h : Nak T0 p t k { s := s, orc := orc }) :
    Nak T0 p t k (s.stepCtx e orc) := by
  unfold Sess.stepCtx
  simp only
  refine nak_ite (fun _ => h) fun _ => ?_
  split
  · exact appSend_nak _ _ _ _ h
  · exact maybeFree_nak (handleDgramForProto_nak h)
  · exact tlsTimeout_nak h
  · exact maybeFree_nak (retransmit_nak _ h)
  · exact disconnected_nak _ h
  · exact maybeFree_nak (nupd! h)
  · exact sessionFree_nak (nak_emit_q _ rfl h)
  · exact maybeFree_nak (tcpConnect_nak _ h)
  · exact maybeFree_nak (strmRead_nak h)
  · exact maybeFree_nak (strmWrite_nak h)
  · exact appSendStrm_nak _ _ _ _ h
  · exact appSendL_nak _ _ _ _ _ h
  · exact lgExpire_nak _ h


/-! ## what one call of coap_session_disconnected_lkd reports -/

theorem disconnected_nk (r : Nack) (hr : r ≠ .icmp) (j : Nat) :
    nk j (c.disconnected r).out =
      nk j c.out + nk j (c.discOuts r ++ (c.s.inflight.filter fun q : QMsg => q.con).map (nackOf r)) := by
  unfold Ctx.disconnected
  simp only
  rw [if_neg hr, (same_sessionClose _).out j, (same_relTail _ _).out j]
  simp only [Ctx.upd, nk_append]
  omega

theorem disconnected_queues (r : Nack) (hr : r ≠ .icmp) :
    (c.disconnected r).s.delayq = [] ∧ (c.disconnected r).s.inflight = [] := by
  unfold Ctx.disconnected
  simp only
  rw [if_neg hr, (same_sessionClose _).dq, (same_relTail _ _).dq, (same_sessionClose _).infl, (same_relTail _ _).infl]
  exact ⟨rfl, rfl⟩

/-- one call of coap_session_disconnected_lkd (not ICMP, outside block mode) on a state of the ledger: every Confirmable on either
queue is named by at least one NACK; a serial is named TWICE exactly when it is the Confirmable at the head of the send queue -/
theorem disc_counts (r : Nack) (hr : r ≠ .icmp) (h : Nak T0 p t k c) (j : Nat) :
    ((∃ q ∈ c.s.delayq ++ c.s.inflight, q.sn = j ∧ q.con = true) →
        1 ≤ nk j (c.discOuts r ++ (c.s.inflight.filter fun q : QMsg => q.con).map (nackOf r))) ∧
    (nk j (c.discOuts r ++ (c.s.inflight.filter fun q : QMsg => q.con).map (nackOf r)) = 2 ↔
        ∃ q0 tl, c.s.inflight = q0 :: tl ∧ q0.sn = j ∧ q0.con = true) := by
  have hnd := h.nd j
  simp only [hc] at hnd
  have hB : nk j ((c.s.delayq.filter fun q : QMsg => q.con).map (nackOf r)) ≤ (sns c.s.delayq).count j := by
    rw [nk_map_nackOf j r hr]; exact countP_filter_sn_le _ _ j
  have hBpos : ∀ q ∈ c.s.delayq, q.sn = j → q.con = true → 1 ≤ nk j ((c.s.delayq.filter fun q : QMsg => q.con).map (nackOf r)) := by
    intro q hq h1 h2
    rw [nk_map_nackOf j r hr, ← h1]
    exact countP_sn_pos _ q (List.mem_filter.mpr ⟨hq, by simpa using h2⟩)
  rw [discAll_eq r hr h.lg]
  cases hi : c.s.inflight with
  | nil =>
    simp only [nk_append, nk_anon]
    refine ⟨?_, ⟨fun h2 => by omega, fun ⟨q0, tl, h0, _⟩ => by cases h0⟩⟩
    rintro ⟨q, hq, h1, h2⟩
    rw [List.append_nil] at hq
    have := hBpos q hq h1 h2
    omega
  | cons q0 tl =>
    simp only
    rw [hi] at hnd
    have hC : nk j (((q0 :: tl).filter fun q : QMsg => q.con).map (nackOf r)) ≤ (sns (q0 :: tl)).count j := by
      rw [nk_map_nackOf j r hr]; exact countP_filter_sn_le _ _ j
    have hCpos : ∀ q ∈ q0 :: tl, q.sn = j → q.con = true → 1 ≤ nk j (((q0 :: tl).filter fun q : QMsg => q.con).map (nackOf r)) := by
      intro q hq h1 h2
      rw [nk_map_nackOf j r hr, ← h1]
      exact countP_sn_pos _ q (List.mem_filter.mpr ⟨hq, by simpa using h2⟩)
    have hA : nk j [nackOf r q0] = if q0.sn = j then 1 else 0 := by
      simp only [nk, List.countP_cons, List.countP_nil, reports_nackOf]
      by_cases hj : q0.sn = j <;> simp [hj, hr]
    have hI : (sns (q0 :: tl)).count j = (if q0.sn = j then 1 else 0) + (sns tl).count j := by
      simp only [sns, List.map_cons, List.count_cons]
      by_cases hj : q0.sn = j <;> simp [hj]; omega
    have hsplit : nk j (nackOf r q0 :: ((c.s.delayq.filter fun q : QMsg => q.con).map (nackOf r) ++
        ((q0 :: tl).filter fun q : QMsg => q.con).map (nackOf r))) =
        nk j [nackOf r q0] + nk j ((c.s.delayq.filter fun q : QMsg => q.con).map (nackOf r)) +
        nk j (((q0 :: tl).filter fun q : QMsg => q.con).map (nackOf r)) := by
      rw [← List.singleton_append, nk_append, nk_append]; omega
    rw [hsplit, hA]
    refine ⟨?_, ⟨fun h2 => ?_, ?_⟩⟩
    · rintro ⟨q, hq, h1, h2⟩
      rcases List.mem_append.mp hq with hq | hq
      · have := hBpos q hq h1 h2; omega
      · have := hCpos q hq h1 h2; omega
    · by_cases hq0 : q0.sn = j
      · rw [if_pos hq0] at h2 hI
        refine ⟨q0, tl, rfl, hq0, ?_⟩
        cases hcq : q0.con with
        | true => rfl
        | false =>
          exfalso
          have hC1 : nk j (((q0 :: tl).filter fun q : QMsg => q.con).map (nackOf r)) = 1 := by omega
          rw [List.filter_cons, hcq] at hC1
          simp only [Bool.false_eq_true, if_false] at hC1
          rw [nk_map_nackOf j r hr] at hC1
          have := countP_filter_sn_le tl (fun q : QMsg => q.con) j
          omega
      · rw [if_neg hq0] at h2 hI; omega
    · rintro ⟨q0', tl', h0, h1, h2⟩
      cases h0
      have := hCpos q0 (List.mem_cons_self ..) h1 h2
      rw [if_pos h1] at hI ⊢
      omega

/-- start of a history: nothing in flight, the delay queue in submission order with serials below `next`, no block mode -/
theorem nak_start (s : Sess) (hinf : s.inflight = []) (hsrt : (s.delayq.map (·.sn)).Pairwise (· < ·))
    (hlt : ∀ q ∈ s.delayq, q.sn < s.next) (hlg : s.lgCrcv = []) (hbm : s.blockMode = false) (hp : s.proto = .dtls) (k : Nat) :
    Nak [] [] false k { s := s } := by
  have hcq : ∀ j, hc j [] s = s.delayq.countP (fun q => q.sn == j) := fun j => by
    simp [hc, hinf, sns, countP_sn_count]
  refine ⟨?_, ?_, (fun _ _ => rfl), (fun _ _ => rfl), (fun _ => Nat.zero_le _), (fun j hj => absurd hj (by simp [nk])), hlg, hbm, hp,
    (fun ht => Bool.noConfusion ht)⟩
  · intro j; rw [hcq]; exact countP_sn_le_one _ hsrt j
  · intro j hj; rw [hcq] at hj
    obtain ⟨q, hq, rfl⟩ := countP_sn_mem _ _ hj
    exact hlt q hq

theorem nak_track {k' : Nat} (h : Nak T0 p false k c) (hw : Waiting k' c.s) : Nak T0 p true k' c :=
  ⟨h.nd, h.lt, h.z, h.fut, h.le2, h.dbl, h.lg, h.bm, h.proto, fun _ => Or.inl hw⟩

theorem hc_pos_of_mem (s : Sess) (q : QMsg) (hq : q ∈ s.delayq ++ s.inflight) : 0 < hc q.sn [] s := by
  simp only [hc, List.count_nil, Nat.zero_add]
  rcases List.mem_append.mp hq with hq | hq
  · have := countP_sn_pos _ q hq; rw [countP_sn_count] at this; omega
  · have := countP_sn_pos _ q hq; rw [countP_sn_count] at this; omega

/-! ## from one event to the next, whole histories -/

theorem nak_rebase (orc : List Orc) (h : Nak T0 p t k c) : Nak (T0 ++ c.out) p t k { s := c.s, orc := orc } := by
  obtain ⟨a1, a2, a3, a4, a5, a6, a7, a8, a9, a10⟩ := h
  exact ⟨a1, a2, by simpa using a3, by simpa using a4, by simpa using a5, by simpa using a6, a7, a8, a9, by simpa using a10⟩

theorem step_nak (s : Sess) (e : Ev) (orc : List Orc) (h : Nak T0 [] t k { s := s }) :
    Nak (T0 ++ (s.step e orc).2) [] t k { s := (s.step e orc).1 } :=
  nak_rebase [] (stepCtx_nak s e orc ⟨h.nd, h.lt, h.z, h.fut, h.le2, h.dbl, h.lg, h.bm, h.proto, h.trk⟩)

theorem run_nak (s : Sess) (evs : List (Ev × List Orc)) (h : Nak T0 [] t k { s := s }) :
    Nak (T0 ++ (s.run evs).2) [] t k { s := (s.run evs).1 } := by
  induction evs generalizing s T0 with
  | nil => simpa [Sess.run] using h
  | cons eo tl ih =>
    obtain ⟨e, o⟩ := eo
    have h2 := ih _ (step_nak s e o h)
    simp only [Sess.run]
    rw [← List.append_assoc]
    exact h2

end
end Coap.TlsGate
