import CoapVerif.Lemmas.ObserveVer
/- C11 (5), progress measure: the number of stale entries of a session never grows in an I/O step and strictly decreases in a
   fair one. -/
namespace Coap.Observe
open Coap.Generated

/-! ### counting the stale entries of one session -/
/-- entry `o` of resource `r` belongs to session c and has not been told r's current state -/
def staleP (c : Nat) (r : Res) (o : Sub) : Bool := o.sess == c && (r.dirty || o.dirty)

def staleR (c : Nat) (y : Res) : Nat := if y.alive = true then (y.subs.filter (staleP c y)).length else 0

/-- number of stale entries of session c (alive resources) -/
def staleOf (c : Nat) (st : State) : Nat := (st.res.map (staleR c)).sum

/-- after the walk the resource is clean: only the entry's own flag counts -/
def staleA (c : Nat) (o : Sub) : Bool := o.sess == c && o.dirty

theorem Visit.count_le {d : Bool} {r : Res} {o : Sub} {s : Option Sub} {pd : Bool} {outs : List Out} (c : Nat)
    (h : Visit d r o s pd outs) : (s.toList.filter (staleA c)).length ≤ ([o].filter (staleP c r)).length := by
  cases h with
  | skip hr ho => simp [staleA, staleP, hr, ho]
  | defer hst =>
    rcases hst with hst | hst <;> by_cases hc : o.sess = c <;> simp [staleA, staleP, hst, hc]
  | bye => simp [staleA]
  | error => simp
  | sent => simp [staleA]

theorem Visits.count_le {d : Bool} {r : Res} {subs subs' : List Sub} {pd : Bool} {outs : List Out} (c : Nat)
    (h : Visits d r subs subs' pd outs) : (subs'.filter (staleA c)).length ≤ (subs.filter (staleP c r)).length := by
  induction h with
  | nil => exact Nat.le_refl _
  | @cons o s pd outs rest subs' pd' outs' hv _ ih =>
    have h1 := hv.count_le c
    rw [List.filter_append, List.length_append]
    have : ((o :: rest).filter (staleP c r)).length = ([o].filter (staleP c r)).length + (rest.filter (staleP c r)).length := by
      rw [← List.length_append, ← List.filter_append]; rfl
    omega

/-- a visit that is NOT back-pressured leaves no stale entry behind -/
theorem notifyOne_served (d : Bool) (r : Res) (o : Sub) (st : State) (hbp : backPressured st r o = false) (c : Nat) :
    ((notifyOne d r o st).sub.toList.filter (staleA c)).length = 0 := by
  unfold notifyOne
  split
  · rename_i h
    simp at h
    simp [staleA, h.2]
  · rw [hbp]
    simp only [Bool.false_eq_true, if_false]
    split
    · simp [staleA]
    · split
      · simp
      · simp [staleA]

theorem notifyLoop_count_le (d : Bool) (r : Res) (c : Nat) (subs : List Sub) (st : State) :
    ((notifyLoop d r subs st).subs.filter (staleA c)).length ≤ (subs.filter (staleP c r)).length :=
  (notifyLoop_visits d r subs st).count_le c

theorem notifyLoop_subs_append (d : Bool) (r : Res) : ∀ (a b : List Sub) (st : State),
    (notifyLoop d r (a ++ b) st).subs = (notifyLoop d r a st).subs ++ (notifyLoop d r b (notifyLoop d r a st).st).subs
  | [], b, st => rfl
  | o :: a, b, st => by
    simp only [List.cons_append, notifyLoop, notifyLoop_subs_append d r a b, List.append_assoc]

/-- the walk of a list in which entry `o` (stale, session c) is not back-pressured at its turn leaves strictly fewer stale entries -/
theorem notifyLoop_count_lt (d : Bool) (r : Res) (spre spost : List Sub) (o : Sub) (st : State)
    (hst : staleP o.sess r o = true) (hbp : backPressured (notifyLoop d r spre st).st r o = false) :
    ((notifyLoop d r (spre ++ o :: spost) st).subs.filter (staleA o.sess)).length <
      ((spre ++ o :: spost).filter (staleP o.sess r)).length := by
  rw [notifyLoop_subs_append, List.filter_append, List.length_append, List.filter_append, List.length_append]
  have h1 := notifyLoop_count_le d r o.sess spre st
  have h2 : ((notifyLoop d r (o :: spost) (notifyLoop d r spre st).st).subs.filter (staleA o.sess)).length ≤
      (spost.filter (staleP o.sess r)).length := by
    unfold notifyLoop
    dsimp only
    rw [List.filter_append, List.length_append, notifyOne_served d r o _ hbp]
    have := notifyLoop_count_le d r o.sess spost (notifyOne d r o (notifyLoop d r spre st).st).st
    omega
  have h3 : ((o :: spost).filter (staleP o.sess r)).length = 1 + (spost.filter (staleP o.sess r)).length := by
    rw [List.filter_cons_of_pos hst, List.length_cons]; omega
  omega

theorem staleR_walked (c : Nat) (r : Res) (subs' : List Sub) (pd : Bool) :
    staleR c { r with subs := subs', pdirty := pd, dirty := false } = if r.alive = true then (subs'.filter (staleA c)).length else 0 := by
  unfold staleR
  dsimp only
  by_cases hal : r.alive = true
  · rw [if_pos hal, if_pos hal]
    congr 1
  · rw [if_neg hal, if_neg hal]

theorem notifyRes_count_le (r : Res) (st : State) (c : Nat) : staleR c (notifyRes false r st).1 ≤ staleR c r := by
  unfold notifyRes
  split
  · rename_i hc
    simp only [Bool.and_eq_true] at hc
    dsimp only
    rw [staleR_walked]
    unfold staleR
    rw [if_pos hc.1, if_pos hc.1]
    exact notifyLoop_count_le false r c r.subs st
  · rename_i hc
    dsimp only
    unfold staleR
    dsimp only
    split
    · rename_i hal
      have hd : r.dirty = false := by
        cases hd : r.dirty with
        | false => rfl
        | true => simp [hal, hd] at hc
      apply Nat.le_of_eq
      congr 1
      apply List.filter_congr
      intro o _
      simp [staleP, hd]
    · exact Nat.le_refl _

theorem notifyRes_count_lt (y : Res) (spre spost : List Sub) (o : Sub) (st : State) (hsubs : y.subs = spre ++ o :: spost)
    (hal : y.alive = true) (hwalk : y.dirty = true ∨ y.pdirty = true) (hst : y.dirty = true ∨ o.dirty = true)
    (hbp : backPressured (notifyLoop false y spre st).st y o = false) :
    staleR o.sess (notifyRes false y st).1 < staleR o.sess y := by
  unfold notifyRes
  have hc : (y.alive && (y.dirty || y.pdirty)) = true := by
    rcases hwalk with h | h <;> simp [hal, h]
  rw [if_pos hc]
  dsimp only
  rw [staleR_walked]
  unfold staleR
  rw [if_pos hal, if_pos hal, hsubs]
  refine notifyLoop_count_lt false y spre spost o st ?_ hbp
  rcases hst with h | h <;> simp [staleP, h]

theorem notifyAll_res_append : ∀ (a b : List Res) (st : State),
    (notifyAll (a ++ b) st).1 = (notifyAll a st).1 ++ (notifyAll b (notifyAll a st).2.1).1
  | [], b, st => rfl
  | r :: a, b, st => by
    simp only [List.cons_append, notifyAll, notifyAll_res_append a b]

theorem notifyAll_count_le (c : Nat) : ∀ (rs : List Res) (st : State),
    ((notifyAll rs st).1.map (staleR c)).sum ≤ (rs.map (staleR c)).sum
  | [], _ => Nat.le_refl _
  | r :: rest, st => by
    unfold notifyAll
    simp only [List.map_cons, List.sum_cons]
    exact Nat.add_le_add (notifyRes_count_le r st c) (notifyAll_count_le c rest (notifyRes false r st).2.1)

theorem notifyAll_count_lt (pre post : List Res) (y : Res) (spre spost : List Sub) (o : Sub) (st : State)
    (hsubs : y.subs = spre ++ o :: spost) (hal : y.alive = true) (hwalk : y.dirty = true ∨ y.pdirty = true)
    (hst : y.dirty = true ∨ o.dirty = true)
    (hbp : backPressured (notifyLoop false y spre (notifyAll pre st).2.1).st y o = false) :
    ((notifyAll (pre ++ y :: post) st).1.map (staleR o.sess)).sum < ((pre ++ y :: post).map (staleR o.sess)).sum := by
  rw [notifyAll_res_append]
  simp only [List.map_append, List.sum_append]
  have h1 := notifyAll_count_le o.sess pre st
  have h2 : ((notifyAll (y :: post) (notifyAll pre st).2.1).1.map (staleR o.sess)).sum < ((y :: post).map (staleR o.sess)).sum := by
    unfold notifyAll
    simp only [List.map_cons, List.sum_cons]
    exact Nat.add_lt_add_of_lt_of_le (notifyRes_count_lt y spre spost o (notifyAll pre st).2.1 hsubs hal hwalk hst hbp)
      (notifyAll_count_le o.sess post (notifyRes false y (notifyAll pre st).2.1).2.1)
  exact Nat.add_lt_add_of_le_of_lt h1 h2

/-- entries only disappear (or have their fail counter touched): the count cannot grow -/
theorem staleR_le_of_le (c : Nat) {y' y : Res} (h : ResLeF y' y) : staleR c y' ≤ staleR c y := by
  unfold staleR
  rw [h.alive]
  split
  · have hsub := h.subs
    unfold SubsLeF at hsub
    have h1 := (hsub.filter (fun s => s.sess == c && (y.dirty || s.dirty))).length_le
    have e1 : ∀ (l : List Sub) (r : Res), r.dirty = y.dirty →
        ((l.map coreF).filter (fun s => s.sess == c && (y.dirty || s.dirty))).length = (l.filter (staleP c r)).length := by
      intro l r hr
      rw [List.filter_map, List.length_map]
      congr 1
      apply List.filter_congr
      intro o _
      simp [staleP, coreF, hr]
    rw [e1 y'.subs y' h.dirty, e1 y.subs y rfl] at h1
    exact h1
  · exact Nat.le_refl _

theorem staleOf_le_of_le (c : Nat) {a b : List Res} (h : AllLeF a b) : (a.map (staleR c)).sum ≤ (b.map (staleR c)).sum := by
  induction h with
  | nil => exact Nat.le_refl _
  | cons hxy _ ih =>
    simp only [List.map_cons, List.sum_cons]
    exact Nat.add_le_add (staleR_le_of_le c hxy) ih

/-- one I/O step never increases the number of stale entries of a session … -/
theorem io_stale_le (st : State) (c : Nat) : staleOf c (io st).1 ≤ staleOf c st := by
  unfold io
  dsimp only
  have h1 : staleOf c (checkNotify st).1 ≤ staleOf c st := by
    unfold checkNotify
    split
    · exact notifyAll_count_le c st.res _
    · exact Nat.le_refl _
  have h2 : staleOf c (reclaim (retransmitDue ((checkNotify st).1.sendq.length + 1) (checkNotify st).1).1) ≤ staleOf c (checkNotify st).1 := by
    unfold staleOf
    simp only [reclaim_res]
    exact staleOf_le_of_le c (retransmitDue_leF _ _)
  exact Nat.le_trans h2 h1

/-- … and strictly decreases it when some stale entry of the session is not back-pressured at its turn -/
theorem io_stale_lt (st : State) (pre post : List Res) (y : Res) (spre spost : List Sub) (o : Sub)
    (hres : st.res = pre ++ y :: post) (hsubs : y.subs = spre ++ o :: spost) (hp : st.pending = true) (hal : y.alive = true)
    (hwalk : y.dirty = true ∨ y.pdirty = true) (hst : y.dirty = true ∨ o.dirty = true)
    (hbp : backPressured (turnState st pre y spre) y o = false) :
    staleOf o.sess (io st).1 < staleOf o.sess st := by
  unfold io
  dsimp only
  have h1 : staleOf o.sess (checkNotify st).1 < staleOf o.sess st := by
    unfold checkNotify
    rw [if_pos hp]
    dsimp only
    unfold staleOf
    dsimp only
    rw [hres]
    refine notifyAll_count_lt pre post y spre spost o _ hsubs hal hwalk hst ?_
    unfold turnState at hbp
    rw [hres] at hbp
    exact hbp
  have h2 : staleOf o.sess (reclaim (retransmitDue ((checkNotify st).1.sendq.length + 1) (checkNotify st).1).1) ≤
      staleOf o.sess (checkNotify st).1 := by
    unfold staleOf
    simp only [reclaim_res]
    exact staleOf_le_of_le o.sess (retransmitDue_leF _ _)
  exact Nat.lt_of_le_of_lt h2 h1

end Coap.Observe
