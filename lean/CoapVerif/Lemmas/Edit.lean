import CoapVerif.Lemmas.Build
/- M-side lemmas for the editors (C04): coap_update_token. -/
namespace Coap
open Coap.M


theorem tokBias_ext (len : Nat) (h : len ≤ 65804) : tokBias len = some (Spec.extBytes len).length := by
  unfold tokBias Spec.extBytes
  by_cases h1 : len < 13
  · simp [h1]
  · by_cases h2 : len < 269
    · simp [h1, h2]
    · simp [h1, h2, h]

theorem tokHdr_ext (len : Nat) : tokHdr len (Spec.extBytes len).length = Spec.extBytes len := by
  unfold tokHdr Spec.extBytes
  by_cases h1 : len < 13
  · simp [h1]
  · by_cases h2 : len < 269
    · simp [h1, h2]
    · simp [h1, h2]

theorem encToken_length (t : Bytes) : (Spec.encToken t).length = (Spec.extBytes t.length).length + t.length := by
  simp [Spec.encToken]

theorem extBytes_len_le (n : Nat) : (Spec.extBytes n).length ≤ 2 := by
  unfold Spec.extBytes; split
  · simp
  · split <;> simp

/-- the token field has length 0 only for the empty token -/
theorem tokfield_zero (t : Bytes) (h : (Spec.extBytes t.length).length + t.length = 0) : t = [] := by
  have : t.length = 0 := by omega
  exact List.eq_nil_of_length_eq_zero this

/-- overwriting a prefix: whatever was there (`junk`) is replaced, the tail stays -/
theorem wr_zero (junk tail new : Bytes) (h : new.length = junk.length) : wr (junk ++ tail) 0 new = R.ok (new ++ tail) := by
  unfold wr
  have hle : 0 + new.length ≤ (junk ++ tail).length := by simp; omega
  rw [if_pos hle]
  simp only [List.take_zero, List.nil_append, Nat.zero_add]
  rw [h, drop_app_len]

/-- the token-dependent fields of the representing PDU, with the token-independent part named -/
theorem conc_fields (ms : Nat) (a : Msg) :
    conc ms a = { type := a.type, code := a.code, mid := a.mid, maxSize := ms,
                  buf := Spec.encToken a.token ++ (Spec.encOpts 0 a.opts ++ Spec.encPayload a.payload),
                  etl := (Spec.encToken a.token).length, tokLen := a.token.length, maxOpt := lastNum a.opts,
                  data := if a.payload = [] then none
                          else some ((Spec.encToken a.token).length + (Spec.encOpts 0 a.opts).length + 1) } := by
  simp [conc, encToken_length]

/-- what `coap_update_token` stores after its memmove, in all three directions: `junk` is whatever occupies
the first bytes after the move (old token bytes, or stale bytes when the field grew) -/
theorem updateToken_buf (t junk rest : Bytes) (hj : junk.length = (Spec.encToken t).length) :
    (if t.length ≠ 0 then wr (junk ++ rest) 0 (Spec.extBytes t.length ++ t) else R.ok (junk ++ rest))
      = R.ok (Spec.encToken t ++ rest) := by
  by_cases htl : t.length = 0
  · have htnil : t = [] := List.eq_nil_of_length_eq_zero htl
    subst htnil
    have : junk = [] := List.eq_nil_of_length_eq_zero (by rw [hj]; simp [Spec.encToken, Spec.extBytes])
    subst this
    simp [Spec.encToken, Spec.extBytes]
  · simp only [ne_eq, htl, not_false_eq_true, if_true]
    exact wr_zero junk _ (Spec.extBytes t.length ++ t) (by rw [hj]; rfl)

/-- the same, in the shape `simp` leaves the model in (the `if` outside the bind), for any continuation -/
theorem ut_close {β : Type} (t junk rest : Bytes) (hj : junk.length = (Spec.encToken t).length) (f : Bytes → β) :
    (if t.length ≠ 0 then (wr (junk ++ rest) 0 (Spec.extBytes t.length ++ t) >>= fun b => R.ok (f b))
     else ((R.ok (junk ++ rest) : R Bytes) >>= fun b => R.ok (f b))) = R.ok (f (Spec.encToken t ++ rest)) := by
  have h := updateToken_buf t junk rest hj
  by_cases htl : t.length = 0
  · simp only [ne_eq, htl, not_true_eq_false, if_false] at h ⊢
    rw [h]; rfl
  · simp only [ne_eq, htl, not_false_eq_true, if_true] at h ⊢
    rw [h]; rfl

/-- coap_update_token on a non-empty PDU replaces the token and nothing else: the representing PDU of
`a` becomes the representing PDU of `a` with the new token — options, payload, their bytes, `max_opt`
and the payload offset follow.  Capacity is only needed when the token field grows. -/
theorem updateToken_conc (ms : Nat) (a : Msg) (t : Bytes) (ht : t.length ≤ 65804)
    (hne : (conc ms a).buf ≠ [])
    (hfit : (Spec.encToken t).length ≤ (Spec.encToken a.token).length ∨ ms = 0 ∨
            (conc ms { a with token := t }).buf.length ≤ ms) :
    updateToken (conc ms a) t = R.ok (1, conc ms { a with token := t }) := by
  have hlenne : ¬ ((conc ms a).buf.length = 0) := fun h => hne (List.eq_nil_of_length_eq_zero h)
  have he1 := extBytes_len_le t.length
  have hEt := encToken_length t
  have hn : t.length + (Spec.extBytes t.length).length = (Spec.encToken t).length := by rw [hEt]; omega
  have hmod : (Spec.encToken t).length % 4294967296 = (Spec.encToken t).length := Nat.mod_eq_of_lt (by omega)
  have hnewlen : (conc ms { a with token := t }).buf.length =
      (Spec.encToken t).length + (Spec.encOpts 0 a.opts ++ Spec.encPayload a.payload).length := by simp [conc]
  rw [hnewlen] at hfit
  rw [conc_fields ms { a with token := t }]
  unfold updateToken
  simp only [hlenne, if_false, tokBias_ext t.length ht, tokHdr_ext, hn]
  rw [conc_fields ms a]
  simp only []
  generalize Spec.encOpts 0 a.opts ++ Spec.encPayload a.payload = rest at *
  rcases Nat.lt_trichotomy (Spec.encToken t).length (Spec.encToken a.token).length with hlt | heq | hgt
  · have h1 : ¬ ((Spec.encToken t).length = (Spec.encToken a.token).length) := by omega
    have h2 : ¬ ((Spec.encToken t).length > (Spec.encToken a.token).length) := by omega
    have hdrop : (Spec.encToken a.token ++ rest).drop ((Spec.encToken a.token).length - (Spec.encToken t).length) =
        (Spec.encToken a.token).drop ((Spec.encToken a.token).length - (Spec.encToken t).length) ++ rest := by
      rw [List.drop_append_of_le_length]; omega
    simp only [h1, h2, if_false, hdrop]
    refine (ut_close t _ rest (by simp; omega) _).trans ?_
    simp only [hmod]
    by_cases hp : a.payload = []
    · simp [hp]
    · simp [hp]; omega
  · simp only [heq, if_true]
    refine (ut_close t _ rest heq.symm _).trans ?_
    have hmod' : (Spec.encToken a.token).length % 4294967296 = (Spec.encToken a.token).length := by rw [← heq]; exact hmod
    simp only [hmod']
  · have h1 : ¬ ((Spec.encToken t).length = (Spec.encToken a.token).length) := by omega
    have hcr : ∀ (et tl mo : Nat) (d : Option Nat),
        checkResize ⟨a.type, a.code, a.mid, ms, Spec.encToken a.token ++ rest, et, tl, mo, d⟩
          ((Spec.encToken a.token ++ rest).length + (Spec.encToken t).length - (Spec.encToken a.token).length) = true := by
      intro et tl mo d
      unfold checkResize
      rcases hfit with h | h | h
      · omega
      · simp [h]
      · have : (Spec.encToken a.token ++ rest).length + (Spec.encToken t).length - (Spec.encToken a.token).length ≤ ms := by
          simp; omega
        simp only [this, decide_true, Bool.or_true]
    simp only [h1, hgt, if_false, if_true, hcr, not_true_eq_false]
    rw [← List.append_assoc]
    refine (ut_close t _ rest (by simp; omega) _).trans ?_
    simp only [hmod]
    by_cases hp : a.payload = []
    · simp [hp]
    · simp [hp]; omega

end Coap
