import CoapVerif.Model.WkLive
import CoapVerif.Lemmas.WkBlock
/- Helper lemmas for C20's live server: a complete fetch that starts with block 0 reassembles to the body the handler
   computes from the table AS IT IS NOW, whatever older transfers left in the session's Block2 cache. -/
namespace Coap.M.LF
open Coap Coap.LF

theorem specBlocks_eq (len sz : Nat) : specBlocks len sz = nblocks len sz := rfl

theorem fetch_done (t : Table) (opts : List Bytes) (szx fuel : Nat) (c : Cache) (x : XState) (h : x.done = true) :
    fetch t opts szx fuel c x = (c, x) := by
  cases fuel with
  | zero => rfl
  | succ f => simp [fetch, h]

theorem xAfter_lt (L : Bytes) (chunk n : Nat) (h : n < nblocks L.length chunk) :
    xAfter L chunk n = ⟨L.take (n * chunk), n, false, false⟩ := by
  simp only [xAfter]
  rw [Nat.min_eq_left (by omega)]
  simp; omega

theorem xAfter_all (L : Bytes) (chunk : Nat) (hc : 0 < chunk) :
    xAfter L chunk (nblocks L.length chunk) = ⟨L, nblocks L.length chunk, true, false⟩ := by
  simp only [xAfter, Nat.min_self, Nat.le_refl, decide_true]
  rw [List.take_of_length_le]
  exact (nblocks_le_iff _ _ _ hc (nblocks_pos _ _ hc)).mp (Nat.le_refl _)

/-- blocks 1, 2, … come from the entry block 0 just put at the head of the session's cache -/
theorem fetch_cached (t : Table) (opts : List Bytes) (szx : Nat) (key : Option Bytes) (L : Bytes) (c1 : Cache)
    (hq : MU.getQuery opts = R.ok key) :
    ∀ (fuel n : Nat), 1 ≤ n → n ≤ nblocks L.length (2 ^ (szx + 4)) → nblocks L.length (2 ^ (szx + 4)) - n ≤ fuel →
      fetch t opts szx fuel (⟨key, L, szx⟩ :: c1) (xAfter L (2 ^ (szx + 4)) n) =
        (⟨key, L, szx⟩ :: c1, xAfter L (2 ^ (szx + 4)) (nblocks L.length (2 ^ (szx + 4)))) := by
  have hcpos : 0 < 2 ^ (szx + 4) := Nat.pow_pos (by omega)
  generalize hch : 2 ^ (szx + 4) = chunk at *
  intro fuel
  induction fuel with
  | zero =>
    intro n _ h2 h3
    have : n = nblocks L.length chunk := by omega
    subst this; rfl
  | succ f ih =>
    intro n h1 h2 h3
    by_cases hn : n = nblocks L.length chunk
    · subst hn
      exact fetch_done _ _ _ _ _ _ (by simp [xAfter])
    · have hlt : n < nblocks L.length chunk := by omega
      have hn0 : n ≠ 0 := by omega
      have hvl : n * chunk < L.length := by
        rcases valid_of_lt_nblocks _ _ _ hcpos hlt with h | h
        · omega
        · exact h
      rw [xAfter_lt L chunk n hlt]
      have hfind : findXmit (⟨key, L, szx⟩ :: c1) key = some ⟨key, L, szx⟩ := by
        simp [findXmit, keyEq, List.find?]
      have hserve : serve t (⟨key, L, szx⟩ :: c1) ⟨opts, n, szx⟩ =
          R.ok (⟨key, L, szx⟩ :: c1, Resp.blk (block L chunk n) (decide ((n + 1) * chunk < L.length))) := by
        unfold serve
        simp only [hq, if_neg hn0, hfind, hch]
        rw [if_neg (by omega)]
        congr 3
        rw [Nat.succ_mul]
      unfold fetch
      simp only [Bool.false_eq_true, if_false, hserve]
      rw [xAfter_step L chunk n hcpos hlt]
      exact ih (n + 1) (by omega) (by omega) (by omega)

/-- a complete fetch: whatever the session's cache holds, the client ends with the body the handler computes now -/
theorem fetch_all (t : Table) (opts : List Bytes) (szx : Nat) (key : Option Bytes) (L : Bytes) (c : Cache) (fuel : Nat)
    (hq : MU.getQuery opts = R.ok key) (hb : getBody t opts = R.ok L)
    (hf : nblocks L.length (2 ^ (szx + 4)) ≤ fuel) :
    ∃ c', fetch t opts szx fuel c ⟨[], 0, false, false⟩ = (c', ⟨L, nblocks L.length (2 ^ (szx + 4)), true, false⟩) := by
  have hcpos : 0 < 2 ^ (szx + 4) := Nat.pow_pos (by omega)
  have hnb := nblocks_pos L.length (2 ^ (szx + 4)) hcpos
  cases fuel with
  | zero => omega
  | succ f =>
    unfold fetch
    simp only [Bool.false_eq_true, if_false]
    unfold serve
    simp only [hq, if_true]
    unfold serveFresh
    simp only [hb]
    by_cases hl0 : L.length = 0
    · have hLn : L = [] := List.eq_nil_of_length_eq_zero hl0
      subst hLn
      simp only [List.length_nil, if_true]
      refine ⟨c, ?_⟩
      rw [fetch_done _ _ _ _ _ _ (by simp)]
      simp [nblocks]
    · rw [if_neg hl0]
      simp only [ne_eq, not_true_eq_false, false_and, if_false]
      by_cases hbig : L.length > 2 ^ (szx + 4)
      · rw [if_pos hbig]
        simp only []
        have h1lt : 1 < nblocks L.length (2 ^ (szx + 4)) := by
          apply Nat.lt_of_not_le
          intro hle
          have := (nblocks_le_iff L.length (2 ^ (szx + 4)) 1 hcpos (by omega)).mp hle
          omega
        have hx : (⟨[] ++ L.take (2 ^ (szx + 4)), 0 + 1, !true, false⟩ : XState) = xAfter L (2 ^ (szx + 4)) 1 := by
          rw [xAfter_lt L _ 1 h1lt]; simp
        rw [hx]
        refine ⟨⟨key, L, szx⟩ :: c.eraseP (fun e => keyEq e.key key), ?_⟩
        rw [fetch_cached t opts szx key L _ hq f 1 (by omega) (by omega) (by omega), xAfter_all L _ hcpos]
      · rw [if_neg hbig]
        simp only []
        refine ⟨c.eraseP (fun e => keyEq e.key key), ?_⟩
        rw [fetch_done _ _ _ _ _ _ (by simp)]
        have h1 : nblocks L.length (2 ^ (szx + 4)) = 1 := by
          have := (nblocks_le_iff L.length (2 ^ (szx + 4)) 1 hcpos (by omega)).mpr (by omega)
          omega
        simp [h1]

/-- what the live theorem needs of every request at the moment it arrives -/
def LiveKeyed (fuel : Nat) : Table → List LiveEv → Prop
  | _, [] => True
  | t, .op o :: r => LiveKeyed fuel (applyOp t o) r
  | t, .get _ szx opts :: r =>
    ((∃ k, MU.getQuery opts = R.ok k) ∧ getBody t opts = R.ok (getListing t opts) ∧
      nblocks (getListing t opts).length (2 ^ (szx + 4)) ≤ fuel) ∧ LiveKeyed fuel t r
  | t, .print qf :: r => hndBody t qf = R.ok (listing t (qf.getD [])) ∧ LiveKeyed fuel t r

theorem liveRun_eq_spec (fuel : Nat) (evs : List LiveEv) :
    ∀ (st : LState), LiveKeyed fuel st.table evs → liveRun fuel st evs = liveSpec st.table evs := by
  induction evs with
  | nil => intro st _; rfl
  | cons e r ih =>
    intro st h
    cases e with
    | op o =>
      simp only [liveRun, liveSpec]
      exact ih ⟨applyOp st.table o, st.cache⟩ h
    | get sid szx opts =>
      obtain ⟨⟨⟨k, hk⟩, hb, hf⟩, hr⟩ := h
      obtain ⟨c', hc'⟩ := fetch_all st.table opts szx k _ (st.cache sid) fuel hk hb hf
      simp only [liveRun, liveSpec, hc', specBlocks_eq]
      rw [ih ⟨st.table, upd st.cache sid c'⟩ hr]
    | print qf =>
      obtain ⟨hb, hr⟩ := h
      simp only [liveRun, liveSpec, hb]
      rw [ih st hr]

end Coap.M.LF
