import CoapVerif.Model.Persist
/-
Codec lemmas for the three persistence record formats of `CoapVerif.Model.Persist`:
what the writers emit is read back by the readers.  Core Lean only.
-/
namespace Coap.Persist

/-! ## little-endian integers -/

theorem le_length (k n : Nat) : (le k n).length = k := by
  induction k generalizing n with
  | zero => simp [le]
  | succ k ih => simp [le, ih]

theorem unle_le (k n : Nat) (h : n < 256 ^ k) : unle (le k n) = n := by
  induction k generalizing n with
  | zero =>
    simp at h
    simp [le, unle, h]
  | succ k ih =>
    have h2 : n / 256 < 256 ^ k := by
      rw [Nat.pow_succ] at h
      generalize 256 ^ k = m at h
      omega
    simp only [le, unle, ih _ h2, UInt8.toNat_ofNat']
    omega

/-! ## `rdN` -/

theorem rdN_append (a rest : Bytes) (h : 0 < a.length) :
    rdN a.length (a ++ rest) = some (a, rest) := by
  unfold rdN
  have h1 : ¬ (a.length = 0 ∨ (a ++ rest).length < a.length) := by
    simp only [List.length_append]
    omega
  rw [if_neg h1]
  simp

theorem rdN_append' (n : Nat) (a rest : Bytes) (hn : a.length = n) (h : 0 < n) :
    rdN n (a ++ rest) = some (a, rest) := by
  subst hn
  exact rdN_append a rest h

theorem badLen_false (n : Nat) (h : n ≤ maxLen) : badLen n = false := by
  simp [badLen, maxLen] at *
  omega

theorem unle_le_len (n : Nat) (h : n ≤ maxLen) : unle (le szLen n) = n := by
  apply unle_le
  simp [szLen, maxLen] at *
  omega

theorem rdN_le (k n : Nat) (rest : Bytes) (h : 0 < k) :
    rdN k (le k n ++ rest) = some (le k n, rest) :=
  rdN_append' k _ _ (le_length _ _) h

/-! ## dyn-resource records -/

/-- record well-formedness: what the writer can emit and the reader accepts -/
structure DynRec.WF (r : DynRec) : Prop where
  proto : r.proto < 2 ^ 32
  name_le : r.name.length ≤ maxLen
  pkt_pos : 0 < r.pkt.length
  pkt_le : r.pkt.length ≤ maxLen

theorem rdN0_append (a rest : Bytes) : rdN0 a.length (a ++ rest) = some (a, rest) := by
  unfold rdN0
  by_cases h : a.length = 0
  · have : a = [] := List.eq_nil_of_length_eq_zero h
    subst this; simp
  · rw [if_neg h]; exact rdN_append a rest (by omega)

theorem dynRead_enc (r : DynRec) (rest : Bytes) (h : r.WF) :
    dynRead (encDyn r ++ rest) = ([szProto, szLen] ++ nz r.name.length ++ [szLen, r.pkt.length], some (r, rest)) := by
  have e : encDyn r ++ rest = le szProto r.proto ++ (le szLen r.name.length ++ (r.name ++
      (le szLen r.pkt.length ++ (r.pkt ++ rest)))) := by
    simp [encDyn, List.append_assoc]
  have hp : unle (le szProto r.proto) = r.proto := unle_le _ _ (by simpa [szProto] using h.proto)
  have hszP : 0 < szProto := by decide
  have hszL : 0 < szLen := by decide
  rw [e]
  unfold dynRead
  simp only [rdN_le _ _ _ hszP, rdN_le _ _ _ hszL, unle_le_len _ h.name_le, unle_le_len _ h.pkt_le,
    badLen_false _ h.name_le, badLen_false _ h.pkt_le, rdN0_append, rdN_append _ _ h.pkt_pos, hp]
  simp

/-! ## observe records -/

structure ObsRec.WF (r : ObsRec) : Prop where
  key : r.key < 2 ^ 64
  proto : r.proto < 2 ^ 32
  listen : r.listen.length = szAddr
  tuple : r.tuple.length = szTuple
  pkt_pos : 0 < r.pkt.length
  pkt_le : r.pkt.length ≤ maxLen
  osc : ∀ o, r.osc = some o → 0 < o.length ∧ o.length ≤ maxLen

theorem unle_le_minusOne : unle (le szLen minusOne) = minusOne := by
  apply unle_le
  decide

theorem ne_minusOne_of_le (n : Nat) (h : n ≤ maxLen) : ¬ (n = minusOne) := by
  simp [maxLen, minusOne] at *
  omega

theorem obsRead_enc (r : ObsRec) (rest : Bytes) (h : r.WF) :
    (obsRead (encObs r ++ rest)).2 = some (r, rest) := by
  obtain ⟨key, proto, listen, tuple, pkt, osc⟩ := r
  have hk : unle (le szKey key) = key := unle_le _ _ (by simpa [szKey] using h.key)
  have hp : unle (le szProto proto) = proto := unle_le _ _ (by simpa [szProto] using h.proto)
  have hszK : 0 < szKey := by decide
  have hszP : 0 < szProto := by decide
  have hszL : 0 < szLen := by decide
  have hszA : 0 < szAddr := by decide
  have hszT : 0 < szTuple := by decide
  have hl := h.listen
  have ht := h.tuple
  have hpp := h.pkt_pos
  have hpl := h.pkt_le
  simp only at hl ht hpp hpl
  cases osc with
  | none =>
    have e : encObs ⟨key, proto, listen, tuple, pkt, none⟩ ++ rest =
        le szKey key ++ (le szProto proto ++ (listen ++ (tuple ++ (le szLen pkt.length ++ (pkt ++
          (le szLen minusOne ++ rest)))))) := by
      simp [encObs, obsWrites, List.append_assoc]
    rw [e]
    unfold obsRead
    simp only [rdN_le _ _ _ hszK, rdN_le _ _ _ hszP, rdN_le _ _ _ hszL,
      rdN_append' _ _ _ hl hszA, rdN_append' _ _ _ ht hszT,
      unle_le_len _ hpl, badLen_false _ hpl, rdN_append _ _ hpp, hp, hk, unle_le_minusOne]
    simp
  | some o =>
    have ho := h.osc o rfl
    have e : encObs ⟨key, proto, listen, tuple, pkt, some o⟩ ++ rest =
        le szKey key ++ (le szProto proto ++ (listen ++ (tuple ++ (le szLen pkt.length ++ (pkt ++
          (le szLen o.length ++ (o ++ rest))))))) := by
      simp [encObs, obsWrites, List.append_assoc]
    rw [e]
    unfold obsRead
    simp only [rdN_le _ _ _ hszK, rdN_le _ _ _ hszP, rdN_le _ _ _ hszL,
      rdN_append' _ _ _ hl hszA, rdN_append' _ _ _ ht hszT,
      unle_le_len _ hpl, badLen_false _ hpl, rdN_append _ _ hpp, hp, hk,
      unle_le_len _ ho.2, badLen_false _ ho.2, rdN_append _ _ ho.1, if_neg (ne_minusOne_of_le _ ho.2)]
    simp

/-! ## the counter file -/

structure CntRec.WF (r : CntRec) : Prop where
  clean : ∀ b ∈ r.name, b ≠ 0 ∧ b ≠ 32 ∧ b ≠ 10     -- no NUL, space, newline in the resource name
  len : r.name.length + 13 ≤ cntBuf - 1             -- the line fits fgets' buffer
  val : r.val < 2 ^ 32

theorem isDigit_toNat (b : UInt8) (h : isDigit b = true) : 48 ≤ b.toNat ∧ b.toNat ≤ 57 := by
  simpa [isDigit] using h

theorem isDigit_ne (b c : UInt8) (h : isDigit b = true) (hc : isDigit c = false) : b ≠ c := by
  intro e
  subst e
  rw [h] at hc
  exact Bool.noConfusion hc

theorem isDigit_not_space (b : UInt8) (h : isDigit b = true) : isSpace b = false := by
  have h1 := isDigit_toNat b h
  have h2 : b ≠ 32 := isDigit_ne b 32 h (by decide)
  simp [isSpace, h2]
  omega

theorem isDigit_ofNat (n : Nat) (h : n < 10) : isDigit (UInt8.ofNat (48 + n)) = true := by
  simp [isDigit, UInt8.toNat_ofNat']
  omega

theorem toNat_ofNat_digit (n : Nat) (h : n < 10) : (UInt8.ofNat (48 + n)).toNat - 48 = n := by
  simp [UInt8.toNat_ofNat']
  omega

theorem decF_digit (f n : Nat) : ∀ b ∈ decF f n, isDigit b = true := by
  induction f generalizing n with
  | zero => simp [decF]
  | succ f ih =>
    intro b hb
    unfold decF at hb
    split at hb
    · simp only [List.mem_singleton] at hb
      subst hb
      exact isDigit_ofNat n (by assumption)
    · simp only [List.mem_append, List.mem_singleton] at hb
      rcases hb with hb | hb
      · exact ih _ b hb
      · subst hb
        exact isDigit_ofNat (n % 10) (by omega)

theorem decF_length_le (f n : Nat) : (decF f n).length ≤ f := by
  induction f generalizing n with
  | zero => simp [decF]
  | succ f ih =>
    unfold decF
    split
    · simp
    · have := ih (n / 10)
      simp
      omega

theorem decF_ne_nil (f n : Nat) : decF (f + 1) n ≠ [] := by
  unfold decF
  split <;> simp

theorem atoiGo_digit (acc n : Nat) (h : n < 10) (rest : Bytes) :
    atoiGo acc (UInt8.ofNat (48 + n) :: rest) = atoiGo (acc * 10 + n) rest := by
  simp only [atoiGo, isDigit_ofNat n h, toNat_ofNat_digit n h, if_true]

theorem atoiGo_decF (f n : Nat) (h : n < 10 ^ f) (rest : Bytes) :
    atoiGo 0 (decF f n ++ rest) = atoiGo n rest := by
  induction f generalizing n rest with
  | zero =>
    have : n = 0 := by simpa using h
    subst this
    simp [decF]
  | succ f ih =>
    unfold decF
    split
    · rename_i hlt
      have := atoiGo_digit 0 n hlt rest
      simpa using this
    · have h2 : n / 10 < 10 ^ f := by
        rw [Nat.pow_succ] at h
        generalize 10 ^ f = m at h
        omega
      rw [List.append_assoc, ih _ h2]
      have := atoiGo_digit (n / 10) (n % 10) (by omega) rest
      simp only [List.singleton_append]
      rw [this]
      congr 1
      omega

theorem atoi_of_digit (d : UInt8) (tl : Bytes) (h : isDigit d = true) :
    atoi (d :: tl) = atoiGo 0 (d :: tl) % 2 ^ 32 := by
  unfold atoi
  have e : List.dropWhile isSpace (d :: tl) = d :: tl := by
    simp [isDigit_not_space d h]
  rw [e]
  split
  · rename_i heq
    injection heq with h1 h2
    exact absurd h1 (isDigit_ne d 45 h (by decide))
  · rename_i heq
    injection heq with h1 h2
    exact absurd h1 (isDigit_ne d 43 h (by decide))
  · rfl

theorem atoi_decimal (n : Nat) (h : n < 2 ^ 32) (rest : Bytes) : atoi (decimal n ++ 10 :: rest) = n := by
  unfold decimal
  have hne := decF_ne_nil 9 n
  have hd := decF_digit 10 n
  have hgo := atoiGo_decF 10 n (by omega) (10 :: rest)
  revert hne hd hgo
  generalize decF 10 n = l
  intro hne hd hgo
  cases l with
  | nil => exact absurd rfl hne
  | cons d tl =>
    have hdd : isDigit d = true := hd d (by simp)
    rw [List.cons_append, atoi_of_digit d _ hdd, ← List.cons_append, hgo]
    have : atoiGo n (10 :: rest) = n := by
      simp [atoiGo, isDigit]
    rw [this]
    omega

theorem takeWhile_all {α} (p : α → Bool) (l : List α) (h : ∀ b ∈ l, p b = true) : l.takeWhile p = l := by
  induction l with
  | nil => rfl
  | cons a t ih =>
    have ha : p a = true := h a (by simp)
    rw [List.takeWhile_cons, ha]
    simp only [if_true]
    rw [ih (fun b hb => h b (by simp [hb]))]

theorem takeWhile_stop {α} (p : α → Bool) (l : List α) (x : α) (tl : List α)
    (h : ∀ b ∈ l, p b = true) (hx : p x = false) : (l ++ x :: tl).takeWhile p = l := by
  induction l with
  | nil => simp [hx]
  | cons a t ih =>
    have ha : p a = true := h a (by simp)
    rw [List.cons_append, List.takeWhile_cons, ha]
    simp only [if_true]
    rw [ih (fun b hb => h b (by simp [hb]))]

theorem lineOf_append (n : Nat) (a rest : Bytes) (h : ∀ b ∈ a, b ≠ 10) (hl : a.length + 1 ≤ n) :
    lineOf n (a ++ 10 :: rest) = a ++ [10] := by
  induction a generalizing n with
  | nil =>
    cases n with
    | zero => simp at hl
    | succ n => simp [lineOf]
  | cons b t ih =>
    cases n with
    | zero => simp at hl
    | succ n =>
      have hb : b ≠ 10 := h b (by simp)
      simp only [List.cons_append, lineOf, if_neg hb]
      rw [ih n (fun c hc => h c (by simp [hc])) (by simp at hl; omega)]

theorem cntLine_of_ne_nil (bs : Bytes) (h : bs ≠ []) : cntLine bs =
    (if ((cstr (lineOf (cntBuf - 1) bs)).takeWhile (· ≠ 32)).length = (cstr (lineOf (cntBuf - 1) bs)).length then
      some (none, bs.drop (lineOf (cntBuf - 1) bs).length)
     else some (some ⟨(cstr (lineOf (cntBuf - 1) bs)).takeWhile (· ≠ 32),
        atoi ((cstr (lineOf (cntBuf - 1) bs)).drop (((cstr (lineOf (cntBuf - 1) bs)).takeWhile (· ≠ 32)).length + 1))⟩,
        bs.drop (lineOf (cntBuf - 1) bs).length)) := by
  cases bs with
  | nil => exact absurd rfl h
  | cons b t => rfl

theorem cstr_clean (l : Bytes) (h : ∀ b ∈ l, b ≠ 0) : cstr l = l := by
  unfold cstr
  exact takeWhile_all _ l (fun b hb => by simpa using h b hb)

theorem cntLine_enc (r : CntRec) (rest : Bytes) (h : r.WF) :
    cntLine (encCnt r ++ rest) = some (some r, rest) := by
  obtain ⟨name, val⟩ := r
  have hclean := h.clean
  have hlen := h.len
  have hval := h.val
  simp only at hclean hlen hval
  have hname : cstr name = name := cstr_clean name (fun b hb => (hclean b hb).1)
  have hdig := decF_digit 10 val
  have hdl := decF_length_le 10 val
  have hat := atoi_decimal val hval []
  unfold decimal at hat
  unfold encCnt decimal
  simp only [hname]
  revert hdig hdl hat
  generalize decF 10 val = ds
  intro hdig hdl hat
  -- the line body (without the newline)
  have e1 : name ++ [32] ++ ds ++ [10] ++ rest = (name ++ 32 :: ds) ++ 10 :: rest := by simp
  have hbody10 : ∀ b ∈ name ++ 32 :: ds, b ≠ 10 := by
    intro b hb
    simp only [List.mem_append, List.mem_cons] at hb
    rcases hb with hb | hb | hb
    · exact (hclean b hb).2.2
    · subst hb; decide
    · exact isDigit_ne b 10 (hdig b hb) (by decide)
  have hbody0 : ∀ b ∈ (name ++ 32 :: ds) ++ [10], b ≠ 0 := by
    intro b hb
    simp only [List.mem_append, List.mem_cons] at hb
    rcases hb with (hb | hb | hb) | hb
    · exact (hclean b hb).1
    · subst hb; decide
    · exact isDigit_ne b 0 (hdig b hb) (by decide)
    · rcases hb with hb | hb
      · subst hb; decide
      · exact absurd hb (by simp)
  have hbl : (name ++ 32 :: ds).length + 1 ≤ cntBuf - 1 := by
    simp only [List.length_append, List.length_cons]
    omega
  have hline : lineOf (cntBuf - 1) ((name ++ 32 :: ds) ++ 10 :: rest) = (name ++ 32 :: ds) ++ [10] :=
    lineOf_append _ _ _ hbody10 hbl
  have hne : (name ++ 32 :: ds) ++ 10 :: rest ≠ [] := by simp
  rw [e1, cntLine_of_ne_nil _ hne, hline, cstr_clean _ hbody0]
  have hkey : List.takeWhile (· ≠ 32) ((name ++ 32 :: ds) ++ [10]) = name := by
    rw [List.append_assoc, List.cons_append]
    exact takeWhile_stop _ name 32 _ (fun b hb => by simpa using (hclean b hb).2.1) (by simp)
  have hdrop : List.drop ((name ++ 32 :: ds) ++ [10]).length ((name ++ 32 :: ds) ++ 10 :: rest) = rest := by
    have : (name ++ 32 :: ds) ++ 10 :: rest = ((name ++ 32 :: ds) ++ [10]) ++ rest := by simp
    rw [this]
    exact List.drop_left
  have hdrop2 : List.drop (name.length + 1) ((name ++ 32 :: ds) ++ [10]) = ds ++ [10] := by
    have : (name ++ 32 :: ds) ++ [10] = (name ++ [32]) ++ (ds ++ [10]) := by simp
    rw [this]
    have hl : name.length + 1 = (name ++ [32]).length := by simp
    rw [hl]
    exact List.drop_left
  rw [hkey, hdrop, hdrop2, hat]
  have hneq : ¬ (name.length = ((name ++ 32 :: ds) ++ [10]).length) := by
    simp only [List.length_append, List.length_cons]
    omega
  rw [if_neg hneq]

/-! ## non-vacuity of the well-formedness predicates -/

example : DynRec.WF ⟨1, [97], [80, 3]⟩ := ⟨by decide, by decide, by decide, by decide⟩
example : DynRec.WF ⟨1, [], [80, 3]⟩ := ⟨by decide, by decide, by decide, by decide⟩

example : ObsRec.WF ⟨5, 1, List.replicate 32 0, List.replicate 64 0, [64, 1], none⟩ :=
  ⟨by decide, by decide, by decide, by decide, by decide, by decide, by intro o ho; cases ho⟩

example : ObsRec.WF ⟨5, 1, List.replicate 32 0, List.replicate 64 0, [64, 1], some [7]⟩ :=
  ⟨by decide, by decide, by decide, by decide, by decide, by decide,
   by intro o ho; cases ho; exact ⟨by decide, by decide⟩⟩

example : CntRec.WF ⟨[97, 47, 98], 1234⟩ := ⟨by decide, by decide, by decide⟩

end Coap.Persist
