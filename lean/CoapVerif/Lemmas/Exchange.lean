import CoapVerif.Model.Exchange
/- Helper lemmas for C07 about the message layer of Model/Exchange.lean. -/
namespace Coap.Exch

/-- number of response-handler calls / NACK-handler calls in an output list -/
def nRsp (o : List Out) : Nat := o.countP (fun x => match x with | .callResponse _ _ => true | _ => false)
def nNack (o : List Out) : Nat := o.countP (fun x => match x with | .callNack _ _ => true | _ => false)
/-- transmissions of a given datagram -/
def nTx (d : Dgram) (o : List Out) : Nat := o.countP (fun x => match x with | .tx e => e == d | _ => false)

@[simp] theorem nRsp_nil : nRsp [] = 0 := rfl
@[simp] theorem nNack_nil : nNack [] = 0 := rfl
@[simp] theorem nRsp_append (a b : List Out) : nRsp (a ++ b) = nRsp a + nRsp b := by simp [nRsp, List.countP_append]
@[simp] theorem nNack_append (a b : List Out) : nNack (a ++ b) = nNack a + nNack b := by simp [nNack, List.countP_append]
@[simp] theorem nRsp_cons_tx (d : Dgram) (o : List Out) : nRsp (Out.tx d :: o) = nRsp o := by simp [nRsp]
@[simp] theorem nNack_cons_tx (d : Dgram) (o : List Out) : nNack (Out.tx d :: o) = nNack o := by simp [nNack]
@[simp] theorem nRsp_cons_rsp (d : Dgram) (b : Bool) (o : List Out) : nRsp (Out.callResponse d b :: o) = nRsp o + 1 := by simp [nRsp]
@[simp] theorem nNack_cons_rsp (d : Dgram) (b : Bool) (o : List Out) : nNack (Out.callResponse d b :: o) = nNack o := by simp [nNack]
@[simp] theorem nRsp_cons_nack (r : Nack) (m : Nat) (o : List Out) : nRsp (Out.callNack r m :: o) = nRsp o := by simp [nRsp]
@[simp] theorem nNack_cons_nack (r : Nack) (m : Nat) (o : List Out) : nNack (Out.callNack r m :: o) = nNack o + 1 := by simp [nNack]

theorem isResponse_codeClassOk {c : Nat} (h : isResponse c = true) : codeClassOk c = true := by
  simp only [isResponse, Bool.and_eq_true, decide_eq_true_eq] at h
  have hk : c / 32 = 2 ∨ c / 32 = 3 ∨ c / 32 = 4 ∨ c / 32 = 5 := by omega
  unfold codeClassOk
  rcases hk with h1 | h1 | h1 | h1 <;> simp [h1]

theorem isResponse_not_empty {c : Nat} (h : isResponse c = true) : isEmpty c = false := by
  simp only [isResponse, Bool.and_eq_true, decide_eq_true_eq] at h
  simp [isEmpty]; omega

theorem isResponse_not_request {c : Nat} (h : isResponse c = true) : isRequest c = false := by
  simp only [isResponse, Bool.and_eq_true, decide_eq_true_eq] at h
  simp [isRequest]; omega

namespace Layer

/-- nothing is held back: flushing the delay queue does nothing -/
theorem flush_nil (now fuel : Nat) (L : Layer) (h : L.delayq = []) : flush now fuel L = (L, []) := by
  cases fuel with
  | zero => rfl
  | succ f => simp [flush, h]

theorem flushAll_nil (now : Nat) (L : Layer) (h : L.delayq = []) : flushAll now L = (L, []) := by
  simp [flushAll, flush_nil now _ L h]

theorem release_nil (now : Nat) (L : Layer) (h : L.delayq = []) :
    release now L = ({ L with conActive := L.conActive - 1 }, []) := by
  unfold release
  by_cases hc : L.conActive > 0
  · simp [hc, flushAll_nil now { L with conActive := L.conActive - 1 } h]
  · have h0 : L.conActive = 0 := by omega
    cases L with
    | mk sq dq ca =>
      simp at h0
      simp [h0]

/-- with an empty delay queue, cancelling produces no output, keeps the delay queue empty and leaves no node with
    that token on the send queue (given enough fuel) -/
theorem cancelByToken_nil (now : Nat) (tok : Bytes) :
    ∀ (fuel : Nat) (L : Layer), L.delayq = [] →
      (cancelByToken now tok fuel L).2 = [] ∧ (cancelByToken now tok fuel L).1.delayq = [] ∧
      (∀ n ∈ (cancelByToken now tok fuel L).1.sendq, n ∈ L.sendq) ∧
      (L.sendq.length < fuel → ∀ n ∈ (cancelByToken now tok fuel L).1.sendq, n.d.token ≠ tok) ∧
      ((cancelByToken now tok fuel L).1.conActive ≤ L.conActive) := by
  intro fuel
  induction fuel with
  | zero => intro L h; simp [cancelByToken, h]
  | succ f ih =>
    intro L h
    unfold cancelByToken
    cases hf : L.sendq.find? (fun n => n.d.token == tok) with
    | none =>
      refine ⟨by simp, by simpa using h, by intro n hn; simpa using hn, ?_, by simp⟩
      intro _ n hn
      have := List.find?_eq_none.mp hf n (by simpa using hn)
      simpa using this
    | some q =>
      have hq : q ∈ L.sendq := List.mem_of_find?_eq_some hf
      have hlen : (L.sendq.filter (fun n => n != q)).length < L.sendq.length := by
        have hle := List.length_filter_le (fun n => n != q) L.sendq
        rcases Nat.lt_or_ge (L.sendq.filter (fun n => n != q)).length L.sendq.length with hlt | hge
        · exact hlt
        · have heq : (L.sendq.filter (fun n => n != q)).length = L.sendq.length := by omega
          have hall := List.length_filter_eq_length_iff.mp heq q hq
          simp at hall
      by_cases hcon : q.d.type = .con
      · have hrel := release_nil now { L with sendq := L.sendq.filter (fun n => n != q) } h
        obtain ⟨i1, i2, i3, i4, i5⟩ :=
          ih { sendq := L.sendq.filter (fun n => n != q), delayq := L.delayq, conActive := L.conActive - 1 } h
        simp only [hcon, if_true, hrel]
        refine ⟨by simp [i1], i2, ?_, ?_, ?_⟩
        · intro n hn
          exact (List.mem_filter.mp (i3 n hn)).1
        · intro hfu n hn
          exact i4 (by simp only []; omega) n hn
        · have := i5
          simp only [] at this ⊢
          omega
      · obtain ⟨i1, i2, i3, i4, i5⟩ :=
          ih { sendq := L.sendq.filter (fun n => n != q), delayq := L.delayq, conActive := L.conActive } h
        simp only [hcon, if_false]
        refine ⟨by simp [i1], i2, ?_, ?_, i5⟩
        · intro n hn
          exact (List.mem_filter.mp (i3 n hn)).1
        · intro hfu n hn
          exact i4 (by simp only []; omega) n hn

theorem cancelAll_nil (now : Nat) (tok : Bytes) (L : Layer) (h : L.delayq = []) :
    (cancelAll now tok L).2 = [] ∧ (cancelAll now tok L).1.delayq = [] ∧
    (∀ n ∈ (cancelAll now tok L).1.sendq, n ∈ L.sendq ∧ n.d.token ≠ tok) := by
  obtain ⟨i1, i2, i3, i4, _⟩ := cancelByToken_nil now tok (L.sendq.length + L.delayq.length + 1) L h
  refine ⟨i1, i2, fun n hn => ⟨i3 n hn, i4 (by omega) n hn⟩⟩

end Layer
theorem hr_ack_eq (c : Client) (now : Nat) (d : Dgram) (ok : Bool) (hd : d.type = .ack) :
    c.handleResponse now d ok =
      if c.lastAck = some d.mid then (c, [])
      else ({ c with lastAck := some d.mid, lastResOk := true }, [Out.callResponse d ok]) := by
  unfold Client.handleResponse
  by_cases hdup : c.lastAck = some d.mid
  · cases c; simp_all
  · cases ok <;> simp [hd, hdup, ackFor]

theorem hr_con_eq (c : Client) (now : Nat) (d : Dgram) (ok : Bool) (L1 : Layer)
    (h : Layer.cancelAll now d.token c.L = (L1, [])) (hd : d.type = .con) :
    c.handleResponse now d ok =
      if c.lastCon = some d.mid then ({ c with L := L1 }, if c.lastResOk then ackFor d else rstFor d)
      else ({ c with L := L1, lastCon := some d.mid, lastResOk := ok },
            Out.callResponse d ok :: (if ok then ackFor d else rstFor d)) := by
  unfold Client.handleResponse
  rw [h]
  by_cases hdup : c.lastCon = some d.mid
  · simp [hd, hdup]
  · cases ok <;> simp [hd, hdup]

/-- the layer while the request waits for its ACK, and the idle layer -/
def Wt (n : Node) : Layer := { sendq := [n], delayq := [], conActive := 1 }
def Idle : Layer := { sendq := [], delayq := [], conActive := 0 }

namespace Layer

theorem release_Wt_removed (now : Nat) : release now { sendq := [], delayq := [], conActive := 1 } = (Idle, []) := by
  simp [release, flushAll, flush, Idle]

theorem cancelAll_Idle (now : Nat) (tok : Bytes) : cancelAll now tok Idle = (Idle, []) := by
  simp [cancelAll, cancelByToken, Idle]

theorem cancelAll_Wt (now : Nat) (tok : Bytes) (n : Node) (ht : n.d.token = tok) (hc : n.d.type = .con) :
    cancelAll now tok (Wt n) = (Idle, []) := by
  simp [cancelAll, cancelByToken, Wt, ht, hc, release_Wt_removed, Idle]

theorem tick_Idle (now fuel : Nat) : tick now fuel Idle = (Idle, []) := by
  cases fuel <;> simp [tick, Idle]

theorem tick_Wt (now : Nat) :
    ∀ (fuel : Nat) (n : Node), n.d.type = .con →
      (∃ n', (tick now fuel (Wt n)).1 = Wt n' ∧ n'.d = n.d ∧
             nRsp (tick now fuel (Wt n)).2 = 0 ∧ nNack (tick now fuel (Wt n)).2 = 0) ∨
      ((tick now fuel (Wt n)).1 = Idle ∧ nRsp (tick now fuel (Wt n)).2 = 0 ∧ nNack (tick now fuel (Wt n)).2 = 1) := by
  intro fuel
  induction fuel with
  | zero => intro n _; left; exact ⟨n, by simp [tick]⟩
  | succ f ih =>
    intro n hc
    by_cases hdue : n.due ≤ now
    · by_cases hcnt : n.cnt < maxRetransmit
      · -- retransmission: the node goes back on the queue, one transmission
        have hret : retransmit { sendq := [], delayq := [], conActive := 1 } now n =
            (Wt { n with cnt := n.cnt + 1, due := now + n.timeout * 2 ^ (n.cnt + 1) }, [Out.tx n.d]) := by
          simp [retransmit, hcnt, insertNode, hc, nstart, Wt]
        have hstep : tick now (f + 1) (Wt n) =
            ((tick now f (Wt { n with cnt := n.cnt + 1, due := now + n.timeout * 2 ^ (n.cnt + 1) })).1,
             Out.tx n.d :: (tick now f (Wt { n with cnt := n.cnt + 1, due := now + n.timeout * 2 ^ (n.cnt + 1) })).2) := by
          conv => lhs; unfold tick
          simp only [Wt, hdue, if_true]
          rw [show ({ sendq := [], delayq := [], conActive := 1 } : Layer) = { sendq := [], delayq := [], conActive := 1 } from rfl]
          simp [hret, Wt]
        rw [hstep]
        rcases ih { n with cnt := n.cnt + 1, due := now + n.timeout * 2 ^ (n.cnt + 1) } hc with ⟨n', a1, a2, a5, a6⟩ | ⟨a1, a5, a6⟩
        · left; exact ⟨n', a1, a2, by simp [a5], by simp [a6]⟩
        · right; exact ⟨a1, by simp [a5], by simp [a6]⟩
      · -- give up: NACK
        have hret : retransmit { sendq := [], delayq := [], conActive := 1 } now n =
            (Idle, [Out.callNack .retries n.d.mid]) := by
          simp [retransmit, hcnt, release_Wt_removed, hc]
        have hstep : tick now (f + 1) (Wt n) = (Idle, [Out.callNack .retries n.d.mid]) := by
          conv => lhs; unfold tick
          simp [Wt, hdue, hret, tick_Idle]
        rw [hstep]
        right
        simp
    · left
      refine ⟨n, ?_, rfl, ?_, ?_⟩ <;> simp [tick, Wt, hdue]

end Layer
def emptyAck (mid : Nat) : Dgram := { type := .ack, code := 0, mid := mid, token := [] }

theorem rx_emptyAck_Wt (c : Client) (now : Nat) (ok : Bool) (n : Node) (hL : c.L = Wt n) :
    c.rx now (emptyAck n.d.mid) ok = ({ c with L := Idle }, []) := by
  cases c with
  | mk L lc la lr =>
    simp only at hL; subst hL
    simp [Client.rx, emptyAck, codeClassOk, Wt, Layer.removeByMid, Layer.release_Wt_removed, isEmpty]

theorem rx_emptyAck_Idle (c : Client) (now : Nat) (ok : Bool) (m : Nat) (hL : c.L = Idle) :
    c.rx now (emptyAck m) ok = (c, []) := by
  cases c with
  | mk L lc la lr =>
    simp only at hL; subst hL
    simp [Client.rx, emptyAck, codeClassOk, Idle, Layer.removeByMid, isEmpty]

theorem rx_pb_Wt (c : Client) (now : Nat) (r : Dgram) (ok : Bool) (n : Node) (hL : c.L = Wt n)
    (ht : r.type = .ack) (hr : isResponse r.code = true) (hm : r.mid = n.d.mid) :
    c.rx now r ok = if c.lastAck = some r.mid then ({ c with L := Idle }, [])
                    else ({ c with L := Idle, lastAck := some r.mid, lastResOk := true }, [Out.callResponse r ok]) := by
  have hcc := isResponse_codeClassOk hr
  have hne := isResponse_not_empty hr
  have hnr := isResponse_not_request hr
  cases c with
  | mk L lc la lr =>
    simp only at hL; subst hL
    unfold Client.rx
    simp only [hcc, ht, Bool.not_true, Wt, Layer.removeByMid, hm, if_true, Option.isSome_some, Layer.release_Wt_removed,
      hne, hnr, hr]
    rw [hr_ack_eq _ now r ok ht]
    by_cases hd : la = some n.d.mid <;> simp [hd, hm]

theorem rx_pb_Idle (c : Client) (now : Nat) (r : Dgram) (ok : Bool) (hL : c.L = Idle)
    (ht : r.type = .ack) (hr : isResponse r.code = true) :
    c.rx now r ok = if c.lastAck = some r.mid then (c, [])
                    else ({ c with lastAck := some r.mid, lastResOk := true }, [Out.callResponse r ok]) := by
  have hcc := isResponse_codeClassOk hr
  have hne := isResponse_not_empty hr
  have hnr := isResponse_not_request hr
  cases c with
  | mk L lc la lr =>
    simp only at hL; subst hL
    unfold Client.rx
    simp only [hcc, ht, Bool.not_true, Idle, Layer.removeByMid, Option.isSome_none, hne, hnr, hr]
    rw [hr_ack_eq _ now r ok ht]
    by_cases hd : la = some r.mid <;> simp [hd]

theorem rx_con_Wt (c : Client) (now : Nat) (r : Dgram) (ok : Bool) (n : Node) (hL : c.L = Wt n)
    (ht : r.type = .con) (hr : isResponse r.code = true) (htok : n.d.token = r.token) (hc : n.d.type = .con) :
    c.rx now r ok =
      if c.lastCon = some r.mid then ({ c with L := Idle }, if c.lastResOk then ackFor r else rstFor r)
      else ({ c with L := Idle, lastCon := some r.mid, lastResOk := ok },
            Out.callResponse r ok :: (if ok then ackFor r else rstFor r)) := by
  have hcc := isResponse_codeClassOk hr
  have hca : Layer.cancelAll now r.token c.L = (Idle, []) := by rw [hL]; exact Layer.cancelAll_Wt now r.token n htok hc
  unfold Client.rx
  simp only [hcc, ht, hr, Bool.not_true]
  simp only [Bool.false_eq_true, if_false, if_true]
  exact hr_con_eq c now r ok Idle hca ht

theorem rx_con_Idle (c : Client) (now : Nat) (r : Dgram) (ok : Bool) (hL : c.L = Idle)
    (ht : r.type = .con) (hr : isResponse r.code = true) :
    c.rx now r ok =
      if c.lastCon = some r.mid then ({ c with L := Idle }, if c.lastResOk then ackFor r else rstFor r)
      else ({ c with L := Idle, lastCon := some r.mid, lastResOk := ok },
            Out.callResponse r ok :: (if ok then ackFor r else rstFor r)) := by
  have hcc := isResponse_codeClassOk hr
  have hca : Layer.cancelAll now r.token c.L = (Idle, []) := by rw [hL]; exact Layer.cancelAll_Idle now r.token
  unfold Client.rx
  simp only [hcc, ht, hr, Bool.not_true]
  simp only [Bool.false_eq_true, if_false, if_true]
  exact hr_con_eq c now r ok Idle hca ht

theorem appSend_Idle (c : Client) (now : Nat) (req : Dgram) (T : Nat) (hL : c.L = Idle) (hc : req.type = .con) :
    c.appSend now req T = ({ c with L := Wt { d := req, timeout := T, cnt := 0, due := now + T * 2 ^ 0 } }, [Out.tx req]) := by
  cases c with
  | mk L lc la lr =>
    simp only at hL; subst hL
    simp [Client.appSend, Layer.send, hc, Idle, nstart, Layer.waitAck, Layer.insertNode, Wt]

end Coap.Exch
