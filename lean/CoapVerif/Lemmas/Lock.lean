import CoapVerif.Model.Lock
/-
Helper lemmas for C13: the invariant of the interleaving semantics of CoapVerif/Model/Lock.lean.

Idea.  Each thread's call stack determines, by `interp`, what that thread believes about the lock
(`A`: does it hold the mutex, `in_callback`, `lock_count`).  The invariant says that `global_lock`, seen through
`view t`, is exactly that belief for every thread `t` simultaneously; since `view` can say "holds" for at most one
thread, mutual exclusion, balance, re-entrancy and deadlock freedom all follow.
-/
namespace Coap.Lock

/-- a thread's view of the lock -/
structure A where
  h : Bool      -- holds the mutex
  k : Nat       -- in_callback
  c : Nat       -- lock_count
  deriving DecidableEq, Repr

def A.zero : A := ⟨false, 0, 0⟩

/-- the abstract effect of coap_lock_lock_func on the caller's view -/
def lockA (a : A) : A := if a.k ≠ 0 then ⟨true, a.k, a.c + 1⟩ else ⟨true, 0, 0⟩
/-- the abstract effect of coap_lock_unlock_func on the caller's view -/
def unlockA (a : A) : A := if a.k ≠ 0 then ⟨true, a.k, a.c - 1⟩ else A.zero

def pushA : Frame → A → A
  | .api, a => lockA a
  | .cb k, a => if k.releases then unlockA a else ⟨a.h, a.k + 1, a.c⟩

def interp : List Frame → A
  | [] => A.zero
  | f :: st => pushA f (interp st)

def view (t : Tid) (g : G) : A := if g.owner = some t then ⟨true, g.inCb, g.cnt⟩ else A.zero

def isApiTop : List Frame → Bool
  | .api :: _ => true
  | _ => false

/-- frames alternate: an API frame sits on the top level or on a callback frame, a callback frame on an API frame -/
def okStack : List Frame → Bool
  | [] => true
  | .api :: st => !isApiTop st && okStack st
  | .cb _ :: st => isApiTop st && okStack st

/-- view of a thread that is executing library code -/
def goodLib (a : A) : Prop := a.h = true ∧ (a.k = 0 → a.c = 0) ∧ (a.k ≠ 0 → a.c = a.k)
/-- view of a thread that is executing application code -/
def goodApp (a : A) : Prop := (a.k = 0 → a.c = 0 ∧ a.h = false) ∧ (a.k ≠ 0 → a.h = true ∧ a.c + 1 = a.k)

theorem lockA_good {a : A} (h : goodApp a) : goodLib (lockA a) := by
  obtain ⟨h0, h1⟩ := h
  unfold lockA goodLib
  by_cases hk : a.k = 0
  · simp [hk]
  · simp [hk]; exact (h1 hk).2

theorem unlockA_good {a : A} (h : goodLib a) : goodApp (unlockA a) := by
  obtain ⟨hh, h0, h1⟩ := h
  unfold unlockA goodApp A.zero
  by_cases hk : a.k = 0
  · simp [hk]
  · have := h1 hk
    simp [hk]; omega

theorem keepA_good {a : A} (h : goodLib a) : goodApp ⟨a.h, a.k + 1, a.c⟩ := by
  obtain ⟨hh, h0, h1⟩ := h
  unfold goodApp
  refine ⟨by simp, fun _ => ⟨hh, ?_⟩⟩
  by_cases hk : a.k = 0
  · simp [hk, h0 hk]
  · simp [h1 hk]

theorem unlockA_lockA {a : A} (h : goodApp a) : unlockA (lockA a) = a := by
  obtain ⟨h0, h1⟩ := h
  obtain ⟨ah, ak, ac⟩ := a
  unfold unlockA lockA A.zero
  by_cases hk : ak = 0
  · have := h0 hk; simp at this; simp [hk, this]
  · have := h1 hk; simp at this; simp [hk, this]; omega

theorem lockA_unlockA {a : A} (h : goodLib a) : lockA (unlockA a) = a := by
  obtain ⟨hh, h0, h1⟩ := h
  obtain ⟨ah, ak, ac⟩ := a
  unfold unlockA lockA A.zero
  simp at hh h0 h1
  by_cases hk : ak = 0
  · simp [hk, hh, h0 hk]
  · have := h1 hk; simp [hk, hh]; omega

theorem interp_good : ∀ st : List Frame, okStack st = true →
    (isApiTop st = true → goodLib (interp st)) ∧ (isApiTop st = false → goodApp (interp st)) ∧
    (interp st).k ≤ st.length
  | [], _ => by simp [isApiTop, interp, goodApp, A.zero]
  | .api :: st, h => by
    simp [okStack] at h
    have ih := interp_good st h.2
    have ga := ih.2.1 h.1
    refine ⟨fun _ => lockA_good ga, by simp [isApiTop], ?_⟩
    have := ih.2.2
    simp only [interp, pushA, lockA, List.length_cons]
    split <;> simp <;> omega
  | .cb k :: st, h => by
    simp [okStack] at h
    have ih := interp_good st h.2
    have gl := ih.1 h.1
    refine ⟨by simp [isApiTop], fun _ => ?_, ?_⟩
    · simp only [interp, pushA]
      split
      · exact unlockA_good gl
      · exact keepA_good gl
    · have := ih.2.2
      simp only [interp, pushA, unlockA, A.zero, List.length_cons]
      split
      · split <;> simp <;> omega
      · simp; omega

/-- consistency of `global_lock` with its mutex -/
structure Cons (g : G) : Prop where
  nofault : g.fault = false
  free : g.owner = none → g.pid = 0 ∧ g.inCb = 0 ∧ g.cnt = 0
  own : ∀ t, g.owner = some t → g.pid = selfPid t

theorem cons_init : Cons G.init := ⟨rfl, fun _ => ⟨rfl, rfl, rfl⟩, fun _ h => by simp [G.init] at h⟩

/-- under `Cons` the two variants of coap_lock_lock_func agree -/
theorem lockFunc_rc_eq {g : G} (hc : Cons g) (t : Tid) : lockFunc true t g = lockFunc false t g := by
  obtain ⟨owner, pid, inCb, cnt, fault⟩ := g
  obtain ⟨hf, hfree, hown⟩ := hc
  simp only at hf hfree hown
  cases owner with
  | none =>
    have := hfree rfl
    simp [lockFunc, this.2.1]
  | some u =>
    have hp := hown u rfl
    subst hp
    by_cases hu : t = u
    · subst hu; by_cases hk : inCb = 0 <;> simp [lockFunc, hk]
    · simp [lockFunc, selfPid, hu]

/-- coap_lock_lock_func, when it returns, has the abstract effect `lockA`; it returns only when the mutex was free
or the caller held it -/
theorem lock_sim {rc : Bool} {t : Tid} {g g' : G} (hc : Cons g) (ha : goodApp (view t g))
    (hk : (view t g).k < maxDepth) (hs : lockFunc rc t g = some g') :
    Cons g' ∧ view t g' = lockA (view t g) ∧ (g.owner = none ∨ g.owner = some t) ∧ g'.owner = some t := by
  have hs' : lockFunc false t g = some g' := by
    cases rc
    · exact hs
    · rw [← lockFunc_rc_eq hc]; exact hs
  clear hs
  obtain ⟨owner, pid, inCb, cnt, fault⟩ := g
  obtain ⟨hf, hfree, hown⟩ := hc
  simp only at hf hfree hown
  subst hf
  cases owner with
  | none =>
    obtain ⟨h1, h2, h3⟩ := hfree rfl
    subst h1 h2 h3
    simp [lockFunc, G.assert] at hs'
    subst hs'
    refine ⟨⟨rfl, by simp, by simp⟩, by simp [view, lockA, A.zero], by simp, rfl⟩
  | some u =>
    have hp := hown u rfl
    subst hp
    by_cases hu : u = t
    · subst hu
      simp only [view, if_true] at ha hk
      obtain ⟨ha0, ha1⟩ := ha
      simp only at ha0 ha1 hk
      by_cases hk0 : inCb = 0
      · simp [lockFunc, hk0] at hs'
      · have hci := (ha1 hk0).2
        subst hci
        have hlt : cnt + 1 < 4294967296 := by unfold maxDepth at hk; omega
        simp [lockFunc, G.assert, u32, Nat.mod_eq_of_lt hlt] at hs'
        subst hs'
        exact ⟨⟨rfl, by simp, by simp⟩, by simp [view, lockA], by simp, rfl⟩
    · simp [lockFunc, selfPid] at hs'
      exact absurd hs'.1.2.symm hu

/-- coap_lock_unlock_func by a thread executing library code has the abstract effect `unlockA` -/
theorem unlock_sim {t : Tid} {g : G} (hc : Cons g) (ha : goodLib (view t g)) (hkb : (view t g).k ≤ maxDepth) :
    Cons (unlockFunc t g) ∧ view t (unlockFunc t g) = unlockA (view t g) ∧ g.owner = some t ∧
    ((unlockFunc t g).owner = none ∨ (unlockFunc t g).owner = some t) := by
  obtain ⟨owner, pid, inCb, cnt, fault⟩ := g
  obtain ⟨hf, hfree, hown⟩ := hc
  simp only at hf hfree hown
  subst hf
  have ho : owner = some t := by
    by_cases ho : owner = some t
    · exact ho
    · simp [view, ho, goodLib, A.zero] at ha
  subst ho
  have hp := hown t rfl
  subst hp
  simp only [view, if_true] at ha hkb
  obtain ⟨_, h0, h1⟩ := ha
  simp only at h0 h1 hkb
  by_cases hk : inCb = 0
  · subst hk
    have hc0 := h0 rfl
    subst hc0
    simp [unlockFunc, G.assert, mutexUnlock, view, unlockA, A.zero]
    exact ⟨rfl, by simp, by simp⟩
  · have hc' : cnt = inCb := h1 hk
    subst hc'
    have hpos : 0 < cnt := Nat.pos_of_ne_zero hk
    have hm : (cnt + 4294967295) % 4294967296 = cnt - 1 := by unfold maxDepth at hkb; omega
    simp [unlockFunc, G.assert, hk, hpos, view, unlockA, u32, hm]
    exact ⟨rfl, by simp, by simp⟩

theorem view_holds {t : Tid} {g : G} (h : (view t g).h = true) : g.owner = some t := by
  by_cases ho : g.owner = some t
  · exact ho
  · simp [view, ho, A.zero] at h

theorem checkLocked_id {t : Tid} {g : G} (hc : Cons g) (ho : g.owner = some t) : checkLocked t g = g := by
  have := hc.own t ho
  simp [checkLocked, G.assert, this]

/-- `global_lock.in_callback++` of coap_lock_callback / coap_lock_callback_ret -/
theorem keepIn_sim {t : Tid} {g : G} (k : Cb) (hr : k.releases = false) (hc : Cons g) (ha : goodLib (view t g))
    (hkb : (view t g).k < maxDepth) :
    Cons (cbBefore t k g) ∧ view t (cbBefore t k g) = ⟨(view t g).h, (view t g).k + 1, (view t g).c⟩ ∧
    g.owner = some t ∧ (cbBefore t k g).owner = some t := by
  have ho := view_holds ha.1
  have hcl := checkLocked_id hc ho
  have hv : view t g = ⟨true, g.inCb, g.cnt⟩ := by simp [view, ho]
  rw [hv] at hkb
  simp only at hkb
  have hm : (g.inCb + 1) % 4294967296 = g.inCb + 1 := by unfold maxDepth at hkb; omega
  have : cbBefore t k g = { g with inCb := g.inCb + 1 } := by
    cases k <;> simp [Cb.releases] at hr <;> simp [cbBefore, hcl, u32, hm]
  rw [this, hv]
  refine ⟨⟨hc.nofault, ?_, hc.own⟩, by simp [view, ho], ho, ho⟩
  intro h; simp [ho] at h

/-- `global_lock.in_callback--` of coap_lock_callback / coap_lock_callback_ret -/
theorem keepOut_sim {rc : Bool} {t : Tid} {g g' : G} (k : Cb) (hr : k.releases = false) (hc : Cons g)
    (a1 : A) (hv : view t g = ⟨true, a1.k + 1, a1.c⟩) (hkb : a1.k + 1 ≤ maxDepth)
    (hs : cbAfter rc t k g = some g') :
    Cons g' ∧ view t g' = ⟨true, a1.k, a1.c⟩ ∧ g.owner = some t ∧ g'.owner = some t := by
  have ho : g.owner = some t := view_holds (by rw [hv])
  simp [view, ho] at hv
  have hm : (g.inCb + 4294967295) % 4294967296 = a1.k := by unfold maxDepth at hkb; omega
  have : g' = { g with inCb := a1.k } := by
    cases k <;> simp [Cb.releases] at hr <;> simp [cbAfter, u32, hm] at hs <;> exact hs.symm
  subst this
  refine ⟨⟨hc.nofault, ?_, hc.own⟩, by simp [view, ho, hv.2], ho, ho⟩
  intro h; simp [ho] at h

/-- what the invariant says about one thread -/
structure TInv (t : Tid) (g : G) (st : List Frame) (p : List Tok) : Prop where
  ok : okStack st = true
  len : st.length ≤ maxDepth
  wn : wn st p = true
  view : view t g = interp st

/-- **the simulation step**: an enabled token of thread `t` keeps `global_lock` consistent, keeps `t`'s part of the
invariant, and — unless it is a repeated coap_startup(), which leaves `global_lock` exactly as it is — can only happen
when the mutex is free or held by `t` (and leaves it free or held by `t`) -/
theorem tok_sim {rc : Bool} {t : Tid} {tok : Tok} {rest : List Tok} {g g' : G} {st : List Frame}
    (hc : Cons g) (hi : TInv t g st (tok :: rest)) (hs : tokStep rc t tok g = some g') :
    Cons g' ∧ TInv t g' (stackStep tok st) rest ∧
    ((tok = .startup ∧ g' = g) ∨
     ((g.owner = none ∨ g.owner = some t) ∧ (g'.owner = none ∨ g'.owner = some t))) := by
  obtain ⟨hok, hlen, hwn, hview⟩ := hi
  have hgood := interp_good st hok
  cases tok with
  | lock =>
    have hna : isApiTop st = false ∧ st.length < maxDepth ∧ Lock.wn (.api :: st) rest = true := by
      match st, hwn with
      | [], h => simp [Lock.wn] at h; simp [isApiTop, maxDepth, h]
      | .cb k :: st0, h => simp [Lock.wn] at h; simp [isApiTop, h]
      | .api :: st0, h => simp [Lock.wn] at h
    have ga := hgood.2.1 hna.1
    rw [← hview] at ga
    have hk : (view t g).k < maxDepth := by rw [hview]; have := hgood.2.2; omega
    obtain ⟨c', v', o, o'⟩ := lock_sim hc ga hk hs
    refine ⟨c', ⟨?_, ?_, hna.2.2, ?_⟩, Or.inr ⟨o, Or.inr o'⟩⟩
    · simp [stackStep, okStack, hna.1, hok]
    · simp [stackStep]; omega
    · rw [v', hview]; rfl
  | unlock =>
    match st, hwn, hok, hlen, hview, hgood with
    | .api :: st0, h, hok, hlen, hview, hgood =>
      simp [Lock.wn] at h
      simp [okStack] at hok
      have gl := hgood.1 rfl
      rw [← hview] at gl
      have hk : (view t g).k ≤ maxDepth := by rw [hview]; have := hgood.2.2; omega
      simp only [tokStep, Option.some.injEq] at hs
      subst hs
      obtain ⟨c', v', o, o'⟩ := unlock_sim hc gl hk
      have g0 := (interp_good st0 hok.2).2.1 hok.1
      refine ⟨c', ⟨hok.2, ?_, h, ?_⟩, Or.inr ⟨Or.inr o, o'⟩⟩
      · simp [stackStep] at hlen ⊢; omega
      · rw [v', hview]; exact unlockA_lockA g0
    | [], h, _, _, _, _ => simp [Lock.wn] at h
    | .cb _ :: _, h, _, _, _, _ => simp [Lock.wn] at h
  | cbIn k =>
    match st, hwn, hok, hlen, hview, hgood with
    | .api :: st0, h, hok, hlen, hview, hgood =>
      simp [Lock.wn] at h
      have gl := hgood.1 rfl
      rw [← hview] at gl
      have hkl : (view t g).k < maxDepth := by
        rw [hview]; have := hgood.2.2; simp at this; omega
      simp only [tokStep, Option.some.injEq] at hs
      subst hs
      have hok' : okStack (stackStep (.cbIn k) (.api :: st0)) = true := by
        simp [stackStep, okStack, isApiTop] at hok ⊢; exact hok
      have hlen' : (stackStep (.cbIn k) (.api :: st0)).length ≤ maxDepth := by
        simp [stackStep]; omega
      by_cases hr : k.releases = true
      · have ho := view_holds gl.1
        have hcb : cbBefore t k g = unlockFunc t g := by
          cases k <;> simp [Cb.releases] at hr <;> simp [cbBefore, checkLocked_id hc ho]
        rw [hcb]
        obtain ⟨c', v', o, o'⟩ := unlock_sim hc gl (Nat.le_of_lt hkl)
        refine ⟨c', ⟨hok', hlen', h.2, ?_⟩, Or.inr ⟨Or.inr o, o'⟩⟩
        rw [v', hview]; simp [stackStep, interp, pushA, hr]
      · have hr' : k.releases = false := by simpa using hr
        obtain ⟨c', v', o, o'⟩ := keepIn_sim k hr' hc gl hkl
        refine ⟨c', ⟨hok', hlen', h.2, ?_⟩, Or.inr ⟨Or.inr o, Or.inr o'⟩⟩
        rw [v', hview]; simp [stackStep, interp, pushA, hr']
    | [], h, _, _, _, _ => simp [Lock.wn] at h
    | .cb _ :: _, h, _, _, _, _ => simp [Lock.wn] at h
  | cbOut k' =>
    match st, hwn, hok, hlen, hview, hgood with
    | .cb k :: st0, h, hok, hlen, hview, hgood =>
      simp [Lock.wn] at h
      obtain ⟨hkk, hwn0⟩ := h
      subst hkk
      simp [okStack] at hok
      have ig0 := interp_good st0 hok.2
      have gl1 := ig0.1 hok.1
      have hlen0 : st0.length + 1 ≤ maxDepth := by simpa using hlen
      by_cases hr : k.releases = true
      · have hv : view t g = unlockA (interp st0) := by rw [hview]; simp [interp, pushA, hr]
        have ga : goodApp (view t g) := by rw [hv]; exact unlockA_good gl1
        have hk : (view t g).k < maxDepth := by
          rw [hv]; have := ig0.2.2
          unfold unlockA A.zero; split <;> simp <;> omega
        have hs' : lockFunc rc t g = some g' := by
          cases k <;> simp [Cb.releases] at hr <;> simpa [tokStep, cbAfter] using hs
        obtain ⟨c', v', o, o'⟩ := lock_sim hc ga hk hs'
        refine ⟨c', ⟨hok.2, by simp [stackStep]; omega, hwn0, ?_⟩, Or.inr ⟨o, Or.inr o'⟩⟩
        rw [v', hv]; exact lockA_unlockA gl1
      · have hr' : k.releases = false := by simpa using hr
        have hv : view t g = ⟨true, (interp st0).k + 1, (interp st0).c⟩ := by
          rw [hview]; simp [interp, pushA, hr', gl1.1]
        have hkb : (interp st0).k + 1 ≤ maxDepth := by have := ig0.2.2; omega
        obtain ⟨c', v', o, o'⟩ := keepOut_sim k hr' hc (interp st0) hv hkb (by simpa [tokStep] using hs)
        refine ⟨c', ⟨hok.2, by simp [stackStep]; omega, hwn0, ?_⟩, Or.inr ⟨Or.inr o, Or.inr o'⟩⟩
        rw [v']; simp [stackStep]
        have := gl1.1
        cases hh : interp st0; simp [hh] at this; simp [this]
    | [], h, _, _, _, _ => simp [Lock.wn] at h
    | .api :: _, h, _, _, _, _ => simp [Lock.wn] at h
  | startup =>
    -- A2: coap_started = 1, the call returns at its guard
    simp only [tokStep, startupFunc, if_true, Option.some.injEq] at hs
    subst hs
    have hwn' : Lock.wn st rest = true := by
      match st, hwn with
      | [], h => simpa [Lock.wn] using h
      | .cb k :: st0, h => simpa [Lock.wn] using h
      | .api :: st0, h => simp [Lock.wn] at h
    exact ⟨hc, ⟨hok, hlen, hwn', hview⟩, Or.inl ⟨rfl, rfl⟩⟩

/-- the invariant of the interleaving semantics -/
structure Inv (s : Sys) : Prop where
  cons : Cons s.g
  thr : ∀ t, TInv t s.g (s.thr t).stack (s.thr t).prog

theorem inv_init {progs : Tid → List Tok} (h : ∀ t, wn [] (progs t) = true) : Inv (Sys.init progs) :=
  ⟨cons_init, fun t => ⟨rfl, by simp [Sys.init], h t, by simp [Sys.init, view, G.init, interp]⟩⟩

theorem view_other {t u : Tid} {g : G} (h : g.owner = none ∨ g.owner = some t) (hu : u ≠ t) : view u g = A.zero := by
  rcases h with h | h <;> simp [view, h]
  intro e; exact absurd e.symm hu

theorem inv_step {rc : Bool} {s s' : Sys} (hi : Inv s) (hs : Step rc s s') : Inv s' := by
  cases hs with
  | mk t tok rest g' hp hs =>
    have ht := hi.thr t
    rw [hp] at ht
    obtain ⟨c', ti', ho⟩ := tok_sim hi.cons ht hs
    refine ⟨c', fun u => ?_⟩
    by_cases hu : u = t
    · subst hu; simpa [Sys.upd] using ti'
    · have hv := hi.thr u
      simp only [Sys.upd, hu, if_false]
      rcases ho with ⟨_, hg⟩ | ⟨o, o'⟩
      · exact ⟨hv.ok, hv.len, hv.wn, by rw [hg]; exact hv.view⟩
      · exact ⟨hv.ok, hv.len, hv.wn, by rw [view_other o' hu, ← hv.view, view_other o hu]⟩

theorem inv_reach {rc : Bool} {progs : Tid → List Tok} (h : ∀ t, wn [] (progs t) = true) {s : Sys}
    (hr : Reach rc progs s) : Inv s := by
  induction hr with
  | init => exact inv_init h
  | step _ hs ih => exact inv_step ih hs

/-- a thread in application code (top level or callback) is refused by coap_lock_lock_func exactly when another
thread holds the mutex -/
theorem lock_blocks_iff {rc : Bool} {t : Tid} {g : G} (hc : Cons g) (ha : goodApp (view t g)) :
    lockFunc rc t g = none ↔ ∃ u, u ≠ t ∧ g.owner = some u := by
  have hrc : lockFunc rc t g = lockFunc false t g := by
    cases rc
    · rfl
    · exact lockFunc_rc_eq hc t
  rw [hrc]
  obtain ⟨owner, pid, inCb, cnt, fault⟩ := g
  obtain ⟨hf, hfree, hown⟩ := hc
  simp only at hf hfree hown
  cases owner with
  | none => simp [lockFunc]; split <;> simp
  | some u =>
    have hp := hown u rfl
    subst hp
    by_cases hu : u = t
    · subst hu
      simp only [view, if_true] at ha
      have hk : inCb ≠ 0 := by
        intro h0; have := (ha.1 h0).2; simp at this
      simp [lockFunc, hk]
    · have hne : ¬ t = u := fun e => hu e.symm
      simp [lockFunc, selfPid, hne, hu]

/-- the view of a thread standing in front of a token that may block is an application-code view -/
theorem app_view_of_blocking {t : Tid} {g : G} {st : List Frame} {tok : Tok} {rest : List Tok}
    (hi : TInv t g st (tok :: rest)) (hb : tok = .lock ∨ ∃ k, tok = .cbOut k) : goodApp (view t g) := by
  have hg := interp_good st hi.ok
  rw [hi.view]
  apply hg.2.1
  have hwn := hi.wn
  rcases hb with rfl | ⟨k, rfl⟩
  · match st, hwn with
    | [], _ => rfl
    | .cb _ :: _, _ => rfl
    | .api :: _, h => simp [Lock.wn] at h
  · match st, hwn with
    | [], h => simp [Lock.wn] at h
    | .cb _ :: _, _ => rfl
    | .api :: _, h => simp [Lock.wn] at h

/-- only coap_lock_lock_func blocks -/
theorem blocking_tok {rc : Bool} {t : Tid} {tok : Tok} {g : G} (h : tokStep rc t tok g = none) :
    (tok = .lock ∨ ∃ k, tok = .cbOut k) ∧ lockFunc rc t g = none := by
  cases tok with
  | lock => exact ⟨Or.inl rfl, h⟩
  | unlock => simp [tokStep] at h
  | cbIn k => simp [tokStep] at h
  | startup => simp [tokStep] at h
  | cbOut k =>
    refine ⟨Or.inr ⟨k, rfl⟩, ?_⟩
    cases k <;> simp [tokStep, cbAfter] at h <;> exact h

theorem wn_nonempty {f : Frame} {st : List Frame} {p : List Tok} (h : wn (f :: st) p = true) : p ≠ [] := by
  intro e; subst e; simp [wn] at h

end Coap.Lock
