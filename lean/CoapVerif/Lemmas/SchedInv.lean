import CoapVerif.Lemmas.TimerSim
import CoapVerif.Lemmas.PduFixed
/-
Helper definitions and lemmas for C06, part 3: the retransmission schedule proved DIRECTLY on the code model M as an
invariant, for the whole C06 alphabet INCLUDING the NSTART gate: a Confirmable submitted while the session has no
NSTART room waits in the delay queue and is first transmitted when an outcome of another message releases the slot
(`coap_session_connected` → drain), possibly in the middle of the due loop — the case the exact simulation by S
(`Coap.Sim.step_sim`) has to exclude.  Core Lean only.
-/
namespace Coap.Sched
open Coap Coap.SQ Coap.Msg Coap.Timer Coap.Sim
open Coap.Spec.SQ (sched)

/-- a node waiting in the delay queue of session `s`: a Confirmable as `coap_send` built it — never transmitted yet -/
def DNodeOk (par : Nat → Sess) (P : Nat → Nat → Nat → Prop) (s : Nat) (n : Node) : Prop :=
  n.con = true ∧ n.tok = n.mid ∧ 0 < n.timeout ∧ n.timeout < 4294967296 ∧ n.cnt = 0 ∧
  n.timeout * 2 ^ (par s).maxRtx < 2 ^ 64 ∧ P s n.mid n.timeout

/-- every session is `par s` up to `con_active` (which respects NSTART) and its delay queue (Confirmables not yet sent) -/
def GSess (par : Nat → Sess) (P : Nat → Nat → Nat → Prop) (l : L) : Prop :=
  ∀ s, ∃ ca dq, l.getS s = { par s with conActive := ca, delayq := dq } ∧ ca ≤ (par s).nstart ∧
    ∀ n ∈ dq, DNodeOk par P s n

/-- the sessions of the scope: established, socket open, NSTART ≥ 1, MAX_RETRANSMIT < 256 -/
def GPar (par : Nat → Sess) : Prop :=
  ∀ s, (par s).est = true ∧ (par s).sockOpen = true ∧ 1 ≤ (par s).nstart ∧ (par s).maxRtx < 256

/-- a pending entry is armed for the next slot of the schedule that started with its first transmission, and all its
transmissions so far (numbers 0 … cnt) have been made, each at its slot -/
def PendOk (pu : Prop) (out : List Out) (p : Nat × PMsg) : Prop :=
  pu → ∃ t0, (∀ j, j ≤ p.2.cnt → Out.tx (sched t0 p.2.T j) p.2.sess p.2.mid j true ∈ out) ∧
    p.1 = sched t0 p.2.T (p.2.cnt + 1)

/-- every transmission so far is on the schedule of its message; every TOO_MANY_RETRIES NACK so far came exactly one
slot after the last of ALL `MAX_RETRANSMIT + 1` transmissions of its message, each made at its slot -/
def OutOk (pu : Prop) (par : Nat → Sess) (P : Nat → Nat → Nat → Prop) (out : List Out) : Prop :=
  pu → (∀ t s mid k, Out.tx t s mid k true ∈ out →
    ∃ t0 T, Out.tx t0 s mid 0 true ∈ out ∧ t = sched t0 T k ∧ k ≤ (par s).maxRtx ∧ P s mid T) ∧
  (∀ t s mid, Out.nack t s .retries mid true ∈ out →
    ∃ t0 T, (∀ j, j ≤ (par s).maxRtx → Out.tx (sched t0 T j) s mid j true ∈ out) ∧
      t = sched t0 T ((par s).maxRtx + 1) ∧ P s mid T)

/-- an output that is neither the transmission of a Confirmable nor a TOO_MANY_RETRIES NACK -/
def Plain (o : Out) : Prop :=
  (∀ t s mid k, o ≠ .tx t s mid k true) ∧ (∀ t s mid, o ≠ .nack t s .retries mid true)

structure FInv (pu : Prop) (par : Nat → Sess) (P : Nat → Nat → Nat → Prop) (l : L) : Prop where
  base : l.q.base ≤ l.now
  sess : GSess par P l
  nodes : ∀ n ∈ l.q.nodes, NodeOk par P n
  pend : ∀ p ∈ absP (mxOf par) l.q.base l.q.nodes, PendOk pu l.out p
  outs : OutOk pu par P l.out

/-- the clock has not passed a pending deadline -/
def Fut (pu : Prop) (l : L) : Prop := pu → ∀ e ∈ abs l.q, l.now ≤ e.deadline

theorem fut_iff (pu : Prop) (mx : Nat → Nat) (l : L) :
    Fut pu l ↔ (pu → ∀ p ∈ absP mx l.q.base l.q.nodes, l.now ≤ p.1) := by
  unfold Fut abs
  have h := absP_fst mx l.q.base l.q.nodes
  constructor
  · intro hf' hpu' p hp
    have hf := hf' hpu' 
    have : p.1 ∈ (absP mx l.q.base l.q.nodes).map (·.1) := List.mem_map.2 ⟨p, hp, rfl⟩
    rw [h] at this
    obtain ⟨e, he, hd⟩ := List.mem_map.1 this
    rw [← hd]; exact hf e he
  · intro hf' hpu' e he
    have hf := hf' hpu'
    have : e.deadline ∈ (absFrom l.q.base l.q.nodes).map (·.deadline) := List.mem_map.2 ⟨e, he, rfl⟩
    rw [← h] at this
    obtain ⟨p, hp, hd⟩ := List.mem_map.1 this
    rw [← hd]; exact hf p hp

theorem pendOk_mono {pu : Prop} {out : List Out} {p : Nat × PMsg} (o : Out) (h : PendOk pu out p) :
    PendOk pu (o :: out) p := by
  intro hpu'
  obtain ⟨t0, h1, h2⟩ := h hpu'
  exact ⟨t0, fun j hj => List.mem_cons_of_mem _ (h1 j hj), h2⟩

theorem outOk_cons_other {pu : Prop} {par : Nat → Sess} {P : Nat → Nat → Nat → Prop} {out : List Out} (o : Out)
    (h' : OutOk pu par P out) (ho : Plain o) : OutOk pu par P (o :: out) := by
  intro hpu'
  have h := h' hpu'
  constructor
  · intro t s mid k hm
    simp only [List.mem_cons] at hm
    rcases hm with hm | hm
    · exact absurd hm.symm (ho.1 t s mid k)
    · obtain ⟨t0, T, h1, h2⟩ := h.1 t s mid k hm
      exact ⟨t0, T, List.mem_cons_of_mem _ h1, h2⟩
  · intro t s mid hm
    simp only [List.mem_cons] at hm
    rcases hm with hm | hm
    · exact absurd hm.symm (ho.2 t s mid)
    · obtain ⟨t0, T, h1, h2⟩ := h.2 t s mid hm
      exact ⟨t0, T, fun j hj => List.mem_cons_of_mem _ (h1 j hj), h2⟩

theorem outOk_cons_tx {pu : Prop} {par : Nat → Sess} {P : Nat → Nat → Nat → Prop} {out : List Out} (t s mid k : Nat)
    (h' : OutOk pu par P out)
    (hn' : pu → ∃ t0 T, Out.tx t0 s mid 0 true ∈ Out.tx t s mid k true :: out ∧ t = sched t0 T k ∧
      k ≤ (par s).maxRtx ∧ P s mid T) :
    OutOk pu par P (Out.tx t s mid k true :: out) := by
  intro hpu'
  have h := h' hpu'
  have hn := hn' hpu'
  constructor
  · intro t' s' mid' k' hm
    simp only [List.mem_cons] at hm
    rcases hm with hm | hm
    · injection hm with h1 h2 h3 h4
      subst h1 h2 h3 h4
      exact hn
    · obtain ⟨t0, T, h1, h2⟩ := h.1 t' s' mid' k' hm
      exact ⟨t0, T, List.mem_cons_of_mem _ h1, h2⟩
  · intro t' s' mid' hm
    simp only [List.mem_cons] at hm
    rcases hm with hm | hm
    · cases hm
    · obtain ⟨t0, T, h1, h2⟩ := h.2 t' s' mid' hm
      exact ⟨t0, T, fun j hj => List.mem_cons_of_mem _ (h1 j hj), h2⟩

theorem outOk_cons_nack {pu : Prop} {par : Nat → Sess} {P : Nat → Nat → Nat → Prop} {out : List Out} (t s mid : Nat)
    (h' : OutOk pu par P out)
    (hn' : pu → ∃ t0 T, (∀ j, j ≤ (par s).maxRtx → Out.tx (sched t0 T j) s mid j true ∈ out) ∧
      t = sched t0 T ((par s).maxRtx + 1) ∧ P s mid T) :
    OutOk pu par P (Out.nack t s .retries mid true :: out) := by
  intro hpu'
  have h := h' hpu'
  constructor
  · intro t' s' mid' k' hm
    simp only [List.mem_cons] at hm
    rcases hm with hm | hm
    · cases hm
    · obtain ⟨t0, T, h1, h2⟩ := h.1 t' s' mid' k' hm
      exact ⟨t0, T, List.mem_cons_of_mem _ h1, h2⟩
  · intro t' s' mid' hm
    simp only [List.mem_cons] at hm
    rcases hm with hm | hm
    · injection hm with h1 h2 h3 h4 h5
      subst h1 h2 h4
      obtain ⟨t0, T, g1, g2⟩ := hn' hpu'
      exact ⟨t0, T, fun j hj => List.mem_cons_of_mem _ (g1 j hj), g2⟩
    · obtain ⟨t0, T, h1, h2⟩ := h.2 t' s' mid' hm
      exact ⟨t0, T, fun j hj => List.mem_cons_of_mem _ (h1 j hj), h2⟩

theorem finv_emit_other {pu : Prop} {par : Nat → Sess} {P : Nat → Nat → Nat → Prop} {l : L} (o : Out) (hi : FInv pu par P l)
    (ho : Plain o) : FInv pu par P (l.emit o) :=
  ⟨hi.base, hi.sess, hi.nodes, fun p hp => pendOk_mono o (hi.pend p hp), outOk_cons_other o hi.outs ho⟩

theorem gsess_setS {par : Nat → Sess} {P : Nat → Nat → Nat → Prop} {l : L} (hs : GSess par P l) (s ca : Nat)
    (dq : List Node) (hca : ca ≤ (par s).nstart) (hdq : ∀ n ∈ dq, DNodeOk par P s n) :
    GSess par P (l.setS s { par s with conActive := ca, delayq := dq }) := by
  intro s'
  rcases getS_setS l s s' { par s with conActive := ca, delayq := dq } with ⟨h, rfl⟩ | h
  · exact ⟨ca, dq, h, hca, hdq⟩
  · rw [h]; exact hs s'

theorem gsess_congr {par : Nat → Sess} {P : Nat → Nat → Nat → Prop} {l l' : L} (h : l'.sess = l.sess)
    (hs : GSess par P l) : GSess par P l' := by
  intro s
  have : l'.getS s = l.getS s := by simp [L.getS, h]
  rw [this]; exact hs s

theorem sched_zero (t0 T : Nat) : sched t0 T 0 = t0 := by simp [sched]

/-- a fresh Confirmable whose first transmission has just been emitted is armed for `now + T` -/
theorem finv_enq_fresh {pu : Prop} {par : Nat → Sess} {P : Nat → Nat → Nat → Prop} (l : L) (n : Node) (hi : FInv pu par P l)
    (hf : Fut pu l) (hn : NodeOk par P n) (hc : n.cnt = 0)
    (htx : Out.tx l.now n.sess n.mid 0 true ∈ l.out) :
    FInv pu par P { l with q := enqueue l.q l.now n.timeout n } ∧ Fut pu { l with q := enqueue l.q l.now n.timeout n } := by
  have hab := absP_enqueue (mxOf par) l.q l.now n.timeout n (Or.inr hi.base)
  constructor
  · refine ⟨enqueue_base_le _ _ hi.base, hi.sess, all_enqueue (nodeOk_tfree par P) _ _ _ _ hi.nodes hn, ?_, hi.outs⟩
    intro p hp
    simp only [] at hp
    rw [hab] at hp
    rcases mem_pinsert.1 hp with rfl | hp
    · refine fun _ => ⟨l.now, fun j hj => ?_, by simp [toP, hc, sched]⟩
      have hj0 : j = 0 := by
        have h0 : (toP (mxOf par) n).cnt = 0 := hc
        simp only [] at hj
        omega
      subst hj0
      rw [sched_zero]; exact htx
    · exact hi.pend p hp
  · rw [fut_iff pu (mxOf par)]
    intro hpu' p hp
    simp only [] at hp
    rw [hab] at hp
    rcases mem_pinsert.1 hp with rfl | hp
    · simp
    · exact (fut_iff pu (mxOf par) l).1 hf hpu' p hp

/-- the drain loop of `coap_session_connected`: every delayed Confirmable that gets NSTART room is transmitted for
the first time now and armed for `now + T` -/
theorem drain_finv {pu : Prop} {par : Nat → Sess} {P : Nat → Nat → Nat → Prop} (hp : GPar par) :
    ∀ (fuel : Nat) (l : L) (s : Nat), FInv pu par P l → Fut pu l →
      FInv pu par P (drain fuel l s) ∧ Fut pu (drain fuel l s) ∧ (drain fuel l s).now = l.now := by
  intro fuel
  induction fuel with
  | zero => intro l s hi hf; exact ⟨hi, hf, rfl⟩
  | succ f ih =>
    intro l s hi hf
    obtain ⟨ca, dq, hg, hle, hdq⟩ := hi.sess s
    obtain ⟨hest, hopen, hns, h256⟩ := hp s
    cases dq with
    | nil =>
      have : drain (f + 1) l s = l := by simp [drain, hg]
      rw [this]; exact ⟨hi, hf, rfl⟩
    | cons n rest =>
      obtain ⟨hcon, htok, hT, hT32, hcnt, h64, hP⟩ := hdq n (by simp)
      by_cases hgate : ca ≥ (par s).nstart
      · have : drain (f + 1) l s = l := by simp [drain, hg, hest, hcon, hgate]
        rw [this]; exact ⟨hi, hf, rfl⟩
      · have hmod : n.timeout * 2 ^ 0 % 4294967296 = n.timeout := by
          rw [Nat.pow_zero, Nat.mul_one]; exact Nat.mod_eq_of_lt hT32
        have hstep : drain (f + 1) l s = drain f
            { ((l.setS s { par s with conActive := (ca + 1) % 256, delayq := rest }).emit
                (.tx l.now s n.mid 0 true)) with
              q := enqueue l.q l.now n.timeout { n with sess := s } } s := by
          simp [drain, hg, hest, hcon, hgate, waitAck, hcnt, Nat.mod_eq_of_lt hT32, L.emit, L.setS]
        rw [hstep]
        have hi2 : FInv pu par P ((l.setS s { par s with conActive := (ca + 1) % 256, delayq := rest }).emit
            (.tx l.now s n.mid 0 true)) := by
          refine ⟨hi.base, gsess_congr rfl (gsess_setS hi.sess s _ rest ?_ (fun x hx => hdq x (by simp [hx]))),
            hi.nodes, fun p hp => pendOk_mono _ (hi.pend p hp), ?_⟩
          · have : (ca + 1) % 256 ≤ ca + 1 := Nat.mod_le _ _
            omega
          · exact outOk_cons_tx _ _ _ _ hi.outs
              (fun _ => ⟨l.now, n.timeout, by simp, (sched_zero _ _).symm, Nat.zero_le _, hP⟩)
        have hn' : NodeOk par P { n with sess := s } := ⟨hcon, htok, hT, by simp [hcnt], h64, hP⟩
        have := finv_enq_fresh _ { n with sess := s } hi2 hf hn' hcnt (by simp [L.emit])
        have h3 := ih _ s this.1 this.2
        exact ⟨h3.1, h3.2.1, h3.2.2⟩

theorem connected_finv {pu : Prop} {par : Nat → Sess} {P : Nat → Nat → Nat → Prop} (hp : GPar par) (l : L) (s : Nat)
    (hi : FInv pu par P l) (hf : Fut pu l) :
    FInv pu par P (connected l s) ∧ Fut pu (connected l s) ∧ (connected l s).now = l.now := by
  obtain ⟨ca, dq, hg, hle, hdq⟩ := hi.sess s
  have e : ({ (l.getS s) with est := true } : Sess) = { par s with conActive := ca, delayq := dq } := by
    rw [hg]
    have := (hp s).1
    cases hps : par s
    rw [hps] at this
    simp_all
  unfold connected
  simp only []
  rw [e]
  exact drain_finv hp _ _ s ⟨hi.base, gsess_setS hi.sess s ca dq hle hdq, hi.nodes, hi.pend, hi.outs⟩ hf

theorem release_finv {pu : Prop} {par : Nat → Sess} {P : Nat → Nat → Nat → Prop} (hp : GPar par) (l : L) (s : Nat)
    (hi : FInv pu par P l) (hf : Fut pu l) :
    FInv pu par P (release l s) ∧ Fut pu (release l s) ∧ (release l s).now = l.now := by
  obtain ⟨ca, dq, hg, hle, hdq⟩ := hi.sess s
  unfold release
  simp only []
  split
  · exact ⟨hi, hf, rfl⟩
  · have h1 : FInv pu par P (l.setS s { (l.getS s) with conActive := (l.getS s).conActive - 1 }) := by
      rw [hg]
      exact ⟨hi.base, gsess_setS hi.sess s (ca - 1) dq (by omega) hdq, hi.nodes, hi.pend, hi.outs⟩
    split
    · exact connected_finv hp _ s h1 hf
    · exact ⟨h1, hf, rfl⟩

theorem L_ext {l l' : L} (h1 : l'.now = l.now) (h2 : l'.q = l.q) (h3 : l'.sess = l.sess) (h4 : l'.out = l.out) :
    l' = l := by
  cases l; cases l'; simp_all

theorem drain_out_mono : ∀ (fuel : Nat) (l : L) (s : Nat) (o : Out), o ∈ l.out → o ∈ (drain fuel l s).out := by
  intro fuel
  induction fuel with
  | zero => intro l s o h; exact h
  | succ f ih =>
    intro l s o h
    simp only [drain]
    split
    · exact h
    · split
      · exact h
      · split
        · exact h
        · apply ih
          split
          · exact List.mem_cons_of_mem _ h
          · exact List.mem_cons_of_mem _ h

theorem release_out_mono (l : L) (s : Nat) (o : Out) (h : o ∈ l.out) : o ∈ (release l s).out := by
  unfold release
  simp only []
  split
  · exact h
  · split
    · unfold connected
      exact drain_out_mono _ _ s o h
    · exact h

/-- `coap_retransmit` of a node that was due exactly now and was on its schedule -/
theorem retransmit_finv {pu : Prop} {par : Nat → Sess} {P : Nat → Nat → Nat → Prop} (hp : GPar par) (l : L) (n : Node)
    (hi : FInv pu par P l) (hf : Fut pu l) (hn : NodeOk par P n) (hpn : PendOk pu l.out (l.now, toP (mxOf par) n)) :
    FInv pu par P (retransmit l n) ∧ Fut pu (retransmit l n) ∧ (retransmit l n).now = l.now := by
  obtain ⟨hcon, htok, hT, hcnt, h64, hP⟩ := hn
  obtain ⟨ca, dq, hg, hle, hdq⟩ := hi.sess n.sess
  obtain ⟨hest, hopen, hns, h256⟩ := hp n.sess
  have hnowR := retransmit_now l n
  by_cases hc : n.cnt < (par n.sess).maxRtx
  · have hle2 : n.timeout * 2 ^ (n.cnt + 1) ≤ n.timeout * 2 ^ (par n.sess).maxRtx :=
      Nat.mul_le_mul_left _ (Nat.pow_le_pow_right (by decide) hc)
    have hroom : ca - 1 < (par n.sess).nstart := by omega
    have hres := retransmit_resend l n (by rw [hg]; exact hc) (by rw [hg]; exact hest) (by rw [hg]; exact hroom)
      (by omega) (by omega) (Or.inr hi.base)
    have hsess := retransmit_resend_sess l n (by rw [hg]; exact hc) (by rw [hg]; exact hest)
      (by rw [hg]; exact hroom) (by omega) (by omega) hcon
    rw [hg] at hsess
    have heq : retransmit l n =
        { now := l.now, q := enqueue l.q l.now (n.timeout * 2 ^ (n.cnt + 1)) { n with cnt := n.cnt + 1 },
          sess := (l.setS n.sess { par n.sess with conActive := (ca - 1 + 1) % 256, delayq := dq }).sess,
          out := Out.tx l.now n.sess n.mid (n.cnt + 1) true :: l.out } :=
      L_ext hnowR hres.2.2 hsess (by rw [hres.1, hcon])
    rw [heq]
    have hpn' : pu → ∃ t0, (∀ j, j ≤ n.cnt → Out.tx (sched t0 n.timeout j) n.sess n.mid j true ∈ l.out) ∧
        l.now = sched t0 n.timeout (n.cnt + 1) := hpn
    have hab := absP_enqueue (mxOf par) l.q l.now (n.timeout * 2 ^ (n.cnt + 1)) { n with cnt := n.cnt + 1 }
      (Or.inr hi.base)
    refine ⟨⟨enqueue_base_le _ _ hi.base, ?_, ?_, ?_, ?_⟩, ?_, rfl⟩
    · apply gsess_congr (l := l.setS n.sess { par n.sess with conActive := (ca - 1 + 1) % 256, delayq := dq }) rfl
      exact gsess_setS hi.sess n.sess _ dq (by
        have : (ca - 1 + 1) % 256 ≤ ca - 1 + 1 := Nat.mod_le _ _
        omega) hdq
    · exact all_enqueue (nodeOk_tfree par P) _ _ _ _ hi.nodes ⟨hcon, htok, hT, Nat.succ_le_of_lt hc, h64, hP⟩
    · intro p hp'
      simp only [] at hp'
      rw [hab] at hp'
      rcases mem_pinsert.1 hp' with rfl | hp'
      · intro hpu'
        obtain ⟨t0, ht0, hd0⟩ := hpn' hpu'
        refine ⟨t0, fun j hj => ?_, ?_⟩
        · simp only [toP] at hj ⊢
          by_cases hjn : j = n.cnt + 1
          · subst hjn; rw [← hd0]; simp
          · exact List.mem_cons_of_mem _ (ht0 j (by omega))
        · simp only [toP]
          rw [Coap.Timer.sched_succ t0 n.timeout (n.cnt + 1), ← hd0]
      · exact pendOk_mono _ (hi.pend p hp')
    · refine outOk_cons_tx _ _ _ _ hi.outs (fun hpu' => ?_)
      obtain ⟨t0, ht0, hd0⟩ := hpn' hpu'
      have h00 := ht0 0 (Nat.zero_le _)
      rw [sched_zero] at h00
      exact ⟨t0, n.timeout, List.mem_cons_of_mem _ h00, hd0, Nat.succ_le_of_lt hc, hP⟩
    · rw [fut_iff pu (mxOf par)]
      intro hpu' p hp'
      simp only [] at hp'
      rw [hab] at hp'
      rcases mem_pinsert.1 hp' with rfl | hp'
      · simp
      · exact (fut_iff pu (mxOf par) l).1 hf hpu' p hp'
  · have hc' : ¬ n.cnt < (l.getS n.sess).maxRtx := by rw [hg]; exact hc
    have heq : retransmit l n = (release l n.sess).emit (.nack (release l n.sess).now n.sess .retries n.mid true) := by
      unfold retransmit
      simp [hc', hcon]
    rw [heq]
    have hrel := release_finv hp l n.sess hi hf
    have hmono := release_out_mono l n.sess
    have hcm : n.cnt = (par n.sess).maxRtx := by omega
    have hpn' : pu → ∃ t0, (∀ j, j ≤ n.cnt → Out.tx (sched t0 n.timeout j) n.sess n.mid j true ∈ l.out) ∧
        l.now = sched t0 n.timeout (n.cnt + 1) := hpn
    refine ⟨⟨hrel.1.base, hrel.1.sess, hrel.1.nodes, fun p hp' => pendOk_mono _ (hrel.1.pend p hp'), ?_⟩,
      hrel.2.1, hrel.2.2⟩
    refine outOk_cons_nack _ _ _ hrel.1.outs (fun hpu' => ?_)
    obtain ⟨t0, ht0, hd0⟩ := hpn' hpu'
    refine ⟨t0, n.timeout, fun j hj => hmono _ (ht0 j (by omega)), ?_, hP⟩
    rw [hrel.2.2, ← hcm]; exact hd0

/-- the due loop: under punctuality whatever fires is due exactly now -/
theorem dueLoop_finv {pu : Prop} {par : Nat → Sess} {P : Nat → Nat → Nat → Prop} (hp : GPar par) :
    ∀ (f : Nat) (l : L), FInv pu par P l → Fut pu l →
      FInv pu par P (dueLoop f l) ∧ Fut pu (dueLoop f l) ∧ (dueLoop f l).now = l.now := by
  intro f
  induction f with
  | zero => intro l hi hf; exact ⟨hi, hf, rfl⟩
  | succ f ih =>
    intro l hi hf
    cases hn : l.q.nodes with
    | nil =>
      have hnd : NothingDue l := by rw [nothingDue_iff]; intro h r hh; rw [hn] at hh; cases hh
      rw [dueLoop_not_due _ l hnd]; exact ⟨hi, hf, rfl⟩
    | cons hd r =>
      by_cases hdue : l.q.base + hd.t ≤ l.now
      · obtain ⟨rest, hpop, _, hloop⟩ := dueLoop_due f l hd r hn hi.base hdue
        rw [hloop]
        have hab := absP_popNext (mxOf par) l.q.base l.q.nodes hd rest hpop
        have hfut := (fut_iff pu (mxOf par) l).1 hf
        have hall := all_popNext (nodeOk_tfree par P) l.q.nodes hd rest hpop hi.nodes
        have hpn : PendOk pu l.out (l.now, toP (mxOf par) hd) := by
          intro hpu'
          have hnow : l.q.base + hd.t = l.now := by
            have := hfut hpu' (l.q.base + hd.t, toP (mxOf par) hd) (by rw [hab]; simp)
            simp only [] at this
            omega
          have := hi.pend (l.q.base + hd.t, toP (mxOf par) hd) (by rw [hab]; simp) hpu'
          rw [hnow] at this; exact this
        have hi1 : FInv pu par P { l with q := { l.q with nodes := rest } } :=
          ⟨hi.base, hi.sess, hall.2, fun p hp' => hi.pend p (by rw [hab]; exact List.mem_cons_of_mem _ hp'), hi.outs⟩
        have hf1 : Fut pu { l with q := { l.q with nodes := rest } } := by
          rw [fut_iff pu (mxOf par)]
          intro hpu' p hp'
          exact hfut hpu' p (by rw [hab]; exact List.mem_cons_of_mem _ hp')
        have h2 := retransmit_finv hp _ hd hi1 hf1 hall.1 hpn
        have h3 := ih _ h2.1 h2.2.1
        exact ⟨h3.1, h3.2.1, by rw [h3.2.2, h2.2.2]⟩
      · have hnd : NothingDue l := by
          rw [nothingDue_iff]; intro h r' hh; rw [hn] at hh; cases hh; omega
        rw [dueLoop_not_due _ l hnd]; exact ⟨hi, hf, rfl⟩

/-! ### events -/

/-- the scope of the direct invariant: every event of the model on sessions that stay established — the clock does
not run backward; I/O steps; ACKs, RSTs, responses (cancel by token) and invalid-code ACKs at any time; `coap_send` of a
NON, or of a Confirmable with a positive timeout inside the no-wrap range (D7), WITH or WITHOUT NSTART room;
`coap_session_connected`.  Not in the scope: the session state changes `hold` (not established) and `disconnect`. -/
def EvG (l : L) : Ev → Prop
  | .setNow t => l.now ≤ t
  | .prepare => True
  | .submit s con _ r =>
    con = true →
    (0 < calcTimeout (l.getS s).atI (l.getS s).atF (l.getS s).arfI (l.getS s).arfF r ∧
     calcTimeout (l.getS s).atI (l.getS s).atF (l.getS s).arfI (l.getS s).arfF r * 2 ^ (l.getS s).maxRtx < 2 ^ 64)
  | .rxAck _ _ => True
  | .rxRst _ _ => True
  | .rxNon _ _ _ => True
  | .rxBad _ _ => True
  | .connect _ => True
  | .hold _ => False
  | .disconnect _ => False

/-- `EvG` threaded along the run of M -/
def RunG (l : L) : List Ev → Prop
  | [] => True
  | ev :: evs => EvG l ev ∧ RunG (Msg.step l ev) evs

instance (l : L) (ev : Ev) : Decidable (EvG l ev) := by
  cases ev <;> simp only [EvG] <;> infer_instance

instance decRunG : (evs : List Ev) → (l : L) → Decidable (RunG l evs)
  | [], _ => isTrue trivial
  | ev :: evs, l => by
    unfold RunG
    exact @instDecidableAnd _ _ _ (decRunG evs _)

theorem removed_finv {pu : Prop} {par : Nat → Sess} {P : Nat → Nat → Nat → Prop} (l : L) (s mid : Nat)
    (hi : FInv pu par P l) (hf : Fut pu l) :
    FInv pu par P { l with q := { l.q with nodes := (removeNode l.q.nodes s mid).2 } } ∧
    Fut pu { l with q := { l.q with nodes := (removeNode l.q.nodes s mid).2 } } ∧
    (∀ n, (removeNode l.q.nodes s mid).1 = some n → n.con = true ∧ n.mid = mid) := by
  have h1 := (absP_removeNode (mxOf par) l.q.base l.q.nodes s mid).1
  have h3 := all_removeNode (nodeOk_tfree par P) l.q.nodes s mid hi.nodes
  have hsub : ∀ p ∈ absP (mxOf par) l.q.base (removeNode l.q.nodes s mid).2,
      p ∈ absP (mxOf par) l.q.base l.q.nodes := by
    intro p hp; rw [h1] at hp; exact mem_premove hp
  refine ⟨⟨hi.base, hi.sess, h3.1, fun p hp => hi.pend p (hsub p hp), hi.outs⟩, ?_, ?_⟩
  · rw [fut_iff pu (mxOf par)]
    intro hpu' p hp
    exact (fut_iff pu (mxOf par) l).1 hf hpu' p (hsub p hp)
  · intro n hn
    exact ⟨(h3.2 n hn).1, (removeNode_key _ _ _ _ hn).2⟩

theorem absP_removeTok_sub (mx : Nat → Nat) (b : Nat) (l : List Node) (s tok : Nat) :
    ∀ p ∈ absP mx b (removeTok l s tok).2, p ∈ absP mx b l := by
  induction l generalizing b with
  | nil => intro p hp; simp [removeTok, absP] at hp
  | cons a r ih =>
    by_cases hk : a.sess = s ∧ a.tok = tok
    · rcases r with _ | ⟨q, r'⟩
      · intro p hp; simp [removeTok, hk, absP] at hp
      · intro p hp
        have e1 : b + (q.t + a.t) = b + a.t + q.t := by omega
        simp only [removeTok, hk, and_self, if_true, absP, e1, toP_t] at hp ⊢
        exact List.mem_cons_of_mem _ hp
    · rcases hr : removeTok r s tok with ⟨res, r'⟩
      have := ih (b + a.t)
      rw [hr] at this
      intro p hp
      simp only [removeTok, hk, if_false, hr, absP, List.mem_cons] at hp ⊢
      rcases hp with rfl | hp
      · exact Or.inl rfl
      · exact Or.inr (this p hp)

theorem cancelToken_finv {pu : Prop} {par : Nat → Sess} {P : Nat → Nat → Nat → Prop} (hp : GPar par) :
    ∀ (fuel : Nat) (l : L) (s tok : Nat), FInv pu par P l → Fut pu l →
      FInv pu par P (cancelToken fuel l s tok) ∧ Fut pu (cancelToken fuel l s tok) := by
  intro fuel
  induction fuel with
  | zero => intro l s tok hi hf; exact ⟨hi, hf⟩
  | succ f ih =>
    intro l s tok hi hf
    have hsub := absP_removeTok_sub (mxOf par) l.q.base l.q.nodes s tok
    have hall := Coap.Pdu.all_removeTok (nodeOk_tfree par P) l.q.nodes s tok hi.nodes
    simp only [cancelToken]
    rcases hrm : removeTok l.q.nodes s tok with ⟨_ | n, rest⟩
    · exact ⟨hi, hf⟩
    · rw [hrm] at hsub hall
      simp only [] at hsub hall ⊢
      have hi1 : FInv pu par P { l with q := { l.q with nodes := rest } } :=
        ⟨hi.base, hi.sess, hall, fun p hp' => hi.pend p (hsub p hp'), hi.outs⟩
      have hf1 : Fut pu { l with q := { l.q with nodes := rest } } := by
        rw [fut_iff pu (mxOf par)]
        intro hpu' p hp'
        exact (fut_iff pu (mxOf par) l).1 hf hpu' p (hsub p hp')
      split
      · have := release_finv hp _ s hi1 hf1
        exact ih _ s tok this.1 this.2.1
      · exact ih _ s tok hi1 hf1

theorem afterRx_finv {pu : Prop} {par : Nat → Sess} {P : Nat → Nat → Nat → Prop} (hp : GPar par) (l : L)
    (hi : FInv pu par P l) (hf : Fut pu l) : FInv pu par P (afterRx l) ∧ Fut pu (afterRx l) := by
  unfold afterRx
  rw [prepareCore_fst]
  exact ⟨(dueLoop_finv hp _ l hi hf).1, (dueLoop_finv hp _ l hi hf).2.1⟩

/-- every event of the scope keeps the invariant; every event but a clock move keeps `Fut` -/
theorem step_finv_fut {pu : Prop} {par : Nat → Sess} {P : Nat → Nat → Nat → Prop} (hp : GPar par) (l : L) (ev : Ev)
    (hi : FInv pu par P l) (hok : EvG l ev) (hpu : pu → EvPunct l ev)
    (hP : ∀ s mid r, ev = .submit s true mid r →
      P s mid (calcTimeout (par s).atI (par s).atF (par s).arfI (par s).arfF r)) :
    FInv pu par P (Msg.step l ev) ∧ ((∀ t, ev ≠ .setNow t) → Fut pu (Msg.step l ev)) := by
  cases ev with
  | setNow t =>
    exact ⟨⟨Nat.le_trans hi.base hok, hi.sess, hi.nodes, hi.pend, hi.outs⟩, fun h => absurd rfl (h t)⟩
  | prepare =>
    have hf : Fut pu l := hpu
    have := dueLoop_finv hp (dueFuel l) l hi hf
    simp only [Msg.step, prepare]
    rcases hpc : prepareCore l with ⟨l', w⟩
    have e : l' = dueLoop (dueFuel l) l := by rw [← prepareCore_fst, hpc]
    subst e
    exact ⟨finv_emit_other _ this.1 ⟨by intros; simp, by intros; simp⟩, fun _ => this.2.1⟩
  | submit s con mid r =>
    have hf : Fut pu l := hpu
    obtain ⟨ca, dq, hg, hle, hdq⟩ := hi.sess s
    obtain ⟨hest, hopen, hns, h256⟩ := hp s
    cases con with
    | false =>
      -- a NON on an established session is transmitted at once and never queued
      have hso : (l.getS s).sockOpen = true := by rw [hg]; exact hopen
      have he : (l.getS s).est = true := by rw [hg]; exact hest
      have hM : Msg.step l (.submit s false mid r) =
          (l.emit (.tx l.now s mid 0 false)).emit (.sub (some mid)) := by
        simp [Msg.step, submit, hso, gate, he]
      rw [hM]
      exact ⟨finv_emit_other _ (finv_emit_other _ hi ⟨by intros; simp, by intros; simp⟩)
        ⟨by intros; simp, by intros; simp⟩, fun _ => hf⟩
    | true =>
    obtain ⟨hT, h64⟩ := hok rfl
    have hPs := hP s mid r rfl
    have epar : (calcTimeout (par s).atI (par s).atF (par s).arfI (par s).arfF r) =
        calcTimeout (l.getS s).atI (l.getS s).atF (l.getS s).arfI (l.getS s).arfF r := by rw [hg]
    rw [epar] at hPs
    have emx : (l.getS s).maxRtx = (par s).maxRtx := by rw [hg]
    have hso : (l.getS s).sockOpen = true := by rw [hg]; exact hopen
    have hT32 := calcTimeout_lt (l.getS s).atI (l.getS s).atF (l.getS s).arfI (l.getS s).arfF r
    rw [emx] at h64
    by_cases hroom : ca < (par s).nstart
    · -- NSTART room: transmitted now
      have hgt : gate (l.getS s) true = false := by
        have : ¬ ((l.getS s).conActive ≥ (l.getS s).nstart) := by rw [hg]; simp only []; omega
        have he : (l.getS s).est = true := by rw [hg]; exact hest
        simp [gate, he, this]
      have hM : Msg.step l (.submit s true mid r) =
          (waitAck ((l.emit (.tx l.now s mid 0 true)).setS s
              { (l.getS s) with conActive := ((l.getS s).conActive + 1) % 256 })
            { sess := s, mid := mid, t := 0,
              timeout := calcTimeout (l.getS s).atI (l.getS s).atF (l.getS s).arfI (l.getS s).arfF r,
              cnt := 0, tok := mid, con := true }).emit (.sub (some mid)) := by
        simp only [Msg.step, submit, hso, hgt]
        simp
      rw [hM]
      have eset : ({ (l.getS s) with conActive := ((l.getS s).conActive + 1) % 256 } : Sess) =
          { par s with conActive := (ca + 1) % 256, delayq := dq } := by rw [hg]
      rw [eset]
      have hmod := calcTimeout_mod (l.getS s).atI (l.getS s).atF (l.getS s).arfI (l.getS s).arfF r
      generalize calcTimeout (l.getS s).atI (l.getS s).atF (l.getS s).arfI (l.getS s).arfF r = T at *
      have hi2 : FInv pu par P ((l.emit (.tx l.now s mid 0 true)).setS s
          { par s with conActive := (ca + 1) % 256, delayq := dq }) := by
        refine ⟨hi.base, gsess_setS (gsess_congr rfl hi.sess) s _ dq ?_ hdq, hi.nodes,
          fun p hp' => pendOk_mono _ (hi.pend p hp'), ?_⟩
        · have : (ca + 1) % 256 ≤ ca + 1 := Nat.mod_le _ _
          omega
        · exact outOk_cons_tx _ _ _ _ hi.outs
            (fun _ => ⟨l.now, T, by simp, (sched_zero _ _).symm, Nat.zero_le _, hPs⟩)
      have hnode : NodeOk par P { sess := s, mid := mid, t := 0, timeout := T, cnt := 0, tok := mid, con := true } :=
        ⟨rfl, rfl, hT, Nat.zero_le _, h64, hPs⟩
      have := finv_enq_fresh _ _ hi2 hf hnode rfl (by simp [L.emit, L.setS])
      simp only [waitAck, hmod]
      exact ⟨finv_emit_other _ this.1 ⟨by intros; simp, by intros; simp⟩, fun _ => this.2⟩
    · -- no room: the message waits in the delay queue
      have hgt : gate (l.getS s) true = true := by
        have : (l.getS s).conActive ≥ (l.getS s).nstart := by rw [hg]; simp only []; omega
        simp [gate, this]
      simp only [Msg.step, submit, hso, hgt]
      simp only [Bool.not_true, Bool.false_eq_true, if_false, if_true]
      split
      · exact ⟨finv_emit_other _ hi ⟨by intros; simp, by intros; simp⟩, fun _ => hf⟩
      · refine ⟨?_, fun _ => hf⟩
        apply finv_emit_other _ _ ⟨by intros; simp, by intros; simp⟩
        have key : ∀ X : Sess, X = { par s with conActive := ca, delayq := dq ++
              [{ sess := s, mid := mid, t := 0,
                 timeout := calcTimeout (l.getS s).atI (l.getS s).atF (l.getS s).arfI (l.getS s).arfF r,
                 cnt := 0, tok := mid, con := true }] } → FInv pu par P (l.setS s X) := by
          intro X hX
          rw [hX]
          refine ⟨hi.base, gsess_setS hi.sess s ca _ hle ?_, hi.nodes, hi.pend, hi.outs⟩
          intro x hx
          simp only [List.mem_append, List.mem_singleton] at hx
          rcases hx with hx | rfl
          · exact hdq x hx
          · exact ⟨rfl, rfl, hT, hT32, rfl, h64, hPs⟩
        exact key _ (by rw [hg]; simp [hopen])
  | rxAck s mid =>
    have hf : Fut pu l := hpu
    obtain ⟨ca, dq, hg, hle, hdq⟩ := hi.sess s
    have hso : (l.getS s).sockOpen = true := by rw [hg]; exact (hp s).2.1
    obtain ⟨hi1, hf1, _⟩ := removed_finv l s mid hi hf
    simp only [Msg.step, hso, if_true]
    have : FInv pu par P (rxAck l s mid) ∧ Fut pu (rxAck l s mid) := by
      unfold rxAck
      rcases hrm : removeNode l.q.nodes s mid with ⟨sent, rest⟩
      rw [hrm] at hi1 hf1
      cases sent with
      | none => exact ⟨hi1, hf1⟩
      | some n =>
        have := release_finv hp _ s hi1 hf1
        exact ⟨this.1, this.2.1⟩
    exact ⟨(afterRx_finv hp _ this.1 this.2).1, fun _ => (afterRx_finv hp _ this.1 this.2).2⟩
  | rxRst s mid =>
    have hf : Fut pu l := hpu
    obtain ⟨ca, dq, hg, hle, hdq⟩ := hi.sess s
    have hso : (l.getS s).sockOpen = true := by rw [hg]; exact (hp s).2.1
    obtain ⟨hi1, hf1, hk⟩ := removed_finv l s mid hi hf
    simp only [Msg.step, hso, if_true]
    have : FInv pu par P (rxRst l s mid) ∧ Fut pu (rxRst l s mid) := by
      unfold rxRst
      rcases hrm : removeNode l.q.nodes s mid with ⟨sent, rest⟩
      rw [hrm] at hi1 hf1 hk
      cases sent with
      | none => exact ⟨finv_emit_other _ hi1 ⟨by intros; simp, by intros; simp⟩, hf1⟩
      | some n =>
        have := release_finv hp _ s hi1 hf1
        simp only [(hk n rfl).1, if_true]
        exact ⟨finv_emit_other _ this.1 ⟨by intros; simp, by intros; simp⟩, this.2.1⟩
    exact ⟨(afterRx_finv hp _ this.1 this.2).1, fun _ => (afterRx_finv hp _ this.1 this.2).2⟩
  | rxNon s mid tok =>
    have hf : Fut pu l := hpu
    obtain ⟨ca, dq, hg, hle, hdq⟩ := hi.sess s
    have hso : (l.getS s).sockOpen = true := by rw [hg]; exact (hp s).2.1
    simp only [Msg.step, hso, if_true]
    have hc := cancelToken_finv hp (l.q.nodes.length + 1) l s tok hi hf
    have : FInv pu par P (rxNon l s mid tok) ∧ Fut pu (rxNon l s mid tok) :=
      ⟨finv_emit_other _ hc.1 ⟨by intros; simp, by intros; simp⟩, hc.2⟩
    exact ⟨(afterRx_finv hp _ this.1 this.2).1, fun _ => (afterRx_finv hp _ this.1 this.2).2⟩
  | rxBad s mid =>
    have hf : Fut pu l := hpu
    obtain ⟨ca, dq, hg, hle, hdq⟩ := hi.sess s
    have hso : (l.getS s).sockOpen = true := by rw [hg]; exact (hp s).2.1
    obtain ⟨hi1, hf1, hk⟩ := removed_finv l s mid hi hf
    simp only [Msg.step, hso, if_true]
    have : FInv pu par P (rxBad l s mid) ∧ Fut pu (rxBad l s mid) := by
      unfold rxBad
      rcases hrm : removeNode l.q.nodes s mid with ⟨sent, rest⟩
      rw [hrm] at hi1 hf1 hk
      cases sent with
      | none => exact ⟨hi1, hf1⟩
      | some n =>
        have := release_finv hp _ s hi1 hf1
        exact ⟨finv_emit_other _ this.1 ⟨by intros; simp, by intros; simp⟩, this.2.1⟩
    exact ⟨(afterRx_finv hp _ this.1 this.2).1, fun _ => (afterRx_finv hp _ this.1 this.2).2⟩
  | hold s => exact absurd hok (by simp [EvG])
  | connect s =>
    have hf : Fut pu l := hpu
    have := connected_finv hp l s hi hf
    exact ⟨this.1, fun _ => this.2.1⟩
  | disconnect s => exact absurd hok (by simp [EvG])

theorem step_finv {pu : Prop} {par : Nat → Sess} {P : Nat → Nat → Nat → Prop} (hp : GPar par) (l : L) (ev : Ev)
    (hi : FInv pu par P l) (hok : EvG l ev) (hpu : pu → EvPunct l ev)
    (hP : ∀ s mid r, ev = .submit s true mid r →
      P s mid (calcTimeout (par s).atI (par s).atF (par s).arfI (par s).arfF r)) :
    FInv pu par P (Msg.step l ev) := (step_finv_fut hp l ev hi hok hpu hP).1

theorem run_finv {pu : Prop} {par : Nat → Sess} {P : Nat → Nat → Nat → Prop} (hp : GPar par) :
    ∀ (evs : List Ev) (l : L), FInv pu par P l → RunG l evs → (pu → Punctual l evs) →
      (∀ s mid r, Ev.submit s true mid r ∈ evs → P s mid (calcTimeout (par s).atI (par s).atF (par s).arfI (par s).arfF r)) →
      FInv pu par P (Msg.run l evs) := by
  intro evs
  induction evs with
  | nil => intro l hi _ _ _; exact hi
  | cons ev evs ih =>
    intro l hi hin hpu hP
    exact ih _ (step_finv hp l ev hi hin.1 (fun h => (hpu h).1) (fun s mid r h => hP s mid r (by simp [h]))) hin.2
      (fun h => (hpu h).2) (fun s mid r h => hP s mid r (by simp [h]))

theorem gpar_of (sess : List Sess) (h : ∀ se ∈ sess, SessOk se) : GPar (parOf sess) := fun s =>
  have := parOf_ok sess h s
  ⟨this.1, this.2.2.1, this.2.2.2.1, this.2.2.2.2.1⟩

theorem finv_init (pu : Prop) (P : Nat → Nat → Nat → Prop) (now0 : Nat) (sess : List Sess) (h : ∀ se ∈ sess, SessOk se) :
    FInv pu (parOf sess) P (Msg.init now0 sess) := by
  refine ⟨Nat.zero_le _, ?_, by simp [Msg.init], by simp [Msg.init, absP], by intro _; constructor <;> (intros; simp_all [Msg.init])⟩
  intro s
  have hok := parOf_ok sess h s
  refine ⟨(parOf sess s).conActive, [], ?_, hok.2.2.2.2.2, by simp⟩
  show parOf sess s = _
  have := hok.2.1
  cases hps : parOf sess s
  rw [hps] at this
  simp_all

/-! ### a clock that is never moved past a pending deadline gives a punctual run -/

/-- the clock is never moved past a pending deadline — what sleeping no longer than the wait `coap_io_prepare_io`
returned guarantees (`Coap.C06.wait_le_every_deadline`, `sleep_returned_wait_ok`) -/
def EvClock (l : L) : Ev → Prop
  | .setNow t => ∀ e ∈ abs l.q, t ≤ e.deadline
  | _ => True

/-- `EvClock` threaded along the run of M -/
def ClockOk (l : L) : List Ev → Prop
  | [] => True
  | ev :: evs => EvClock l ev ∧ ClockOk (Msg.step l ev) evs

instance (l : L) (ev : Ev) : Decidable (EvClock l ev) := by
  cases ev <;> simp only [EvClock] <;> infer_instance

instance decClockOk : (evs : List Ev) → (l : L) → Decidable (ClockOk l evs)
  | [], _ => isTrue trivial
  | ev :: evs, l => by
    unfold ClockOk
    exact @instDecidableAnd _ _ _ (decClockOk evs _)

theorem punctual_of_clockOk {par : Nat → Sess} {P : Nat → Nat → Nat → Prop} (hp : GPar par) :
    ∀ (evs : List Ev) (l : L), FInv True par P l → Fut True l → RunG l evs → ClockOk l evs →
      (∀ s mid r, Ev.submit s true mid r ∈ evs → P s mid (calcTimeout (par s).atI (par s).atF (par s).arfI (par s).arfF r)) →
      Punctual l evs := by
  intro evs
  induction evs with
  | nil => intro l _ _ _ _ _; trivial
  | cons ev evs ih =>
    intro l hi hf hin hck hP
    have hpe : EvPunct l ev := by
      cases ev <;> first | trivial | exact hf trivial
    have h := step_finv_fut hp l ev hi hin.1 (fun _ => hpe) (fun s mid r h => hP s mid r (by simp [h]))
    have hf1 : Fut True (Msg.step l ev) := by
      cases ev with
      | setNow t => exact fun _ => hck.1
      | _ => exact h.2 (by intros; simp)
    exact ⟨hpe, ih _ h.1 hf1 hin.2 hck.2 (fun s mid r h => hP s mid r (by simp [h]))⟩

end Coap.Sched
