import CoapVerif.Lemmas.EditTrace
/-
M-side lemmas for the editors (C04), part 6: where the edited message comes from and where it goes —
 * the PDU a successful parse leaves behind is the representing PDU of the decoded message (`parsed_start`);
 * well-formedness (RFC per-option length limits included) is kept along any `EditTrace` whose values respect the
   limits (`editTrace_wf`), so the round-trip half of C04 needs no hypothesis about the RESULT of the edits.
-/
namespace Coap
open Coap.M

theorem Shape_of_optsOk (a : Msg) (ht : a.token.length ≤ 65804) (ho : Spec.optsOk a.code 0 a.opts = true) : Shape a := by
  obtain ⟨h1, h2⟩ := optsOk_sorted a.code 0 a.opts ho
  exact ⟨ht, h1, fun o hm => ⟨(h2 o hm).2.1, (h2 o hm).2.2.1⟩⟩

/-- the PDU a successful parse leaves behind (`M.ofParsed`: buffer = the received bytes behind the fixed header) IS the
representing PDU of the decoded message — the decoder accepts only canonical encodings (`body_canonical`) — so the
refinement theorems apply to edits of received messages as they do to built ones -/
theorem ofParsed_eq_conc (ms ty code mid tkl : Nat) (bs : Bytes) (m : Msg)
    (h : Spec.body ty code mid tkl bs = some m) : ofParsed ms m bs = conc ms m ∧ Shape m := by
  by_cases hc : code = 0
  · subst hc
    obtain ⟨_, rfl, rfl⟩ := body_canonical0 h
    exact ⟨rfl, by simp [Shape]⟩
  · obtain ⟨_, hcd, _, _, ht, hrest, hok⟩ := body_canonical hc h
    refine ⟨?_, Shape_of_optsOk m ht (by rw [hcd]; exact hok)⟩
    subst hrest
    unfold ofParsed conc
    by_cases hp : m.payload = []
    · simp [hp, lastNum]
    · simp [hp, lastNum, Spec.encPayload, Spec.encToken]
      omega

theorem tcpLen_drop (b0 : UInt8) (r0 r1 : Bytes) (len : Nat) (h : Spec.tcpLen (b0.toNat / 16) r0 = some (len, r1)) :
    (b0 :: r0).drop (headerSize .tcp b0.toNat - 1) = r1 := by
  unfold Spec.tcpLen at h
  unfold headerSize
  split at h
  · rename_i h13
    simp at h; simp [h13, h.2]
  · rename_i h13
    split at h
    · rename_i he
      split at h
      · simp at h; simp [h13, he, h.2]
      · simp at h
    · rename_i he
      split at h
      · rename_i he2
        split at h
        · simp at h; simp [h13, he, he2, h.2]
        · simp at h
      · rename_i he2
        split at h
        · simp at h; simp [h13, he, he2, h.2]
        · simp at h

/-- … for every framing: what the decoder accepts, stripped of its fixed header, is the representing PDU's buffer -/
theorem parsed_start (ms : Nat) (p : Proto) (wire : Bytes) (m : Msg) (h : Spec.decode p wire = some m) :
    ofParsed ms m (wire.drop (headerSize p (wire.headD 0).toNat)) = conc ms m ∧ Shape m := by
  cases p with
  | udp =>
    rcases wire with _ | ⟨b0, _ | ⟨c, _ | ⟨m1, _ | ⟨m2, rest⟩⟩⟩⟩ <;> simp only [Spec.decode] at h <;> try (cases h)
    split at h
    · exact ofParsed_eq_conc ms _ _ _ _ rest m h
    · cases h
  | ws =>
    rcases wire with _ | ⟨b0, _ | ⟨c, rest⟩⟩ <;> simp only [Spec.decode] at h <;> try (cases h)
    exact ofParsed_eq_conc ms _ _ _ _ rest m h
  | tcp =>
    rcases wire with _ | ⟨b0, r0⟩
    · simp [Spec.decode] at h
    · simp only [Spec.decode] at h
      cases hL : Spec.tcpLen (b0.toNat / 16) r0 with
      | none => simp [hL] at h
      | some q =>
        obtain ⟨len, r1⟩ := q
        simp only [hL] at h
        rcases r1 with _ | ⟨c, r2⟩
        · simp at h
        · simp only at h
          cases hT : Spec.tokenField (b0.toNat % 16) r2 with
          | none => simp [hT] at h
          | some tf =>
            simp only [hT] at h
            split at h
            · have hd := tcpLen_drop b0 r0 (c :: r2) len hL
              have hge : 2 ≤ headerSize .tcp b0.toNat := by
                show 2 ≤ (if b0.toNat / 16 < 13 then 2 else if b0.toNat / 16 = 13 then 3 else if b0.toNat / 16 = 14 then 4 else 6)
                repeat' split
                all_goals omega
              have : (b0 :: r0).drop (headerSize .tcp ((b0 :: r0).headD 0).toNat) = r2 := by
                show (b0 :: r0).drop (headerSize .tcp b0.toNat) = r2
                have e : headerSize .tcp b0.toNat = (headerSize .tcp b0.toNat - 1) + 1 := by omega
                rw [e, ← List.drop_drop, hd]; rfl
              rw [this]
              exact ofParsed_eq_conc ms _ _ _ _ r2 m h
            · cases h

/-- the caller keeps the RFC's per-option length limits (the API does not enforce them) -/
def editLenOk (code : Nat) : Spec.Edit → Prop
  | .insert n v => Spec.optLenOk code n v.length = true
  | .update n v => Spec.optLenOk code n v.length = true
  | _ => True

def AllLenOk (code : Nat) (os : List (Nat × Bytes)) : Prop := ∀ o ∈ os, Spec.optLenOk code o.1 o.2.length = true

/-- Hop-Limit = 16 (one byte) is within RFC 8768's limit in every request -/
theorem hop_len_ok : ∀ code, code < 32 → Spec.optLenOk code 16 1 = true := by decide

theorem allLen_insert {code : Nat} {os : List (Nat × Bytes)} (n : Nat) (v : Bytes) (h : AllLenOk code os)
    (hv : Spec.optLenOk code n v.length = true) : AllLenOk code (Spec.insertStable n v os) := by
  intro o ho
  rcases (mem_insertStable n v os o).mp ho with rfl | ho
  · exact hv
  · exact h o ho

theorem allLen_replace {code : Nat} {os : List (Nat × Bytes)} (n : Nat) (v : Bytes) (h : AllLenOk code os)
    (hv : Spec.optLenOk code n v.length = true) : AllLenOk code (Spec.replaceFirst n v os) := by
  intro o ho
  rcases mem_replaceFirst n v os o ho with rfl | ho
  · exact hv
  · exact h o ho

theorem allLen_remove {code : Nat} {os : List (Nat × Bytes)} (n : Nat) (h : AllLenOk code os) :
    AllLenOk code (Spec.removeFirst n os) :=
  fun o ho => h o ((removeFirst_sublist n os).subset ho)

theorem hopApplies_code {code n : Nat} {os : List (Nat × Bytes)} (h : Spec.hopApplies code n os = true) : code < 32 := by
  simp [Spec.hopApplies] at h
  exact h.1.1.2

theorem hopDomain_code {a : Msg} {e : Spec.Edit} (h : hopDomain a (callOf e) = true) : a.code < 32 := by
  cases e with
  | insert n v => exact hopApplies_code (show Spec.hopApplies a.code n a.opts = true from h)
  | update n v =>
    have h' : (Spec.hopApplies a.code n a.opts && !Spec.hasOpt n a.opts) = true := h
    simp at h'
    exact hopApplies_code h'.1
  | remove n => cases h
  | setToken t => cases h

theorem allLen_hop {a : Msg} (h : AllLenOk a.code a.opts) (hc : a.code < 32) :
    AllLenOk a.code (Spec.insertStable 16 [16] a.opts) :=
  allLen_insert 16 [16] h (hop_len_ok a.code hc)

theorem applyEdit_keeps (hop : Bool) (a : Msg) (e : Spec.Edit) (hh : hop = true → hopDomain a (callOf e) = true)
    (h : AllLenOk a.code a.opts) (he : editLenOk a.code e) :
    (Spec.applyEdit hop a e).code = a.code ∧ (Spec.applyEdit hop a e).type = a.type ∧ (Spec.applyEdit hop a e).mid = a.mid ∧
      AllLenOk a.code (Spec.applyEdit hop a e).opts := by
  have hbase : AllLenOk a.code (if hop = true then Spec.insertStable 16 [16] a.opts else a.opts) := by
    split
    · rename_i ht; exact allLen_hop h (hopDomain_code (hh ht))
    · exact h
  cases e with
  | insert n v => exact ⟨rfl, rfl, rfl, allLen_insert n v hbase he⟩
  | update n v =>
    refine ⟨rfl, rfl, rfl, ?_⟩
    show AllLenOk a.code (if Spec.hasOpt n a.opts = true then Spec.replaceFirst n v a.opts else Spec.addSem hop n v a.opts)
    split
    · exact allLen_replace n v h he
    · exact allLen_insert n v hbase he
  | remove n => exact ⟨rfl, rfl, rfl, allLen_remove n h⟩
  | setToken t => exact ⟨rfl, rfl, rfl, h⟩

/-- along any `EditTrace` the header fields stay and the RFC length limits are kept if every edit keeps them -/
theorem editTrace_keeps {a a' : Msg} {es : List Spec.Edit} {rcs : List Nat} (h : EditTrace a es rcs a') :
    AllLenOk a.code a.opts → (∀ e ∈ es, editLenOk a.code e) →
    a'.code = a.code ∧ a'.type = a.type ∧ a'.mid = a.mid ∧ AllLenOk a.code a'.opts := by
  induction h with
  | nil a => intro h _; exact ⟨rfl, rfl, rfl, h⟩
  | @accepted a0 a1 e es rc rcs hop _ hh _ ih =>
    intro h he
    obtain ⟨k1, k2, k3, k4⟩ := applyEdit_keeps hop a0 e hh h (he e (List.mem_cons_self ..))
    rw [k1] at ih
    obtain ⟨i1, i2, i3, i4⟩ := ih k4 (fun x hx => he x (List.mem_cons_of_mem _ hx))
    exact ⟨i1, by rw [i2, k2], by rw [i3, k3], i4⟩
  | refused _ ih =>
    intro h he
    exact ih h (fun x hx => he x (List.mem_cons_of_mem _ hx))

theorem allLen_of_optsOk {code prev : Nat} {os : List (Nat × Bytes)} (h : Spec.optsOk code prev os = true) : AllLenOk code os :=
  fun o ho => ((optsOk_sorted code prev os h).2 o ho).2.2.2

/-- well-formedness is kept by any edit sequence whose values respect the RFC length limits (reliable transports: as
long as the message still fits the 32-bit extended length) -/
theorem editTrace_wf (p : Proto) {a a' : Msg} {es : List Spec.Edit} {rcs : List Nat} (h : EditTrace a es rcs a')
    (hs : Shape a') (hwf : Spec.WF p a) (hc : a.code ≠ 0) (he : ∀ e ∈ es, editLenOk a.code e)
    (htcp : p = .tcp → (Spec.encRest a').length < 65805 + 4294967296) : Spec.WF p a' := by
  obtain ⟨w1, w2, w3, _, w5, _, _⟩ := hwf
  obtain ⟨k1, k2, k3, k4⟩ := editTrace_keeps h (allLen_of_optsOk w5) he
  refine ⟨by rw [k2]; exact w1, by rw [k1]; exact w2, by rw [k3]; exact w3, hs.1, ?_, ?_, htcp⟩
  · rw [k1]
    exact optsOk_of_sorted a.code 0 a'.opts hs.2.1
      (fun o ho => ⟨Nat.zero_le _, (hs.2.2 o ho).1, (hs.2.2 o ho).2, k4 o ho⟩)
  · intro h0; rw [k1] at h0; exact absurd h0 hc

end Coap
