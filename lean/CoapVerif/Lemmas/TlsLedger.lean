import CoapVerif.Lemmas.TlsGate
/-
C19 helper lemmas: the serial-number LEDGER of the delay queue.

Every message the application submits carries a ghost serial number (`QMsg.sn`, handed out from `Sess.next`); every NACK
that names a message and every PDU written carries the serial of its message.  `Core` is the ledger invariant of the phase
before the TLS library has reported a completed handshake; `Both` = the gate invariant `Inv` together with
"the oracle has reported success, or `Core`"; one preservation lemma per function of M, `stepCtx_both` for a whole event.
-/
namespace Coap.TlsGate
open Ctx

/-- does this output REPORT the message with ghost serial `j` to the application as failed: a NACK that names it.  The
COAP_NACK_ICMP_ISSUE notification is advisory — coap_session_disconnected_lkd returns before it touches the queues, the
message stays queued — and is not a report. -/
def Out.reports (j : Nat) : Out → Bool
  | .nack r (some _) (some i) => i == j && r != .icmp
  | _ => false

/-- how often the message with serial `j` is reported in a trace -/
def nk (j : Nat) (l : List Out) : Nat := l.countP (Out.reports j)

/-- is this output a PDU of message `j` handed to the transport (first transmission or not)? -/
def Out.writes (j : Nat) : Out → Bool
  | .tx _ _ (some i) _ => i == j
  | _ => false

/-- how often message `j` is written in a trace -/
def wr (j : Nat) (l : List Out) : Nat := l.countP (Out.writes j)

@[simp] theorem nk_nil (j : Nat) : nk j [] = 0 := rfl
theorem nk_append (j : Nat) (a b : List Out) : nk j (a ++ b) = nk j a + nk j b := by simp [nk, List.countP_append]

theorem nk_quiet (j : Nat) (l : List Out) (h : ∀ o ∈ l, o.reports j = false) : nk j l = 0 := by
  unfold nk
  rw [List.countP_eq_zero]
  intro o ho
  simp [h o ho]

theorem reports_nackOf (j : Nat) (r : Nack) (q : QMsg) : (nackOf r q).reports j = (q.sn == j && r != .icmp) := rfl

/-- the reports in a list of NACKs for the messages `l` -/
theorem nk_map_nackOf (j : Nat) (r : Nack) (hr : r ≠ .icmp) (l : List QMsg) :
    nk j (l.map (nackOf r)) = l.countP (fun q => q.sn == j) := by
  unfold nk
  rw [List.countP_map]
  congr 1
  funext q
  simp [reports_nackOf, hr]

theorem countP_sn_le_one (l : List QMsg) (hs : (l.map (·.sn)).Pairwise (· < ·)) (j : Nat) :
    l.countP (fun q => q.sn == j) ≤ 1 := by
  induction l with
  | nil => simp
  | cons m t ih =>
    simp only [List.map_cons, List.pairwise_cons, List.mem_map, forall_exists_index, and_imp,
      forall_apply_eq_imp_iff₂] at hs
    rw [List.countP_cons]
    by_cases hm : m.sn = j
    · have h0 : t.countP (fun q => q.sn == j) = 0 := by
        rw [List.countP_eq_zero]
        intro x hx
        have := hs.1 x hx
        simp; omega
      simp [hm, h0]
    · have := ih hs.2
      simp [hm]; exact this

theorem countP_sn_pos (l : List QMsg) (q : QMsg) (hq : q ∈ l) : 0 < l.countP (fun x => x.sn == q.sn) :=
  List.countP_pos_iff.mpr ⟨q, hq, by simp⟩

theorem countP_sn_zero (l : List QMsg) (j : Nat) (h : ∀ q ∈ l, q.sn ≠ j) : l.countP (fun x => x.sn == j) = 0 := by
  rw [List.countP_eq_zero]
  intro x hx
  simpa using h x hx

theorem countP_sn_mem (l : List QMsg) (j : Nat) (h : 0 < l.countP (fun x => x.sn == j)) : ∃ q ∈ l, q.sn = j := by
  obtain ⟨q, hq, he⟩ := List.countP_pos_iff.mp h
  exact ⟨q, hq, by simpa using he⟩

/-- the ledger before the oracle's success (`t`: the message with serial `k` is being tracked) -/
structure Core (n0 : Nat → Nat) (t : Bool) (k : Nat) (c : Ctx) : Prop where
  /-- nothing is in flight: nothing has been written -/
  infl : c.s.inflight = []
  /-- the delay queue holds the submissions in SUBMISSION ORDER (serials strictly increasing: each once) -/
  srt : (c.s.delayq.map (·.sn)).Pairwise (· < ·)
  lt : ∀ q ∈ c.s.delayq, q.sn < c.s.next
  lgl : ∀ g ∈ c.s.lgCrcv, g.sn < c.s.next
  /-- a Confirmable with an lg_crcv entry is in the delay queue -/
  lgc : ∀ g ∈ c.s.lgCrcv, g.con = true → g ∈ c.s.delayq
  /-- NO message is ever reported twice -/
  n1 : ∀ j, n0 j + nk j c.out ≤ 1
  /-- what is queued has not been reported -/
  nq : ∀ q ∈ c.s.delayq, n0 q.sn + nk q.sn c.out = 0
  ng : ∀ g ∈ c.s.lgCrcv, n0 g.sn + nk g.sn c.out = 0
  nf : ∀ j, c.s.next ≤ j → n0 j + nk j c.out = 0
  /-- the tracked Confirmable: still queued on a session that has not failed and is not freed, or gone and reported ONCE -/
  trk : t = true → (∃ q ∈ c.s.delayq, q.sn = k ∧ q.con = true ∧ c.s.state ≠ .none ∧ c.s.freed = false) ∨
                   ((∀ q ∈ c.s.delayq, q.sn ≠ k) ∧ n0 k + nk k c.out = 1)

/-- a step that leaves the queues alone (lg_crcv entries may go, serials may be handed out, the state may change but not
to NONE) and reports nothing -/
theorem core_keep {n0 t k} {c c' : Ctx} (h : Core n0 t k c) (hdq : c'.s.delayq = c.s.delayq) (hin : c'.s.inflight = c.s.inflight)
    (hlg : ∀ g ∈ c'.s.lgCrcv, g ∈ c.s.lgCrcv) (hnx : c.s.next ≤ c'.s.next)
    (hst : c'.s.state = .none → c.s.state = .none) (hfr : c'.s.freed = c.s.freed)
    (hout : ∀ j, nk j c'.out = nk j c.out) : Core n0 t k c' := by
  obtain ⟨a1, a2, a3, a4, a5, a6, a7, a8, a9, a10⟩ := h
  refine ⟨by rw [hin, a1], by rw [hdq]; exact a2, ?_, ?_, ?_, ?_, ?_, ?_, ?_, ?_⟩
  · intro q hq; rw [hdq] at hq; have := a3 q hq; omega
  · intro g hg; have := a4 g (hlg g hg); omega
  · intro g hg hc; rw [hdq]; exact a5 g (hlg g hg) hc
  · intro j; rw [hout]; exact a6 j
  · intro q hq; rw [hdq] at hq; rw [hout]; exact a7 q hq
  · intro g hg; rw [hout]; exact a8 g (hlg g hg)
  · intro j hj; rw [hout]; exact a9 j (by omega)
  · intro ht
    rcases a10 ht with ⟨q, hq, h1, h2, h3, h4⟩ | ⟨h1, h2⟩
    · exact Or.inl ⟨q, by rw [hdq]; exact hq, h1, h2, fun hn => h3 (hst hn), by rw [hfr]; exact h4⟩
    · exact Or.inr ⟨by rw [hdq]; exact h1, by rw [hout]; exact h2⟩

/-- `m` is a message that has just been given a serial -/
structure Fresh (n0 : Nat → Nat) (m : QMsg) (c : Ctx) : Prop where
  dq : ∀ q ∈ c.s.delayq, q.sn < m.sn
  lg : ∀ g ∈ c.s.lgCrcv, g.sn < m.sn
  nx : m.sn < c.s.next
  nk0 : n0 m.sn + nk m.sn c.out = 0

/-- coap_session_delay_pdu: a fresh message is appended to the delay queue (and may get an lg_crcv entry) -/
theorem core_enq {n0 t k} {c c' : Ctx} {m : QMsg} (h : Core n0 t k c) (hf : Fresh n0 m c) (hdq : c'.s.delayq = c.s.delayq ++ [m])
    (hin : c'.s.inflight = c.s.inflight) (hlg : ∀ g ∈ c'.s.lgCrcv, g = m ∨ g ∈ c.s.lgCrcv) (hnx : c'.s.next = c.s.next)
    (hst : c'.s.state = c.s.state) (hfr : c'.s.freed = c.s.freed) (hout : ∀ j, nk j c'.out = nk j c.out) :
    Core n0 t k c' := by
  obtain ⟨a1, a2, a3, a4, a5, a6, a7, a8, a9, a10⟩ := h
  obtain ⟨f1, f2, f3, f4⟩ := hf
  refine ⟨by rw [hin, a1], ?_, ?_, ?_, ?_, ?_, ?_, ?_, ?_, ?_⟩
  · rw [hdq, List.map_append, List.pairwise_append]
    refine ⟨a2, by simp, ?_⟩
    intro x hx y hy
    simp only [List.mem_map] at hx
    obtain ⟨q, hq, rfl⟩ := hx
    simp at hy; subst hy
    exact f1 q hq
  · intro q hq; rw [hdq] at hq; rw [hnx]
    simp only [List.mem_append, List.mem_singleton] at hq
    rcases hq with hq | rfl
    · exact a3 q hq
    · exact f3
  · intro g hg; rw [hnx]
    rcases hlg g hg with rfl | hg'
    · exact f3
    · exact a4 g hg'
  · intro g hg hc; rw [hdq]
    rcases hlg g hg with rfl | hg'
    · simp
    · simp [a5 g hg' hc]
  · intro j; rw [hout]; exact a6 j
  · intro q hq; rw [hdq] at hq; rw [hout]
    simp only [List.mem_append, List.mem_singleton] at hq
    rcases hq with hq | rfl
    · exact a7 q hq
    · exact f4
  · intro g hg; rw [hout]
    rcases hlg g hg with rfl | hg'
    · exact f4
    · exact a8 g hg'
  · intro j hj; rw [hout]; exact a9 j (by omega)
  · intro ht
    rcases a10 ht with ⟨q, hq, h1, h2, h3, h4⟩ | ⟨h1, h2⟩
    · exact Or.inl ⟨q, by rw [hdq]; simp [hq], h1, h2, by rw [hst]; exact h3, by rw [hfr]; exact h4⟩
    · refine Or.inr ⟨?_, by rw [hout]; exact h2⟩
      intro q hq; rw [hdq] at hq
      simp only [List.mem_append, List.mem_singleton] at hq
      rcases hq with hq | rfl
      · exact h1 q hq
      · intro he; rw [he] at f4; omega

/-- the delay queue is given up (coap_session_disconnected_lkd for any reason but ICMP, coap_session_mfree): every
Confirmable in it is NACKed — `extra` is what else is reported: nothing, or, if the queue held no Confirmable, one lg_crcv
entry's request —, both queues and the lg_crcv list are empty afterwards, the session is in state NONE or freed -/
theorem core_flushq {n0 t k} {c c' : Ctx} (h : Core n0 t k c) (r : Nack) (hr : r ≠ .icmp) (extra : List Out)
    (hx : (∀ j, nk j extra = 0) ∨
          ((c.s.delayq.filter fun q : QMsg => q.con) = [] ∧ ∃ g ∈ c.s.lgCrcv, ∀ j, nk j extra = if g.sn = j then 1 else 0))
    (hdq : c'.s.delayq = []) (hin : c'.s.inflight = []) (hlg : c'.s.lgCrcv = []) (hnx : c'.s.next = c.s.next)
    (hout : c'.out = c.out ++ ((c.s.delayq.filter fun q : QMsg => q.con).map (nackOf r) ++ extra)) : Core n0 t k c' := by
  obtain ⟨a1, a2, a3, a4, a5, a6, a7, a8, a9, a10⟩ := h
  have hsub : ((c.s.delayq.filter fun q : QMsg => q.con).map (·.sn)).Pairwise (· < ·) :=
    List.Pairwise.sublist (List.Sublist.map _ List.filter_sublist) a2
  have hcnt : ∀ j, nk j c'.out = nk j c.out + ((c.s.delayq.filter fun q : QMsg => q.con).countP (fun q => q.sn == j) + nk j extra) := by
    intro j; rw [hout, nk_append, nk_append, nk_map_nackOf j r hr]
  have hle := fun j => countP_sn_le_one _ hsub j
  -- a serial reported by this step was queued (or had the lg_crcv entry) and had not been reported before
  have hone : ∀ j, n0 j + (nk j c.out + ((c.s.delayq.filter fun q : QMsg => q.con).countP (fun q => q.sn == j) + nk j extra)) ≤ 1 := by
    intro j
    rcases hx with hx | ⟨hf, g, hg, hx⟩
    · rw [hx j]
      by_cases hp : 0 < (c.s.delayq.filter fun q : QMsg => q.con).countP (fun q => q.sn == j)
      · obtain ⟨q, hq, rfl⟩ := countP_sn_mem _ _ hp
        have := a7 q (List.mem_filter.mp hq).1
        have := hle q.sn
        omega
      · have := a6 j; omega
    · rw [hx j, hf]
      by_cases hj : g.sn = j
      · subst hj; have := a8 g hg; simp only [if_true, List.countP_nil]; omega
      · have := a6 j; simp only [if_neg hj, List.countP_nil]; omega
  refine ⟨hin, by rw [hdq]; simp, by rw [hdq]; simp, by rw [hlg]; simp, by rw [hlg]; simp, ?_, by rw [hdq]; simp,
    by rw [hlg]; simp, ?_, ?_⟩
  · intro j; rw [hcnt]; exact hone j
  · intro j hj; rw [hnx] at hj; rw [hcnt]
    have h0 := a9 j hj
    have h1 : (c.s.delayq.filter fun q : QMsg => q.con).countP (fun q => q.sn == j) = 0 := by
      apply countP_sn_zero
      intro q hq he
      have := a3 q (List.mem_filter.mp hq).1
      omega
    rcases hx with hx | ⟨hf, g, hg, hx⟩
    · rw [hx j]; omega
    · have := a4 g hg
      have hne : g.sn ≠ j := by omega
      rw [hx j, if_neg hne]; omega
  · intro ht
    refine Or.inr ⟨by rw [hdq]; simp, ?_⟩
    rw [hcnt]
    rcases a10 ht with ⟨q, hq, h1, h2, _, _⟩ | ⟨h1, h2⟩
    · subst h1
      have hqf : q ∈ c.s.delayq.filter fun q : QMsg => q.con := List.mem_filter.mpr ⟨hq, by simpa using h2⟩
      have hp := countP_sn_pos _ q hqf
      have := hone q.sn
      have := a7 q hq
      omega
    · have := hone k
      omega


/-! ## `Both`: the gate invariant and the ledger together -/

/-- the two contexts agree on everything the ledger looks at -/
structure Same (c' c : Ctx) : Prop where
  dq : c'.s.delayq = c.s.delayq
  infl : c'.s.inflight = c.s.inflight
  lg : c'.s.lgCrcv = c.s.lgCrcv
  nx : c'.s.next = c.s.next
  st : c'.s.state = c.s.state
  fr : c'.s.freed = c.s.freed
  out : ∀ j, nk j c'.out = nk j c.out

theorem Same.rfl' (c : Ctx) : Same c c := ⟨rfl, rfl, rfl, rfl, rfl, rfl, fun _ => rfl⟩

theorem Same.trans {a b c : Ctx} (h1 : Same a b) (h2 : Same b c) : Same a c :=
  ⟨h1.dq.trans h2.dq, h1.infl.trans h2.infl, h1.lg.trans h2.lg, h1.nx.trans h2.nx, h1.st.trans h2.st, h1.fr.trans h2.fr,
   fun j => (h1.out j).trans (h2.out j)⟩

theorem core_same {n0 t k} {c c' : Ctx} (hs : Same c' c) (h : Core n0 t k c) : Core n0 t k c' :=
  core_keep h hs.dq hs.infl (fun g hg => by rw [← hs.lg]; exact hg) (by rw [hs.nx]; exact Nat.le_refl _)
    (fun hn => by rw [← hs.st]; exact hn) hs.fr hs.out

structure Both (m0 : Mon) (n0 : Nat → Nat) (b t : Bool) (k : Nat) (c : Ctx) : Prop where
  inv : Inv m0 b c
  led : (m0.run c.out).seen = true ∨ Core n0 t k c

section
variable {m0 : Mon} {n0 : Nat → Nat} {b t : Bool} {k : Nat} {c : Ctx}

theorem both_true {c : Ctx} (h : Inv m0 true c) : Both m0 n0 b t k c := ⟨h.relax, Or.inl (h.known rfl)⟩

/-- a step with a gate lemma for every `b` and a ledger lemma -/
theorem both_mk {c c' : Ctx} (h : Both m0 n0 b t k c) (hi : ∀ b', Inv m0 b' c → Inv m0 b' c') (hc : Core n0 t k c → Core n0 t k c') :
    Both m0 n0 b t k c' := by
  rcases h.led with hs | hcore
  · exact both_true (hi true (h.inv.strengthen hs))
  · exact ⟨hi b h.inv, Or.inr (hc hcore)⟩

theorem both_same {c c' : Ctx} (h : Both m0 n0 b t k c) (hi : ∀ b', Inv m0 b' c → Inv m0 b' c') (hs : Same c' c) :
    Both m0 n0 b t k c' :=
  both_mk h hi (core_same hs)

theorem both_ite {p : Prop} [Decidable p] {x y : Ctx} (hx : p → Both m0 n0 b t k x) (hy : ¬p → Both m0 n0 b t k y) :
    Both m0 n0 b t k (if p then x else y) := by
  split
  · exact hx ‹_›
  · exact hy ‹_›

theorem same_setRet (r : Int) (c : Ctx) : Same (c.setRet r) c := ⟨rfl, rfl, rfl, rfl, rfl, rfl, fun _ => rfl⟩
theorem same_setFlag (f : Bool) (c : Ctx) : Same (c.setFlag f) c := ⟨rfl, rfl, rfl, rfl, rfl, rfl, fun _ => rfl⟩

/-- an output that reports no message -/
def Out.quiet (o : Out) : Prop := ∀ j, o.reports j = false

theorem same_emit (o : Out) (hq : o.quiet) (c : Ctx) : Same (c.emit o) c :=
  ⟨rfl, rfl, rfl, rfl, rfl, rfl, fun j => by
    show nk j (c.out ++ [o]) = nk j c.out
    rw [nk_append, nk_quiet j [o] (by simpa using hq j)]; rfl⟩

theorem same_outs (l : List Out) (hq : ∀ o ∈ l, o.quiet) (c : Ctx) : Same { c with out := c.out ++ l } c :=
  ⟨rfl, rfl, rfl, rfl, rfl, rfl, fun j => by
    show nk j (c.out ++ l) = nk j c.out
    rw [nk_append, nk_quiet j l (fun o ho => hq o ho j)]; rfl⟩

theorem both_setRet (r : Int) (h : Both m0 n0 b t k c) : Both m0 n0 b t k (c.setRet r) :=
  both_same h (fun _ => inv_setRet r) (same_setRet r c)

theorem both_setFlag (f : Bool) (h : Both m0 n0 b t k c) : Both m0 n0 b t k (c.setFlag f) :=
  both_same h (fun _ => inv_setFlag f) (same_setFlag f c)

theorem both_emit (o : Out) (ho : o.inert = true) (hq : o.quiet) (h : Both m0 n0 b t k c) : Both m0 n0 b t k (c.emit o) :=
  both_same h (fun _ => inv_emit_inert o ho) (same_emit o hq c)

theorem both_ite_emit (p : Prop) [Decidable p] (o : Out) (ho : o.inert = true) (hq : o.quiet) (h : Both m0 n0 b t k c) :
    Both m0 n0 b t k (if p then c.emit o else c) :=
  both_ite (fun _ => both_emit o ho hq h) fun _ => h

/-- a session update that keeps the queues, the lg_crcv list (entries may go), the serial counter (it may grow) and does
not put the session into state NONE -/
theorem both_upd (f : Sess → Sess) (he : (f c.s).est = true → c.s.est = true)
    (hst : (f c.s).state = .established → c.s.state = .established) (hp : (f c.s).proto = c.s.proto)
    (hdq : (f c.s).delayq = c.s.delayq) (hin : (f c.s).inflight = c.s.inflight)
    (hlg : ∀ g ∈ (f c.s).lgCrcv, g ∈ c.s.lgCrcv) (hnx : c.s.next ≤ (f c.s).next)
    (hno : (f c.s).state = .none → c.s.state = .none) (hfr : (f c.s).freed = c.s.freed)
    (h : Both m0 n0 b t k c) : Both m0 n0 b t k (c.upd f) :=
  both_mk h (fun _ => inv_upd f he hst hp) fun hc => core_keep hc hdq hin hlg hnx hno hfr fun _ => rfl

end

/-- `both_upd` for an update of fields the ledger does not look at -/
macro "bupd! " h:term:max : term =>
  `(both_upd _ (by simp) (by simp) (by simp) rfl rfl (fun _ hg => hg) (Nat.le_refl _) (by simp) rfl $h)

theorem quiet_of_not_nack {o : Out} (h : ∀ r t s, o ≠ .nack r t s) : o.quiet := by
  intro j
  cases o <;> first | rfl | exact absurd rfl (h _ _ _)

section
variable {m0 : Mon} {n0 : Nat → Nat} {b t : Bool} {k : Nat} {c : Ctx}

theorem same_popHs (c : Ctx) : Same c.popHs c := by
  unfold Ctx.popHs; split
  · exact ⟨rfl, rfl, rfl, rfl, rfl, rfl, fun _ => rfl⟩
  · exact ⟨rfl, rfl, rfl, rfl, rfl, rfl, (same_emit .orcMissing (fun _ => rfl) c).out⟩
theorem same_popRec (c : Ctx) : Same c.popRec c := by
  unfold Ctx.popRec; split
  · exact ⟨rfl, rfl, rfl, rfl, rfl, rfl, fun _ => rfl⟩
  · exact ⟨rfl, rfl, rfl, rfl, rfl, rfl, (same_emit .orcMissing (fun _ => rfl) c).out⟩
theorem same_popEnv (c : Ctx) : Same c.popEnv c := by
  unfold Ctx.popEnv; split
  · exact ⟨rfl, rfl, rfl, rfl, rfl, rfl, fun _ => rfl⟩
  · exact ⟨rfl, rfl, rfl, rfl, rfl, rfl, (same_emit .orcMissing (fun _ => rfl) c).out⟩
theorem same_popCk (c : Ctx) : Same c.popCk c := by
  unfold Ctx.popCk; split
  · exact ⟨rfl, rfl, rfl, rfl, rfl, rfl, fun _ => rfl⟩
  · exact ⟨rfl, rfl, rfl, rfl, rfl, rfl, (same_emit .orcMissing (fun _ => rfl) c).out⟩

theorem both_popRec (h : Both m0 n0 b t k c) : Both m0 n0 b t k c.popRec := both_same h (fun _ => popRec_inv) (same_popRec c)
theorem both_popEnv (h : Both m0 n0 b t k c) : Both m0 n0 b t k c.popEnv := both_same h (fun _ => popEnv_inv) (same_popEnv c)
theorem both_popCk (h : Both m0 n0 b t k c) : Both m0 n0 b t k c.popCk := both_same h (fun _ => popCk_inv) (same_popCk c)

/-- a session update of fields the ledger does not look at -/
theorem same_upd (f : Sess → Sess) (c : Ctx) (hdq : (f c.s).delayq = c.s.delayq) (hin : (f c.s).inflight = c.s.inflight)
    (hlg : (f c.s).lgCrcv = c.s.lgCrcv) (hnx : (f c.s).next = c.s.next) (hst : (f c.s).state = c.s.state)
    (hfr : (f c.s).freed = c.s.freed) : Same (c.upd f) c := ⟨hdq, hin, hlg, hnx, hst, hfr, fun _ => rfl⟩

/-- do_gnutls_handshake touches neither the queues nor the session state and reports nothing -/
theorem same_doHandshake (c : Ctx) : Same c.doHandshake c := by
  have h0 := same_popHs c
  unfold Ctx.doHandshake
  generalize c.popHs = c' at h0
  simp only
  have u : ∀ (f : Sess → Sess) (x : Ctx), (∀ s, (f s).delayq = s.delayq ∧ (f s).inflight = s.inflight ∧ (f s).lgCrcv = s.lgCrcv ∧
      (f s).next = s.next ∧ (f s).state = s.state ∧ (f s).freed = s.freed) → Same (x.upd f) x :=
    fun f x hf => same_upd f x (hf _).1 (hf _).2.1 (hf _).2.2.1 (hf _).2.2.2.1 (hf _).2.2.2.2.1 (hf _).2.2.2.2.2
  have e : ∀ (o : Out) (x : Ctx), (∀ r t s, o ≠ .nack r t s) → Same (x.emit o) x :=
    fun o x ho => same_emit o (quiet_of_not_nack ho) x
  split <;> (try split) <;>
    first
    | exact (same_setRet _ _).trans h0
    | exact (same_setRet _ _).trans ((e _ _ (by simp)).trans ((u _ _ (by simp)).trans h0))
    | exact (same_setRet _ _).trans ((u _ _ (by simp)).trans h0)
    | exact (same_setRet _ _).trans ((u _ _ (by simp)).trans ((u _ _ (by simp)).trans h0))
    | exact (same_setRet _ _).trans ((u _ _ (by simp)).trans ((u _ _ (by simp)).trans ((e _ _ (by simp)).trans h0)))

theorem both_doHandshake (h : Both m0 n0 b t k c) : Both m0 n0 b t k c.doHandshake :=
  both_same h (fun _ => doHandshake_inv) (same_doHandshake c)

theorem same_freeEnv (sb : Bool) (c : Ctx) : Same (c.freeEnv sb) c := by
  unfold Ctx.freeEnv
  simp only
  split
  · exact (same_upd _ _ rfl rfl rfl rfl rfl rfl).trans (same_emit .bye (fun _ => rfl) c)
  · exact same_upd _ _ rfl rfl rfl rfl rfl rfl

theorem same_dtlsFreeSession (c : Ctx) : Same c.dtlsFreeSession c := by
  unfold Ctx.dtlsFreeSession
  split
  · exact (same_emit _ (fun _ => rfl) _).trans ((same_upd _ _ rfl rfl rfl rfl rfl rfl).trans (same_freeEnv true c))
  · exact Same.rfl' c

theorem same_sessionClose (c : Ctx) : Same c.sessionClose c := by
  unfold Ctx.sessionClose
  split
  · exact Same.rfl' c
  · exact same_dtlsFreeSession c
  · exact (same_upd _ _ rfl rfl rfl rfl rfl rfl).trans (same_dtlsFreeSession c)

theorem same_relTail (st0 : SState) (c : Ctx) : Same (c.relTail st0) c := by
  unfold Ctx.relTail
  split
  · simp only
    refine (same_upd _ _ rfl rfl rfl rfl rfl rfl).trans ?_
    have h1 : Same (if c.s.sockOpen = true then c.emit (.evTcp (if st0 = .connecting then .failed else .closed)) else c) c := by
      split
      · exact same_emit _ (fun _ => rfl) c
      · exact Same.rfl' c
    split
    · exact (same_emit _ (fun _ => rfl) _).trans h1
    · exact h1
  · exact Same.rfl' c

end

/-! ## giving the delay queue up: coap_session_disconnected_lkd, coap_session_mfree -/

section
variable {m0 : Mon} {n0 : Nat → Nat} {b t : Bool} {k : Nat} {c : Ctx}

/-- what follows the delay-queue NACKs in `discOuts` when nothing is in flight -/
def discRestL (c : Ctx) (r : Nack) : List Out :=
  if (c.s.delayq.filter fun q : QMsg => q.con) = [] then
    (match c.s.lgCrcv with | g :: _ => [nackOf r g] | [] => [Out.nack r none none])
  else []

theorem discOuts_eqL (c : Ctx) (r : Nack) (hr : r ≠ .icmp) (hi : c.s.inflight = []) :
    c.discOuts r = (c.s.delayq.filter fun q : QMsg => q.con).map (nackOf r) ++ discRestL c r := by
  unfold Ctx.discOuts Ctx.discLg Ctx.discFirst Ctx.discDq discRestL
  by_cases hf : (c.s.delayq.filter fun q : QMsg => q.con) = []
  · cases hl : c.s.lgCrcv <;> simp [hr, hi, hf, hl]
  · cases hl : c.s.lgCrcv <;> simp [hr, hi, hf, hl]

theorem discOuts_icmp_quiet (c : Ctx) : ∀ o ∈ c.discOuts .icmp, o.quiet := by
  intro o ho j
  unfold Ctx.discOuts at ho
  simp only [List.mem_append] at ho
  rcases ho with ((ho | ho) | ho) | ho
  · obtain ⟨q, rfl⟩ := discFirst_nack _ c o ho; simp [reports_nackOf]
  · obtain ⟨q, rfl⟩ := discDq_nack _ c o ho; simp [reports_nackOf]
  · obtain ⟨q, rfl⟩ := discLg_nack _ c o ho; simp [reports_nackOf]
  · split at ho
    · simp at ho; subst ho; rfl
    · simp at ho

theorem core_disconnected (r : Nack) (h : Core n0 t k c) : Core n0 t k (c.disconnected r) := by
  unfold Ctx.disconnected
  simp only
  by_cases hr : r = .icmp
  · subst hr
    simp only [if_true]
    exact core_same (same_outs _ (discOuts_icmp_quiet c) c) h
  · simp only [hr, if_false]
    refine core_same (same_sessionClose _) (core_same (same_relTail _ _) ?_)
    refine core_flushq h r hr (discRestL c r) ?_ rfl rfl rfl rfl ?_
    · unfold discRestL
      by_cases hf : (c.s.delayq.filter fun q : QMsg => q.con) = []
      · cases hl : c.s.lgCrcv with
        | nil => left; intro j; simp [hf, nk, Out.reports]
        | cons g t' =>
          right
          refine ⟨hf, g, by simp, ?_⟩
          intro j
          by_cases hj : g.sn = j <;> simp [hf, nk, reports_nackOf, hr, hj]
      · left; intro j; simp [hf]
    · simp [Ctx.upd, h.infl, discOuts_eqL c r hr h.infl]

theorem both_disconnected (r : Nack) (h : Both m0 n0 b t k c) : Both m0 n0 b t k (c.disconnected r) :=
  both_mk h (fun _ => disconnected_inv r) (core_disconnected r)

theorem core_sessionFree (h : Core n0 t k c) : Core n0 t k c.sessionFree := by
  unfold Ctx.sessionFree
  simp only
  have h1 : Core n0 t k (c.upd fun s => { s with lgCrcv := [] }) :=
    core_keep h rfl rfl (fun g hg => by simp [Ctx.upd] at hg) (Nat.le_refl _) id rfl fun _ => rfl
  have h2 := core_same (same_sessionClose _) h1
  have hl2 : (c.upd fun s => { s with lgCrcv := [] }).sessionClose.s.lgCrcv = [] := (same_sessionClose _).lg
  generalize (c.upd fun s => { s with lgCrcv := [] }).sessionClose = c2 at h2 hl2
  have hr : (if c2.s.proto = .dtls then Nack.tls else Nack.undeliv) ≠ .icmp := by split <;> decide
  exact core_flushq h2 _ hr [] (Or.inl fun _ => rfl) rfl h2.infl hl2 rfl (by simp [Ctx.upd])

theorem both_sessionFree (h : Both m0 n0 b t k c) : Both m0 n0 b t k c.sessionFree :=
  both_mk h (fun _ => sessionFree_inv) core_sessionFree

theorem both_maybeFree (h : Both m0 n0 b t k c) : Both m0 n0 b t k c.maybeFree := by
  unfold Ctx.maybeFree
  split
  · exact both_sessionFree h
  · exact h

/-! ## coap_send before the oracle's success: held or refused -/

/-- coap_send_internal on a session that is not established: refused (server session in state NONE, message id already
waiting) or appended to the delay queue -/
theorem sendPdu_pre (m : QMsg) (ack : Bool) (c : Ctx) (hs : c.s.state ≠ .established) :
    c.sendPdu m ack false = c.setRet (-1) ∨
    c.sendPdu m ack false = (c.upd fun s => { s with delayq := s.delayq ++ [m] }).setRet DELAYED := by
  unfold Ctx.sendPdu
  split
  · exact Or.inl rfl
  · split
    · unfold Ctx.delayPdu
      simp only [Bool.false_eq_true, if_false]
      split
      · exact Or.inl rfl
      · exact Or.inr rfl
    · rename_i hne
      simp [hs] at hne

theorem sendInternal_pre (m : QMsg) (ack : Bool) (c : Ctx) (hs : c.s.state ≠ .established) :
    c.sendInternal m ack = (c.setRet (-1)).emit .sendfail ∨
    c.sendInternal m ack = (c.upd fun s => { s with delayq := s.delayq ++ [m] }).setRet DELAYED := by
  unfold Ctx.sendInternal
  rcases sendPdu_pre m ack c hs with e | e <;> simp only [e]
  · left; simp [Ctx.setRet, DELAYED]
  · right; simp [Ctx.setRet]

theorem core_refused (h : Core n0 t k c) : Core n0 t k ((c.setRet (-1)).emit .sendfail) :=
  core_same ((same_emit _ (fun _ => rfl) _).trans (same_setRet _ _)) h

theorem core_delayed {m : QMsg} (h : Core n0 t k c) (hf : Fresh n0 m c) :
    Core n0 t k ((c.upd fun s => { s with delayq := s.delayq ++ [m] }).setRet DELAYED) :=
  core_enq h hf rfl rfl (fun g hg => Or.inr hg) rfl rfl rfl fun _ => rfl

theorem both_sendInternal (m : QMsg) (ack : Bool) (h : Both m0 n0 b t k c) (hf : Core n0 t k c → Fresh n0 m c) :
    Both m0 n0 b t k (c.sendInternal m ack) := by
  refine ⟨sendInternal_inv m ack h.inv, ?_⟩
  rcases h.led with hs | hc
  · exact Or.inl ((sendInternal_inv m ack (h.inv.strengthen hs)).known rfl)
  · by_cases hst : c.s.state = .established
    · exact Or.inl ((sendInternal_inv m ack (h.inv.strengthen (h.inv.st hst))).known rfl)
    · rcases sendInternal_pre m ack c hst with e | e <;> rw [e]
      · exact Or.inr (core_refused hc)
      · exact Or.inr (core_delayed hc (hf hc))

theorem eraseTok_subset (tok : String) (l : List QMsg) : ∀ g ∈ eraseTok tok l, g ∈ l := by
  induction l with
  | nil => simp [eraseTok]
  | cons a t' ih =>
    intro g hg
    unfold eraseTok at hg
    split at hg
    · simp [hg]
    · simp only [List.mem_cons] at hg ⊢
      rcases hg with rfl | hg
      · exact Or.inl rfl
      · exact Or.inr (ih g hg)

theorem both_sendLkdTail (m : QMsg) (obs : Bool) (h : Both m0 n0 b t k c) (hf : Core n0 t k c → Fresh n0 m c) :
    Both m0 n0 b t k (c.sendLkdTail m obs) := by
  refine ⟨sendLkdTail_inv m obs h.inv, ?_⟩
  rcases h.led with hs | hc
  · exact Or.inl ((sendLkdTail_inv m obs (h.inv.strengthen hs)).known rfl)
  · by_cases hst : c.s.state = .established
    · exact Or.inl ((sendLkdTail_inv m obs (h.inv.strengthen (h.inv.st hst))).known rfl)
    · have hplain := (both_sendInternal (m0 := m0) (n0 := n0) (b := b) m false ⟨h.inv, Or.inr hc⟩ hf).led
      unfold Ctx.sendLkdTail
      split
      · exact hplain
      · split
        · simp only
          have hc1 : Core n0 t k (c.upd fun s => { s with lgCrcv := eraseTok m.tok s.lgCrcv }) :=
            core_keep hc rfl rfl (eraseTok_subset _ _) (Nat.le_refl _) id rfl fun _ => rfl
          have hf0 := hf hc
          have hf1 : Fresh n0 m (c.upd fun s => { s with lgCrcv := eraseTok m.tok s.lgCrcv }) :=
            ⟨hf0.dq, fun g hg => hf0.lg g (eraseTok_subset _ _ g hg), hf0.nx, hf0.nk0⟩
          have hst1 : (c.upd fun s => { s with lgCrcv := eraseTok m.tok s.lgCrcv }).s.state ≠ .established := hst
          generalize (c.upd fun s => { s with lgCrcv := eraseTok m.tok s.lgCrcv }) = c1 at hc1 hf1 hst1
          rcases sendInternal_pre m false c1 hst1 with e | e <;> rw [e]
          · rw [if_neg (by simp [Ctx.setRet, Ctx.emit, DELAYED])]
            exact Or.inr (core_refused hc1)
          · rw [if_pos (by simp [Ctx.setRet, Ctx.upd])]
            right
            exact core_enq hc1 hf1 rfl rfl (fun g hg => by simpa [Ctx.upd, Ctx.setRet] using hg) rfl rfl rfl fun _ => rfl
        · exact hplain

end

/-- `both_upd` with the update spelled out -/
macro "bupdf! " f:term:max h:term:max : term =>
  `(both_upd $f (by simp) (by simp) (by simp) rfl rfl (fun _ hg => hg) (Nat.le_refl _) (by simp) rfl $h)

/-! ## the events -/

section
variable {m0 : Mon} {n0 : Nat → Nat} {b t : Bool} {k : Nat} {c : Ctx}

/-- the message made from the next serial is fresh -/
theorem fresh_next (m : QMsg) (hm : m.sn = c.s.next) (h : Core n0 t k c) :
    Fresh n0 m (c.upd fun s => { s with next := s.next + 1 }) :=
  ⟨fun q hq => by rw [hm]; exact h.lt q hq, fun g hg => by rw [hm]; exact h.lgl g hg, by simp [Ctx.upd, hm],
   by rw [hm]; exact h.nf _ (Nat.le_refl _)⟩

theorem both_next (h : Both m0 n0 b t k c) : Both m0 n0 b t k (c.upd fun s => { s with next := s.next + 1 }) :=
  both_upd _ (by simp) (by simp) (by simp) rfl rfl (fun _ hg => hg) (Nat.le_succ _) (by simp) rfl h

theorem both_submitInternal (m : QMsg) (hm : m.sn = c.s.next) (ack : Bool) (h : Both m0 n0 b t k c) :
    Both m0 n0 b t k ((c.upd fun s => { s with next := s.next + 1 }).sendInternal m ack) := by
  rcases h.led with hs | hc
  · exact both_true (sendInternal_inv m ack (inv_upd _ (by simp) (by simp) (by simp) (h.inv.strengthen hs)))
  · exact both_sendInternal m ack (both_next h) fun _ => fresh_next m hm hc

theorem both_submitLkd (m : QMsg) (hm : m.sn = c.s.next) (obs : Bool) (h : Both m0 n0 b t k c) :
    Both m0 n0 b t k ((c.upd fun s => { s with next := s.next + 1 }).sendLkdTail m obs) := by
  rcases h.led with hs | hc
  · exact both_true (sendLkdTail_inv m obs (inv_upd _ (by simp) (by simp) (by simp) (h.inv.strengthen hs)))
  · exact both_sendLkdTail m obs (both_next h) fun _ => fresh_next m hm hc

theorem both_appSend (con : Bool) (code mid : Nat) (tok : String) (h : Both m0 n0 b t k c) :
    Both m0 n0 b t k (c.appSend con code mid tok) := by
  unfold Ctx.appSend
  exact both_submitInternal _ rfl false h

theorem both_appSendL (con obs : Bool) (code mid : Nat) (tok : String) (h : Both m0 n0 b t k c) :
    Both m0 n0 b t k (c.appSendL con obs code mid tok) := by
  unfold Ctx.appSendL
  exact both_submitLkd _ rfl obs h

theorem both_lgExpire (keep : List String) (h : Both m0 n0 b t k c) : Both m0 n0 b t k (c.lgExpire keep) := by
  unfold Ctx.lgExpire
  exact both_upd _ (by simp) (by simp) (by simp) rfl rfl (fun g hg => (List.mem_filter.mp hg).1) (Nat.le_refl _) (by simp) rfl h

theorem both_appSendStrm (w : Bool) (code mid : Nat) (tok : String) (h : Both m0 n0 b t k c) :
    Both m0 n0 b t k (c.appSendStrm w code mid tok) := by
  unfold Ctx.appSendStrm
  refine both_ite (fun _ => both_emit _ rfl (fun _ => rfl) h) fun _ =>
    both_ite (fun _ => both_emit _ rfl (fun _ => rfl) h) fun _ => ?_
  simp only
  have h0 := bupdf! (fun s => { s with doingFirst := false }) h
  have h1 : Both m0 n0 b t k (if c.s.doingFirst = true then
      (if (c.upd fun s => { s with doingFirst := false }).s.state = .csm
       then (c.upd fun s => { s with doingFirst := false }).emit (.unmodelled "csm-timeout")
       else c.upd fun s => { s with doingFirst := false }) else c) :=
    both_ite (fun _ => both_ite (fun _ => both_emit _ rfl (fun _ => rfl) h0) fun _ => h0) fun _ => h
  exact both_submitLkd _ rfl false h1

theorem both_tlsTail (h : Both m0 n0 b t k c) : Both m0 n0 b t k c.tlsTail := by
  unfold Ctx.tlsTail
  split
  · simp only
    rename_i e _
    have h1 := both_ite_emit (e ≠ .closed) (.ev e) rfl (fun _ => rfl) h
    exact both_ite (fun _ => both_setRet _ (both_disconnected _ h1)) fun _ => h1
  · exact h

theorem both_receiveTail (h : Both m0 n0 b t k c) : Both m0 n0 b t k c.receiveTail := by
  unfold Ctx.receiveTail
  split
  · simp only
    rename_i e _
    have h1 := both_ite_emit (e ≠ .closed) (.ev e) rfl (fun _ => rfl) h
    exact both_ite (fun _ => both_disconnected _ h1) fun _ => h1
  · exact h

theorem both_hsThenConnect (h : Both m0 n0 b t k c) : Both m0 n0 b t k c.hsThenConnect := by
  unfold Ctx.hsThenConnect
  simp only
  refine both_ite (fun hr => ?_) fun _ => both_setFlag _ (both_doHandshake h)
  exact both_true (inv_setFlag _ (sessionConnected_inv (doHandshake_ret1 h.inv hr)))

theorem both_recvHs (h : Both m0 n0 b t k c) : Both m0 n0 b t k c.recvHs := by
  unfold Ctx.recvHs
  simp only
  have h1 := both_hsThenConnect h
  apply both_receiveTail
  refine both_ite (fun _ => h1) fun _ => ?_
  split
  · exact both_ite (fun _ => both_hsThenConnect h1) fun _ => h1
  · exact h1

theorem both_dtlsReceive (h : Both m0 n0 b t k c) : Both m0 n0 b t k c.dtlsReceive := by
  unfold Ctx.dtlsReceive
  simp only
  have h1 := bupdf! (fun s => { s with dtlsEvent := none }) h
  refine both_ite (fun he => ?_) fun _ => both_recvHs h1
  exact both_true (recvEst_inv (h1.inv.strengthen (h1.inv.est he)))

theorem both_tlsTimeout (h : Both m0 n0 b t k c) : Both m0 n0 b t k c.tlsTimeout := by
  unfold Ctx.tlsTimeout
  refine both_ite (fun _ => h) fun _ => ?_
  simp only
  have h1 := bupdf! (fun s => { s with tmoCount := s.tmoCount + 1 }) h
  refine both_ite (fun _ => both_disconnected _ h1) fun _ => ?_
  exact both_ite (fun _ => both_disconnected _ (both_doHandshake h1)) fun _ => both_doHandshake h1

theorem both_retransmit (mid : Nat) (h : Both m0 n0 b t k c) : Both m0 n0 b t k (c.retransmit mid) := by
  rcases h.led with hs | hc
  · exact both_true (retransmit_inv mid (h.inv.strengthen hs))
  · unfold Ctx.retransmit
    simp [hc.infl]
    exact h

theorem both_freeEnv (sb : Bool) (h : Both m0 n0 b t k c) : Both m0 n0 b t k (c.freeEnv sb) :=
  both_same h (fun _ => freeEnv_inv sb) (same_freeEnv sb c)

theorem both_dtlsHello (h : Both m0 n0 b t k c) : Both m0 n0 b t k c.dtlsHello := by
  unfold Ctx.dtlsHello
  simp only
  have h1 : Both m0 n0 b t k (if (!c.s.tls) = true then
      (if c.popEnv.flag = true then c.popEnv.upd fun s => { s with tls := true } else c.popEnv) else c) :=
    both_ite (fun _ => both_ite (fun _ => bupd! (both_popEnv h)) fun _ => both_popEnv h) fun _ => h
  generalize (if (!c.s.tls) = true then
      (if c.popEnv.flag = true then c.popEnv.upd fun s => { s with tls := true } else c.popEnv) else c) = c1 at h1
  refine both_ite (fun _ => both_setRet _ h1) fun _ => ?_
  have h2 := both_popCk h1
  refine both_ite (fun _ => both_setRet _ (both_emit _ rfl (fun _ => rfl) h2)) fun _ => ?_
  have h3 := both_doHandshake h2
  refine both_ite (fun _ => ?_) fun _ => both_setRet _ h3
  exact both_setRet _ (bupd! (both_freeEnv _ h3))

theorem both_handleDgramForProto (h : Both m0 n0 b t k c) : Both m0 n0 b t k c.handleDgramForProto := by
  unfold Ctx.handleDgramForProto
  split
  · exact both_emit _ rfl (fun _ => rfl) h
  · exact h
  · refine both_ite (fun _ => ?_) fun _ => both_ite (fun _ => both_dtlsReceive h) fun _ => h
    simp only
    have h1 := both_dtlsHello h
    refine both_ite (fun _ => ?_) fun _ => h1
    have h2 := bupdf! (fun s => { s with typ := .server, state := .handshake }) h1
    exact both_ite (fun _ => both_disconnected _ h2) fun _ => h2

theorem both_tlsEstablish (h : Both m0 n0 b t k c) : Both m0 n0 b t k c.tlsEstablish := by
  unfold Ctx.tlsEstablish
  simp only
  have h1 := both_popEnv (bupdf! (fun s => { s with state := .handshake }) h)
  refine both_ite (fun _ => both_disconnected _ h1) fun _ => ?_
  have h2 := bupdf! (fun s => { s with tls := true }) h1
  refine both_ite (fun hr => ?_) fun _ => both_doHandshake h2
  exact both_true (sendCsm_inv (inv_emit_inert _ rfl (doHandshake_ret1 h2.inv hr)))

theorem both_tlsReadHs (h : Both m0 n0 b t k c) : Both m0 n0 b t k c.tlsReadHs := by
  unfold Ctx.tlsReadHs
  refine both_ite (fun _ => ?_) fun _ => both_setRet _ h
  simp only
  refine both_ite (fun hr => ?_) fun _ => both_doHandshake h
  exact both_true (inv_setRet _ (sendCsm_inv (inv_emit_inert _ rfl (doHandshake_ret1 h.inv hr))))

theorem both_readEnd (h : Both m0 n0 b t k c) : Both m0 n0 b t k c.readEnd := by
  unfold Ctx.readEnd
  simp only
  exact both_ite (fun _ => both_disconnected _ (both_tlsTail h)) fun _ => both_tlsTail h

theorem both_strmRead (h : Both m0 n0 b t k c) : Both m0 n0 b t k c.strmRead := by
  unfold Ctx.strmRead
  refine both_ite (fun _ => both_disconnected _ h) fun _ => ?_
  simp only
  have h1 := both_tlsReadHs (bupdf! (fun s => { s with dtlsEvent := none }) h)
  generalize (c.upd fun s => { s with dtlsEvent := none }).tlsReadHs = c1 at h1
  refine both_ite (fun he => ?_) fun _ => both_readEnd h1
  have he' : c1.s.est = true := by simp at he; exact he.2
  have h2 : Inv m0 true c1.popRec := popRec_inv (h1.inv.strengthen (h1.inv.est he'))
  apply both_true
  split
  · have h3 := tlsTail_inv (inv_setRet 1 h2)
    exact inv_ite (fun _ => dispatchStrm_inv _ h3) fun _ => inv_ite (fun _ => disconnected_inv _ h3) fun _ => h3
  · exact inv_emit_inert _ rfl h2
  · exact readEnd_inv (inv_setRet _ (inv_upd_true _ (by simp) h2))
  · exact readEnd_inv (inv_setRet _ h2)
  · exact readEnd_inv (inv_setRet _ (inv_upd_true _ (by simp) h2))
  · exact readEnd_inv (inv_setRet _ (inv_upd_true _ (by simp) h2))
  · exact readEnd_inv (inv_setRet _ (inv_upd_true _ (by simp) h2))
  · exact readEnd_inv (inv_setRet _ h2)

theorem both_tcpConnect (ok : Bool) (h : Both m0 n0 b t k c) : Both m0 n0 b t k (c.tcpConnect ok) := by
  unfold Ctx.tcpConnect
  exact both_ite (fun _ => both_tlsEstablish (both_emit _ rfl (fun _ => rfl) h)) fun _ =>
    both_disconnected _ (both_emit _ rfl (fun _ => rfl) h)

theorem both_strmWrite (h : Both m0 n0 b t k c) : Both m0 n0 b t k c.strmWrite := by
  unfold Ctx.strmWrite
  exact both_ite (fun _ => h) fun _ => both_emit _ rfl (fun _ => rfl) h

theorem both_dtlsEstablishClient (h : Both m0 n0 b t k c) : Both m0 n0 b t k c.dtlsEstablishClient := by
  unfold Ctx.dtlsEstablishClient
  simp only
  have h1 := both_popEnv (bupdf! (fun s => { s with state := .handshake }) h)
  generalize (c.upd fun s => { s with state := .handshake }).popEnv = c1 at h1
  have h2 : Both m0 n0 b t k (if c1.flag = true then
      (if c1.doHandshake.ret = -1 then c1.doHandshake.freeEnv true else c1.doHandshake.upd fun s => { s with tls := true }) else c1) :=
    both_ite (fun _ => both_ite (fun _ => both_freeEnv _ (both_doHandshake h1)) fun _ => bupd! (both_doHandshake h1)) fun _ => h1
  exact both_ite (fun _ => both_disconnected _ h2) fun _ => h2

/-- one whole event keeps the gate invariant and the ledger -/
theorem stepCtx_both (s : Sess) (e : Ev) (orc : List Orc) (h : Both m0 n0 false t k { s := s, orc := orc }) :
    Both m0 n0 false t k (s.stepCtx e orc) := by
  unfold Sess.stepCtx
  simp only
  refine both_ite (fun _ => h) fun _ => ?_
  split
  · exact both_appSend _ _ _ _ h
  · exact both_maybeFree (both_handleDgramForProto h)
  · exact both_tlsTimeout h
  · exact both_maybeFree (both_retransmit _ h)
  · exact both_disconnected _ h
  · exact both_maybeFree (bupd! h)
  · exact both_sessionFree (both_emit _ rfl (fun _ => rfl) h)
  · exact both_maybeFree (both_tcpConnect _ h)
  · exact both_maybeFree (both_strmRead h)
  · exact both_maybeFree (both_strmWrite h)
  · exact both_appSendStrm _ _ _ _ h
  · exact both_appSendL _ _ _ _ _ h
  · exact both_lgExpire _ h

end

/-! ## from one event to the next -/

/-- the ledger at the start of the next event: what this event reported joins the earlier counts -/
theorem core_rebase {n0 t k} {c : Ctx} (orc : List Orc) (h : Core n0 t k c) :
    Core (fun j => n0 j + nk j c.out) t k { s := c.s, orc := orc } := by
  obtain ⟨a1, a2, a3, a4, a5, a6, a7, a8, a9, a10⟩ := h
  exact ⟨a1, a2, a3, a4, a5, by simpa using a6, by simpa using a7, by simpa using a8, by simpa using a9, by simpa using a10⟩

/-- start tracking a Confirmable that is in the delay queue of a session that has not failed -/
theorem core_track {n0 t k} {c : Ctx} (h : Core n0 t k c) (q : QMsg) (hq : q ∈ c.s.delayq) (hc : q.con = true)
    (hs : c.s.state ≠ .none) (hf : c.s.freed = false) : Core n0 true q.sn c :=
  ⟨h.infl, h.srt, h.lt, h.lgl, h.lgc, h.n1, h.nq, h.ng, h.nf, fun _ => Or.inl ⟨q, hq, rfl, hc, hs, hf⟩⟩

theorem core_untrack {n0 t k} {c : Ctx} (h : Core n0 t k c) : Core n0 false k c :=
  ⟨h.infl, h.srt, h.lt, h.lgl, h.lgc, h.n1, h.nq, h.ng, h.nf, fun ht => by simp at ht⟩

end Coap.TlsGate
