import CoapVerif.Model.ObserveToken
import CoapVerif.Lemmas.ObserveFrame
/-
C11: the TOKEN of an observation is the whole byte string, its length included.
 (1) coap_binary_equal (Model/ObserveToken.lean `binaryEqual`: length first, then memcmp) holds exactly for equal byte strings;
     M's `token : Nat` is the injective encoding `tokNat` of the bytes, so M's comparisons `matchST` (coap_find_observer,
     coap_remove_failed_observers) and `matchQT` (coap_cancel_all_messages) ARE coap_binary_equal on the bytes.
 (2) frame: whatever removes the observer named by ONE token (coap_delete_observer, the Observe=1 request, coap_cancel for a Reset,
     coap_handle_failed_notify) leaves every entry of the same client under ANOTHER token exactly where it was — in particular an
     entry whose token merely starts with the bytes named (or any entry when the empty token is named).
-/
namespace Coap.Observe

/-! ### (1) coap_binary_equal -/

theorem memcmpEq_iff : ∀ (n : Nat) (a b : List Nat), a.length = n → b.length = n → (memcmpEq n a b = true ↔ a = b)
  | 0, a, b, ha, hb => by
    rw [List.eq_nil_of_length_eq_zero ha, List.eq_nil_of_length_eq_zero hb]
    simp [memcmpEq]
  | n + 1, [], _, ha, _ => by simp at ha
  | n + 1, _ :: _, [], _, hb => by simp at hb
  | n + 1, x :: a, y :: b, ha, hb => by
    have ih := memcmpEq_iff n a b (by simpa using ha) (by simpa using hb)
    simp only [memcmpEq, Bool.and_eq_true, beq_iff_eq, ih, List.cons.injEq]

/-- coap_binary_equal says yes exactly for equal byte strings (equal length AND equal bytes) -/
theorem binaryEqual_iff (a b : List Nat) : binaryEqual a b = true ↔ a = b := by
  unfold binaryEqual
  constructor
  · intro h
    simp only [Bool.and_eq_true, beq_iff_eq, Bool.or_eq_true] at h
    obtain ⟨hl, h2⟩ := h
    rcases h2 with h0 | hm
    · have ha : a = [] := List.eq_nil_of_length_eq_zero h0
      have hb : b = [] := List.eq_nil_of_length_eq_zero (by omega)
      rw [ha, hb]
    · exact (memcmpEq_iff a.length a b rfl hl.symm).mp hm
  · intro h
    subst h
    simp only [beq_self_eq_true, Bool.true_and, Bool.or_eq_true, beq_iff_eq]
    exact Or.inr ((memcmpEq_iff a.length a a rfl rfl).mpr rfl)

/-- a proper prefix (the empty token included) is another token -/
theorem binaryEqual_proper_prefix (t : List Nat) (x : Nat) (xs : List Nat) : binaryEqual t (t ++ x :: xs) = false := by
  rw [Bool.eq_false_iff]
  intro h
  have := congrArg List.length ((binaryEqual_iff _ _).mp h)
  simp at this

theorem natTok_zero : natTok 0 = [] := by rw [natTok]
theorem natTok_succ (n : Nat) : natTok (n + 1) = (n % 257) :: natTok (n / 257) := by rw [natTok]

/-- `natTok` decodes `tokNat` -/
theorem natTok_tokNat : ∀ t : List Nat, (∀ x ∈ t, x < 256) → natTok (tokNat t) = t
  | [], _ => by simp [tokNat, encBytes, natTok_zero]
  | b :: r, h => by
    have hb : b < 256 := h b (by simp)
    have ih := natTok_tokNat r (fun x hx => h x (by simp [hx]))
    unfold tokNat at ih ⊢
    have e : encBytes (b :: r) = (encBytes r * 257 + b) + 1 := by simp only [encBytes]; omega
    have h1 : (encBytes r * 257 + b) % 257 = b := by omega
    have h2 : (encBytes r * 257 + b) / 257 = encBytes r := by omega
    rw [e, natTok_succ, h1, h2, ih]

theorem tokNat_injective (t u : List Nat) (ht : ∀ x ∈ t, x < 256) (hu : ∀ x ∈ u, x < 256) (h : tokNat t = tokNat u) : t = u := by
  rw [← natTok_tokNat t ht, ← natTok_tokNat u hu, h]

/-- M's test in coap_find_observer / coap_remove_failed_observers is coap_binary_equal on the token bytes -/
theorem matchST_is_binary_equal (c : Nat) (t u : List Nat) (s : Sub) (ht : ∀ x ∈ t, x < 256) (hu : ∀ x ∈ u, x < 256)
    (hs : s.token = tokNat u) : matchST c (tokNat t) s = findObserverMatch c t s := by
  unfold matchST findObserverMatch
  rw [hs, natTok_tokNat u hu]
  congr 1
  rw [Bool.eq_iff_iff, beq_iff_eq, binaryEqual_iff]
  exact ⟨fun h => (tokNat_injective u t hu ht h).symm, fun h => by rw [h]⟩

/-- M's test in coap_cancel_all_messages is coap_binary_equal on the token bytes -/
theorem matchQT_is_binary_equal (c : Nat) (t u : List Nat) (q : QNode) (ht : ∀ x ∈ t, x < 256) (hu : ∀ x ∈ u, x < 256)
    (hq : q.token = tokNat u) : matchQT c (tokNat t) q = (q.sess == c && binaryEqual u t) := by
  unfold matchQT
  rw [hq]
  congr 1
  rw [Bool.eq_iff_iff, beq_iff_eq, binaryEqual_iff]
  exact ⟨fun h => tokNat_injective u t hu ht h, fun h => by rw [h]⟩

/-! ### (2) frame: the entries under other tokens -/

/-- the entries selected by `f`, resource by resource, in list order -/
def subsWhere (f : Sub → Bool) (st : State) : List (Nat × Bool × List Sub) :=
  st.res.map fun y => (y.id, y.alive, y.subs.filter f)

theorem subsWhere_modSess (f : Sub → Bool) (st : State) (c : Nat) (g : Sess → Sess) : subsWhere f (modSess st c g) = subsWhere f st := rfl

theorem subsWhere_modRes (f : Sub → Bool) (st : State) (r : Nat) (g : Res → Res)
    (hg : ∀ y, (g y).id = y.id ∧ (g y).alive = y.alive ∧ (g y).subs.filter f = y.subs.filter f) :
    subsWhere f (modRes st r g) = subsWhere f st := by
  unfold subsWhere modRes mapRes
  dsimp only
  rw [List.map_map]
  apply List.map_congr_left
  intro y _
  simp only [Function.comp]
  split
  · rw [(hg y).1, (hg y).2.1, (hg y).2.2]
  · rfl

/-- coap_delete_observer(resource, session, token) leaves every entry the token does not name -/
theorem deleteObserver_keeps (f : Sub → Bool) (st : State) (r c tok : Nat) (h : ∀ s, matchST c tok s = true → f s = false) :
    subsWhere f (deleteObserver st r c tok) = subsWhere f st := by
  unfold deleteObserver
  split
  · rfl
  · split
    · unfold refDec
      rw [subsWhere_modSess]
      apply subsWhere_modRes
      intro y
      exact ⟨rfl, rfl, filter_eraseP_other _ f h y.subs⟩
    · rfl

theorem cancelAllMessages_keeps (f : Sub → Bool) (st : State) (c tok : Nat) : subsWhere f (cancelAllMessages st c tok) = subsWhere f st := rfl

theorem foldl_keeps (f : Sub → Bool) (g : State → Nat → State) (hg : ∀ s rid, subsWhere f (g s rid) = subsWhere f s) :
    ∀ (l : List Nat) (st : State), subsWhere f (l.foldl g st) = subsWhere f st
  | [], _ => rfl
  | a :: l, st => by rw [List.foldl_cons, foldl_keeps f g hg l, hg]

/-- coap_cancel(context, sent) — the Reset of a queued Confirmable — over all resources -/
theorem cancelSent_keeps (f : Sub → Bool) (st : State) (c tok : Nat) (h : ∀ s, matchST c tok s = true → f s = false) :
    subsWhere f (cancelSent st c tok) = subsWhere f st := by
  unfold cancelSent
  apply foldl_keeps
  intro s rid
  split
  · rw [deleteObserver_keeps f _ rid c tok h, cancelAllMessages_keeps]
  · rfl

theorem removeFailedOne_keeps (f : Sub → Bool) (st : State) (x : Res) (c tok : Nat) (h : ∀ s, matchST c tok s = true → f s = false)
    (hf : ∀ s n, f { s with failCnt := n } = f s) :
    subsWhere f (removeFailedOne st x c tok) = subsWhere f st := by
  unfold removeFailedOne
  split
  · rfl
  · split
    · rw [deleteObserver_keeps f _ x.id c tok h, cancelAllMessages_keeps]
    · apply subsWhere_modRes
      intro y
      refine ⟨rfl, rfl, ?_⟩
      dsimp only
      induction y.subs with
      | nil => rfl
      | cons a t ih =>
        unfold modFirst
        by_cases hp : matchST c tok a = true
        · rw [if_pos hp, List.filter_cons_of_neg (by rw [hf]; simp [h a hp]), List.filter_cons_of_neg (by simp [h a hp])]
        · rw [if_neg hp]
          by_cases hfa : f a = true
          · rw [List.filter_cons_of_pos hfa, List.filter_cons_of_pos hfa, ih]
          · rw [List.filter_cons_of_neg hfa, List.filter_cons_of_neg hfa, ih]

/-- coap_handle_failed_notify(context, session, token) — retransmission give-up -/
theorem handleFailedNotify_keeps (f : Sub → Bool) (st : State) (c tok : Nat) (h : ∀ s, matchST c tok s = true → f s = false)
    (hf : ∀ s n, f { s with failCnt := n } = f s) :
    subsWhere f (handleFailedNotify st c tok) = subsWhere f st := by
  unfold handleFailedNotify
  apply foldl_keeps
  intro s rid
  split
  · exact removeFailedOne_keeps f s _ c tok h hf
  · rfl

/-- the token a Reset of message id `mid` from client c is attributed to: the queued Confirmable's, else the first entry's whose
    latest message id it is -/
def rstToken (st : State) (c mid : Nat) : Option Nat :=
  match (rxSession st c).sendq.find? (matchQ c mid) with
  | some q => some q.token
  | none => (findByMid (rxSession st c).res c mid).map (·.2)

/-- coap_dispatch, RST branch -/
theorem handleRst_keeps (f : Sub → Bool) (st : State) (c mid : Nat)
    (h : ∀ tok, rstToken st c mid = some tok → ∀ s, matchST c tok s = true → f s = false) :
    subsWhere f (handleRst st c mid) = subsWhere f st := by
  unfold handleRst
  unfold rstToken at h
  dsimp only at h ⊢
  split
  · rename_i q hq
    rw [hq] at h
    unfold refDec
    rw [subsWhere_modSess, cancelSent_keeps f _ c q.token (h q.token rfl)]
    rfl
  · rename_i hq
    rw [hq] at h
    split
    · rename_i rid tok hm
      rw [hm] at h
      rw [deleteObserver_keeps f _ rid c tok (h tok rfl)]
      rfl
    · rfl

/-- coap_delete_observer_request (Observe = 1): by token, else the entry with the request's cache key -/
theorem deleteObserverRequest_keeps (f : Sub → Bool) (st : State) (r c tok key : Nat)
    (h1 : ∀ s, matchST c tok s = true → f s = false)
    (h2 : ∀ y ∈ st.res, ∀ old ∈ y.subs, matchSK c key old = true → ∀ s, matchST c old.token s = true → f s = false) :
    subsWhere f (deleteObserverRequest st r c tok key) = subsWhere f st := by
  unfold deleteObserverRequest
  split
  · rfl
  · rename_i x hx
    split
    · exact deleteObserver_keeps f st r c tok h1
    · split
      · rename_i old hold
        have hxm : x ∈ st.res := List.mem_of_find?_eq_some hx
        exact deleteObserver_keeps f st r c old.token (h2 x hxm old (List.mem_of_find?_eq_some hold) (List.find?_some hold))
      · rfl

end Coap.Observe
