import CoapVerif.Spec.OscoreCtxSeq
import CoapVerif.Model.OscoreSrv
import CoapVerif.Lemmas.OscoreSeq
import CoapVerif.Lemmas.OscoreCtx
/- Helper lemmas for the "several contexts on one server session" theorems of C14 (Props/C14.lean): S's token ↦ (binding,
context) store (Spec/OscoreCtxSeq.lean) and libcoap's server-side association list (Model/OscoreSrv.lean). -/
namespace Coap
open Coap.Spec.Oscore

/-! ### S -/

theorem cFind_cDel (st : CStore) (t t' : Bytes) :
    cFind (cDel st t') t = if t = t' then none else cFind st t :=
  find_filter_key (fun e : CEntry => e.token) st t t'

theorem cFind_cSet (st : CStore) (e : CEntry) (t : Bytes) :
    cFind (cSet st e) t = if e.token = t then some e else cFind st t := by
  unfold cSet
  by_cases h : e.token = t
  · simp [cFind, h]
  · have h' : ¬ t = e.token := fun x => h x.symm
    have := cFind_cDel st t e.token
    simp only [h', if_false] at this
    simp only [h, if_false, ← this]
    simp [cFind, h]

theorem cFind_recv_ne (cipher : Bytes → Bytes → Bytes) (cs : List Ctx) (st : CStore) (pm : Msg) (t : Bytes)
    (h : pm.token ≠ t) : cFind (serverRecvAny cipher cs st pm).2 t = cFind st t := by
  unfold serverRecvAny
  split
  · simp only
    rw [cFind_cSet]
    simp [h]
  · rfl

theorem cFind_send_ne (cipher : Bytes → Bytes → Bytes) (st : CStore) (m : Msg) (ask : Bool) (seq : Nat) (sepMid : Option Nat)
    (t : Bytes)
    (h : m.token ≠ t) (r : Msg) (st' : CStore) (hs : serverSendAny cipher st m ask seq sepMid = some (r, st')) :
    cFind st' t = cFind st t := by
  have h' : ¬ t = m.token := fun x => h x.symm
  unfold serverSendAny at hs
  cases hf : cFind st m.token with
  | none => simp [hf] at hs
  | some e =>
    simp only [hf] at hs
    cases hp : protectResponseFor cipher e.ctx e.b e.observe m ask seq sepMid with
    | none => simp [hp] at hs
    | some r0 =>
      simp only [hp, Option.some.injEq, Prod.mk.injEq] at hs
      rw [← hs.2]
      by_cases hk : e.keep = true
      · simp [hk]
      · simp only [hk, if_false, Bool.false_eq_true]
        rw [cFind_cDel]
        simp [h']

/-- an event that concerns another token leaves the entry of `t` alone -/
theorem cFind_step_ne (cipher : Bytes → Bytes → Bytes) (cs : List Ctx) (st : CStore) (s : XStep) (t : Bytes)
    (h : s.token ≠ t) : cFind (serverStepAny cipher cs st s) t = cFind st t := by
  cases s with
  | recv pm => exact cFind_recv_ne cipher cs st pm t h
  | send m ask seq sepMid =>
    simp only [serverStepAny]
    cases hs : serverSendAny cipher st m ask seq sepMid with
    | none => rfl
    | some x => exact cFind_send_ne cipher st m ask seq sepMid t h x.1 x.2 hs

theorem cFind_run_ne (cipher : Bytes → Bytes → Bytes) (cs : List Ctx) (steps : List XStep) (t : Bytes)
    (h : ∀ s ∈ steps, s.token ≠ t) : ∀ st, cFind (serverRunAny cipher cs st steps) t = cFind st t := by
  induction steps with
  | nil => intro st; rfl
  | cons s rest ih =>
    intro st
    unfold serverRunAny
    rw [List.foldl_cons]
    have := ih (fun x hx => h x (List.mem_cons_of_mem _ hx)) (serverStepAny cipher cs st s)
    unfold serverRunAny at this
    rw [this]
    exact cFind_step_ne cipher cs st s t (h s List.mem_cons_self)

/-- a request that no held context verifies binds nothing and re-binds nothing (D14.15 / D14.19) -/
theorem serverRecvAny_rej (cipher : Bytes → Bytes → Bytes) (cs : List Ctx) (st : CStore) (pm : Msg)
    (h : ∀ x b, unprotectRequestAny cipher cs pm ≠ .ok x b) : (serverRecvAny cipher cs st pm).2 = st := by
  unfold serverRecvAny
  split
  · rename_i x b c hx _
    exact absurd hx (h x b)
  · rfl

/-- an event that leaves the entry of token `t` alone: it concerns another token, or it is a request (with whatever
token) that does not verify -/
def XStepLeaves (cipher : Bytes → Bytes → Bytes) (cs : List Ctx) (t : Bytes) (s : XStep) : Prop :=
  s.token ≠ t ∨ ∃ pm, s = .recv pm ∧ ∀ x b, unprotectRequestAny cipher cs pm ≠ .ok x b

theorem cFind_step_leaves (cipher : Bytes → Bytes → Bytes) (cs : List Ctx) (st : CStore) (s : XStep) (t : Bytes)
    (h : XStepLeaves cipher cs t s) : cFind (serverStepAny cipher cs st s) t = cFind st t := by
  rcases h with h | ⟨pm, hs, hrej⟩
  · exact cFind_step_ne cipher cs st s t h
  · subst hs
    simp only [serverStepAny]
    rw [serverRecvAny_rej cipher cs st pm hrej]

theorem cFind_run_leaves (cipher : Bytes → Bytes → Bytes) (cs : List Ctx) (steps : List XStep) (t : Bytes)
    (h : ∀ s ∈ steps, XStepLeaves cipher cs t s) : ∀ st, cFind (serverRunAny cipher cs st steps) t = cFind st t := by
  induction steps with
  | nil => intro st; rfl
  | cons s rest ih =>
    intro st
    unfold serverRunAny
    rw [List.foldl_cons]
    have := ih (fun x hx => h x (List.mem_cons_of_mem _ hx)) (serverStepAny cipher cs st s)
    unfold serverRunAny at this
    rw [this]
    exact cFind_step_leaves cipher cs st s t (h s List.mem_cons_self)

/-- the context that accepts a request is the one the request selects on an unambiguous set -/
theorem selectFor_of_ok (cipher : Bytes → Bytes → Bytes) (cs : List Ctx) (hu : Unambiguous cs) (c : Ctx) (hc : c ∈ cs)
    (m x : Msg) (b : Binding) (h : unprotectRequest cipher c m = .ok x b) : selectFor cs m = some c := by
  obtain ⟨ov, v, h1, _, h3, h4⟩ := unprotectRequest_ok_names cipher c m x b h
  unfold selectFor
  simp only [h1, h3]
  exact selectCtx_of_unambiguous cs v c hu hc h4

theorem protectRequest_token (cipher : Bytes → Bytes → Bytes) (c : Ctx) (m : Msg) (seq : Nat) (r : Msg × Binding)
    (h : protectRequest cipher c m seq = some r) : r.1.token = m.token := by
  unfold protectRequest at h
  by_cases h1 : (m.opts.any fun o => decide (o.1 = optOscore)) = true
  · simp [h1] at h
  · by_cases h2 : seq > maxSeq
    · simp [h1, h2] at h
    · simp only [h1, h2, if_false, Bool.false_eq_true] at h
      injection h with h
      subst h
      rfl

/-! ### M: the server session -/
open Coap.M.Oscore

theorem findSAssoc_map (as : List SAssoc) (t t' : Bytes) (f : SAssoc → SAssoc) (hf : ∀ a, (f a).token = a.token) :
    findSAssoc (as.map fun a => if a.token = t then f a else a) t' =
      if t' = t then (findSAssoc as t').map f else findSAssoc as t' := by
  unfold findSAssoc
  rw [List.find?_map]
  have hcomp : ((fun a : SAssoc => decide (a.token = t')) ∘ fun a => if a.token = t then f a else a) =
      fun a => decide (a.token = t') := by
    funext a
    by_cases h : a.token = t
    · simp only [Function.comp, h, if_true]
      rw [hf a, h]
    · simp only [Function.comp, h, if_false]
  rw [hcomp]
  cases hfd : List.find? (fun a : SAssoc => decide (a.token = t')) as with
  | none => simp
  | some a =>
    have ha : a.token = t' := by simpa using List.find?_some hfd
    by_cases ht : t' = t
    · have : a.token = t := ha.trans ht
      simp [ht, this]
    · have : ¬ a.token = t := fun h => ht (ha ▸ h)
      simp [ht, this]

theorem findSAssoc_filter (as : List SAssoc) (t t' : Bytes) :
    findSAssoc (as.filter fun a => a.token ≠ t') t = if t = t' then none else findSAssoc as t :=
  find_filter_key (fun a : SAssoc => a.token) as t t'

/-- a request that does not verify leaves `session->associations` as it is (fix b3c6528) -/
theorem srvDecrypt_unverified (s : Srv) (t : Bytes) (pos : RPos) (aad nonce piv : Bytes) (o : Bool) :
    (srvDecrypt s t pos aad nonce piv false o).as = s.as := rfl

/-- after a VERIFIED `decrypt` step the association of its token holds the new recipient context, nonce, AAD and Partial IV
(and `is_observe` when the request carried Observe); the others are untouched -/
theorem findSAssoc_decrypt (s : Srv) (t : Bytes) (pos : RPos) (aad nonce piv : Bytes) (o : Bool) (t' : Bytes) :
    (t' = t → ∃ a, findSAssoc (srvDecrypt s t pos aad nonce piv true o).as t' = some a ∧ a.rcp = pos ∧ a.piv = piv ∧
        a.nonce = nonce ∧ a.aad = aad ∧ (o = true → a.isObserve = true)) ∧
    (¬ t' = t → findSAssoc (srvDecrypt s t pos aad nonce piv true o).as t' = findSAssoc s.as t') := by
  have key : ∀ as1 : List SAssoc,
      (t' = t → ∃ a, findSAssoc as1 t' = some a ∧ a.rcp = pos ∧ a.piv = piv ∧ a.nonce = nonce ∧ a.aad = aad) →
      (¬ t' = t → findSAssoc as1 t' = findSAssoc s.as t') →
      (t' = t → ∃ a, findSAssoc (if o = true then as1.map fun a => if a.token = t then { a with isObserve := true } else a
                                  else as1) t' = some a ∧ a.rcp = pos ∧ a.piv = piv ∧ a.nonce = nonce ∧ a.aad = aad ∧
                                  (o = true → a.isObserve = true)) ∧
      (¬ t' = t → findSAssoc (if o = true then as1.map fun a => if a.token = t then { a with isObserve := true } else a
                               else as1) t' = findSAssoc s.as t') := by
    intro as1 h1 h2
    by_cases hvo : o = true
    · simp only [hvo, if_true]
      have hm := findSAssoc_map as1 t t' (fun a => { a with isObserve := true }) (fun _ => rfl)
      constructor
      · intro ht
        obtain ⟨a, ha, r1, r2, r3, r4⟩ := h1 ht
        rw [hm, ha]
        simp only [ht, if_true, Option.map_some]
        exact ⟨_, rfl, r1, r2, r3, r4, fun _ => rfl⟩
      · intro ht
        rw [hm]
        simp only [ht, if_false]
        exact h2 ht
    · simp only [hvo, if_false, Bool.false_eq_true]
      refine ⟨fun ht => ?_, h2⟩
      obtain ⟨a, ha, r1, r2, r3, r4⟩ := h1 ht
      exact ⟨a, ha, r1, r2, r3, r4, fun h => h.elim⟩
  unfold srvDecrypt
  simp only [Bool.not_true, Bool.false_eq_true, if_false]
  cases hf : findSAssoc s.as t with
  | none =>
    apply key
    · intro ht; subst ht
      exact ⟨⟨t', pos, aad, nonce, piv, false⟩, by simp [findSAssoc], rfl, rfl, rfl, rfl⟩
    · intro ht
      have : ¬ t = t' := fun x => ht x.symm
      simp [findSAssoc, this]
  | some a0 =>
    have hm := findSAssoc_map s.as t t' (fun a => { a with nonce := nonce, piv := piv, aad := aad, rcp := pos }) (fun _ => rfl)
    apply key
    · intro ht
      rw [hm]
      subst ht
      simp [hf]
    · intro ht
      rw [hm]
      simp [ht]

/-- a `decrypt` step (verified or not) leaves the associations of other tokens alone -/
theorem findSAssoc_decrypt_ne (s : Srv) (t : Bytes) (pos : RPos) (aad nonce piv : Bytes) (v o : Bool) (t' : Bytes)
    (h : ¬ t' = t) : findSAssoc (srvDecrypt s t pos aad nonce piv v o).as t' = findSAssoc s.as t' := by
  cases v with
  | false => rw [srvDecrypt_unverified]
  | true => exact (findSAssoc_decrypt s t pos aad nonce piv o t').2 h

/-- every association holds the recipient context of the latest VERIFIED `decrypt` step with its token -/
def SrvInv (s : Srv) (acc : Bytes → Option RPos) : Prop :=
  ∀ t a, findSAssoc s.as t = some a → acc t = some a.rcp

theorem SrvInv_step (s : Srv) (acc : Bytes → Option RPos) (x : SrvStep) (h : SrvInv s acc) :
    SrvInv (srvStep s x) (srvTrack acc x) := by
  cases x with
  | decrypt t pos aad nonce piv v o =>
    unfold srvStep srvTrack
    intro t' a ha
    cases v with
    | false =>
      rw [srvDecrypt_unverified] at ha
      simp only [Bool.false_eq_true, if_false]
      exact h t' a ha
    | true =>
      simp only [if_true]
      have hp := findSAssoc_decrypt s t pos aad nonce piv o t'
      by_cases ht : t' = t
      · obtain ⟨a', h1, h2, _⟩ := hp.1 ht
        rw [h1] at ha
        injection ha with ha
        subst ha
        simp [ht, h2]
      · rw [hp.2 ht] at ha
        simp only [ht, if_false]
        exact h t' a ha
  | protect t =>
    unfold srvStep srvTrack srvProtect
    intro t' a ha
    cases hf : findSAssoc s.as t with
    | none => simp only [hf] at ha; exact h t' a ha
    | some a0 =>
      simp only [hf] at ha
      by_cases hc : a0.isObserve = true
      · simp only [hc, if_true] at ha
        exact h t' a ha
      · simp only [hc, if_false, Bool.false_eq_true] at ha
        rw [findSAssoc_filter] at ha
        by_cases ht : t' = t
        · simp [ht] at ha
        · simp only [ht, if_false] at ha
          exact h t' a ha

theorem SrvInv_run (steps : List SrvStep) :
    ∀ (s : Srv) (acc : Bytes → Option RPos), SrvInv s acc → SrvInv (steps.foldl srvStep s) (steps.foldl srvTrack acc) := by
  induction steps with
  | nil => intro s acc h; exact h
  | cons x rest ih => intro s acc h; exact ih _ _ (SrvInv_step s acc x h)

def SrvStepToken : SrvStep → Bytes
  | .decrypt t _ _ _ _ _ _ => t
  | .protect t => t

/-- a step that concerns another token leaves the association of `t` alone -/
theorem findSAssoc_step_ne (s : Srv) (x : SrvStep) (t : Bytes) (h : SrvStepToken x ≠ t) :
    findSAssoc (srvStep s x).as t = findSAssoc s.as t := by
  have h' : ¬ t = SrvStepToken x := fun e => h e.symm
  cases x with
  | decrypt t0 pos aad nonce piv v o =>
    simp only [SrvStepToken] at h'
    exact findSAssoc_decrypt_ne s t0 pos aad nonce piv v o t h'
  | protect t0 =>
    simp only [SrvStepToken] at h'
    simp only [srvStep, srvProtect]
    cases hf : findSAssoc s.as t0 with
    | none => rfl
    | some a0 =>
      simp only
      by_cases hc : a0.isObserve = true
      · simp only [hc, if_true]
      · simp only [hc, if_false, Bool.false_eq_true]
        rw [findSAssoc_filter]
        simp [h']

theorem findSAssoc_run_ne (steps : List SrvStep) (t : Bytes) (h : ∀ x ∈ steps, SrvStepToken x ≠ t) :
    ∀ s, findSAssoc (srvRun s steps).as t = findSAssoc s.as t := by
  induction steps with
  | nil => intro s; rfl
  | cons x rest ih =>
    intro s
    unfold srvRun
    rw [List.foldl_cons]
    have := ih (fun y hy => h y (List.mem_cons_of_mem _ hy)) (srvStep s x)
    unfold srvRun at this
    rw [this]
    exact findSAssoc_step_ne s x t (h x List.mem_cons_self)

/-- a step that leaves the association of token `t` alone: it concerns another token, or it is a request (with whatever
token, also `t`) that does not verify (fix b3c6528) -/
def SrvStepLeaves (t : Bytes) : SrvStep → Prop
  | .decrypt t' _ _ _ _ v _ => t' ≠ t ∨ v = false
  | .protect t' => t' ≠ t

theorem findSAssoc_step_leaves (s : Srv) (x : SrvStep) (t : Bytes) (h : SrvStepLeaves t x) :
    findSAssoc (srvStep s x).as t = findSAssoc s.as t := by
  cases x with
  | decrypt t0 pos aad nonce piv v o =>
    rcases h with h | h
    · exact findSAssoc_step_ne s _ t h
    · subst h
      simp only [srvStep]
      rw [srvDecrypt_unverified]
  | protect t0 => exact findSAssoc_step_ne s _ t h

theorem findSAssoc_run_leaves (steps : List SrvStep) (t : Bytes) (h : ∀ x ∈ steps, SrvStepLeaves t x) :
    ∀ s, findSAssoc (srvRun s steps).as t = findSAssoc s.as t := by
  induction steps with
  | nil => intro s; rfl
  | cons x rest ih =>
    intro s
    unfold srvRun
    rw [List.foldl_cons]
    have := ih (fun y hy => h y (List.mem_cons_of_mem _ hy)) (srvStep s x)
    unfold srvRun at this
    rw [this]
    exact findSAssoc_step_leaves s x t (h x List.mem_cons_self)

end Coap
