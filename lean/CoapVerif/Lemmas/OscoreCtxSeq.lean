import CoapVerif.Spec.OscoreCtxSeq
import CoapVerif.Model.OscoreSrv
import CoapVerif.Lemmas.OscoreSeq
import CoapVerif.Lemmas.OscoreCtx
/- Helper lemmas for the "several contexts on one server session" theorems of C14 (Props/C14.lean): S's token ↦ (binding,
context) store (Spec/OscoreCtxSeq.lean) and libcoap's server-side association list (Model/OscoreSrv.lean). -/
namespace Coap
open Coap.Spec.Oscore

/-! ### S -/

theorem cFind_cDel (st : CStore) (t t' : Bytes) :
    cFind (cDel st t') t = if t = t' then none else cFind st t :=
  find_filter_key (fun e : CEntry => e.token) st t t'

theorem cFind_cSet (st : CStore) (e : CEntry) (t : Bytes) :
    cFind (cSet st e) t = if e.token = t then some e else cFind st t := by
  unfold cSet
  by_cases h : e.token = t
  · simp [cFind, h]
  · have h' : ¬ t = e.token := fun x => h x.symm
    have := cFind_cDel st t e.token
    simp only [h', if_false] at this
    simp only [h, if_false, ← this]
    simp [cFind, h]

theorem cFind_recv_ne (cipher : Bytes → Bytes → Bytes) (cs : List Ctx) (st : CStore) (pm : Msg) (t : Bytes)
    (h : pm.token ≠ t) : cFind (serverRecvAny cipher cs st pm).2 t = cFind st t := by
  unfold serverRecvAny
  split
  · simp only
    rw [cFind_cSet]
    simp [h]
  · rfl

theorem cFind_send_ne (cipher : Bytes → Bytes → Bytes) (st : CStore) (m : Msg) (ask : Bool) (seq : Nat) (sepMid : Option Nat)
    (t : Bytes)
    (h : m.token ≠ t) (r : Msg) (st' : CStore) (hs : serverSendAny cipher st m ask seq sepMid = some (r, st')) :
    cFind st' t = cFind st t := by
  have h' : ¬ t = m.token := fun x => h x.symm
  unfold serverSendAny at hs
  cases hf : cFind st m.token with
  | none => simp [hf] at hs
  | some e =>
    simp only [hf] at hs
    cases hp : protectResponseFor cipher e.ctx e.b e.observe m ask seq sepMid with
    | none => simp [hp] at hs
    | some r0 =>
      simp only [hp, Option.some.injEq, Prod.mk.injEq] at hs
      rw [← hs.2]
      by_cases hk : e.keep = true
      · simp [hk]
      · simp only [hk, if_false, Bool.false_eq_true]
        rw [cFind_cDel]
        simp [h']

/-- an event that concerns another token leaves the entry of `t` alone -/
theorem cFind_step_ne (cipher : Bytes → Bytes → Bytes) (cs : List Ctx) (st : CStore) (s : XStep) (t : Bytes)
    (h : s.token ≠ t) : cFind (serverStepAny cipher cs st s) t = cFind st t := by
  cases s with
  | recv pm => exact cFind_recv_ne cipher cs st pm t h
  | send m ask seq sepMid =>
    simp only [serverStepAny]
    cases hs : serverSendAny cipher st m ask seq sepMid with
    | none => rfl
    | some x => exact cFind_send_ne cipher st m ask seq sepMid t h x.1 x.2 hs

theorem cFind_run_ne (cipher : Bytes → Bytes → Bytes) (cs : List Ctx) (steps : List XStep) (t : Bytes)
    (h : ∀ s ∈ steps, s.token ≠ t) : ∀ st, cFind (serverRunAny cipher cs st steps) t = cFind st t := by
  induction steps with
  | nil => intro st; rfl
  | cons s rest ih =>
    intro st
    unfold serverRunAny
    rw [List.foldl_cons]
    have := ih (fun x hx => h x (List.mem_cons_of_mem _ hx)) (serverStepAny cipher cs st s)
    unfold serverRunAny at this
    rw [this]
    exact cFind_step_ne cipher cs st s t (h s List.mem_cons_self)

/-- a request that no held context verifies binds nothing and re-binds nothing (D14.15 / D14.19) -/
theorem serverRecvAny_rej (cipher : Bytes → Bytes → Bytes) (cs : List Ctx) (st : CStore) (pm : Msg)
    (h : ∀ x b, unprotectRequestAny cipher cs pm ≠ .ok x b) : (serverRecvAny cipher cs st pm).2 = st := by
  unfold serverRecvAny
  split
  · rename_i x b c hx _
    exact absurd hx (h x b)
  · rfl

/-- an event that leaves the entry of token `t` alone: it concerns another token, or it is a request (with whatever
token) that does not verify -/
def XStepLeaves (cipher : Bytes → Bytes → Bytes) (cs : List Ctx) (t : Bytes) (s : XStep) : Prop :=
  s.token ≠ t ∨ ∃ pm, s = .recv pm ∧ ∀ x b, unprotectRequestAny cipher cs pm ≠ .ok x b

theorem cFind_step_leaves (cipher : Bytes → Bytes → Bytes) (cs : List Ctx) (st : CStore) (s : XStep) (t : Bytes)
    (h : XStepLeaves cipher cs t s) : cFind (serverStepAny cipher cs st s) t = cFind st t := by
  rcases h with h | ⟨pm, hs, hrej⟩
  · exact cFind_step_ne cipher cs st s t h
  · subst hs
    simp only [serverStepAny]
    rw [serverRecvAny_rej cipher cs st pm hrej]

theorem cFind_run_leaves (cipher : Bytes → Bytes → Bytes) (cs : List Ctx) (steps : List XStep) (t : Bytes)
    (h : ∀ s ∈ steps, XStepLeaves cipher cs t s) : ∀ st, cFind (serverRunAny cipher cs st steps) t = cFind st t := by
  induction steps with
  | nil => intro st; rfl
  | cons s rest ih =>
    intro st
    unfold serverRunAny
    rw [List.foldl_cons]
    have := ih (fun x hx => h x (List.mem_cons_of_mem _ hx)) (serverStepAny cipher cs st s)
    unfold serverRunAny at this
    rw [this]
    exact cFind_step_leaves cipher cs st s t (h s List.mem_cons_self)

/-- the context that accepts a request is the one the request selects on an unambiguous set -/
theorem selectFor_of_ok (cipher : Bytes → Bytes → Bytes) (cs : List Ctx) (hu : Unambiguous cs) (c : Ctx) (hc : c ∈ cs)
    (m x : Msg) (b : Binding) (h : unprotectRequest cipher c m = .ok x b) : selectFor cs m = some c := by
  obtain ⟨ov, v, h1, _, h3, h4⟩ := unprotectRequest_ok_names cipher c m x b h
  unfold selectFor
  simp only [h1, h3]
  exact selectCtx_of_unambiguous cs v c hu hc h4

theorem protectRequest_token (cipher : Bytes → Bytes → Bytes) (c : Ctx) (m : Msg) (seq : Nat) (r : Msg × Binding)
    (h : protectRequest cipher c m seq = some r) : r.1.token = m.token := by
  unfold protectRequest at h
  by_cases h1 : (m.opts.any fun o => decide (o.1 = optOscore)) = true
  · simp [h1] at h
  · by_cases h2 : seq > maxSeq
    · simp [h1, h2] at h
    · simp only [h1, h2, if_false, Bool.false_eq_true] at h
      injection h with h
      subst h
      rfl

/-! ### M: the server session -/
open Coap.M.Oscore

theorem findSAssoc_map (as : List SAssoc) (t t' : Bytes) (f : SAssoc → SAssoc) (hf : ∀ a, (f a).token = a.token) :
    findSAssoc (as.map fun a => if a.token = t then f a else a) t' =
      if t' = t then (findSAssoc as t').map f else findSAssoc as t' := by
  unfold findSAssoc
  rw [List.find?_map]
  have hcomp : ((fun a : SAssoc => decide (a.token = t')) ∘ fun a => if a.token = t then f a else a) =
      fun a => decide (a.token = t') := by
    funext a
    by_cases h : a.token = t
    · simp only [Function.comp, h, if_true]
      rw [hf a, h]
    · simp only [Function.comp, h, if_false]
  rw [hcomp]
  cases hfd : List.find? (fun a : SAssoc => decide (a.token = t')) as with
  | none => simp
  | some a =>
    have ha : a.token = t' := by simpa using List.find?_some hfd
    by_cases ht : t' = t
    · have : a.token = t := ha.trans ht
      simp [ht, this]
    · have : ¬ a.token = t := fun h => ht (ha ▸ h)
      simp [ht, this]

theorem findSAssoc_filter (as : List SAssoc) (t t' : Bytes) :
    findSAssoc (as.filter fun a => a.token ≠ t') t = if t = t' then none else findSAssoc as t :=
  find_filter_key (fun a : SAssoc => a.token) as t t'

/-- a request that does not verify leaves `session->associations` as it is (fix b3c6528) -/
theorem srvDecrypt_unverified (s : Srv) (t : Bytes) (pos : RPos) (aad nonce piv : Bytes) (o : Bool) :
    (srvDecrypt s t pos aad nonce piv false o).as = s.as := rfl

/-- after a VERIFIED `decrypt` step the association of its token holds the new recipient context, nonce, AAD and Partial IV
(and `is_observe` when the request carried Observe), and belongs to the received request (`is_client` = 0, fix 48ee5dc); the
others are untouched -/
theorem findSAssoc_decrypt (s : Srv) (t : Bytes) (pos : RPos) (aad nonce piv : Bytes) (o : Bool) (t' : Bytes) :
    (t' = t → ∃ a, findSAssoc (srvDecrypt s t pos aad nonce piv true o).as t' = some a ∧ a.rcp = pos ∧ a.piv = piv ∧
        a.nonce = nonce ∧ a.aad = aad ∧ (o = true → a.isObserve = true) ∧ a.isClient = false) ∧
    (¬ t' = t → findSAssoc (srvDecrypt s t pos aad nonce piv true o).as t' = findSAssoc s.as t') := by
  have key : ∀ as1 : List SAssoc,
      (t' = t → ∃ a, findSAssoc as1 t' = some a ∧ a.rcp = pos ∧ a.piv = piv ∧ a.nonce = nonce ∧ a.aad = aad ∧ a.isClient = false) →
      (¬ t' = t → findSAssoc as1 t' = findSAssoc s.as t') →
      (t' = t → ∃ a, findSAssoc (if o = true then as1.map fun a => if a.token = t then { a with isObserve := true } else a
                                  else as1) t' = some a ∧ a.rcp = pos ∧ a.piv = piv ∧ a.nonce = nonce ∧ a.aad = aad ∧
                                  (o = true → a.isObserve = true) ∧ a.isClient = false) ∧
      (¬ t' = t → findSAssoc (if o = true then as1.map fun a => if a.token = t then { a with isObserve := true } else a
                               else as1) t' = findSAssoc s.as t') := by
    intro as1 h1 h2
    by_cases hvo : o = true
    · simp only [hvo, if_true]
      have hm := findSAssoc_map as1 t t' (fun a => { a with isObserve := true }) (fun _ => rfl)
      constructor
      · intro ht
        obtain ⟨a, ha, r1, r2, r3, r4, r5⟩ := h1 ht
        rw [hm, ha]
        simp only [ht, if_true, Option.map_some]
        exact ⟨_, rfl, r1, r2, r3, r4, fun _ => rfl, r5⟩
      · intro ht
        rw [hm]
        simp only [ht, if_false]
        exact h2 ht
    · simp only [hvo, if_false, Bool.false_eq_true]
      refine ⟨fun ht => ?_, h2⟩
      obtain ⟨a, ha, r1, r2, r3, r4, r5⟩ := h1 ht
      exact ⟨a, ha, r1, r2, r3, r4, fun h => h.elim, r5⟩
  unfold srvDecrypt
  simp only [Bool.not_true, Bool.false_eq_true, if_false]
  cases hf : findSAssoc s.as t with
  | none =>
    apply key
    · intro ht; subst ht
      exact ⟨⟨t', pos, aad, nonce, piv, false, false⟩, by simp [findSAssoc], rfl, rfl, rfl, rfl, rfl⟩
    · intro ht
      have : ¬ t = t' := fun x => ht x.symm
      simp [findSAssoc, this]
  | some a0 =>
    have hm := findSAssoc_map s.as t t'
      (fun a => { a with nonce := nonce, piv := piv, aad := aad, rcp := pos, isClient := false }) (fun _ => rfl)
    apply key
    · intro ht
      rw [hm]
      subst ht
      simp [hf]
    · intro ht
      rw [hm]
      simp [ht]

/-- a `decrypt` step (verified or not) leaves the associations of other tokens alone -/
theorem findSAssoc_decrypt_ne (s : Srv) (t : Bytes) (pos : RPos) (aad nonce piv : Bytes) (v o : Bool) (t' : Bytes)
    (h : ¬ t' = t) : findSAssoc (srvDecrypt s t pos aad nonce piv v o).as t' = findSAssoc s.as t' := by
  cases v with
  | false => rw [srvDecrypt_unverified]
  | true => exact (findSAssoc_decrypt s t pos aad nonce piv o t').2 h

/-- protecting a response only removes: the association of its own token (unless `is_client` / `is_observe`) -/
theorem findSAssoc_protect (s : Srv) (t t' : Bytes) :
    (¬ t' = t → findSAssoc (srvProtect s t).as t' = findSAssoc s.as t') ∧
    (∀ a, findSAssoc (srvProtect s t).as t' = some a → findSAssoc s.as t' = some a) := by
  unfold srvProtect
  cases hf : findSAssoc s.as t with
  | none => exact ⟨fun _ => rfl, fun _ h => h⟩
  | some a0 =>
    simp only
    by_cases hcl : a0.isClient = true
    · simp only [hcl, if_true]; exact ⟨fun _ => trivial, fun _ h => h⟩
    · by_cases hc : a0.isObserve = true
      · simp only [hcl, hc, if_true, if_false, Bool.false_eq_true]; exact ⟨fun _ => trivial, fun _ h => h⟩
      · simp only [hcl, hc, if_false, Bool.false_eq_true]
        rw [findSAssoc_filter]
        by_cases ht : t' = t
        · simp [ht]
        · simp [ht]

/-- a response that arrives only removes: the association of its own token (when it verifies, unless `is_observe`) -/
theorem findSAssoc_respIn (s : Srv) (t : Bytes) (v : Bool) (t' : Bytes) :
    (¬ t' = t → findSAssoc (srvRespIn s t v).as t' = findSAssoc s.as t') ∧
    (∀ a, findSAssoc (srvRespIn s t v).as t' = some a → findSAssoc s.as t' = some a) := by
  unfold srvRespIn
  cases hf : findSAssoc s.as t with
  | none => exact ⟨fun _ => rfl, fun _ h => h⟩
  | some a0 =>
    simp only
    by_cases hc : (v && !a0.isObserve) = true
    · simp only [hc, if_true]
      rw [findSAssoc_filter]
      by_cases ht : t' = t
      · simp [ht]
      · simp [ht]
    · simp only [hc, if_false, Bool.false_eq_true]; exact ⟨fun _ => trivial, fun _ h => h⟩

/-- a request SENT from this end makes the association of its token its own (`is_client` = 1, fix 48ee5dc) and leaves the
others alone -/
theorem findSAssoc_request (s : Srv) (t : Bytes) (pos : RPos) (aad nonce piv : Bytes) (o : Bool) (v : Nat) (t' : Bytes) :
    (t' = t → ∃ a, findSAssoc (srvRequest s t pos aad nonce piv o v).as t' = some a ∧ a.isClient = true ∧ a.nonce = nonce ∧
        a.aad = aad ∧ a.piv = piv) ∧
    (¬ t' = t → findSAssoc (srvRequest s t pos aad nonce piv o v).as t' = findSAssoc s.as t') := by
  unfold srvRequest
  cases hf : findSAssoc s.as t with
  | none =>
    constructor
    · intro ht; subst ht
      exact ⟨⟨t', pos, aad, nonce, piv, o, true⟩, by simp [findSAssoc], rfl, rfl, rfl, rfl⟩
    · intro ht
      have : ¬ t = t' := fun x => ht x.symm
      simp [findSAssoc, this]
  | some a0 =>
    have hm := findSAssoc_map s.as t t'
      (fun a => { a with isClient := true, isObserve := o && v != 1, nonce := nonce, aad := aad, piv := piv, rcp := pos })
      (fun _ => rfl)
    constructor
    · intro ht
      simp only
      rw [hm]
      subst ht
      simp [hf]
    · intro ht
      simp only
      rw [hm]
      simp [ht]

/-- every association that may protect a response (`is_client` = 0) holds recipient context, AAD, nonce and Partial IV of the
latest VERIFIED `decrypt` step with its token, and no request sent from this end has used the token since -/
def SrvInvReq (s : Srv) (acc : Bytes → Option (RPos × Bytes × Bytes × Bytes)) : Prop :=
  ∀ t a, findSAssoc s.as t = some a → a.isClient = false → acc t = some (a.rcp, a.aad, a.nonce, a.piv)

theorem SrvInvReq_step (s : Srv) (acc : Bytes → Option (RPos × Bytes × Bytes × Bytes)) (x : SrvStep) (h : SrvInvReq s acc) :
    SrvInvReq (srvStep s x) (srvTrackReq acc x) := by
  cases x with
  | decrypt t pos aad nonce piv v o =>
    unfold srvStep srvTrackReq
    intro t' a ha hcl
    cases v with
    | false =>
      rw [srvDecrypt_unverified] at ha
      simp only [Bool.false_eq_true, if_false]
      exact h t' a ha hcl
    | true =>
      simp only [if_true]
      have hp := findSAssoc_decrypt s t pos aad nonce piv o t'
      by_cases ht : t' = t
      · obtain ⟨a', h1, h2, h3, h4, h5, _⟩ := hp.1 ht
        rw [h1] at ha
        injection ha with ha
        subst ha
        simp [ht, h2, h3, h4, h5]
      · rw [hp.2 ht] at ha
        simp only [ht, if_false]
        exact h t' a ha hcl
  | protect t =>
    unfold srvStep srvTrackReq
    intro t' a ha hcl
    exact h t' a ((findSAssoc_protect s t t').2 a ha) hcl
  | request t pos aad nonce piv o v =>
    unfold srvStep srvTrackReq
    intro t' a ha hcl
    have hp := findSAssoc_request s t pos aad nonce piv o v t'
    by_cases ht : t' = t
    · obtain ⟨a', h1, h2, _⟩ := hp.1 ht
      rw [h1] at ha
      injection ha with ha
      subst ha
      rw [h2] at hcl
      exact absurd hcl (by simp)
    · rw [hp.2 ht] at ha
      simp only [ht, if_false]
      exact h t' a ha hcl
  | respIn t v =>
    unfold srvStep srvTrackReq
    intro t' a ha hcl
    exact h t' a ((findSAssoc_respIn s t v t').2 a ha) hcl

theorem SrvInvReq_run (steps : List SrvStep) :
    ∀ (s : Srv) (acc : Bytes → Option (RPos × Bytes × Bytes × Bytes)), SrvInvReq s acc →
      SrvInvReq (steps.foldl srvStep s) (steps.foldl srvTrackReq acc) := by
  induction steps with
  | nil => intro s acc h; exact h
  | cons x rest ih => intro s acc h; exact ih _ _ (SrvInvReq_step s acc x h)

/-- `srvLatest` is the first component of `srvLatestReq` -/
theorem srvTrack_fst (acc : Bytes → Option RPos) (accR : Bytes → Option (RPos × Bytes × Bytes × Bytes))
    (h : ∀ t, acc t = (accR t).map (·.1)) (x : SrvStep) : ∀ t, srvTrack acc x t = (srvTrackReq accR x t).map (·.1) := by
  intro t'
  cases x with
  | decrypt t pos aad nonce piv v o =>
    unfold srvTrack srvTrackReq
    cases v with
    | false => simp only [Bool.false_eq_true, if_false]; exact h t'
    | true =>
      simp only [if_true]
      by_cases ht : t' = t
      · simp [ht]
      · simp only [ht, if_false]; exact h t'
  | protect t => exact h t'
  | request t pos aad nonce piv o v =>
    unfold srvTrack srvTrackReq
    by_cases ht : t' = t
    · simp [ht]
    · simp only [ht, if_false]; exact h t'
  | respIn t v => exact h t'

theorem srvLatest_fst (steps : List SrvStep) (t : Bytes) : srvLatest steps t = (srvLatestReq steps t).map (·.1) := by
  have key : ∀ (steps : List SrvStep) (acc : Bytes → Option RPos) (accR : Bytes → Option (RPos × Bytes × Bytes × Bytes)),
      (∀ t, acc t = (accR t).map (·.1)) → ∀ t, steps.foldl srvTrack acc t = (steps.foldl srvTrackReq accR t).map (·.1) := by
    intro steps
    induction steps with
    | nil => intro acc accR h; exact h
    | cons x rest ih => intro acc accR h; exact ih _ _ (srvTrack_fst acc accR h x)
  exact key steps (fun _ => none) (fun _ => none) (fun _ => rfl) t

def SrvStepToken : SrvStep → Bytes
  | .decrypt t _ _ _ _ _ _ => t
  | .protect t => t
  | .request t _ _ _ _ _ _ => t
  | .respIn t _ => t

/-- a step that concerns another token leaves the association of `t` alone -/
theorem findSAssoc_step_ne (s : Srv) (x : SrvStep) (t : Bytes) (h : SrvStepToken x ≠ t) :
    findSAssoc (srvStep s x).as t = findSAssoc s.as t := by
  have h' : ¬ t = SrvStepToken x := fun e => h e.symm
  cases x with
  | decrypt t0 pos aad nonce piv v o =>
    simp only [SrvStepToken] at h'
    exact findSAssoc_decrypt_ne s t0 pos aad nonce piv v o t h'
  | protect t0 =>
    simp only [SrvStepToken] at h'
    exact (findSAssoc_protect s t0 t).1 h'
  | request t0 pos aad nonce piv o v =>
    simp only [SrvStepToken] at h'
    exact (findSAssoc_request s t0 pos aad nonce piv o v t).2 h'
  | respIn t0 v =>
    simp only [SrvStepToken] at h'
    exact (findSAssoc_respIn s t0 v t).1 h'

theorem findSAssoc_run_ne (steps : List SrvStep) (t : Bytes) (h : ∀ x ∈ steps, SrvStepToken x ≠ t) :
    ∀ s, findSAssoc (srvRun s steps).as t = findSAssoc s.as t := by
  induction steps with
  | nil => intro s; rfl
  | cons x rest ih =>
    intro s
    unfold srvRun
    rw [List.foldl_cons]
    have := ih (fun y hy => h y (List.mem_cons_of_mem _ hy)) (srvStep s x)
    unfold srvRun at this
    rw [this]
    exact findSAssoc_step_ne s x t (h x List.mem_cons_self)

/-- a step that leaves the association of token `t` alone: it concerns another token (a received request, a response
protected or received, a request SENT from this end), or it is a received request (with whatever token, also `t`) that does
not verify (fix b3c6528) -/
def SrvStepLeaves (t : Bytes) : SrvStep → Prop
  | .decrypt t' _ _ _ _ v _ => t' ≠ t ∨ v = false
  | .protect t' => t' ≠ t
  | .request t' _ _ _ _ _ _ => t' ≠ t
  | .respIn t' _ => t' ≠ t

theorem findSAssoc_step_leaves (s : Srv) (x : SrvStep) (t : Bytes) (h : SrvStepLeaves t x) :
    findSAssoc (srvStep s x).as t = findSAssoc s.as t := by
  cases x with
  | decrypt t0 pos aad nonce piv v o =>
    rcases h with h | h
    · exact findSAssoc_step_ne s _ t h
    · subst h
      simp only [srvStep]
      rw [srvDecrypt_unverified]
  | protect t0 => exact findSAssoc_step_ne s _ t h
  | request t0 pos aad nonce piv o v => exact findSAssoc_step_ne s _ t h
  | respIn t0 v => exact findSAssoc_step_ne s _ t h

theorem findSAssoc_run_leaves (steps : List SrvStep) (t : Bytes) (h : ∀ x ∈ steps, SrvStepLeaves t x) :
    ∀ s, findSAssoc (srvRun s steps).as t = findSAssoc s.as t := by
  induction steps with
  | nil => intro s; rfl
  | cons x rest ih =>
    intro s
    unfold srvRun
    rw [List.foldl_cons]
    have := ih (fun y hy => h y (List.mem_cons_of_mem _ hy)) (srvStep s x)
    unfold srvRun at this
    rw [this]
    exact findSAssoc_step_leaves s x t (h x List.mem_cons_self)

/-- a step after which an association of token `t` that belongs to a request sent from this end still does (or is gone):
everything but a VERIFIED received request with `t` -/
def SrvStepKeepsClient (t : Bytes) : SrvStep → Prop
  | .decrypt t' _ _ _ _ v _ => t' ≠ t ∨ v = false
  | _ => True

theorem client_step_keeps (s : Srv) (x : SrvStep) (t : Bytes) (hx : SrvStepKeepsClient t x)
    (h : ∀ a, findSAssoc s.as t = some a → a.isClient = true) :
    ∀ a, findSAssoc (srvStep s x).as t = some a → a.isClient = true := by
  intro a ha
  cases x with
  | decrypt t0 pos aad nonce piv v o =>
    have hl : SrvStepLeaves t (.decrypt t0 pos aad nonce piv v o) := hx
    rw [findSAssoc_step_leaves s _ t hl] at ha
    exact h a ha
  | protect t0 => exact h a ((findSAssoc_protect s t0 t).2 a ha)
  | respIn t0 v => exact h a ((findSAssoc_respIn s t0 v t).2 a ha)
  | request t0 pos aad nonce piv o v =>
    have hp := findSAssoc_request s t0 pos aad nonce piv o v t
    by_cases ht : t = t0
    · obtain ⟨a', h1, h2, _⟩ := hp.1 ht
      simp only [srvStep] at ha
      rw [h1] at ha
      injection ha with ha
      rw [← ha]; exact h2
    · simp only [srvStep] at ha
      rw [hp.2 ht] at ha
      exact h a ha

theorem client_run_keeps (steps : List SrvStep) (t : Bytes) (hx : ∀ x ∈ steps, SrvStepKeepsClient t x) :
    ∀ s, (∀ a, findSAssoc s.as t = some a → a.isClient = true) →
      ∀ a, findSAssoc (srvRun s steps).as t = some a → a.isClient = true := by
  induction steps with
  | nil => intro s h; exact h
  | cons x rest ih =>
    intro s h
    unfold srvRun
    rw [List.foldl_cons]
    have := ih (fun y hy => hx y (List.mem_cons_of_mem _ hy)) (srvStep s x)
      (client_step_keeps s x t (hx x List.mem_cons_self) h)
    unfold srvRun at this
    exact this

end Coap
