import CoapVerif.Lemmas.ServerProps
/-
Lemmas for C10 about a request that finds state left by earlier datagrams at the same context (deferred responses,
last_con_mid): M.serverDecisionA against S.serverSpecA, both against the fresh-context functions, and the invariants of
the history over arbitrary datagram sequences.
-/
namespace Coap.Server.L
open Coap Coap.Server Coap.Generated.Server

/-! ### with nothing found the A-functions are the fresh-context functions -/
theorem runStageA_false (cfg : Cfg) (rq : Request) (os : Opts) (path : Bytes) (sel : Sel) :
    M.runStageA false cfg rq os path sel = M.runStage cfg rq os path sel := by
  simp [M.runStageA]

theorem handleRequestA_fresh (cfg : Cfg) (tbl : Table) (rq : Request) (c : Bool) (os : Opts) :
    M.handleRequestA false false cfg tbl rq c os = M.handleRequest cfg tbl rq c os := by
  unfold M.handleRequestA M.handleRequest
  simp only [runStageA_false, Bool.false_eq_true, if_false]

theorem serverDecisionA_fresh (cfg : Cfg) (tbl : Table) (rq : Request) :
    M.serverDecisionA false false cfg tbl rq = M.serverDecision cfg tbl rq := by
  unfold M.serverDecisionA M.serverDecision
  simp only [handleRequestA_fresh]

theorem runA_false (e : S.Esc) (cfg : Cfg) (rq : Request) (os : Opts) (path : Bytes) (sel : Sel) :
    S.runA e false cfg rq os path sel = S.run e cfg rq os path sel := by
  simp [S.runA]

theorem stagesA_false (e : S.Esc) (cfg : Cfg) (tbl : Table) (rq : Request) (tol : Bool) :
    S.stagesA e false cfg tbl rq tol = S.stages e cfg tbl rq tol := by
  unfold S.stagesA S.stages
  simp only [runA_false]

theorem handleA_fresh (e : S.Esc) (cfg : Cfg) (tbl : Table) (rq : Request) (tol : Bool) :
    S.handleA e false false cfg tbl rq tol = S.handle e cfg tbl rq tol := by
  unfold S.handleA S.handle
  simp only [stagesA_false, Bool.false_eq_true, if_false]

theorem serverSpecA_fresh (e : S.Esc) (cfg : Cfg) (tbl : Table) (rq : Request) :
    S.serverSpecA e false false cfg tbl rq = S.serverSpec e cfg tbl rq := by
  unfold S.serverSpecA S.serverSpec
  simp only [handleA_fresh]

/-! ### M against S -/
theorem runA_eq (dup : Bool) (cfg : Cfg) (rq : Request) (os : Opts) (path : Bytes) (sel : Sel) (hv : rq.verdict.code ≠ 168) :
    (M.runStageA dup cfg rq os path sel).erase = S.runA E dup cfg rq os path sel := by
  unfold M.runStageA S.runA
  by_cases h : sel.isPrx = true ∧ rq.msg.type = CON ∧ dup = true
  · simp only [h, and_self, if_true, erase_outcome, List.map_cons, List.map_nil, erase_emptyMsg]
  · simp only [h, if_false]
    exact run_eq _ _ _ _ _ hv

theorem handleA_eq (hit dup : Bool) (cfg : Cfg) (tbl : Table) (rq : Request) (c : Bool) (hv : rq.verdict.code ≠ 168) :
    (M.handleRequestA hit dup cfg tbl rq c (clearBlock2M rq.msg.opts)).erase = S.handleA E hit dup cfg tbl rq c := by
  unfold M.handleRequestA S.handleA S.stagesA
  simp only [pre_eq, select_eq, check_eq]
  split
  · rfl
  · cases hit with
    | true =>
      simp only [if_true]
      by_cases ht : rq.msg.type = CON <;> simp [ht, erase_outcome, erase_emptyMsg]
    | false =>
      simp only [Bool.false_eq_true, if_false]
      have hp := pre_code E tbl rq c (clearBlock2M rq.msg.opts)
      cases hpre : S.pre E tbl rq c (clearBlock2M rq.msg.opts) with
      | fail code fl =>
        rw [hpre] at hp
        exact fail_eq _ _ _ _ _ hp
      | ignore => rfl
      | go ip os path =>
        simp only
        cases hsel : S.select tbl rq.msg.code ip path with
        | inl resp => exact fail_eq _ _ _ _ _ (select_code _ _ _ _ _ hsel)
        | inr sel =>
          simp only
          cases hck : S.precond cfg rq os sel with
          | some resp => exact fail_eq _ _ _ _ _ (precond_code _ _ _ _ _ hck)
          | none => exact runA_eq _ _ _ _ _ _ hv

/-! ### what the state found can change: S.serverSpecA against S.serverSpec -/
/-- the Empty ACK repeated for a Confirmable retransmission / duplicate -/
def ackAgain (rq : Request) : Outcome := ⟨true, [S.lib ACK 0 rq.msg.mid []], none⟩

theorem runA_cases (e : S.Esc) (dup : Bool) (cfg : Cfg) (rq : Request) (os : Opts) (path : Bytes) (sel : Sel) :
    S.runA e dup cfg rq os path sel = S.run e cfg rq os path sel ∨
    (S.runA e dup cfg rq os path sel = ackAgain rq ∧ rq.msg.type = CON ∧ dup = true) := by
  unfold S.runA
  by_cases h : sel.isPrx = true ∧ rq.msg.type = CON ∧ dup = true
  · right; rw [if_pos h]; exact ⟨rfl, h.2.1, h.2.2⟩
  · left; rw [if_neg h]

theorem stagesA_cases (e : S.Esc) (dup : Bool) (cfg : Cfg) (tbl : Table) (rq : Request) (tol : Bool) :
    S.stagesA e dup cfg tbl rq tol = S.stages e cfg tbl rq tol ∨
    (S.stagesA e dup cfg tbl rq tol = ackAgain rq ∧ rq.msg.type = CON ∧ dup = true) := by
  unfold S.stagesA S.stages
  simp only
  cases S.pre e tbl rq tol (clearBlock2M rq.msg.opts) with
  | fail code fl => left; rfl
  | ignore => left; rfl
  | go ip os path =>
    simp only
    cases S.select tbl rq.msg.code ip path with
    | inl resp => left; rfl
    | inr sel =>
      simp only
      cases S.precond cfg rq os sel with
      | some resp => left; rfl
      | none => exact runA_cases e dup cfg rq os path sel

/-- a request of the peer whose (peer, token) is pending, once past the message-level checks (D11) -/
def retrans (rq : Request) : Outcome := ⟨true, if rq.msg.type = CON then [S.lib ACK 0 rq.msg.mid []] else [], none⟩

theorem handleA_cases (e : S.Esc) (hit dup : Bool) (cfg : Cfg) (tbl : Table) (rq : Request) (tol : Bool) :
    S.handleA e hit dup cfg tbl rq tol = S.handle e cfg tbl rq tol ∨
    (S.handleA e hit dup cfg tbl rq tol = retrans rq ∧ hit = true) ∨
    (S.handleA e hit dup cfg tbl rq tol = ackAgain rq ∧ rq.msg.type = CON ∧ dup = true) := by
  unfold S.handleA S.handle
  by_cases hm : rq.mcast = true ∧ rq.msg.type ≠ NON
  · left; rw [if_pos hm, if_pos hm]
  · rw [if_neg hm, if_neg hm]
    cases hit with
    | true => right; left; exact ⟨rfl, rfl⟩
    | false =>
      simp only [Bool.false_eq_true, if_false]
      rcases stagesA_cases e dup cfg tbl rq tol with h | h
      · left; exact h
      · right; right; exact h

/-- whatever a request finds of its predecessors, the outcome is the fresh-context outcome, or the repeated
acknowledgement of a retransmitted deferred request (D11), or that of a duplicate proxied request (D12) -/
theorem specA_cases (e : S.Esc) (hit dup : Bool) (cfg : Cfg) (tbl : Table) (rq : Request) :
    S.serverSpecA e hit dup cfg tbl rq = S.serverSpec e cfg tbl rq ∨
    (S.serverSpecA e hit dup cfg tbl rq = retrans rq ∧ hit = true) ∨
    (S.serverSpecA e hit dup cfg tbl rq = ackAgain rq ∧ rq.msg.type = CON ∧ dup = true) := by
  unfold S.serverSpecA S.serverSpec
  simp only
  repeat' split
  all_goals first
    | (left; rfl)
    | exact handleA_cases e hit dup cfg tbl rq _

theorem ok_retrans (rq : Request) : outcomeOk rq (retrans rq) := by
  unfold retrans
  by_cases ht : rq.msg.type = CON
  · simp only [ht, if_true]
    refine ok_single _ _ _ ?_
    simp [replyOk, S.lib, ht, ACK, RST, CON]
  · simp only [ht, if_false]
    exact ok_nil _ _ _

theorem ok_ackAgain (rq : Request) (ht : rq.msg.type = CON) : outcomeOk rq (ackAgain rq) := by
  unfold ackAgain
  refine ok_single _ _ _ ?_
  simp [replyOk, S.lib, ht, ACK, RST, CON]

theorem outcomeA_ok (e : S.Esc) (hit dup : Bool) (cfg : Cfg) (tbl : Table) (rq : Request) :
    outcomeOk rq (S.serverSpecA e hit dup cfg tbl rq) := by
  rcases specA_cases e hit dup cfg tbl rq with h | ⟨h, _⟩ | ⟨h, ht, _⟩
  · rw [h]; exact outcome_ok e cfg tbl rq
  · rw [h]; exact ok_retrans rq
  · rw [h]; exact ok_ackAgain rq ht

/-- past the message-level checks (`Admitted`) a pending (peer, token) decides alone -/
theorem specA_hit (e : S.Esc) (dup : Bool) {cfg : Cfg} {tbl : Table} {rq : Request} (h : Admitted cfg tbl rq) :
    S.serverSpecA e true dup cfg tbl rq = retrans rq := by
  have hna : ¬ (rq.msg.type = ACK ∨ rq.msg.type = RST) := by
    rcases h.type with t | t <;> rw [t] <;> decide
  have hmc : ¬ (rq.mcast = true ∧ rq.msg.type ≠ NON) := fun ⟨a, b⟩ => b (h.mcast a)
  have htok : ¬ rq.msg.token.length > cfg.mts := by have := h.token; omega
  have hopts := h.opts
  unfold fwdOf at hopts
  unfold S.serverSpecA S.handleA retrans
  simp only [validCode_of_request h.code, h.code, h.verdict, hopts, h.noOscore, hna, htok, hmc, not_true_eq_false,
    if_false, Bool.false_eq_true, if_true]

/-! ### the history over arbitrary datagram sequences -/
theorem noteCon_pend (h : Hist) (ev : Ev) (o : Outcome) : (h.noteCon ev o).pend = h.pend := by
  unfold Hist.noteCon
  cases o.call with
  | none => rfl
  | some c => simp only; split <;> rfl

theorem noteCon_lastCon (h : Hist) (ev : Ev) (o : Outcome) (x : Nat × Nat) (hx : x ∈ (h.noteCon ev o).lastCon) :
    x ∈ h.lastCon ∨ (x = (ev.peer, ev.rq.msg.mid) ∧ ev.rq.msg.type = CON ∧ ∃ c, o.call = some c ∧ c.who = .prx) := by
  unfold Hist.noteCon at hx
  cases hc : o.call with
  | none => rw [hc] at hx; exact Or.inl hx
  | some c =>
    rw [hc] at hx
    simp only at hx
    split at hx
    · rename_i hw
      simp only [List.mem_cons] at hx
      rcases hx with hx | hx
      · right; exact ⟨hx, hw.2, c, rfl, hw.1⟩
      · left; exact hx
    · exact Or.inl hx

theorem after_pend (h : Hist) (ev : Ev) (o : Outcome) (x : Nat × Bytes) (hx : x ∈ (h.after ev o).pend) :
    x ∈ h.pend ∨ (x = (ev.peer, ev.rq.msg.token) ∧ ev.defer = true ∧ o.call.isSome = true) := by
  unfold Hist.after at hx
  simp only at hx
  split at hx
  · rename_i hd
    simp only [List.mem_cons, noteCon_pend] at hx
    rcases hx with hx | hx
    · right; exact ⟨hx, hd.1, hd.2⟩
    · left; exact hx
  · left; rw [noteCon_pend] at hx; exact hx

theorem after_lastCon (h : Hist) (ev : Ev) (o : Outcome) (x : Nat × Nat) (hx : x ∈ (h.after ev o).lastCon) :
    x ∈ h.lastCon ∨ (x = (ev.peer, ev.rq.msg.mid) ∧ ev.rq.msg.type = CON ∧ ∃ c, o.call = some c ∧ c.who = .prx) := by
  unfold Hist.after at hx
  simp only at hx
  split at hx
  · exact noteCon_lastCon h ev o x hx
  · exact noteCon_lastCon h ev o x hx

/-- every pending (peer, token) after a datagram sequence was pending before, or comes from a datagram of that peer with
that token whose handler deferred the response -/
theorem final_pend (dec : Bool → Bool → Request → Outcome) (evs : List Ev) (h : Hist) (x : Nat × Bytes)
    (hx : x ∈ (seqFinal dec h evs).pend) :
    x ∈ h.pend ∨ ∃ ev ∈ evs, x = (ev.peer, ev.rq.msg.token) ∧ ev.defer = true := by
  induction evs generalizing h with
  | nil => exact Or.inl hx
  | cons ev r ih =>
    simp only [seqFinal] at hx
    rcases ih _ hx with h1 | ⟨e, he, h2⟩
    · rcases after_pend h ev _ x h1 with h3 | ⟨h3, h4, _⟩
      · exact Or.inl h3
      · exact Or.inr ⟨ev, List.mem_cons_self, h3, h4⟩
    · exact Or.inr ⟨e, List.mem_cons_of_mem _ he, h2⟩

theorem final_lastCon (dec : Bool → Bool → Request → Outcome) (evs : List Ev) (h : Hist) (x : Nat × Nat)
    (hx : x ∈ (seqFinal dec h evs).lastCon) :
    x ∈ h.lastCon ∨ ∃ ev ∈ evs, x = (ev.peer, ev.rq.msg.mid) ∧ ev.rq.msg.type = CON := by
  induction evs generalizing h with
  | nil => exact Or.inl hx
  | cons ev r ih =>
    simp only [seqFinal] at hx
    rcases ih _ hx with h1 | ⟨e, he, h2⟩
    · rcases after_lastCon h ev _ x h1 with h3 | ⟨h3, h4, _⟩
      · exact Or.inl h3
      · exact Or.inr ⟨ev, List.mem_cons_self, h3, h4⟩
    · exact Or.inr ⟨e, List.mem_cons_of_mem _ he, h2⟩

theorem seqRun_append (dec : Bool → Bool → Request → Outcome) (h : Hist) (a b : List Ev) :
    seqRun dec h (a ++ b) = seqRun dec h a ++ seqRun dec (seqFinal dec h a) b := by
  induction a generalizing h with
  | nil => rfl
  | cons ev r ih => simp only [List.cons_append, seqRun, seqFinal, ih]

theorem lookup_mem {α β : Type} [BEq α] [LawfulBEq α] (l : List (α × β)) (k : α) (v : β) (h : l.lookup k = some v) :
    (k, v) ∈ l := by
  induction l with
  | nil => simp [List.lookup] at h
  | cons a r ih =>
    obtain ⟨a1, a2⟩ := a
    by_cases hk : k = a1
    · subst hk
      simp only [List.lookup, beq_self_eq_true, Option.some.injEq] at h
      subst h; exact List.mem_cons_self
    · have : (k == a1) = false := by simpa using hk
      simp only [List.lookup, this] at h
      exact List.mem_cons_of_mem _ (ih h)

/-- after any datagrams `pre` at a fresh context, a datagram of a peer that has no deferred request with this token and
sent no Confirmable request with this message id finds nothing -/
theorem seq_last_fresh (dec : Bool → Bool → Request → Outcome) (pre : List Ev) (ev : Ev)
    (htok : ∀ p ∈ pre, p.peer = ev.peer → p.defer = true → p.rq.msg.token ≠ ev.rq.msg.token)
    (hmid : ∀ p ∈ pre, p.peer = ev.peer → p.rq.msg.type = CON → p.rq.msg.mid ≠ ev.rq.msg.mid) :
    seqRun dec Hist.empty (pre ++ [ev]) = seqRun dec Hist.empty pre ++ [dec false false ev.rq] := by
  rw [seqRun_append]
  have hhit : (seqFinal dec Hist.empty pre).hit ev = false := by
    cases hc : (seqFinal dec Hist.empty pre).hit ev with
    | false => rfl
    | true =>
      exfalso
      unfold Hist.hit at hc
      have hm : (ev.peer, ev.rq.msg.token) ∈ (seqFinal dec Hist.empty pre).pend := by simpa using hc
      rcases final_pend dec pre Hist.empty _ hm with h0 | ⟨p, hp, he, hd⟩
      · simp [Hist.empty] at h0
      · simp only [Prod.mk.injEq] at he
        exact htok p hp he.1.symm hd he.2.symm
  have hdup : (seqFinal dec Hist.empty pre).dup ev = false := by
    cases hc : (seqFinal dec Hist.empty pre).dup ev with
    | false => rfl
    | true =>
      exfalso
      unfold Hist.dup at hc
      have hl : (seqFinal dec Hist.empty pre).lastCon.lookup ev.peer = some ev.rq.msg.mid := by simpa using hc
      rcases final_lastCon dec pre Hist.empty _ (lookup_mem _ _ _ hl) with h0 | ⟨p, hp, he, hd⟩
      · simp [Hist.empty] at h0
      · simp only [Prod.mk.injEq] at he
        exact hmid p hp he.1.symm hd he.2.symm
  simp only [seqRun, hhit, hdup]

/-- M and S agree on every datagram sequence: the histories evolve alike because `erase` keeps the handler call -/
theorem seq_eq (cfg : Cfg) (tbl : Table) (hfit : fits cfg)
    (hdec : ∀ hit dup rq, (M.serverDecisionA hit dup cfg tbl rq).erase = S.serverSpecA E hit dup cfg tbl rq)
    (evs : List Ev) (h : Hist) :
    (M.serverSeq cfg tbl h evs).map Outcome.erase = S.seqSpec E cfg tbl h evs := by
  have _ := hfit
  unfold M.serverSeq S.seqSpec
  induction evs generalizing h with
  | nil => rfl
  | cons ev r ih =>
    simp only [seqRun, List.map_cons]
    have hc : (M.serverDecisionA (h.hit ev) (h.dup ev) cfg tbl ev.rq).call =
        (S.serverSpecA E (h.hit ev) (h.dup ev) cfg tbl ev.rq).call := by
      rw [← hdec]; rfl
    have ha : h.after ev (M.serverDecisionA (h.hit ev) (h.dup ev) cfg tbl ev.rq) =
        h.after ev (S.serverSpecA E (h.hit ev) (h.dup ev) cfg tbl ev.rq) := by
      unfold Hist.after Hist.noteCon; rw [hc]
    rw [hdec, ha, ih]

end Coap.Server.L
