import CoapVerif.Lemmas.Uri
/- Helper lemmas for C16, second part: coap_split_uri_sub against Spec.Uri.splitUri (loops of the C code against the
   structural functions of S), the buffer accounting of coap_split_path / coap_split_query, coap_uri_into_optlist. -/
namespace Coap.UriL
open Coap Coap.MU Coap.Spec.Uri

/-! ### the scanning loops of coap_split_uri_sub -/

/-- `while (len && cond(*q)) { ++q; --len; }` is "break at the first byte that fails cond" -/
theorem spanWhile_eq_breakAt (cond p : UInt8 → Bool) (h : ∀ c, p c = !cond c) (s : Bytes) :
    spanWhile cond s = breakAt p s := by
  induction s with
  | nil => rfl
  | cons c r ih =>
    by_cases hc : cond c = true
    · rw [spanWhile, breakAt.eq_2, ih]
      simp [h, hc]
    · simp [spanWhile, breakAt, h, hc]

theorem findSchemeEnd_short (s : Bytes) (h : s.length < 3) : findSchemeEnd s = none := by
  induction s with
  | nil => rfl
  | cons c r ih =>
    have hr : r.length < 3 := by simp at h; omega
    have ht : ¬ (r.take 2 = [0x2f, 0x2f]) := by
      intro e
      have := congrArg List.length e
      simp at this h
      omega
    simp [findSchemeEnd, ht, ih hr]

/-- the scheme loop: it stops with fewer than three bytes left iff there is no "://", else exactly at the first one -/
theorem findScheme_spec (s : Bytes) :
    match findSchemeEnd s with
    | none => (findScheme s).2.length < 3
    | some (n, rest) => findScheme s = (n, 0x3a :: 0x2f :: 0x2f :: rest) := by
  induction s with
  | nil => simp [findSchemeEnd, findScheme]
  | cons c r ih =>
    by_cases h1 : c = 0x3a ∧ r.take 2 = [0x2f, 0x2f]
    · obtain ⟨hc, ht⟩ := h1
      have hr : r = 0x2f :: 0x2f :: r.drop 2 := by
        have := List.take_append_drop 2 r
        rw [ht] at this
        exact this.symm
      simp only [findSchemeEnd, hc, ht, and_self, if_true]
      rw [findScheme]
      simp [ht, ← hr]
    · by_cases h3 : (c :: r).length ≥ 3
      · have hcond : ((c :: r).length ≥ 3 && !(c == 0x3a && r.take 2 == [0x2f, 0x2f])) = true := by
          simp only [Bool.and_eq_true, decide_eq_true_eq, Bool.not_eq_true', Bool.and_eq_false_iff]
          refine ⟨h3, ?_⟩
          by_cases hc : c = 0x3a
          · right
            have : ¬ r.take 2 = [0x2f, 0x2f] := fun e => h1 ⟨hc, e⟩
            simpa using this
          · left; simpa using hc
        rw [findSchemeEnd, if_neg h1, findScheme, if_pos hcond]
        cases hf : findSchemeEnd r with
        | none => simp only [hf] at ih ⊢; exact ih
        | some nr =>
          obtain ⟨n, rest⟩ := nr
          simp only [hf] at ih ⊢
          rw [ih]
      · have hlt : (c :: r).length < 3 := by omega
        have hcond : ((c :: r).length ≥ 3 && !(c == 0x3a && r.take 2 == [0x2f, 0x2f])) = false := by
          simp only [Bool.and_eq_false_iff, decide_eq_false_iff_not]
          left; exact h3
        rw [findSchemeEnd_short _ hlt, findScheme, hcond]
        simpa using hlt

/-! ### escapes_ok() -/

theorem escapesOk_eq (s : Bytes) : MU.escapesOk s = Spec.Uri.escapesOk s := by
  unfold Spec.Uri.escapesOk
  induction s using MU.escapesOk.induct with
  | case1 => rfl
  | case2 a b r' hx ih =>
    simp only [Bool.and_eq_true] at hx
    rw [MU.escapesOk, if_pos rfl, if_pos (by simp [hx.1, hx.2]), ih]
    cases ha : hexDigitVal a with
    | none => rw [hex_none a ha] at hx; exact absurd hx.1 (by simp)
    | some x =>
      cases hb : hexDigitVal b with
      | none => rw [hex_none b hb] at hx; exact absurd hx.2 (by simp)
      | some y =>
        cases ht : pctDecode r' with
        | none => rw [pctDecode.eq_def]; simp [ha, hb, ht]
        | some t => rw [pctDecode_esc _ _ _ _ _ _ ha hb ht]; rfl
  | case3 a b r' hx =>
    rw [MU.escapesOk, if_pos rfl, if_neg hx]
    cases ha : hexDigitVal a with
    | none => rw [pctDecode.eq_def]; simp [ha]
    | some x =>
      cases hb : hexDigitVal b with
      | none => rw [pctDecode.eq_def]; simp [ha, hb]
      | some y =>
        exact absurd (by simp [(hex_some a x ha).2.1, (hex_some b y hb).2.1]) hx
  | case4 c a b r' hc ih =>
    rw [MU.escapesOk, if_neg hc, ih]
    cases ht : pctDecode (a :: b :: r') with
    | none => rw [pctDecode.eq_def]; simp [hc, ht]
    | some t => rw [pctDecode_cons_plain _ _ _ hc ht]; rfl
  | case5 r hr =>
    rw [MU.escapesOk]
    · simp only [if_true]
      rw [pctDecode.eq_def]
      cases r with
      | nil => simp
      | cons a r1 =>
        cases r1 with
        | nil => simp
        | cons b r2 => exact absurd rfl (hr a b r2)
    · exact hr
  | case6 c r hr hc ih =>
    rw [MU.escapesOk]
    · rw [if_neg hc, ih]
      cases ht : pctDecode r with
      | none => rw [pctDecode.eq_def]; simp [hc, ht]
      | some t => rw [pctDecode_cons_plain _ _ _ hc ht]; rfl
    · exact hr

/-! ### the port loop -/

theorem decimal_mono (ds : Bytes) (v : Nat) : v ≤ ds.foldl (fun a c => a * 10 + (c.toNat - 48)) v := by
  induction ds generalizing v with
  | nil => simp
  | cons c r ih =>
    simp only [List.foldl_cons]
    have := ih (v * 10 + (c.toNat - 48))
    omega

/-- the early exit of the port loop (`uri_port <= UINT16_MAX`) never changes the verdict -/
theorem portLoop_spec (ds : Bytes) (v : Nat) :
    (ds.foldl (fun a c => a * 10 + (c.toNat - 48)) v ≤ 65535 → portLoop ds v = ds.foldl (fun a c => a * 10 + (c.toNat - 48)) v) ∧
    (¬ ds.foldl (fun a c => a * 10 + (c.toNat - 48)) v ≤ 65535 → ¬ portLoop ds v ≤ 65535) := by
  induction ds generalizing v with
  | nil => simp [portLoop]
  | cons c r ih =>
    simp only [List.foldl_cons]
    have hm := decimal_mono r (v * 10 + (c.toNat - 48))
    by_cases hv : v ≤ 65535
    · rw [portLoop, if_pos hv]
      exact ih _
    · rw [portLoop, if_neg hv]
      constructor
      · intro h; omega
      · intro _; exact hv

theorem portLoop_le (ds : Bytes) (h : decimal ds ≤ 65535) : portLoop ds 0 = decimal ds :=
  (portLoop_spec ds 0).1 h

theorem portLoop_gt (ds : Bytes) (h : ¬ decimal ds ≤ 65535) : portLoop ds 0 > 65535 := by
  have := (portLoop_spec ds 0).2 h
  omega

/-! ### coap_split_uri_sub block by block -/

theorem bne_not (c k : UInt8) : (c == k) = !(c != k) := by
  cases h : (c == k) <;> simp [bne, h]

theorem pathAndQuery_eq (u : MU.Uri) (q : Bytes) (hp : u.path = []) (hq : u.query = []) :
    pathAndQuery u q =
      match pathQuery q with
      | some pq => R.ok { u with path := pq.1, query := pq.2 }
      | none => R.rej := by
  obtain ⟨sc, ho, po, pa, qu⟩ := u
  simp only at hp hq
  subst hp; subst hq
  have e0 : Spec.Uri.escapesOk [] = true := rfl
  cases q with
  | nil => simp [pathAndQuery, pathQuery, MU.escapesOk, e0]
  | cons c r =>
    have hb : spanWhile (· != 0x3f) r = breakAt (· == 0x3f) r :=
      spanWhile_eq_breakAt _ _ (fun c => bne_not c 0x3f) r
    unfold pathAndQuery pathQuery
    simp only [escapesOk_eq, hb]
    by_cases hc : c = 0x2f
    · simp only [hc, if_true]
      generalize breakAt (· == 0x3f) r = pr
      obtain ⟨p1, p2⟩ := pr
      cases p2 with
      | nil => by_cases h1 : Spec.Uri.escapesOk p1 = true <;> simp [h1, e0]
      | cons d qr =>
        by_cases hd : d = 0x3f
        · by_cases h1 : Spec.Uri.escapesOk p1 = true <;> by_cases h2 : Spec.Uri.escapesOk qr = true <;> simp [hd, h1, h2]
        · simp [hd]
    · simp only [hc, if_false]
      by_cases hd : c = 0x3f
      · by_cases h2 : Spec.Uri.escapesOk r = true <;> simp [hd, h2, e0]
      · simp [hd]


/-- the "Uri-Host" block of coap_split_uri_sub -/
def hostM (u1 : MU.Uri) (p : Bytes) : R (MU.Uri × Bytes × Bool) :=
  match p with
  | c :: r =>
    if c = 0x5b then
      let hq := spanWhile (· != 0x5d) r
      match hq.2 with
      | [] => R.rej
      | _ :: q' => if hq.1.isEmpty then R.rej else R.ok ({ u1 with host := hq.1 }, q', false)
    else
      let unix := p.length ≥ 3 && c == 0x25 && (p.drop 1).head? == some 0x32 &&
                  ((p.drop 2).head? == some 0x46 || (p.drop 2).head? == some 0x66)
      let hq := spanWhile (fun c => c != 0x3a && c != 0x2f && c != 0x3f) p
      if hq.1.isEmpty then R.rej
      else R.ok ({ u1 with host := hq.1, port := if unix then 0 else u1.port }, hq.2, unix)
  | [] => R.rej

/-- the "Uri-Port" block -/
def portM (u2 : MU.Uri) (q : Bytes) (unix : Bool) : R (MU.Uri × Bytes) :=
  match q with
  | c :: r =>
    if c = 0x3a then
      if unix then R.rej else
      let dq := spanWhile isDigitC r
      if dq.1.isEmpty then R.ok (u2, dq.2)
      else
        let v := portLoop dq.1 0
        if v > 65535 then R.rej else R.ok ({ u2 with port := v % 65536 }, dq.2)
    else R.ok (u2, q)
  | [] => R.ok (u2, q)

def afterScheme (u1 : MU.Uri) (p : Bytes) : R MU.Uri :=
  match hostM u1 p with
  | .rej => R.rej
  | .oob => R.oob
  | .ok (u2, q, unix) =>
    match portM u2 q unix with
    | .rej => R.rej
    | .oob => R.oob
    | .ok (u3, q2) => pathAndQuery u3 q2

theorem splitUriSub_unfold (proxy : Bool) (s : Bytes) :
    splitUriSub proxy s =
      match s with
      | [] => R.rej
      | c0 :: _ =>
        let u0 : MU.Uri := ⟨0, [], Generated.Uri.defaultPort, [], []⟩
        if c0 = 0x2f then
          if proxy then R.rej else pathAndQuery u0 s
        else
          let sp := findScheme s
          if sp.2.length < 3 then R.rej else
          match Generated.Uri.schemes.find? (fun e => e.1 == sp.1) with
          | none => R.rej
          | some (_, dport, proxyOnly, id) =>
            if !proxy && proxyOnly then R.rej else
            if (id = 1 && !supportedAt 0) || (id = 2 && !supportedAt 1) || (id = 3 && !supportedAt 2) ||
               (id = 6 && !supportedAt 3) || (id = 7 && !supportedAt 4) || id > 7 then R.rej else
            afterScheme { u0 with scheme := id, port := dport } (sp.2.drop 3) := by
  cases s with
  | nil => rfl
  | cons c0 t => rfl


theorem hostStop_not (c : UInt8) :
    (c == 0x3a || c == 0x2f || c == 0x3f) = !(c != 0x3a && c != 0x2f && c != 0x3f) := by
  cases h1 : (c == 0x3a) <;> cases h2 : (c == 0x2f) <;> cases h3 : (c == 0x3f) <;> simp [bne, h1, h2, h3]

theorem hostM_eq (u1 : MU.Uri) (p : Bytes) (hu : unixStart p = false) :
    hostM u1 p =
      match hostPart p with
      | none => R.rej
      | some hr => R.ok ({ u1 with host := hr.1 }, hr.2, false) := by
  cases p with
  | nil => rfl
  | cons c r =>
    have hb1 : spanWhile (· != 0x5d) r = breakAt (· == 0x5d) r :=
      spanWhile_eq_breakAt _ _ (fun c => bne_not c 0x5d) r
    have hb2 : spanWhile (fun c => c != 0x3a && c != 0x2f && c != 0x3f) (c :: r) =
        breakAt (fun c => c == 0x3a || c == 0x2f || c == 0x3f) (c :: r) :=
      spanWhile_eq_breakAt _ _ hostStop_not _
    unfold hostM hostPart
    simp only [hb1, hb2]
    by_cases hc : c = 0x5b
    · simp only [hc, if_true]
      generalize breakAt (· == 0x5d) r = hr
      obtain ⟨h1, h2⟩ := hr
      cases h2 with
      | nil => rfl
      | cons d rest => by_cases he : h1.isEmpty = true <;> simp [he]
    · simp only [hc, if_false]
      have hux : ((c :: r).length ≥ 3 && c == 0x25 && ((c :: r).drop 1).head? == some 0x32 &&
                  (((c :: r).drop 2).head? == some 0x46 || ((c :: r).drop 2).head? == some 0x66)) = false := by
        cases r with
        | nil => simp
        | cons a r1 =>
          cases r1 with
          | nil => simp
          | cons b r2 =>
            simp [unixStart] at hu
            simp
            intro h1 h2
            exact hu h1 h2
      simp only [hux]
      generalize breakAt (fun c => c == 0x3a || c == 0x2f || c == 0x3f) (c :: r) = hr
      obtain ⟨h1, h2⟩ := hr
      by_cases he : h1.isEmpty = true <;> simp [he]

theorem isDigit_not (c : UInt8) : (!Spec.Uri.isDigit c) = !isDigitC c := rfl

theorem portM_eq (u2 : MU.Uri) (q : Bytes) :
    portM u2 q false =
      match portPart q with
      | none => R.rej
      | some pr => R.ok ({ u2 with port := match pr.1 with | some n => n | none => u2.port }, pr.2) := by
  obtain ⟨sc, ho, po, pa, qu⟩ := u2
  cases q with
  | nil => rfl
  | cons c r =>
    have hb : spanWhile isDigitC r = breakAt (fun c => !Spec.Uri.isDigit c) r :=
      spanWhile_eq_breakAt _ _ (fun c => isDigit_not c) r
    unfold portM portPart
    simp only [hb]
    by_cases hc : c = 0x3a
    · simp only [hc, if_true]
      generalize breakAt (fun c => !Spec.Uri.isDigit c) r = dr
      obtain ⟨d1, d2⟩ := dr
      by_cases he : d1.isEmpty = true
      · simp [he]
      · by_cases hd : decimal d1 ≤ 65535
        · have := portLoop_le d1 hd
          simp [he, hd, this, Nat.mod_eq_of_lt (show decimal d1 < 65536 by omega)]
        · have := portLoop_gt d1 hd
          simp [he, hd, this]
    · simp [hc]


def partsOf (u : MU.Uri) : UriParts := ⟨u.scheme, u.host, u.port, u.path, u.query⟩

/-- every scheme of the table passes the `switch (uri->scheme)` of this build (T1: table and *_is_supported()) -/
theorem schemes_supported : ∀ e ∈ Generated.Uri.schemes,
    ((e.2.2.2 = 1 && !supportedAt 0) || (e.2.2.2 = 2 && !supportedAt 1) || (e.2.2.2 = 3 && !supportedAt 2) ||
     (e.2.2.2 = 6 && !supportedAt 3) || (e.2.2.2 = 7 && !supportedAt 4) || e.2.2.2 > 7) = false := by decide

theorem afterScheme_eq (u1 : MU.Uri) (p : Bytes) (hu : unixStart p = false) (hp : u1.path = []) (hq : u1.query = []) :
    afterScheme u1 p =
      match hostPart p with
      | none => R.rej
      | some (h, rest1) =>
        match portPart rest1 with
        | none => R.rej
        | some (port, rest2) =>
          match pathQuery rest2 with
          | none => R.rej
          | some (pa, qu) => R.ok ⟨u1.scheme, h, (match port with | some n => n | none => u1.port), pa, qu⟩ := by
  unfold afterScheme
  rw [hostM_eq u1 p hu]
  cases hostPart p with
  | none => rfl
  | some hr =>
    obtain ⟨h, rest1⟩ := hr
    simp only
    rw [portM_eq]
    cases portPart rest1 with
    | none => rfl
    | some pr =>
      obtain ⟨port, rest2⟩ := pr
      simp only
      rw [pathAndQuery_eq _ _ (by exact hp) (by exact hq)]
      cases pathQuery rest2 with
      | none => rfl
      | some pq => rfl


def uriOf (u : UriParts) : MU.Uri := ⟨u.scheme, u.host, u.port, u.path, u.query⟩

/-- coap_split_uri_sub = S on every byte string whose authority does not start with "%2F" (D16f) -/
theorem splitUriSub_eq (proxy : Bool) (s : Bytes) (hu : unixAuthority s = false) :
    splitUriSub proxy s =
      match splitUri Generated.Uri.schemes proxy s with
      | some parts => R.ok (uriOf parts)
      | none => R.rej := by
  rw [splitUriSub_unfold]
  cases s with
  | nil => rfl
  | cons c0 t =>
    simp only
    by_cases hc : c0 = 0x2f
    · simp only [hc, if_true, splitUri]
      cases proxy with
      | true => rfl
      | false =>
        simp only [Bool.false_eq_true, if_false]
        rw [pathAndQuery_eq _ _ rfl rfl]
        cases pathQuery (0x2f :: t) with
        | none => rfl
        | some pq => rfl
    · simp only [unixAuthority, hc, if_false] at hu
      have hfs := findScheme_spec (c0 :: t)
      simp only [hc, if_false, splitUri]
      cases hf : findSchemeEnd (c0 :: t) with
      | none =>
        simp only [hf] at hfs
        simp only [hfs, if_true]
      | some nr =>
        obtain ⟨n, rest⟩ := nr
        simp only [hf] at hfs hu
        rw [hfs]
        simp only [List.length_cons, List.drop_succ_cons, List.drop_zero]
        rw [if_neg (by omega)]
        cases hfind : Generated.Uri.schemes.find? (fun e => e.1 == n) with
        | none => rfl
        | some e =>
          obtain ⟨nm, dport, proxyOnly, id⟩ := e
          have hsup := schemes_supported _ (List.mem_of_find?_eq_some hfind)
          simp only at hsup
          simp only [hsup]
          by_cases hpx : (proxyOnly && !proxy) = true
          · have : (!proxy && proxyOnly) = true := by rw [Bool.and_comm]; exact hpx
            simp only [hpx, this, if_true]
          · have : ¬ (!proxy && proxyOnly) = true := by rw [Bool.and_comm]; exact hpx
            simp only [hpx, this, if_false, Bool.false_eq_true]
            rw [afterScheme_eq _ _ hu rfl rfl]
            cases hostPart rest with
            | none => rfl
            | some hr =>
              obtain ⟨h, rest1⟩ := hr
              simp only
              cases portPart rest1 with
              | none => rfl
              | some pr =>
                obtain ⟨port, rest2⟩ := pr
                simp only
                cases pathQuery rest2 with
                | none => rfl
                | some pq => rfl


/-! ### the buffer accounting of coap_split_path / coap_split_query -/

theorem usedBy_append (segs : List Bytes) (d : Bytes) : usedBy (segs ++ [d]) = usedBy segs + optSize d := by
  simp [usedBy, List.sum_append]

theorem usedBy_cons (d : Bytes) (segs : List Bytes) : usedBy (d :: segs) = optSize d + usedBy segs := by
  simp [usedBy]

theorem usedBy_dropLast_le (segs : List Bytes) : usedBy segs.dropLast ≤ usedBy segs := by
  induction segs with
  | nil => simp
  | cons a r ih =>
    cases r with
    | nil => simp [usedBy]
    | cons b r' =>
      rw [List.dropLast_cons_cons, usedBy_cons, usedBy_cons]
      omega

theorem pctDecode_length_le (n : Nat) : ∀ (s d : Bytes), s.length ≤ n → pctDecode s = some d → d.length ≤ s.length := by
  induction n with
  | zero =>
    intro s d hn h
    have : s = [] := List.eq_nil_of_length_eq_zero (by omega)
    subst this
    simp [pctDecode] at h; subst h; simp
  | succ n ih =>
    intro s d hn h
    cases s with
    | nil => simp [pctDecode] at h; subst h; simp
    | cons c r =>
      rcases pctDecode_cons_inv _ _ _ h with ⟨_, t, ht, hd⟩ | ⟨_, a, b, r', x, y, t, hr, _, _, ht, hd⟩
      · have := ih r t (by simp at hn; omega) ht
        subst hd; simp; omega
      · subst hr
        have := ih r' t (by simp at hn; omega) ht
        subst hd; simp; omega

theorem optSize_le (d : Bytes) : optSize d ≤ d.length + 3 := by
  unfold optSize; split <;> (try split) <;> omega

theorem optHdr_fits (room len : Nat) (h : (if len < 13 then 1 else if len < 269 then 2 else 3) + len ≤ room) :
    ¬ (room = 0) ∧ ¬ (optHdr room len = 0) ∧ ¬ (room - optHdr room len < len) := by
  unfold optHdr
  by_cases h1 : len < 13
  · simp only [h1, if_true] at h ⊢
    have h0 : ¬ room = 0 := by omega
    simp only [h0, if_false]
    exact ⟨fun f => f, by omega, by omega⟩
  · by_cases h2 : len < 269
    · simp only [h1, h2, if_true, if_false] at h ⊢
      have h0 : ¬ room = 0 := by omega
      have h3 : ¬ room < 2 := by omega
      simp only [h0, h3, if_false]
      exact ⟨fun f => f, by omega, by omega⟩
    · simp only [h1, h2, if_false] at h ⊢
      have h0 : ¬ room = 0 := by omega
      have h3 : ¬ room < 3 := by omega
      simp only [h0, h3, if_false]
      exact ⟨fun f => f, by omega, by omega⟩

/-- one raw segment that decodes and fits: write_option appends exactly its decoding -/
theorem writeS_fits (seg d : Bytes) (st : Cnt) (hd : pctDecode seg = some d)
    (hfit : usedBy st.segs + optSize d ≤ st.buflen) : writeS seg st = { st with segs := st.segs ++ [d] } := by
  have ⟨h0, h1, h2⟩ := optHdr_fits (st.buflen - usedBy st.segs) d.length (by unfold optSize at hfit; omega)
  unfold writeS
  rw [hd]
  simp only
  rw [if_neg h0, if_neg h1, if_neg h2]

/-- whatever the buffer size: a written segment fits -/
theorem optHdr_room (room len : Nat) (h1 : ¬ (optHdr room len = 0)) (h2 : ¬ (room - optHdr room len < len)) :
    (if len < 13 then 1 else if len < 269 then 2 else 3) + len ≤ room := by
  unfold optHdr at h1 h2
  by_cases g0 : room = 0
  · simp [g0] at h1
  · by_cases g1 : len < 13
    · simp only [g0, g1, if_true, if_false] at h1 h2 ⊢; omega
    · by_cases g2 : len < 269
      · by_cases g3 : room < 2
        · simp [g0, g1, g2, g3] at h1
        · simp only [g0, g1, g2, g3, if_true, if_false] at h1 h2 ⊢; omega
      · by_cases g3 : room < 3
        · simp [g0, g1, g2, g3] at h1
        · simp only [g0, g1, g2, g3, if_false] at h1 h2 ⊢; omega

theorem writeS_inv (seg : Bytes) (st : Cnt) (h : usedBy st.segs ≤ st.buflen) :
    usedBy (writeS seg st).segs ≤ (writeS seg st).buflen ∧ (writeS seg st).buflen = st.buflen := by
  unfold writeS
  by_cases h0 : st.buflen - usedBy st.segs = 0
  · simp [h0, h]
  · rw [if_neg h0]
    cases pctDecode seg with
    | none => exact ⟨h, rfl⟩
    | some d =>
      simp only
      by_cases h1 : optHdr (st.buflen - usedBy st.segs) d.length = 0
      · rw [if_pos h1]; exact ⟨h, rfl⟩
      · rw [if_neg h1]
        by_cases h2 : st.buflen - usedBy st.segs - optHdr (st.buflen - usedBy st.segs) d.length < d.length
        · rw [if_pos h2]; exact ⟨h, rfl⟩
        · rw [if_neg h2]
          have := optHdr_room _ _ h1 h2
          refine ⟨?_, rfl⟩
          simp only [usedBy_append, optSize]
          omega

theorem pathStepBuf_inv (seg : Bytes) (st : Cnt) (h : usedBy st.segs ≤ st.buflen) :
    usedBy (pathStepBuf seg st).segs ≤ (pathStepBuf seg st).buflen ∧ (pathStepBuf seg st).buflen = st.buflen := by
  unfold pathStepBuf
  by_cases h1 : dotKind seg = 1
  · simp [h1, h]
  · by_cases h2 : dotKind seg = 2
    · simp only [h2, if_true, backupSegment]
      exact ⟨Nat.le_trans (usedBy_dropLast_le _) h, rfl⟩
    · simp only [h1, h2, if_false]
      exact writeS_inv seg st h

theorem fold_inv (step : Bytes → Cnt → Cnt)
    (hstep : ∀ seg st, usedBy st.segs ≤ st.buflen → usedBy (step seg st).segs ≤ (step seg st).buflen ∧ (step seg st).buflen = st.buflen)
    (raws : List Bytes) (st : Cnt) (h : usedBy st.segs ≤ st.buflen) :
    usedBy (raws.foldl (fun s seg => step seg s) st).segs ≤ st.buflen := by
  induction raws generalizing st with
  | nil => exact h
  | cons r rs ih =>
    simp only [List.foldl_cons]
    have ⟨a, b⟩ := hstep r st h
    have := ih (step r st) a
    rw [b] at this
    exact this

/-- with room for every decoded segment (dot segments included) nothing is ever omitted: the fold is S's resolution -/
theorem fold_buf_path (raws ds : List Bytes) (st : Cnt) (h : decodeAll raws = some ds)
    (hroom : usedBy st.segs + usedBy ds ≤ st.buflen) :
    raws.foldl (fun s seg => pathStepBuf seg s) st = ⟨st.buflen, ds.foldl resolveStep st.segs⟩ := by
  induction raws generalizing ds st with
  | nil => simp [decodeAll] at h; subst h; rfl
  | cons r rs ih =>
    simp only [decodeAll] at h
    cases hd : pctDecode r with
    | none => simp [hd] at h
    | some d =>
      cases ht : decodeAll rs with
      | none => simp [hd, ht] at h
      | some t =>
        simp [hd, ht] at h
        subst h
        rw [usedBy_cons] at hroom
        simp only [List.foldl_cons]
        have hstep : pathStepBuf r st = ⟨st.buflen, resolveStep st.segs d⟩ ∧
            usedBy (resolveStep st.segs d) + usedBy t ≤ st.buflen := by
          unfold pathStepBuf resolveStep
          rw [dotKind_decode r d hd]
          by_cases e1 : d = dot1
          · constructor
            · simp [e1]
            · simp only [e1, if_true]; omega
          · by_cases e2 : d = dot2
            · have hne : dot2 ≠ dot1 := by decide
              subst e2
              have := usedBy_dropLast_le st.segs
              constructor
              · simp [hne, backupSegment]
              · simp only [hne, if_true, if_false]; omega
            · have h01 : ¬ ((0 : Nat) = 1) := by omega
              have h02 : ¬ ((0 : Nat) = 2) := by omega
              simp only [e1, e2, if_false, h01, h02]
              rw [writeS_fits r d st hd (by omega), usedBy_append]
              exact ⟨rfl, by omega⟩
        rw [hstep.1]
        exact ih t ⟨st.buflen, resolveStep st.segs d⟩ ht hstep.2

theorem fold_buf_query (raws ds : List Bytes) (st : Cnt) (h : decodeAll raws = some ds)
    (hroom : usedBy st.segs + usedBy ds ≤ st.buflen) :
    raws.foldl (fun s seg => writeS seg s) st = ⟨st.buflen, st.segs ++ ds⟩ := by
  induction raws generalizing ds st with
  | nil => simp [decodeAll] at h; subst h; simp
  | cons r rs ih =>
    simp only [decodeAll] at h
    cases hd : pctDecode r with
    | none => simp [hd] at h
    | some d =>
      cases ht : decodeAll rs with
      | none => simp [hd, ht] at h
      | some t =>
        simp [hd, ht] at h
        subst h
        rw [usedBy_cons] at hroom
        simp only [List.foldl_cons]
        rw [writeS_fits r d st hd (by omega)]
        rw [ih t _ ht (by simp only [usedBy_append]; omega)]
        simp


/-- bytes of the raw segments -/
def rawLen (raws : List Bytes) : Nat := (raws.map List.length).sum

/-- the raw segments and the separators between them are disjoint parts of the input -/
theorem splitAcc_len (stop sep : UInt8 → Bool) (q cur : Bytes) :
    rawLen (splitAcc stop sep q cur) + (splitAcc stop sep q cur).length ≤ cur.length + q.length + 1 ∧
    1 ≤ (splitAcc stop sep q cur).length := by
  induction q generalizing cur with
  | nil => simp [splitAcc, rawLen]
  | cons c r ih =>
    by_cases h1 : stop c = true
    · simp [splitAcc, h1, rawLen]
    · by_cases h2 : sep c = true
      · have := ih []
        simp [rawLen] at this
        simp [splitAcc, h1, h2, rawLen]
        omega
      · have := ih (cur ++ [c])
        simp only [rawLen] at this
        simp [splitAcc, h1, h2, rawLen] at this ⊢
        omega

theorem usedBy_le_raw (raws ds : List Bytes) (h : decodeAll raws = some ds) :
    usedBy ds ≤ rawLen raws + 3 * raws.length ∧
    ((∀ d ∈ ds, d.length < 269) → usedBy ds ≤ rawLen raws + 2 * raws.length) := by
  induction raws generalizing ds with
  | nil => simp [decodeAll] at h; subst h; simp [usedBy, rawLen]
  | cons r rs ih =>
    simp only [decodeAll] at h
    cases hd : pctDecode r with
    | none => simp [hd] at h
    | some d =>
      cases ht : decodeAll rs with
      | none => simp [hd, ht] at h
      | some t =>
        simp [hd, ht] at h
        subst h
        have ⟨i1, i2⟩ := ih t ht
        have hl := pctDecode_length_le r.length r d (Nat.le_refl _) hd
        have hr : rawLen (r :: rs) = r.length + rawLen rs := by simp [rawLen]
        rw [usedBy_cons, hr]
        constructor
        · have := optSize_le d
          simp only [List.length_cons]; omega
        · intro hs
          have h1 := hs d (by simp)
          have h2 := i2 (fun x hx => hs x (by simp [hx]))
          have : optSize d ≤ d.length + 2 := by unfold optSize; split <;> (try split) <;> omega
          simp only [List.length_cons]; omega

/-- coap_split_path with a buffer that holds all decoded segments -/
theorem splitPathBuf_eq (input : Bytes) (buflen : Nat) (ds : List Bytes)
    (hd : decodeAll (rawSegs pathStop pathSep input) = some ds) (hb : usedBy ds ≤ buflen) :
    MU.splitPath input buflen = R.ok (resolve ds) := by
  rw [splitPathBuf_fold, fold_buf_path _ ds ⟨buflen, []⟩ hd (by simpa [usedBy] using hb)]
  rfl

theorem splitQueryBuf_eq (input : Bytes) (buflen : Nat) (ds : List Bytes)
    (hd : decodeAll (rawSegs queryStop querySep input) = some ds) (hb : usedBy ds ≤ buflen) :
    MU.splitQuery input buflen = R.ok ds := by
  rw [splitQueryBuf_fold, fold_buf_query _ ds ⟨buflen, []⟩ hd (by simpa [usedBy] using hb)]
  simp

/-- the two documented-minimum bounds in terms of the input -/
theorem usedBy_le_input (stop sep : UInt8 → Bool) (input : Bytes) (ds : List Bytes)
    (hd : decodeAll (rawSegs stop sep input) = some ds) :
    usedBy ds ≤ input.length + 2 * (rawSegs stop sep input).length + 1 ∧
    ((∀ d ∈ ds, d.length < 269) → usedBy ds ≤ input.length + 2 * (rawSegs stop sep input).length) := by
  have ⟨a1, a2⟩ := usedBy_le_raw _ ds hd
  have ⟨b1, b2⟩ := splitAcc_len stop sep input []
  simp only [List.length_nil, Nat.zero_add] at b1
  unfold rawSegs at *
  constructor
  · omega
  · intro hs
    have := a2 hs
    omega


end Coap.UriL
