import CoapVerif.Lemmas.EditItems
/-
M-side lemmas for the editors (C04), part 2: the byte-level key lemma.

"Re-encoding the FOLLOWING option's delta": for an option header encoded with delta `dOld` followed by arbitrary
bytes, what M's patch-in-place produces for a new delta `dNew` is the canonical header for `dNew` followed by the same
bytes — preceded by `J`, the bytes that the memmove then drops (coap_insert_option, header shrinks by |J| = 0/1/2), or
overwriting `J`, the last bytes of the removed option (coap_remove_option, header grows by |J| = 0/1/2).  Proved once
over the size classes (<13, 13..268, ≥269) of old and new delta.  `insPatch` / `remPatch` are the `if` chains of
M.insertBody / M.removeOption, named (`insertBody_eq`, `removeOption_eq` are by `rfl`).
-/
namespace Coap
open Coap.M

/-- header of an option: first byte (delta nibble, length nibble `nl`) + delta extension bytes -/
def hdrB (d nl : Nat) : Bytes := UInt8.ofNat (Spec.nib d * 16 + nl) :: Spec.extBytes d

theorem encOpt_hdrB (d : Nat) (v : Bytes) :
    Spec.encOpt d v = hdrB d (Spec.nib v.length) ++ (Spec.extBytes v.length ++ v) := by
  simp [Spec.encOpt, hdrB]

theorem hdrB_lt13 {d : Nat} (nl : Nat) (h : d < 13) : hdrB d nl = [UInt8.ofNat (d * 16 + nl)] := by
  simp [hdrB, nib_of_lt13 h, extBytes_of_lt13 h]
theorem hdrB_lt269 {d : Nat} (nl : Nat) (h1 : ¬ d < 13) (h2 : d < 269) :
    hdrB d nl = [UInt8.ofNat (13 * 16 + nl), UInt8.ofNat (d - 13)] := by
  simp [hdrB, nib_of_lt269 h1 h2, extBytes_of_lt269 h1 h2]
theorem hdrB_ge269 {d : Nat} (nl : Nat) (h2 : ¬ d < 269) :
    hdrB d nl = [UInt8.ofNat (14 * 16 + nl), UInt8.ofNat ((d - 269) / 256), UInt8.ofNat ((d - 269) % 256)] := by
  simp [hdrB, nib_of_ge269 h2, extBytes_of_ge269 h2]

theorem wr_mid (P old Q ys : Bytes) (i : Nat) (hi : i = P.length) (h : old.length = ys.length) :
    wr (P ++ (old ++ Q)) i ys = R.ok (P ++ (ys ++ Q)) := by
  subst hi
  unfold wr
  have hle : P.length + ys.length ≤ (P ++ (old ++ Q)).length := by simp; omega
  rw [if_pos hle, take_app_len]
  have : P ++ (old ++ Q) = (P ++ old) ++ Q := by simp
  rw [this, show P.length + ys.length = (P ++ old).length by simp; omega, drop_app_len]
  simp

theorem wr_0_1 (A T : Bytes) (x0 y : UInt8) : wr (A ++ x0 :: T) A.length [y] = R.ok (A ++ y :: T) :=
  wr_mid A [x0] T [y] _ rfl rfl
theorem wr_0_2 (A T : Bytes) (x0 x1 y0 y1 : UInt8) :
    wr (A ++ x0 :: x1 :: T) A.length [y0, y1] = R.ok (A ++ y0 :: y1 :: T) :=
  wr_mid A [x0, x1] T [y0, y1] _ rfl rfl
theorem wr_0_3 (A T : Bytes) (x0 x1 x2 y0 y1 y2 : UInt8) :
    wr (A ++ x0 :: x1 :: x2 :: T) A.length [y0, y1, y2] = R.ok (A ++ y0 :: y1 :: y2 :: T) :=
  wr_mid A [x0, x1, x2] T [y0, y1, y2] _ rfl rfl
theorem wr_1_1 (A T : Bytes) (x0 x1 y : UInt8) :
    wr (A ++ x0 :: x1 :: T) (A.length + 1) [y] = R.ok (A ++ x0 :: y :: T) := by
  have := wr_mid (A ++ [x0]) [x1] T [y] (A.length + 1) (by simp) rfl
  simpa using this
theorem wr_1_2 (A T : Bytes) (x0 x1 x2 y1 y2 : UInt8) :
    wr (A ++ x0 :: x1 :: x2 :: T) (A.length + 1) [y1, y2] = R.ok (A ++ x0 :: y1 :: y2 :: T) := by
  have := wr_mid (A ++ [x0]) [x1, x2] T [y1, y2] (A.length + 1) (by simp) rfl
  simpa using this
theorem wr_2_1 (A T : Bytes) (x0 x1 x2 y : UInt8) :
    wr (A ++ x0 :: x1 :: x2 :: T) (A.length + 2) [y] = R.ok (A ++ x0 :: x1 :: y :: T) := by
  have := wr_mid (A ++ [x0, x1]) [x2] T [y] (A.length + 2) (by simp) rfl
  simpa using this

/-- the six next-header rewrite cases of `coap_insert_option` (M.insertBody) -/
def insPatch (buf : Bytes) (o dOld optDelta b0 : Nat) : R (Bytes × Nat) :=
  (if dOld < 13 then do
    let b ← wr buf o [UInt8.ofNat (b0 % 16 + (optDelta * 16) % 256)]
    R.ok (b, 0)
  else if dOld < 269 ∧ optDelta < 13 then do
    let b ← wr buf (o + 1) [UInt8.ofNat (b0 % 16 + (optDelta * 16) % 256)]
    R.ok (b, 1)
  else if dOld < 269 ∧ optDelta < 269 then do
    let b ← wr buf (o + 1) [UInt8.ofNat (optDelta - 13)]
    R.ok (b, 0)
  else if optDelta < 13 then do
    let b ← wr buf (o + 2) [UInt8.ofNat (b0 % 16 + (optDelta * 16) % 256)]
    R.ok (b, 2)
  else if optDelta < 269 then do
    let b ← wr buf (o + 1) [UInt8.ofNat (b0 % 16 + 0xd0), UInt8.ofNat (optDelta - 13)]
    R.ok (b, 1)
  else do
    let b ← wr buf (o + 1) [UInt8.ofNat ((optDelta - 269) / 256), UInt8.ofNat ((optDelta - 269) % 256)]
    R.ok (b, 0) : R (Bytes × Nat))

theorem insertBody_eq (pdu : Pdu) (number : Nat) (data : Bytes) :
    insertBody pdu number data =
      match findInsert number 0 (items pdu) with
      | none => R.oob
      | some (it, prevNumber) =>
        if it.num - number = 0 ∧ ¬ repeatable number then R.ok (0, pdu) else
        if ¬ checkResize pdu (pdu.buf.length + optEncodeSize ((number - prevNumber) % 65536) data.length) then R.ok (0, pdu) else
        rd pdu.buf it.ofs >>= fun b0 =>
        insPatch pdu.buf it.ofs it.p.delta (it.num - number) b0 >>= fun r =>
        R.ok (optEncodeSize ((number - prevNumber) % 65536) data.length,
          { pdu with buf := r.1.take it.ofs ++ optEncode ((number - prevNumber) % 65536) data ++ r.1.drop (it.ofs + r.2),
                     data := pdu.data.map (· + optEncodeSize ((number - prevNumber) % 65536) data.length - r.2) }) := by
  rfl

theorem insPatch_spec (A T : Bytes) (dOld dNew nl b0 : Nat) (hb0 : b0 % 16 = nl) (hle : dNew ≤ dOld) :
    ∃ J, J.length = (Spec.extBytes dOld).length - (Spec.extBytes dNew).length ∧
      insPatch (A ++ (hdrB dOld nl ++ T)) A.length dOld dNew b0 =
        R.ok (A ++ (J ++ (hdrB dNew nl ++ T)), J.length) := by
  have hc1 : nl + dNew * 16 = dNew * 16 + nl := Nat.add_comm _ _
  have hc2 : nl + 208 = 13 * 16 + nl := by omega
  by_cases o1 : dOld < 13
  · have n1 : dNew < 13 := by omega
    refine ⟨[], by simp [extBytes_of_lt13 o1, extBytes_of_lt13 n1], ?_⟩
    have hm : dNew * 16 % 256 = dNew * 16 := by omega
    simp only [insPatch, o1, if_true, hm, hb0, hc1, hdrB_lt13 nl o1, hdrB_lt13 nl n1, List.cons_append, List.nil_append, wr_0_1]
    rfl
  · by_cases o2 : dOld < 269
    · have eo := hdrB_lt269 nl o1 o2
      by_cases n1 : dNew < 13
      · refine ⟨[UInt8.ofNat (13 * 16 + nl)], by simp [extBytes_of_lt269 o1 o2, extBytes_of_lt13 n1], ?_⟩
        have hm : dNew * 16 % 256 = dNew * 16 := by omega
        simp only [insPatch, o1, if_false, o2, n1, and_self, if_true, hm, hb0, hc1, eo,
          hdrB_lt13 nl n1, List.cons_append, List.nil_append, wr_1_1]
        rfl
      · have n2 : dNew < 269 := by omega
        refine ⟨[], by simp [extBytes_of_lt269 o1 o2, extBytes_of_lt269 n1 n2], ?_⟩
        simp only [insPatch, o1, if_false, o2, n1, n2, and_self, and_false, if_true, eo,
          hdrB_lt269 nl n1 n2, List.cons_append, List.nil_append, wr_1_1]
        rfl
    · have eo := hdrB_ge269 nl o2
      by_cases n1 : dNew < 13
      · refine ⟨[UInt8.ofNat (14 * 16 + nl), UInt8.ofNat ((dOld - 269) / 256)],
          by simp [extBytes_of_ge269 o2, extBytes_of_lt13 n1], ?_⟩
        have hm : dNew * 16 % 256 = dNew * 16 := by omega
        simp only [insPatch, o1, if_false, o2, false_and, n1, if_true, hm, hb0, hc1, eo,
          hdrB_lt13 nl n1, List.cons_append, List.nil_append, wr_2_1]
        rfl
      · by_cases n2 : dNew < 269
        · refine ⟨[UInt8.ofNat (14 * 16 + nl)], by simp [extBytes_of_ge269 o2, extBytes_of_lt269 n1 n2], ?_⟩
          simp only [insPatch, o1, if_false, o2, false_and, n1, n2, if_true, hb0, hc2, eo,
            hdrB_lt269 nl n1 n2, List.cons_append, List.nil_append, wr_1_2]
          rfl
        · refine ⟨[], by simp [extBytes_of_ge269 o2, extBytes_of_ge269 n2], ?_⟩
          simp only [insPatch, o1, if_false, o2, false_and, n1, n2, eo,
            hdrB_ge269 nl n2, List.cons_append, List.nil_append, wr_1_2]
          rfl

theorem len_two (J : Bytes) (h : J.length = 2) : ∃ j k, J = [j, k] := by
  rcases J with _ | ⟨j, _ | ⟨k, _ | ⟨l, r⟩⟩⟩
  · simp at h
  · simp at h
  · exact ⟨j, k, rfl⟩
  · simp at h

/-- the six next-header rewrite cases of `coap_remove_option` (+ the dead shuffle-up branch) -/
def remPatch (pdu : Pdu) (o n dn optDelta b0 : Nat) : R (Option (Bytes × Nat × Nat)) :=
  (if optDelta < 13 then do
    let b ← wr pdu.buf n [UInt8.ofNat (b0 % 16 + (optDelta * 16) % 256)]
    R.ok (some (b, n, 0))
  else if optDelta < 269 ∧ dn < 13 then do
    let b ← wr pdu.buf (n - 1) [UInt8.ofNat (b0 % 16 + 13 * 16), UInt8.ofNat (optDelta - 13)]
    R.ok (some (b, n - 1, 0))
  else if optDelta < 269 then do
    let b ← wr pdu.buf (n + 1) [UInt8.ofNat (optDelta - 13)]
    R.ok (some (b, n, 0))
  else if dn < 13 then
    if n - o < 2 then
      if ¬ checkResize pdu (pdu.buf.length + 1) then R.ok none else do
      let up := pdu.buf.take n ++ (UInt8.ofNat b0 :: pdu.buf.drop n)
      let b ← wr up (n + 1 - 2) [UInt8.ofNat (b0 % 16 + 14 * 16), UInt8.ofNat ((optDelta - 269) / 256),
                                 UInt8.ofNat ((optDelta - 269) % 256)]
      R.ok (some (b, n + 1 - 2, 1))
    else do
      let b ← wr pdu.buf (n - 2) [UInt8.ofNat (b0 % 16 + 14 * 16), UInt8.ofNat ((optDelta - 269) / 256),
                                  UInt8.ofNat ((optDelta - 269) % 256)]
      R.ok (some (b, n - 2, 0))
  else if dn < 269 then do
    let b ← wr pdu.buf (n - 1) [UInt8.ofNat (b0 % 16 + 14 * 16), UInt8.ofNat ((optDelta - 269) / 256),
                                UInt8.ofNat ((optDelta - 269) % 256)]
    R.ok (some (b, n - 1, 0))
  else do
    let b ← wr pdu.buf (n + 1) [UInt8.ofNat ((optDelta - 269) / 256), UInt8.ofNat ((optDelta - 269) % 256)]
    R.ok (some (b, n, 0)) : R (Option (Bytes × Nat × Nat)))

theorem removeOption_eq (pdu : Pdu) (number : Nat) :
    removeOption pdu number =
      match findEq number (items pdu) with
      | none => R.ok (0, pdu)
      | some (it, next) =>
        match next with
        | none =>
          R.ok (1, { pdu with buf := pdu.buf.take it.ofs ++ pdu.buf.drop (it.ofs + optEncodeSize it.p.delta it.p.length),
                              maxOpt := (pdu.maxOpt + 65536 - it.p.delta) % 65536,
                              data := pdu.data.map (· - (it.ofs + optEncodeSize it.p.delta it.p.length - it.ofs)) })
        | some nx =>
          rd pdu.buf nx.ofs >>= fun b0 =>
          remPatch pdu it.ofs nx.ofs nx.p.delta (it.p.delta + nx.p.delta) b0 >>= fun patched =>
          match patched with
          | none => R.ok (0, pdu)
          | some (buf1, n1, grown) =>
            if n1 < it.ofs then R.oob else
            R.ok (1, { pdu with buf := buf1.take it.ofs ++ buf1.drop n1,
                                data := pdu.data.map (· + grown - (n1 - it.ofs)) }) := by
  rfl

theorem remPatch_spec (pdu : Pdu) (P J T : Bytes) (o dn dNew nl b0 : Nat)
    (hbuf : pdu.buf = P ++ (J ++ (hdrB dn nl ++ T))) (hb0 : b0 % 16 = nl)
    (hJ : J.length = (Spec.extBytes dNew).length - (Spec.extBytes dn).length) (hle : dn ≤ dNew) (ho : o ≤ P.length) :
    remPatch pdu o (P.length + J.length) dn dNew b0 = R.ok (some (P ++ (hdrB dNew nl ++ T), P.length, 0)) := by
  have hc1 : nl + dNew * 16 = dNew * 16 + nl := Nat.add_comm _ _
  have hc2 : nl + 13 * 16 = 13 * 16 + nl := Nat.add_comm _ _
  have hc3 : nl + 14 * 16 = 14 * 16 + nl := Nat.add_comm _ _
  by_cases n1 : dNew < 13
  · have o1 : dn < 13 := by omega
    have hm : dNew * 16 % 256 = dNew * 16 := by omega
    have : J = [] := List.eq_nil_of_length_eq_zero (by rw [hJ]; simp [extBytes_of_lt13 o1, extBytes_of_lt13 n1])
    subst this
    simp only [remPatch, hbuf, n1, if_true, hm, hb0, hc1, hdrB_lt13 nl o1, hdrB_lt13 nl n1, List.cons_append, List.nil_append,
      List.length_nil, Nat.add_zero, wr_0_1]
    rfl
  · by_cases n2 : dNew < 269
    · by_cases o1 : dn < 13
      · obtain ⟨j, rfl⟩ : ∃ j, J = [j] :=
          List.length_eq_one_iff.mp (by rw [hJ]; simp [extBytes_of_lt13 o1, extBytes_of_lt269 n1 n2])
        simp only [remPatch, hbuf, n1, n2, o1, and_self, if_false, if_true, hb0, hc2, hdrB_lt13 nl o1, hdrB_lt269 nl n1 n2,
          List.cons_append, List.nil_append, List.length_cons, List.length_nil, Nat.zero_add, Nat.add_sub_cancel, wr_0_2]
        rfl
      · have o2 : dn < 269 := by omega
        have : J = [] := List.eq_nil_of_length_eq_zero (by rw [hJ]; simp [extBytes_of_lt269 o1 o2, extBytes_of_lt269 n1 n2])
        subst this
        simp only [remPatch, hbuf, n1, n2, o1, and_false, if_false, if_true, hdrB_lt269 nl o1 o2, hdrB_lt269 nl n1 n2,
          List.cons_append, List.nil_append, List.length_nil, Nat.add_zero, wr_1_1]
        rfl
    · by_cases o1 : dn < 13
      · obtain ⟨j, k, rfl⟩ : ∃ j k, J = [j, k] :=
          len_two J (by rw [hJ]; simp [extBytes_of_lt13 o1, extBytes_of_ge269 n2])
        have hno : ¬ (P.length + 2 - o < 2) := by omega
        simp only [remPatch, hbuf, n1, n2, o1, false_and, if_false, if_true, hb0, hc3, hdrB_lt13 nl o1, hdrB_ge269 nl n2,
          List.cons_append, List.nil_append, List.length_cons, List.length_nil, Nat.zero_add, hno, Nat.add_sub_cancel, wr_0_3]
        rfl
      · by_cases o2 : dn < 269
        · obtain ⟨j, rfl⟩ : ∃ j, J = [j] :=
            List.length_eq_one_iff.mp (by rw [hJ]; simp [extBytes_of_lt269 o1 o2, extBytes_of_ge269 n2])
          simp only [remPatch, hbuf, n1, n2, o1, o2, false_and, if_false, if_true, hb0, hc3, hdrB_lt269 nl o1 o2, hdrB_ge269 nl n2,
            List.cons_append, List.nil_append, List.length_cons, List.length_nil, Nat.zero_add, Nat.add_sub_cancel, wr_0_3]
          rfl
        · have : J = [] := List.eq_nil_of_length_eq_zero (by rw [hJ]; simp [extBytes_of_ge269 o2, extBytes_of_ge269 n2])
          subst this
          simp only [remPatch, hbuf, n1, n2, o1, o2, false_and, if_false, hdrB_ge269 nl o2, hdrB_ge269 nl n2,
            List.cons_append, List.nil_append, List.length_nil, Nat.add_zero, wr_1_2]
          rfl
end Coap
