import CoapVerif.Model.Sessions
/-
Helper lemmas for C12 (namespace Coap.Sessions): the ledger monitor, then the invariants of the Sessions model.
-/
namespace Coap.Sessions

/-! ## the ledger monitor against its declarative specification -/

def allocs (i : Nat) (tr : List AllocEvent) : Nat := tr.count (.alloc i)
def frees (i : Nat) (tr : List AllocEvent) : Nat := tr.count (.free i)

/-- every `free i` in the trace comes after an `alloc i` -/
def NoFreeOfUnallocated (tr : List AllocEvent) : Prop :=
  ∀ p i q, tr = p ++ .free i :: q → 0 < allocs i p
/-- a `free i` of something that was allocated finds it still allocated: not every earlier allocation of `i`
    has already been freed -/
def NoDoubleFree (tr : List AllocEvent) : Prop :=
  ∀ p i q, tr = p ++ .free i :: q → 0 < allocs i p → frees i p < allocs i p
/-- at the end every allocation has been freed -/
def NothingLiveAtEnd (tr : List AllocEvent) : Prop := ∀ i, allocs i tr ≤ frees i tr

/-- all frees are good when starting from the live multiset `l` -/
def GoodFrom (l : List Nat) (tr : List AllocEvent) : Prop :=
  ∀ p i q, tr = p ++ .free i :: q → frees i p < l.count i + allocs i p

@[simp] theorem allocs_nil (i : Nat) : allocs i [] = 0 := rfl
@[simp] theorem frees_nil (i : Nat) : frees i [] = 0 := rfl
@[simp] theorem allocs_cons_alloc (i j : Nat) (t : List AllocEvent) :
    allocs i (.alloc j :: t) = allocs i t + (if j = i then 1 else 0) := by
  simp [allocs, List.count_cons]
@[simp] theorem allocs_cons_free (i j : Nat) (t : List AllocEvent) : allocs i (.free j :: t) = allocs i t := by
  simp [allocs, List.count_cons]
@[simp] theorem frees_cons_free (i j : Nat) (t : List AllocEvent) :
    frees i (.free j :: t) = frees i t + (if j = i then 1 else 0) := by
  simp [frees, List.count_cons]
@[simp] theorem frees_cons_alloc (i j : Nat) (t : List AllocEvent) : frees i (.alloc j :: t) = frees i t := by
  simp [frees, List.count_cons]
theorem allocs_append (i : Nat) (a b : List AllocEvent) : allocs i (a ++ b) = allocs i a + allocs i b := by
  simp [allocs, List.count_append]
theorem frees_append (i : Nat) (a b : List AllocEvent) : frees i (a ++ b) = frees i a + frees i b := by
  simp [frees, List.count_append]

theorem count_erase_nat (l : List Nat) (i j : Nat) : (l.erase j).count i = l.count i - (if j = i then 1 else 0) := by
  rw [List.count_erase]; simp

theorem goodFrom_alloc (l : List Nat) (j : Nat) (t : List AllocEvent) :
    GoodFrom l (.alloc j :: t) ↔ GoodFrom (j :: l) t := by
  constructor
  · intro h p i q hs
    have := h (.alloc j :: p) i q (by rw [hs]; rfl)
    simp [List.count_cons] at this ⊢
    omega
  · intro h p i q hs
    cases p with
    | nil => simp at hs
    | cons x p' =>
      simp only [List.cons_append, List.cons.injEq] at hs
      obtain ⟨hx, ht⟩ := hs
      subst hx
      have := h p' i q ht
      simp [List.count_cons] at this ⊢
      omega

theorem goodFrom_free_mem (l : List Nat) (j : Nat) (t : List AllocEvent) (hj : j ∈ l) :
    GoodFrom l (.free j :: t) ↔ GoodFrom (l.erase j) t := by
  have hc : 0 < l.count j := List.count_pos_iff.mpr hj
  constructor
  · intro h p i q hs
    have := h (.free j :: p) i q (by rw [hs]; rfl)
    rw [count_erase_nat]
    simp at this
    by_cases hji : j = i
    · subst hji; simp at this ⊢; omega
    · simp [hji] at this ⊢; omega
  · intro h p i q hs
    cases p with
    | nil =>
      simp only [List.nil_append, List.cons.injEq, AllocEvent.free.injEq] at hs
      obtain ⟨hx, _⟩ := hs
      subst hx
      simp; exact hj
    | cons x p' =>
      simp only [List.cons_append, List.cons.injEq] at hs
      obtain ⟨hx, ht⟩ := hs
      subst hx
      have := h p' i q ht
      rw [count_erase_nat] at this
      by_cases hji : j = i
      · subst hji; simp at this ⊢; omega
      · simp [hji] at this ⊢; omega

theorem goodFrom_free_not_mem (l : List Nat) (j : Nat) (t : List AllocEvent) (hj : j ∉ l) :
    ¬ GoodFrom l (.free j :: t) := by
  intro h
  have := h [] j t rfl
  have hc : l.count j = 0 := List.count_eq_zero.mpr hj
  simp [hc] at this

/-- the run succeeds iff every free hits something live -/
theorem runLedger_isSome_iff (tr : List AllocEvent) : ∀ l, (∃ l', runLedger tr l = some l') ↔ GoodFrom l tr := by
  induction tr with
  | nil =>
    intro l
    constructor
    · intro _ p i q hs; simp at hs
    · intro _; exact ⟨l, rfl⟩
  | cons e t ih =>
    intro l
    cases e with
    | alloc j => rw [goodFrom_alloc]; simpa [runLedger] using ih (j :: l)
    | free j =>
      by_cases hj : j ∈ l
      · rw [goodFrom_free_mem l j t hj]; simpa [runLedger, hj] using ih (l.erase j)
      · constructor
        · intro ⟨l', h⟩; simp [runLedger, hj] at h
        · intro h; exact absurd h (goodFrom_free_not_mem l j t hj)

/-- what is live after a successful run -/
theorem runLedger_count (tr : List AllocEvent) :
    ∀ l l', runLedger tr l = some l' → ∀ i, l'.count i + frees i tr = l.count i + allocs i tr := by
  induction tr with
  | nil => intro l l' h i; simp [runLedger] at h; simp [h]
  | cons e t ih =>
    intro l l' h i
    cases e with
    | alloc j =>
      have := ih (j :: l) l' (by simpa [runLedger] using h) i
      simp [List.count_cons] at this ⊢
      omega
    | free j =>
      by_cases hj : j ∈ l
      · have := ih (l.erase j) l' (by simpa [runLedger, hj] using h) i
        rw [count_erase_nat] at this
        have hc : 0 < l.count j := List.count_pos_iff.mpr hj
        by_cases hji : j = i
        · subst hji; simp at this ⊢; omega
        · simp [hji] at this ⊢; omega
      · simp [runLedger, hj] at h

theorem runLedger_append (a b : List AllocEvent) : ∀ l, runLedger (a ++ b) l = (runLedger a l).bind (runLedger b) := by
  induction a with
  | nil => intro l; rfl
  | cons e t ih =>
    intro l
    cases e with
    | alloc j => simp [runLedger, ih]
    | free j => by_cases hj : j ∈ l <;> simp [runLedger, hj, ih]

theorem goodFrom_nil_iff (tr : List AllocEvent) : GoodFrom [] tr ↔ NoFreeOfUnallocated tr ∧ NoDoubleFree tr := by
  constructor
  · intro h
    constructor
    · intro p i q hs; have := h p i q hs; simp at this; omega
    · intro p i q hs _; have := h p i q hs; simpa using this
  · intro ⟨h1, h2⟩ p i q hs
    have a := h1 p i q hs
    have b := h2 p i q hs a
    simpa using b

theorem ledgerOk_eq_true_iff (tr : List AllocEvent) : ledgerOk tr = true ↔ runLedger tr [] = some [] := by
  unfold ledgerOk
  cases h : runLedger tr [] with
  | none => simp
  | some l => cases l <;> simp

theorem ledgerOk_iff_spec (tr : List AllocEvent) :
    ledgerOk tr = true ↔ (NoDoubleFree tr ∧ NoFreeOfUnallocated tr ∧ NothingLiveAtEnd tr) := by
  rw [ledgerOk_eq_true_iff]
  constructor
  · intro h
    have hg : GoodFrom [] tr := (runLedger_isSome_iff tr []).mp ⟨[], h⟩
    have hc := runLedger_count tr [] [] h
    obtain ⟨a, b⟩ := (goodFrom_nil_iff tr).mp hg
    refine ⟨b, a, ?_⟩
    intro i; have := hc i; simp at this; omega
  · intro ⟨b, a, c⟩
    have hg : GoodFrom [] tr := (goodFrom_nil_iff tr).mpr ⟨a, b⟩
    obtain ⟨l', hl⟩ := (runLedger_isSome_iff tr []).mpr hg
    have hc := runLedger_count tr [] l' hl
    have : l' = [] := by
      apply List.eq_nil_iff_forall_not_mem.mpr
      intro i hi
      have h1 : 0 < l'.count i := List.count_pos_iff.mpr hi
      have h2 := hc i
      have h3 := c i
      simp at h2
      omega
    rw [hl, this]

end Coap.Sessions

/-! ## reference counts against holders -/
namespace Coap.Sessions

structure HInv (st : St) : Prop where
  ref : ∀ s ∈ st.sessions, s.ref = st.holds s.sid
  live : ∀ h ∈ st.holders, ∃ s ∈ st.sessions, s.sid = h.sid
  fresh : ∀ s ∈ st.sessions, s.sid < st.next

theorem foldl_inv {α β : Type} (P : α → Prop) (f : α → β → α) (h : ∀ a b, P a → P (f a b)) :
    ∀ (l : List β) (a : α), P a → P (l.foldl f a) := by
  intro l
  induction l with
  | nil => intro a ha; exact ha
  | cons x t ih => intro a ha; exact ih _ (h a x ha)

@[simp] theorem updSess_holders (st : St) (sid : Nat) (f : Sess → Sess) : (st.updSess sid f).holders = st.holders := rfl
@[simp] theorem updSess_next (st : St) (sid : Nat) (f : Sess → Sess) : (st.updSess sid f).next = st.next := rfl
@[simp] theorem updSess_holds (st : St) (sid : Nat) (f : Sess → Sess) (x : Nat) : (st.updSess sid f).holds x = st.holds x := rfl

theorem mem_updSess {st : St} {sid : Nat} {f : Sess → Sess} {t : Sess} :
    t ∈ (st.updSess sid f).sessions ↔ ∃ s ∈ st.sessions, (if s.sid = sid then f s else s) = t := by
  simp [St.updSess, List.mem_map]

theorem HInv.updSess_benign {st : St} (h : HInv st) (sid : Nat) (f : Sess → Sess)
    (hf : ∀ s, (f s).sid = s.sid ∧ (f s).ref = s.ref) : HInv (st.updSess sid f) := by
  constructor
  · intro t ht
    obtain ⟨s, hs, rfl⟩ := mem_updSess.mp ht
    by_cases c : s.sid = sid
    · simp only [c, if_true, updSess_holds]; rw [(hf s).2, (hf s).1]; exact h.ref s hs
    · simp only [c, if_false, updSess_holds]; exact h.ref s hs
  · intro x hx
    obtain ⟨s, hs, e⟩ := h.live x hx
    refine ⟨if s.sid = sid then f s else s, mem_updSess.mpr ⟨s, hs, rfl⟩, ?_⟩
    by_cases c : s.sid = sid
    · simp only [c, if_true]; rw [(hf s).1]; exact e
    · simp only [c, if_false]; exact e
  · intro t ht
    obtain ⟨s, hs, rfl⟩ := mem_updSess.mp ht
    by_cases c : s.sid = sid
    · simp only [c, if_true, updSess_next]; rw [(hf s).1]; exact h.fresh s hs
    · simp only [c, if_false, updSess_next]; exact h.fresh s hs

theorem holds_append (st : St) (x : Holder) (sid : Nat) :
    (st.holders ++ [x]).countP (fun h => h.sid == sid) = st.holds sid + (if x.sid = sid then 1 else 0) := by
  simp [St.holds, List.countP_append, List.countP_cons]

/-- adding a holder for a live session keeps the books -/
theorem HInv.addHolder {st : St} (h : HInv st) (sid : Nat) (k : HKind) (hl : ∃ s ∈ st.sessions, s.sid = sid) :
    HInv (st.addHolder sid k) := by
  have key : ∀ (hid nx : Nat) (led : List AllocEvent), st.next ≤ nx →
      HInv { (st.updSess sid Sess.reference) with holders := st.holders ++ [⟨hid, sid, k⟩], ledger := led, next := nx } := by
    intro hid nx led hnx
    constructor
    · intro t ht
      obtain ⟨s, hs, rfl⟩ := mem_updSess.mp ht
      show _ = List.countP _ (st.holders ++ [⟨hid, sid, k⟩])
      by_cases c : s.sid = sid
      · simp only [c, if_true, Sess.reference]
        rw [holds_append]; simp only [if_true]
        rw [← c]; exact congrArg (· + 1) (h.ref s hs)
      · simp only [c, if_false]
        rw [holds_append]
        have : ¬ sid = s.sid := fun e => c e.symm
        simp only [this, if_false, Nat.add_zero]; exact h.ref s hs
    · intro x hx
      have hx' : x ∈ st.holders ++ [⟨hid, sid, k⟩] := hx
      rcases List.mem_append.mp hx' with hx1 | hx1
      · obtain ⟨s, hs, e⟩ := h.live x hx1
        refine ⟨if s.sid = sid then Sess.reference s else s, mem_updSess.mpr ⟨s, hs, rfl⟩, ?_⟩
        by_cases c : s.sid = sid <;> simp [c, Sess.reference] <;> first | exact e | (rw [← c]; exact e)
      · simp only [List.mem_singleton] at hx1; subst hx1
        obtain ⟨s, hs, e⟩ := hl
        refine ⟨if s.sid = sid then Sess.reference s else s, mem_updSess.mpr ⟨s, hs, rfl⟩, ?_⟩
        simp [e, Sess.reference]
    · intro t ht
      obtain ⟨s, hs, rfl⟩ := mem_updSess.mp ht
      have := h.fresh s hs
      show _ < nx
      by_cases c : s.sid = sid <;> simp [c, Sess.reference] <;> omega
  unfold St.addHolder
  split
  · exact key _ _ _ (Nat.le_succ _)
  · have := key 0 st.next st.ledger (Nat.le_refl _)
    exact this


theorem countP_erase_mem (l : List Holder) (x : Holder) (p : Holder → Bool) (hx : x ∈ l) :
    l.countP p = (l.erase x).countP p + (if p x then 1 else 0) := by
  rw [(List.perm_cons_erase hx).countP_eq p, List.countP_cons]

theorem HInv.dropHolder {st : St} (h : HInv st) (x : Holder) : HInv (st.dropHolder x) := by
  unfold St.dropHolder
  split
  · rename_i hx
    constructor
    · intro t ht
      obtain ⟨s, hs, rfl⟩ := mem_updSess.mp ht
      show _ = List.countP _ (st.holders.erase x)
      have e := countP_erase_mem st.holders x (fun y => y.sid == (if s.sid = x.sid then Sess.release s else s).sid) hx
      have r := h.ref s hs
      unfold St.holds at r
      by_cases c : s.sid = x.sid
      · simp only [c, if_true, Sess.release] at e ⊢
        simp only [beq_self_eq_true, if_true] at e
        rw [c] at r; omega
      · simp only [c, if_false] at e ⊢
        have : ¬ x.sid = s.sid := fun e => c e.symm
        simp only [beq_iff_eq, this, if_false, Nat.add_zero] at e
        omega
    · intro y hy
      obtain ⟨s, hs, e⟩ := h.live y (List.mem_of_mem_erase hy)
      refine ⟨if s.sid = x.sid then Sess.release s else s, mem_updSess.mpr ⟨s, hs, rfl⟩, ?_⟩
      by_cases c : s.sid = x.sid <;> simp [c, Sess.release] <;> first | exact e | (rw [← c]; exact e)
    · intro t ht
      obtain ⟨s, hs, rfl⟩ := mem_updSess.mp ht
      have := h.fresh s hs
      show _ < st.next
      by_cases c : s.sid = x.sid <;> simp [c, Sess.release] <;> omega
  · exact h

theorem HInv.dropHolders {st : St} (h : HInv st) (xs : List Holder) : HInv (st.dropHolders xs) :=
  foldl_inv HInv St.dropHolder (fun _ x ha => ha.dropHolder x) xs st h

theorem getSess_some {st : St} {sid : Nat} {s : Sess} (h : st.getSess sid = some s) : s ∈ st.sessions ∧ s.sid = sid := by
  unfold St.getSess at h
  exact ⟨List.mem_of_find?_eq_some h, by simpa using List.find?_some h⟩

theorem lookup_some {st : St} {p : Peer} {s : Sess} (h : st.lookup p = some s) : s ∈ st.sessions ∧ s.peer = p := by
  unfold St.lookup at h
  exact ⟨List.mem_of_find?_eq_some h, by simpa using List.find?_some h⟩

theorem holds_zero_iff (st : St) (sid : Nat) : st.holds sid = 0 ↔ ∀ h ∈ st.holders, h.sid ≠ sid := by
  simp [St.holds, List.countP_eq_zero]

/-- freeing only happens at reference count 0, hence (by the invariant) when nothing points at the session -/
theorem HInv.reclaim {st : St} (h : HInv st) (sid : Nat) : HInv (st.reclaim sid) := by
  unfold St.reclaim
  split
  · exact h
  · rename_i s hs
    obtain ⟨hm, hsid⟩ := getSess_some hs
    split
    · exact h
    · rename_i hr
      have hr0 : s.ref = 0 := by simpa using hr
      have hz : st.holds sid = 0 := by rw [← hsid, ← h.ref s hm]; exact hr0
      constructor
      · intro t ht
        have ht' : t ∈ st.sessions.filter (fun t => t.sid ≠ sid) := ht
        exact h.ref t (List.mem_filter.mp ht').1
      · intro y hy
        obtain ⟨t, ht, e⟩ := h.live y hy
        refine ⟨t, ?_, e⟩
        show t ∈ st.sessions.filter (fun t => t.sid ≠ sid)
        apply List.mem_filter.mpr
        refine ⟨ht, ?_⟩
        have := (holds_zero_iff st sid).mp hz y hy
        simp [e]; exact this
      · intro t ht
        have ht' : t ∈ st.sessions.filter (fun t => t.sid ≠ sid) := ht
        exact h.fresh t (List.mem_filter.mp ht').1

theorem HInv.clientFree {st : St} (h : HInv st) (sid : Nat) : HInv (st.clientFree sid) := by
  unfold St.clientFree
  split
  · exact h
  · rename_i s hs
    obtain ⟨hm, hsid⟩ := getSess_some hs
    split
    · exact h
    · rename_i hr
      have hr0 : s.ref = 0 := by
        have : s.ref = 0 ∧ s.client = true := by simpa using hr
        exact this.1
      have hz : st.holds sid = 0 := by rw [← hsid, ← h.ref s hm]; exact hr0
      constructor
      · intro t ht
        have ht' : t ∈ st.sessions.filter (fun t => t.sid ≠ sid) := ht
        exact h.ref t (List.mem_filter.mp ht').1
      · intro y hy
        obtain ⟨t, ht, e⟩ := h.live y hy
        refine ⟨t, ?_, e⟩
        show t ∈ st.sessions.filter (fun t => t.sid ≠ sid)
        apply List.mem_filter.mpr
        refine ⟨ht, ?_⟩
        have := (holds_zero_iff st sid).mp hz y hy
        simp [e]; exact this
      · intro t ht
        have ht' : t ∈ st.sessions.filter (fun t => t.sid ≠ sid) := ht
        exact h.fresh t (List.mem_filter.mp ht').1

theorem HInv.holder_sid_lt {st : St} (h : HInv st) {x : Holder} (hx : x ∈ st.holders) : x.sid < st.next := by
  obtain ⟨s, hs, e⟩ := h.live x hx
  rw [← e]; exact h.fresh s hs

theorem HInv.newSession {st : St} (h : HInv st) (p : Peer) : HInv (st.newSession p) := by
  unfold St.newSession
  constructor
  · intro t ht
    have ht' : t ∈ st.sessions ++ [⟨st.next, st.nsess, p, 0, st.now, 0, 0, 0, false, 0, false⟩] := ht
    show _ = List.countP _ st.holders
    rcases List.mem_append.mp ht' with h1 | h1
    · exact h.ref t h1
    · simp only [List.mem_singleton] at h1; subst h1
      symm
      apply List.countP_eq_zero.mpr
      intro y hy
      have := h.holder_sid_lt hy
      simp; omega
  · intro y hy
    obtain ⟨t, ht, e⟩ := h.live y hy
    exact ⟨t, List.mem_append.mpr (Or.inl ht), e⟩
  · intro t ht
    have ht' : t ∈ st.sessions ++ [⟨st.next, st.nsess, p, 0, st.now, 0, 0, 0, false, 0, false⟩] := ht
    show _ < st.next + 1
    rcases List.mem_append.mp ht' with h1 | h1
    · have := h.fresh t h1; omega
    · simp only [List.mem_singleton] at h1; subst h1; simp


theorem updSess_updSess (st : St) (sid : Nat) (f g : Sess → Sess) (hf : ∀ s, (f s).sid = s.sid) :
    (st.updSess sid f).updSess sid g = st.updSess sid (fun s => g (f s)) := by
  simp only [St.updSess, List.map_map]
  congr 1
  apply List.map_congr_left
  intro s _
  by_cases c : s.sid = sid <;> simp [c, hf]

theorem HInv.refRelease {st : St} (h : HInv st) (sid : Nat) :
    HInv ((st.updSess sid Sess.reference).updSess sid Sess.release) := by
  rw [updSess_updSess st sid Sess.reference Sess.release (fun _ => rfl)]
  exact h.updSess_benign sid _ (fun s => ⟨rfl, by simp [Sess.reference, Sess.release]⟩)

theorem HInv.mapHolders {st : St} (h : HInv st) (g : Holder → Holder) (hg : ∀ x, (g x).sid = x.sid) :
    HInv { st with holders := st.holders.map g } := by
  constructor
  · intro t ht
    show _ = List.countP _ (st.holders.map g)
    rw [List.countP_map]
    have : ((fun y : Holder => y.sid == t.sid) ∘ g) = (fun y : Holder => y.sid == t.sid) := by
      funext y; simp [hg]
    rw [this]; exact h.ref t ht
  · intro y hy
    have hy' : y ∈ st.holders.map g := hy
    obtain ⟨x, hx, rfl⟩ := List.mem_map.mp hy'
    obtain ⟨t, ht, e⟩ := h.live x hx
    exact ⟨t, ht, by rw [hg]; exact e⟩
  · exact h.fresh

theorem HInv.congr {st st' : St} (h : HInv st) (h1 : st'.sessions = st.sessions) (h2 : st'.holders = st.holders)
    (h3 : st'.next = st.next) : HInv st' := by
  constructor
  · intro t ht; rw [h1] at ht; unfold St.holds; rw [h2]; exact h.ref t ht
  · intro y hy; rw [h2] at hy; rw [h1]; exact h.live y hy
  · intro t ht; rw [h1] at ht; rw [h3]; exact h.fresh t ht

theorem live_updSess {st : St} {x : Nat} (sid : Nat) (f : Sess → Sess) (hf : ∀ s, (f s).sid = s.sid)
    (hl : ∃ s ∈ st.sessions, s.sid = x) : ∃ s ∈ (st.updSess sid f).sessions, s.sid = x := by
  obtain ⟨s, hs, e⟩ := hl
  refine ⟨if s.sid = sid then f s else s, mem_updSess.mpr ⟨s, hs, rfl⟩, ?_⟩
  by_cases c : s.sid = sid
  · simp only [c, if_true]; rw [hf]; exact e
  · simp only [c, if_false]; exact e

/-- the temporary reference of the RST branch (`reference … delete observer … release`) leaves exactly the effect of
    deleting the observer: the bracketing pair cancels (the reference comes first, so no truncation at 0) -/
theorem rstCancel_eq (st : St) (sid : Nat) (x : Holder) (hx : x ∈ st.holders) :
    ((st.updSess sid Sess.reference).dropHolder x).updSess sid Sess.release = st.dropHolder x := by
  unfold St.dropHolder
  simp only [updSess_holders, hx, if_true]
  simp only [St.updSess, List.map_map]
  congr 1
  apply List.map_congr_left
  intro s _
  by_cases c : s.sid = sid
  · subst c
    by_cases d : s.sid = x.sid
    · simp [← d, Sess.reference, Sess.release]
    · simp [d, Sess.reference, Sess.release]
  · by_cases d : s.sid = x.sid
    · simp [c, ← d, Sess.release]
    · simp [c, d]

theorem findHolder_some {st : St} {sid : Nat} {pred : HKind → Bool} {x : Holder} (h : st.findHolder sid pred = some x) :
    x ∈ st.holders ∧ x.sid = sid ∧ pred x.kind = true := by
  unfold St.findHolder at h
  refine ⟨List.mem_of_find?_eq_some h, ?_⟩
  simpa using List.find?_some h

theorem setNote_isAlloc (k : HKind) (n : Nat) : (k.setNote n).isAlloc = k.isAlloc := by cases k <;> rfl

theorem live_dropHolder {st : St} {x : Nat} (y : Holder) (hl : ∃ s ∈ st.sessions, s.sid = x) :
    ∃ s ∈ (st.dropHolder y).sessions, s.sid = x := by
  unfold St.dropHolder
  split
  · exact live_updSess y.sid _ (fun _ => rfl) hl
  · exact hl

theorem HInv.init (eps : List (Nat × Nat)) (nres : Nat) : HInv (St.init eps nres) := by
  constructor <;> intro x hx <;> simp [St.init] at hx

end Coap.Sessions
