import CoapVerif.Lemmas.ObserveRun
/- Global invariants of the Observe model over ALL event sequences, each proved once against the micro transitions of
   Lemmas/ObserveRun.lean and lifted to `step` / `run`. -/
namespace Coap.Observe
open Coap.Generated

/-! ### lifting a per-resource invariant `Q y (what has been written about y)` -/
theorem Trans.preserves {A : Nat → Nat → Nat → Prop} {Q : Res → List Out → Prop}
    (hQ : ∀ y o y' acc, Q y acc → Micro A y o y' → Q y' (acc ++ o)) {y y' : Res} {o : List Out} (h : Trans A y o y') :
    ∀ acc, Q y acc → Q y' (acc ++ o) := by
  induction h with
  | refl => intro acc hq; simpa using hq
  | step hm _ ih =>
    intro acc hq
    rw [← List.append_assoc]
    exact ih _ (hQ _ _ _ _ hq hm)

theorem All2.exists_right {R : Res → Res → Prop} {a b : List Res} (h : All2 R a b) : ∀ x ∈ a, ∃ y ∈ b, R x y := by
  induction h with
  | nil => intro x hx; cases hx
  | cons h _ ih =>
    intro x hx
    cases hx with
    | head => exact ⟨_, List.mem_cons_self .., h⟩
    | tail _ hx' =>
      obtain ⟨y, hy, hr⟩ := ih x hx'
      exact ⟨y, List.mem_cons_of_mem _ hy, hr⟩

/-- `Q` holds of every resource together with the datagrams written about it so far -/
def ResInv (Q : Res → List Out → Prop) (st : State) (acc : List Out) : Prop :=
  ∀ y ∈ st.res, Q y (acc.filter (fromRes y.id))

theorem step_resInv {Q : Res → List Out → Prop} (st : State) (e : Event) (acc : List Out) (hid : IdsNodup st)
    (hQ : ∀ y o y' a, Q y a → Micro (RegEv e) y o y' → Q y' (a ++ o)) (h : ResInv Q st acc) :
    ResInv Q (step st e).1 (acc ++ (step st e).2) := by
  intro y' hy'
  obtain ⟨y, hy, ht⟩ := (step_rel st e hid).exists_right y' hy'
  rw [List.filter_append, ht.fixed.1]
  exact ht.preserves hQ _ (h y hy)

/-- the run-level induction: `hQ` may use a side condition `ok e` every event of the run satisfies -/
theorem run_resInv {Q : Res → List Out → Prop} (ok : Event → Prop)
    (hQ : ∀ e, ok e → ∀ y o y' a, Q y a → Micro (RegEv e) y o y' → Q y' (a ++ o)) :
    ∀ (evs : List Event) (st : State) (acc : List Out), IdsNodup st → (∀ e ∈ evs, ok e) → ResInv Q st acc →
      ResInv Q (run st evs).1 (acc ++ (run st evs).2)
  | [], st, acc, _, _, h => by simpa [run_nil] using h
  | e :: es, st, acc, hid, hok, h => by
    rw [run_cons]
    dsimp only
    rw [← List.append_assoc]
    exact run_resInv ok hQ es _ _ (step_idsNodup st e hid) (fun e' he' => hok e' (List.mem_cons_of_mem _ he'))
      (step_resInv st e acc hid (hQ e (hok e (List.mem_cons_self ..))) h)

/-! ### (1) ordering -/

/-- a 2.05 notification (as opposed to a response, a retransmission, a 4.04 goodbye) -/
def isNotif (o : Out) : Bool := o.tag == .note && o.code == 69

/-- the notifications to (session c, token tok) among `l`, in order -/
def notifsTo (c tok : Nat) (l : List Out) : List Out := (l.filter (toST c tok)).filter isNotif

theorem notifsTo_append (c tok : Nat) (a b : List Out) : notifsTo c tok (a ++ b) = notifsTo c tok a ++ notifsTo c tok b := by
  unfold notifsTo; rw [List.filter_append, List.filter_append]

theorem notifsTo_nil (c tok : Nat) : notifsTo c tok [] = [] := rfl

theorem notifsTo_resp (c tok : Nat) (out : Out) (h : out.tag = .resp) : notifsTo c tok [out] = [] := by
  unfold notifsTo
  rw [List.filter_filter, List.filter_eq_nil_iff]
  intro o ho
  simp at ho; subst ho
  simp [isNotif, h]

theorem mem_addToRes {y : Res} {c tok key m : Nat} {o : Sub} (h : o ∈ (addToRes y c tok key m).subs) :
    o = { sess := c, token := tok, key := key, nonCnt := 0, failCnt := 0, dirty := false, mid := m, lastVer := none } ∨ o ∈ y.subs := by
  unfold addToRes at h
  split at h
  · exact Or.inr h
  · dsimp only at h
    cases h with
    | head => exact Or.inl rfl
    | tail _ h' =>
      right
      split at h'
      · exact List.mem_of_mem_eraseP h'
      · exact h'

theorem ResLeF.mem_sub {y' y : Res} (h : ResLeF y' y) {o' : Sub} (ho : o' ∈ y'.subs) : ∃ o ∈ y.subs, coreF o = coreF o' :=
  h.subs.mem ho

theorem coreF_fields {a b : Sub} (h : coreF a = coreF b) :
    a.sess = b.sess ∧ a.token = b.token ∧ a.key = b.key ∧ a.dirty = b.dirty ∧ a.nonCnt = b.nonCnt ∧ a.lastVer = b.lastVer ∧ a.mid = b.mid := by
  unfold coreF at h
  cases a; cases b
  simp only [Sub.mk.injEq] at h
  simp [h]

theorem matchST_coreF {c tok : Nat} {a b : Sub} (h : coreF a = coreF b) : matchST c tok a = matchST c tok b := by
  have := coreF_fields h
  unfold matchST; rw [this.1, this.2.1]

/-- in deleting mode the loop writes 4.04 goodbyes only -/
theorem Visits.bye_outs {r : Res} {subs subs' : List Sub} {pd : Bool} {outs : List Out}
    (h : Visits true r subs subs' pd outs) : ∀ out ∈ outs, isNotif out = false := by
  induction h with
  | nil => intro out ho; cases ho
  | cons hv _ ih =>
    intro out ho
    rcases List.mem_append.mp ho with ho | ho
    · cases hv with
      | skip => cases ho
      | defer => cases ho
      | bye m n => simp at ho; subst ho; simp [isNotif, noteOut]
      | error _ _ _ hd => cases hd
      | sent _ _ _ hd => cases hd
    · exact ih out ho

theorem notifsTo_nonNotif (c tok : Nat) (acc outs : List Out) (h : ∀ out ∈ outs, isNotif out = false) :
    notifsTo c tok (acc ++ outs) = notifsTo c tok acc := by
  rw [notifsTo_append]
  have : notifsTo c tok outs = [] := by
    unfold notifsTo
    rw [List.filter_eq_nil_iff]
    intro a ha
    rw [h a (List.mem_filter.mp ha).1]; simp
  rw [this, List.append_nil]

/-- ordering invariant for one target (session c, token tok) on one resource y: the notifications written to it carry strictly
    increasing versions, none newer than the resource, and one that carries the resource's CURRENT version leaves neither
    the resource nor the entry dirty (so it will not be repeated: `Visit.skip`). -/
structure OrdInv (c tok : Nat) (y : Res) (acc : List Out) : Prop where
  nodup : NoDup y
  sorted : (notifsTo c tok acc).Pairwise (fun a b => a.ver < b.ver)
  bound : ∀ a ∈ notifsTo c tok acc, a.ver ≤ y.ver ∧
    (a.ver = y.ver → y.dirty = false ∧ ∀ o ∈ y.subs, matchST c tok o = true → o.dirty = false)

theorem OrdInv.congr {c tok : Nat} {y : Res} {acc acc' : List Out} (h : OrdInv c tok y acc)
    (he : notifsTo c tok acc' = notifsTo c tok acc) : OrdInv c tok y acc' :=
  ⟨h.nodup, he ▸ h.sorted, he ▸ h.bound⟩

theorem OrdInv.same_acc {c tok : Nat} {y y' : Res} {acc : List Out} (h : OrdInv c tok y acc) (hn : NoDup y')
    (hv : y.ver ≤ y'.ver)
    (hb : y'.ver = y.ver → y.dirty = false → y'.dirty = false ∧
      ∀ o' ∈ y'.subs, matchST c tok o' = true → o'.dirty = true → ∃ o ∈ y.subs, matchST c tok o = true ∧ o.dirty = true) :
    OrdInv c tok y' acc := by
  refine ⟨hn, h.sorted, ?_⟩
  intro a ha
  obtain ⟨h1, h2⟩ := h.bound a ha
  refine ⟨Nat.le_trans h1 hv, ?_⟩
  intro he
  have hvv : y'.ver = y.ver := by omega
  obtain ⟨h3, h4⟩ := h2 (by omega)
  obtain ⟨h5, h6⟩ := hb hvv h3
  refine ⟨h5, ?_⟩
  intro o' ho' hm
  cases hd : o'.dirty with
  | false => rfl
  | true =>
    obtain ⟨o, ho, hmo, hdo⟩ := h6 o' ho' hm hd
    rw [h4 o ho hmo] at hdo; cases hdo

theorem notifsTo_of_filter (c tok : Nat) (acc outs : List Out) (po : List Out) (h : outs.filter (toST c tok) = po) :
    notifsTo c tok (acc ++ outs) = notifsTo c tok acc ++ po.filter isNotif := by
  rw [notifsTo_append]; unfold notifsTo; rw [h]

theorem OrdInv.micro {A : Nat → Nat → Nat → Prop} (c tok : Nat) (y : Res) (o : List Out) (y' : Res) (acc : List Out)
    (h : OrdInv c tok y acc) (hm : Micro A y o y') : OrdInv c tok y' (acc ++ o) := by
  cases hm with
  | le hle =>
    rw [List.append_nil]
    refine h.same_acc (NoDup.of_idLe hle.le.idLe h.nodup) (by rw [hle.ver]; exact Nat.le_refl _) ?_
    intro _ hd
    refine ⟨by rw [hle.dirty]; exact hd, ?_⟩
    intro o' ho' hmo hdo
    obtain ⟨o1, ho1, hc⟩ := hle.mem_sub ho'
    exact ⟨o1, ho1, by rw [matchST_coreF hc]; exact hmo, by rw [(coreF_fields hc).2.2.2.1]; exact hdo⟩
  | errFlag b =>
    rw [List.append_nil]
    exact h.same_acc h.nodup (Nat.le_refl _) (fun _ hd => ⟨hd, fun o' ho' hmo hdo => ⟨o', ho', hmo, hdo⟩⟩)
  | change =>
    rw [List.append_nil]
    refine h.same_acc h.nodup (Nat.le_succ _) ?_
    intro he; simp at he
  | register c' tok' key m out hA hal herr htag =>
    have hf := addToRes_fields y c' tok' key m
    have h1 : OrdInv c tok y (acc ++ [out]) := h.congr (by rw [notifsTo_append, notifsTo_resp c tok out htag, List.append_nil])
    refine h1.same_acc (addToRes_noDup y c' tok' key m h.nodup) (by rw [hf.2.2.2.2.2.2.1]; exact Nat.le_refl _) ?_
    intro _ hd
    refine ⟨by rw [hf.2.2.2.2.1]; exact hd, ?_⟩
    intro o' ho' hmo hdo
    rcases mem_addToRes ho' with rfl | ho1
    · cases hdo
    · exact ⟨o', ho1, hmo, hdo⟩
  | resp out htag _ =>
    exact h.congr (by rw [notifsTo_append, notifsTo_resp c tok out htag, List.append_nil])
  | notify hal hv =>
    rename_i subs' pd
    have hn' : NoDup { y with subs := subs', pdirty := pd, dirty := false } := List.Pairwise.sublist hv.idLe h.nodup
    rcases hv.target c tok h.nodup with ⟨_, h2, h3⟩ | ⟨o1, ho1, hm1, s, pd1, po, hvis, h4, h5, h6⟩
    · have h1 : OrdInv c tok y (acc ++ o) := h.congr (by rw [notifsTo_of_filter c tok acc o [] h3]; simp)
      refine h1.same_acc hn' (Nat.le_refl _) (fun _ _ => ⟨rfl, ?_⟩)
      intro o' ho' hmo
      rw [h2 o' ho'] at hmo; cases hmo
    · cases hvis with
      | skip hyd hod =>
        have h1 : OrdInv c tok y (acc ++ o) := h.congr (by rw [notifsTo_of_filter c tok acc o [] h6]; simp)
        refine h1.same_acc hn' (Nat.le_refl _) (fun _ _ => ⟨rfl, ?_⟩)
        intro o' ho' hmo hdo
        have := h4 o' ho' hmo
        simp at this; subst this
        exact ⟨o1, ho1, hm1, hdo⟩
      | defer hst =>
        have h1 : OrdInv c tok y (acc ++ o) := h.congr (by rw [notifsTo_of_filter c tok acc o [] h6]; simp)
        refine h1.same_acc hn' (Nat.le_refl _) (fun _ hyd => ⟨rfl, ?_⟩)
        intro o' ho' hmo hdo
        rcases hst with hst | hst
        · rw [hyd] at hst; cases hst
        · exact ⟨o1, ho1, hm1, hst⟩
      | bye m n hst hd => cases hd
      | error m n hst hd he =>
        have h1 : OrdInv c tok y (acc ++ o) := h.congr (by rw [notifsTo_of_filter c tok acc o _ h6]; simp [isNotif, noteOut])
        refine h1.same_acc hn' (Nat.le_refl _) (fun _ _ => ⟨rfl, ?_⟩)
        intro o' ho' hmo hdo
        have := h4 o' ho' hmo
        cases this
      | sent m n hst hd he =>
        have heq : notifsTo c tok (acc ++ o) = notifsTo c tok acc ++ [noteOut o1.sess n o1.token 69 (some y.observe) (wantCon y o1) m y.id y.ver] := by
          rw [notifsTo_of_filter c tok acc o _ h6]; simp [isNotif, noteOut]
        have hlt : ∀ a ∈ notifsTo c tok acc, a.ver < y.ver := by
          intro a ha
          obtain ⟨h1, h2⟩ := h.bound a ha
          rcases Nat.lt_or_ge a.ver y.ver with hl | hg
          · exact hl
          · exfalso
            obtain ⟨h3, h4'⟩ := h2 (by omega)
            rcases hst with hst | hst
            · rw [h3] at hst; cases hst
            · rw [h4' o1 ho1 hm1] at hst; cases hst
        refine ⟨hn', ?_, ?_⟩
        · rw [heq, List.pairwise_append]
          refine ⟨h.sorted, List.pairwise_singleton _ _, ?_⟩
          intro a ha b hb
          simp at hb; subst hb
          exact hlt a ha
        · intro a ha
          rw [heq] at ha
          rcases List.mem_append.mp ha with ha | ha
          · have := hlt a ha
            exact ⟨Nat.le_of_lt this, fun he' => by dsimp only at he'; omega⟩
          · simp at ha; subst ha
            refine ⟨Nat.le_refl _, fun _ => ⟨rfl, ?_⟩⟩
            intro o' ho' hmo
            have := h4 o' ho' hmo
            simp at this; subst this
            rfl
  | bye pd' hal hv =>
    have h1 : OrdInv c tok y (acc ++ o) := h.congr (notifsTo_nonNotif c tok acc o hv.bye_outs)
    refine h1.same_acc ?_ (Nat.le_refl _) (fun _ _ => ⟨rfl, fun o' ho' => by cases ho'⟩)
    unfold NoDup; exact List.Pairwise.nil
  | clean hc =>
    rw [List.append_nil]
    exact h.same_acc h.nodup (Nat.le_refl _) (fun _ _ => ⟨rfl, fun o' ho' hmo hdo => ⟨o', ho', hmo, hdo⟩⟩)
  | delete pd =>
    rw [List.append_nil]
    refine h.same_acc ?_ (Nat.le_refl _) (fun _ _ => ⟨rfl, fun o' ho' => by cases ho'⟩)
    unfold NoDup; exact List.Pairwise.nil
/-! ### the Observe value of a notification is the start value plus the number of effective changes, mod 2^24 -/
theorem Visit.notif_fields {d : Bool} {r : Res} {o : Sub} {s : Option Sub} {pd : Bool} {outs : List Out}
    (h : Visit d r o s pd outs) : ∀ out ∈ outs, isNotif out = true → out.obs = some r.observe ∧ out.ver = r.ver := by
  cases h <;> simp [noteOut, isNotif]

theorem Visits.notif_fields {d : Bool} {r : Res} {subs subs' : List Sub} {pd : Bool} {outs : List Out}
    (h : Visits d r subs subs' pd outs) : ∀ out ∈ outs, isNotif out = true → out.obs = some r.observe ∧ out.ver = r.ver := by
  induction h with
  | nil => intro out ho; cases ho
  | cons hv _ ih =>
    intro out ho
    rcases List.mem_append.mp ho with ho | ho
    · exact hv.notif_fields out ho
    · exact ih out ho

structure ValInv (b : Nat) (y : Res) (acc : List Out) : Prop where
  cur : y.observe = (b + y.ver) % 16777216
  outs : ∀ a ∈ acc, isNotif a = true → a.obs = some ((b + a.ver) % 16777216)

theorem ValInv.micro {A : Nat → Nat → Nat → Prop} (b : Nat) (y : Res) (o : List Out) (y' : Res) (acc : List Out)
    (h : ValInv b y acc) (hm : Micro A y o y') : ValInv b y' (acc ++ o) := by
  cases hm with
  | le hle => rw [List.append_nil]; exact ⟨by rw [hle.observe, hle.ver]; exact h.cur, h.outs⟩
  | errFlag b' => rw [List.append_nil]; exact ⟨h.cur, h.outs⟩
  | change =>
    rw [List.append_nil]
    refine ⟨?_, h.outs⟩
    dsimp only
    rw [h.cur]; unfold nextObserve; omega
  | register c' tok' key m out hA hal herr htag =>
    have hf := addToRes_fields y c' tok' key m
    refine ⟨by rw [hf.2.2.2.2.2.2.2.1, hf.2.2.2.2.2.2.1]; exact h.cur, ?_⟩
    intro a ha hn
    rcases List.mem_append.mp ha with ha | ha
    · exact h.outs a ha hn
    · simp at ha; subst ha; simp [isNotif, htag] at hn
  | resp out htag _ =>
    refine ⟨h.cur, ?_⟩
    intro a ha hn
    rcases List.mem_append.mp ha with ha | ha
    · exact h.outs a ha hn
    · simp at ha; subst ha; simp [isNotif, htag] at hn
  | notify hal hv =>
    refine ⟨h.cur, ?_⟩
    intro a ha hn
    rcases List.mem_append.mp ha with ha | ha
    · exact h.outs a ha hn
    · obtain ⟨h1, h2⟩ := hv.notif_fields a ha hn
      rw [h1, h2, h.cur]
  | bye pd' hal hv =>
    refine ⟨h.cur, ?_⟩
    intro a ha hn
    rcases List.mem_append.mp ha with ha | ha
    · exact h.outs a ha hn
    · rw [hv.bye_outs a ha] at hn; cases hn
  | clean hc => rw [List.append_nil]; exact ⟨h.cur, h.outs⟩
  | delete pd => rw [List.append_nil]; exact ⟨h.cur, h.outs⟩

/-! ### every notification is about a resource of the table -/
theorem request_outs (st : State) (o : Option Nat) (c r tok key : Nat) (con : Bool) (mid : Nat) :
    ∀ out ∈ (request st o c r tok key con mid).2, out.tag = .resp := by
  unfold request
  dsimp only
  split
  · intro out ho; simp at ho; rw [ho]
  · split
    · intro out ho; simp at ho; rw [ho]
    · intro out ho; simp at ho; rw [ho]

theorem io_notes (st : State) : ∀ out ∈ (io st).2, out.tag = .note → out.res ∈ resIds st := by
  unfold io
  dsimp only
  intro out ho ht
  rcases List.mem_append.mp ho with ho | ho
  · unfold checkNotify at ho
    split at ho
    · exact (notifyAll_outs _ _ out ho).2
    · cases ho
  · rw [retransmitDue_outs _ _ out ho] at ht; cases ht

theorem rxThenIo_notes (st : State) (p : State × List Out) (hp : ∀ out ∈ p.2, out.tag ≠ .note) (hids : resIds p.1 = resIds st) :
    ∀ out ∈ (rxThenIo p).2, out.tag = .note → out.res ∈ resIds st := by
  unfold rxThenIo
  dsimp only
  intro out ho ht
  rcases List.mem_append.mp ho with ho | ho
  · exact absurd ht (hp out ho)
  · rw [← hids]; exact io_notes p.1 out ho ht

theorem step_notes (st : State) (e : Event) : ∀ out ∈ (step st e).2, out.tag = .note → out.res ∈ resIds st := by
  cases e with
  | reg c r tok key con mid =>
    exact rxThenIo_notes st _ (fun out ho => by rw [request_outs st _ c r tok key con mid out ho]; decide) (request_ids st _ c r tok key con mid)
  | can c r tok key con mid =>
    exact rxThenIo_notes st _ (fun out ho => by rw [request_outs st _ c r tok key con mid out ho]; decide) (request_ids st _ c r tok key con mid)
  | get c r tok key con mid =>
    exact rxThenIo_notes st _ (fun out ho => by rw [request_outs st _ c r tok key con mid out ho]; decide) (request_ids st _ c r tok key con mid)
  | chg r => intro out ho; cases ho
  | adv ms => exact io_notes _
  | ack c n =>
    unfold step; dsimp only
    split
    · split
      · exact rxThenIo_notes st _ (fun out ho => by cases ho) (handleAck_leF ..).le.idLe.ids
      · intro out ho; cases ho
    · intro out ho; cases ho
  | rst c n =>
    unfold step; dsimp only
    split
    · exact rxThenIo_notes st _ (fun out ho => by cases ho) (handleRst_leF ..).le.idLe.ids
    · intro out ho; cases ho
  | err r b => intro out ho; cases ho
  | lost c => intro out ho; cases ho
  | del r =>
    show ∀ out ∈ (deleteResource st r).2, _
    unfold deleteResource
    split
    · intro out ho; cases ho
    · dsimp only
      cases hx1 : findRes (change st r) r with
      | none => intro out ho; cases ho
      | some x1 =>
        dsimp only
        intro out ho _
        rw [(notifyRes_outs true x1 _ out ho).2.1]
        have := findRes_mem hx1
        have h2 : x1.id ∈ resIds (change st r) := List.mem_map_of_mem this.1
        unfold resIds at h2 ⊢
        rw [(change_idLe st r).ids] at h2
        exact h2

theorem run_notes : ∀ (evs : List Event) (st : State), ∀ out ∈ (run st evs).2, out.tag = .note → out.res ∈ resIds st
  | [], _, out, ho, _ => by cases ho
  | e :: es, st, out, ho, ht => by
    rw [run_cons] at ho
    rcases List.mem_append.mp ho with ho | ho
    · exact step_notes st e out ho ht
    · rw [← step_ids st e]; exact run_notes es _ out ho ht

/-! ### run level -/
theorem run_ordInv (st : State) (evs : List Event) (hid : IdsNodup st) (hnd : NoDupSt st) (c tok : Nat) :
    ResInv (OrdInv c tok) (run st evs).1 (run st evs).2 := by
  have := run_resInv (Q := OrdInv c tok) (fun _ => True) (fun e _ y o y' a hq hm => OrdInv.micro c tok y o y' a hq hm)
    evs st [] hid (fun _ _ => trivial) (fun y hy => ⟨hnd y hy, List.Pairwise.nil, fun a ha => by cases ha⟩)
  simpa using this

theorem run_valInv (st : State) (evs : List Event) (hid : IdsNodup st) (base : Nat → Nat)
    (h0 : ∀ y ∈ st.res, y.observe = (base y.id + y.ver) % 16777216) :
    ResInv (fun y acc => ValInv (base y.id) y acc) (run st evs).1 (run st evs).2 := by
  have := run_resInv (Q := fun y acc => ValInv (base y.id) y acc) (fun _ => True)
    (fun e _ y o y' a hq hm => by
      show ValInv (base y'.id) y' (a ++ o)
      rw [hm.fixed.1]; exact ValInv.micro (base y.id) y o y' a hq hm)
    evs st [] hid (fun _ _ => trivial) (fun y hy => ⟨h0 y hy, fun a ha => by cases ha⟩)
  simpa using this


/-! ### (2) cadence: at least every (COAP_OBS_MAX_NON+1)-th notification to an entry is Confirmable -/
def isConOut (o : Out) : Bool := o.kind == .con

/-- length of the run of Non-confirmables at the end of `l`, when `n` of them preceded `l` -/
def runLen : Nat → List Bool → Nat
  | n, [] => n
  | _, true :: l => runLen 0 l
  | n, false :: l => runLen (n + 1) l

/-- no run of Non-confirmables ever exceeds COAP_OBS_MAX_NON -/
def windowOk : Nat → List Bool → Bool
  | _, [] => true
  | _, true :: l => windowOk 0 l
  | n, false :: l => Nat.ble (n + 1) obsMaxNon && windowOk (n + 1) l

theorem runLen_snoc (b : Bool) : ∀ (l : List Bool) (n : Nat), runLen n (l ++ [b]) = if b then 0 else runLen n l + 1
  | [], n => by cases b <;> rfl
  | true :: l, n => by simp only [List.cons_append, runLen]; exact runLen_snoc b l 0
  | false :: l, n => by simp only [List.cons_append, runLen]; exact runLen_snoc b l (n + 1)

theorem windowOk_snoc (b : Bool) : ∀ (l : List Bool) (n : Nat),
    windowOk n (l ++ [b]) = (windowOk n l && (b || Nat.ble (runLen n l + 1) obsMaxNon))
  | [], n => by cases b <;> simp [windowOk, runLen]
  | true :: l, n => by simp only [List.cons_append, windowOk, runLen]; exact windowOk_snoc b l 0
  | false :: l, n => by
    simp only [List.cons_append, windowOk, runLen]
    rw [windowOk_snoc b l (n + 1), Bool.and_assoc]

theorem windowOk_allFalse : ∀ (w post : List Bool) (n : Nat), windowOk n (w ++ post) = true → (∀ x ∈ w, x = false) →
    n + w.length ≤ obsMaxNon ∨ w = []
  | [], _, _, _, _ => Or.inr rfl
  | true :: w, _, _, _, hf => by have := hf true (List.mem_cons_self ..); cases this
  | false :: w, post, n, h, hf => by
    simp only [List.cons_append, windowOk, Bool.and_eq_true, Nat.ble_eq] at h
    left
    rcases windowOk_allFalse w post (n + 1) h.2 (fun x hx => hf x (List.mem_cons_of_mem _ hx)) with h1 | h1
    · simp only [List.length_cons]; omega
    · subst h1; simp only [List.length_cons, List.length_nil]; omega

/-- what `windowOk` means: every window of COAP_OBS_MAX_NON + 1 consecutive notifications contains a Confirmable one -/
theorem windowOk_window : ∀ (pre w post : List Bool) (n : Nat), windowOk n (pre ++ w ++ post) = true →
    w.length = obsMaxNon + 1 → true ∈ w
  | [], w, post, n, h, hl => by
    cases hc : w.contains true with
    | true => simpa using hc
    | false =>
      exfalso
      have hf : ∀ x ∈ w, x = false := by
        intro x hx
        cases x with
        | false => rfl
        | true =>
          have : w.contains true = true := List.contains_iff_mem.mpr hx
          rw [hc] at this; cases this
      rcases windowOk_allFalse w post n (by simpa using h) hf with h1 | h1
      · omega
      · subst h1; simp at hl
  | true :: pre, w, post, n, h, hl => by
    simp only [List.cons_append, windowOk] at h
    exact windowOk_window pre w post 0 h hl
  | false :: pre, w, post, n, h, hl => by
    simp only [List.cons_append, windowOk, Bool.and_eq_true] at h
    exact windowOk_window pre w post (n + 1) h.2 hl

theorem wantCon_false_iff (r : Res) (o : Sub) :
    wantCon r o = false ↔ (r.fCon = false ∧ (r.fNonAlways = true ∨ o.nonCnt < obsMaxNon)) := by
  unfold wantCon
  cases r.fCon <;> cases r.fNonAlways <;> simp

/-- the message types (true = CON) of the notifications to (c, tok) among `acc` -/
def kindsTo (c tok : Nat) (acc : List Out) : List Bool := (notifsTo c tok acc).map isConOut

structure CadInv (c tok : Nat) (y : Res) (acc : List Out) : Prop where
  nodup : NoDup y
  flag : y.fNonAlways = false
  window : windowOk 0 (kindsTo c tok acc) = true
  cnt : ∀ o ∈ y.subs, matchST c tok o = true → runLen 0 (kindsTo c tok acc) ≤ o.nonCnt ∧ o.nonCnt ≤ obsMaxNon

theorem CadInv.same_acc {c tok : Nat} {y y' : Res} {acc acc' : List Out} (h : CadInv c tok y acc)
    (he : notifsTo c tok acc' = notifsTo c tok acc) (hn : NoDup y') (hf : y'.fNonAlways = y.fNonAlways)
    (hs : ∀ o' ∈ y'.subs, matchST c tok o' = true → ∃ o ∈ y.subs, matchST c tok o = true ∧ o.nonCnt = o'.nonCnt) :
    CadInv c tok y' acc' := by
  have hk : kindsTo c tok acc' = kindsTo c tok acc := by unfold kindsTo; rw [he]
  refine ⟨hn, hf.trans h.flag, hk ▸ h.window, ?_⟩
  intro o' ho' hm
  obtain ⟨o, ho, hmo, hc⟩ := hs o' ho' hm
  rw [hk, ← hc]
  exact h.cnt o ho hmo

theorem CadInv.micro {A : Nat → Nat → Nat → Prop} (c tok : Nat) (y : Res) (o : List Out) (y' : Res) (acc : List Out)
    (hA : ¬ A y.id c tok) (h : CadInv c tok y acc) (hm : Micro A y o y') : CadInv c tok y' (acc ++ o) := by
  cases hm with
  | le hle =>
    refine h.same_acc (by rw [List.append_nil]) (NoDup.of_idLe hle.le.idLe h.nodup) hle.fNonAlways ?_
    intro o' ho' hmo
    obtain ⟨o1, ho1, hc⟩ := hle.mem_sub ho'
    exact ⟨o1, ho1, by rw [matchST_coreF hc]; exact hmo, (coreF_fields hc).2.2.2.2.1⟩
  | errFlag b =>
    exact h.same_acc (by rw [List.append_nil]) h.nodup rfl (fun o' ho' hmo => ⟨o', ho', hmo, rfl⟩)
  | change =>
    exact h.same_acc (by rw [List.append_nil]) h.nodup rfl (fun o' ho' hmo => ⟨o', ho', hmo, rfl⟩)
  | register c' tok' key m out hA' hal herr htag =>
    have hf := addToRes_fields y c' tok' key m
    refine h.same_acc (by rw [notifsTo_append, notifsTo_resp c tok out htag, List.append_nil])
      (addToRes_noDup y c' tok' key m h.nodup) hf.2.2.2.1 ?_
    intro o' ho' hmo
    rcases mem_addToRes ho' with rfl | ho1
    · exfalso
      simp [matchST] at hmo
      exact hA (hmo.1 ▸ hmo.2 ▸ hA')
    · exact ⟨o', ho1, hmo, rfl⟩
  | resp out htag _ =>
    exact h.same_acc (by rw [notifsTo_append, notifsTo_resp c tok out htag, List.append_nil]) h.nodup rfl
      (fun o' ho' hmo => ⟨o', ho', hmo, rfl⟩)
  | notify hal hv =>
    rename_i subs' pd
    have hn' : NoDup { y with subs := subs', pdirty := pd, dirty := false } := List.Pairwise.sublist hv.idLe h.nodup
    rcases hv.target c tok h.nodup with ⟨_, h2, h3⟩ | ⟨o1, ho1, hm1, s, pd1, po, hvis, h4, h5, h6⟩
    · refine h.same_acc (by rw [notifsTo_of_filter c tok acc o [] h3]; simp) hn' rfl ?_
      intro o' ho' hmo
      rw [h2 o' ho'] at hmo; cases hmo
    · cases hvis with
      | skip hyd hod =>
        refine h.same_acc (by rw [notifsTo_of_filter c tok acc o [] h6]; simp) hn' rfl ?_
        intro o' ho' hmo
        have := h4 o' ho' hmo
        simp at this; subst this
        exact ⟨o1, ho1, hm1, rfl⟩
      | defer hst =>
        refine h.same_acc (by rw [notifsTo_of_filter c tok acc o [] h6]; simp) hn' rfl ?_
        intro o' ho' hmo
        have := h4 o' ho' hmo
        simp at this; subst this
        exact ⟨o1, ho1, hm1, rfl⟩
      | bye m n hst hd => cases hd
      | error m n hst hd he =>
        refine h.same_acc (by rw [notifsTo_of_filter c tok acc o _ h6]; simp [isNotif, noteOut]) hn' rfl ?_
        intro o' ho' hmo
        have := h4 o' ho' hmo
        cases this
      | sent m n hst hd he =>
        have heq : kindsTo c tok (acc ++ o) = kindsTo c tok acc ++ [wantCon y o1] := by
          unfold kindsTo
          rw [notifsTo_of_filter c tok acc o _ h6]
          simp [isNotif, noteOut, isConOut]
          cases wantCon y o1 <;> simp
        obtain ⟨hc1, hc2⟩ := h.cnt o1 ho1 hm1
        have hmax : obsMaxNon ≤ 255 := by decide
        refine ⟨hn', h.flag, ?_, ?_⟩
        · rw [heq, windowOk_snoc, h.window]
          cases hw : wantCon y o1 with
          | true => rfl
          | false =>
            have := (wantCon_false_iff y o1).mp hw
            simp [h.flag] at this
            simp
            omega
        · intro o' ho' hmo
          have := h4 o' ho' hmo
          simp at this; subst this
          rw [heq, runLen_snoc]
          dsimp only
          unfold nextNonCnt
          cases hw : wantCon y o1 with
          | true => simp
          | false =>
            have := (wantCon_false_iff y o1).mp hw
            simp [h.flag] at this
            simp [h.flag]
            omega
  | bye pd' hal hv =>
    refine h.same_acc (notifsTo_nonNotif c tok acc o hv.bye_outs) ?_ rfl (fun o' ho' => by cases ho')
    unfold NoDup; exact List.Pairwise.nil
  | clean hc =>
    exact h.same_acc (by rw [List.append_nil]) h.nodup rfl (fun o' ho' hmo => ⟨o', ho', hmo, rfl⟩)
  | delete pd =>
    refine h.same_acc (by rw [List.append_nil]) ?_ rfl (fun o' ho' => by cases ho')
    unfold NoDup; exact List.Pairwise.nil
theorem Visits.mem_sub {d : Bool} {r : Res} {subs subs' : List Sub} {pd : Bool} {outs : List Out}
    (h : Visits d r subs subs' pd outs) : ∀ o' ∈ subs', ∃ o ∈ subs, ∃ pd1 po, Visit d r o (some o') pd1 po := by
  induction h with
  | nil => intro o' ho'; cases ho'
  | @cons o s pd outs rest subs' pd' outs' hv _ ih =>
    intro o' ho'
    rcases List.mem_append.mp ho' with ho' | ho'
    · cases s with
      | none => simp at ho'
      | some o'' =>
        simp at ho'; subst ho'
        exact ⟨o, List.mem_cons_self .., pd, outs, hv⟩
    · obtain ⟨o1, ho1, hh⟩ := ih o' ho'
      exact ⟨o1, List.mem_cons_of_mem _ ho1, hh⟩

theorem nextNonCnt_le (r : Res) (o : Sub) (h : o.nonCnt ≤ obsMaxNon) : nextNonCnt r o ≤ obsMaxNon := by
  unfold nextNonCnt
  split
  · exact Nat.zero_le _
  · rename_i hc
    simp at hc
    have := (wantCon_false_iff r o).mp hc.1
    simp [hc.2] at this
    have hmax : obsMaxNon ≤ 255 := by decide
    omega

/-- the NON counter of an entry never exceeds COAP_OBS_MAX_NON -/
def NonCntOk (y : Res) : Prop := ∀ o ∈ y.subs, o.nonCnt ≤ obsMaxNon

theorem NonCntOk.micro {A : Nat → Nat → Nat → Prop} (y : Res) (o : List Out) (y' : Res) (h : NonCntOk y) (hm : Micro A y o y') :
    NonCntOk y' := by
  cases hm with
  | le hle =>
    intro o' ho'
    obtain ⟨o1, ho1, hc⟩ := hle.mem_sub ho'
    rw [← (coreF_fields hc).2.2.2.2.1]; exact h o1 ho1
  | errFlag b => exact h
  | change => exact h
  | register c' tok' key m out hA' hal herr htag =>
    intro o' ho'
    rcases mem_addToRes ho' with rfl | ho1
    · exact Nat.zero_le _
    · exact h o' ho1
  | resp out htag _ => exact h
  | notify hal hv =>
    intro o' ho'
    obtain ⟨o1, ho1, pd1, po, hvis⟩ := hv.mem_sub o' ho'
    have := h o1 ho1
    cases hvis with
    | skip => exact this
    | defer => exact this
    | bye _ _ _ hd => cases hd
    | sent => exact nextNonCnt_le y o1 this
  | bye pd' hal hv => intro o' ho'; cases ho'
  | clean hc => exact h
  | delete pd => intro o' ho'; cases ho'

theorem run_nonCntOk (st : State) (evs : List Event) (hid : IdsNodup st) (h : ∀ y ∈ st.res, NonCntOk y) :
    ∀ y ∈ (run st evs).1.res, NonCntOk y := by
  have := run_resInv (Q := fun y _ => NonCntOk y) (fun _ => True) (fun e _ y o y' _ hq hm => NonCntOk.micro y o y' hq hm)
    evs st [] hid (fun _ _ => trivial) h
  exact this

theorem run_cadInv (st : State) (evs : List Event) (hid : IdsNodup st) (rid c tok : Nat)
    (hok : ∀ e ∈ evs, ¬ RegEv e rid c tok)
    (h0 : ∀ y ∈ st.res, y.id = rid → NoDup y ∧ y.fNonAlways = false ∧ NonCntOk y) :
    ResInv (fun y acc => y.id = rid → CadInv c tok y acc) (run st evs).1 (run st evs).2 := by
  have := run_resInv (Q := fun y acc => y.id = rid → CadInv c tok y acc) (fun e => ¬ RegEv e rid c tok)
    (fun e he y o y' a hq hm hy' => by
      have hyid : y.id = rid := hm.fixed.1 ▸ hy'
      exact CadInv.micro c tok y o y' a (by rw [hyid]; exact he) (hq hyid) hm)
    evs st [] hid hok (fun y hy hyid => by
      obtain ⟨h1, h2, h3⟩ := h0 y hy hyid
      exact ⟨h1, h2, rfl, fun o ho _ => ⟨Nat.zero_le _, h3 o ho⟩⟩)
  simpa using this


/-! ### (5) the latest state is eventually notified -/
/-- datagram `a` told (session c, token tok) the resource state with Observe value `obs` and version `ver` (a 2.05 notification,
    or the 2.05 response to its registration) -/
def Told (a : Out) (c tok obs ver : Nat) : Prop :=
  (a.tag = .note ∨ a.tag = .resp) ∧ a.c = c ∧ a.token = tok ∧ a.code = 69 ∧ a.obs = some obs ∧ a.ver = ver

theorem Visits.mem_sub' {d : Bool} {r : Res} {subs subs' : List Sub} {pd : Bool} {outs : List Out}
    (h : Visits d r subs subs' pd outs) :
    ∀ o' ∈ subs', ∃ o ∈ subs, ∃ pd1 po, Visit d r o (some o') pd1 po ∧ (∀ x ∈ po, x ∈ outs) ∧ (pd1 = true → pd = true) := by
  induction h with
  | nil => intro o' ho'; cases ho'
  | @cons o s pd outs rest subs' pd' outs' hv _ ih =>
    intro o' ho'
    rcases List.mem_append.mp ho' with ho' | ho'
    · cases s with
      | none => simp at ho'
      | some o'' =>
        simp at ho'; subst ho'
        exact ⟨o, List.mem_cons_self .., pd, outs, hv, fun x hx => List.mem_append_left _ hx, fun h => by simp [h]⟩
    · obtain ⟨o1, ho1, pd1, po, h1, h2, h3⟩ := ih o' ho'
      exact ⟨o1, List.mem_cons_of_mem _ ho1, pd1, po, h1, fun x hx => List.mem_append_right _ (h2 x hx), fun h => by simp [h3 h]⟩

/-- a clean entry of a clean (alive) resource has been told the resource's current state; a dirty entry keeps the resource
    `partiallydirty` -/
structure LiveInv (y : Res) (acc : List Out) : Prop where
  told : y.alive = true → y.dirty = false → ∀ o ∈ y.subs, o.dirty = false → ∃ a ∈ acc, Told a o.sess o.token y.observe y.ver
  pd : ∀ o ∈ y.subs, o.dirty = true → y.pdirty = true

theorem LiveInv.micro {A : Nat → Nat → Nat → Prop} (y : Res) (o : List Out) (y' : Res) (acc : List Out)
    (h : LiveInv y acc) (hm : Micro A y o y') : LiveInv y' (acc ++ o) := by
  cases hm with
  | le hle =>
    rw [List.append_nil]
    refine ⟨?_, ?_⟩
    · intro hal hd o' ho' hod
      obtain ⟨o1, ho1, hc⟩ := hle.mem_sub ho'
      have hf := coreF_fields hc
      rw [hle.observe, hle.ver, ← hf.1, ← hf.2.1]
      exact h.told (hle.alive ▸ hal) (hle.dirty ▸ hd) o1 ho1 (hf.2.2.2.1 ▸ hod)
    · intro o' ho' hod
      obtain ⟨o1, ho1, hc⟩ := hle.mem_sub ho'
      rw [hle.pdirty]
      exact h.pd o1 ho1 ((coreF_fields hc).2.2.2.1 ▸ hod)
  | errFlag b => rw [List.append_nil]; exact ⟨h.told, h.pd⟩
  | change =>
    rw [List.append_nil]
    exact ⟨(fun _ hd => by cases hd), h.pd⟩
  | register c' tok' key m out hA' hal herr htag hc ht hcode hobs hver hres =>
    have hf := addToRes_fields y c' tok' key m
    refine ⟨?_, ?_⟩
    · intro hal' hd o' ho' hod
      rw [hf.2.2.2.2.2.2.2.1, hf.2.2.2.2.2.2.1]
      rcases mem_addToRes ho' with rfl | ho1
      · exact ⟨out, by simp, Or.inr htag, hc, ht, hcode, hobs, hver⟩
      · obtain ⟨a, ha, hta⟩ := h.told hal (hf.2.2.2.2.1 ▸ hd) o' ho1 hod
        exact ⟨a, List.mem_append_left _ ha, hta⟩
    · intro o' ho' hod
      rw [hf.2.2.2.2.2.1]
      rcases mem_addToRes ho' with rfl | ho1
      · cases hod
      · exact h.pd o' ho1 hod
  | resp out htag _ =>
    refine ⟨?_, h.pd⟩
    intro hal hd o' ho' hod
    obtain ⟨a, ha, hta⟩ := h.told hal hd o' ho' hod
    exact ⟨a, List.mem_append_left _ ha, hta⟩
  | notify hal hv =>
    refine ⟨?_, ?_⟩
    · intro _ _ o' ho' hod
      obtain ⟨o1, ho1, pd1, po, hvis, hpo, _⟩ := hv.mem_sub' o' ho'
      cases hvis with
      | skip hyd hod1 =>
        obtain ⟨a, ha, hta⟩ := h.told hal hyd _ ho1 hod1
        exact ⟨a, List.mem_append_left _ ha, hta⟩
      | defer => cases hod
      | bye _ _ _ hd => cases hd
      | sent m n hst hd he =>
        refine ⟨_, List.mem_append_right _ (hpo _ (List.mem_cons_self ..)), ?_⟩
        simp [Told, noteOut]
    · intro o' ho' hod
      obtain ⟨o1, ho1, pd1, po, hvis, _, hpd⟩ := hv.mem_sub' o' ho'
      cases hvis with
      | skip hyd hod1 => rw [hod1] at hod; cases hod
      | defer => exact hpd rfl
      | bye _ _ _ hd => cases hd
      | sent => cases hod
  | bye pd' hal hv => exact ⟨(fun h' => by cases h'), (fun o' ho' => by cases ho')⟩
  | clean hc =>
    rw [List.append_nil]
    refine ⟨?_, h.pd⟩
    intro hal _ o' ho' hod
    rcases hc with hc | hc
    · rw [hc] at hal; cases hal
    · exact h.told hal hc o' ho' hod
  | delete pd => exact ⟨(fun h' => by cases h'), (fun o' ho' => by cases ho')⟩

theorem run_liveInv (st : State) (evs : List Event) (hid : IdsNodup st) (h0 : ∀ y ∈ st.res, LiveInv y []) :
    ResInv LiveInv (run st evs).1 (run st evs).2 := by
  have := run_resInv (Q := LiveInv) (fun _ => True) (fun e _ y o y' a hq hm => LiveInv.micro y o y' a hq hm)
    evs st [] hid (fun _ _ => trivial) (fun y hy => h0 y hy)
  simpa using this


end Coap.Observe
