import CoapVerif.Lemmas.ObserveRun
/- Global invariants of the Observe model over ALL event sequences, each proved once against the micro transitions of
   Lemmas/ObserveRun.lean and lifted to `step` / `run`. -/
namespace Coap.Observe
open Coap.Generated

/-! ### lifting a per-resource invariant `Q y (what has been written about y)` -/
theorem Trans.preserves {A : Nat → Nat → Nat → Prop} {Q : Res → List Out → Prop}
    (hQ : ∀ y o y' acc, Q y acc → Micro A y o y' → Q y' (acc ++ o)) {y y' : Res} {o : List Out} (h : Trans A y o y') :
    ∀ acc, Q y acc → Q y' (acc ++ o) := by
  induction h with
  | refl => intro acc hq; simpa using hq
  | step hm _ ih =>
    intro acc hq
    rw [← List.append_assoc]
    exact ih _ (hQ _ _ _ _ hq hm)

theorem All2.exists_right {R : Res → Res → Prop} {a b : List Res} (h : All2 R a b) : ∀ x ∈ a, ∃ y ∈ b, R x y := by
  induction h with
  | nil => intro x hx; cases hx
  | cons h _ ih =>
    intro x hx
    cases hx with
    | head => exact ⟨_, List.mem_cons_self .., h⟩
    | tail _ hx' =>
      obtain ⟨y, hy, hr⟩ := ih x hx'
      exact ⟨y, List.mem_cons_of_mem _ hy, hr⟩

/-- `Q` holds of every resource together with the datagrams written about it so far -/
def ResInv (Q : Res → List Out → Prop) (st : State) (acc : List Out) : Prop :=
  ∀ y ∈ st.res, Q y (acc.filter (fromRes y.id))

theorem step_resInv {Q : Res → List Out → Prop} (st : State) (e : Event) (acc : List Out) (hid : IdsNodup st)
    (hQ : ∀ y o y' a, Q y a → Micro (RegEv e) y o y' → Q y' (a ++ o)) (h : ResInv Q st acc) :
    ResInv Q (step st e).1 (acc ++ (step st e).2) := by
  intro y' hy'
  obtain ⟨y, hy, ht⟩ := (step_rel st e hid).exists_right y' hy'
  rw [List.filter_append, ht.fixed.1]
  exact ht.preserves hQ _ (h y hy)

/-- the run-level induction: `hQ` may use a side condition `ok e` every event of the run satisfies -/
theorem run_resInv {Q : Res → List Out → Prop} (ok : Event → Prop)
    (hQ : ∀ e, ok e → ∀ y o y' a, Q y a → Micro (RegEv e) y o y' → Q y' (a ++ o)) :
    ∀ (evs : List Event) (st : State) (acc : List Out), IdsNodup st → (∀ e ∈ evs, ok e) → ResInv Q st acc →
      ResInv Q (run st evs).1 (acc ++ (run st evs).2)
  | [], st, acc, _, _, h => by simpa [run_nil] using h
  | e :: es, st, acc, hid, hok, h => by
    rw [run_cons]
    dsimp only
    rw [← List.append_assoc]
    exact run_resInv ok hQ es _ _ (step_idsNodup st e hid) (fun e' he' => hok e' (List.mem_cons_of_mem _ he'))
      (step_resInv st e acc hid (hQ e (hok e (List.mem_cons_self ..))) h)

end Coap.Observe
