import CoapVerif.Lemmas.SessionsTimeout
/-
C12 helper lemmas, part 4 (round R12d): the global invariant "a CLIENT-type session that sits in a table is referenced".

The predicate is NOT closed under the raw primitive `St.dropHolder` (the instant between `--ref` and the
`if (ref == 0 && type == CLIENT) coap_session_free` of coap_session_release_lkd breaks it), so it does not fit `Closed`.
The formulation that IS inductive: `J = Inv ∧ CInv` over a skeleton whose release primitive is the WHOLE
coap_session_release_lkd (`St.releaseHolder`), plus the three places where the modelled code drops a reference without
the free test firing: the token replacement of coap_add_observer (release + reference on the same session), a release on
a session that is not a client session (stream sessions), and coap_session_disconnected_lkd on a session the application
holds a reference on (D17).  `ClosedIO` is the part of `Closed` an I/O pass needs (no raw `dropHolder`).
-/
namespace Coap.Sessions

/-- every CLIENT-type session that sits in a table has a reference, and is a datagram session (D16) -/
def CInv (st : St) : Prop := ∀ s ∈ st.sessions, s.client = true → 1 ≤ s.ref ∧ s.peer.reliable = false

theorem CInv.mono {st st' : St} (h : CInv st)
    (hm : ∀ t ∈ st'.sessions, t.client = true →
      ∃ s ∈ st.sessions, s.client = true ∧ s.ref ≤ t.ref ∧ s.peer = t.peer) : CInv st' := by
  intro t ht hc
  obtain ⟨s, hs, c, r, p⟩ := hm t ht hc
  have h1 := h s hs c
  exact ⟨by omega, by rw [← p]; exact h1.2⟩

theorem CInv.congr {st st' : St} (h : CInv st) (e : st'.sessions = st.sessions) : CInv st' := by
  unfold CInv; rw [e]; exact h

theorem CInv.updSess {st : St} (h : CInv st) (sid : Nat) (f : Sess → Sess)
    (hf : ∀ s, s.ref ≤ (f s).ref ∧ (f s).peer = s.peer ∧ (f s).client = s.client) : CInv (st.updSess sid f) := by
  apply h.mono
  intro t ht hc
  obtain ⟨s, hs, e⟩ := mem_updSess.mp ht
  by_cases c : s.sid = sid
  · rw [if_pos c] at e; subst e
    exact ⟨s, hs, by rw [← (hf s).2.2]; exact hc, (hf s).1, ((hf s).2.1).symm⟩
  · rw [if_neg c] at e; subst e; exact ⟨s, hs, hc, Nat.le_refl _, rfl⟩

/-- a function on sessions that touches neither identity, reference count, peer nor TYPE -/
def BenignC (f : Sess → Sess) : Prop :=
  ∀ s, (f s).sid = s.sid ∧ (f s).ref = s.ref ∧ (f s).peer = s.peer ∧ (f s).client = s.client

theorem BenignC.benign {f : Sess → Sess} (h : BenignC f) : Benign f := fun s => ⟨(h s).1, (h s).2.1, (h s).2.2.1⟩

/-- the sessions after `--ref` of one holder -/
theorem mem_dropHolder {st : St} {x : Holder} {t : Sess} (ht : t ∈ (st.dropHolder x).sessions) :
    ∃ s ∈ st.sessions, s.peer = t.peer ∧ s.client = t.client ∧ s.sid = t.sid ∧ s.ref ≤ t.ref + 1 ∧
      (t.sid ≠ x.sid → t.ref = s.ref) := by
  unfold St.dropHolder at ht
  split at ht
  · have ht' : t ∈ (st.updSess x.sid Sess.release).sessions := ht
    obtain ⟨s, hs, e⟩ := mem_updSess.mp ht'
    by_cases c : s.sid = x.sid
    · rw [if_pos c] at e; subst e
      refine ⟨s, hs, rfl, rfl, rfl, ?_, fun hne => absurd c hne⟩
      show s.ref ≤ (s.ref - 1) + 1
      omega
    · rw [if_neg c] at e; subst e; exact ⟨s, hs, rfl, rfl, rfl, Nat.le_succ _, fun _ => rfl⟩
  · exact ⟨t, ht, rfl, rfl, rfl, Nat.le_succ _, fun _ => rfl⟩

theorem mem_dropHolders {k : Nat} : ∀ (xs : List Holder) (st : St) (t : Sess), (∀ x ∈ xs, x.sid = k) →
    t ∈ (st.dropHolders xs).sessions →
    ∃ s ∈ st.sessions, s.peer = t.peer ∧ s.client = t.client ∧ s.sid = t.sid ∧ (t.sid ≠ k → t.ref = s.ref) := by
  intro xs
  induction xs with
  | nil => intro st t _ ht; exact ⟨t, ht, rfl, rfl, rfl, fun _ => rfl⟩
  | cons x r ih =>
    intro st t hk ht
    rw [dropHolders_cons] at ht
    obtain ⟨s1, hs1, p1, c1, i1, r1⟩ := ih (st.dropHolder x) t (fun y hy => hk y (List.mem_cons_of_mem _ hy)) ht
    obtain ⟨s, hs, p, c, i, _, r0⟩ := mem_dropHolder hs1
    refine ⟨s, hs, p.trans p1, c.trans c1, i.trans i1, ?_⟩
    intro hne
    rw [r1 hne]
    apply r0
    rw [i1, hk x (List.mem_cons_self)]; exact hne

theorem holders_dropHolder_keep {st : St} {x g : Holder} (hg : g ∈ st.holders) (hne : g ≠ x) :
    g ∈ (st.dropHolder x).holders := by
  unfold St.dropHolder
  split
  · exact (List.mem_erase_of_ne hne).mpr hg
  · exact hg

theorem holders_dropHolders_keep {g : Holder} : ∀ (xs : List Holder) (st : St), g ∈ st.holders → g ∉ xs →
    g ∈ (st.dropHolders xs).holders := by
  intro xs
  induction xs with
  | nil => intro st hg _; exact hg
  | cons x r ih =>
    intro st hg hn
    rw [dropHolders_cons]
    apply ih
    · exact holders_dropHolder_keep hg (fun e => hn (by rw [e]; exact List.mem_cons_self))
    · exact fun hm => hn (List.mem_cons_of_mem _ hm)

/-- the invariant of round R12d -/
structure J (st : St) : Prop where
  I : Inv st
  C : CInv st

namespace J

theorem benign {st : St} (h : J st) (sid : Nat) (f : Sess → Sess) (hf : BenignC f) : J (st.updSess sid f) :=
  ⟨Inv.closed.benign _ _ _ h.I hf.benign,
   h.C.updSess sid f (fun s => ⟨Nat.le_of_eq (hf s).2.1.symm, (hf s).2.2.1, (hf s).2.2.2⟩)⟩

theorem refRelease {st : St} (h : J st) (sid : Nat) : J ((st.updSess sid Sess.reference).updSess sid Sess.release) := by
  refine ⟨Inv.closed.refRelease _ _ h.I, ?_⟩
  rw [updSess_updSess st sid Sess.reference Sess.release (fun _ => rfl)]
  exact h.C.updSess sid _ (fun s => ⟨by simp [Sess.reference, Sess.release], rfl, rfl⟩)

theorem addHolder {st : St} (h : J st) (sid : Nat) (k : HKind) (hl : ∃ s ∈ st.sessions, s.sid = sid) :
    J (st.addHolder sid k) := by
  refine ⟨Inv.closed.addHolder _ _ _ h.I hl, ?_⟩
  refine (h.C.updSess sid Sess.reference (fun s => ⟨Nat.le_succ _, rfl, rfl⟩)).congr ?_
  unfold St.addHolder; split <;> rfl

theorem promote {st : St} (h : J st) (x : Nat × Nat) (due : Nat) (hl : ∃ s ∈ st.sessions, s.sid = x.2) :
    J (st.promote x due) := by
  refine ⟨Inv.closed.promote _ _ _ h.I hl, ?_⟩
  unfold St.promote
  split
  · exact (h.C.updSess x.2 Sess.reference (fun s => ⟨Nat.le_succ _, rfl, rfl⟩)).congr rfl
  · exact h.C

theorem reclaim {st : St} (h : J st) (sid : Nat) : J (st.reclaim sid) := by
  refine ⟨Inv.closed.reclaim _ _ h.I, ?_⟩
  apply h.C.mono
  intro t ht hc
  refine ⟨t, ?_, hc, Nat.le_refl _, rfl⟩
  unfold St.reclaim at ht
  split at ht
  · exact ht
  · split at ht
    · exact ht
    · exact (List.mem_filter.mp ht).1

theorem clientFree_sub {st : St} {sid : Nat} {t : Sess} (ht : t ∈ (st.clientFree sid).sessions) : t ∈ st.sessions := by
  unfold St.clientFree at ht
  split at ht
  · exact ht
  · split at ht
    · exact ht
    · exact (List.mem_filter.mp ht).1

theorem clientFree {st : St} (h : J st) (sid : Nat) : J (st.clientFree sid) := by
  refine ⟨Inv.closed.clientFree _ _ h.I, ?_⟩
  apply h.C.mono
  intro t ht hc
  exact ⟨t, clientFree_sub ht, hc, Nat.le_refl _, rfl⟩

theorem newSession {st : St} (h : J st) (p : Peer) (hl : st.lookup p = none) (hp : (p.lport, p.proto) ∈ st.eps) :
    J (st.newSession p) := by
  refine ⟨Inv.closed.newSession _ _ h.I hl hp, ?_⟩
  apply h.C.mono
  intro t ht hc
  have ht' : t ∈ st.sessions ++ [⟨st.next, st.nsess, p, 0, st.now, 0, 0, 0, false, 0, false⟩] := ht
  rcases List.mem_append.mp ht' with hm | hm
  · exact ⟨t, hm, hc, Nat.le_refl _, rfl⟩
  · rw [List.mem_singleton.mp hm] at hc
    simp at hc

theorem addPartial {st : St} (h : J st) (sid : Nat) (hl : ∃ s ∈ st.sessions, s.sid = sid) : J (st.addPartial sid) :=
  ⟨Inv.closed.addPartial _ _ h.I hl, h.C.congr rfl⟩

theorem dropPartial {st : St} (h : J st) (sid : Nat) : J (st.dropPartial sid) :=
  ⟨Inv.closed.dropPartial _ _ h.I, h.C.congr rfl⟩

/-- coap_session_release_lkd IN FULL: `--ref; if (ref == 0 && type == CLIENT) coap_session_free` -/
theorem releaseHolder {st : St} (h : J st) (x : Holder) : J (st.releaseHolder x) := by
  have h1 : Inv (st.dropHolder x) := Inv.closed.dropHolder _ _ h.I
  refine ⟨Inv.closed.clientFree _ _ h1, ?_⟩
  intro t ht hc
  have ht1 : t ∈ (st.dropHolder x).sessions := clientFree_sub ht
  obtain ⟨s, hs, hp, hcl, _, _, hr⟩ := mem_dropHolder ht1
  have hs0 := h.C s hs (hcl.trans hc)
  refine ⟨?_, by rw [← hp]; exact hs0.2⟩
  by_cases e : t.sid = x.sid
  · have hg : (st.dropHolder x).getSess x.sid = some t := by rw [← e]; exact getSess_of_mem h1.S ht1
    have ht2 : t ∈ ((st.dropHolder x).clientFree x.sid).sessions := ht
    unfold St.clientFree at ht2
    rw [hg] at ht2
    dsimp only at ht2
    by_cases z : t.ref = 0
    · rw [if_neg (by simp [z, hc])] at ht2
      have := (List.mem_filter.mp ht2).2
      simp [e] at this
    · omega
  · rw [hr e]; exact hs0.1

/-- a release on a session that is not a client session (the free test of coap_session_release_lkd cannot fire) -/
theorem dropHolderNC {st : St} (h : J st) (x : Holder) (hn : ∀ s ∈ st.sessions, s.sid = x.sid → s.client = false) :
    J (st.dropHolder x) := by
  refine ⟨Inv.closed.dropHolder _ _ h.I, ?_⟩
  intro t ht hc
  obtain ⟨s, hs, hp, hcl, hi, _, hr⟩ := mem_dropHolder ht
  have hs0 := h.C s hs (hcl.trans hc)
  have hne : t.sid ≠ x.sid := by
    intro e
    have := hn s hs (hi.trans e)
    rw [hcl.trans hc] at this
    exact absurd this (by decide)
  exact ⟨by rw [hr hne]; exact hs0.1, by rw [← hp]; exact hs0.2⟩

/-- coap_add_observer's token replacement: coap_delete_observer (release) then a new entry (reference), same session -/
theorem swapHolder {st : St} (h : J st) (x : Holder) (k : HKind) (hl : ∃ s ∈ st.sessions, s.sid = x.sid) :
    J ((st.dropHolder x).addHolder x.sid k) := by
  refine ⟨Inv.closed.addHolder _ _ _ (Inv.closed.dropHolder _ _ h.I) (live_dropHolder _ hl), ?_⟩
  have e : ((st.dropHolder x).addHolder x.sid k).sessions = ((st.dropHolder x).updSess x.sid Sess.reference).sessions := by
    unfold St.addHolder; split <;> rfl
  apply h.C.mono
  intro t ht hc
  rw [e] at ht
  obtain ⟨s1, hs1, e1⟩ := mem_updSess.mp ht
  obtain ⟨s, hs, hp, hcl, hi, hle, hr⟩ := mem_dropHolder hs1
  by_cases c : s1.sid = x.sid
  · rw [if_pos c] at e1; subst e1
    refine ⟨s, hs, hcl.trans hc, ?_, hp⟩
    show s.ref ≤ s1.ref + 1
    exact hle
  · rw [if_neg c] at e1; subst e1
    exact ⟨s, hs, hcl.trans hc, Nat.le_of_eq (hr c).symm, hp⟩

theorem mapHolders {st : St} (h : J st) (g : Holder → Holder) (hg : HBenign g) :
    J { st with holders := st.holders.map g } :=
  ⟨Inv.closed.mapHolders _ _ h.I hg, h.C.congr rfl⟩

theorem misc {st : St} (h : J st) (now timeout maxIdle : Nat) (res dirty : List Nat) :
    J { st with now := now, timeout := timeout, maxIdle := maxIdle, resAlive := res, dirty := dirty } :=
  ⟨Inv.closed.misc _ _ _ _ _ _ h.I, h.C.congr rfl⟩

end J

/-! ## the part of `Closed` an I/O pass and a session lookup need: no raw `dropHolder` -/

structure ClosedIO (P : St → Prop) : Prop where
  benign : ∀ st sid f, P st → BenignC f → P (st.updSess sid f)
  refRelease : ∀ st sid, P st → P ((st.updSess sid Sess.reference).updSess sid Sess.release)
  releaseHolder : ∀ {st : St}, P st → ∀ x, P (st.releaseHolder x)
  reclaim : ∀ st sid, P st → P (st.reclaim sid)
  promote : ∀ st x due, P st → (∃ s ∈ st.sessions, s.sid = x.2) → P (st.promote x due)
  newSession : ∀ st p, P st → st.lookup p = none → (p.lport, p.proto) ∈ st.eps → P (st.newSession p)
  mapHolders : ∀ st g, P st → HBenign g → P { st with holders := st.holders.map g }
  misc : ∀ st (now timeout maxIdle : Nat) (res dirty : List Nat), P st →
    P { st with now := now, timeout := timeout, maxIdle := maxIdle, resAlive := res, dirty := dirty }

namespace ClosedIO
variable {P : St → Prop} (c : ClosedIO P)
include c

theorem flushDelayed {st : St} (h : P st) (sid : Nat) : P (st.flushDelayed sid) := by
  unfold St.flushDelayed
  split
  · exact h
  · rename_i s hs
    split
    · exact h
    · split
      · exact h
      · rename_i x hx
        have hx2 : x.2 = sid := by
          have := List.find?_some hx
          simpa using this
        refine c.promote _ _ _ ?_ ?_
        · refine c.benign _ _ _ h ?_
          intro t; exact ⟨rfl, rfl, rfl, rfl⟩
        · obtain ⟨hm, he⟩ := getSess_some hs
          exact live_updSess sid _ (fun _ => rfl) ⟨s, hm, by rw [hx2]; exact he⟩

theorem retransmit {st : St} (h : P st) (x : Holder) : P (st.retransmit x) := by
  unfold St.retransmit
  split
  · split
    · split
      · refine c.mapHolders _ _ ?_ ?_
        · refine c.benign _ _ _ h ?_
          intro s; exact ⟨rfl, rfl, rfl, rfl⟩
        · rename_i hk _ _
          intro y
          by_cases e : y = x
          · subst e; simp [hk, HKind.isAlloc]
          · simp [e]
      · apply c.releaseHolder
        apply c.flushDelayed
        refine c.benign _ _ _ h ?_
        intro s; exact ⟨rfl, rfl, rfl, rfl⟩
    · exact h
  · exact h

theorem reclaimStep {st : St} (h : P st) (now sid : Nat) : P (st.reclaimStep now sid) := by
  unfold St.reclaimStep
  split
  · exact h
  · split
    · exact c.reclaim _ _ h
    · exact c.refRelease _ _ h

theorem notifyOne {st : St} (h : P st) (x : Holder) : P (st.notifyOne x) := by
  unfold St.notifyOne
  split
  · exact h
  · refine c.mapHolders _ _ (c.benign _ _ _ h (fun s => ⟨rfl, rfl, rfl, rfl⟩)) ?_
    intro y
    by_cases e : y = x
    · subst e; simp [setNote_isAlloc]
    · simp [e]

theorem notifyRes {st : St} (h : P st) (k : Nat) : P (st.notifyRes k) :=
  foldl_inv P St.notifyOne (fun _ x ha => c.notifyOne ha x) _ st h

theorem checkNotify {st : St} (h : P st) : P st.checkNotify := by
  unfold St.checkNotify
  have h1 : P ((st.resAlive.filter (· ∈ st.dirty)).foldl St.notifyRes st) :=
    foldl_inv P St.notifyRes (fun _ k ha => c.notifyRes ha k) _ st h
  exact c.misc _ _ _ _ _ [] h1

theorem fireAsync {st : St} (h : P st) (now : Nat) (x : Holder) : P (st.fireAsync now x) := by
  unfold St.fireAsync
  split
  · split
    · apply c.releaseHolder
      refine c.benign _ _ _ (c.misc st _ st.timeout st.maxIdle st.resAlive st.dirty h) ?_
      intro s; dsimp only; split <;> exact ⟨rfl, rfl, rfl, rfl⟩
    · exact h
  · exact h

theorem checkAsync {st : St} (h : P st) (now : Nat) : P (st.checkAsync now) :=
  foldl_inv P _ (fun _ x ha => c.fireAsync ha now x) _ st h

theorem preReclaim {st : St} (h : P st) (now : Nat) : P (st.preReclaim now) := by
  have h0 := c.checkAsync (c.checkNotify h) now
  unfold St.preReclaim
  exact foldl_inv P St.retransmit (fun a x ha => c.retransmit ha x) _ _ h0

theorem reclaimPass {st : St} (h : P st) (now : Nat) : P (st.reclaimPass now) := by
  unfold St.reclaimPass
  apply foldl_inv P
  · intro a ep ha
    exact foldl_inv P _ (fun b sid hb => c.reclaimStep hb now sid) _ a ha
  · exact h

theorem prepareIoAt {st : St} (h : P st) (now : Nat) : P (st.prepareIoAt now) :=
  c.reclaimPass (c.preReclaim h now) now

theorem prepareIo {st : St} (h : P st) : P st.prepareIo := c.prepareIoAt h st.now

theorem getSession {st : St} (h : P st) (p : Peer) (hp : (st.lookup p).isSome ∨ (p.lport, p.proto) ∈ st.eps) :
    P (st.getSession p).1 := by
  unfold St.getSession
  split
  · refine c.benign _ _ _ h ?_
    intro s; exact ⟨rfl, rfl, rfl, rfl⟩
  · rename_i hn
    have hp' : (p.lport, p.proto) ∈ st.eps := by
      rcases hp with hp | hp
      · simp [hn] at hp
      · exact hp
    dsimp only
    split
    · split
      · refine c.newSession _ _ (c.reclaim _ _ h) (Closed.lookup_reclaim_none _ hn) ?_
        rw [Closed.reclaim_eps]; exact hp'
      · exact c.newSession _ _ h hn hp'
    · exact c.newSession _ _ h hn hp'

end ClosedIO

theorem J.closedIO : ClosedIO J where
  benign _ sid f h hf := h.benign sid f hf
  refRelease _ sid h := h.refRelease sid
  releaseHolder h x := h.releaseHolder x
  reclaim _ sid h := h.reclaim sid
  promote _ x due h hl := h.promote x due hl
  newSession _ p h hl hp := h.newSession p hl hp
  mapHolders _ g h hg := h.mapHolders g hg
  misc _ now timeout maxIdle res dirty h := h.misc now timeout maxIdle res dirty

theorem getSession_snd_of_lookup {st : St} {p : Peer} {s : Sess} (h : st.lookup p = some s) :
    (st.getSession p).2 = s.sid := by
  unfold St.getSession; rw [h]

namespace J

/-- what `handle_request` does to the references of the session + the closing release of coap_read_endpoint's bracket -/
theorem serveFree {st : St} (h : J st) (sid : Nat) (r : Req) (hl : ∃ s ∈ st.sessions, s.sid = sid) :
    J ((st.serve sid r).clientFree sid) := by
  unfold St.serve
  cases r with
  | plain => exact h.clientFree sid
  | obsReg k q tok =>
    dsimp only
    split
    · unfold St.addObserver
      split
      · exact h.clientFree sid
      · split
        · rename_i old ho
          have e : old.sid = sid := (findHolder_some ho).2.1
          apply J.clientFree
          rw [← e]
          exact h.swapHolder old _ (by rw [e]; exact hl)
        · exact (h.addHolder _ _ hl).clientFree sid
    · exact h.clientFree sid
  | obsDereg k q tok =>
    dsimp only
    unfold St.delObserverReq
    split
    · rename_i x hx
      have e : x.sid = sid := (findHolder_some hx).2.1
      rw [← e]; exact h.releaseHolder x
    · split
      · rename_i x hx
        have e : x.sid = sid := (findHolder_some hx).2.1
        rw [← e]; exact h.releaseHolder x
      · exact h.clientFree sid
  | async =>
    dsimp only
    split
    · exact h.clientFree sid
    · exact (h.addHolder _ _ hl).clientFree sid
  | slow d dur =>
    dsimp only
    split
    · exact h.clientFree sid
    · exact (h.addHolder _ _ hl).clientFree sid

/-- the same on a session that is not a client session (a message on a stream: no closing free test) -/
theorem serveNC {st : St} (h : J st) (sid : Nat) (r : Req) (hl : ∃ s ∈ st.sessions, s.sid = sid)
    (hn : ∀ s ∈ st.sessions, s.sid = sid → s.client = false) : J (st.serve sid r) := by
  unfold St.serve
  cases r with
  | plain => exact h
  | obsReg k q tok =>
    dsimp only
    split
    · unfold St.addObserver
      split
      · exact h
      · split
        · rename_i old ho
          have e : old.sid = sid := (findHolder_some ho).2.1
          rw [← e]
          exact h.swapHolder old _ (by rw [e]; exact hl)
        · exact h.addHolder _ _ hl
    · exact h
  | obsDereg k q tok =>
    dsimp only
    unfold St.delObserverReq
    split
    · rename_i x hx
      exact h.dropHolderNC x (by rw [(findHolder_some hx).2.1]; exact hn)
    · split
      · rename_i x hx
        exact h.dropHolderNC x (by rw [(findHolder_some hx).2.1]; exact hn)
      · exact h
  | async =>
    dsimp only
    split
    · exact h
    · exact h.addHolder _ _ hl
  | slow d dur =>
    dsimp only
    split
    · exact h
    · exact h.addHolder _ _ hl

/-- a session of a stream peer is not a client session — also after a benign update -/
theorem nonclient_of_reliable {st : St} (h : J st) {s : Sess} (hm : s ∈ st.sessions) (hr : s.peer.reliable = true)
    (sid : Nat) (f : Sess → Sess) (hf : BenignC f) :
    ∀ t ∈ (st.updSess sid f).sessions, t.sid = s.sid → t.client = false := by
  intro t ht e
  obtain ⟨s0, hs0, e0⟩ := mem_updSess.mp ht
  have h2 : t.sid = s0.sid ∧ t.client = s0.client := by
    by_cases c : s0.sid = sid
    · rw [if_pos c] at e0; subst e0; exact ⟨(hf s0).1, (hf s0).2.2.2⟩
    · rw [if_neg c] at e0; subst e0; exact ⟨rfl, rfl⟩
  have h3 : s0 = s := by
    have a := getSess_of_mem h.I.S hs0
    have b := getSess_of_mem h.I.S hm
    rw [← h2.1, e, b] at a
    exact (Option.some.inj a).symm
  rw [h2.2, h3]
  cases hc : s.client with
  | false => rfl
  | true => have := (h.C s hm hc).2; rw [hr] at this; exact absurd this (by decide)

/-- coap_session_disconnected_lkd on a session that keeps a holder which is neither an observation nor a queued
    message (D17: on a client session, the application's reference) -/
theorem disconnectSess {st : St} (h : J st) {s : Sess} (hm : s ∈ st.sessions)
    (hg : s.client = true → ∃ g ∈ st.holders, g.sid = s.sid ∧ isAnyObs g.kind = false ∧ isNode g.kind = false) :
    J (st.disconnectSess s) := by
  have hI : Inv (st.disconnectSess s) := Inv.closed.disconnectSess h.I s
  refine ⟨hI, ?_⟩
  intro t ht hc
  unfold St.disconnectSess at ht
  dsimp only at ht
  obtain ⟨t3, ht3, p3, c3, i3, r3⟩ := mem_dropHolders (k := s.sid) _ _ t
    (fun x hx => by have := (List.mem_filter.mp hx).2; simp at this; exact this.1) ht
  have ht2 : t3 ∈ ((st.dropHolders (st.holdersOf s.sid isAnyObs)).updSess s.sid fun t =>
      { t with conActive := 0, delayq := 0, closed := t.closed || s.peer.reliable, pend := 0 }).sessions := ht3
  obtain ⟨t1, ht1, e1⟩ := mem_updSess.mp ht2
  have h1 : t1.peer = t3.peer ∧ t1.client = t3.client ∧ t1.sid = t3.sid ∧ t1.ref = t3.ref := by
    by_cases c : t1.sid = s.sid
    · rw [if_pos c] at e1; subst e1; exact ⟨rfl, rfl, rfl, rfl⟩
    · rw [if_neg c] at e1; subst e1; exact ⟨rfl, rfl, rfl, rfl⟩
  obtain ⟨t0, ht0, p0, c0, i0, r0⟩ := mem_dropHolders (k := s.sid) _ _ t1
    (fun x hx => by have := (List.mem_filter.mp hx).2; simp at this; exact this.1) ht1
  have hcl : t0.client = true := by rw [c0, h1.2.1, c3]; exact hc
  have hs0 := h.C t0 ht0 hcl
  refine ⟨?_, by rw [← p3, ← h1.1, ← p0]; exact hs0.2⟩
  by_cases e : t.sid = s.sid
  · -- the session itself: the application's reference is still there
    have h3 : t0 = s := by
      have a := getSess_of_mem h.I.S ht0
      have b := getSess_of_mem h.I.S hm
      rw [i0, h1.2.2.1, i3, e, b] at a
      exact (Option.some.inj a).symm
    obtain ⟨g, hgm, gs, go, gn⟩ := hg (by rw [← h3]; exact hcl)
    have hk1 : g ∈ (st.dropHolders (st.holdersOf s.sid isAnyObs)).holders :=
      holders_dropHolders_keep _ _ hgm (fun hx => by
        have := (List.mem_filter.mp hx).2; simp [go] at this)
    have hk2 : g ∈ (st.disconnectSess s).holders := by
      unfold St.disconnectSess
      dsimp only
      refine holders_dropHolders_keep _ _ hk1 (fun hx => ?_)
      have := (List.mem_filter.mp hx).2; simp [gn] at this
    have hmem : t ∈ (st.disconnectSess s).sessions := by
      unfold St.disconnectSess; dsimp only; exact ht
    have hr := hI.H.ref t hmem
    by_cases z : t.ref = 0
    · rw [z] at hr
      have := (holds_zero_iff _ _).mp hr.symm g hk2
      exact absurd (gs.trans e.symm) this
    · omega
  · rw [r3 e, ← h1.2.2.2, r0 (by rw [h1.2.2.1, i3]; exact e)]; exact hs0.1

end J


theorem isApp_not {k : HKind} (h : isApp k = true) : isAnyObs k = false ∧ isNode k = false := by
  cases k <;> simp_all [isApp, isAnyObs, isNode]

theorem isHome_not {k : HKind} (h : isHome k = true) : isAnyObs k = false ∧ isNode k = false := by
  cases k <;> simp_all [isHome, isAnyObs, isNode]

namespace J

/-- RST of a notification (the bracket `reference … release` of coap_dispatch cancels) + the closing release of
    coap_read_endpoint's bracket = ONE whole coap_session_release_lkd of the observation -/
theorem rstNoteFree {st : St} (h : J st) (sid n : Nat) : J ((st.rstNote sid n).clientFree sid) := by
  unfold St.rstNote
  split
  · rename_i x hx
    rw [rstCancel_eq st sid x (findHolder_some hx).1, ← (findHolder_some hx).2.1]
    exact h.releaseHolder x
  · exact h.clientFree sid

/-- coap_session_set_type_client on a datagram server session: `reference; type = CLIENT` -/
theorem callHome {st : St} (h : J st) {s : Sess} (hm : s ∈ st.sessions) (hr : s.peer.reliable = false) :
    J ((st.updSess s.sid fun t => { t with client := true }).addHolder s.sid .home) := by
  refine ⟨Inv.closed.addHolder _ _ _ (Inv.closed.benign _ _ _ h.I (fun t => ⟨rfl, rfl, rfl⟩))
    (live_updSess s.sid _ (fun _ => rfl) ⟨s, hm, rfl⟩), ?_⟩
  intro t ht hc
  have ht' : t ∈ ((st.updSess s.sid fun t => { t with client := true }).updSess s.sid Sess.reference).sessions := ht
  obtain ⟨t1, ht1, e1⟩ := mem_updSess.mp ht'
  obtain ⟨s0, hs0, e0⟩ := mem_updSess.mp ht1
  by_cases c : s0.sid = s.sid
  · have h3 : s0 = s := by
      have a := getSess_of_mem h.I.S hs0
      have b := getSess_of_mem h.I.S hm
      rw [c, b] at a
      exact (Option.some.inj a).symm
    rw [if_pos c] at e0; subst e0
    rw [if_pos c] at e1; subst e1
    exact ⟨Nat.le_add_left 1 _, by rw [← h3] at hr; exact hr⟩
  · rw [if_neg c] at e0; subst e0
    rw [if_neg c] at e1; subst e1
    exact h.C _ hs0 hc

/-- coap_free_context_lkd from the endpoints on: no session is left -/
theorem teardownFrom {st3 : St} (h3 : Inv st3) :
    J { ((st3.eps.foldl St.freeEndpoint st3).freeObjs (st3.eps.foldl St.freeEndpoint st3).ctxObjs) with
        ctxObjs := [], resAlive := [], freed := true } := by
  refine ⟨Inv.closed.teardownEnd _ (foldl_inv Inv _ (fun a ep ha => Inv.closed.freeEndpoint ha ep) _ _ h3), ?_⟩
  intro t ht
  have ht' : t ∈ (st3.eps.foldl St.freeEndpoint st3).sessions := ht
  rw [(freeEndpoints_empty h3).1] at ht'
  exact absurd ht' List.not_mem_nil

/-- the invariant is closed under every event of a history -/
theorem step {st : St} (h : J st) (e : Event) : J (st.step e).1 := by
  have cio := J.closedIO
  unfold St.step
  split
  · exact h
  · cases e with
    | rx p r =>
      dsimp only
      split
      · exact h
      · rename_i hs
        split
        · rename_i hrel
          split
          · exact h
          · rename_i s hl
            obtain ⟨hm, hpe⟩ := lookup_some hl
            split
            · exact h
            · dsimp only
              apply cio.prepareIo
              refine J.serveNC ?_ _ r ?_ ?_
              · exact J.benign h _ _ (fun t => ⟨rfl, rfl, rfl, rfl⟩)
              · exact live_updSess s.sid _ (fun _ => rfl) ⟨s, hm, rfl⟩
              · exact h.nonclient_of_reliable hm (by rw [hpe]; exact hrel) _ _ (fun t => ⟨rfl, rfl, rfl, rfl⟩)
        · exact cio.prepareIo
            (J.serveFree (cio.getSession h p (Or.inr (rxSkip_false_eps hs))) _ r (getSession_live st p))
    | rst p =>
      dsimp only
      split
      · exact h
      · rename_i s hs
        split
        · exact h
        · rename_i x hx
          dsimp only
          apply cio.prepareIo
          have e : (st.getSession p).2 = x.sid := by
            rw [getSession_snd_of_lookup hs, (findHolder_some hx).2.1]
          rw [e]
          show J (St.releaseHolder _ x)
          apply J.releaseHolder
          apply cio.flushDelayed
          refine J.benign (cio.getSession h p (Or.inl (by simp [hs]))) _ _ ?_
          intro s; exact ⟨rfl, rfl, rfl, rfl⟩
    | ack p bad =>
      dsimp only
      split
      · exact h
      · rename_i s hs
        split
        · exact h
        · rename_i x hx
          dsimp only
          apply cio.prepareIo
          have e : (st.getSession p).2 = x.sid := by
            rw [getSession_snd_of_lookup hs, (findHolder_some hx).2.1]
          rw [e]
          show J (St.releaseHolder _ x)
          apply J.releaseHolder
          apply cio.flushDelayed
          refine J.benign (cio.getSession h p (Or.inl (by simp [hs]))) _ _ ?_
          intro s; exact ⟨rfl, rfl, rfl, rfl⟩
    | sendCon p =>
      dsimp only
      split
      · exact h
      · rename_i s hs
        obtain ⟨hm, _⟩ := lookup_some hs
        split
        · exact h
        · split
          · dsimp only
            refine J.addPartial ?_ _ ?_
            · exact J.benign h _ _ (fun t => ⟨rfl, rfl, rfl, rfl⟩)
            · exact live_updSess s.sid _ (fun _ => rfl) ⟨s, hm, rfl⟩
          · dsimp only
            refine J.addHolder ?_ _ _ ?_
            · exact J.benign h _ _ (fun t => ⟨rfl, rfl, rfl, rfl⟩)
            · exact live_updSess s.sid _ (fun _ => rfl) ⟨s, hm, rfl⟩
    | ping p =>
      dsimp only
      split
      · exact h
      · rename_i s hs
        split
        · exact h
        · obtain ⟨hm, _⟩ := lookup_some hs
          dsimp only
          refine J.addHolder ?_ _ _ ?_
          · exact J.benign h _ _ (fun t => ⟨rfl, rfl, rfl, rfl⟩)
          · exact live_updSess s.sid _ (fun _ => rfl) ⟨s, hm, rfl⟩
    | asyncFree p =>
      dsimp only
      split
      · exact h
      · split
        · exact h
        · exact h.releaseHolder _
    | appRef p =>
      dsimp only
      split
      · exact h
      · rename_i s hs
        obtain ⟨hm, _⟩ := lookup_some hs
        dsimp only
        exact h.addHolder s.sid _ ⟨s, hm, rfl⟩
    | appRelease p =>
      dsimp only
      split
      · exact h
      · split
        · exact h
        · exact h.releaseHolder _
    | disconnect p =>
      dsimp only
      split
      · exact h
      · rename_i s hs
        obtain ⟨hm, _⟩ := lookup_some hs
        split
        · exact h
        · rename_i hg
          refine J.disconnectSess h hm ?_
          intro hc
          cases ha : st.findHolder s.sid isApp with
          | some g =>
            obtain ⟨g1, g2, g3⟩ := findHolder_some ha
            exact ⟨g, g1, g2, isApp_not g3⟩
          | none =>
            cases hb : st.findHolder s.sid isHome with
            | some g =>
              obtain ⟨g1, g2, g3⟩ := findHolder_some hb
              exact ⟨g, g1, g2, isHome_not g3⟩
            | none => exact absurd (by simp [hc, ha, hb]) hg
    | callHome p =>
      dsimp only
      split
      · exact h
      · rename_i s hs
        split
        · exact h
        · rename_i hg
          obtain ⟨hm, hpe⟩ := lookup_some hs
          dsimp only
          refine J.callHome h hm ?_
          rw [hpe]
          cases hq : p.reliable with
          | false => rfl
          | true => simp [hq] at hg
    | endCallHome p =>
      dsimp only
      split
      · exact h
      · rename_i s hs
        split
        · exact h
        · rename_i x hx
          rw [← (findHolder_some hx).2.1]
          exact h.releaseHolder x
    | connect p =>
      dsimp only
      split
      · exact h
      · rename_i hc
        split
        · exact h
        · rename_i hl
          have hep : (p.lport, p.proto) ∈ st.eps := by
            simp only [Bool.or_eq_true, Bool.not_eq_true', decide_eq_false_iff_not, not_or, Decidable.not_not] at hc
            exact hc.2
          dsimp only
          apply cio.prepareIo
          refine J.benign (cio.prepareIo (h.newSession p hl hep)) _ _ ?_
          intro t; exact ⟨rfl, rfl, rfl, rfl⟩
    | partialRx p n =>
      dsimp only
      split
      · exact h
      · rename_i s hl
        obtain ⟨hm, _⟩ := lookup_some hl
        split
        · exact h
        · dsimp only
          apply cio.prepareIo
          have h1 : J (st.updSess s.sid fun t => { t with last := st.now, pend := n }) :=
            h.benign _ _ (fun t => ⟨rfl, rfl, rfl, rfl⟩)
          split
          · exact h1.addPartial _ (live_updSess s.sid _ (fun _ => rfl) ⟨s, hm, rfl⟩)
          · exact h1
    | restRx p =>
      dsimp only
      split
      · exact h
      · split
        · exact h
        · dsimp only
          apply cio.prepareIo
          apply J.dropPartial
          exact h.benign _ _ (fun t => ⟨rfl, rfl, rfl, rfl⟩)
    | peerClose p =>
      dsimp only
      split
      · exact h
      · rename_i s hs
        obtain ⟨hm, hpe⟩ := lookup_some hs
        split
        · exact h
        · rename_i hg
          have hrel : s.peer.reliable = true := by
            rw [hpe]
            cases hq : p.reliable with
            | true => rfl
            | false => simp [hq] at hg
          refine cio.prepareIo (J.disconnectSess h hm ?_)
          intro hc
          have := (h.C s hm hc).2
          rw [hrel] at this
          exact absurd this (by decide)
    | delResource k =>
      dsimp only
      split
      · dsimp only
        have h1 : J ((st.holders.filter fun h => isObs k h.kind).foldl
            (fun acc h => (acc.updSess h.sid fun t => { t with last := st.now, notes := t.notes + 1 }).releaseHolder h) st) := by
          apply foldl_inv J
          · intro a x ha
            apply J.releaseHolder
            refine J.benign ha _ _ ?_
            intro s; exact ⟨rfl, rfl, rfl, rfl⟩
          · exact h
        exact h1.misc _ _ _ _ _
      · exact h
    | changed k =>
      dsimp only
      split
      · split
        · exact h.misc st.now st.timeout st.maxIdle st.resAlive _
        · exact h
      · exact h
    | noteRst p j =>
      dsimp only
      split
      · exact h
      · rename_i s hs
        split
        · dsimp only
          apply cio.prepareIo
          exact J.rstNoteFree (cio.getSession h p (Or.inl (by simp [hs]))) _ _
        · exact h
    | noteAck p j =>
      dsimp only
      split
      · exact h
      · rename_i s hs
        split
        · exact cio.prepareIo (J.clientFree (cio.getSession h p (Or.inl (by simp [hs]))) _)
        · exact h
    | advance d => exact h.misc (st.now + d) st.timeout st.maxIdle st.resAlive st.dirty
    | io => exact cio.prepareIo h
    | ioStale d => exact cio.prepareIoAt h _
    | setMaxIdle n => exact h.misc st.now st.timeout n st.resAlive st.dirty
    | setTimeout n => exact h.misc st.now n st.maxIdle st.resAlive st.dirty
    | ownClient k => exact ⟨Inv.closed.newOwned st h.I, h.C.congr rfl⟩
    | freeContext =>
      dsimp only
      apply J.teardownFrom
      exact Inv.closed.releaseHolders (Inv.closed.releaseHolders (Inv.closed.releaseHolders h.I _) _) _

theorem init (eps : List (Nat × Nat)) (nres : Nat) : J (St.init eps nres) :=
  ⟨Inv.init eps nres, fun s hs => by simp [St.init] at hs⟩

theorem run (eps : List (Nat × Nat)) (nres : Nat) (es : List Event) : J ((St.init eps nres).run es) :=
  foldl_inv J _ (fun _ e ha => ha.step e) es _ (J.init eps nres)

end J

end Coap.Sessions
