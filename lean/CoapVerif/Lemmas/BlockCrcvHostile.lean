import CoapVerif.Lemmas.BlockCrcv
/- C09 / C02, client side, Block2, single-body mode against a HOSTILE server: for EVERY sequence of responses — any NUM, M,
   SZX (changing in mid-transfer), Size2 (absent, too small, too large, different on every response), ETag,
   Content-Format, payload length — whatever body `crcvStep` hands to the response handler consists of bytes the server
   sent for exactly those offsets; no byte of the buffer that was never written (`junk`) is ever delivered.
   Rests on the three fixes a8ffb89 (SZX change → 4.08), 0b3fb08 (coap_block_build_body never shrinks), 2e4f34e (a short
   block that is not the end of the body → 4.08, blocks forgotten).  Core Lean only. -/
set_option linter.unusedSimpArgs false
set_option linter.unusedVariables false
namespace Coap.Block
open Coap.Spec.Block

/-- response `r` carries byte `v` for offset `o` of the body: it has a Block2 option (NUM, _, SZX), `o` lies in that
block and the payload holds `v` at `o - NUM * 2^(SZX+4)` -/
def SentAt (r : Resp) (o : Nat) (v : UInt8) : Prop :=
  ∃ num m szx, r.blk = some (num, m, szx) ∧ num * 2 ^ (szx + 4) ≤ o ∧ o < num * 2 ^ (szx + 4) + 2 ^ (szx + 4) ∧
    r.payload[o - num * 2 ^ (szx + 4)]? = some v

/-- some response of `hist` carries byte `v` for offset `o` -/
def SentIn (hist : List Resp) (o : Nat) (v : UInt8) : Prop := ∃ r, r ∈ hist ∧ SentAt r o v

theorem SentIn_cons (r : Resp) (hist : List Resp) (o : Nat) (v : UInt8) (h : SentIn hist o v) : SentIn (r :: hist) o v := by
  obtain ⟨r', hr', hs⟩ := h
  exact ⟨r', List.mem_cons_of_mem _ hr', hs⟩

theorem SentIn_mono (h1 h2 : List Resp) (o : Nat) (v : UInt8) (hsub : ∀ r, r ∈ h1 → r ∈ h2) (h : SentIn h1 o v) :
    SentIn h2 o v := by
  obtain ⟨r', hr', hs⟩ := h
  exact ⟨r', hsub r' hr', hs⟩

/-- The (initialised) lg_crcv in single-body mode against ANY server: ranges well formed, and every byte of every
recorded block is in the buffer and was sent by the server for that offset (in `hist`).  Nothing is assumed about a
"true" body. -/
structure HInv (cap : Nat) (hist : List Resp) (s : Crcv) : Prop where
  wf : WfFrom 0 s.recv
  cnt : s.recv.length ≤ cap - 1
  buf : match s.body with
        | none => s.recv = []
        | some b => ∀ k, Covers s.recv k → ∀ i, i < chunkSize s.szx →
            ∃ v, b[k * chunkSize s.szx + i]? = some v ∧ SentIn hist (k * chunkSize s.szx + i) v

theorem HInv_cons (cap : Nat) (hist : List Resp) (r : Resp) (s : Crcv) (h : HInv cap hist s) : HInv cap (r :: hist) s := by
  refine { wf := h.wf, cnt := h.cnt, buf := ?_ }
  have hb := h.buf
  cases hbody : s.body with
  | none => rw [hbody] at hb; exact hb
  | some b =>
    rw [hbody] at hb
    simp only at hb ⊢
    intro k hk i hi
    obtain ⟨v, h1, h2⟩ := hb k hk i hi
    exact ⟨v, h1, SentIn_cons r hist _ v h2⟩

/-- `check_all_blocks_in` says yes only if every block below the total is recorded (no hypothesis on the members) -/
theorem checkAllBlocksIn_covers (rs : Ranges) (t : Nat) (hw : WfFrom 0 rs) (hne : rs ≠ [])
    (h : checkAllBlocksIn rs t = true) : ∀ k, k < t → Covers rs k := by
  match rs, hw, hne with
  | [], _, hne => exact (hne rfl).elim
  | (b, e) :: rest, hw, _ =>
    obtain ⟨_, h2, h3⟩ := hw
    unfold checkAllBlocksIn allInLoop at h
    by_cases hb : 0 < b
    · rw [if_pos hb] at h; cases h
    · rw [if_neg hb] at h
      have hb0 : b = 0 := by omega
      subst hb0
      have hblk : (if 0 < e then e else 0) = e := by
        by_cases he : 0 < e
        · rw [if_pos he]
        · rw [if_neg he]; omega
      rw [hblk] at h
      match rest, h3 with
      | [], _ =>
        simp only [allInLoop] at h
        have hh : ¬ (e + 1 < t) := by simpa using h
        intro k hk
        rw [covers_cons]
        exact Or.inl ⟨Nat.zero_le _, by omega⟩
      | (b2, e2) :: rest2, h3 =>
        obtain ⟨g1, _, _⟩ := h3
        have : e < b2 := by omega
        simp only [allInLoop, this, if_true] at h
        cases h

theorem crcvSize2_ge (sz : Option Nat) (m e : Nat) : e ≤ crcvSize2 sz m e := by
  have key : ∀ s0 : Nat, e ≤ (if s0 < e then (if m ≠ 0 then e + 1 else e) else s0) := by
    intro s0
    by_cases h : s0 < e
    · rw [if_pos h]
      by_cases hm : m ≠ 0
      · rw [if_pos hm]; omega
      · rw [if_neg hm]; omega
    · rw [if_neg h]; omega
  unfold crcvSize2
  cases sz with
  | none => exact key 0
  | some s => exact key s

/-- block `k ≠ num` (any `i` inside it) lies outside the bytes `[num * c, num * c + dlen)` of block `num` -/
theorem other_block_outside (c k num i dlen : Nat) (hi : i < c) (hd : dlen ≤ c) (hne : k ≠ num) :
    ¬ (num * c ≤ k * c + i ∧ k * c + i < num * c + dlen) := by
  intro hh
  rcases Nat.lt_or_gt_of_ne hne with hlt | hgt
  · have h1 : (k + 1) * c ≤ num * c := Nat.mul_le_mul_right c (by omega)
    rw [Nat.succ_mul] at h1
    omega
  · have h1 : (num + 1) * c ≤ k * c := Nat.mul_le_mul_right c (by omega)
    rw [Nat.succ_mul] at h1
    omega

/-- from the Content-Format test to the end, single-body mode, ANY block meeting an initialised lg_crcv -/
theorem crcvStore_hostile (cap : Nat) (junk : UInt8) (hist : List Resp) (r : Resp) (lg : Crcv) (num m szx : Nat)
    (data : Bytes) (size2 fmt : Nat) (st' : Option Crcv) (out : CrcvOut)
    (hinv : HInv cap hist lg) (hblk : r.blk = some (num, m, szx))
    (hdata : data = r.payload.take (2 ^ (szx + 4))) (hpos : 0 < data.length)
    (hm : m ≠ 0 → data.length = 2 ^ (szx + 4)) (hs : num * 2 ^ (szx + 4) + data.length ≤ size2)
    (h : crcvStore true cap junk lg num m szx r.payload data (num * 2 ^ (szx + 4)) size2 fmt = (st', out)) :
    (∀ s', st' = some s' → s'.initial = false → HInv cap (r :: hist) s') ∧
    (∀ d l, out = CrcvOut.body d l → l ≤ d.length ∧ ∀ o, o < l → ∃ v, d[o]? = some v ∧ SentIn (r :: hist) o v) := by
  have hinv' := HInv_cons cap hist r lg hinv
  have same : ∀ o : CrcvOut, (o = CrcvOut.err408 ∨ o = CrcvOut.skip) → (st', out) = (some lg, o) →
      (∀ s', st' = some s' → s'.initial = false → HInv cap (r :: hist) s') ∧
      (∀ d l, out = CrcvOut.body d l → l ≤ d.length ∧ ∀ o, o < l → ∃ v, d[o]? = some v ∧ SentIn (r :: hist) o v) := by
    intro o ho heq
    cases heq
    refine ⟨?_, ?_⟩
    · intro s' hs' _; cases hs'; exact hinv'
    · intro d l hb; rcases ho with ho | ho <;> (rw [ho] at hb; cases hb)
  unfold crcvStore at h
  dsimp only at h
  by_cases hf : fmt ≠ lg.fmt
  · rw [if_pos hf] at h
    exact same _ (Or.inl rfl) h.symm
  rw [if_neg hf] at h
  by_cases hsz : szx ≠ lg.szx
  · rw [if_pos hsz] at h
    exact same _ (Or.inl rfl) h.symm
  rw [if_neg hsz] at h
  have hszx : szx = lg.szx := by
    apply Classical.byContradiction; intro hh; exact hsz hh
  subst hszx
  have hcs : 2 ^ (lg.szx + 4) = chunkSize lg.szx := rfl
  rw [hcs] at h hdata hm hs
  have hc := chunk_pos lg.szx
  have hdl : data.length ≤ chunkSize lg.szx := by
    rw [hdata, List.length_take]; exact Nat.min_le_left _ _
  by_cases hrcv : checkIfReceived lg.recv num = true
  · rw [if_pos hrcv] at h
    exact same _ (Or.inr rfl) h.symm
  rw [if_neg hrcv] at h
  have hncov : ¬ Covers lg.recv num := fun hcv => hrcv ((checkIfReceived_iff lg.recv 0 num hinv.wf).mpr hcv)
  have hus := updateReceived_spec cap lg.recv num hinv.wf hinv.cnt
  cases hu : updateReceived cap lg.recv num with
  | mk ok rec' =>
    rw [hu] at h hus
    cases ok with
    | false =>
      simp only at h
      exact same _ (Or.inl rfl) h.symm
    | true =>
      simp only [if_true] at h
      obtain ⟨w1, w2, w3⟩ := hus.2 rfl
      simp only at w1 w2 w3
      have hne : rec' ≠ [] := by
        intro he
        have : Covers rec' num := (w3 num).mpr (Or.inr rfl)
        rw [he] at this
        exact (covers_nil num).mp this
      obtain ⟨b', hb1, hb2, hb3, hb4, hb5, hb6⟩ :=
        buildBody_spec2 junk lg.body data (num * chunkSize lg.szx) size2 hpos hs
      rw [hb1] at h
      simp only at h
      -- the bytes of this block, as far as the payload goes
      have hnew : ∀ i, i < data.length →
          ∃ v, b'[num * chunkSize lg.szx + i]? = some v ∧ SentIn (r :: hist) (num * chunkSize lg.szx + i) v := by
        intro i hi
        have hget := hb5 (num * chunkSize lg.szx + i) (by omega) (by omega)
        have hsub : num * chunkSize lg.szx + i - num * chunkSize lg.szx = i := by omega
        rw [hsub] at hget
        refine ⟨data[i], by rw [hget]; exact List.getElem?_eq_getElem hi, r, List.mem_cons_self, num, m, lg.szx, hblk, ?_, ?_, ?_⟩
        · rw [hcs]; omega
        · rw [hcs]; omega
        · rw [hcs, hsub]
          have e1 : data[i]? = (r.payload.take (chunkSize lg.szx))[i]? := by rw [← hdata]
          rw [List.getElem?_take, if_pos (by omega)] at e1
          rw [← e1]
          exact List.getElem?_eq_getElem hi
      -- the bytes of the blocks recorded before stay
      have hold : ∀ k, Covers lg.recv k → ∀ i, i < chunkSize lg.szx →
          ∃ v, b'[k * chunkSize lg.szx + i]? = some v ∧ SentIn (r :: hist) (k * chunkSize lg.szx + i) v := by
        intro k hk i hi
        have hkn : k ≠ num := fun hh => hncov (hh ▸ hk)
        have hbuf := hinv'.buf
        cases hbody : lg.body with
        | none =>
          rw [hbody] at hbuf
          simp only at hbuf
          rw [hbuf] at hk
          exact ((covers_nil k).mp hk).elim
        | some b =>
          rw [hbody] at hbuf
          simp only at hbuf
          obtain ⟨v, h1, h2⟩ := hbuf k hk i hi
          have hil : k * chunkSize lg.szx + i < b.length := by
            apply Classical.byContradiction
            intro hh
            have : b[k * chunkSize lg.szx + i]? = none := by rw [List.getElem?_eq_none_iff]; omega
            rw [this] at h1
            cases h1
          refine ⟨v, ?_, h2⟩
          rw [hb6 b hbody _ hil (other_block_outside _ _ _ _ _ hi hdl hkn)]
          exact h1
      -- a full block: the invariant holds for the new state
      have hfull : data.length = chunkSize lg.szx →
          HInv cap (r :: hist) { lg with recv := rec', body := some b' } := by
        intro hfl
        refine { wf := w1, cnt := w2, buf := ?_ }
        simp only
        intro k hk i hi
        rcases (w3 k).mp hk with hk | hk
        · exact hold k hk i hi
        · subst hk
          exact hnew i (by omega)
      by_cases hcont : m ≠ 0 ∨ ¬ checkAllBlocksIn rec' ((size2 + chunkSize lg.szx - 1) / chunkSize lg.szx) = true
      · rw [if_pos hcont] at h
        by_cases hm0 : m ≠ 0
        · rw [if_pos hm0] at h
          cases h
          refine ⟨?_, fun d l hb => (by cases hb)⟩
          intro s' hs' _
          cases hs'
          exact hfull (hm hm0)
        · rw [if_neg hm0] at h
          by_cases hsh : data.length % chunkSize lg.szx ≠ 0
          · rw [if_pos hsh] at h
            cases h
            refine ⟨?_, fun d l hb => (by cases hb)⟩
            intro s' hs' hi
            cases hs'
            cases hi
          · rw [if_neg hsh] at h
            cases h
            refine ⟨?_, fun d l hb => (by cases hb)⟩
            intro s' hs' _
            cases hs'
            apply hfull
            -- 0 < length ≤ chunk and length % chunk = 0
            have hmod : data.length % chunkSize lg.szx = 0 := by
              apply Classical.byContradiction; intro hh; exact hsh hh
            rcases Nat.lt_or_ge data.length (chunkSize lg.szx) with hlt | hge
            · rw [Nat.mod_eq_of_lt hlt] at hmod; omega
            · omega
      · rw [if_neg hcont] at h
        cases h
        have hall : checkAllBlocksIn rec' ((size2 + chunkSize lg.szx - 1) / chunkSize lg.szx) = true := by
          cases hx : checkAllBlocksIn rec' ((size2 + chunkSize lg.szx - 1) / chunkSize lg.szx) with
          | true => rfl
          | false => exact (hcont (Or.inr (by rw [hx]; decide))).elim
        have hcov := checkAllBlocksIn_covers rec' _ w1 hne hall
        refine ⟨fun s' hs' => (by cases hs'), ?_⟩
        intro d l hb
        cases hb
        simp only [Option.getD_some]
        refine ⟨hb2, ?_⟩
        intro o ho
        by_cases hlow : o < num * chunkSize lg.szx
        · -- a byte of an earlier block
          have hdm := Nat.div_add_mod o (chunkSize lg.szx)
          have hml := Nat.mod_lt o hc
          rw [Nat.mul_comm] at hdm
          have hk : o / chunkSize lg.szx < num := (Nat.div_lt_iff_lt_mul hc).mpr hlow
          have hkT : o / chunkSize lg.szx < (size2 + chunkSize lg.szx - 1) / chunkSize lg.szx := by
            apply (Nat.le_div_iff_mul_le hc).mpr
            have h1 : (o / chunkSize lg.szx + 1) * chunkSize lg.szx ≤ num * chunkSize lg.szx :=
              Nat.mul_le_mul_right _ (by omega)
            exact Nat.le_trans h1 (by omega)
          rcases (w3 _).mp (hcov _ hkT) with hk' | hk'
          · have := hold _ hk' (o % chunkSize lg.szx) hml
            rw [hdm] at this
            exact this
          · omega
        · have := hnew (o - num * chunkSize lg.szx) (by omega)
          have hsub : num * chunkSize lg.szx + (o - num * chunkSize lg.szx) = o := by omega
          rw [hsub] at this
          exact this

/-- "if (have_block && (block.m || length))" … single-body mode, ANY block meeting an lg_crcv that is initial or consistent -/
theorem crcvBlock_hostile (cap : Nat) (junk : UInt8) (hist : List Resp) (r : Resp) (lg : Crcv) (num m szx : Nat)
    (st' : Option Crcv) (out : CrcvOut)
    (hlg : lg.initial = false → HInv cap hist lg) (hblk : r.blk = some (num, m, szx))
    (hne : m ≠ 0 ∨ r.payload.length ≠ 0)
    (h : crcvBlock true cap junk lg num m szx r = (st', out)) :
    (∀ s', st' = some s' → s'.initial = false → HInv cap (r :: hist) s') ∧
    (∀ d l, out = CrcvOut.body d l → l ≤ d.length ∧ ∀ o, o < l → ∃ v, d[o]? = some v ∧ SentIn (r :: hist) o v) := by
  have hc : 0 < 2 ^ (szx + 4) := Nat.two_pow_pos _
  unfold crcvBlock at h
  dsimp only at h
  have hdata : (if r.payload.length > 2 ^ (szx + 4) then r.payload.take (2 ^ (szx + 4)) else r.payload) =
      r.payload.take (2 ^ (szx + 4)) := by
    by_cases hl : r.payload.length > 2 ^ (szx + 4)
    · rw [if_pos hl]
    · rw [if_neg hl, List.take_of_length_le (by omega)]
  rw [hdata] at h
  generalize hdd : r.payload.take (2 ^ (szx + 4)) = data at h
  by_cases hund : m ≠ 0 ∧ data.length ≠ 2 ^ (szx + 4)
  · rw [if_pos hund] at h
    cases h
    exact ⟨fun s' hs' => (by cases hs'), fun d l hb => (by cases hb)⟩
  rw [if_neg hund] at h
  by_cases hlastnum : m ≠ 0 ∧ 0xFFFFF ≤ num
  · rw [if_pos hlastnum] at h
    cases h
    exact ⟨fun s' hs' => (by cases hs'), fun d l hb => (by cases hb)⟩
  rw [if_neg hlastnum] at h
  have hm : m ≠ 0 → data.length = 2 ^ (szx + 4) := by
    intro hm0
    apply Classical.byContradiction
    intro hh
    exact hund ⟨hm0, hh⟩
  have hpos : 0 < data.length := by
    by_cases hm0 : m ≠ 0
    · rw [hm hm0]; exact hc
    · have hp : r.payload.length ≠ 0 := by
        rcases hne with hne | hne
        · exact (hm0 hne).elim
        · exact hne
      rw [← hdd, List.length_take]
      omega
  have hs := crcvSize2_ge r.size2 m (num * 2 ^ (szx + 4) + data.length)
  generalize crcvSize2 r.size2 m (num * 2 ^ (szx + 4) + data.length) = size2 at h hs
  obtain ⟨i1, i2, i3, i4, i5⟩ := crcvInit_facts lg szx size2 r
  generalize crcvInit lg szx size2 r = lg2 at h i1 i2 i3 i4 i5
  -- the (re-)initialised lg_crcv satisfies the invariant
  have hinv2 : HInv cap hist lg2 := by
    cases hi : lg.initial with
    | true =>
      rw [hi] at i2 i3
      simp only [if_true] at i2 i3
      refine { wf := by rw [i2]; trivial, cnt := by rw [i2]; exact Nat.zero_le _, buf := ?_ }
      rw [i3]; exact i2
    | false =>
      rw [hi] at i2 i3 i4
      simp only [Bool.false_eq_true, if_false] at i2 i3 i4
      have hv := hlg hi
      refine { wf := by rw [i2]; exact hv.wf, cnt := by rw [i2]; exact hv.cnt, buf := ?_ }
      rw [i3, i2, i4]; exact hv.buf
  have hfail : (st', out) = (some lg2, CrcvOut.err408) →
      (∀ s', st' = some s' → s'.initial = false → HInv cap (r :: hist) s') ∧
      (∀ d l, out = CrcvOut.body d l → l ≤ d.length ∧ ∀ o, o < l → ∃ v, d[o]? = some v ∧ SentIn (r :: hist) o v) := by
    intro heq
    cases heq
    exact ⟨fun s' hs' _ => (by cases hs'; exact HInv_cons cap hist r lg2 hinv2), fun d l hb => (by cases hb)⟩
  cases he : r.etag with
  | some e =>
    rw [he] at h
    simp only at h
    by_cases hne' : e ≠ lg2.etag
    · rw [if_pos hne'] at h
      cases h
      exact ⟨fun s' hs' hi => (by cases hs'; cases hi), fun d l hb => (by cases hb)⟩
    · rw [if_neg hne'] at h
      exact crcvStore_hostile cap junk hist r lg2 num m szx data size2 r.fmt st' out hinv2 hblk hdd.symm hpos hm hs h
  | none =>
    rw [he] at h
    simp only at h
    by_cases hes : lg2.etagSet = true
    · rw [if_pos hes] at h
      exact hfail h.symm
    · rw [if_neg hes] at h
      exact crcvStore_hostile cap junk hist r lg2 num m szx data size2 r.fmt st' out hinv2 hblk hdd.symm hpos hm hs h

/-- one response of ANY kind, single-body mode -/
theorem crcvStep_hostile (cap : Nat) (junk : UInt8) (hist : List Resp) (r : Resp) (st st' : Option Crcv) (out : CrcvOut)
    (hst : ∀ s, st = some s → s.initial = false → HInv cap hist s)
    (h : crcvStep true cap junk st r = (st', out)) :
    (∀ s', st' = some s' → s'.initial = false → HInv cap (r :: hist) s') ∧
    (∀ d l, out = CrcvOut.body d l → l ≤ d.length ∧ ∀ o, o < l → ∃ v, d[o]? = some v ∧ SentIn (r :: hist) o v) := by
  have hfound : ∀ lg : Crcv, (lg.initial = false → HInv cap hist lg) → crcvFound true cap junk lg r = (st', out) →
      (∀ s', st' = some s' → s'.initial = false → HInv cap (r :: hist) s') ∧
      (∀ d l, out = CrcvOut.body d l → l ≤ d.length ∧ ∀ o, o < l → ∃ v, d[o]? = some v ∧ SentIn (r :: hist) o v) := by
    intro lg hlg hf
    unfold crcvFound at hf
    cases hb : r.blk with
    | none =>
      rw [hb] at hf
      cases hf
      exact ⟨fun s' hs' => (by cases hs'), fun d l hb => (by cases hb)⟩
    | some b =>
      obtain ⟨num, m, szx⟩ := b
      rw [hb] at hf
      simp only at hf
      by_cases hne : m ≠ 0 ∨ r.payload.length ≠ 0
      · rw [if_pos hne] at hf
        exact crcvBlock_hostile cap junk hist r lg num m szx st' out hlg hb hne hf
      · rw [if_neg hne] at hf
        cases hf
        exact ⟨fun s' hs' => (by cases hs'), fun d l hb => (by cases hb)⟩
  unfold crcvStep at h
  cases st with
  | some lg =>
    simp only at h
    exact hfound lg (fun hi => hst lg rfl hi) h
  | none =>
    simp only at h
    cases hb : r.blk with
    | none =>
      rw [hb] at h
      cases h
      exact ⟨fun s' hs' => (by cases hs'), fun d l hb => (by cases hb)⟩
    | some b =>
      obtain ⟨num, m, szx⟩ := b
      rw [hb] at h
      simp only at h
      by_cases hn0 : num ≠ 0
      · rw [if_pos hn0] at h
        cases h
        exact ⟨fun s' hs' => (by cases hs'), fun d l hb => (by cases hb)⟩
      · rw [if_neg hn0] at h
        exact hfound {} (by intro hi; cases hi) h

/-- along EVERY run: the `i`-th output, if it is a body, consists of bytes sent in the responses up to the `i`-th -/
theorem runCrcv_hostile (cap : Nat) (junk : UInt8) : ∀ (rs : List Resp) (st : Option Crcv) (hist : List Resp),
    (∀ s, st = some s → s.initial = false → HInv cap hist s) →
    ∀ i d l, (runCrcv true cap junk st rs)[i]? = some (CrcvOut.body d l) →
      l ≤ d.length ∧ ∀ o, o < l → ∃ v, d[o]? = some v ∧ SentIn (hist ++ rs.take (i + 1)) o v
  | [], _, _, _, i, d, l, h => by simp [runCrcv] at h
  | r :: rs, st, hist, hst, i, d, l, h => by
    obtain ⟨hnext, hout⟩ := crcvStep_hostile cap junk hist r st _ _ hst rfl
    unfold runCrcv at h
    cases i with
    | zero =>
      simp only [List.getElem?_cons_zero, Option.some.injEq] at h
      obtain ⟨a, b⟩ := hout d l h
      refine ⟨a, fun o ho => ?_⟩
      obtain ⟨v, h1, h2⟩ := b o ho
      refine ⟨v, h1, SentIn_mono _ _ o v ?_ h2⟩
      intro x hx
      simp only [List.take_succ_cons, List.take_zero, List.mem_append, List.mem_cons, List.mem_singleton] at hx ⊢
      rcases hx with hx | hx
      · exact Or.inr (Or.inl hx)
      · exact Or.inl hx
    | succ j =>
      simp only [List.getElem?_cons_succ] at h
      obtain ⟨a, b⟩ := runCrcv_hostile cap junk rs _ (r :: hist) hnext j d l h
      refine ⟨a, fun o ho => ?_⟩
      obtain ⟨v, h1, h2⟩ := b o ho
      refine ⟨v, h1, SentIn_mono _ _ o v ?_ h2⟩
      intro x hx
      simp only [List.take_succ_cons, List.mem_append, List.mem_cons] at hx ⊢
      rcases hx with (hx | hx) | hx
      · exact Or.inr (Or.inl hx)
      · exact Or.inl hx
      · exact Or.inr (Or.inr hx)

/-! ## per-block mode: what is handed over is this response's payload -/

/-- what a per-block output may be, given the response's Block2 option -/
def PerBlockOk (r : Resp) (o : CrcvOut) : Prop :=
  (∀ off p total nx, o = CrcvOut.block off p total nx →
    ∃ num m szx, r.blk = some (num, m, szx) ∧ off = num * 2 ^ (szx + 4) ∧ p = r.payload) ∧
  (∀ off p total, o = CrcvOut.last off p total →
    ∃ num m szx, r.blk = some (num, m, szx) ∧ off = num * 2 ^ (szx + 4) ∧ p = r.payload) ∧
  (∀ off p total, o = CrcvOut.randomAccess off p total →
    ∃ num m szx, r.blk = some (num, m, szx) ∧ off = num * 2 ^ (szx + 4) ∧ p = r.payload) ∧
  (∀ d l, o ≠ CrcvOut.body d l)

theorem perBlockOk_inert (r : Resp) (o : CrcvOut)
    (ho : o = CrcvOut.err402 ∨ o = CrcvOut.err408 ∨ o = CrcvOut.skip ∨ (∃ s, o = CrcvOut.restart s) ∨
      ∃ p, o = CrcvOut.plain p) : PerBlockOk r o := by
  rcases ho with ho | ho | ho | ⟨_, ho⟩ | ⟨_, ho⟩ <;> subst ho <;>
    exact ⟨fun _ _ _ _ h => (by cases h), fun _ _ _ h => (by cases h), fun _ _ _ h => (by cases h), fun _ _ h => (by cases h)⟩

theorem crcvStore_perblock_payload (cap : Nat) (junk : UInt8) (r : Resp) (lg : Crcv) (num m szx : Nat) (data : Bytes)
    (size2 fmt : Nat) (hblk : r.blk = some (num, m, szx)) :
    PerBlockOk r (crcvStore false cap junk lg num m szx r.payload data (num * 2 ^ (szx + 4)) size2 fmt).2 := by
  unfold crcvStore
  dsimp only
  by_cases hf : fmt ≠ lg.fmt
  · rw [if_pos hf]; exact perBlockOk_inert r _ (Or.inr (Or.inl rfl))
  rw [if_neg hf]
  by_cases hsz : szx ≠ lg.szx
  · rw [if_pos hsz]; exact perBlockOk_inert r _ (Or.inr (Or.inl rfl))
  rw [if_neg hsz]
  by_cases hr : checkIfReceived lg.recv num = true
  · rw [if_pos hr]; exact perBlockOk_inert r _ (Or.inr (Or.inr (Or.inl rfl)))
  rw [if_neg hr]
  cases hu : updateReceived cap lg.recv num with
  | mk ok rec' =>
    cases ok with
    | false => exact perBlockOk_inert r _ (Or.inr (Or.inl rfl))
    | true =>
      simp only [Bool.false_eq_true, if_false]
      by_cases hc : m ≠ 0 ∨ ¬ checkAllBlocksIn rec' ((size2 + 2 ^ (szx + 4) - 1) / 2 ^ (szx + 4)) = true
      · rw [if_pos hc]
        refine ⟨fun off p total nx h => ?_, fun _ _ _ h => (by cases h), fun _ _ _ h => (by cases h), fun _ _ h => (by cases h)⟩
        cases h
        exact ⟨num, m, szx, hblk, rfl, rfl⟩
      · rw [if_neg hc]
        refine ⟨fun _ _ _ _ h => (by cases h), fun off p total h => ?_, fun _ _ _ h => (by cases h), fun _ _ h => (by cases h)⟩
        cases h
        exact ⟨num, m, szx, hblk, rfl, rfl⟩

theorem crcvStep_perblock_payload (cap : Nat) (junk : UInt8) (st : Option Crcv) (r : Resp) :
    PerBlockOk r (crcvStep false cap junk st r).2 := by
  have hblock : ∀ lg num m szx, r.blk = some (num, m, szx) → PerBlockOk r (crcvBlock false cap junk lg num m szx r).2 := by
    intro lg num m szx hblk
    unfold crcvBlock
    dsimp only
    generalize (if r.payload.length > 2 ^ (szx + 4) then r.payload.take (2 ^ (szx + 4)) else r.payload) = data
    by_cases hund : m ≠ 0 ∧ data.length ≠ 2 ^ (szx + 4)
    · rw [if_pos hund]; exact perBlockOk_inert r _ (Or.inl rfl)
    · rw [if_neg hund]
      by_cases hlastnum : m ≠ 0 ∧ 0xFFFFF ≤ num
      · rw [if_pos hlastnum]; exact perBlockOk_inert r _ (Or.inl rfl)
      rw [if_neg hlastnum]
      cases he : r.etag with
      | some e =>
        simp only
        split
        · exact perBlockOk_inert r _ (Or.inr (Or.inr (Or.inr (Or.inl ⟨_, rfl⟩))))
        · exact crcvStore_perblock_payload _ _ _ _ _ _ _ _ _ _ hblk
      | none =>
        simp only
        split
        · exact perBlockOk_inert r _ (Or.inr (Or.inl rfl))
        · exact crcvStore_perblock_payload _ _ _ _ _ _ _ _ _ _ hblk
  have hfound : ∀ lg, PerBlockOk r (crcvFound false cap junk lg r).2 := by
    intro lg
    unfold crcvFound
    cases hb : r.blk with
    | none => exact perBlockOk_inert r _ (Or.inr (Or.inr (Or.inr (Or.inr ⟨_, rfl⟩))))
    | some b =>
      obtain ⟨num, m, szx⟩ := b
      simp only
      split
      · exact hblock lg num m szx hb
      · exact perBlockOk_inert r _ (Or.inr (Or.inr (Or.inr (Or.inr ⟨_, rfl⟩))))
  unfold crcvStep
  cases st with
  | some lg => exact hfound lg
  | none =>
    simp only
    cases hb : r.blk with
    | none => exact perBlockOk_inert r _ (Or.inr (Or.inr (Or.inr (Or.inr ⟨_, rfl⟩))))
    | some b =>
      obtain ⟨num, m, szx⟩ := b
      simp only
      split
      · refine ⟨fun _ _ _ _ h => (by cases h), fun _ _ _ h => (by cases h), fun off p total h => ?_, fun _ _ h => (by cases h)⟩
        cases h
        exact ⟨num, m, szx, hb, rfl, rfl⟩
      · exact hfound {}

end Coap.Block
