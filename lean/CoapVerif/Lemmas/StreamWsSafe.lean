import CoapVerif.Lemmas.StreamWsFeed
/- C05, WebSocket part: memory safety of the reader model for ALL byte streams — no index ≥ 160 into `http_hdr`,
   none ≥ 14 into `rd_header`, the bytes carried over after the empty line fit `rd_header`, no read of an unwritten
   byte.  (Older, direct proof with the handshake invariant "`strchr(http_hdr, '\n')` finds nothing"; since the
   correspondence proof needs no hypothesis on the bytes any more, the same follows from `feed_spec`.) -/
namespace Coap
open Coap.M Coap.M.Ws Coap.Spec.Stream Coap.Spec.Stream.Ws

/-- one round of the `while (cp)` loop, whatever the line is -/
theorem lineLoop_round (mode : Mode) (accept : Bytes) (fuel : Nat) (st : St) (i : Nat)
    (h : lfIdx st.httpHdr = some i) :
    lineLoop mode accept (fuel + 1) st = .fail ∨
    ((st.httpHdr.drop (i + 1)).length > fsCap ∧ lineLoop mode accept (fuel + 1) st = .oob) ∨
    (¬ (st.httpHdr.drop (i + 1)).length > fsCap ∧ ∃ s', lineLoop mode accept (fuel + 1) st =
        .up { st with up := true, seen := s', rdHeader := st.httpHdr.drop (i + 1), httpHdr := [] }) ∨
    (∃ s', lineLoop mode accept (fuel + 1) st =
        lineLoop mode accept fuel { st with seen := s', httpHdr := st.httpHdr.drop (i + 1) }) := by
  rw [lineLoop]
  simp only [h]
  split
  · left; rfl
  · rename_i s' endLine _
    cases endLine with
    | true =>
      simp only [if_true]
      by_cases ha : allSeen mode s' = true
      · simp only [ha, if_true]
        by_cases hl : (st.httpHdr.drop (i + 1)).length > fsCap
        · right; left; exact ⟨hl, by rw [if_pos hl]⟩
        · right; right; left; exact ⟨hl, s', by rw [if_neg hl]⟩
      · left; simp only [ha]; rfl
    | false =>
      right; right; right
      exact ⟨s', by simp⟩

theorem lfIdx_some_lt : ∀ (l : Bytes) (i : Nat), lfIdx l = some i → i < l.length := by
  intro l
  induction l with
  | nil => intro i h; simp [lfIdx] at h
  | cons b r ih =>
    intro i h
    simp only [lfIdx] at h
    by_cases hb : b = 10
    · simp only [hb, if_true, Option.some.injEq] at h; subst h; simp
    · simp only [hb, if_false] at h
      by_cases h0 : b = 0
      · simp [h0] at h
      · simp only [h0, if_false, Option.map_eq_some_iff] at h
        obtain ⟨j, hj, rfl⟩ := h
        have := ih j hj
        simp only [List.length_cons]; omega

theorem lfIdx_append_ge : ∀ (a g : Bytes) (i : Nat), lfIdx a = none → lfIdx (a ++ g) = some i → a.length ≤ i := by
  intro a
  induction a with
  | nil => intro g i _ _; simp
  | cons b r ih =>
    intro g i hn hs
    simp only [lfIdx, List.cons_append] at hn hs
    by_cases hb : b = 10
    · simp [hb] at hn
    · simp only [hb, if_false] at hn hs
      by_cases h0 : b = 0
      · simp [h0] at hs
      · simp only [h0, if_false, Option.map_eq_none_iff] at hn
        simp only [h0, if_false, Option.map_eq_some_iff] at hs
        obtain ⟨j, hj, rfl⟩ := hs
        have := ih g j hn hj
        simp only [List.length_cons]; omega

/-- the handshake reader state as far as memory safety is concerned (no assumption on the bytes) -/
def HsSafe (st : St) : Prop :=
  st.up = false ∧ lfIdx st.httpHdr = none ∧ st.httpHdr.length ≤ httpCap - 1 ∧
  st.rdHeader = [] ∧ st.allHdrIn = false ∧ st.rxData = none

def LinesSafe (st : St) : Lines → Prop
  | .oob => False
  | .fail => True
  | .cont st' => st'.up = false ∧ lfIdx st'.httpHdr = none ∧ st'.httpHdr.length ≤ st.httpHdr.length ∧
      st'.rdHeader = st.rdHeader ∧ st'.allHdrIn = st.allHdrIn ∧ st'.rxData = st.rxData
  | .up st' => st'.up = true ∧ st'.rdHeader.length < fsCap ∧ st'.allHdrIn = st.allHdrIn ∧ st'.rxData = st.rxData

/-- the line loop never copies more than 13 bytes into `rd_header`, whatever the bytes are: an LF found in the
buffer lies in the last 14 bytes read -/
theorem lineLoop_safe (mode : Mode) (accept : Bytes) : ∀ (fuel : Nat) (st : St), st.up = false →
    st.httpHdr.length < fuel → (∀ i, lfIdx st.httpHdr = some i → st.httpHdr.length ≤ i + fsCap) →
    LinesSafe st (lineLoop mode accept fuel st) := by
  intro fuel
  induction fuel with
  | zero => intro st _ h; omega
  | succ fuel ih =>
    intro st hup hfuel hb
    rcases hlf : lfIdx st.httpHdr with _ | i
    · rw [lineLoop_noLF mode accept _ st hlf]
      exact ⟨hup, hlf, Nat.le_refl _, rfl, rfl, rfl⟩
    · have hi := lfIdx_some_lt _ _ hlf
      have hbi := hb i hlf
      have hrem : (st.httpHdr.drop (i + 1)).length + i + 1 = st.httpHdr.length := by
        rw [List.length_drop]; omega
      rcases lineLoop_round mode accept fuel st i hlf with h | ⟨hl, _⟩ | ⟨_, s', h⟩ | ⟨s', h⟩
      · rw [h]; trivial
      · omega
      · rw [h]; exact ⟨rfl, by simp only; omega, rfl, rfl⟩
      · rw [h]
        have := ih { st with seen := s', httpHdr := st.httpHdr.drop (i + 1) } hup (by simp only; omega)
          (fun j _ => by simp only; omega)
        generalize lineLoop mode accept fuel { st with seen := s', httpHdr := st.httpHdr.drop (i + 1) } = res at this
        cases res with
        | oob => exact this
        | fail => trivial
        | cont st' =>
          obtain ⟨h1, h2, h3, h4, h5, h6⟩ := this
          exact ⟨h1, h2, by simp only at h3; omega, h4, h5, h6⟩
        | up st' => exact this

def RdSafe (av : Bytes) : R (St × Bytes) → Prop
  | R.oob => False
  | R.rej => True
  | R.ok (st', av') => (av'.length ≤ av.length ∧ (av ≠ [] → av'.length < av.length)) ∧
      (HsSafe st' ∨ (FrPre st' st'.rdHeader ∧ st'.rdHeader.length < fsCap))

/-- `coap_ws_rd_http_header` stays inside `http_hdr[160]` and `rd_header[14]` for all bytes -/
theorem rdHttpHeader_safe (mode : Mode) (accept : Bytes) : ∀ (fuel : Nat) (st : St) (av : Bytes), av.length < fuel →
    HsSafe st → RdSafe av (rdHttpHeader mode accept fuel st av) := by
  intro fuel
  induction fuel with
  | zero => intro st av h; exact False.elim (by omega)
  | succ f ih =>
    intro st av hfuel hs
    obtain ⟨hup, hlf, hlen, hrd, hall, hrx⟩ := hs
    obtain ⟨up, H, seen, rdHeader, allHdrIn, maskKey, dataOfs, dataSize, rxData⟩ := st
    simp only at hup hlf hlen hrd hall hrx
    subst hup hrd hall hrx
    generalize hrem : (if httpCap - 1 - H.length > fsCap then fsCap else httpCap - 1 - H.length) = rem
    have hrem_le : rem ≤ httpCap - 1 - H.length ∧ rem ≤ fsCap := by
      rw [← hrem]; split <;> omega
    by_cases h0 : rem = 0
    · simp only [rdHttpHeader, hrem, if_pos h0, Bool.false_eq_true, if_false]; trivial
    · by_cases hg : (av.take rem).length = 0
      · simp only [rdHttpHeader, hrem, if_neg h0, if_pos hg, Bool.false_eq_true, if_false]
        have hav : av = [] := by
          rw [List.length_take] at hg
          exact List.length_eq_zero_iff.mp (by omega)
        exact ⟨⟨Nat.le_refl _, fun hne => absurd hav hne⟩, Or.inl ⟨rfl, hlf, hlen, rfl, rfl, rfl⟩⟩
      · have hgl : (av.take rem).length ≤ rem := by rw [List.length_take]; omega
        have hbuf : ¬ (H ++ av.take rem).length ≥ httpCap := by
          rw [List.length_append]; simp only [httpCap] at *; omega
        simp only [rdHttpHeader, hrem, if_neg h0, if_neg hg, if_neg hbuf, Bool.false_eq_true, if_false]
        have hsafe := lineLoop_safe mode accept ((H ++ av.take rem).length + 1)
          ⟨false, H ++ av.take rem, seen, [], false, maskKey, dataOfs, dataSize, none⟩ rfl (Nat.lt_succ_self _)
          (fun i hi => by
            have := lfIdx_append_ge H (av.take rem) i hlf hi
            simp only [List.length_append]; omega)
        generalize lineLoop mode accept ((H ++ av.take rem).length + 1)
          ⟨false, H ++ av.take rem, seen, [], false, maskKey, dataOfs, dataSize, none⟩ = res at hsafe
        have hdl : (av.drop rem).length < av.length := by
          rw [List.length_take] at hg
          rw [List.length_drop]; omega
        cases res with
        | oob => exact hsafe
        | fail => trivial
        | up st' =>
          obtain ⟨h1, h2, h3, h4⟩ := hsafe
          exact ⟨⟨by omega, fun _ => hdl⟩, Or.inr ⟨⟨h1, h3, rfl, h4⟩, h2⟩⟩
        | cont st' =>
          obtain ⟨h1, h2, h3, h4, h5, h6⟩ := hsafe
          simp only at h3 h4 h5 h6
          show RdSafe av (rdHttpHeader mode accept f st' (av.drop rem))
          have := ih st' (av.drop rem) (by omega) ⟨h1, h2, by
            rw [List.length_append] at h3; simp only [httpCap] at *; omega, h4, h5, h6⟩
          generalize rdHttpHeader mode accept f st' (av.drop rem) = rr at this
          cases rr with
          | oob => exact this
          | rej => trivial
          | ok pr => exact ⟨⟨by have := this.1.1; omega, fun _ => by have := this.1.1; omega⟩, this.2⟩

/-! ### memory safety of the whole reader for ALL byte streams -/

def Safe (mode : Mode) (st : St) : Prop := HsSafe st ∨ ∃ p, WsInv mode st (.fr p)

theorem safe_of_inv (mode : Mode) (st : St) (a : Abs) (h : WsInv mode st a) : Safe mode st := by
  cases a with
  | hs s l =>
    obtain ⟨⟨h1, h2, h3, h4, h5, h6⟩, _, _⟩ := h
    exact Or.inl ⟨h1, by rw [lfIdx_eq]; exact h2, by omega, h4, h5, h6⟩
  | fr p => exact Or.inr ⟨p, h⟩

def SessSafe (mode : Mode) (av : Bytes) : List Msg × Sess × Bytes → Prop
  | (_, .oob, _) => False
  | (_, .open st', av') => Safe mode st' ∧ (av ≠ [] → av'.length < av.length)
  | (_, .closed, _) => True

theorem SessSafe_of_fr (mode : Mode) (X : Bytes) (c : Prop) (p av av1 : Bytes) (res : List Msg × Sess × Bytes)
    (h : SessFr mode X c p av1 res) (hlt : av ≠ [] → av1.length < av.length) : SessSafe mode av res := by
  obtain ⟨ms, sess, av'⟩ := res
  cases sess with
  | oob => exact h
  | closed => trivial
  | «open» st' =>
    simp only [SessFr] at h
    obtain ⟨⟨p', hi, _⟩, hle, _⟩ := h
    exact ⟨Or.inr ⟨p', hi⟩, fun hne => by have := hlt hne; omega⟩

theorem readSession_safe (mode : Mode) (accept : Bytes) (st : St) (av : Bytes) (h : Safe mode st) :
    SessSafe mode av (readSession mode accept (av.length + fsCap + 2) st av) := by
  rcases h with hs | ⟨p, hinv⟩
  · have hsafe := rdHttpHeader_safe mode accept (av.length + 2) st av (by omega) hs
    generalize hrr : rdHttpHeader mode accept (av.length + 2) st av = rr at hsafe
    have hfu : av.length + fsCap + 2 = (av.length + fsCap + 1) + 1 := rfl
    cases rr with
    | oob => exact hsafe.elim
    | rej =>
      rw [hfu, readSession]
      simp only [wsRead, hs.1, hrr, Bool.not_false, if_true]
      trivial
    | ok pr =>
      obtain ⟨st', av'⟩ := pr
      obtain ⟨⟨hle, hlt⟩, hcase⟩ := hsafe
      rcases hcase with hs' | ⟨hpre, hlen⟩
      · rw [hfu, readSession]
        simp only [wsRead, hs.1, hrr, Bool.not_false, if_true, hs'.1]
        exact ⟨Or.inl hs', hlt⟩
      · have hup' := hpre.1
        by_cases h0 : st'.rdHeader.length = 0
        · rw [hfu, readSession]
          simp only [wsRead, hs.1, hrr, Bool.not_false, if_true, hup', Bool.not_true, Bool.false_eq_true, if_false, h0]
          have hnil : st'.rdHeader = [] := List.length_eq_zero_iff.mp h0
          exact ⟨Or.inr ⟨[], Or.inl ⟨by rw [← hnil]; exact hpre, trivial⟩⟩, hlt⟩
        · have hw : wsRead mode accept rxBuf st av = readFrame mode rxBuf (av'.length + fsCap + 2) st' av' := by
            simp only [wsRead, hs.1, hrr, Bool.not_false, if_true, hup', Bool.not_true, Bool.false_eq_true, if_false, h0]
          have hpost : FrPost mode [] (st'.rdHeader.length < fsCap) st'.rdHeader av' (wsRead mode accept rxBuf st av) := by
            rw [hw]; exact readFrame_spec mode [] _ st' av' st'.rdHeader hpre (by omega) (by omega)
          have := readSession_of_post mode accept [] (av.length + fsCap + 1)
            (readSession_fr mode accept [] (av.length + fsCap + 1)) st av st'.rdHeader av' _ hpost (by omega)
          exact SessSafe_of_fr mode [] _ _ av av' _ this hlt
  · have := readSession_spec mode accept [] st av (.fr p) hinv
    generalize readSession mode accept (av.length + fsCap + 2) st av = res at this
    obtain ⟨ms, sess, av'⟩ := res
    cases sess with
    | oob => exact this
    | closed => trivial
    | «open» st' =>
      simp only [SessPost] at this
      obtain ⟨⟨a', hi, _⟩, _, hlt⟩ := this
      exact ⟨safe_of_inv mode st' a' hi, hlt⟩

def ChunkSafe (mode : Mode) : List Msg × Sess × Bool → Prop
  | (_, .oob, _) => False
  | (_, .open st', stuck) => Safe mode st' ∧ stuck = false
  | (_, .closed, _) => True

theorem feedChunk_safe (mode : Mode) (accept : Bytes) : ∀ (fuel idle : Nat) (st : St) (av : Bytes), Safe mode st →
    ChunkSafe mode (feedChunk mode accept fuel idle st av) := by
  intro fuel
  induction fuel with
  | zero => intro _ st _ h; exact ⟨h, rfl⟩
  | succ fuel ih =>
    intro idle st av h
    rw [feedChunk]
    by_cases h0 : av.length = 0
    · rw [if_pos h0]; exact ⟨h, rfl⟩
    · rw [if_neg h0]
      have hne : av ≠ [] := fun e => h0 (by rw [e]; rfl)
      have hs := readSession_safe mode accept st av h
      generalize readSession mode accept (av.length + fsCap + 2) st av = res at hs
      obtain ⟨ms, sess, av'⟩ := res
      cases sess with
      | oob => exact hs.elim
      | closed => trivial
      | «open» st' =>
        obtain ⟨hsafe, hlt⟩ := hs
        have hneq : ¬ av'.length = av.length := by have := hlt hne; omega
        simp only [if_neg hneq]
        have hr := ih 0 st' av' hsafe
        generalize feedChunk mode accept fuel 0 st' av' = r at hr
        obtain ⟨ms2, sess2, b⟩ := r
        cases sess2 with
        | oob => exact hr
        | closed => trivial
        | «open» st'' => exact hr

theorem feed_safe (mode : Mode) (accept : Bytes) : ∀ (chunks : List Bytes) (st : St), Safe mode st →
    ChunkSafe mode (feed mode accept st chunks) := by
  intro chunks
  induction chunks with
  | nil => intro st h; exact ⟨h, rfl⟩
  | cons c cs ih =>
    intro st h
    have hc := feedChunk_safe mode accept (6 * (c.length + 1)) 0 st c h
    rw [feed]
    generalize feedChunk mode accept (6 * (c.length + 1)) 0 st c = r at hc
    obtain ⟨ms, sess, stuck⟩ := r
    cases sess with
    | oob => exact hc.elim
    | closed => trivial
    | «open» st' =>
      obtain ⟨hsafe, hst⟩ := hc
      subst hst
      simp only
      have hr := ih st' hsafe
      generalize feed mode accept st' cs = r2 at hr
      obtain ⟨ms2, sess2, b⟩ := r2
      cases sess2 with
      | oob => exact hr
      | closed => trivial
      | «open» st'' => exact hr
end Coap
