import CoapVerif.Lemmas.Async
/-
Lemmas for C10: the session reference balance of the deferred-response machine (Model/Async.lean) as an inductive
invariant over `touch / register / checkAsync / reap / free / setNth`, for EVERY pair of decision procedures `Dec`:

  * `session->ref` = number of `coap_async_t` of the list whose `session` is this session (the machine has no other
    holder kind: observers, queued messages and application references are C11's / C12's state — C12's `ref_eq_holders`
    is the same statement over all holder kinds, `HKind.async / asyncD` being this one);
  * every entry names a session of the endpoint's session table (never a freed one);
  * the idle reaper never frees a session an entry of the list names.
-/
namespace Coap.Async.L
open Coap Coap.Server Coap.Async

/-- number of entries of the list holding a reference on the session of peer `p` -/
def cnt (l : List Entry) (p : Nat) : Nat := (l.map (·.sess)).count p

/-- the invariant -/
structure Bal (st : St) : Prop where
  /-- session->ref = number of holders -/
  refs : ∀ s ∈ st.sess, s.ref = cnt st.async s.peer
  /-- async->session is a session of the table -/
  live : ∀ p ∈ st.async.map (·.sess), p ∈ st.sess.map (·.peer)
  /-- one session per peer address -/
  nodup : (st.sess.map (·.peer)).Nodup

theorem cnt_cons (a : Entry) (r : List Entry) (p : Nat) :
    cnt (a :: r) p = cnt r p + (if a.sess = p then 1 else 0) := by
  simp [cnt, List.count_cons]

theorem cnt_pos_of_mem {l : List Entry} {e : Entry} (h : e ∈ l) : 0 < cnt l e.sess := by
  unfold cnt
  exact List.count_pos_iff.mpr (List.mem_map_of_mem h)

theorem cnt_zero_of_not_mem {l : List Entry} {p : Nat} (h : p ∉ l.map (·.sess)) : cnt l p = 0 := by
  unfold cnt
  exact List.count_eq_zero.mpr h

/-! ### the session table -/
theorem updSess_peers (ss : List Sess) (p : Nat) (f : Sess → Sess) (hf : ∀ s, (f s).peer = s.peer) :
    (updSess ss p f).map (·.peer) = ss.map (·.peer) := by
  unfold updSess
  rw [List.map_map]
  apply List.map_congr_left
  intro s _
  simp only [Function.comp]
  split
  · exact hf s
  · rfl

theorem updSess_forall {ss : List Sess} {p : Nat} {f : Sess → Sess} {P : Sess → Prop}
    (h1 : ∀ s ∈ ss, s.peer ≠ p → P s) (h2 : ∀ s ∈ ss, s.peer = p → P (f s)) : ∀ s ∈ updSess ss p f, P s := by
  intro s hs
  unfold updSess at hs
  rcases List.mem_map.mp hs with ⟨x, hx, rfl⟩
  by_cases hp : x.peer = p
  · simp only [hp, beq_self_eq_true, if_true]; exact h2 x hx hp
  · have : (x.peer == p) = false := by simpa using hp
    simp only [this, Bool.false_eq_true, if_false]; exact h1 x hx hp

theorem release_peers (ss : List Sess) (p : Nat) : (release ss p).map (·.peer) = ss.map (·.peer) :=
  updSess_peers ss p _ (fun _ => rfl)

theorem sessOf_none {ss : List Sess} {p : Nat} (h : sessOf ss p = none) : p ∉ ss.map (·.peer) := by
  intro hm
  rcases List.mem_map.mp hm with ⟨s, hs, rfl⟩
  have := List.find?_eq_none.mp h s hs
  simp at this

theorem sessOf_some {ss : List Sess} {p : Nat} {s : Sess} (h : sessOf ss p = some s) : s ∈ ss ∧ s.peer = p := by
  refine ⟨List.mem_of_find?_eq_some h, ?_⟩
  have := List.find?_some h
  simpa using this

/-! ### coap_endpoint_get_session -/
theorem touch_bal (c : Async.Cfg) (st : St) (p : Nat) (h : Bal st) :
    Bal { st with sess := touch c st.sess p st.now } := by
  unfold touch
  split
  · refine ⟨?_, ?_, ?_⟩
    · exact updSess_forall (fun s hs _ => h.refs s hs) (fun s hs _ => h.refs s hs)
    · dsimp only
      rw [updSess_peers]
      · exact h.live
      · intro _; rfl
    · dsimp only
      rw [updSess_peers]
      · exact h.nodup
      · intro _; rfl
  · rename_i hn
    have hn' : sessOf st.sess p = none := by simpa using hn
    have hnp := sessOf_none hn'
    refine ⟨?_, ?_, ?_⟩
    · intro s hs
      rcases List.mem_cons.mp hs with rfl | hs
      · dsimp only
        exact (cnt_zero_of_not_mem (fun hm => hnp (h.live p hm))).symm
      · exact h.refs s hs
    · intro q hq
      dsimp only
      rw [List.map_cons]
      exact List.mem_cons_of_mem _ (h.live q hq)
    · dsimp only
      rw [List.map_cons, List.nodup_cons]
      exact ⟨hnp, h.nodup⟩

/-! ### coap_register_async: coap_session_reference_lkd -/
theorem register_bal (st : St) (p : Nat) (call : Call) (type : Nat) (tok : Bytes) (d : Nat) (h : Bal st) :
    Bal (register st p call type tok d).1 := by
  unfold register
  split
  · exact h
  · split
    · exact h
    · split
      · exact h
      · rename_i s hs
        have hs' := sessOf_some hs
        refine ⟨?_, ?_, ?_⟩
        · dsimp only
          apply updSess_forall
          · intro x hx hp
            rw [cnt_cons, if_neg (fun h' => hp h'.symm)]
            exact h.refs x hx
          · intro x hx hp
            rw [cnt_cons, if_pos hp.symm]
            dsimp only
            rw [h.refs x hx]
        · dsimp only
          rw [updSess_peers]
          · intro q hq
            rw [List.map_cons] at hq
            rcases List.mem_cons.mp hq with rfl | hq
            · exact List.mem_map.mpr ⟨s, hs'.1, hs'.2⟩
            · exact h.live q hq
          · intro _; rfl
        · dsimp only
          rw [updSess_peers]
          · exact h.nodup
          · intro _; rfl

/-! ### coap_check_async: coap_free_async_lkd of what fired -/
theorem check_peers (dec : Dec) (v : Verdict) (now : Nat) : ∀ (l : List Entry) (ss : List Sess) (nd : Nat),
    (checkAsync dec v now l ss nd).2.2.1.map (·.peer) = ss.map (·.peer) := by
  intro l
  induction l with
  | nil => intro ss nd; simp [checkAsync]
  | cons a r ih =>
    intro ss nd
    by_cases h : a.delay ≠ 0 ∧ a.delay ≤ now
    · rw [check_pos _ _ _ _ _ _ _ h]
      dsimp only
      rw [ih, release_peers]
      split
      · rfl
      · rw [updSess_peers]
        intro _; rfl
    · rw [check_neg _ _ _ _ _ _ _ h]
      exact ih _ _

/-- the references while the loop runs: `base` = the entries already decided to stay -/
theorem check_refs (dec : Dec) (v : Verdict) (now : Nat) : ∀ (l : List Entry) (ss : List Sess) (nd : Nat) (base : Nat → Nat),
    (∀ s ∈ ss, s.ref = base s.peer + cnt l s.peer) →
    ∀ s ∈ (checkAsync dec v now l ss nd).2.2.1, s.ref = base s.peer + cnt (checkAsync dec v now l ss nd).2.1 s.peer := by
  intro l
  induction l with
  | nil => intro ss nd base h; simpa [checkAsync] using h
  | cons a r ih =>
    intro ss nd base hss
    by_cases h : a.delay ≠ 0 ∧ a.delay ≤ now
    · rw [check_pos _ _ _ _ _ _ _ h]
      dsimp only
      apply ih
      have h1 : ∀ s ∈ (if (dec.again a.req v).replies.isEmpty then ss else
          updSess ss a.sess (fun s => { s with last := now })), s.ref = base s.peer + cnt (a :: r) s.peer := by
        split
        · exact hss
        · exact updSess_forall (fun s hs _ => hss s hs) (fun s hs _ => hss s hs)
      unfold release
      apply updSess_forall
      · intro x hx hp
        have := h1 x hx
        rw [cnt_cons, if_neg (fun h' => hp h'.symm)] at this
        exact this
      · intro x hx hp
        have := h1 x hx
        rw [cnt_cons, if_pos hp.symm] at this
        dsimp only
        omega
    · rw [check_neg _ _ _ _ _ _ _ h]
      dsimp only
      have := ih ss (if nd = 0 ∨ nd > (a.delay + W - now) % W then (a.delay + W - now) % W else nd)
        (fun p => base p + (if a.sess = p then 1 else 0)) (by
          intro s hs
          have := hss s hs
          rw [cnt_cons] at this
          omega)
      intro s hs
      have := this s hs
      rw [cnt_cons]
      omega

/-! ### coap_io_prepare_io: coap_check_async, then the idle sessions -/
theorem prepare_sess (c : Async.Cfg) (dec : Dec) (v : Verdict) (st : St) :
    (prepare c dec v st).1.sess = (checkAsync dec v st.now st.async st.sess 0).2.2.1.filter (fun s => !idle c st.now s) ∧
    (prepare c dec v st).1.async = (checkAsync dec v st.now st.async st.sess 0).2.1 ∧
    (prepare c dec v st).2.reaped = ((checkAsync dec v st.now st.async st.sess 0).2.2.1.filter (idle c st.now)).map (·.peer) := by
  unfold prepare reap
  exact ⟨rfl, rfl, rfl⟩

theorem prepare_bal (c : Async.Cfg) (dec : Dec) (v : Verdict) (st : St) (h : Bal st) :
    Bal (prepare c dec v st).1 ∧
    (∀ p ∈ (prepare c dec v st).2.reaped, cnt (prepare c dec v st).1.async p = 0) := by
  have hp := prepare_sess c dec v st
  have hr := check_refs dec v st.now st.async st.sess 0 (fun _ => 0) (by
    intro s hs; rw [h.refs s hs]; omega)
  have hpe := check_peers dec v st.now st.async st.sess 0
  have hk := check_kept dec v st.now st.async st.sess 0
  refine ⟨⟨?_, ?_, ?_⟩, ?_⟩
  · intro s hs
    rw [hp.1] at hs
    rw [hp.2.1]
    have := hr s (List.mem_filter.mp hs).1
    omega
  · intro q hq
    rw [hp.2.1] at hq
    rw [hp.1]
    rcases List.mem_map.mp hq with ⟨e, he, rfl⟩
    have he0 := he
    rw [hk] at he
    have hq0 : e.sess ∈ st.sess.map (·.peer) := h.live _ (List.mem_map_of_mem (List.mem_filter.mp he).1)
    rw [← hpe] at hq0
    rcases List.mem_map.mp hq0 with ⟨s, hs, hse⟩
    refine List.mem_map.mpr ⟨s, List.mem_filter.mpr ⟨hs, ?_⟩, hse⟩
    have h1 := hr s hs
    have h2 := cnt_pos_of_mem he0
    rw [← hse] at h2
    have : s.ref ≠ 0 := by omega
    simp [idle, this]
  · rw [hp.1]
    have : ((checkAsync dec v st.now st.async st.sess 0).2.2.1.filter (fun s => !idle c st.now s)).map (·.peer) |>.Sublist
        ((checkAsync dec v st.now st.async st.sess 0).2.2.1.map (·.peer)) := List.filter_sublist.map _
    rw [hpe] at this
    exact this.nodup h.nodup
  · intro p hpm
    rw [hp.2.2] at hpm
    rw [hp.2.1]
    rcases List.mem_map.mp hpm with ⟨s, hs, rfl⟩
    have hs' := List.mem_filter.mp hs
    have h1 := hr s hs'.1
    have h0 : s.ref = 0 := by
      have := hs'.2
      simp only [idle, Bool.and_eq_true, beq_iff_eq] at this
      exact this.1
    omega

/-! ### coap_async_trigger / coap_async_set_delay -/
theorem setNth_sess (f : Entry → Entry) (hf : ∀ e, (f e).sess = e.sess) : ∀ (l : List Entry) (k : Nat),
    (setNth l k f).map (·.sess) = l.map (·.sess) := by
  intro l
  induction l with
  | nil => intro k; simp [setNth]
  | cons a r ih =>
    intro k
    cases k with
    | zero => simp [setNth, hf]
    | succ k => simp [setNth, ih]

theorem setNth_bal (st : St) (k : Nat) (f : Entry → Entry) (hf : ∀ e, (f e).sess = e.sess) (h : Bal st) :
    Bal { st with async := setNth st.async k f } := by
  refine ⟨?_, ?_, h.nodup⟩
  · intro s hs
    dsimp only [cnt]
    rw [setNth_sess f hf]
    exact h.refs s hs
  · dsimp only
    rw [setNth_sess f hf]
    exact h.live

/-! ### coap_free_async: coap_session_release_lkd -/
theorem cnt_eraseIdx : ∀ (l : List Entry) (k : Nat) (e : Entry) (q : Nat), l[k]? = some e →
    cnt l q = cnt (l.eraseIdx k) q + (if e.sess = q then 1 else 0) := by
  intro l
  induction l with
  | nil => intro k e q h; simp at h
  | cons a r ih =>
    intro k e q h
    cases k with
    | zero =>
      simp only [List.getElem?_cons_zero, Option.some.injEq] at h
      subst h
      rw [List.eraseIdx_cons_zero, cnt_cons]
    | succ k =>
      simp only [List.getElem?_cons_succ] at h
      rw [List.eraseIdx_cons_succ, cnt_cons, cnt_cons, ih k e q h]
      omega

theorem free_bal (st : St) (k : Nat) (e : Entry) (hk : st.async[k]? = some e) (h : Bal st) :
    Bal { st with async := st.async.eraseIdx k, sess := release st.sess e.sess } := by
  refine ⟨?_, ?_, ?_⟩
  · dsimp only
    unfold release
    apply updSess_forall
    · intro x hx hp
      have := cnt_eraseIdx st.async k e x.peer hk
      rw [if_neg (fun h' => hp h'.symm)] at this
      rw [h.refs x hx]; omega
    · intro x hx hp
      have := cnt_eraseIdx st.async k e x.peer hk
      rw [if_pos hp.symm] at this
      dsimp only
      rw [h.refs x hx]; omega
  · dsimp only
    rw [release_peers]
    intro q hq
    exact h.live q ((List.eraseIdx_sublist st.async k).map _ |>.subset hq)
  · dsimp only
    rw [release_peers]
    exact h.nodup

/-! ### every event -/
theorem rxOwn_bal (c : Async.Cfg) (dec : Dec) (st : St) (p : Nat) (defer : Option Nat) (rq : Request) (h : Bal st) :
    Bal (rxOwn c dec st p defer rq).1.1 := by
  unfold rxOwn
  dsimp only
  split
  · exact register_bal _ _ _ _ _ _ (touch_bal c st p h)
  · exact touch_bal c st p h

theorem step_bal (c : Async.Cfg) (dec : Dec) (st : St) (ev : Async.Ev) (h : Bal st) :
    Bal (step c dec st ev).1 ∧ (∀ p ∈ (step c dec st ev).2.reaped, cnt (step c dec st ev).1.async p = 0) := by
  cases ev with
  | rx p defer rq =>
    simp only [step]
    exact prepare_bal _ _ _ _ (rxOwn_bal c dec st p defer rq h)
  | io dt v =>
    simp only [step]
    exact prepare_bal _ _ _ _ ⟨h.refs, h.live, h.nodup⟩
  | trigger k =>
    simp only [step]
    exact ⟨setNth_bal st k _ (fun _ => rfl) h, by intro p hp; simp at hp⟩
  | setDelay k d =>
    simp only [step]
    exact ⟨setNth_bal st k _ (fun _ => rfl) h, by intro p hp; simp at hp⟩
  | free k =>
    simp only [step]
    split
    · rename_i e hk
      exact ⟨free_bal st k e hk h, by intro p hp; simp at hp⟩
    · exact ⟨h, by intro p hp; simp at hp⟩

theorem init_bal (c : Async.Cfg) : Bal (St.init c) :=
  ⟨by intro s hs; simp [St.init] at hs, by intro p hp; simp [St.init] at hp, by simp [St.init]⟩

theorem final_bal (c : Async.Cfg) (dec : Dec) : ∀ (evs : List Async.Ev) (st : St), Bal st → Bal (final c dec st evs) := by
  intro evs
  induction evs with
  | nil => intro st h; exact h
  | cons ev r ih => intro st h; exact ih _ (step_bal c dec st ev h).1

end Coap.Async.L
